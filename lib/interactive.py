"""T8 cases for the parts of the driver only a terminal or an unusual option reaches (found uncovered by tools/coverage.sh):
answers typed on /dev/tty (reversed patch, missing file, Prereq), -o - (result on standard output), --help / --version, a git rename that
has been carried out already, trailing garbage under --verbose."""
import box, emit, gen

A = [(b"one", "L"), (b"two", "L"), (b"three", "L"), (b"four", "L")]
B = [(b"one", "L"), (b"2", "L"), (b"three", "L"), (b"four", "L")]


def cases():
    hs = gen.make_hunks(A, B, 1)
    u = emit.unified_text(hs, b"f", b"f")
    a_, b_ = gen.render(A, "keep"), gen.render(B, "keep")
    out = []
    def add(tree, argv, tty=None, stdin=b""):
        t = box.Tree(tree)
        out.append(dict(tree=t, argv=argv, tty=tty, stdin=stdin))
    # an applied patch run again: "Assume -R? [n]" / "Apply anyway? [n]"
    for ans in ([], [b"y"], [b"n", b"y"], [b"n", b"n"], [b""], [b"", b""], [b"yes"], [b"no", b"yes"], [b"x", b"y"], [b"n"]):
        add({b"f": ("f", b_, 0o644), b"p.diff": ("f", u, 0o644)}, [b"-i", b"p.diff"], tty=ans)
        add({b"f": ("f", b_, 0o644), b"p.diff": ("f", u, 0o644)}, [b"-R", b"-i", b"p.diff"], tty=ans)       # (fits: nothing is asked)
        add({b"f": ("f", a_, 0o644), b"p.diff": ("f", u, 0o644)}, [b"-R", b"-i", b"p.diff"], tty=ans)       # unreversed detected
    # no file to patch: "File to patch:" / "Skip this patch? [y]"
    miss = emit.unified_text(hs, b"nosuch", b"nosuch") + emit.unified_text(hs, b"g", b"g")
    for ans in ([], [b"f"], [b"", b"y"], [b"", b""], [b"", b"n", b"f"], [b"nowhere", b"y"], [b"nowhere", b"n", b"f"], [b"d", b"y"], [b"f", b"extra"]):
        add({b"f": ("f", a_, 0o644), b"g": ("f", a_, 0o644), b"d": ("d", 0o755), b"p.diff": ("f", miss, 0o644)}, [b"-i", b"p.diff"], tty=ans)
    # Prereq text missing: "patch anyway? [n]"
    pre = b"Prereq: 9.9\n" + u
    for ans in ([], [b"y"], [b"n"], [b""], [b"yes"]):
        add({b"f": ("f", a_, 0o644), b"p.diff": ("f", pre, 0o644)}, [b"-i", b"p.diff"], tty=ans)
    # -o - : the result on standard output, the tree untouched
    for extra in ([], [b"-R"], [b"--dry-run"], [b"-b"]):
        add({b"f": ("f", b_ if b"-R" in extra else a_, 0o644), b"p.diff": ("f", u, 0o644)}, extra + [b"-o", b"-", b"-i", b"p.diff"])
    add({b"f": ("f", a_, 0o644)}, [b"-o", b"-"], stdin=u)
    # --help / --version: exit 0, nothing touched
    for opt in (b"--help", b"--version", b"-v"):
        add({b"f": ("f", a_, 0o644), b"p.diff": ("f", u, 0o644)}, [opt])
        add({b"f": ("f", a_, 0o644), b"p.diff": ("f", u, 0o644)}, [b"-i", b"p.diff", opt])
    # a git rename whose file is already at its new name
    ren = emit.git_text(hs, b"f", b"g", "rename")
    add({b"g": ("f", a_, 0o644), b"p.diff": ("f", ren, 0o644)}, [b"-p1", b"-i", b"p.diff"])
    add({b"g": ("f", b_, 0o644), b"p.diff": ("f", emit.git_text([], b"f", b"g", "rename", similarity=100), 0o644)}, [b"-p1", b"-i", b"p.diff"])
    # trailing garbage, with and without --verbose
    for extra in ([], [b"--verbose"]):
        add({b"f": ("f", a_, 0o644), b"p.diff": ("f", u + b"-- \nsome signature\n", 0o644)}, extra + [b"-i", b"p.diff"])
    # a context diff that deletes a file (operation inferred while the body is read) and one that empties it
    cdel = emit.context_text(gen.make_hunks(A, [], 3), b"f", b"/dev/null", b"2020-01-01 00:00:00.000000000 +0000", b"1970-01-01 00:00:00.000000000 +0000")
    add({b"f": ("f", a_, 0o644), b"p.diff": ("f", cdel, 0o644)}, [b"-i", b"p.diff"])
    add({b"d/f": ("f", a_, 0o644), b"p.diff": ("f", cdel.replace(b"*** f", b"*** d/f"), 0o644)}, [b"-p0", b"-i", b"p.diff"])
    return out
