"""C12 at driver level: among the old, new and Index names the first one that exists is chosen; /dev/null is never opened."""
import itertools
import box, drv, gen, emit


def run(R):
    quick = R.tier == "quick"
    rng = R.rng
    a = [(b"one", "L"), (b"two", "L"), (b"three", "L")]
    b = [(b"one", "L"), (b"2", "L"), (b"three", "L")]
    hs = gen.make_hunks(a, b, 1)
    A = gen.render(a, "keep"); B = gen.render(b, "keep")
    jobs, meta = [], []
    names = {"old": b"pre/dir/old.c", "new": b"pre/dir/new.c", "index": b"pre/dir/idx.c"}
    for strip in (0, 1, 2, None):
        for pattern in itertools.product([False, True], repeat=3):
            text = b"Index: " + names["index"] + b"\n" + emit.unified_text(hs, names["old"], names["new"])
            def stripped(n):
                if strip is None: return n.rsplit(b"/", 1)[-1]
                parts = n.split(b"/"); return b"/".join(parts[strip:])
            tree = box.Tree({b"p.diff": ("f", text, 0o644)})
            for key, ex in zip(("old", "new", "index"), pattern):
                if ex:
                    tree[stripped(names[key])] = ("f", A, 0o644)
            argv = ([b"-p%d" % strip] if strip is not None else []) + [b"-i", b"p.diff"]
            jobs.append(dict(cut=R.cut, tree=tree, argv=argv, strace={"trace": True}))
            first = next((stripped(names[k]) for k, ex in zip(("old", "new", "index"), pattern) if ex), None)
            meta.append((strip, pattern, first, "order"))
    # /dev/null on one side and an Index: line: the Index name is a candidate like the others (svn-style removal / creation patches)
    for strip in (0, 1):
        for kind, old, new in (("removal", b"gone.c" if strip else b"x/gone.c", b"/dev/null"), ("creation", b"/dev/null", b"made.c" if strip else b"x/made.c")):
            idx = b"proj/sub/real.c" if strip else b"real.c"
            hs2 = gen.make_hunks(a, [], 3) if kind == "removal" else gen.make_hunks(a, b, 1)
            text = b"Index: " + idx + b"\n" + emit.unified_text(hs2, old, new, b"", b"")
            stripped_idx = b"sub/real.c" if strip else b"real.c"
            tree = box.Tree({b"p.diff": ("f", text, 0o644), stripped_idx: ("f", A, 0o644)})
            jobs.append(dict(cut=R.cut, tree=tree, argv=[b"-p%d" % strip, b"-i", b"p.diff"], strace={"trace": True}))
            meta.append((strip, (kind,), stripped_idx, "index-with-devnull"))
    # too few components: -p3 with names of 3 components -> empty name, not used
    text = emit.unified_text(hs, b"a/b/old.c", b"x/new.c")
    tree = box.Tree({b"p.diff": ("f", text, 0o644), b"new.c": ("f", A, 0o644), b"old.c": ("f", A, 0o644)})
    jobs.append(dict(cut=R.cut, tree=tree, argv=[b"-p2", b"-i", b"p.diff"], strace={"trace": True})); meta.append((2, None, b"old.c", "too-few"))
    # /dev/null: creation and deletion patches
    for text, tree0, expect in ((emit.unified_text(gen.make_hunks([], a, 3), b"/dev/null", b"dir/created.c", b"", b""), {}, (b"dir/created.c", A)),
                                (emit.unified_text(gen.make_hunks(a, [], 3), b"dir/gone.c", b"/dev/null", b"", b""), {b"dir/gone.c": ("f", A, 0o644)}, (b"dir/gone.c", None))):
        for strip in (0, 1):
            t = box.Tree(dict(tree0)); t[b"p.diff"] = ("f", text, 0o644)
            if strip == 1:
                t = box.Tree({(b"gone.c" if p == b"dir/gone.c" else p): v for p, v in t.items()})
            jobs.append(dict(cut=R.cut, tree=t, argv=[b"-p%d" % strip, b"-i", b"p.diff"], strace={"trace": True}))
            meta.append((strip, None, (expect[0] if strip == 0 else expect[0].split(b"/", 1)[1], expect[1]), "devnull"))
    res = drv.run_many(jobs)
    for (strip, pattern, first, kind), r in zip(meta, res):
        R.evaluations += 1; R.nontrivial.add((strip, pattern, kind))
        data = {"strip": strip, "exists(old,new,index)": pattern, "kind": kind, "exit": r.exit, "stdout": r.stdout.decode("latin1")[-300:], "stderr": r.stderr.decode("latin1")[-200:]}
        if r.strace and (b'"/dev/null", O_' in r.strace):
            R.oracle_fail("/dev/null was opened", data); continue
        if kind == "order":
            if first is None:
                if r.exit == 0:
                    R.oracle_fail("no candidate exists but a file was patched", data)
                continue
            changed = [p for p, v in r.after.items() if v[0] == "f" and p != b"p.diff" and r.before.get(p, (None, None))[1] != v[1]]
            if r.exit != 0 or changed != [first] or r.after[first][1] != B:
                R.oracle_fail(f"with -p{strip} and existence pattern {pattern} the file patched is {changed}, expected {first!r} (first existing of old, new, Index)", data)
        elif kind == "index-with-devnull":
            changed = [p for p, v in r.before.items() if v[0] == "f" and p != b"p.diff" and (p not in r.after or r.after[p][1] != v[1])]
            if r.exit == 2 or changed != [first]:
                R.oracle_fail(f"{pattern[0]} patch with an Index: line naming the only existing file (-p{strip}): the Index name must be the file patched, got {changed} (exit {r.exit})", data)
        elif kind == "too-few":
            changed = [p for p, v in r.after.items() if v[0] == "f" and p != b"p.diff" and r.before[p][1] != v[1]]
            if changed != [b"old.c"]:
                R.oracle_fail(f"a name with fewer than N components must not be used: patched {changed}", data)
        else:
            path, content = first
            got = r.after.get(path)
            if r.exit != 0 or (content is None) != (got is None) or (got and got[1] != content):
                R.oracle_fail(f"/dev/null patch with -p{strip}: expected {path!r} " + ("created" if content else "removed"), data)
