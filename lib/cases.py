"""Case generators shared by the locate/apply ties (T1, T2, T3)."""
import itertools, re
import gen

OPT_KEYS = ["reverse", "N", "t", "f", "l", "F", "D", "nl", "rf", "verbose"]


def ws_exhaustive(maxlen):
    alpha = [b" ", b"\t", b"a", b"b"]
    strs = [b""]
    for n in range(1, maxlen + 1):
        strs += [b"".join(t) for t in itertools.product(alpha, repeat=n)]
    return strs


def norm_ws(s: bytes) -> bytes:
    """independent Python statement of the -l relation: drop trailing blanks, collapse every blank run to one blank"""
    s = re.sub(rb"[ \t]+$", b"", s)
    return re.sub(rb"[ \t]+", b" ", s)


def locate_cases(rng, n, maxlen=12):
    """yield (file, hunk, iw, offset, maxfuzz, minline)"""
    out = []
    while len(out) < n:
        small = rng.random() < 0.5
        a = gen.rand_file(rng, maxlen, small=small)
        b = gen.edit(rng, a, small=small)
        ctx = rng.choice([0, 1, 2, 3, 3])
        hs = gen.make_hunks(a, b, ctx)
        r = rng.random()
        tgt = a if r < 0.35 else gen.drift(rng, a, small=small)
        if r > 0.9:
            hs = hs + [gen.rand_hunk(rng, tgt, small=small)]
        if r > 0.8 and hs:
            hs = [gen.reverse_hunk(h) for h in hs]
        for h in hs:
            if rng.random() < 0.1 and h["lines"]:
                # asymmetric context
                k = rng.randrange(len(h["lines"]))
                h = dict(h); h["lines"] = list(h["lines"])
                h["lines"].insert(0 if rng.random() < 0.5 else len(h["lines"]), (gen.SP, rng.choice(tgt) if tgt else (b"z", "L")))
                h["oc"] += 1; h["nc"] += 1
            if rng.random() < 0.15:
                h = dict(h); h["os"] = max(0, h["os"] + rng.choice([-3, -1, 1, 2, 5, 40]))
            out.append((tgt, h, rng.randint(0, 1), rng.choice([0, 0, 0, 1, -1, 2, -3]),
                        rng.choice([0, 1, 2, 2, 3, 5, -1]), rng.choice([0, 0, 0, 1, 2, 3, len(tgt)])))
    return out[:n]


def enc_locate(c):
    tgt, h, iw, off, mf, ml = c
    return f"locate {gen.enc_lines(tgt)} {gen.enc_hunk(h)} {iw} {off} {mf} {ml}"


def apply_cases(rng, n, maxlen=12, define_p=0.0, plain=False):
    """yield (file, hunks, opts dict, fmt, meta)"""
    out = []
    while len(out) < n:
        small = rng.random() < 0.5
        a = gen.rand_file(rng, maxlen, small=small)
        b = gen.edit(rng, a, small=small)
        hs = gen.make_hunks(a, b, rng.choice([0, 1, 2, 3, 3]))
        r = rng.random()
        kind = "exact"
        tgt = a
        if r < 0.35:
            tgt = gen.drift(rng, a, small=small); kind = "drift"
        elif r < 0.45:
            tgt = b; kind = "already-applied"
        elif r < 0.52:
            hs = [gen.rand_hunk(rng, tgt, small=small) for _ in range(rng.randint(1, 3))]; kind = "absurd"
        elif r < 0.58 and len(hs) >= 2:
            rng.shuffle(hs); kind = "shuffled"
        elif r < 0.63 and hs:
            hs = hs + [hs[rng.randrange(len(hs))]]; kind = "duplicated-hunk"
        if plain:
            o = dict(reverse=0, N=0, t=0, f=0, l=0, F=2, D=b"", nl="native", rf="default", verbose=1)
        else:
            o = dict(reverse=int(rng.random() < 0.15), N=int(rng.random() < 0.25), t=int(rng.random() < 0.3),
                     f=int(rng.random() < 0.35), l=int(rng.random() < 0.3), F=rng.choice([0, 1, 2, 2, 3]),
                     D=(b"SYM" if rng.random() < define_p else b""), nl=rng.choice(["native", "lf", "crlf", "keep"]),
                     rf=rng.choice(["default", "context", "unified"]), verbose=1)
            if not (o["N"] or o["t"] or o["f"]):
                o[rng.choice(["N", "t", "f"])] = 1   # the in-process harness has no tty to answer prompts
        if o["reverse"] and kind in ("exact", "drift"):
            hs = [gen.reverse_hunk(h) for h in hs]
        fmt = rng.choice(["unified", "context", "normal", "git"])
        out.append((tgt, hs, o, fmt, {"kind": kind, "a": a, "b": b}))
    return out


def enc_apply(c):
    tgt, hs, o, fmt, _ = c
    return f"apply {gen.enc_lines(tgt)} {gen.enc_patch(hs, fmt=fmt)} {gen.enc_opts(**o)}"


def parse_apply_resp(x):
    """'ok out=x.. rej=x.. failed=n skipped=b perfect=b nhunks=n op=.. msgs=a,b,c' -> dict"""
    if not x.startswith("ok "):
        return None
    d = {}
    for kv in x[3:].split(" "):
        k, _, v = kv.partition("=")
        d[k] = v
    d["msgs"] = [m for m in d.get("msgs", "").split(",") if m]
    return d


def placements_from_msgs(hs, o, resp):
    """Reconstruct which hunks the implementation says it applied, where and with what fuzz (verbose run).
    Returns (effective hunks, [(idx, p, f)], per-hunk status list) or None when not reconstructible."""
    msgs = resp["msgs"]
    eff = [gen.reverse_hunk(h) for h in hs] if o["reverse"] else list(hs)
    if "assuming-R" in msgs:
        eff = [gen.reverse_hunk(h) for h in eff]
    pls, status = [], {}
    offnew = 0
    for m in msgs:
        if not m.startswith("hunk:"):
            continue
        _, n, kind, at, fuzz, off = m.split(":")
        i = int(n) - 1
        if i >= len(eff):
            return None
        status[i] = kind
        if kind == "succeeded":
            p = int(at) - 1 - offnew
            pls.append((i, p, int(fuzz)))
            offnew += eff[i]["nc"] - eff[i]["oc"]
    if len(status) != len(eff):
        return None
    return eff, pls, [status[i] for i in range(len(eff))]
