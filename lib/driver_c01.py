"""C01 at driver level: a diff of tree A to tree B applied to A yields byte-for-byte B, exit 0, no question, no reject/backup file."""
import drv, scen, gen


def run(R):
    quick = R.tier == "quick"
    rng = R.rng
    P = scen.Producers()
    jobs, meta = [], []
    dist = {}
    try:
        n = 240 if quick else 4000
        while len(jobs) < n:
            ops = rng.choice([("modify",), ("modify", "create", "delete"), ("modify", "rename", "chmod", "create", "delete"), ("create",), ("delete",),
                              ("modify", "create-empty", "delete-empty", "create", "delete"), ("copy-edit", "modify"), ("copy-edit",)])
            A, B, ch, prod, ctx, text = drv.make_case(rng, P, ops=ops)
            if drv.has_d2(text):
                R.known_hits["locator.insert-at-zero-nonempty"] += 0  # excluded from generation (known finding D2)
                continue
            depth = rng.choice([0, 0, 1, 2])
            pre = b"/".join([b"top", b"lvl"][:depth])
            AA = {((pre + b"/" + p) if pre else p): v for p, v in A.items()}
            BB = {((pre + b"/" + p) if pre else p): v for p, v in B.items()}
            argv = [b"-p1", b"-i", (b"../" * depth) + drv.PATCHNAME] if depth else [b"-p1", b"-i", drv.PATCHNAME]
            if depth:
                argv = [b"-d", pre] + argv
            use_stdin = rng.random() < 0.3
            if use_stdin:
                argv = [a for a in argv if a not in (b"-i", argv[-1])] if False else argv[:-2]
            extra = {pre: ("d", 0o755)} if pre else None
            jobs.append(dict(cut=R.cut, tree=drv.tree_with_patch(AA, text, extra), argv=argv, stdin=text if use_stdin else b""))
            meta_pre = pre
            meta.append((AA, BB, ch, prod, ctx, text, argv, pre))
            k = f"{prod}/ctx{ctx}/" + "+".join(sorted(set(ch.values())))
            dist[k] = dist.get(k, 0) + 1
    finally:
        P.close()
    res = drv.run_many(jobs)
    R.dist["driver scenarios (producer/context/operations)"] = dict(sorted(dist.items(), key=lambda kv: -kv[1])[:25])
    st = R.ties.setdefault("T8-driver-C01", {"requests": 0, "disagreements": 0, "nontrivial": 0, "kinds": {}})
    for (AA, BB, ch, prod, ctx, text, argv, pre), r in zip(meta, res):
        st["requests"] += 1; R.evaluations += 1
        R.nontrivial.add(hash(text))
        data = {"tree": {p.decode("latin1"): gen.render(l, "keep").hex() for p, (l, m) in AA.items()}, "patch_hex": text.hex(),
                "argv": [a.decode("latin1") for a in argv], "exit": r.exit, "stdout": r.stdout.decode("latin1")[-600:], "stderr": r.stderr.decode("latin1")[-300:]}
        want = {p: gen.render(l, "keep") for p, (l, m) in BB.items()}
        got = drv.contents(r.after)
        if r.timeout:
            R.oracle_fail("patch did not terminate on a valid diff", data); continue
        if r.exit != 0:
            R.oracle_fail(f"applying a valid {prod} diff (context {ctx}) exits {r.exit}", data); continue
        if drv.asked(r):
            R.oracle_fail("applying a valid diff asks a question", data); continue
        if got != want:
            extra = sorted(set(got) - set(want)); miss = sorted(set(want) - set(got)); diff = sorted(p for p in want if p in got and got[p] != want[p])
            data["got"] = {p.decode("latin1"): got[p].hex() for p in diff[:2]}; data["want"] = {p.decode("latin1"): want[p].hex() for p in diff[:2]}
            R.oracle_fail(f"tree after applying a valid {prod} diff is not tree B (extra {extra[:3]}, missing {miss[:3]}, different {diff[:3]})", data); continue
        if r.tmp_left:
            R.oracle_fail("temporary files left behind", data); continue
        # modes: a git mode change is carried out, an untouched mode is preserved (C17 looks at modes in depth)
        for p, (l, m) in BB.items():
            gm = r.after[p][2]
            if p in AA and AA[p][1] == m and gm != m:
                R.oracle_fail(f"mode of {p!r} changed from {oct(m)} to {oct(gm)}", data); break
            if p in AA and ch.get(p.split(b"/", pre.count(b"/") + 1)[-1] if pre else p) == "chmod" and gm != m:
                R.oracle_fail(f"mode of {p!r} is {oct(gm)} after the patch, the diff says {oct(m)}", data); break
        # emptied parent directories of deleted files are gone, created parents exist: implied by tree equality on files + no stray dirs
        dirs_after = {p for p, v in r.after.items() if v[0] == "d"}
        needed = set()
        for p in want:
            parts = p.split(b"/")
            for i in range(1, len(parts)):
                needed.add(b"/".join(parts[:i]))
        keep = set()
        if pre:
            parts = pre.split(b"/")
            keep = {b"/".join(parts[:i]) for i in range(1, len(parts) + 1)}
        stray = dirs_after - needed - keep
        if stray:
            R.oracle_fail(f"now-empty directories left behind: {sorted(stray)[:3]}", data)
