"""Fault and kill injection with strace (ties T10): fail the K-th system call of a set once with an errno, or deliver SIGKILL on
entry to the K-th system call."""
import os, re, shutil
import box, drv, straceparse

IOSET = "openat,read,write,rename,renameat,renameat2,unlink,unlinkat,rmdir,chmod,fchmodat,mkdir,mkdirat,symlink,symlinkat"


def io_calls(log: bytes, root: str, tmpdir: str, names=IOSET):
    """the I/O system calls of a run after start-up, as (syscall name, ordinal among calls of that name) — strace counts `when=`
    per system call. Start-up = the dynamic loader: calls on absolute paths outside the scratch tree and the temp directory."""
    ns = set(names.split(",")) if names else None
    rootb, tmpb = root.encode(), tmpdir.encode()
    per = {}
    out = []
    started = False
    for line in log.split(b"\n"):
        m = re.match(rb"^\d+\s+(\w+)\((.*)", line)
        if not m or (ns is not None and m.group(1).decode() not in ns) or m.group(1) in (b"execve", b"exit_group"):
            continue
        call, args = m.group(1).decode(), m.group(2)
        per[call] = per.get(call, 0) + 1
        if not started:
            if call == "openat":
                mm = re.search(rb'"((?:[^"\\]|\\.)*)"', args)
                path = mm.group(1) if mm else b""
                started = not path.startswith(b"/") or path.startswith(rootb) or path.startswith(tmpb)
            elif call in ("read", "write"):
                mm = re.match(rb"(\d+)<([^>]*)>", args)
                fdpath = mm.group(2) if mm else b""
                started = not fdpath.startswith(b"/") or fdpath.startswith(rootb) or fdpath.startswith(tmpb)
            else:
                started = True
        if started:
            out.append((call, per[call], args[:120].decode("latin1")))
    return out


def baseline(cut, c):
    """fault-free run under strace (same conditions as the injected runs): (result, I/O calls after start-up, number of all syscalls)"""
    r = box.run(cut, c["tree"], c["argv"], stdin=c.get("stdin", b""), stdin_chunks=c.get("stdin_chunks"), uid=c.get("uid", 0), strace={"trace": True}, keep=True)
    top = os.path.dirname(r.root)
    calls = io_calls(r.strace or b"", r.root, os.path.join(top, "tmp"))
    r.all_calls = io_calls(r.strace or b"", r.root, os.path.join(top, "tmp"), names=None)
    nall = len([l for l in (r.strace or b"").split(b"\n") if re.match(rb"^\d+\s+\w+\(", l)])
    shutil.rmtree(top, ignore_errors=True)
    return r, calls, nall
