"""C11 at driver level: one combined run = the sections one after another in separate runs; stdin = -i."""
import box, drv, scen, gen, emit
from props import c11


def run(R):
    quick = R.tier == "quick"
    rng = R.rng
    P = scen.Producers()
    cases_ = []
    try:
        for _ in range(120 if quick else 2000):
            n = rng.choice([2, 2, 3])
            tree = box.Tree()
            secs = []
            for i in range(n):
                name = b"file%d.txt" % i
                a = drv.text_only(gen.rand_file(rng, 8, crlf_p=0)) or [(b"one", "L"), (b"two", "L")]
                b = drv.text_only(gen.edit(rng, a))
                if a == b or not b:
                    b = a + [(b"more", "L")] if a[-1][1] != "N" else [(b"more", "L")] + a
                if rng.random() < 0.25:
                    a_t = [(c + b"~", t) for c, t in a]   # this section will be rejected
                else:
                    a_t = a
                ctx = rng.choice([1, 2, 3])
                hs = gen.make_hunks(a, b, ctx)
                if any(h["os"] == 0 and h["oc"] == 0 for h in hs):
                    hs = gen.make_hunks(a, b, 3)
                    if any(h["os"] == 0 and h["oc"] == 0 for h in hs):
                        continue
                k = rng.choice(["unified", "context", "git", "gnu-u", "gnu-c", "index-unified"])
                ts = b"2020-01-01 00:00:00.000000000 +0000"
                an, bn = b"a/" + name, b"b/" + name
                text = {"unified": lambda: emit.unified_text(hs, an, bn, ts, ts), "context": lambda: emit.context_text(hs, an, bn, ts, ts),
                        "git": lambda: emit.git_text(hs, name, name), "gnu-u": lambda: P.gnu_single(a, b, "u", ctx, (an, bn)),
                        "gnu-c": lambda: P.gnu_single(a, b, "c", ctx, (an, bn)),
                        "index-unified": lambda: b"Index: x/" + name + b"\n" + emit.unified_text(hs, an + b".old", bn, ts, ts)}[k]()
                tree[name] = ("f", gen.render(a_t, "keep"), 0o644)
                secs.append((k, text))
            if len(secs) < 2:
                continue
            fill = lambda after=None: b"".join(l + b"\n" for l in [rng.choice(c11.INERT) for _ in range(rng.randint(0, 2))] if not (after in ("context", "gnu-c") and l[:2] in (b"  ", b"+ ", b"! ")))
            combined = fill() + b"".join(t + fill(k) for k, t in secs)
            cases_.append((tree, secs, combined))
    finally:
        P.close()
    # combined run (via -i and via stdin), and the sequence of separate runs
    jobs = []
    for tree, secs, combined in cases_:
        t = box.Tree(tree); t[b"all.diff"] = ("f", combined, 0o644)
        jobs.append(dict(cut=R.cut, tree=t, argv=[b"-f", b"-p1", b"-i", b"all.diff"]))
        jobs.append(dict(cut=R.cut, tree=box.Tree(tree), argv=[b"-f", b"-p1"], stdin=combined))
    res = drv.run_many(jobs)
    for i, (tree, secs, combined) in enumerate(cases_):
        rc, rs = res[2 * i], res[2 * i + 1]
        R.evaluations += 2; R.nontrivial.add(hash(combined))
        data = {"patch_hex": combined.hex(), "kinds": [k for k, _ in secs], "tree": {p.decode(): v[1].hex() for p, v in tree.items()},
                "combined_exit": rc.exit, "stdout": rc.stdout.decode("latin1")[-500:], "stderr": rc.stderr.decode("latin1")[-200:]}
        # sequence of separate runs
        cur = box.Tree(tree); exits = []
        for k, text in secs:
            t = box.Tree(cur); t[b"one.diff"] = ("f", text, 0o644)
            r = box.run(R.cut, t, [b"-f", b"-p1", b"-i", b"one.diff"])
            exits.append(r.exit)
            cur = box.Tree({p: ("f", v[1], v[2]) for p, v in r.after.items() if v[0] == "f" and p != b"one.diff"})
        want = {p: v[1] for p, v in cur.items()}
        got = drv.contents(rc.after, drop=(b"all.diff",))
        if rc.exit != max(exits):
            R.oracle_fail(f"combined run exits {rc.exit}, the separate runs exit {exits}", data); continue
        if got != want:
            diff = sorted(p for p in set(got) | set(want) if got.get(p) != want.get(p))
            R.oracle_fail(f"combined run leaves a different tree from the separate runs ({diff[:3]})", data); continue
        if rs.exit != rc.exit or drv.contents(rs.after) != got:
            R.oracle_fail("reading the patch from standard input differs from reading it with -i", data)
