"""C11 at driver level: one combined run = the sections one after another in separate runs; stdin = -i."""
import box, drv, scen, gen, emit
from props import c11


def run(R):
    quick = R.tier == "quick"
    rng = R.rng
    P = scen.Producers()
    cases_ = []
    known_tags = {}
    try:
        for _ in range(120 if quick else 2000):
            n = rng.choice([2, 2, 3])
            tree = box.Tree()
            secs = []
            for i in range(n):
                name = b"file%d.txt" % i
                a = drv.text_only(gen.rand_file(rng, 8, crlf_p=0)) or [(b"one", "L"), (b"two", "L")]
                b = drv.text_only(gen.edit(rng, a))
                if a == b or not b:
                    b = a + [(b"more", "L")] if a[-1][1] != "N" else [(b"more", "L")] + a
                if rng.random() < 0.25:
                    a_t = [(c + b"~", t) for c, t in a]   # this section will be rejected
                else:
                    a_t = a
                ctx = rng.choice([1, 2, 3])
                hs = gen.make_hunks(a, b, ctx)
                if any(h["os"] == 0 and h["oc"] == 0 for h in hs):
                    hs = gen.make_hunks(a, b, 3)
                    if any(h["os"] == 0 and h["oc"] == 0 for h in hs):
                        continue
                k = rng.choice(["unified", "context", "git", "gnu-u", "gnu-c", "index-unified", "git-create", "git-delete", "delete"])
                # created and deleted files share a small pool of directories: a directory may be made for one section's file and
                # emptied by another section's deletion in the same run (the write of a git section is deferred to the end of the run)
                shared = rng.choice([b"shared0", b"shared0", b"shared1/sub"])
                if k == "git-create":
                    name = shared + b"/file%d.txt" % i
                    secs.append((k, emit.git_text(gen.make_hunks([], b, 3), name, name, "add", None, b"100644")))
                    continue
                if k in ("git-delete", "delete"):
                    name = shared + b"/file%d.txt" % i
                    aa = [(c, "L") for c, t in a]
                    tree[name] = ("f", gen.render(aa, "keep"), 0o644)
                    secs.append((k, emit.git_text(gen.make_hunks(aa, [], 3), name, name, "delete", b"100644", None) if k == "git-delete" else
                                 emit.unified_text(gen.make_hunks(aa, [], 3), b"a/" + name, b"/dev/null", b"2020-01-01 00:00:00.000000000 +0000", b"1970-01-01 00:00:00.000000000 +0000")))
                    continue
                ts = b"2020-01-01 00:00:00.000000000 +0000"
                an, bn = b"a/" + name, b"b/" + name
                text = {"unified": lambda: emit.unified_text(hs, an, bn, ts, ts), "context": lambda: emit.context_text(hs, an, bn, ts, ts),
                        "git": lambda: emit.git_text(hs, name, name), "gnu-u": lambda: P.gnu_single(a, b, "u", ctx, (an, bn)),
                        "gnu-c": lambda: P.gnu_single(a, b, "c", ctx, (an, bn)),
                        "index-unified": lambda: b"Index: x/" + name + b"\n" + emit.unified_text(hs, an + b".old", bn, ts, ts)}[k]()
                tree[name] = ("f", gen.render(a_t, "keep"), 0o644)
                secs.append((k, text))
            if len(secs) < 2:
                continue
            fill = lambda after=None: b"".join(l + b"\n" for l in [rng.choice(c11.INERT) for _ in range(rng.randint(0, 2))] if not (after in ("context", "gnu-c") and l[:2] in (b"  ", b"+ ", b"! ")))
            combined = fill() + b"".join(t + fill(k) for k, t in secs)
            cases_.append((tree, secs, combined))
        # a git section without hunks (mode change only) followed by a plain unified section (known finding D29, with or without filler text between them)
        for sep, tag in ((b"", "stream.hunkless-git-then-plain"), (b"\n-- \n", "stream.hunkless-git-then-plain")):
            hs_ = gen.make_hunks([(b"a", "L"), (b"b", "L"), (b"c", "L")], [(b"a", "L"), (b"B", "L"), (b"c", "L")], 1)
            s1 = b"diff --git a/modeonly b/modeonly\nold mode 100644\nnew mode 100755\n"
            s2 = emit.unified_text(hs_, b"a/other", b"b/other")
            tree = box.Tree({b"modeonly": ("f", b"x\n", 0o644), b"other": ("f", b"a\nb\nc\n", 0o644)})
            cases_.append((tree, [("git-mode-only", s1), ("unified", s2)], s1 + sep + s2))
            known_tags[s1 + sep + s2] = tag
    finally:
        P.close()
    # combined run (via -i and via stdin), and the sequence of separate runs
    jobs = []
    for tree, secs, combined in cases_:
        t = box.Tree(tree); t[b"all.diff"] = ("f", combined, 0o644)
        jobs.append(dict(cut=R.cut, tree=t, argv=[b"-f", b"-p1", b"-i", b"all.diff"]))
        jobs.append(dict(cut=R.cut, tree=box.Tree(tree), argv=[b"-f", b"-p1"], stdin=combined))
        fam = {"unified": b"-u", "gnu-u": b"-u", "index-unified": b"-u", "context": b"-c", "gnu-c": b"-c"}
        flags = {fam.get(k) for k, _ in secs}
        # diff-tool output of one format (filler text and all): the matching -u / -c option must change nothing
        jobs.append(dict(cut=R.cut, tree=t, argv=[b"-f", b"-p1", flags.pop(), b"-i", b"all.diff"]) if len(flags) == 1 and None not in flags else None)
    res_ = drv.run_many([j for j in jobs if j])
    it = iter(res_)
    res = [next(it) if j else None for j in jobs]
    for i, (tree, secs, combined) in enumerate(cases_):
        rc, rs, rf = res[3 * i], res[3 * i + 1], res[3 * i + 2]
        R.evaluations += 2 + (rf is not None); R.nontrivial.add(hash(combined))
        data = {"patch_hex": combined.hex(), "kinds": [k for k, _ in secs], "tree": {p.decode(): v[1].hex() for p, v in tree.items()},
                "combined_exit": rc.exit, "stdout": rc.stdout.decode("latin1")[-500:], "stderr": rc.stderr.decode("latin1")[-200:]}
        # sequence of separate runs
        cur = box.Tree(tree); exits = []
        for k, text in secs:
            t = box.Tree(cur); t[b"one.diff"] = ("f", text, 0o644)
            r = box.run(R.cut, t, [b"-f", b"-p1", b"-i", b"one.diff"])
            exits.append(r.exit)
            cur = box.Tree({p: ("f", v[1], v[2]) for p, v in r.after.items() if v[0] == "f" and p != b"one.diff"})
            last_dirs = {p for p, v in r.after.items() if v[0] == "d"}
        want = {p: v[1] for p, v in cur.items()}
        got = drv.contents(rc.after, drop=(b"all.diff",))
        tag = known_tags.get(combined)
        if rc.exit != max(exits):
            R.oracle_fail(f"combined run exits {rc.exit}, the separate runs exit {exits}", data, tag=tag); continue
        if got != want:
            diff = sorted(p for p in set(got) | set(want) if got.get(p) != want.get(p))
            R.oracle_fail(f"combined run leaves a different tree from the separate runs ({diff[:3]})", data, tag=tag); continue
        modes_c = {p: v[2] for p, v in rc.after.items() if v[0] == "f" and p != b"all.diff"}
        modes_s = {p: v[2] for p, v in cur.items()}
        if modes_c != modes_s:
            diff = sorted(p for p in modes_s if modes_c.get(p) != modes_s[p])
            R.oracle_fail(f"combined run leaves different file modes from the separate runs ({diff[:3]})", data, tag=tag); continue
        if rs.exit != rc.exit or drv.contents(rs.after) != got:
            R.oracle_fail("reading the patch from standard input differs from reading it with -i", data); continue
        if rf is not None and (rf.exit != rc.exit or drv.contents(rf.after, drop=(b"all.diff",)) != got):
            data["forced_exit"] = rf.exit; data["forced_stdout"] = rf.stdout.decode("latin1")[-300:]
            R.oracle_fail("the -u/-c option matching the format of every section gives a different result from auto-detection", data)
        # directories: made for created files, removed with their last file - the same in one run as in separate runs
        dirs_c = {p for p, v in rc.after.items() if v[0] == "d"}
        if dirs_c != last_dirs:
            R.oracle_fail(f"combined run leaves different directories from the separate runs ({sorted(dirs_c ^ last_dirs)[:3]})", data)
