"""C19 at driver level: a bad command line exits with status 2 without touching any file."""
import box, drv, gen, emit


def run(R):
    a = [(b"one", "L"), (b"two", "L"), (b"three", "L")]
    b = [(b"one", "L"), (b"2", "L"), (b"three", "L")]
    text = emit.unified_text(gen.make_hunks(a, b, 1), b"f", b"f")
    tree = box.Tree({b"f": ("f", gen.render(a, "keep"), 0o644), b"p.diff": ("f", text, 0o644)})
    bad = [[b"-q"], [b"--bogus"], [b"-F", b"x"], [b"-p", b"1x"], [b"-F"], [b"f", b"p.diff", b"third"], [b"--f"], [b"--re"], [b"--dry-run=1"], [b"-Rq"],
           [b"--newline-output=mac"], [b"--read-only=maybe"], [b"--reject-format=ed"], [b"--quoting-style=x"], [b"-p", b""], [b"-i"], [b"--input"],
           [b"--fuzz=99999999999"], [b"-b", b"--no"], [b"-z"]]
    jobs = []
    for argv in bad:
        full = argv if b"third" in argv else argv + [b"-i", b"p.diff"] if argv[-1] not in (b"-i", b"--input", b"-F", b"-z") else argv
        jobs.append(dict(cut=R.cut, tree=tree, argv=full, stdin=text))
    good = [[b"-i", b"p.diff"], [b"--inp", b"p.diff"], [b"-ip.diff"], [b"f", b"p.diff"], [b"--", b"f", b"p.diff"], [b"-lfi", b"p.diff"]]
    for argv in good:
        jobs.append(dict(cut=R.cut, tree=tree, argv=argv))
    res = drv.run_many(jobs)
    for argv, r in zip(bad + good, res):
        R.evaluations += 1; R.nontrivial.add(tuple(argv))
        data = {"argv": [x.decode() for x in argv], "exit": r.exit, "stdout": r.stdout.decode("latin1")[-200:], "stderr": r.stderr.decode("latin1")[-200:]}
        if argv in bad:
            if r.exit != 2 or not r.stderr.strip():
                R.oracle_fail(f"bad command line {argv} exits {r.exit}" + ("" if r.stderr.strip() else " without a diagnostic"), data); continue
            if box.diff_trees(r.before, r.after):
                R.oracle_fail(f"bad command line {argv} touched a file", data)
        else:
            if r.exit != 0 or r.after[b"f"][1] == r.before[b"f"][1]:
                R.oracle_fail(f"valid spelling {argv} was not accepted (exit {r.exit})", data)
