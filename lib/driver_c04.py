"""C04 at driver level: the exit status tells the truth; a reject file exists iff some hunk of that target failed; the reported
count equals the number of hunks in it."""
import re
import os
import drv, rich, scen, strict, gen, emit


def run(R):
    quick = R.tier == "quick"
    rng = R.rng
    P = scen.Producers()
    cs = []
    try:
        for _ in range(260 if quick else 5000):
            c = rich.make(rng, P, quick)
            if rng.random() < 0.2:
                c["argv"] = [b"--dry-run"] + c["argv"]; c["dry"] = True
            cs.append(c)
    finally:
        P.close()
    res = drv.run_many([dict(cut=R.cut, tree=c["tree"], argv=c["argv"]) for c in cs])
    dist = {}
    for c, r in zip(cs, res):
        R.evaluations += 1; R.nontrivial.add(hash((c["text"], tuple(c["argv"]), c["how"])))
        data = rich.describe(c, r)
        secs = rich.sections(r.stdout)
        flat = [e for _, evs in secs for e in evs]
        failed = any(e[0] == "hunk" and e[2] != "succeeded" for e in flat) or any(e[0] == "failed" for e in flat)
        trouble = any(e[0] in ("skipping", "cant-find", "refusing", "not-deleting") for e in flat)
        k = f"exit{r.exit}/" + ("rejects" if failed else "clean") + ("/trouble" if trouble else "")
        dist[k] = dist.get(k, 0) + 1
        if r.timeout or r.exit not in (0, 1, 2):
            R.oracle_fail(f"exit status {r.exit} / timeout", data); continue
        if r.exit == 2:
            if not r.stderr.strip():
                R.oracle_fail("exit status 2 without a diagnostic", data)
            # well-formed patch, existing files, valid options: status 2 means "real trouble"; a hunk that can not be placed is not
            if b"out_of_range" in r.stderr or b"vector::" in r.stderr or b"basic_string" in r.stderr:
                R.oracle_fail("failing to place a hunk was fatal (internal exception)", data)
            elif c["how"] in ("exact", "offset", "fuzz", "reject") and b"tty" not in r.stderr:
                R.oracle_fail("exit status 2 for a well-formed patch on existing files: " + r.stderr.decode("latin1")[-120:], data)
            continue
        if (r.exit == 0) != (not failed and not trouble):
            R.oracle_fail(f"exit status {r.exit} but " + ("some hunk failed / a patch was skipped or refused" if failed or trouble else "every hunk applied and nothing was skipped"), data); continue
        # reject files
        dry = c.get("dry")
        pre_rej = {p for p in c["tree"] if p.endswith(b".rej")}
        rej_opt = b"all.rej" if b"-r" in c["opts"] else None
        if rej_opt is not None:
            anyfail = any(e[0] == "failed" for e in flat)
            if not dry and anyfail != (rej_opt in r.after):
                R.oracle_fail(f"-r file {'exists' if rej_opt in r.after else 'missing'} but " + ("hunks failed" if anyfail else "no hunk failed"), data)
            if dry and rej_opt in r.after:
                R.oracle_fail("--dry-run wrote a reject file", data)
            if dry or not anyfail or rej_opt not in r.after:
                continue
        # every "N out of M hunks FAILED/ignored -- saving rejects to file X" names its reject file
        fails = [e for e in flat if e[0] == "failed"]
        named = {e[4] for e in fails if e[4]}
        if dry:
            newrej = [p for p in r.after if p.endswith(b".rej") and (p not in r.before or r.after[p][:2] != r.before[p][:2])]
            if newrej:
                R.oracle_fail("--dry-run wrote a reject file", data)
            continue
        # several sections may share one reject file (same target twice, or -r): it holds the rejects of all of them, one after another
        per_file = {}
        fails = [e for e in fails if e[2] > 0 or e[4]]      # ("0 out of 0 hunk ignored": a refused section without hunks has nothing to save)
        for e in fails:
            if not e[4]:
                R.oracle_fail("failed hunks reported without saving them to a reject file", data); break
            if e[4] not in r.after:
                R.oracle_fail(f"reject file {e[4]!r} was announced but does not exist", data); break
            per_file[e[4]] = per_file.get(e[4], 0) + e[1]
        else:
            for name, count in per_file.items():
                body = r.after[name][1]
                # split at the file headers: '--- x' + '+++ y' (unified) / '*** x' + '--- y' + stars (context)
                starts = [m.start() for m in re.finditer(rb"(?m)^(--- [^\n]*\n\+\+\+ |\*\*\* [^\n]*\n--- [^\n]*\n\*{15}\n)", body)]
                chunks = [body[a_:b_] for a_, b_ in zip(starts, starts[1:] + [len(body)])] if starts else [body]
                try:
                    n = sum(len(strict.parse_unified(ch)[2] if ch.startswith(b"--- ") else strict.parse_context(ch)[2]) for ch in chunks)
                    if n != count:
                        R.oracle_fail(f"{count} hunks reported as failed for {name!r}, {n} hunks in the reject file", data); break
                except strict.Bad as ex:
                    R.oracle_fail(f"reject file is not a valid diff: {ex}", data); break
        if rej_opt is not None:
            continue
        # no reject file appears (or changes) without failed hunks for it
        for p in r.after:
            if p.endswith(b".rej") and p not in named and (p not in r.before or r.after[p][:2] != r.before[p][:2]):
                R.oracle_fail(f"reject file {p!r} written although no hunk was reported failed for it", data); break
    R.dist["driver outcomes"] = dist
    import ties
    ties.t8(R, "T8-driver", cs[:150 if quick else 2500])
    import interactive
    ties.t8(R, "T8-driver-interactive", interactive.cases())
    # a removal patch whose target holds more than the patch removes (theorem C04_run_delete_leftover): every hunk applies, yet the file
    # must not be removed - it keeps exactly what is left - and the run must not claim success (exit 1, "Not deleting"), with no reject.
    # Oracle on the program, and model = program on the same runs (also with -b, --dry-run, -E off, where the theorem says nothing).
    old = [(b"gone%d" % i, "L") for i in range(1, 5)]
    left = []
    for where, extra in (("after", [(b"left over", "L")]), ("after-2", [(b"left", "L"), (b"over", "L")]), ("after-unterminated", [(b"left over", "N")])):
        for opts in ([], [b"-b"], [b"--dry-run"], [b"-f"], [b"-p0"]):
            text = emit.unified_text(gen.make_hunks(old, [], 3), b"f", b"/dev/null", b"", b"")
            tree = box.Tree({b"f": ("f", gen.render(old + extra, "keep"), 0o640), b"other": ("f", b"kept\n", 0o600), b"p.diff": ("f", text, 0o644)})
            left.append((where, opts, extra, dict(tree=tree, argv=opts + [b"-i", b"p.diff"])))
    res = drv.run_many([dict(cut=R.cut, **c) for _, _, _, c in left])
    for (where, opts, extra, c), r in zip(left, res):
        R.evaluations += 1; R.nontrivial.add(("leftover", where, tuple(opts)))
        dry = b"--dry-run" in opts
        want = c["tree"][b"f"][1] if dry else gen.render(extra, "keep")
        got = r.after.get(b"f")
        rej = [q for q in r.after if q.endswith(b".rej")]
        if r.exit != 1 or got is None or got[0] != "f" or got[1] != want or rej:
            R.oracle_fail(f"removal patch on a file with more content than it removes ({where}, {b' '.join(opts).decode() or 'no options'}): exit {r.exit}, "
                          + ("file removed" if got is None else "file holds " + repr(got[1][:40])) + (f", reject {rej}" if rej else "") + " - want exit 1 and exactly the left-over lines, no reject",
                          {"argv": [x.decode() for x in c["argv"]], "exit": r.exit, "stdout": r.stdout.decode("latin1")[-300:], "stderr": r.stderr.decode("latin1")[-200:],
                           "file_before": c["tree"][b"f"][1].hex(), "patch_hex": c["tree"][b"p.diff"][1].hex()})
    ties.t8(R, "T8-removal-leftover", [c for _, _, _, c in left])
    # failed hunks must end up in the reject file or the run must say it could not save them: a reject file on a full device
    if os.path.exists("/dev/full"):
        a = [(b"one", "L"), (b"two", "L"), (b"three", "L")]
        b = [(b"one", "L"), (b"2", "L"), (b"three", "L")]
        u = emit.unified_text(gen.make_hunks(a, b, 1) + gen.make_hunks(a, b, 0), b"f", b"f")
        full = [("failing hunks", box.Tree({b"f": ("f", b"x\ny\nz\n", 0o644), b"p.diff": ("f", u, 0o644)}), [b"-r", b"/dev/full", b"-i", b"p.diff"]),
                ("refused (read-only, fail)", box.Tree({b"f": ("f", gen.render(a, "keep"), 0o444), b"p.diff": ("f", u, 0o644)}), [b"--read-only=fail", b"-r", b"/dev/full", b"-i", b"p.diff"]),
                ("refused (directory)", box.Tree({b"f": ("d", 0o755), b"p.diff": ("f", u, 0o644)}), [b"-r", b"/dev/full", b"-i", b"p.diff"])]
        res = drv.run_many([dict(cut=R.cut, tree=t, argv=av) for _, t, av in full])
        for (name, t, av), r in zip(full, res):
            R.evaluations += 1; R.nontrivial.add(("devfull", name))
            if r.exit != 2 or not r.stderr.strip():
                R.oracle_fail(f"rejects could not be written ({name}, reject file on a full device) but the run exits {r.exit}: the failed hunks are lost and the exit status hides it",
                              {"scenario": name, "argv": [x.decode() for x in av], "exit": r.exit, "stdout": r.stdout.decode("latin1")[-300:], "stderr": r.stderr.decode("latin1")[-200:]})
    # exit status 2 is for real trouble: garbage input, bad options, missing patch file
    bad = [([b"-i", b"nonexistent.diff"], {}, b""), ([b"--bogus"], {}, b""), ([b"-F", b"x", b"f"], {b"f": ("f", b"a\n", 0o644)}, b""),
           ([b"f"], {b"f": ("f", b"a\n", 0o644)}, b"this is not a patch\nat all\n"), ([b"-e", b"f"], {b"f": ("f", b"a\n", 0o644)}, b"1c\nx\n.\n")]
    res = drv.run_many([dict(cut=R.cut, tree=box.Tree(t), argv=a, stdin=s) for a, t, s in bad])
    for (a, t, s), r in zip(bad, res):
        R.evaluations += 1
        if r.exit != 2 or not r.stderr.strip():
            R.oracle_fail(f"unusable input / bad options give exit {r.exit}" + ("" if r.stderr.strip() else " without a diagnostic"),
                          {"argv": [x.decode() for x in a], "stdin": s.decode(), "exit": r.exit, "stderr": r.stderr.decode("latin1")})


import box
