"""Runs the just-built sb_patch in a scratch tree: as root or as `nobody`, with or without a pty for /dev/tty prompts,
optionally under strace (mutation trace, fault injection, kill injection). Always under a timeout."""
import atexit, fcntl, os, pty, re, select, shutil, stat, subprocess, tempfile, termios, threading, time, signal
import common

BOXROOT = os.path.join(common.WORK, "box")


class Tree(dict):
    """path -> ('f', bytes, mode) | ('d', mode) | ('l', target) | ('p', mode)  (paths relative, bytes)"""


def materialize(root, tree, mtime=1_600_000_000):
    for p in sorted(tree, key=lambda x: x.count(b"/")):
        node = tree[p]
        full = os.path.join(root.encode(), p)
        os.makedirs(os.path.dirname(full), exist_ok=True)
        if node[0] == "h":
            continue
        if node[0] == "f":
            with open(full, "wb") as fh:
                fh.write(node[1])
            os.chmod(full, node[2])
        elif node[0] == "d":
            os.makedirs(full, exist_ok=True); os.chmod(full, node[1])
        elif node[0] == "l":
            os.symlink(node[1], full)
        elif node[0] == "p":
            os.mkfifo(full, node[1])
    for p in tree:
        if tree[p][0] == "h":     # another name of a file of the tree
            os.link(os.path.join(root.encode(), tree[p][1]), os.path.join(root.encode(), p))
    # fixed old mtimes so that any touch is visible
    for d, ds, fs in os.walk(root.encode(), topdown=False):
        for n in fs + ds:
            q = os.path.join(d, n)
            try:
                os.utime(q, (mtime, mtime), follow_symlinks=False)
            except OSError:
                pass
    os.utime(root, (mtime, mtime))


def snapshot(root):
    """path -> (kind, content/target, mode, mtime_ns)"""
    out = {}
    rb = root.encode()
    for d, ds, fs in os.walk(rb):
        for n in ds + fs:
            q = os.path.join(d, n)
            rel = os.path.relpath(q, rb)
            st = os.lstat(q)
            if stat.S_ISLNK(st.st_mode):
                out[rel] = ("l", os.readlink(q), 0, st.st_mtime_ns)
            elif stat.S_ISDIR(st.st_mode):
                out[rel] = ("d", None, stat.S_IMODE(st.st_mode), st.st_mtime_ns)
            elif stat.S_ISREG(st.st_mode):
                with open(q, "rb") as fh:
                    out[rel] = ("f", fh.read(), stat.S_IMODE(st.st_mode), st.st_mtime_ns)
            else:
                out[rel] = ("p", None, stat.S_IMODE(st.st_mode), st.st_mtime_ns)
    return out


class Result:
    pass


def _chown_tree(root, uid):
    for d, ds, fs in os.walk(root):
        for n in ds + fs:
            try:
                os.lchown(os.path.join(d, n), uid, uid)
            except OSError:
                pass
    os.lchown(root, uid, uid)


def _others_can_reach(path):
    p = os.path.abspath(path)
    while True:
        try:
            if not (os.stat(p).st_mode & 0o001):
                return False
        except OSError:
            pass
        if p == "/":
            return True
        p = os.path.dirname(p)


_COPIES, _COPY_LOCK = {}, threading.Lock()


def _reachable_copy(exe, base):
    """One copy of the binary per process and build, in a directory everyone can enter. (Not one per run: a file which another thread's
    freshly forked child still holds open for writing can not be executed - 'Text file busy'.)"""
    st = os.stat(exe)
    key = (exe, st.st_mtime_ns, st.st_size)
    with _COPY_LOCK:
        if key not in _COPIES:
            d = tempfile.mkdtemp(prefix="bin%d-" % os.getpid(), dir=base)
            os.chmod(d, 0o755)
            dst = os.path.join(d, "sb_patch")
            shutil.copy(exe, dst); os.chmod(dst, 0o755)
            time.sleep(0.2)      # any child forked while the copy was open has long since exec'ed or closed it
            _COPIES[key] = dst
            atexit.register(shutil.rmtree, d, True)
        return _COPIES[key]


def _feed_chunks(wfd, chunks, timeout):
    """writes the chunks to the pipe, each one only when the reader has taken the one before (FIONREAD on the pipe is 0) and has had
    time to ask for more; closes the pipe at the end. Never blocks for longer than the run's time limit."""
    import array
    deadline = time.time() + timeout
    try:
        for i, c in enumerate(chunks):
            if i:
                while time.time() < deadline:
                    n = array.array("i", [0])
                    fcntl.ioctl(wfd, termios.FIONREAD, n)
                    if n[0] == 0:
                        break
                    time.sleep(0.01)
                time.sleep(0.15)
            os.write(wfd, c)
    except OSError:
        pass
    finally:
        os.close(wfd)


def run(cut, tree, argv, stdin=b"", tty=None, uid=0, env=None, timeout=8, strace=None, sanitize=False, keep=False, exe=None, root_owned=(), nofile=None, stdin_chunks=None):
    """stdin_chunks: list of byte strings handed to the program's standard input one at a time through a pipe, each only after the
    previous one has been read (so the program sees short reads, as from a slow producer); overrides stdin.
    tree: Tree; argv: list of bytes (without argv[0]); tty: None (no controlling terminal) or list of answer byte strings.
    strace: None | {'trace': True} | {'inject': 'write:error=ENOSPC:when=3'}"""
    base = BOXROOT
    if uid != 0 and not _others_can_reach(BOXROOT):
        # (the tree of checks may sit under a directory other users can not enter - a snapshot under /root, say)
        base = os.path.join(tempfile.gettempdir(), "verif-box")
    os.makedirs(base, exist_ok=True)
    top = tempfile.mkdtemp(prefix="b", dir=base)
    root = os.path.join(top, "w")
    tmpd = os.path.join(top, "tmp")
    os.makedirs(root); os.makedirs(tmpd)
    if any(b"@ROOT@" in a for a in argv) or any(n[0] == "f" and b"@ROOT@" in n[1] for n in tree.values()):
        # absolute paths: the token stands for the scratch directory the tree lives in
        rb_ = root.encode()
        argv = [a.replace(b"@ROOT@", rb_) for a in argv]
        tree = Tree({k: (("f", n[1].replace(b"@ROOT@", rb_), n[2]) if n[0] == "f" else n) for k, n in tree.items()})
    materialize(root, tree)
    os.chmod(top, 0o755)
    if uid != 0:
        _chown_tree(root, uid); _chown_tree(tmpd, uid)
        for q in root_owned:     # files the unprivileged user does not own (and can only use as their mode for 'others' allows)
            os.lchown(os.path.join(root.encode(), q), 0, 0)
    before = snapshot(root)
    e = {"PATH": "/usr/bin:/bin", "TMPDIR": tmpd, "LC_ALL": "C", "HOME": top}
    if os.environ.get("VERIF_COVERAGE"):
        # development aid (tools/coverage.sh): every run writes its gcov counters to a directory of its own, merged afterwards
        e["GCOV_PREFIX"] = os.path.join(top, "gcov"); e["GCOV_PREFIX_STRIP"] = "0"
        os.makedirs(e["GCOV_PREFIX"]); os.chmod(e["GCOV_PREFIX"], 0o777)
    if sanitize:
        e["ASAN_OPTIONS"] = "detect_leaks=0"; e["UBSAN_OPTIONS"] = "print_stacktrace=1:halt_on_error=1"
    if env:
        e.update(env)
    exe = exe or os.path.join(cut, "sb_patch")
    if uid != 0 and not _others_can_reach(os.path.dirname(exe)):
        exe = _reachable_copy(exe, base)
    cmd = [exe.encode()] + list(argv)
    logf = None
    if strace:
        logf = os.path.join(top, "strace.log")
        sc = ["strace", "-f", "-qq", "-o", logf, "-s", "100000", "-y", "-e", "trace=%file,write,read,rename,renameat,renameat2,unlink,unlinkat,rmdir,mkdir,mkdirat,chmod,fchmod,fchmodat,symlink,symlinkat,openat,close,ftruncate,truncate,lseek,fstat,newfstatat"]
        if strace.get("inject"):
            sc += ["-e", "inject=" + strace["inject"]]
        cmd = [c.encode() if isinstance(c, str) else c for c in sc] + cmd
    if nofile:     # a limit on open files for the program (D107)
        cmd = [b"sh", b"-c", b"ulimit -n %d; exec \"$@\"" % nofile, b"sh"] + cmd
    if uid != 0:
        cmd = [b"setpriv", b"--reuid=%d" % uid, b"--regid=%d" % uid, b"--clear-groups"] + cmd
    r = Result()
    r.prompts = b""
    t0 = time.time()
    if tty is None:
        for attempt in range(4):
            feeder = None
            if stdin_chunks:
                rfd, wfd = os.pipe()
                p = subprocess.Popen(cmd, cwd=root, env=e, stdin=rfd, stdout=subprocess.PIPE, stderr=subprocess.PIPE, start_new_session=True)
                os.close(rfd)
                feeder = threading.Thread(target=_feed_chunks, args=(wfd, list(stdin_chunks), timeout), daemon=True)
                feeder.start()
            else:
                p = subprocess.Popen(cmd, cwd=root, env=e, stdin=subprocess.PIPE, stdout=subprocess.PIPE, stderr=subprocess.PIPE, start_new_session=True)
            try:
                out, err = p.communicate(None if stdin_chunks else stdin, timeout=timeout)
                r.timeout = False
            except subprocess.TimeoutExpired:
                os.killpg(p.pid, signal.SIGKILL)
                out, err = p.communicate()
                r.timeout = True
            if not (p.returncode == 126 and b"Text file busy" in err):     # the program never ran: not a result
                break
            time.sleep(0.1)
        r.exit, r.stdout, r.stderr = p.returncode, out, err
    else:
        master, slave = pty.openpty()
        def pre():
            os.setsid()
            fcntl.ioctl(slave, termios.TIOCSCTTY, 0)
        p = subprocess.Popen(cmd, cwd=root, env=e, stdin=subprocess.PIPE, stdout=subprocess.PIPE, stderr=subprocess.PIPE, preexec_fn=pre, pass_fds=(slave,))
        os.close(slave)
        answers = list(tty)
        # the program asks on stdout and reads the answer from /dev/tty: feed one answer per question seen
        out = b""; err = b""
        try:
            p.stdin.write(stdin); p.stdin.close()
        except BrokenPipeError:
            pass
        os.set_blocking(p.stdout.fileno(), False); os.set_blocking(p.stderr.fileno(), False)
        deadline = time.time() + timeout
        asked = 0
        r.timeout = False
        open_fds = {p.stdout.fileno(): "o", p.stderr.fileno(): "e"}
        while open_fds:
            if time.time() > deadline:
                os.killpg(p.pid, signal.SIGKILL) if False else p.kill()
                r.timeout = True
                break
            rl, _, _ = select.select(list(open_fds), [], [], 0.05)
            for fd in rl:
                try:
                    chunk = os.read(fd, 65536)
                except BlockingIOError:
                    continue
                if not chunk:
                    del open_fds[fd]; continue
                if open_fds[fd] == "o": out += chunk
                else: err += chunk
            # count questions seen on either stream ("? [y] " / "? [n] " / "File to patch: ")
            seen = len(re.findall(rb"\? \[[yn]\] |File to patch: ", out + err))
            while asked < seen:
                a = answers.pop(0) if answers else b""
                os.write(master, a + b"\n")
                asked += 1
        p.wait()
        os.close(master)
        r.exit, r.stdout, r.stderr = p.returncode, out, err
        r.prompts = asked
    r.wall = time.time() - t0
    r.before = before
    r.after = snapshot(root)
    r.tmp_left = sorted(os.listdir(tmpd))
    r.strace = open(logf, "rb").read() if logf and os.path.exists(logf) else None
    r.root = root
    if os.environ.get("VERIF_COVERAGE") and not r.timeout and r.exit in (0, 1, 2) and not (strace and strace.get("inject")):
        # keep the counters of runs that ended by themselves (a killed or fault-injected run may have torn counter files)
        pool = os.path.join(common.WORK, "covpool")
        os.makedirs(pool, exist_ok=True)
        g = os.path.join(top, "gcov")
        if os.path.isdir(g) and any(fs for _, _, fs in os.walk(g)):
            shutil.move(g, os.path.join(pool, os.path.basename(top)))
    if not keep:
        shutil.rmtree(top, ignore_errors=True)
    return r


def diff_trees(before, after, ignore_mtime=False):
    """paths whose (kind, content, mode[, mtime]) changed, appeared or disappeared"""
    out = {}
    for p in set(before) | set(after):
        a, b = before.get(p), after.get(p)
        if a is None: out[p] = ("created", b)
        elif b is None: out[p] = ("removed", a)
        else:
            if a[:3] != b[:3]: out[p] = ("changed", a, b)
            elif not ignore_mtime and a[3] != b[3]: out[p] = ("touched", a, b)
    return out
