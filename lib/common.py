"""Shared helpers for the verification checks: paths, building the code under test, running the model driver."""
import hashlib, json, os, subprocess, sys, time, shutil, random
from concurrent.futures import ThreadPoolExecutor

VERIF = os.path.dirname(os.path.dirname(os.path.abspath(__file__)))
REPO = os.environ.get("VERIF_REPO", "/repo")
WORK = os.path.join(VERIF, ".work")
LEAN = os.path.join(VERIF, "lean")
GUARD = "PATCH_VERIF"
SRC_FILES = ["applier", "cmdline", "formatter", "locator", "options", "parser", "patch", "system", "file"]


def sh(cmd, **kw):
    return subprocess.run(cmd, shell=isinstance(cmd, str), capture_output=True, text=True, **kw)


def tree_hash():
    h = hashlib.sha256()
    for root in ("src", "include", "app"):
        for d, _, fs in sorted(os.walk(os.path.join(REPO, root))):
            for f in sorted(fs):
                p = os.path.join(d, f)
                h.update(p.encode())
                with open(p, "rb") as fh:
                    h.update(fh.read())
    for f in ("harness/inproc.cpp",):
        with open(os.path.join(VERIF, f), "rb") as fh:
            h.update(fh.read())
    return h.hexdigest()[:16]


def _compile(args):
    cmd, = args
    r = sh(cmd)
    return (cmd, r.returncode, r.stderr)


class _Lock:
    """inter-process lock (several checks may run at the same time and share .work/)"""
    def __init__(self, name):
        os.makedirs(WORK, exist_ok=True)
        self.path = os.path.join(WORK, name + ".lock")
    def __enter__(self):
        import fcntl
        self.fh = open(self.path, "w")
        fcntl.flock(self.fh, fcntl.LOCK_EX)
        return self
    def __exit__(self, *a):
        import fcntl
        fcntl.flock(self.fh, fcntl.LOCK_UN); self.fh.close()


def build_cut(sanitize=False):
    """Build library, sb_patch and the in-process harness from /repo's *working tree* (hooks on).
    Returns the build directory. Cached by content hash of the sources."""
    with _Lock("cut"):
        return _build_cut(sanitize)


def _build_cut(sanitize=False):
    cov = bool(os.environ.get("VERIF_COVERAGE"))     # development aid (tools/coverage.sh): gcov-instrumented build,
    if cov:
        sanitize = False                             # also where the check asks for the sanitised one (so that those runs count)
    key = tree_hash() + ("-san" if sanitize else "") + ("-cov" if cov else "")
    out = os.path.join(WORK, "cut", key)
    stamp = os.path.join(out, "ok")
    if os.path.exists(stamp):
        return out
    # evict older builds (disk is limited)
    cutdir = os.path.join(WORK, "cut")
    os.makedirs(cutdir, exist_ok=True)
    olds = sorted((os.path.join(cutdir, d) for d in os.listdir(cutdir)), key=os.path.getmtime)
    for d in olds[:-3]:
        shutil.rmtree(d, ignore_errors=True)
    shutil.rmtree(out, ignore_errors=True)
    os.makedirs(out)
    flags = f"-std=c++11 -O1 -g -D{GUARD} -I{REPO}/include -w"
    if sanitize:
        flags += " -fsanitize=address,undefined -fno-sanitize-recover=all -fno-omit-frame-pointer"
    if cov:
        flags = flags.replace("-O1", "-O0") + " --coverage"
    jobs = []
    for f in SRC_FILES:
        jobs.append((f"g++ {flags} -c {REPO}/src/{f}.cpp -o {out}/{f}.o",))
    jobs.append((f"g++ {flags} -c {REPO}/app/main.cpp -o {out}/main.o",))
    jobs.append((f"g++ {flags.replace('-std=c++11', '-std=c++17')} -c {VERIF}/harness/inproc.cpp -o {out}/inproc.o",))
    with ThreadPoolExecutor(16) as ex:
        res = list(ex.map(_compile, jobs))
    for cmd, rc, err in res:
        if rc != 0:
            raise RuntimeError(f"build of code under test failed: {cmd}\n{err}")
    objs = " ".join(f"{out}/{f}.o" for f in SRC_FILES)
    san = "-fsanitize=address,undefined" if sanitize else ("--coverage" if cov else "")
    for cmd in (f"ar rcs {out}/libpatch.a {objs}",
                f"g++ {san} {out}/main.o {out}/libpatch.a -o {out}/sb_patch",
                f"g++ {san} {out}/inproc.o {out}/libpatch.a -o {out}/inproc"):
        r = sh(cmd)
        if r.returncode != 0:
            raise RuntimeError(f"link failed: {cmd}\n{r.stderr}")
    open(stamp, "w").write(key)
    return out


def lake_build(targets=("PatchModel", "modeldriver")):
    with _Lock("lake"):
        r = sh(["lake", "build", *targets], cwd=LEAN)
    return r.returncode == 0, r.stdout + r.stderr


def model_driver():
    return os.path.join(LEAN, ".lake", "build", "bin", "modeldriver")


def run_lines(exe, lines, timeout=600, env=None, stall=None):
    """Feed request lines to a line-protocol executable, return (response lines, return code, stderr).
    With `stall` (seconds): the executable answers line by line (it flushes after every answer); when no new answer
    arrives for that long it is killed and the return code is the string "hang" - the answers so far tell which
    request it never answered."""
    data = "\n".join(lines) + "\n"
    e = dict(os.environ)
    e["TMPDIR"] = os.path.join(WORK, "tmp")
    os.makedirs(e["TMPDIR"], exist_ok=True)
    if env:
        e.update(env)
    if stall is None:
        p = subprocess.run([exe], input=data, capture_output=True, text=True, timeout=timeout,
                           start_new_session=True, env=e)
        return p.stdout.split("\n")[:-1] if p.stdout.endswith("\n") else p.stdout.split("\n"), p.returncode, p.stderr
    import tempfile, signal
    with tempfile.TemporaryDirectory(dir=e["TMPDIR"]) as td:
        fin, fout, ferr = (os.path.join(td, n) for n in ("in", "out", "err"))
        with open(fin, "w") as f:
            f.write(data)
        with open(fin) as i, open(fout, "w") as o, open(ferr, "w") as r:
            p = subprocess.Popen([exe], stdin=i, stdout=o, stderr=r, start_new_session=True, env=e)
            t0 = last = time.time()
            size = 0
            rc = None
            while True:
                try:
                    rc = p.wait(timeout=0.2)
                    break
                except subprocess.TimeoutExpired:
                    pass
                now = time.time()
                sz = os.path.getsize(fout)
                if sz != size:
                    size, last = sz, now
                if now - last > stall or now - t0 > timeout:
                    try:
                        os.killpg(p.pid, signal.SIGKILL)
                    except ProcessLookupError:
                        pass
                    p.wait()
                    rc = "hang"
                    break
        out = open(fout, errors="replace").read()
        err = open(ferr, errors="replace").read()
    res = out.split("\n")
    if rc == "hang" or out.endswith("\n") or out == "":
        res = res[:-1]   # drop the empty tail (or the incomplete answer of a killed run)
    return res, rc, err


def hexb(b: bytes) -> str:
    return "x" + b.hex()
