"""Structured generators for files, edit scripts, hunks and patches, plus protocol encoders.
Every random choice derives from the `random.Random` instance passed in (seeded from VERIF_SEED)."""
import difflib, random

SP, PLUS, MINUS = 32, 43, 45

WORDS = [b"a", b"b", b"c", b"x y", b"x  y", b"x\ty", b" a", b"a ", b"", b" ", b"\t", b"#x", b"\\", b"foo", b"a b c",
         b"}", b"{", b"int main()", b"\xff\x00z", b"a\r", b"-- x", b"++ y"]   # "-- x" removed reads "--- x", "++ y" added reads "+++ y"


def rand_content(rng, small=False):
    if small:
        return rng.choice([b"a", b"b", b"c", b""])
    return rng.choice(WORDS)


def rand_file(rng, maxlen=12, small=False, crlf_p=0.1, nonl_p=0.15):
    n = rng.choice([0, 1, 2, 3]) if rng.random() < 0.25 else rng.randint(0, maxlen)
    lines = []
    mode = rng.random()
    for i in range(n):
        if lines and rng.random() < 0.3:
            c = rng.choice(lines)[0]  # repeated lines on purpose
        else:
            c = rand_content(rng, small)
        nl = "C" if (mode < crlf_p or (mode < 2 * crlf_p and rng.random() < 0.5)) else "L"
        lines.append((c, nl))
    if lines and rng.random() < 0.25 and len(lines) >= 2:
        # duplicate a block
        i = rng.randrange(len(lines)); j = rng.randint(i + 1, min(len(lines), i + 4))
        k = rng.randint(0, len(lines))
        lines[k:k] = lines[i:j]
        lines = lines[:maxlen + 6]
    if lines and rng.random() < nonl_p and lines[-1][0]:
        lines[-1] = (lines[-1][0], "N")
    # canonical reader invariant: an LF line never ends in CR (it would have been read as CRLF)
    lines = [((c[:-1] if (nl == "L" and c.endswith(b"\r")) else c), nl) for c, nl in lines]
    return lines


def edit(rng, a, small=False, nedits=None):
    """random edit script: returns new file"""
    b = list(a)
    if b and b[-1][1] == "N":
        b[-1] = (b[-1][0], "L")
        had_n = True
    else:
        had_n = False
    k = nedits if nedits is not None else rng.choice([1, 1, 2, 2, 3, 4])
    for _ in range(k):
        op = rng.choice(["ins", "del", "rep", "ins", "rep"])
        nlk = "C" if (b and b[0][1] == "C") else "L"
        if op == "ins" or not b:
            i = rng.choice([0, len(b), rng.randint(0, len(b))])
            for _ in range(rng.randint(1, 3)):
                b.insert(i, (rand_content(rng, small), nlk))
        elif op == "del":
            i = rng.choice([0, max(0, len(b) - 1), rng.randrange(len(b))])
            j = min(len(b), i + rng.randint(1, 3))
            del b[i:j]
        else:
            i = rng.choice([0, max(0, len(b) - 1), rng.randrange(len(b))])
            j = min(len(b), i + rng.randint(1, 2))
            b[i:j] = [(rand_content(rng, small), nlk) for _ in range(rng.randint(1, 3))]
    b = [((c[:-1] if (nl == "L" and c.endswith(b"\r")) else c), nl) for c, nl in b]
    r = rng.random()
    if b and b[-1][0] and (r < 0.12 or (had_n and r < 0.5)):
        b[-1] = (b[-1][0], "N")
    return b


def make_hunks(a, b, ctx=3):
    """Independent emitter: unified-style hunks (with `ctx` context lines) turning a into b.
    Lines compare by (content, newline-class). Returns list of hunk dicts."""
    sm = difflib.SequenceMatcher(None, a, b, autojunk=False)
    hunks = []
    for group in sm.get_grouped_opcodes(ctx):
        i1, i2, j1, j2 = group[0][1], group[-1][2], group[0][3], group[-1][4]
        lines = []
        for tag, a1, a2, b1, b2 in group:
            if tag == "equal":
                lines += [(SP, l) for l in a[a1:a2]]
            else:
                lines += [(MINUS, l) for l in a[a1:a2]]
                lines += [(PLUS, l) for l in b[b1:b2]]
        oc, nc = i2 - i1, j2 - j1
        os_ = i1 + 1 if oc else i1
        ns_ = j1 + 1 if nc else j1
        hunks.append({"os": os_, "oc": oc, "ns": ns_, "nc": nc, "lines": lines})
    return hunks


def reverse_hunk(h):
    sw = {PLUS: MINUS, MINUS: PLUS}
    return {"os": h["ns"], "oc": h["nc"], "ns": h["os"], "nc": h["oc"],
            "lines": [(sw.get(op, op), l) for op, l in h["lines"]]}


def old_side(h):
    return [l for op, l in h["lines"] if op != PLUS]


def new_side(h):
    return [l for op, l in h["lines"] if op != MINUS]


def rand_hunk(rng, file=None, small=False):
    """arbitrary (possibly absurd) but well-formed hunk: counts consistent with the body"""
    n = rng.randint(0, 6)
    lines = []
    for _ in range(n):
        op = rng.choice([SP, SP, PLUS, MINUS])
        if file and rng.random() < 0.7:
            l = rng.choice(file)
        else:
            l = (rand_content(rng, small), rng.choice(["L", "L", "L", "C", "N"]))
        lines.append((op, l))
    oc = sum(1 for op, _ in lines if op != PLUS)
    nc = sum(1 for op, _ in lines if op != MINUS)
    # a line without newline can only be the last line of the old or of the new side
    lo = max([i for i, (op, _) in enumerate(lines) if op != PLUS], default=-1)
    ln = max([i for i, (op, _) in enumerate(lines) if op != MINUS], default=-1)
    def ok_n(i, op):
        # '-': last old-side line; '+': last new-side line; context: last line of both sides (= last line of the hunk)
        if op == MINUS: return i == lo
        if op == PLUS: return i == ln
        return i == lo and i == ln
    lines = [(op, (c, ("L" if (nl == "N" and not ok_n(i, op)) else nl))) for i, (op, (c, nl)) in enumerate(lines)]
    big = rng.random() < 0.05
    os_ = rng.choice([0, 1, 2, 3, 5, 8, 13, 100]) if not big else rng.choice([2**31, 2**62])
    ns_ = rng.choice([0, 1, 2, 3, 5, 8, 13, 100])
    return {"os": os_, "oc": oc, "ns": ns_, "nc": nc, "lines": lines}


def drift(rng, a, small=False):
    """target that drifted from the diff's base"""
    b = list(a)
    for _ in range(rng.choice([1, 1, 2, 3])):
        r = rng.random()
        if r < 0.35 or not b:
            i = rng.randint(0, len(b))
            for _ in range(rng.randint(1, 4)):
                b.insert(i, (rand_content(rng, small), "L"))
        elif r < 0.6:
            i = rng.randrange(len(b)); del b[i:i + rng.randint(1, 2)]
        elif r < 0.8:
            i = rng.randrange(len(b)); b[i] = (rand_content(rng, small), b[i][1])
        elif r < 0.9:
            i = rng.randrange(len(b)); j = min(len(b), i + rng.randint(1, 3)); k = rng.randint(0, len(b))
            b[k:k] = b[i:j]
        else:
            i = rng.randrange(len(b)); c = b[i][0]
            b[i] = (c.replace(b" ", b"  ").replace(b"\t", b" ") + rng.choice([b"", b" ", b"\t"]), b[i][1])
    if b:
        b = [(c, ("L" if (nl == "N" and (k != len(b) - 1 or not c)) else nl)) for k, (c, nl) in enumerate(b)]
    b = [((c[:-1] if (nl == "L" and c.endswith(b"\r")) else c), nl) for c, nl in b]
    return b


# ---- protocol encoders -------------------------------------------------------------------------
def hexb(b):
    return "x" + bytes(b).hex()


def enc_line(l):
    return f"{hexb(l[0])} {l[1]}"


def enc_lines(ls):
    return " ".join([str(len(ls))] + [enc_line(l) for l in ls])


def enc_hunk(h):
    parts = [str(h["os"]), str(h["oc"]), str(h["ns"]), str(h["nc"]), str(len(h["lines"]))]
    for op, l in h["lines"]:
        parts.append(f"{op} {enc_line(l)}")
    return " ".join(parts)


def enc_patch(hunks, fmt="unified", op="change", old=b"a", new=b"b", oldt=b"", newt=b"", idx=b"", pre=b"",
              oldm=0, newm=0):
    return " ".join([fmt, op, hexb(idx), hexb(pre), hexb(old), hexb(new), hexb(oldt), hexb(newt), str(oldm), str(newm),
                     str(len(hunks))] + [enc_hunk(h) for h in hunks])


def enc_opts(reverse=0, N=0, t=0, f=0, l=0, F=2, D=b"", nl="native", rf="default", verbose=0):
    return f"{int(reverse)} {int(N)} {int(t)} {int(f)} {int(l)} {F} {hexb(D)} {nl} {rf} {int(verbose)}"


def render(lines, mode="native"):
    out = b""
    for k, (c, nl) in enumerate(lines):
        out += c
        if nl == "N":
            if k + 1 < len(lines):
                out += b"\r\n" if mode == "crlf" else b"\n"      # only the last line of a file can be without its newline (D97)
            continue
        if mode in ("native", "lf"):
            out += b"\n"
        elif mode == "crlf":
            out += b"\r\n"
        else:
            out += b"\r\n" if nl == "C" else b"\n"
    return out
