"""Independent strict readers of diffs (used as oracles on what the tools and the implementation emit):
unified and context format per POSIX, plus splitting of bytes into (content, terminator-class) lines."""
import re
from gen import SP, PLUS, MINUS


class Bad(Exception):
    pass


def split_lines(b: bytes):
    out = []
    i = 0
    while i < len(b):
        j = b.find(b"\n", i)
        if j < 0:
            out.append((b[i:], "N")); break
        seg = b[i:j]
        if seg.endswith(b"\r"):
            out.append((seg[:-1], "C"))
        else:
            out.append((seg, "L"))
        i = j + 1
    return out


def _take_marker(lines, i):
    return i < len(lines) and lines[i][0].startswith(b"\\")


def parse_unified(b: bytes, with_header=True):
    """returns (old_name_line, new_name_line, hunks) ; strict: every line must belong to the grammar"""
    lines = split_lines(b)
    i = 0
    old = new = None
    if with_header:
        if len(lines) < 2 or not lines[0][0].startswith(b"--- ") or not lines[1][0].startswith(b"+++ "):
            raise Bad("unified header missing")
        old, new = lines[0][0][4:], lines[1][0][4:]
        i = 2
    hunks = []
    while i < len(lines):
        m = re.fullmatch(rb"@@ -(\d+)(?:,(\d+))? \+(\d+)(?:,(\d+))? @@.*", lines[i][0])
        if not m:
            raise Bad(f"expected hunk header at line {i+1}: {lines[i][0][:40]!r}")
        os_, oc = int(m.group(1)), int(m.group(2)) if m.group(2) is not None else 1
        ns_, nc = int(m.group(3)), int(m.group(4)) if m.group(4) is not None else 1
        i += 1
        hl = []
        o = n = 0
        while (o < oc or n < nc):
            if i >= len(lines):
                raise Bad("hunk body truncated")
            c, nl = lines[i]
            if nl == "N":
                raise Bad("patch line without newline")
            op = c[:1] if c else b" "
            if op not in (b" ", b"+", b"-"):
                raise Bad(f"bad body line {c[:40]!r}")
            i += 1
            t = nl
            body = c[1:]
            if _take_marker(lines, i):
                body += b"\r" if nl == "C" else b""
                t = "N"; i += 1
            hl.append((op[0], (body, t)))
            if op != b"+": o += 1
            if op != b"-": n += 1
        if o != oc or n != nc:
            raise Bad("counts do not match body")
        hunks.append({"os": os_, "oc": oc, "ns": ns_, "nc": nc, "lines": hl})
    return old, new, hunks


def parse_context(b: bytes, with_header=True):
    """strict POSIX context diff: every hunk starts with the 15-star line. Returns (old, new, hunks as old/new halves)"""
    lines = split_lines(b)
    i = 0
    old = new = None
    if with_header:
        if len(lines) < 2 or not lines[0][0].startswith(b"*** ") or not lines[1][0].startswith(b"--- "):
            raise Bad("context header missing")
        old, new = lines[0][0][4:], lines[1][0][4:]
        i = 2
    hunks = []

    def rng(text):
        m = re.fullmatch(rb"(\d+)(?:,(\d+))?", text)
        if not m:
            raise Bad(f"bad range {text!r}")
        s = int(m.group(1)); e = int(m.group(2)) if m.group(2) is not None else s
        return s, e

    def half(i, s, e, ops):
        want = 0 if (s == 0 and e == 0) else e - s + 1
        got = []
        while len(got) < want and i < len(lines):
            c, nl = lines[i]
            if c[:2] not in ops:
                break
            i += 1
            t = nl
            body = c[2:]
            if _take_marker(lines, i):
                body += b"\r" if nl == "C" else b""
                t = "N"; i += 1
            got.append((c[:1], (body, t)))
        return i, got, want

    while i < len(lines):
        if not lines[i][0].startswith(b"***************"):
            raise Bad(f"hunk does not start with the separator line at line {i+1}: {lines[i][0][:40]!r}")
        i += 1
        if i >= len(lines) or not re.fullmatch(rb"\*\*\* .* \*\*\*\*", lines[i][0]):
            raise Bad("old range line missing")
        os_, oe = rng(lines[i][0][4:-5]); i += 1
        i, oldh, owant = half(i, os_, oe, (b"  ", b"- ", b"! "))
        if i >= len(lines) or not re.fullmatch(rb"--- .* ----", lines[i][0]):
            raise Bad(f"new range line missing at line {i+1}")
        ns_, ne = rng(lines[i][0][4:-5]); i += 1
        i, newh, nwant = half(i, ns_, ne, (b"  ", b"+ ", b"! "))
        if oldh and len(oldh) != owant:
            raise Bad("old half has wrong length")
        if newh and len(newh) != nwant:
            raise Bad("new half has wrong length")
        hunks.append({"os": os_, "oc": owant, "ns": ns_, "nc": nwant, "old": oldh, "new": newh})
    return old, new, hunks


def ctx_sides(h):
    """old-side and new-side line sequences denoted by a context hunk (an omitted half = the context of the other)"""
    old, new = h["old"], h["new"]
    if not old:
        olds = [l for op, l in new if op == b" "]
    else:
        olds = [l for op, l in old]
    if not new:
        news = [l for op, l in old if op == b" "]
    else:
        news = [l for op, l in new]
    return olds, news
