"""Reusable correspondence ties: T4 (parser), T5 (formatter), T6 (paths), T7 (command line)."""
import itertools, re
import gen, emit, scen, common


def t4_requests(rng, n, with_tools=True):
    """parse / parseall requests over tool-made, emitter-made and malformed patch streams"""
    P = scen.Producers() if with_tools else None
    reqs = []
    dist = {"tool": 0, "emitter": 0, "malformed": 0, "concat": 0}
    try:
        while len(reqs) < n:
            a = gen.rand_file(rng, 10); b = gen.edit(rng, a)
            if a == b:
                continue
            ctx = rng.choice([0, 1, 2, 3])
            hs = gen.make_hunks(a, b, ctx)
            texts = [("unified", emit.unified_text(hs)), ("context", emit.context_text(hs)),
                     ("normal", emit.normal_text(gen.make_hunks(a, b, 0))),
                     ("git", emit.git_text(hs, rng.choice(scen.NAMES), rng.choice(scen.NAMES), rng.choice(["change", "rename", "copy", "add", "delete"]),
                                           rng.choice([None, b"100644", b"100755"]), rng.choice([None, b"100644", b"100755", b"120000"])))]
            dist["emitter"] += 4
            if P and rng.random() < 0.5:
                texts += [("unified", P.gnu_single(a, b, "u", ctx)), ("context", P.gnu_single(a, b, "c", ctx)), ("normal", P.gnu_single(a, b, "n"))]
                dist["tool"] += 3
            for f, t in texts:
                fm = rng.choice([f, "unknown", "unknown"])
                st = rng.choice([-1, -1, 0, 1, 2])
                reqs.append(f"parse {gen.hexb(t)} {fm} {st}")
                reqs.append(f"parseall {gen.hexb(t)} {fm} {st}")
                m = emit.mutate(rng, t)
                reqs.append(f"parseall {gen.hexb(m)} {rng.choice([f, 'unknown'])} {st}")
                dist["malformed"] += 1
            fill = lambda: b"".join(rng.choice(emit.FILLER) + b"\n" for _ in range(rng.randint(0, 3)))
            t2 = fill() + rng.choice(texts)[1] + fill() + rng.choice(texts)[1] + fill()
            reqs.append(f"parseall {gen.hexb(t2)} unknown {rng.choice([-1, 0, 1])}")
            dist["concat"] += 1
    finally:
        if P:
            P.close()
    return reqs[:n], dist


def t6_requests(rng, quick):
    """strip / basename / quoted / fileline / gitname / gitext: exhaustive small scope + random"""
    alpha = [b"a", b"/", b".", b" ", b'"', b"\\", b"\t", b"7"]
    maxlen = 4 if quick else 5
    strs = [b""]
    for k in range(1, maxlen + 1):
        strs += [b"".join(t) for t in itertools.product(alpha, repeat=k)]
    reqs = []
    for s in strs:
        for n in (-1, 0, 1, 2, 3):
            reqs.append(f"strip {gen.hexb(s)} {n}")
        reqs.append(f"basename {gen.hexb(s)}")
        reqs.append(f"quoted {gen.hexb(s)}")
        reqs.append(f"fileline {gen.hexb(s)} {rng.choice([-1, 0, 1])}")
    words = [b"a/b/c", b"dir/", b"x///d/f", b"/abs/p", b"a b/c d", b"/dev/null", b"caf\xc3\xa9", b"..", b"./x", b"a/b c\t2020-01-01", b"\"q\\\"x\"", b"\"a\\tb\\nc\\\\\"\t1",
             b"\"\\303\\251\"", b"\"\\1\\12\\123\\400\\8\"", b"\"unterminated", b"\"bad\\q\"", b"\"x\\", b"a\tb\tc", b" lead", b"trail ", b"a  b", b""]
    for _ in range(3000 if quick else 40000):
        w = rng.choice(words)
        if rng.random() < 0.5:
            w = w + rng.choice([b"", b"\t", b" ", b"\tts", b" b/", b" b/x", b"/"]) + rng.choice(words)
        n = rng.choice([-1, 0, 1, 2, 5])
        reqs.append(f"strip {gen.hexb(w)} {n}")
        reqs.append(f"fileline {gen.hexb(w)} {n}")
        reqs.append(f"quoted {gen.hexb(w)}")
        reqs.append(f"gitname {gen.hexb(w)} {n}")
        ext = rng.choice([b"rename from ", b"rename to ", b"copy from ", b"copy to ", b"old mode ", b"new mode ", b"deleted file mode ", b"new file mode ", b"index ", b"GIT binary patch", b"similarity index "])
        val = rng.choice([w, b"100644", b"100755", b"120000", b"10064", b"1006444", b"+00644", b" 00644", b"-00001", b"10064x", b"777777"])
        reqs.append(f"gitext {gen.hexb(ext + val)} {n}")
    for _ in range(2000 if quick else 20000):
        nums = [b"0", b"1", b"7", b"12", b"2147483648", b"9223372036854775807", b"9223372036854775808", b"99999999999999999999", b""]
        a, b_, c, d = (rng.choice(nums) for _ in range(4))
        reqs.append(f"urange {gen.hexb(b'@@ -' + a + rng.choice([b',', b'', b',,']) + b_ + b' +' + c + rng.choice([b',', b'']) + d + rng.choice([b' @@', b' @', b' @@ fn()']))}")
        reqs.append(f"nrange {gen.hexb(a + rng.choice([b',', b'']) + b_ + rng.choice([b'a', b'c', b'd', b'x', b'']) + c + rng.choice([b',', b'']) + d + rng.choice([b'', b' ', b'x']))}")
    return reqs


def option_table():
    rows = []
    for l in open(common.LEAN + "/PatchModel/Model/Gen/OptionsTable.lean"):
        m = re.match(r"\s*⟨(\d+), \[([^\]]*)\], (true|false)⟩", l)
        if m:
            rows.append((int(m.group(1)), bytes(int(x) for x in m.group(2).split(",")), m.group(3) == "true"))
    return rows


def enc_cmdline(argv, pc=0, qs=None):
    return f"cmdline {len(argv)} {' '.join(gen.hexb(a) for a in argv)} {pc} {'-' if qs is None else gen.hexb(qs)}".replace("  ", " ")


VALS = [b"1", b"x", b"", b"0", b"-1", b" 2", b"2x", b"99999999999", b"lf", b"native", b"crlf", b"preserve", b"warn", b"ignore", b"fail",
        b"context", b"unified", b"c", b"shell", b"literal", b"shell-always", b"foo", b"-R", b"--"]


def t7_requests(rng, quick):
    """every option x every spelling x every prefix of every long name, plus random bundles/orders/environment"""
    opts = option_table()
    reqs, meta = [], {}
    def add(argv, pc=0, qs=None, m=None):
        q = enc_cmdline(argv, pc, qs)
        reqs.append(q); meta[q] = (argv, pc, qs, m)
    for short, long_, ha in opts:
        for k in range(2, len(long_) + 1):
            pre = long_[:k]
            for v in (VALS if ha else [b"x"]):
                add([pre, v], m=("long-sep", long_, k)); add([pre + b"=" + v], m=("long-eq", long_, k)); add([pre], m=("long-bare", long_, k))
        if short < 128:
            s = bytes([short])
            for v in VALS:
                add([b"-" + s, v], m=("short-sep", long_)); add([b"-" + s + v], m=("short-att", long_)); add([b"-" + s], m=("short-bare", long_))
    flags = [bytes([s]) for s, l, h in opts if s < 128 and not h]
    for _ in range(5000 if quick else 100000):
        argv = []
        for _ in range(rng.randint(0, 6)):
            r = rng.random()
            if r < 0.3: argv.append(b"-" + b"".join(rng.choice(flags + [b"p1", b"F3", b"x", b"i", b"\xe9"]) for _ in range(rng.randint(1, 4))))
            elif r < 0.5: argv.append(rng.choice([b"file", b"p.diff", b"-", b"--", b"third", b""]))
            elif r < 0.8:
                s, l, h = rng.choice(opts); a = l[:rng.randint(3, len(l))]
                if h and rng.random() < 0.5: a += b"=" + rng.choice(VALS)
                argv.append(a)
                if h and rng.random() < 0.5: argv.append(rng.choice(VALS))
            else: argv.append(rng.choice(VALS))
        add(argv, rng.randint(0, 1), rng.choice([None, None, b"c", b"shell", b"bogus", b"literal", b"shell-always", b""]), m=("random",))
    return reqs, meta, opts


# ---- T8: the whole program (sb_patch in a scratch tree) vs the Lean driver model ---------------------------------------
def enc_tree(tree):
    parts = [str(len(tree))]
    for p in sorted(tree):
        n = tree[p]
        if n[0] == "f": parts.append(f"{gen.hexb(p)} f {gen.hexb(n[1])} {n[2]}")
        elif n[0] == "d": parts.append(f"{gen.hexb(p)} d x {n[1]}")
        elif n[0] == "l": parts.append(f"{gen.hexb(p)} l {gen.hexb(n[1])} 0")
        else: parts.append(f"{gen.hexb(p)} p x {n[1]}")
    return " ".join(parts)


def full_tree(tree):
    """add the implicit parent directories (mode 0755 as box.materialize creates them)"""
    t = dict(tree)
    for p in list(tree):
        parts = p.split(b"/")
        for i in range(1, len(parts)):
            d = b"/".join(parts[:i])
            if d not in t:
                t[d] = ("d", 0o755)
    return t


def enc_drive(tree, argv, stdin=b"", tty=None, uid=0, posixly=0):
    t = "notty" if tty is None else "tty " + " ".join([str(len(tty))] + [gen.hexb(a) for a in tty])
    return f"drive {enc_tree(full_tree(tree))} {1 if uid == 0 else 0} {gen.hexb(stdin)} {t} {posixly} {len(argv)} {' '.join(gen.hexb(a) for a in argv)}".replace("  ", " ").rstrip()


def canon_real(r):
    """canonical outcome of a real run, in the vocabulary of the model's `drive` response"""
    import drv, re as _re
    nodes = []
    for p, v in r.after.items():
        if v[0] == "f": nodes.append(f"{gen.hexb(p)}:f:{gen.hexb(v[1])}:{v[2]}")
        elif v[0] == "d": nodes.append(f"{gen.hexb(p)}:d:x:{v[2]}")
        elif v[0] == "l": nodes.append(f"{gen.hexb(p)}:l:{gen.hexb(v[1])}:0")
        else: nodes.append(f"{gen.hexb(p)}:p:x:{v[2]}")
    nodes.sort(key=lambda s: s.split(":")[0])
    ev = []
    out = r.stdout if not (r.stdout and False) else r.stdout
    for e in drv.verdicts(r.stdout + (b"\n" + r.stderr if b"patching file" in r.stderr or b"checking file" in r.stderr or b"Hunk #" in r.stderr else b"")):
        if e[0] == "file":
            name = _re.sub(rb" \((renamed|copied|read|already renamed) from .*\)$", b"", e[1])
            ev.append("file:" + gen.hexb(name))
        elif e[0] == "hunk": ev.append(f"hunk:{e[1]}:{e[2]}:{e[3]}:{e[4]}:{e[5]}")
        elif e[0] == "failed": ev.append(f"failed:{e[1]}:{e[2]}:{e[3]}:{gen.hexb(e[4]) if e[4] else '-'}")
        else: ev.append(e[0])
    return r.exit, ",".join(nodes), ",".join(ev)


def parse_drive(y):
    d = {}
    for kv in y.split(" "):
        k, _, v = kv.partition("=")
        d[k] = v
    return d


def t8(R, name, cs, keep_strace=False):
    """cs: list of dict(tree, argv, stdin?, tty?, uid?) -> list of (case, real result, model response dict)"""
    import drv
    jobs = [dict(cut=R.cut, tree=c["tree"], argv=c["argv"], stdin=c.get("stdin", b""), tty=c.get("tty"), uid=c.get("uid", 0),
                 strace=({"trace": True} if keep_strace else None)) for c in cs]
    res = drv.run_many(jobs)
    reqs = [enc_drive(c["tree"], c["argv"], c.get("stdin", b""), c.get("tty"), c.get("uid", 0)) for c in cs]
    rm = R.model(reqs)
    st = R.ties.setdefault(name, {"requests": 0, "disagreements": 0, "nontrivial": 0, "kinds": {}})
    outs = []
    for c, r, q, y in zip(cs, res, reqs, rm):
        st["requests"] += 1; R.evaluations += 1
        m = parse_drive(y)
        ex, tree, ev = canon_real(r)
        k = f"exit{ex}"
        st["kinds"][k] = st["kinds"].get(k, 0) + 1
        if "hunk:" in ev or "file:" in ev:
            st["nontrivial"] += 1
            R.nontrivial.add(hash(q))
        diffs = []
        if str(ex) != m.get("exit"): diffs.append(f"exit {ex} vs model {m.get('exit')}")
        if "cmdline" not in m:
            if tree != m.get("tree"): diffs.append("final tree differs")
            mev = m.get("ev", "")
            if any(a_ in (b"--help", b"--version", b"-v") for a_ in c["argv"]) and ex == 0:
                ev = mev      # (the usage text is free text, not a sequence of verdicts)
            # an exception ends the run: what was printed just before it is not part of the model's event list
            if ev != mev and not (ex == 2 and ev.startswith(mev)): diffs.append("events differ")
            av = list(c["argv"])
            if any(av[i] == b"-o" and av[i + 1] == b"-" for i in range(len(av) - 1)) or b"-o-" in av:
                # the patched result goes to standard output (the messages to standard error)
                if gen.hexb(r.stdout) != m.get("stdout"): diffs.append("standard output (the patched result) differs")
        if diffs:
            st["disagreements"] += 1
            R.violations.append({"kind": "tie-broken", "tie": name, "request": q, "implementation": f"exit={ex} tree={tree} ev={ev}",
                                 "model": y[:6000], "no_input": True, "what": "; ".join(diffs),
                                 "stdout": r.stdout.decode("latin1")[-500:], "stderr": r.stderr.decode("latin1")[-300:],
                                 "summary": f"tie {name}: model and sb_patch disagree ({'; '.join(diffs)})"})
        outs.append((c, r, m))
    if cs and len(R.samples) < 8:
        R.samples.append({"tie": name, "argv": [a.decode("latin1") for a in cs[0]["argv"]], "exit": res[0].exit, "model": rm[0][:300]})
    return outs


def t9(R, name, cs):
    """T9: the model's trace of mutating operations equals the strace trace of the real run, operation by operation"""
    import drv, straceparse, os, shutil
    jobs = [dict(cut=R.cut, tree=c["tree"], argv=c["argv"], stdin=c.get("stdin", b""), tty=c.get("tty"), uid=c.get("uid", 0),
                 strace={"trace": True}, keep=True) for c in cs]
    res = drv.run_many(jobs)
    reqs = [enc_drive(c["tree"], c["argv"], c.get("stdin", b""), c.get("tty"), c.get("uid", 0)) for c in cs]
    rm = R.model(reqs)
    st = R.ties.setdefault(name, {"requests": 0, "disagreements": 0, "nontrivial": 0, "kinds": {}, "operations compared": 0})
    outs = []
    for c, r, q, y in zip(cs, res, reqs, rm):
        top = os.path.dirname(r.root)
        ops = straceparse.parse(r.strace or b"", r.root, os.path.join(top, "tmp"))
        shutil.rmtree(top, ignore_errors=True)
        m = parse_drive(y)
        mt = [o for o in m.get("trace", "").split(",") if o]
        st["requests"] += 1; R.evaluations += 1
        st["operations compared"] += len(ops)
        if any(not o.startswith("tmp-") for o in ops):
            st["nontrivial"] += 1; R.nontrivial.add(hash(q))
        if ops != mt:
            st["disagreements"] += 1
            i = next((k for k, (a, b) in enumerate(zip(ops + ["<end>"] * 50, mt + ["<end>"] * 50)) if a != b), 0)
            R.violations.append({"kind": "tie-broken", "tie": name, "request": q, "implementation": ",".join(ops)[:4000], "model": ",".join(mt)[:4000],
                                 "no_input": True, "what": f"operation {i}: real {(ops + ['<end>'])[i][:80] if i < len(ops) + 1 else '<end>'} / model {(mt + ['<end>'])[i][:80] if i < len(mt) + 1 else '<end>'}",
                                 "summary": f"tie {name}: the model's trace of mutating operations differs from the strace trace at operation {i}"})
        outs.append((c, r, m, ops))
    return outs
