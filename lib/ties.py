"""Reusable correspondence ties: T4 (parser), T5 (formatter), T6 (paths), T7 (command line)."""
import itertools, re
import gen, emit, scen, common


def t4_requests(rng, n, with_tools=True):
    """parse / parseall requests over tool-made, emitter-made and malformed patch streams"""
    P = scen.Producers() if with_tools else None
    reqs = []
    dist = {"tool": 0, "emitter": 0, "malformed": 0, "concat": 0}
    try:
        while len(reqs) < n:
            a = gen.rand_file(rng, 10); b = gen.edit(rng, a)
            if a == b:
                continue
            ctx = rng.choice([0, 1, 2, 3])
            hs = gen.make_hunks(a, b, ctx)
            texts = [("unified", emit.unified_text(hs)), ("context", emit.context_text(hs)),
                     ("normal", emit.normal_text(gen.make_hunks(a, b, 0))),
                     ("git", emit.git_text(hs, rng.choice(scen.NAMES), rng.choice(scen.NAMES), rng.choice(["change", "rename", "copy", "add", "delete"]),
                                           rng.choice([None, b"100644", b"100755"]), rng.choice([None, b"100644", b"100755", b"120000"])))]
            dist["emitter"] += 4
            if P and rng.random() < 0.5:
                texts += [("unified", P.gnu_single(a, b, "u", ctx)), ("context", P.gnu_single(a, b, "c", ctx)), ("normal", P.gnu_single(a, b, "n"))]
                dist["tool"] += 3
            for f, t in texts:
                fm = rng.choice([f, "unknown", "unknown"])
                st = rng.choice([-1, -1, 0, 1, 2])
                reqs.append(f"parse {gen.hexb(t)} {fm} {st}")
                reqs.append(f"parseall {gen.hexb(t)} {fm} {st}")
                m = emit.mutate(rng, t)
                reqs.append(f"parseall {gen.hexb(m)} {rng.choice([f, 'unknown'])} {st}")
                dist["malformed"] += 1
            fill = lambda: b"".join(rng.choice(emit.FILLER) + b"\n" for _ in range(rng.randint(0, 3)))
            t2 = fill() + rng.choice(texts)[1] + fill() + rng.choice(texts)[1] + fill()
            reqs.append(f"parseall {gen.hexb(t2)} unknown {rng.choice([-1, 0, 1])}")
            dist["concat"] += 1
    finally:
        if P:
            P.close()
    return reqs[:n], dist


def t6_requests(rng, quick):
    """strip / basename / quoted / fileline / gitname / gitext: exhaustive small scope + random"""
    alpha = [b"a", b"/", b".", b" ", b'"', b"\\", b"\t", b"7"]
    maxlen = 4 if quick else 5
    strs = [b""]
    for k in range(1, maxlen + 1):
        strs += [b"".join(t) for t in itertools.product(alpha, repeat=k)]
    reqs = []
    for s in strs:
        for n in (-1, 0, 1, 2, 3):
            reqs.append(f"strip {gen.hexb(s)} {n}")
        reqs.append(f"basename {gen.hexb(s)}")
        reqs.append(f"quoted {gen.hexb(s)}")
        reqs.append(f"fileline {gen.hexb(s)} {rng.choice([-1, 0, 1])}")
    words = [b"a/b/c", b"dir/", b"x///d/f", b"/abs/p", b"a b/c d", b"/dev/null", b"caf\xc3\xa9", b"..", b"./x", b"a/b c\t2020-01-01", b"\"q\\\"x\"", b"\"a\\tb\\nc\\\\\"\t1",
             b"\"\\303\\251\"", b"\"\\1\\12\\123\\400\\8\"", b"\"unterminated", b"\"bad\\q\"", b"\"x\\", b"a\tb\tc", b" lead", b"trail ", b"a  b", b""]
    for _ in range(3000 if quick else 40000):
        w = rng.choice(words)
        if rng.random() < 0.5:
            w = w + rng.choice([b"", b"\t", b" ", b"\tts", b" b/", b" b/x", b"/"]) + rng.choice(words)
        n = rng.choice([-1, 0, 1, 2, 5])
        reqs.append(f"strip {gen.hexb(w)} {n}")
        reqs.append(f"fileline {gen.hexb(w)} {n}")
        reqs.append(f"quoted {gen.hexb(w)}")
        reqs.append(f"gitname {gen.hexb(w)} {n}")
        ext = rng.choice([b"rename from ", b"rename to ", b"copy from ", b"copy to ", b"old mode ", b"new mode ", b"deleted file mode ", b"new file mode ", b"index ", b"GIT binary patch", b"similarity index "])
        val = rng.choice([w, b"100644", b"100755", b"120000", b"10064", b"1006444", b"+00644", b" 00644", b"-00001", b"10064x", b"777777"])
        reqs.append(f"gitext {gen.hexb(ext + val)} {n}")
    for _ in range(2000 if quick else 20000):
        nums = [b"0", b"1", b"7", b"12", b"2147483648", b"9223372036854775807", b"9223372036854775808", b"99999999999999999999", b""]
        a, b_, c, d = (rng.choice(nums) for _ in range(4))
        reqs.append(f"urange {gen.hexb(b'@@ -' + a + rng.choice([b',', b'', b',,']) + b_ + b' +' + c + rng.choice([b',', b'']) + d + rng.choice([b' @@', b' @', b' @@ fn()']))}")
        reqs.append(f"nrange {gen.hexb(a + rng.choice([b',', b'']) + b_ + rng.choice([b'a', b'c', b'd', b'x', b'']) + c + rng.choice([b',', b'']) + d + rng.choice([b'', b' ', b'x']))}")
    return reqs


def option_table():
    rows = []
    for l in open(common.LEAN + "/PatchModel/Model/Gen/OptionsTable.lean"):
        m = re.match(r"\s*⟨(\d+), \[([^\]]*)\], (true|false)⟩", l)
        if m:
            rows.append((int(m.group(1)), bytes(int(x) for x in m.group(2).split(",")), m.group(3) == "true"))
    return rows


def enc_cmdline(argv, pc=0, qs=None):
    return f"cmdline {len(argv)} {' '.join(gen.hexb(a) for a in argv)} {pc} {'-' if qs is None else gen.hexb(qs)}".replace("  ", " ")


VALS = [b"1", b"x", b"", b"0", b"-1", b" 2", b"2x", b"99999999999", b"lf", b"native", b"crlf", b"preserve", b"warn", b"ignore", b"fail",
        b"context", b"unified", b"c", b"shell", b"literal", b"shell-always", b"foo", b"-R", b"--"]


def t7_requests(rng, quick):
    """every option x every spelling x every prefix of every long name, plus random bundles/orders/environment"""
    opts = option_table()
    reqs, meta = [], {}
    def add(argv, pc=0, qs=None, m=None):
        q = enc_cmdline(argv, pc, qs)
        reqs.append(q); meta[q] = (argv, pc, qs, m)
    for short, long_, ha in opts:
        for k in range(2, len(long_) + 1):
            pre = long_[:k]
            for v in (VALS if ha else [b"x"]):
                add([pre, v], m=("long-sep", long_, k)); add([pre + b"=" + v], m=("long-eq", long_, k)); add([pre], m=("long-bare", long_, k))
        if short < 128:
            s = bytes([short])
            for v in VALS:
                add([b"-" + s, v], m=("short-sep", long_)); add([b"-" + s + v], m=("short-att", long_)); add([b"-" + s], m=("short-bare", long_))
    flags = [bytes([s]) for s, l, h in opts if s < 128 and not h]
    for _ in range(5000 if quick else 100000):
        argv = []
        for _ in range(rng.randint(0, 6)):
            r = rng.random()
            if r < 0.3: argv.append(b"-" + b"".join(rng.choice(flags + [b"p1", b"F3", b"x", b"i", b"\xe9"]) for _ in range(rng.randint(1, 4))))
            elif r < 0.5: argv.append(rng.choice([b"file", b"p.diff", b"-", b"--", b"third", b""]))
            elif r < 0.8:
                s, l, h = rng.choice(opts); a = l[:rng.randint(3, len(l))]
                if h and rng.random() < 0.5: a += b"=" + rng.choice(VALS)
                argv.append(a)
                if h and rng.random() < 0.5: argv.append(rng.choice(VALS))
            else: argv.append(rng.choice(VALS))
        add(argv, rng.randint(0, 1), rng.choice([None, None, b"c", b"shell", b"bogus", b"literal", b"shell-always", b""]), m=("random",))
    return reqs, meta, opts
