"""Driver-level scenarios: (tree before, patch text, argv, expected tree after) built from random file-tree pairs and the
three producers (GNU diff, git diff, the independent Python emitter)."""
import os, random, shutil, subprocess, tempfile
import common, gen, emit

NAMES = [b"f", b"g.c", b"main.c", b"a b", b"x-y", b"README", b"caf\xc3\xa9", b"q\"t", b"t\\b", b"sp ace.txt"]
PLAIN_NAMES = [b"f", b"g.c", b"main.c", b"x-y", b"README", b"Makefile", b"lib.h"]
DIRS = [b"", b"d", b"src", b"src/sub", b"a/b/c"]


def rand_tree_pair(rng, nfiles=None, plain_names=True, maxlen=10, allow_empty=True, ops=("modify",)):
    """returns (treeA, treeB, changes) where trees are {path: (lines, mode)} and changes: path -> kind"""
    n = nfiles or rng.choice([1, 1, 2, 3])
    names = PLAIN_NAMES if plain_names else NAMES
    A, B, ch = {}, {}, {}
    used = set()
    while len(A) + len([1 for k in ch.values() if k == "create"]) < n:
        d = rng.choice(DIRS); nm = rng.choice(names)
        p = (d + b"/" + nm) if d else nm
        if p in used or any(q.startswith(p + b"/") or p.startswith(q + b"/") for q in used):
            continue
        used.add(p)
        kind = rng.choice(ops)
        a = gen.rand_file(rng, maxlen, small=rng.random() < 0.5, crlf_p=0.05)
        if not a and kind != "create":
            a = [(b"x", "L")]
        mode = rng.choice([0o644, 0o644, 0o600, 0o755, 0o664])
        if kind == "modify":
            b = gen.edit(rng, a)
            if b == a or not b:
                b = a + [(b"added", "L")] if a[-1][1] != "N" else [(b"added", "L")] + a
            A[p] = (a, mode); B[p] = (b, mode)
        elif kind == "create":
            b = gen.rand_file(rng, maxlen) or [(b"new", "L")]
            B[p] = (b, 0o644)
        elif kind == "delete":
            A[p] = (a, mode)
        elif kind == "rename":
            d2 = rng.choice(DIRS); nm2 = rng.choice(names)
            p2 = (d2 + b"/" + nm2) if d2 else nm2
            if p2 in used or any(q.startswith(p2 + b"/") or p2.startswith(q + b"/") for q in used):
                used.discard(p); continue
            used.add(p2)
            if len(a) < 4:
                a = a + [(b"l%d" % i, "L") for i in range(5)]
                a = [(c, "L" if t == "N" else t) for c, t in a]
            b = gen.edit(rng, a, nedits=1) if rng.random() < 0.6 else list(a)
            A[p] = (a, mode); B[p2] = (b, mode)
            ch[p2] = "rename-to"
        elif kind == "chmod":
            A[p] = (a, 0o644); B[p] = (a, 0o755)
        elif kind == "create-empty":      # git only: `new file mode` with no hunk
            B[p] = ([], 0o644)
        elif kind == "delete-empty":      # git only: `deleted file mode` with no hunk
            A[p] = ([], mode)
        elif kind == "copy-edit":         # git -C: the original is edited AND an (edited) copy of the old content is added
            d2 = rng.choice(DIRS); nm2 = rng.choice(names)
            p2 = (d2 + b"/" + nm2) if d2 else nm2
            if p2 in used or any(q.startswith(p2 + b"/") or p2.startswith(q + b"/") for q in used):
                used.discard(p); continue
            used.add(p2)
            a = [(b"common line %d" % i, "L") for i in range(rng.randint(8, 14))]
            b1 = list(a); b1[rng.randrange(len(b1))] = (b"edited in place", "L")
            b2 = list(a)
            if rng.random() < 0.7:
                b2[rng.randrange(len(b2))] = (b"edited in the copy", "L")
            A[p] = (a, mode); B[p] = (b1, mode); B[p2] = (b2, mode)
            ch[p2] = "copy-to"; kind = "modify"
        ch[p] = kind
    return A, B, ch


def to_box_tree(T):
    import box
    t = box.Tree()
    for p, (lines, mode) in T.items():
        t[p] = ("f", gen.render(lines, "keep"), mode)
    return t


class Producers:
    def __init__(self):
        os.makedirs(common.WORK, exist_ok=True)
        self.dir = tempfile.mkdtemp(prefix="prod-", dir=common.WORK)
        self.n = 0

    def close(self):
        shutil.rmtree(self.dir, ignore_errors=True)

    def _write(self, root, T):
        for p, (lines, mode) in T.items():
            q = os.path.join(root.encode(), p)
            os.makedirs(os.path.dirname(q), exist_ok=True)
            with open(q, "wb") as fh:
                fh.write(gen.render(lines, "keep"))
            os.chmod(q, mode)

    def gnu_tree(self, A, B, fmt="u", ctx=3):
        """diff -ruN a b (or -c): names a/<path> b/<path> -> apply with -p1"""
        self.n += 1
        top = os.path.join(self.dir, f"g{self.n}")
        os.makedirs(os.path.join(top, "a")); os.makedirs(os.path.join(top, "b"))
        self._write(os.path.join(top, "a"), A); self._write(os.path.join(top, "b"), B)
        flag = {"u": ["-U", str(ctx)], "c": ["-C", str(ctx)]}[fmt]
        r = subprocess.run(["diff", "-a", "-rN", *flag, "a", "b"], cwd=top, capture_output=True,
                           env={"LC_ALL": "C", "TZ": "UTC", "PATH": "/usr/bin:/bin"})
        shutil.rmtree(top, ignore_errors=True)
        return r.stdout

    def gnu_single(self, a_lines, b_lines, fmt="u", ctx=3, names=(b"a", b"b")):
        self.n += 1
        top = os.path.join(self.dir, f"s{self.n}")
        os.makedirs(top)
        open(os.path.join(top, "A"), "wb").write(gen.render(a_lines, "keep"))
        open(os.path.join(top, "B"), "wb").write(gen.render(b_lines, "keep"))
        if fmt == "n":
            cmd = ["diff", "-a", "A", "B"]
        else:
            flag = {"u": ["-U", str(ctx)], "c": ["-C", str(ctx)]}[fmt]
            cmd = ["diff", "-a", *flag, "--label", names[0].decode("latin1"), "--label", names[1].decode("latin1"), "A", "B"]
        r = subprocess.run(cmd, cwd=top, capture_output=True, env={"LC_ALL": "C", "TZ": "UTC", "PATH": "/usr/bin:/bin"})
        shutil.rmtree(top, ignore_errors=True)
        return r.stdout

    def git_tree(self, A, B, ch, ctx=3, renames=True):
        """git diff of two trees in a scratch repository -> apply with -p1"""
        self.n += 1
        top = os.path.join(self.dir, f"r{self.n}")
        os.makedirs(top)
        env = {"PATH": "/usr/bin:/bin", "HOME": top, "GIT_CONFIG_NOSYSTEM": "1", "LC_ALL": "C",
               "GIT_AUTHOR_NAME": "a", "GIT_AUTHOR_EMAIL": "a@b", "GIT_COMMITTER_NAME": "a", "GIT_COMMITTER_EMAIL": "a@b",
               "GIT_AUTHOR_DATE": "2020-01-01T00:00:00Z", "GIT_COMMITTER_DATE": "2020-01-01T00:00:00Z"}
        def g(*a):
            return subprocess.run(["git", "-c", "core.autocrlf=false", "-c", "core.quotepath=true", *a], cwd=top, capture_output=True, env=env)
        g("init", "-q", ".")
        self._write(top, A)
        g("add", "-A"); g("commit", "-q", "--allow-empty", "-m", "a")
        for p in A:
            os.remove(os.path.join(top.encode(), p))
        self._write(top, B)
        g("add", "-A")
        args = ["diff", "--cached", f"-U{ctx}", "HEAD"]
        if renames:
            args.insert(2, "-M30%")
        if "copy-to" in ch.values():
            args[2:2] = ["-C30%", "--find-copies-harder"]
        r = g(*args)
        shutil.rmtree(top, ignore_errors=True)
        return r.stdout


def expected_after(A, B):
    """expected final tree (files only) for applying diff(A,B) to A: exactly B"""
    return {p: (gen.render(lines, "keep"), mode) for p, (lines, mode) in B.items()}


def files_of(snap):
    return {p: (v[1], v[2]) for p, v in snap.items() if v[0] == "f"}
