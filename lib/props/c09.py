"""C09 — aborts and crashes never destroy data or leave half-written targets."""
import os, re, shutil
import box, drv, rich, scen, gen, emit, faults, ties


def corrupt(rng, text: bytes):
    """a syntax error at a random line: a body line with a bad first character, a range line with a broken count, truncation inside a hunk"""
    lines = text.split(b"\n")
    cand = [i for i, l in enumerate(lines) if l[:1] in (b" ", b"+", b"-", b"!", b"<", b">") and not l.startswith((b"--- ", b"+++ "))]
    rng_lines = [i for i, l in enumerate(lines) if l.startswith(b"@@ ") or re.match(rb"^\*\*\* \d", l) or re.match(rb"^--- \d", l)]
    r = rng.random()
    if r < 0.4 and cand:
        i = rng.choice(cand); lines[i] = b"X" + lines[i][1:]
        return b"\n".join(lines), i
    if r < 0.7 and rng_lines:
        i = rng.choice(rng_lines)
        lines[i] = re.sub(rb"(\d+)", lambda m: b"%d" % (int(m.group(1)) + 7), lines[i], count=2) if lines[i].startswith(b"@@") else lines[i].replace(b"****", b"***").replace(b"----", b"---")
        if lines[i].startswith(b"@@"):
            lines[i] = re.sub(rb",(\d+) \+", lambda m: b",%d +" % (int(m.group(1)) + 5), lines[i]) if b"," in lines[i] else lines[i].replace(b" +", b",9 +", 1)
        return b"\n".join(lines), i
    if cand:
        i = rng.choice(cand)
        return b"\n".join(lines[:i]) + b"\n", i
    return text[:len(text) // 2], 0


def run(R):
    if not R.build():
        return
    R.lean(["C09", "C09Run", "C01RunGit"])
    import hunted
    hunted.run(R, "C09")
    quick = R.tier == "quick"
    rng = R.rng
    P = scen.Producers()
    jobs, meta = [], []
    try:
        n = 260 if quick else 4000
        while len(jobs) < n:
            ops = rng.choice([("modify",), ("modify", "create", "delete"), ("modify", "rename", "create", "delete"), ("rename", "modify")])
            A, B, ch, prod, ctx, text = drv.make_case(rng, P, ops=ops, nfiles=rng.choice([2, 3, 3]), ctx=rng.choice([1, 2, 3]))
            if drv.has_d2(text):
                continue
            bad, pos = corrupt(rng, text)
            if bad == text:
                continue
            opts = rng.choice([[], [], [b"-b"], [b"-f"], [b"-N"]])
            jobs.append(dict(cut=R.cut, tree=drv.tree_with_patch(A, bad), argv=opts + [b"-p1", b"-i", drv.PATCHNAME]))
            meta.append((A, B, ch, prod, text, bad, pos, opts))
    finally:
        P.close()
    res = drv.run_many(jobs)
    dist = {"exit2": 0, "other": 0}
    for (A, B, ch, prod, text, bad, pos, opts), r in zip(meta, res):
        R.evaluations += 1
        if r.exit != 2:
            dist["other"] += 1
            continue
        dist["exit2"] += 1
        R.nontrivial.add(hash(bad))
        data = {"tree": {p.decode("latin1"): gen.render(l, "keep").hex() for p, (l, m) in A.items()}, "patch_hex": bad.hex(), "corrupted_line": pos, "producer": prod,
                "argv": [a.decode() for a in opts] + ["-p1", "-i", "__patch.diff"], "exit": r.exit, "stdout": r.stdout.decode("latin1")[-500:], "stderr": r.stderr.decode("latin1")[-300:]}
        got = drv.contents(r.after)
        a_ = {p: gen.render(l, "keep") for p, (l, m) in A.items()}
        b_ = {p: gen.render(l, "keep") for p, (l, m) in B.items()}
        for p in set(a_) | set(b_) | {q for q in got if not q.endswith((b".orig", b".rej"))}:
            g = got.get(p)
            if g is not None and g != a_.get(p) and g != b_.get(p):
                R.oracle_fail(f"after an abort caused by the patch text, {p!r} is neither in its original nor in its completely patched state", data); break
        else:
            # nothing is lost: every original file still exists somewhere with its bytes, or its section was completed (its new state exists)
            # what the patch text itself says is removed (the generator's intent may differ: git writes a rename it finds too dissimilar
            # as a deletion plus a creation, and the deletion is a complete section of its own)
            removed = set(m.group(1) for m in re.finditer(rb"(?m)^(?:---|\*\*\*) a/([^\t\n]+)[^\n]*\n(?:\+\+\+|---) (?:/dev/null|[^\t\n]+\t(?:1970-01-01|1969-12-31))", text))
            removed |= set(m.group(1) for m in re.finditer(rb"(?m)^diff --git a/(\S+) b/\S+\ndeleted file mode", text))
            for p, orig in a_.items():
                if p in got and got[p] in (orig, b_.get(p)):
                    continue
                if p in removed and p not in got:
                    continue
                dests = [q for q, k in ch.items() if k == "rename-to"]
                moved = any(q in got and got[q] == b_.get(q) for q in dests) and ch.get(p) == "rename"
                deleted_ok = ch.get(p) == "delete" and p not in got
                backup = (p + b".orig") in got and got[p + b".orig"] == orig
                if not (moved or deleted_ok or backup):
                    R.oracle_fail(f"after an abort caused by the patch text the content of {p!r} is lost (not at its path, not at a completed destination, not in a backup)", data); break
    R.dist["abort scenarios"] = dist

    # kill at any instant: SIGKILL before every system call of the run, for a scenario set
    a = [(b"line%d" % i, "L") for i in range(1, 9)]
    b = a[:3] + [(b"changed", "L")] + a[4:]
    A_ = gen.render(a, "keep"); B_ = gen.render(b, "keep")
    ren = emit.git_text(gen.make_hunks(a, b, 2), b"f", b"g", "rename")
    ren2 = emit.git_text(gen.make_hunks(a, b, 2), b"f", b"nd/g", "rename") + emit.git_text(gen.make_hunks(a, b, 2), b"h", b"h")
    u = emit.unified_text(gen.make_hunks(a, b, 2), b"f", b"f")
    kcs = [dict(name="git-rename", tree=box.Tree({b"f": ("f", A_, 0o644), b"p.diff": ("f", ren, 0o644)}), argv=[b"-p1", b"-i", b"p.diff"], rename=(b"f", b"g")),
           dict(name="git-rename-then-modify", tree=box.Tree({b"f": ("f", A_, 0o644), b"h": ("f", A_, 0o644), b"p.diff": ("f", ren2, 0o644)}), argv=[b"-p1", b"-i", b"p.diff"], rename=(b"f", b"nd/g")),
           dict(name="backup", tree=box.Tree({b"f": ("f", A_, 0o644), b"p.diff": ("f", u, 0o644)}), argv=[b"-b", b"-i", b"p.diff"], backup=(b"f", b"f.orig")),
           dict(name="backup-suffix-two-files", tree=box.Tree({b"f": ("f", A_, 0o644), b"g": ("f", A_, 0o644), b"p.diff": ("f", u + emit.unified_text(gen.make_hunks(a, b, 2), b"g", b"g"), 0o644)}),
                argv=[b"-b", b"-z", b".bak", b"-i", b"p.diff"], backup=(b"g", b"g.bak")),
           dict(name="backup-delete-then-recreate", tree=box.Tree({b"f": ("f", A_, 0o644), b"p.diff": ("f", emit.unified_text(gen.make_hunks(a, [], 3), b"f", b"/dev/null", b"", b"")
                + emit.unified_text(gen.make_hunks([], b, 3), b"/dev/null", b"f", b"", b""), 0o644)}), argv=[b"-b", b"-i", b"p.diff"], backup=(b"f", b"f.orig")),
           dict(name="git-rename-backup", tree=box.Tree({b"f": ("f", A_, 0o644), b"p.diff": ("f", ren, 0o644)}), argv=[b"-b", b"-p1", b"-i", b"p.diff"], rename=(b"f", b"g")),
           # two files swapped by a pair of git renames (known finding D23: the second file is overwritten before its content is anywhere else)
           dict(name="git-swap", tree=box.Tree({b"a": ("f", A_, 0o644), b"b": ("f", B_, 0o644), b"p.diff": ("f", emit.git_text([], b"a", b"b", "rename", similarity=100) + emit.git_text([], b"b", b"a", "rename", similarity=100), 0o644)}),
                argv=[b"-p1", b"-i", b"p.diff"], renames=[(b"a", b"b", A_, A_), (b"b", b"a", B_, B_)], tag="rename.swap-kill-window"),
           dict(name="git-swap-backup", tree=box.Tree({b"a": ("f", A_, 0o644), b"b": ("f", B_, 0o644), b"p.diff": ("f", emit.git_text([], b"a", b"b", "rename", similarity=100) + emit.git_text([], b"b", b"a", "rename", similarity=100), 0o644)}),
                argv=[b"-b", b"-p1", b"-i", b"p.diff"], keep=[(b"a", A_), (b"b", B_)])]
    jobs, meta = [], []
    for c in kcs:
        r0, calls, nall = faults.baseline(R.cut, c)
        # strace counts `when=` per system call: kill on entry to the j-th invocation of each traced system call after start-up
        for call, j, args in r0.all_calls:
            jobs.append(dict(cut=R.cut, tree=c["tree"], argv=c["argv"], strace={"inject": f"{call}:signal=SIGKILL:when={j}"}))
            meta.append((c, f"{call}#{j}", r0))
    for c in kcs:   # and the run that is not killed at all
        jobs.append(dict(cut=R.cut, tree=c["tree"], argv=c["argv"])); meta.append((c, "never", None))
    res = drv.run_many(jobs)
    killed = 0
    for (c, k, r0), r in zip(meta, res):
        R.evaluations += 1; R.nontrivial.add((c["name"], k))
        if r.exit in (-9, 137) or r.exit is None or (r.exit not in (0, 1, 2)):
            killed += 1
        got = drv.contents(r.after, drop=())
        data = {"scenario": c["name"], "kill_before_syscall": k, "argv": [a.decode() for a in c["argv"]], "exit": r.exit,
                "tree_after": {p.decode("latin1"): v.hex() for p, v in got.items() if p != b"p.diff"}}
        if "rename" in c:
            src, dst = c["rename"]
            if got.get(src) != A_ and got.get(dst) != B_:
                R.oracle_fail(f"kill before system call {k}: the source of the rename no longer holds its original content and the destination is not completely written", data)
        for src, dst, orig, new in c.get("renames", ()):
            if got.get(src) != orig and got.get(dst) != new:
                R.oracle_fail(f"kill before system call {k}: the source {src!r} of a rename no longer holds its original content and its destination {dst!r} is not completely written", data, tag=c.get("tag"))
                break
        for p_, orig in c.get("keep", ()):
            if orig not in (got.get(p_), got.get(p_ + b".orig")):
                R.oracle_fail(f"kill before system call {k} with --backup: the original content of {p_!r} is neither at its path nor at its backup path in full", data)
        if "backup" in c:
            p, bk = c["backup"]
            if got.get(p) != A_ and got.get(bk) != A_:
                R.oracle_fail(f"kill before system call {k} with --backup: the original content of {p!r} is neither at its path nor at its backup path in full", data)
    R.dist["kill points"] = {"runs": len(jobs), "process killed": killed}
    ties.t8(R, "T8-driver", kcs)
    ties.t9(R, "T9-trace", kcs)


RULE = ("(1) multi-file streams (2-3 sections; GNU diff, git with rename/delete/create, emitter) with a syntax error injected at a random line (bad body "
        "line, broken range line, truncation); for runs that end with status 2: every file is byte-for-byte original or in the completely patched state, and no "
        "original content is lost; (2) SIGKILL delivered before every system call of the run (strace injection) for rename and backup scenarios; the tree "
        "after the kill must satisfy: rename source intact until the destination is complete; with --backup the original is complete at its path or backup path.")
ASSUME = ["rename(2) is atomic", "completed system calls of a killed process persist", "no other process writes the tree"]
