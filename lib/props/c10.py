"""C10 — I/O failures are never reported as success."""
import os
import box, drv, rich, scen, gen, emit, faults, ties


def scenarios(rng, P, quick):
    """small scenarios (files < 4 KiB so that one stdio flush = one write)"""
    a = [(b"line%d" % i, "L") for i in range(1, 9)]
    b = a[:3] + [(b"changed", "L")] + a[4:]
    u = emit.unified_text(gen.make_hunks(a, b, 2), b"f", b"f")
    rej = emit.unified_text(gen.make_hunks([(c + b"!", t) for c, t in a], b, 2), b"f", b"f")
    A = gen.render(a, "keep")
    cs = [
        dict(name="modify", tree={b"f": ("f", A, 0o644), b"p.diff": ("f", u, 0o644)}, argv=[b"-i", b"p.diff"]),
        dict(name="modify-stdin", tree={b"f": ("f", A, 0o644)}, argv=[], stdin=u),
        dict(name="backup", tree={b"f": ("f", A, 0o644), b"p.diff": ("f", u, 0o644)}, argv=[b"-b", b"-i", b"p.diff"]),
        dict(name="rejects", tree={b"f": ("f", A, 0o644), b"p.diff": ("f", rej, 0o644)}, argv=[b"-i", b"p.diff"]),
        dict(name="read-only-refused", tree={b"f": ("f", A, 0o444), b"p.diff": ("f", u, 0o644)}, argv=[b"--read-only=fail", b"-i", b"p.diff"]),
        dict(name="read-only", tree={b"f": ("f", A, 0o444), b"p.diff": ("f", u, 0o644)}, argv=[b"-i", b"p.diff"]),
        dict(name="create-in-new-dir", tree={b"p.diff": ("f", emit.git_text(gen.make_hunks([], b, 3), b"nd/sub/n", b"nd/sub/n", "add"), 0o644)}, argv=[b"-p1", b"-i", b"p.diff"]),
        dict(name="delete", tree={b"d/f": ("f", A, 0o644), b"p.diff": ("f", emit.git_text(gen.make_hunks(a, [], 3), b"d/f", b"d/f", "delete"), 0o644)}, argv=[b"-p1", b"-i", b"p.diff"]),
        dict(name="git-rename", tree={b"f": ("f", A, 0o644), b"p.diff": ("f", emit.git_text(gen.make_hunks(a, b, 2), b"f", b"g", "rename"), 0o644)}, argv=[b"-p1", b"-i", b"p.diff"]),
        dict(name="symlink", tree={b"p.diff": ("f", emit.git_text(gen.make_hunks([], [(b"target", "N")], 3), b"lnk", b"lnk", "add", None, b"120000"), 0o644)}, argv=[b"-p1", b"-i", b"p.diff"]),
        dict(name="output-file", tree={b"f": ("f", A, 0o644), b"p.diff": ("f", u, 0o644)}, argv=[b"-o", b"out", b"-i", b"p.diff"]),
        dict(name="two-files", tree={b"f": ("f", A, 0o644), b"g": ("f", A, 0o644), b"p.diff": ("f", u + emit.unified_text(gen.make_hunks(a, b, 2), b"g", b"g"), 0o644)}, argv=[b"-i", b"p.diff"]),
    ]
    # a removal patch (new name /dev/null) whose target holds more than the patch removes: "Not deleting file ... as content differs"
    left = a + [(b"left over", "L")]
    cs.append(dict(name="delete-leftover", tree={b"f": ("f", gen.render(left, "keep"), 0o644),
                                                  b"p.diff": ("f", emit.unified_text(gen.make_hunks(a, [], 3), b"f", b"/dev/null", b"", b""), 0o644)}, argv=[b"-i", b"p.diff"]))
    # a target and a patch larger than one stdio buffer (4096 bytes), the buffer boundary falling inside a line
    big = [(b"line %04d of a file that is larger than one stdio buffer" % i, "L") for i in range(300)]
    bigb = big[:150] + [(b"changed in the middle", "L")] + big[151:]
    cs.append(dict(name="large-target", tree={b"f": ("f", gen.render(big, "keep"), 0o644), b"p.diff": ("f", emit.unified_text(gen.make_hunks(big, bigb, 3), b"f", b"f"), 0o644)}, argv=[b"-i", b"p.diff"]))
    rewrite = [(c + b" - rewritten", t) for c, t in big]
    cs.append(dict(name="large-patch", tree={b"f": ("f", gen.render(big, "keep"), 0o644), b"p.diff": ("f", emit.unified_text(gen.make_hunks(big, rewrite, 3), b"f", b"f"), 0o644)}, argv=[b"-i", b"p.diff"]))
    # a file-creating patch whose target already exists (the fault-free run rejects the hunk)
    cs.append(dict(name="create-existing", tree={b"f": ("f", A, 0o644), b"p.diff": ("f", emit.unified_text(gen.make_hunks([], b, 3), b"/dev/null", b"f", b"", b""), 0o644)}, argv=[b"-f", b"-i", b"p.diff"]))
    cs.append(dict(name="reverse-delete-existing", tree={b"f": ("f", A, 0o644), b"p.diff": ("f", emit.unified_text(gen.make_hunks(b, [], 3), b"f", b"/dev/null", b"", b""), 0o644)}, argv=[b"-f", b"-R", b"-i", b"p.diff"]))
    # a patch for two files on standard input which arrives in two pieces (a slow producer on a pipe): the program sees a short
    # read, and the read after it is one of the calls that fail - inside one stdio chunk, where fread hands back what it has
    ug = emit.unified_text(gen.make_hunks(a, b, 2), b"g", b"g")
    cs.append(dict(name="two-files-stdin-in-pieces", tree={b"f": ("f", A, 0o644), b"g": ("f", A, 0o644)}, argv=[], stdin=u + ug, stdin_chunks=[u, ug]))
    for c in cs:
        c["tree"] = box.Tree(c["tree"])
    return cs if not quick else cs


def outcome(r):
    """exit status and final files. Directories are not part of it: the property is about targets, backups and reject files, and an
    empty parent directory which stays behind because its rmdir failed is harmless (the run goes on since the fix for D91)."""
    return (r.exit, tuple(sorted((p, v[0], v[1], v[2]) for p, v in r.after.items() if v[0] != "d")))


def run(R):
    if not R.build():
        return
    R.lean(["C10"])
    quick = R.tier == "quick"
    rng = R.rng
    cs = scenarios(rng, None, quick)
    jobs, meta = [], []
    dist = {}
    for c in cs:
        r0, calls, nall = faults.baseline(R.cut, c)
        if r0.exit not in (0, 1):
            R.oracle_fail(f"scenario {c['name']} does not run cleanly without faults (exit {r0.exit})", {"scenario": c["name"], "stderr": r0.stderr.decode("latin1")}); continue
        errnos = ["EIO", "ENOSPC", "EACCES"]
        for idx, (call, k, args) in enumerate(calls):
            for e in (errnos if not quick else [errnos[idx % 3]] + ([errnos[(idx + 1) % 3]] if idx % 2 else [])):
                jobs.append(dict(cut=R.cut, tree=c["tree"], argv=c["argv"], stdin=c.get("stdin", b""), stdin_chunks=c.get("stdin_chunks"), strace={"inject": f"{call}:error={e}:when={k}"}))
                meta.append((c, r0, f"{call}#{k} {args[:60]}", e))
        dist[c["name"]] = f"{len(calls)} system calls after start-up"
    R.dist["fault schedules"] = dist
    res = drv.run_many(jobs)
    fired = 0
    cls = {"exit-2-with-diagnostic": 0, "harmless-identical": 0, "VIOLATION": 0}
    for (c, r0, k, e), r in zip(meta, res):
        R.evaluations += 1; R.nontrivial.add((c["name"], k, e))
        inj = [l for l in (r.strace or b"").split(b"\n") if b"(INJECTED)" in l]
        if inj:
            fired += 1
        data = {"scenario": c["name"], "argv": [a.decode() for a in c["argv"]], "fault": f"{e} at {k}", "injected_call": inj[0].decode("latin1")[:200] if inj else None,
                "exit": r.exit, "fault_free_exit": r0.exit, "stdout": r.stdout.decode("latin1")[-300:], "stderr": r.stderr.decode("latin1")[-300:],
                "tree": {p.decode("latin1"): (v[1].hex() if v[0] == "f" else v[0]) for p, v in c["tree"].items()}}
        if r.exit == 2 and r.stderr.strip():
            cls["exit-2-with-diagnostic"] += 1; continue
        if outcome(r) == outcome(r0):
            cls["harmless-identical"] += 1; continue
        cls["VIOLATION"] += 1
        diff = box.diff_trees(r0.after, r.after, ignore_mtime=True)
        what = "; ".join(f"{p.decode('latin1')} {w[0]}" for p, w in sorted(diff.items())[:3])
        R.oracle_fail(f"{c['name']}: {e} on {k.split(' ')[0]} -> exit {r.exit}" + (" without diagnostic" if r.exit == 2 else "") + f", files differ from the fault-free run ({what})", data)
    R.dist["faults that fired"] = fired
    R.dist["outcome classes"] = cls
    R.exhaustive = True
    # the model is tied to the program on the fault-free runs of the same scenarios
    ties.t8(R, "T8-driver", cs)
    ties.t9(R, "T9-trace", cs)


RULE = ("every single-fault schedule of a fixed scenario set (modify via -i and via stdin, backup, rejects, read-only, refused, create in new directories, "
        "delete, git rename, symlink, -o, two files): each read/write/open/rename/unlink/chmod/mkdir/symlink system call after start-up failed once "
        "(quick: one or two of EIO/ENOSPC/EACCES per call, thorough: all three) via strace fault injection. Outcome must be exit 2 with a diagnostic, or "
        "byte-identical files and the same exit status as the fault-free run. Complete for the listed scenarios and system calls.")
ASSUME = ["strace's fault injection returns the errno without performing the call", "files < 4 KiB: one stdio flush = one write"]
