"""C04 — every hunk is applied or saved as a reject; the exit status tells the truth (apply_patch level + driver level)."""
import re
import gen, cases, strict


def check_rejects(R, q, x, d, eff, status, o, fmt):
    """the reject bytes hold exactly the hunks not applied, once each, in order, with their two sides"""
    failed_idx = [i for i, s in enumerate(status) if s != "succeeded"]
    if int(d["failed"]) != len(failed_idx):
        R.oracle_fail("reported failure count differs from the number of hunks not applied", {"request": q, "observed": x}); return
    rej = bytes.fromhex(d["rej"][1:])
    if not failed_idx:
        if rej:
            R.oracle_fail("reject data written although every hunk applied", {"request": q, "observed": x})
        return
    # line numbers a reject can not express (known finding D34): start <= 0 for a non-empty side, or negative
    offnew, tag = 0, None
    for i, h in enumerate(eff):
        if status[i] == "succeeded":
            offnew += h["nc"] - h["oc"]
        else:
            so, sn = h["os"] + offnew, h["ns"] + offnew
            if so < 0 or sn < 0 or (so == 0 and h["oc"] > 0) or (sn == 0 and h["nc"] > 0):
                tag = "reject.nonpositive-start"
    as_unified = o["rf"] == "unified" or (o["rf"] == "default" and fmt in ("unified", "git"))
    try:
        if as_unified:
            _, _, hs = strict.parse_unified(rej)
            sides = [(gen.old_side(h), gen.new_side(h)) for h in hs]
        else:
            _, _, hs = strict.parse_context(rej)
            sides = [strict.ctx_sides(h) for h in hs]
    except strict.Bad as e:
        R.oracle_fail(f"reject data is not a valid {'unified' if as_unified else 'context'} diff: {e}", {"request": q, "observed": x}, tag=tag); return
    if len(sides) != len(failed_idx):
        R.oracle_fail("number of hunks in the reject data differs from the number of failed hunks", {"request": q, "observed": x}, tag=tag); return
    # a reject file carries content, the CRLF line end of a line that had one, and the missing-newline marker
    got = lambda ls: [(c + (b"\r" if t == "C" else b""), t == "N") for c, t in ls]
    want = got
    for (so, sn), i in zip(sides, failed_idx):
        if got(so) != want(gen.old_side(eff[i])) or got(sn) != want(gen.new_side(eff[i])):
            R.oracle_fail(f"reject hunk for hunk {i+1} does not carry that hunk's old/new lines", {"request": q, "observed": x, "hunk": i}, tag=tag); return


def run(R):
    if not R.build():
        return
    R.lean(["C04", "C04x", "C18Run", "C04RunLeftover"])
    import hunted
    hunted.run(R, "C04")
    quick = R.tier == "quick"
    rng = R.rng
    ac = cases.apply_cases(rng, 12000 if quick else 150000, 12 if quick else 30)
    reqs = [cases.enc_apply(c) for c in ac]
    m = dict(zip(reqs, ac))
    qs, ri, rm = R.tie("T3-apply", reqs, nontrivial=lambda q, x: "FAILED" in x or "skipped" in x)
    oreqs, ometa = [], []
    dist = {}
    for q, x in zip(qs, ri):
        tgt, hs, o, fmt, meta = m[q]
        d = cases.parse_apply_resp(x)
        if d is None:
            # hunks are well formed and no prompt is needed: any exception is "failing to place a hunk is fatal"
            R.oracle_fail(f"apply_patch threw ({x}) for a well-formed patch", {"request": q, "observed": x})
            continue
        if o["D"]:
            continue
        rec = cases.placements_from_msgs(hs, o, d)
        if rec is None:
            R.oracle_fail("verbose output does not report every hunk exactly once", {"request": q, "observed": x}); continue
        eff, pls, status = rec
        k = ("all-applied" if all(s == "succeeded" for s in status) else "some-failed" if "FAILED" in status else "skipped")
        dist[k] = dist.get(k, 0) + 1
        check_rejects(R, q, x, d, eff, status, o, fmt)
        if (d["skipped"] == "1") != ("skipped" in status):
            R.oracle_fail("was_skipped flag disagrees with the per-hunk verdicts", {"request": q, "observed": x})
        pl = " ".join(f"{i} {p} {f}" for i, p, f in pls)
        oreqs.append(f"oracle_place {gen.enc_lines(tgt)} {len(eff)} {' '.join(gen.enc_hunk(h) for h in eff)} {o['l']} {o['F']} {o['nl']} {len(pls)} {pl} {d['out']}".replace("  ", " "))
        ometa.append((q, x))
    R.dist["T3 outcomes"] = dist
    ro = R.model(oreqs)
    for (q, x), v in zip(ometa, ro):
        if v != "ok":
            R.oracle_fail(f"output is not the file with exactly the reported hunks applied ({v}): a hunk was lost, duplicated or half-applied",
                          {"request": q, "observed": x, "oracle": v})
    try:
        import driver_c04
        driver_c04.run(R)
    except ImportError:
        R.notes.append("driver-level part (exit status, reject file on disk) not built yet")


RULE = ("T3: generated (file, hunk sequence incl. absurd numbers / shuffled / duplicated hunks, options -R -N -t -f -l -F --reject-format); "
        "oracles: (1) no exception, (2) failure count = number of hunks not applied, (3) the reject bytes parse with an independent strict "
        "parser into exactly those hunks' sides, (4) the output is explained by exactly the hunks reported applied. Non-trivial = at least one hunk rejected.")
ASSUME = ["the in-process harness calls the same functions sb_patch calls", "hunks are well formed (counts consistent with bodies)"]
