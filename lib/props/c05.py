"""C05 — reverse application is the inverse of application."""
import gen, cases, drv, scen
from props import c01


def run(R):
    if not R.build():
        return
    R.lean(["C05", "C05Run", "C05RunCreate"])
    import hunted
    hunted.run(R, "C05")
    quick = R.tier == "quick"
    rng = R.rng
    reqs, meta = [], {}
    for _ in range(8000 if quick else 120000):
        a, b, ctx, hs = c01.valid_case(rng, 12 if quick else 30)
        # reversed D2: an emptied... the reversed first hunk must not be a context-free insertion at line 0 of a non-empty file
        if any(h["ns"] == 0 and h["nc"] == 0 and b for h in hs):
            continue
        o = dict(reverse=1, N=int(rng.random() < 0.3), t=int(rng.random() < 0.3), f=int(rng.random() < 0.3), l=int(rng.random() < 0.2),
                 F=rng.choice([0, 1, 2, 3]), D=b"", nl=rng.choice(["native", "lf", "crlf", "keep"]), rf="default", verbose=0)
        q = cases.enc_apply((b, hs, o, rng.choice(["unified", "context", "normal", "git"]), None))
        reqs.append(q); meta[q] = (a, b, hs, o)
        h0 = hs[0]
        reqs.append("reverse " + gen.enc_hunk(h0)); meta[reqs[-1]] = h0
    qs, ri, rm = R.tie("T3-apply-reverse", reqs)
    for q, x in zip(qs, ri):
        if q.startswith("reverse"):
            h = meta[q]
            want = "ok " + gen.enc_hunk(gen.reverse_hunk(h))
            if x != want:
                R.oracle_fail("reverse(hunk) does not swap the ranges and the +/- marks", {"request": q, "observed": x, "expected": want})
            continue
        a, b, hs, o = meta[q]
        d = cases.parse_apply_resp(x)
        if d is None:
            R.oracle_fail(f"apply -R threw ({x})", {"request": q, "observed": x}); continue
        if bytes.fromhex(d["out"][1:]) != gen.render(a, o["nl"]) or d["failed"] != "0" or d["perfect"] != "1":
            R.oracle_fail("applying a diff of A to B with -R to B does not yield A", {"request": q, "observed": x, "expected": gen.render(a, o["nl"]).hex()})
    # driver level
    P = scen.Producers()
    jobs, meta2 = [], []
    dist = {}
    try:
        n = 160 if quick else 3000
        while len(jobs) < n:
            ops = rng.choice([("modify",), ("modify", "create", "delete"), ("modify", "rename", "create", "delete"), ("create",), ("delete",),
                              ("modify", "create-empty", "delete-empty"), ("create-empty", "delete-empty", "create", "delete"), ("chmod", "modify")])
            A, B, ch, prod, ctx, text = drv.make_case(rng, P, ops=ops, producer=rng.choice(["gnu-u", "git", "emit-u", "emit-c", "gnu-c"]))
            if drv.has_d2(text):
                continue
            # reversed D2: a zero-context hunk that deletes the first lines of a file that stays non-empty
            import re
            # (known finding D2, mirror image: under -R a hunk whose new side is empty and stated at line 0 becomes a context-free
            #  insertion at the top; excluded whenever some file of tree B is non-empty - unified, context and normal spelling)
            if re.search(rb"(?m)^(@@ -\d+(,\d+)? \+0,0 @@|--- 0 ----$|\d+(,\d+)?d0$)", text) and any(l for l, m in B.values()):
                if not all(k in ("delete", "delete-empty") for k in ch.values()):
                    continue
            jobs.append(dict(cut=R.cut, tree=drv.tree_with_patch(B, text), argv=[b"-R", b"-p1", b"-i", drv.PATCHNAME]))
            meta2.append((A, B, ch, prod, ctx, text, "direct"))
            k = f"{prod}/" + "+".join(sorted(set(ch.values())))
            dist[k] = dist.get(k, 0) + 1
        # git renames whose old and new names both exist in tree B: two files swapped, files moved along a chain (with and without edits)
        import emit
        la = [(b"file a line %d" % i, "L") for i in range(6)]; lb = [(b"file b line %d" % i, "L") for i in range(6)]
        la2 = la[:2] + [(b"a edited", "L")] + la[3:]
        ren = lambda x, y, o, n: emit.git_text(gen.make_hunks(x, y, 3) if x != y else [], o, n, "rename", similarity=100 if x == y else 80)
        fixed = [("swap", {b"a": (la, 0o644), b"b": (lb, 0o644)}, {b"a": (lb, 0o644), b"b": (la, 0o644)}, ren(la, la, b"a", b"b") + ren(lb, lb, b"b", b"a")),
                 ("swap+edit", {b"a": (la, 0o644), b"b": (lb, 0o644)}, {b"a": (lb, 0o644), b"b": (la2, 0o644)}, ren(la, la2, b"a", b"b") + ren(lb, lb, b"b", b"a")),
                 ("chain", {b"a": (la, 0o644), b"b": (lb, 0o644)}, {b"b": (la, 0o644), b"c": (lb, 0o644)}, ren(la, la, b"a", b"b") + ren(lb, lb, b"b", b"c")),
                 ("chain+edit", {b"a": (la, 0o644), b"b": (lb, 0o644)}, {b"b": (la2, 0o644), b"c": (lb, 0o644)}, ren(la, la2, b"a", b"b") + ren(lb, lb, b"b", b"c")),
                 ("rename", {b"a": (la, 0o755)}, {b"d/e": (la2, 0o755)}, ren(la, la2, b"a", b"d/e"))]
        for name, A, B, text in fixed:
            jobs.append(dict(cut=R.cut, tree=drv.tree_with_patch(B, text), argv=[b"-R", b"-p1", b"-i", drv.PATCHNAME]))
            meta2.append((A, B, {}, "git", 3, text, name)); dist["git/" + name] = 1
    finally:
        P.close()
    res = drv.run_many(jobs)
    R.dist["driver -R scenarios"] = dict(sorted(dist.items(), key=lambda kv: -kv[1])[:20])
    for (A, B, ch, prod, ctx, text, kind), r in zip(meta2, res):
        R.evaluations += 1; R.nontrivial.add(hash(text))
        data = {"tree": {p.decode("latin1"): gen.render(l, "keep").hex() for p, (l, m) in B.items()}, "patch_hex": text.hex(), "argv": ["-R", "-p1", "-i", "__patch.diff"],
                "exit": r.exit, "stdout": r.stdout.decode("latin1")[-500:], "stderr": r.stderr.decode("latin1")[-300:]}
        want = {p: gen.render(l, "keep") for p, (l, m) in A.items()}
        got = drv.contents(r.after)
        if r.exit != 0 or drv.asked(r):
            R.oracle_fail(f"-R of a valid {prod} diff applied to tree B exits {r.exit}" + (" and asks a question" if drv.asked(r) else ""), data); continue
        if got == want and prod == "git":
            bad = [p for p, (l, m) in A.items() if p in B and r.after[p][2] != m]
            if bad:
                R.oracle_fail(f"-R of a git diff: mode of {bad[0]!r} is {oct(r.after[bad[0]][2])}, tree A has {oct(A[bad[0]][1])} (old and new mode must be exchanged)", data); continue
        if got != want:
            extra = sorted(set(got) - set(want)); miss = sorted(set(want) - set(got)); diff = sorted(p for p in want if p in got and got[p] != want[p])
            R.oracle_fail(f"-R of a {prod} diff applied to tree B does not restore tree A (extra {extra[:3]}, missing {miss[:3]}, different {diff[:3]}): "
                          "creation/deletion/rename must be exchanged", data)


RULE = ("apply_patch -R on B with diffs of A to B by the independent emitter (all options, all newline modes); reverse(hunk) on the same hunks; driver: "
        "tree B + diff(A,B) by GNU diff / git / emitter with create, delete, rename (also two files swapped and files moved along a chain), empty-file and mode sections applied with -R must give tree A (modes included), exit 0, no question. "
        "All cases are non-trivial (A != B).")
ASSUME = ["known finding D2 and its mirror image under -R excluded: zero-context insertion stated at line 0 of a non-empty file"]
