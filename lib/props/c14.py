"""C14 — line endings and the final newline are written as promised."""
import gen, cases, strict


def py_splice(tgt, eff, pls):
    """independent Python statement of the intended output lines for the reported placements"""
    out, cur = [], 0
    for i, p, f in pls:
        h = eff[i]
        out += tgt[cur:p]
        k = p
        for op, l in h["lines"]:
            if op == gen.PLUS:
                out.append(l)
            elif op == gen.SP:
                out.append(tgt[k]); k += 1
            else:
                k += 1
        cur = k
    return out + tgt[cur:]


def run(R):
    if not R.build():
        return
    R.lean(["C14"])
    quick = R.tier == "quick"
    rng = R.rng
    # reader tie: bytes -> lines, and the read/write round trip on the implementation
    reqs, meta = [], {}
    alpha = [b"a", b"b", b"\n", b"\r", b"\r\n", b" ", b"\\", b"\x00", b"\n\n"]
    for _ in range(6000 if quick else 80000):
        b = b"".join(rng.choice(alpha) for _ in range(rng.randint(0, 14)))
        reqs.append(f"readlines {gen.hexb(b)}"); meta[reqs[-1]] = b
    qs, ri, rm = R.tie("T14-readlines", reqs)
    for q, x in zip(qs, ri):
        toks = x.split()
        ls = [(bytes.fromhex(toks[i][1:]), toks[i + 1]) for i in range(2, len(toks), 2)]
        if gen.render(ls, "keep") != meta[q]:
            R.oracle_fail("reading a file into lines and writing them back in preserve mode changes the bytes", {"request": q, "observed": x})
        if ls != strict.split_lines(meta[q]):
            R.oracle_fail("get_line splits differently from the independent reader", {"request": q, "observed": x})
    # apply in all four modes
    ac = cases.apply_cases(rng, 10000 if quick else 120000, 12 if quick else 30)
    reqs = [cases.enc_apply(c) for c in ac]
    m = dict(zip(reqs, ac))
    qs, ri, rm = R.tie("T3-apply-newlines", reqs, nontrivial=lambda q, x: x.startswith("ok") and "succeeded" in x)
    dist = {}
    for q, x in zip(qs, ri):
        tgt, hs, o, fmt, meta_ = m[q]
        d = cases.parse_apply_resp(x)
        if d is None or o["D"]:
            continue
        rec = cases.placements_from_msgs(hs, o, d)
        if rec is None:
            continue
        eff, pls, status = rec
        try:
            lines = py_splice(tgt, eff, pls)
        except IndexError:
            R.oracle_fail("reported placement lies outside the file", {"request": q, "observed": x}); continue
        out = bytes.fromhex(d["out"][1:])
        mode = o["nl"]
        k = (mode, "crlf-in" if any(t == "C" for _, t in tgt) else "lf-in", "nonl" if (lines and lines[-1][1] == "N") else "nl")
        dist[str(k)] = dist.get(str(k), 0) + 1
        if gen.render(lines, mode) != out:
            R.oracle_fail(f"output bytes differ from the intended lines rendered in mode {mode}", {"request": q, "observed": x, "expected": gen.render(lines, mode).hex()})
            continue
        # the statement itself, independent of `render`: terminators and final newline
        got = strict.split_lines(out)
        clean = all(b"\r" not in c and b"\n" not in c for c, _ in lines)
        if clean and len(got) == len(lines):
            for (gc, gt), (c, t) in zip(got, lines):
                want = "N" if t == "N" else {"native": "L", "lf": "L", "crlf": "C", "keep": t}[mode]
                if gc != c or gt != want:
                    R.oracle_fail(f"line written with terminator {gt}, promised {want} (mode {mode})", {"request": q, "observed": x}); break
        if lines and lines[-1][0] and not lines[-1][0].endswith(b"\n"):
            if (lines[-1][1] == "N") != (not out.endswith(b"\n")):
                R.oracle_fail("final newline rule violated", {"request": q, "observed": x})
    R.dist["modes x input x final newline"] = dist


RULE = ("readlines: random byte strings over {a,b,LF,CR,CRLF,SP,\\\\,NUL}; apply: generated (file with LF/CRLF/mixed terminators and with or "
        "without final newline, hunk sequence, options) in all four --newline-output modes. Oracles: preserve-mode round trip = identity; output = "
        "independent Python splice of the reported placements rendered in the mode; per-line terminator class and final-newline rule. "
        "Non-trivial = apply cases where a hunk was applied.")
ASSUME = ["Unix: native = lf", "the in-process harness calls the same functions sb_patch calls"]
