"""C14 — line endings and the final newline are written as promised."""
import gen, cases, strict


def py_splice(tgt, eff, pls):
    """independent Python statement of the intended output lines for the reported placements"""
    out, cur = [], 0
    for i, p, f in pls:
        h = eff[i]
        out += tgt[cur:p]
        k = p
        for op, l in h["lines"]:
            if op == gen.PLUS:
                out.append(l)
            elif op == gen.SP:
                if k == len(tgt) and f > 0:
                    continue       # context at the end of the hunk which fuzz ignores and which the file does not have (D99)
                out.append(tgt[k]); k += 1
            else:
                k += 1
        cur = k
    return out + tgt[cur:]


def run(R):
    if not R.build():
        return
    R.lean(["C14", "C03Loop"])
    import hunted
    hunted.run(R, "C14")
    quick = R.tier == "quick"
    rng = R.rng
    # reader tie: bytes -> lines, and the read/write round trip on the implementation
    reqs, meta = [], {}
    alpha = [b"a", b"b", b"\n", b"\r", b"\r\n", b" ", b"\\", b"\x00", b"\n\n"]
    for _ in range(6000 if quick else 80000):
        b = b"".join(rng.choice(alpha) for _ in range(rng.randint(0, 14)))
        reqs.append(f"readlines {gen.hexb(b)}"); meta[reqs[-1]] = b
    qs, ri, rm = R.tie("T14-readlines", reqs)
    for q, x in zip(qs, ri):
        toks = x.split()
        ls = [(bytes.fromhex(toks[i][1:]), toks[i + 1]) for i in range(2, len(toks), 2)]
        if gen.render(ls, "keep") != meta[q]:
            R.oracle_fail("reading a file into lines and writing them back in preserve mode changes the bytes", {"request": q, "observed": x})
        if ls != strict.split_lines(meta[q]):
            R.oracle_fail("get_line splits differently from the independent reader", {"request": q, "observed": x})
    # apply in all four modes
    ac = cases.apply_cases(rng, 10000 if quick else 120000, 12 if quick else 30)
    reqs = [cases.enc_apply(c) for c in ac]
    m = dict(zip(reqs, ac))
    qs, ri, rm = R.tie("T3-apply-newlines", reqs, nontrivial=lambda q, x: x.startswith("ok") and "succeeded" in x)
    dist = {}
    for q, x in zip(qs, ri):
        tgt, hs, o, fmt, meta_ = m[q]
        d = cases.parse_apply_resp(x)
        if d is None or o["D"]:
            continue
        rec = cases.placements_from_msgs(hs, o, d)
        if rec is None:
            continue
        eff, pls, status = rec
        try:
            lines = py_splice(tgt, eff, pls)
        except IndexError:
            R.oracle_fail("reported placement lies outside the file", {"request": q, "observed": x}); continue
        out = bytes.fromhex(d["out"][1:])
        mode = o["nl"]
        k = (mode, "crlf-in" if any(t == "C" for _, t in tgt) else "lf-in", "nonl" if (lines and lines[-1][1] == "N") else "nl")
        dist[str(k)] = dist.get(str(k), 0) + 1
        if gen.render(lines, mode) != out:
            R.oracle_fail(f"output bytes differ from the intended lines rendered in mode {mode}", {"request": q, "observed": x, "expected": gen.render(lines, mode).hex()})
            continue
        # the statement itself, independent of `render`: terminators and final newline
        got = strict.split_lines(out)
        clean = all(b"\r" not in c and b"\n" not in c for c, _ in lines)
        if clean and len(got) == len(lines):
            for k_, ((gc, gt), (c, t)) in enumerate(zip(got, lines)):
                if t == "N" and k_ + 1 < len(lines):
                    t = "L"      # only the last line of the output can be without its newline (D97: it used to be joined with the next line)
                want = "N" if t == "N" else {"native": "L", "lf": "L", "crlf": "C", "keep": t}[mode]
                if gc != c or gt != want:
                    R.oracle_fail(f"line written with terminator {gt}, promised {want} (mode {mode})", {"request": q, "observed": x}); break
        if lines and lines[-1][0] and not lines[-1][0].endswith(b"\n"):
            if (lines[-1][1] == "N") != (not out.endswith(b"\n")):
                R.oracle_fail("final newline rule violated", {"request": q, "observed": x})
    R.dist["modes x input x final newline"] = dist
    # the patch side: every line read from a patch (all three formats) carries the terminator class it has in the patch text,
    # and the "\\ No newline at end of file" marker on either side
    import emit
    from props import c13
    preqs, pmeta = [], {}
    for _ in range(2500 if quick else 40000):
        crlf = rng.random() < 0.5
        a = gen.rand_file(rng, 8, crlf_p=(0.9 if crlf else 0.0), nonl_p=0.3)
        b = gen.edit(rng, a)
        a = [(c, t) for c, t in a if not c.endswith(b"\r") and b"\x00" not in c]; b = [(c, t) for c, t in b if not c.endswith(b"\r") and b"\x00" not in c]
        if a == b:
            continue
        ctx = rng.choice([0, 1, 3])
        hs = gen.make_hunks(a, b, ctx)
        for fmt, text, ref in (("unified", emit.unified_text(hs), hs), ("context", emit.context_text(hs), hs), ("normal", emit.normal_text(gen.make_hunks(a, b, 0)), gen.make_hunks(a, b, 0))):
            q = f"parse {gen.hexb(text)} {rng.choice([fmt, 'unknown'])} -1"
            preqs.append(q); pmeta[q] = ref
    qs, ri, rm = R.tie("T4-parse-terminators", preqs)
    for q, x in zip(qs, ri):
        ref = pmeta[q]
        got = c13.parse_hunks_from_resp(x)
        if got is None or len(got) != len(ref):
            R.oracle_fail(f"a diff with CRLF lines / no-newline markers is not parsed into its hunks ({x[:60]})", {"request": q, "observed": x}); continue
        for g, h in zip(got, ref):
            if gen.old_side(g) != gen.old_side(h) or gen.new_side(g) != gen.new_side(h):
                R.oracle_fail("a line read from the patch does not carry the terminator (LF / CRLF / none) it has in the patch text", {"request": q, "observed": x}); break


RULE = ("readlines: random byte strings over {a,b,LF,CR,CRLF,SP,\\\\,NUL}; apply: generated (file with LF/CRLF/mixed terminators and with or "
        "without final newline, hunk sequence, options) in all four --newline-output modes. Oracles: preserve-mode round trip = identity; output = "
        "independent Python splice of the reported placements rendered in the mode; per-line terminator class and final-newline rule. "
        "Non-trivial = apply cases where a hunk was applied.")
ASSUME = ["Unix: native = lf", "the in-process harness calls the same functions sb_patch calls"]
