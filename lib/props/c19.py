"""C19 — option spellings are interchangeable; bad command lines are rejected."""
import os, subprocess
import common, gen, ties


def run(R):
    # the option table and the defaults are REGENERATED from the source on every run; C19's theorems are re-checked against them
    with common._Lock("lake"):
        r = subprocess.run(["python3", os.path.join(common.VERIF, "tools", "gen_tables.py")], capture_output=True, text=True)
    if r.returncode != 0:
        R.violations.append({"kind": "obligation-broken", "theorem": "tools/gen_tables.py", "no_input": True, "summary": "table translator failed: " + (r.stdout + r.stderr)[-500:]})
        return
    R.notes.append("gen_tables: " + r.stdout.strip())
    if not R.build():
        return
    R.lean(["C19", "C19Main"])
    import hunted
    hunted.run(R, "C19")
    import inventory
    inventory.check_options(R)   # structural tie: the option fields the C++ driver consults = those the model consults
    quick = R.tier == "quick"
    rng = R.rng
    reqs, meta, opts = ties.t7_requests(rng, quick)
    qs, ri, rm = R.tie("T7-cmdline", reqs)
    resp = dict(zip(qs, ri))
    R.exhaustive = True
    def out(argv, pc=0, qs_=None):
        return resp.get(ties.enc_cmdline(argv, pc, qs_))
    # oracles on the implementation: spellings agree
    n_eq = n_amb = 0
    longs = [l for _, l, _ in opts]
    for short, long_, ha in opts:
        for k in range(3, len(long_) + 1):
            pre = long_[:k]
            matches = [l for l in longs if l.startswith(pre)]
            if pre in longs and pre != long_:
                continue   # exactly another option's name
            unamb = len(matches) == 1 or pre in longs
            for v in (ties.VALS if ha else [b"x"]):
                full_sep, full_eq = out([long_, v]), out([long_ + b"=" + v])
                a, b = out([pre, v]), out([pre + b"=" + v])
                if unamb:
                    n_eq += 1
                    if a != full_sep or b != full_eq:
                        R.oracle_fail("an unambiguous prefix of a long option behaves differently from the full name", {"request": ties.enc_cmdline([pre, v]), "observed": str(a), "expected": str(full_sep)})
                    if ha and full_sep != full_eq and not (full_sep or "").startswith("exn") :
                        R.oracle_fail("--name=value differs from --name value", {"request": ties.enc_cmdline([long_, v]), "observed": str(full_sep), "expected": str(full_eq)})
                else:
                    n_amb += 1
                    if not (a or "").startswith("exn") or not (b or "").startswith("exn"):
                        R.oracle_fail("an ambiguous prefix of a long option is accepted", {"request": ties.enc_cmdline([pre, v]), "observed": str(a)})
            if not ha:
                if not (out([long_ + b"=x"]) or "").startswith("exn"):
                    R.oracle_fail("a flag accepts '=value'", {"request": ties.enc_cmdline([long_ + b"=x"]), "observed": str(out([long_ + b"=x"]))})
        if short < 128:
            s = bytes([short])
            for v in ties.VALS:
                if ha:
                    sep, att, lng = out([b"-" + s, v]), out([b"-" + s + v]), out([long_, v])
                    if v and sep != att:
                        R.oracle_fail("short option: attached argument differs from separate argument", {"request": ties.enc_cmdline([b"-" + s + v]), "observed": str(att), "expected": str(sep)})
                    if sep != lng:
                        R.oracle_fail("short option differs from its long form", {"request": ties.enc_cmdline([b"-" + s, v]), "observed": str(sep), "expected": str(lng)})
            if ha and not (out([b"-" + s]) or "").startswith("exn"):
                R.oracle_fail("missing option argument accepted", {"request": ties.enc_cmdline([b"-" + s]), "observed": str(out([b"-" + s]))})
    R.dist["prefix spellings compared"] = n_eq
    R.dist["ambiguous prefixes checked"] = n_amb
    # second batch: bundles, operand positions, '--', rejections
    flags = [bytes([s]) for s, l, h in opts if s < 128 and not h]
    reqs2, pairs, rejects = [], [], []
    for _ in range(3000 if quick else 40000):
        fs = [rng.choice(flags) for _ in range(rng.randint(2, 4))]
        if any(f in (b"h", b"v") for f in fs):
            pass
        a = [b"-" + b"".join(fs)]; b = [b"-" + f for f in fs]
        tail = rng.choice([[], [b"file"], [b"file", b"p.diff"], [b"-p1"], [b"--", b"-x"]])
        pairs.append((a + tail, b + tail, "bundle"))
        # operand position
        opt = rng.choice([[b"-R"], [b"-p", b"1"], [b"--fuzz=3"], [b"-o", b"out"], [b"--dry-run"], [b"-z", b".bak"]])
        ops_ = rng.choice([[b"file"], [b"file", b"p.diff"], [b"-"]])
        pairs.append((ops_ + opt, opt + ops_, "operand-position"))
        pairs.append((opt + [b"--"] + ops_, opt + ops_, "dashdash"))
    for argv in ([b"-q"], [b"--bogus"], [b"-F", b"x"], [b"-p", b"1x"], [b"-F"], [b"a", b"b", b"c"], [b"--f"], [b"--re"], [b"--dry-run=1"], [b"-Rq"],
                 [b"--newline-output=mac"], [b"--read-only=maybe"], [b"--reject-format=ed"], [b"--quoting-style=x"], [b"-p", b""], [b"--", b"a", b"b", b"c"]):
        rejects.append(argv)
    for a, b, _ in pairs:
        reqs2 += [ties.enc_cmdline(a), ties.enc_cmdline(b)]
    for a in rejects:
        reqs2.append(ties.enc_cmdline(a))
    qs2, ri2, rm2 = R.tie("T7-equivalences", reqs2)
    resp2 = dict(zip(qs2, ri2))
    for a, b, kind in pairs:
        x, y = resp2[ties.enc_cmdline(a)], resp2[ties.enc_cmdline(b)]
        if x != y and not (x.startswith("exn") and y.startswith("exn")):
            R.oracle_fail(f"interchangeable spellings give different options ({kind})", {"request": ties.enc_cmdline(a), "observed": x, "expected": y, "other": ties.enc_cmdline(b)})
    for a in rejects:
        x = resp2[ties.enc_cmdline(a)]
        if not x.startswith("exn"):
            R.oracle_fail("a bad command line is accepted", {"request": ties.enc_cmdline(a), "observed": x})
    try:
        import driver_c19
        driver_c19.run(R)
    except ImportError:
        R.notes.append("driver-level part (exit status 2 without touching any file) not built yet")


RULE = ("T7: every option x {short attached, short separate, long =, long separate, bare} x every prefix (length >= 2) of every long name x a value "
        "list (exhaustive over the regenerated table) + random bundles/orders/operands with both environment variables. Oracles on the implementation: "
        "unambiguous prefix = full name, ambiguous prefix rejected, attached = separate, short = long, bundle = separate flags, operand position, "
        "'--', and a list of bad command lines rejected. All distinct command lines count as non-trivial.")
ASSUME = ["the in-process harness runs CmdLineParser + OptionHandler + apply_defaults exactly as main() does"]
TRUSTED = ["tools/gen_tables.py (translator of s_switches and of the Options defaults)"]
