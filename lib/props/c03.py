"""C03 — hunks that fit are found, with the least fuzz, at the stated place."""
import gen, cases


def run(R):
    if not R.build():
        return
    R.lean(["C03", "C03Step", "C03Loop", "C03Run"])
    import hunted
    hunted.run(R, "C03")
    quick = R.tier == "quick"
    rng = R.rng
    # T2 + completeness oracle on every answer of the implementation
    lc = cases.locate_cases(rng, 25000 if quick else 400000, 12 if quick else 30)
    reqs = [cases.enc_locate(c) for c in lc]
    m = dict(zip(reqs, lc))
    qs, ri, rm = R.tie("T2-locate", reqs)
    oreqs, ometa = [], []
    dist = {"found": 0, "none": 0, "fuzz>0": 0, "offset!=0": 0, "insertion": 0}
    for q, x in zip(qs, ri):
        tgt, h, iw, off, mf, ml = m[q]
        if h["oc"] == 0:
            dist["insertion"] += 1
        if x.startswith("loc "):
            _, p, f, o = x.split()
            dist["found"] += 1
            dist["fuzz>0"] += int(f) > 0
            dist["offset!=0"] += int(o) != 0
            if int(p) < 0:
                R.oracle_fail("hunk located at a negative line", {"request": q, "observed": x}); continue
            claimed = f"{p} {f}"
        elif x == "none":
            dist["none"] += 1
            claimed = "none"
        else:
            continue
        oreqs.append(f"oracle_complete {gen.enc_lines(tgt)} {gen.enc_hunk(h)} {iw} {mf} {off} {ml} {claimed}")
        ometa.append((q, x))
    R.dist["T2 answers"] = dist
    ro = R.model(oreqs)
    verd = {}
    for (q, x), v in zip(ometa, ro):
        verd[v] = verd.get(v, 0) + 1
        if v.startswith("known:"):
            R.oracle_fail("context-free insertion stated at line 0 of a non-empty file is rejected", {"request": q, "observed": x}, tag=v[6:])
        elif v != "ok":
            R.oracle_fail(f"locate_hunk answer violates completeness / least fuzz / exact place ({v})", {"request": q, "observed": x, "oracle": v})
    R.dist["T2 oracle verdicts"] = verd

    # T3: sequences with increasing non-overlapping ranges; every hunk reported FAILED must have had no admissible placement
    ac = cases.apply_cases(rng, 8000 if quick else 120000, 12 if quick else 30)
    reqs = [cases.enc_apply(c) for c in ac]
    m = dict(zip(reqs, ac))
    qs, ri, rm = R.tie("T3-apply", reqs, nontrivial=lambda q, x: x.startswith("ok") and ("FAILED" in x or "succeeded" in x))
    oreqs, ometa = [], []
    for q, x in zip(qs, ri):
        tgt, hs, o, fmt, meta = m[q]
        d = cases.parse_apply_resp(x)
        if d is None or o["D"]:
            continue
        rec = cases.placements_from_msgs(hs, o, d)
        if rec is None:
            continue
        eff, pls, status = rec
        if "skipped" in status:
            continue
        where = {i: (p, f) for i, p, f in pls}
        cursor, offerr = 0, 0
        for i, h in enumerate(eff):
            claimed = f"{where[i][0]} {where[i][1]}" if i in where else "none"
            oreqs.append(f"oracle_complete {gen.enc_lines(tgt)} {gen.enc_hunk(h)} {o['l']} {o['F']} {offerr} {cursor} {claimed}")
            ometa.append((q, x, i))
            if i in where:
                p = where[i][0]
                guess = (h["os"] + (1 if h["oc"] == 0 else 0)) - 1 + offerr
                offerr += p - guess
                cursor = min(p + h["oc"], len(tgt))     # (a hunk may reach beyond the end of the file: D99)
    ro = R.model(oreqs)
    verd = {}
    for (q, x, i), v in zip(ometa, ro):
        verd[v] = verd.get(v, 0) + 1
        if v.startswith("known:"):
            R.oracle_fail("context-free insertion stated at line 0 of a non-empty file is rejected", {"request": q, "observed": x, "hunk": i}, tag=v[6:])
        elif v != "ok":
            R.oracle_fail(f"apply_patch: hunk {i+1} violates completeness / least fuzz / exact place ({v})", {"request": q, "observed": x, "hunk": i, "oracle": v})
    R.dist["T3 per-hunk oracle verdicts"] = verd


RULE = ("T2: generated (file, hunk, -l, offset, fuzz, min_line); every answer of the implementation is checked against a brute-force "
        "enumeration of all admissible (position, fuzz) pairs (Lean spec admissibleB). T3: generated hunk sequences; per-hunk the same oracle "
        "with the cursor/offset reconstructed from the verbose output. De-duplicated; all cases count as non-trivial for T2, T3 cases with a verdict line.")
ASSUME = ["the in-process harness calls the same functions sb_patch calls", "min_line >= 0"]
