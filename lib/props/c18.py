"""C18 — backups hold exactly the pre-patch bytes."""
import re
import box, drv, rich, scen, gen, emit


def backup_name(opts, path):
    pre = opts[opts.index(b"-B") + 1] if b"-B" in opts else b""
    suf = opts[opts.index(b"-z") + 1] if b"-z" in opts else b""
    if pre and suf: return pre + path + suf
    if pre: return pre + path
    if suf: return path + suf
    return path + b".orig"


def run(R):
    if not R.build():
        return
    R.lean(["C18", "C18Run", "C18RunDelete", "C18RunCreate"])
    import hunted
    hunted.run(R, "C18")
    quick = R.tier == "quick"
    rng = R.rng
    a = [(b"l%d" % i, "L") for i in range(1, 13)]
    jobs, meta = [], []
    OPTS = [[], [b"-b"], [b"-b", b"-z", b".bak"], [b"-b", b"-B", b"pre_"], [b"-b", b"-B", b"pre_", b"-z", b".suf"], [b"--posix"], [b"-b", b"--posix"],
            [b"--no-backup-if-mismatch"], [b"--backup-if-mismatch"], [b"--posix", b"--backup-if-mismatch"], [b"-b", b"--no-backup-if-mismatch"], [b"-z", b".bak"], [b"-N"]]
    for _ in range(260 if quick else 4000):
        opts = list(rng.choice(OPTS))
        nsec = rng.choice([1, 1, 2, 3])
        how = rng.choice(["exact", "offset", "fuzz", "reject", "absent", "delete", "applied"])
        cur = list(a)
        text = b""
        secs = []
        for k in range(nsec):
            i = rng.randrange(1, len(cur) - 1)
            nxt = cur[:i] + [(b"new%d_%d" % (k, rng.randrange(99)), "L")] + cur[i + 1:]
            if rng.random() < 0.4:
                # a second change far enough away to make a second hunk: whether a backup is due is a matter of every hunk, not of the last one
                j = (i + 6) % len(cur)
                if 0 < j < len(cur) - 1 and abs(j - i) >= 6:
                    nxt = nxt[:j] + [(b"also%d_%d" % (k, rng.randrange(99)), "L")] + nxt[j + 1:]
            secs.append(emit.unified_text(gen.make_hunks(cur, nxt, 2), b"f", b"f"))
            cur = nxt
        text = b"".join(secs)
        before = list(a)
        tree = box.Tree()
        if how == "offset": before = [(b"ins", "L"), (b"ins2", "L")] + before
        elif how == "fuzz": before = [(before[0][0] + b"~", "L")] + before[1:-1] + [(before[-1][0] + b"~", "L")]
        elif how == "reject": before = [(c + b"!", t) for c, t in before]
        elif how == "applied":
            if nsec != 1: continue
            before = cur
            if b"-N" not in opts: opts = opts + [b"-N"]   # no tty: the question must not be asked
        if how == "absent":
            text = emit.unified_text(gen.make_hunks([], a, 3), b"/dev/null", b"f", b"", b"")
            nsec = 1
        elif how == "delete":
            text = emit.unified_text(gen.make_hunks(a, [], 3), b"f", b"/dev/null", b"", b"")
            nsec = 1
            tree[b"f"] = ("f", gen.render(before, "keep"), 0o644)
        else:
            tree[b"f"] = ("f", gen.render(before, "keep"), 0o644)
        tree[b"p.diff"] = ("f", text, 0o644)
        bn = backup_name(opts, b"f")
        pre_existing = rng.random() < 0.2
        if pre_existing:
            tree[bn] = ("f", b"an older backup\n", 0o644)
        jobs.append(dict(cut=R.cut, tree=tree, argv=opts + [b"-i", b"p.diff"]))
        meta.append((opts, nsec, how, before, bn, pre_existing, text))
    # histories that create / delete / re-create one file within a single run, and hunks whose offsets cancel out
    a2 = [(b"m%d" % i, "L") for i in range(1, 30)]
    for opts in ([b"-b"], [b"-b", b"-z", b".bak"], [], [b"--posix", b"-b"]):
        mk = lambda x, y, on, nn: emit.unified_text(gen.make_hunks(x, y, 3), on, nn, b"", b"")
        mod = a[:5] + [(b"CHANGED", "L")] + a[6:]
        hist = {"delete-then-create": (a, mk(a, [], b"f", b"/dev/null") + mk([], mod, b"/dev/null", b"f")),
                "create-then-modify": (None, mk([], a, b"/dev/null", b"f") + mk(a, mod, b"f", b"f")),
                "modify-then-delete": (a, mk(a, mod, b"f", b"f") + mk(mod, [], b"f", b"/dev/null")),
                "create-then-delete-then-create": (None, mk([], a, b"/dev/null", b"f") + mk(a, [], b"f", b"/dev/null") + mk([], mod, b"/dev/null", b"f"))}
        for name, (before, text) in hist.items():
            tree = box.Tree({b"p.diff": ("f", text, 0o644)})
            if before is not None:
                tree[b"f"] = ("f", gen.render(before, "keep"), 0o644)
            jobs.append(dict(cut=R.cut, tree=tree, argv=opts + [b"-i", b"p.diff"]))
            meta.append((opts, 3, "absent" if before is None else "exact", before or [], backup_name(opts, b"f"), False, text))
        # two hunks whose offsets cancel (+1 then -1): every hunk applied with an offset although the accumulated offset ends at 0
        b2 = a2[:4] + [(b"X", "L")] + a2[5:20] + [(b"Y", "L")] + a2[21:]
        text = emit.unified_text(gen.make_hunks(a2, b2, 2), b"f", b"f")
        shifted = [(b"extra", "L")] + a2[:10] + a2[11:]
        jobs.append(dict(cut=R.cut, tree=box.Tree({b"f": ("f", gen.render(shifted, "keep"), 0o644), b"p.diff": ("f", text, 0o644)}), argv=opts + [b"-F", b"0", b"-i", b"p.diff"]))
        meta.append((opts + [b"-F", b"0"], 1, "offset", shifted, backup_name(opts, b"f"), False, text))
    # the same file under two spellings ('f' and './f' with -p0): still one file, one backup of the state before the first section
    # (kept after the scenarios that go through the T8 tie: the model's tree does not normalise path spellings)
    n_tied = len(jobs)
    for opts in ([b"-b"], [b"-b", b"-z", b".bak"], []):
        for spell in (b"./f", b".//f", b"././f"):
            for how in ("exact", "offset"):
                cur = list(a); secs = []
                for k in range(2):
                    nxt = cur[:3 + 4 * k] + [(b"alias%d" % k, "L")] + cur[4 + 4 * k:]
                    nm = b"f" if k == 0 else spell
                    secs.append(emit.unified_text(gen.make_hunks(cur, nxt, 2), nm, nm))
                    cur = nxt
                before = ([(b"ins", "L")] if how == "offset" else []) + list(a)
                text = b"".join(secs)
                jobs.append(dict(cut=R.cut, tree=box.Tree({b"f": ("f", gen.render(before, "keep"), 0o644), b"p.diff": ("f", text, 0o644)}), argv=opts + [b"-p0", b"-i", b"p.diff"]))
                meta.append((opts + [b"-p0", b"@alias"], 2, how, before, backup_name(opts, b"f"), False, text))
    res = drv.run_many(jobs)
    dist = {}
    for (opts, nsec, how, before, bn, pre_existing, text), r in zip(meta, res):
        alias = b"@alias" in opts
        opts = [o for o in opts if o != b"@alias"]
        R.evaluations += 1; R.nontrivial.add(hash((tuple(opts), nsec, how, pre_existing, text)))
        data = {"argv": [o.decode() for o in opts] + ["-i", "p.diff"], "how": how, "sections": nsec, "patch_hex": text.hex(), "exit": r.exit,
                "file_before": gen.render(before, "keep").hex() if how != "absent" else None, "pre_existing_backup": pre_existing,
                "stdout": r.stdout.decode("latin1")[-500:], "stderr": r.stderr.decode("latin1")[-200:]}
        if r.exit == 2:
            R.oracle_fail("backup scenario aborted: " + r.stderr.decode("latin1")[-100:], data); continue
        ev = drv.verdicts(r.stdout)
        mismatch = any(e[0] == "hunk" and (e[2] == "FAILED" or e[4] != 0 or e[5] != 0) for e in ev)
        skipped = any(e[0] == "skipping" for e in ev)
        posix = b"--posix" in opts
        bim = (b"--backup-if-mismatch" in opts) or (not posix and b"--no-backup-if-mismatch" not in opts)
        due = (b"-b" in opts) or (bim and mismatch and not skipped)
        k = f"{how}/{'due' if due else 'not-due'}"
        dist[k] = dist.get(k, 0) + 1
        have = bn in r.after and (not pre_existing or r.after[bn][1] != b"an older backup\n")
        others = [p for p in r.after if p not in r.before and p not in (bn, b"f", b"f.rej")]
        if others:
            R.oracle_fail(f"unexpected file created: {others[:2]} (backup name should be {bn!r})", data); continue
        if due != have:
            R.oracle_fail(("a backup is due but none was made" if due else "a backup was made although none is due") + f" ({bn!r})", data); continue
        if due:
            want = b"" if how == "absent" else gen.render(before, "keep")
            if r.after[bn][1] != want:
                # which section was the first to need a backup? (known finding D39: a mismatch backup that only becomes due at a later
                # section holds the state before THAT section, the earlier sections having been applied exactly without one)
                secs_ev, cur_ = [], []
                for e in ev:
                    if e[0] == "file":
                        cur_ = []; secs_ev.append(cur_)
                    else:
                        cur_.append(e)
                first_due = next((i for i, es in enumerate(secs_ev) if b"-b" in opts or any(e[0] == "hunk" and (e[2] == "FAILED" or e[4] != 0 or e[5] != 0) for e in es)), 0)
                tag = "backup.due-at-later-section" if (nsec > 1 and first_due > 0 and b"-b" not in opts) else None
                if alias and tag is None:
                    tag = "backup.alias-spelling"   # known finding D44: the set of files already backed up is keyed by the spelling of the name
                R.oracle_fail("the backup does not hold the bytes the target had before the run" + (" (several sections: must be the state before the first)" if nsec > 1 else ""), data, tag=tag)
    R.dist["backup scenarios"] = dist
    import ties
    ties.t8(R, "T8-driver", [dict(tree=j["tree"], argv=j["argv"]) for j in jobs[:min(n_tied, 200 if quick else 3000)]])
    # the cases the end-to-end theorems C18_run_delete_backup / C18_run_create_backup state or exclude by hypothesis: a creating, a removing
    # and a changing patch under -b (and -z) with nothing / a file / a link to a file / a dangling link / a directory at the backup name.
    # Model and program must agree on all of them (exit status, whole final tree, events) - also where the theorems say nothing.
    A12 = gen.render(a, "keep")
    mod = a[:5] + [(b"changed", "L")] + a[6:]
    texts = {"create": (None, emit.unified_text(gen.make_hunks([], a, 3), b"/dev/null", b"f", b"", b"")),
             "delete": (A12, emit.unified_text(gen.make_hunks(a, [], 3), b"f", b"/dev/null", b"", b"")),
             "change": (A12, emit.unified_text(gen.make_hunks(a, mod, 2), b"f", b"f"))}
    fixed = []
    for opts in ([b"-b"], [b"-b", b"-z", b".bak"], [b"-b", b"--dry-run"]):
        bn = backup_name(opts, b"f")
        for kind, (content, text) in texts.items():
            for at in ("nothing", "file", "link-to-file", "dangling-link", "directory"):
                t = {b"p.diff": ("f", text, 0o644), b"other": ("f", b"kept\n", 0o600)}
                if content is not None:
                    t[b"f"] = ("f", content, 0o755 if at == "file" else 0o644)
                if at == "file": t[bn] = ("f", b"an older backup\n", 0o644)
                elif at == "link-to-file": t[bn] = ("l", b"other")
                elif at == "dangling-link": t[bn] = ("l", b"nowhere")
                elif at == "directory": t[bn] = ("d", 0o755)
                fixed.append(dict(tree=box.Tree(t), argv=opts + [b"-i", b"p.diff"]))
    ties.t8(R, "T8-backup-name-taken", fixed)
    R.dist["backup name taken (fixed, tied)"] = len(fixed)


RULE = ("a 12-line file patched by 1-3 sections for the same file (exact, offset, fuzzy, failing, already applied, creating, deleting) x all combinations of "
        "-b, -B, -z, --posix, --backup-if-mismatch, --no-backup-if-mismatch, with and without a pre-existing backup file; oracle: backup exists iff due "
        "(decision table of the statement), holds the bytes before the first section (empty if the target did not exist), named prefix+path+suffix; "
        "two sections naming the file 'f' and './f' (-p0) are sections for one file.")
ASSUME = ["backup prefixes do not contain directory separators"]
