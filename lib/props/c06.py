"""C06 — an already applied patch is detected, not applied a second time."""
import re
import gen, cases, drv, scen, strict
from props import c01


def ambiguous(b, h1):
    """the excluded case: the first hunk still applies exactly at its stated place in B (e.g. a pure insertion with intact context)"""
    if h1["oc"] == 0:
        return True
    p = h1["os"] - 1
    old = gen.old_side(h1)
    return p >= 0 and b[p:p + len(old)] == old


def run(R):
    if not R.build():
        return
    R.lean(["C06", "C06Run", "C01RunDelete"])
    import hunted
    hunted.run(R, "C06")
    quick = R.tier == "quick"
    rng = R.rng
    reqs, meta = [], {}
    dist = {"-N": 0, "-t": 0, "-f": 0, "-R -N": 0, "-R -t": 0}
    while len(reqs) < (9000 if quick else 120000):
        a, b, ctx, hs = c01.valid_case(rng, 12 if quick else 30)
        mirrored = rng.random() < 0.3
        creation = rng.random() < 0.12
        if creation:
            # a patch that creates the file (old range 0,0): once applied the file is no longer empty, which is what its hunk expects
            b = [l for l in gen.rand_file(rng, 8) if l[1] != "N"] or [(b"new", "L")]
            a = []
            if mirrored:
                a, b = b, a        # mirrored: the diff deletes everything, it was applied with -R (creating the file) and is run with -R again
            ctx = rng.choice([0, 1, 3]); hs = gen.make_hunks(a, b, ctx)
        if mirrored:
            # history under -R: the diff was applied reversed to B giving A; now it is run with -R again on A
            if any(h["ns"] == 0 and h["nc"] == 0 and b for h in hs):
                continue
            file_, first, other = a, gen.reverse_hunk(hs[0]), b
        else:
            if any(h["ns"] == 0 and h["nc"] == 0 and b for h in hs):
                continue
            file_, first, other = b, hs[0], a
        if ambiguous(file_, first) and not (creation and first["os"] == 0 and first["oc"] == 0 and file_):
            continue
        mode = rng.choice(["N", "t", "f"])
        o = dict(reverse=int(mirrored), N=int(mode == "N"), t=int(mode == "t"), f=int(mode == "f"), l=0, F=rng.choice([0, 1, 2]), D=b"",
                 nl="keep", rf=rng.choice(["default", "unified", "context"]), verbose=1)
        q = cases.enc_apply((file_, hs, o, rng.choice(["unified", "context", "git"]), None))
        reqs.append(q); meta[q] = (file_, other, hs, o, mode, mirrored)
        dist[("-R " if mirrored else "") + "-" + mode if mode != "f" or not mirrored else "-f"] = dist.get(("-R " if mirrored else "") + "-" + mode if mode != "f" or not mirrored else "-f", 0) + 1
    R.dist["histories"] = dist
    qs, ri, rm = R.tie("T3-reapply", reqs)
    for q, x in zip(qs, ri):
        file_, other, hs, o, mode, mirrored = meta[q]
        d = cases.parse_apply_resp(x)
        if d is None:
            R.oracle_fail(f"re-applying threw ({x})", {"request": q, "observed": x}); continue
        out = bytes.fromhex(d["out"][1:])
        det = "unreversed-detected" if mirrored else "reversed-detected"
        # known finding D84: a first hunk that only removes lines and carries no context leaves no evidence once applied (its reversal
        # is an insertion that "fits" anywhere); if the removed text occurs elsewhere the hunk is found there and applied again
        first_eff = gen.reverse_hunk(hs[0]) if mirrored else hs[0]
        tag = "reapply.context-free-removal" if all(op == gen.MINUS for op, _ in first_eff["lines"]) else None
        if mode == "N":
            if out != gen.render(file_, "keep") or d["skipped"] != "1" or int(d["failed"]) != len(hs) or det not in d["msgs"] or "skipping-patch" not in d["msgs"]:
                R.oracle_fail("-N: an already applied patch was not skipped with every hunk saved as a reject and the file unchanged", {"request": q, "observed": x}, tag=tag)
            elif any(m.startswith("hunk:") and ":skipped:" not in m for m in d["msgs"]):
                R.oracle_fail("-N: hunks of a skipped patch are not all reported as skipped", {"request": q, "observed": x})
        elif mode == "t":
            if out != gen.render(other, "keep") or d["failed"] != "0" or det not in d["msgs"] or "assuming-R" not in d["msgs"]:
                R.oracle_fail("-t: an already applied patch was not applied in reverse restoring the original", {"request": q, "observed": x, "expected": gen.render(other, "keep").hex()}, tag=tag)
        else:
            if any(m in d["msgs"] for m in ("reversed-detected", "unreversed-detected", "assuming-R", "skipping-patch")) or d["skipped"] != "0":
                R.oracle_fail("-f: a guess about reversal was made", {"request": q, "observed": x})
    # driver level: apply, then run the same patch again
    P = scen.Producers()
    try:
        jobs, meta2 = [], []
        n = 150 if quick else 2500
        while len(jobs) < n:
            A, B, ch, prod, ctx, text = drv.make_case(rng, P, ops=rng.choice([("modify",), ("modify",), ("create",), ("modify", "create")]),
                                                      producer=rng.choice(["gnu-u", "git", "emit-u", "emit-c", "gnu-c"]), ctx=rng.choice([1, 2, 3]))
            if drv.has_d2(text):
                continue
            # ambiguity per file: first hunk of each file must no longer fit B
            amb = False
            for p in A:
                hs = gen.make_hunks(A[p][0], B[p][0], ctx)
                # use the producer-independent test on the file pair with the same context width
                if not hs or ambiguous(B[p][0], hs[0]) or any(h["ns"] == 0 and h["nc"] == 0 for h in hs):
                    amb = True
            if amb:
                continue
            mode = rng.choice(["-N", "-t", "-f"])
            jobs.append(dict(cut=R.cut, tree=drv.tree_with_patch(B, text), argv=[mode, b"-p1", b"-i", drv.PATCHNAME] if isinstance(mode, bytes) else [mode.encode(), b"-p1", b"-i", drv.PATCHNAME]))
            meta2.append((A, B, text, mode, prod))
    finally:
        P.close()
    res = drv.run_many(jobs)
    for (A, B, text, mode, prod), r in zip(meta2, res):
        R.evaluations += 1; R.nontrivial.add(hash((text, mode)))
        data = {"tree": {p.decode("latin1"): gen.render(l, "keep").hex() for p, (l, m) in B.items()}, "patch_hex": text.hex(), "argv": [mode, "-p1", "-i", "__patch.diff"],
                "exit": r.exit, "stdout": r.stdout.decode("latin1")[-600:], "stderr": r.stderr.decode("latin1")[-300:]}
        got = drv.contents(r.after)
        wantB = {p: gen.render(l, "keep") for p, (l, m) in B.items()}
        wantA = {p: gen.render(l, "keep") for p, (l, m) in A.items()}
        src = {p: v for p, v in got.items() if not p.endswith((b".rej", b".orig"))}
        if drv.asked(r):
            R.oracle_fail(f"{mode}: re-applying asks a question", data); continue
        if mode == "-N":
            ev = drv.verdicts(r.stdout)
            if r.exit != 1 or src != wantB:
                R.oracle_fail(f"-N: re-applying an applied {prod} patch: exit {r.exit}, files {'unchanged' if src == wantB else 'CHANGED'} (want exit 1, unchanged)", data); continue
            if any(p.endswith(b".orig") for p in got):
                R.oracle_fail("-N: a backup file was made although the patch was skipped", data); continue
            for p in B:
                if p + b".rej" not in got:
                    R.oracle_fail("-N: no reject file for a skipped patch", data); break
            if not any(e[0] == "failed" and e[3] == "ignored" for e in ev):
                R.oracle_fail("-N: hunks are not reported as ignored", data)
        elif mode == "-t":
            if r.exit != 0 or src != wantA:
                R.oracle_fail(f"-t: re-applying an applied {prod} patch does not restore the original (exit {r.exit})", data)
        else:
            if b"Reversed" in r.stdout or b"Assuming -R" in r.stdout or b"Skipping patch" in r.stdout:
                R.oracle_fail("-f: a guess about reversal was made", data)


RULE = ("two-step histories: B = patch(A), then the same patch is run on B with -N, -t or -f (and mirrored under -R), excluding the inherently ambiguous "
        "case where the first hunk still fits B at its stated place (file-creation patches are NOT excluded: their hunk expects an empty file); apply_patch level via T3 and sb_patch level in scratch trees with diffs by GNU diff, "
        "git and the emitter. All histories are non-trivial.")
ASSUME = ["the first hunk no longer applies exactly at its stated line (the property's exclusion)", "known finding D2 excluded"]
