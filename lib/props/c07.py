"""C07 — no input makes patch crash or execute undefined behaviour."""
import os, re
import box, drv, scen, gen, emit, ties, cases

SAN_RE = re.compile(rb"runtime error:|AddressSanitizer|UndefinedBehaviorSanitizer|SUMMARY: |terminate called|Segmentation fault|core dumped|stack-buffer|heap-buffer")

EXTREME = [b"0", b"1", b"2147483647", b"2147483648", b"4294967296", b"2305843009213693951", b"2305843009213693952", b"4611686018427387904",
           b"9223372036854775807", b"9223372036854775808", b"9223372036854775810", b"9300000000000000000", b"9999999999999999999", b"10000000000000000000",
           b"18446744073709551615", b"18446744073709551616", b"99999999999999999999999"]


def blind(rng, data: bytes) -> bytes:
    t = bytearray(data)
    for _ in range(rng.randint(1, 6)):
        r = rng.random()
        if r < 0.3 and t:
            t[rng.randrange(len(t))] = rng.randrange(256)
        elif r < 0.5 and t:
            i = rng.randrange(len(t)); del t[i:i + rng.randint(1, 20)]
        elif r < 0.7:
            i = rng.randint(0, len(t)); t[i:i] = bytes(rng.randrange(256) for _ in range(rng.randint(1, 8)))
        elif r < 0.85 and t:
            i = rng.randrange(len(t)); j = min(len(t), i + rng.randint(1, 30)); t[i:i] = t[i:j]
        else:
            i = rng.randint(0, len(t)); t[i:i] = rng.choice([b"\x00", b"\n\n", b"\\\n", b"\r\n", b"@@ -1 +1 @@\n", b"***************\n", b"--- \n", b"+++ \"\\", b"diff --git \"a", b"a" * 5000])
    return bytes(t)


def grammar(rng, text: bytes) -> bytes:
    nums = list(re.finditer(rb"\d+", text))
    if nums and rng.random() < 0.7:
        for m in rng.sample(nums, min(len(nums), rng.randint(1, 3))):
            v = rng.choice(EXTREME)
            text = text[:m.start()] + v + text[m.end():] if m.end() <= len(text) else text
            break
    return emit.mutate(rng, text) if rng.random() < 0.6 else text


def run(R):
    if not R.build() or not R.build(sanitize=True):
        return
    R.lean(["C07"])
    import hunted
    hunted.run(R, "C07")
    quick = R.tier == "quick"
    rng = R.rng
    # in-process ties on the sanitised harness with extreme numbers: a sanitizer abort shows up as a crash of the harness
    lc = cases.locate_cases(rng, 4000 if quick else 60000, 10)
    big = []
    for tgt, h, iw, off, mf, ml in lc[:1500 if quick else 20000]:
        h = dict(h); h["os"] = rng.choice([0, 1, 2**31, 2**61 - 1, 2**61]); h["ns"] = rng.choice([0, 1, 2**61 - 1])
        big.append((tgt, h, iw, rng.choice([0, 1, -1, 2**31, -(2**31), 2**60, -(2**60)]), rng.choice([0, 2, 2**31 - 1, -1]), rng.choice([0, 1, len(tgt)])))
    reqs = [cases.enc_locate(c) for c in lc + big]
    R.tie("T2-locate-sanitised", reqs, sanitize=True)
    ac = cases.apply_cases(rng, 3000 if quick else 40000, 10, define_p=0.2)
    for c in ac[:800 if quick else 10000]:
        for h in c[1]:
            if rng.random() < 0.3:
                h["os"] = rng.choice([0, 2**31, 2**61 - 1, 2**61]); h["ns"] = rng.choice([0, 2**61 - 1])
    R.tie("T3-apply-sanitised", [cases.enc_apply(c) for c in ac], sanitize=True)
    reqs, _ = ties.t4_requests(rng, 4000 if quick else 60000, with_tools=False)
    extra = []
    for q in reqs[:1500 if quick else 20000]:
        t = q.split()
        txt = grammar(rng, bytes.fromhex(t[1][1:]))
        extra.append(f"{t[0]} {gen.hexb(txt)} {t[2]} {t[3]}")
    R.tie("T4-parse-sanitised", reqs + extra, sanitize=True)
    R.tie("T6-paths-sanitised", ties.t6_requests(rng, True)[:30000 if quick else 10**9], sanitize=True)
    r7, _, _ = ties.t7_requests(rng, True)
    R.tie("T7-cmdline-sanitised", r7[:6000 if quick else 10**9], sanitize=True)
    for v in R.violations:
        if v.get("kind") == "tie-broken" and str(v.get("implementation", "")).startswith("crash"):
            v["kind"] = "impl-violates"; v["no_input"] = False
            v["summary"] = "sanitizer abort / crash in " + v["tie"] + ": " + v["implementation"][:160]
    # the program itself (sanitised build) on grammar-aware and blind mutations of valid diffs, arbitrary targets and option mixes
    P = scen.Producers()
    jobs, meta = [], []
    OPTS = [[], [b"-R"], [b"-N"], [b"-f"], [b"-t"], [b"-l"], [b"-F", b"99"], [b"-F", b"-1"], [b"-D", b"X"], [b"-c"], [b"-n"], [b"-u"], [b"-p", b"0"], [b"-p", b"7"],
            [b"--dry-run"], [b"-b"], [b"-o", b"-"], [b"--newline-output=crlf"], [b"--reject-format=context"], [b"-e"], [b"--verbose"], [b"-E"], [b"-r", b"rej"],
            [b"-p", b"99999999999"], [b"-F", b"2147483647"], [b"--posix", b"-b", b"-z", b""]]
    try:
        n = 900 if quick else 20000
        while len(jobs) < n:
            A, B, ch, prod, ctx, text = drv.make_case(rng, P, ops=rng.choice([("modify",), ("modify", "create", "delete", "rename")]))
            r = rng.random()
            bad = grammar(rng, text) if r < 0.5 else blind(rng, text) if r < 0.9 else bytes(rng.randrange(256) for _ in range(rng.randint(0, 200)))
            tree = drv.tree_with_patch(A, bad)
            if rng.random() < 0.3:
                for p in list(A):
                    tree[p] = ("f", blind(rng, tree[p][1]), tree[p][2])
            opts = list(rng.choice(OPTS)) + (list(rng.choice(OPTS)) if rng.random() < 0.3 else [])
            argv = opts + [b"-p1", b"-i", drv.PATCHNAME] if rng.random() < 0.8 else opts + [sorted(A)[0] if A else b"f", drv.PATCHNAME]
            # (mutated patches may name any path: these runs are made as an unprivileged user)
            jobs.append(dict(cut=R.cut_san, tree=tree, argv=argv, sanitize=True, timeout=20, uid=65534))
            meta.append((bad, argv))
    finally:
        P.close()
    # corpus: every numeric position of every format set to the values where signed arithmetic would overflow
    M = b"9223372036854775807"
    for big in (M, b"9223372036854775806", b"4611686018427387904", b"2305843009213693952", b"9300000000000000000", b"9999999999999999999", b"10000000000000000000"):
        probes = [b"--- f\n+++ f\n@@ -" + big + b",0 +1 @@\n+x\n", b"--- f\n+++ f\n@@ -" + big + b" +1 @@\n-a\n+x\n", b"--- f\n+++ f\n@@ -1 +" + big + b" @@\n-zz\n+x\n",
                  b"--- f\n+++ f\n@@ -1,2 +1,2 @@\n a\n-b\n+B\n@@ -" + big + b",1 +" + big + b",1 @@\n-q\n+r\n",
                  b"0," + big + b"c1\n< a\n---\n> b\n", b"1a" + big + b"\n> x\n", b"1c1," + big + b"\n< a\n---\n> b\n", big + b"d0\n< a\n", b"1," + big + b"d0\n< a\n",
                  b"*** f\n--- f\n***************\n*** " + big + b" ****\n- a\n--- 0 ----\n", b"*** f\n--- f\n***************\n*** 1," + big + b" ****\n- a\n--- 1 ----\n+ b\n",
                  b"*** f\n--- f\n***************\n*** 1 ****\n! a\n--- " + big + b"," + big + b" ----\n! b\n", b"*** f\n--- f\n***************\n*** 0 ****\n--- 1," + big + b" ----\n+ b\n"]
        for pr in probes:
            for opts in ([], [b"-R"], [b"-f"], [b"--reject-format=context"], [b"--reject-format=unified"], [b"--verbose"], [b"-N"]):
                jobs.append(dict(cut=R.cut_san, tree=box.Tree({b"f": ("f", b"a\nb\nc\n", 0o644), drv.PATCHNAME: ("f", pr, 0o644)}), argv=opts + [b"f", drv.PATCHNAME], sanitize=True, timeout=20))
                meta.append((pr, opts + [b"f", drv.PATCHNAME]))
    # extreme strip and fuzz counts against the names of every kind of header line (D98: 'strip - 1' for the names of git's extended header lines)
    named = [b"diff --git a/d/f b/d/g\nsimilarity index 100%\nrename from d/f\nrename to d/g\n", b"diff --git a/d/f b/d/g\nsimilarity index 100%\ncopy from d/f\ncopy to d/g\n",
             b"diff --git a/d/f b/d/f\nold mode 100644\nnew mode 100755\n", b"Index: d/f\n--- a/d/f\n+++ b/d/f\n@@ -1 +1 @@\n-a\n+A\n", b"*** a/d/f\n--- b/d/f\n***************\n*** 1 ****\n! a\n--- 1 ----\n! A\n"]
    for pr in named:
        for opt in (b"-p-2147483648", b"-p-2147483647", b"-p2147483647", b"-p2147483646", b"-p-1", b"-p0", b"-p1", b"--strip=-2147483648", b"-F-2147483648", b"-F2147483647"):
            for more in ([], [b"-R"]):
                jobs.append(dict(cut=R.cut_san, tree=box.Tree({b"d/f": ("f", b"a\n", 0o644), b"f": ("f", b"a\n", 0o644), drv.PATCHNAME: ("f", pr, 0o644)}),
                                 argv=[opt] + more + [b"-f", b"-i", drv.PATCHNAME], sanitize=True, timeout=20))
                meta.append((pr, [opt] + more + [b"-f", b"-i", drv.PATCHNAME]))
    # a '\\ No newline at end of file' line at every position of small hunks of every format, empty sides included
    BS = b"\\ No newline at end of file\n"
    bases = [b"--- f\n+++ f\n@@ -1,2 +1,2 @@\n a\n-b\n+B\n", b"--- f\n+++ f\n@@ -1 +0,0 @@\n-a\n", b"--- f\n+++ f\n@@ -0,0 +1 @@\n+a\n", b"--- f\n+++ f\n@@ -1,0 +1,0 @@\n",
             b"*** f\n--- f\n***************\n*** 1,2 ****\n  a\n! b\n--- 1,2 ----\n  a\n! B\n", b"*** f\n--- f\n***************\n*** 1,2 ****\n--- 1,0 ----\n",
             b"*** f\n--- f\n***************\n*** 1 ****\n- a\n--- 0 ----\n", b"*** f\n--- f\n***************\n*** 0 ****\n--- 1 ----\n+ a\n",
             b"*** f\n--- f\n***************\n*** 1,0 ****\n--- 1,0 ----\n", b"*** f\n--- f\n***************\n*** 1,2 ****\n  a\n- b\n--- 1 ----\n",
             b"1c1\n< a\n---\n> A\n", b"1d0\n< a\n", b"0a1\n> a\n", b"1,2c1\n< a\n< b\n---\n> A\n"]
    for base in bases:
        ls = base.split(b"\n")[:-1]
        for k in range(2, len(ls) + 1):
            for rep in (1, 2):
                pr = b"".join(l + b"\n" for l in ls[:k]) + BS * rep + b"".join(l + b"\n" for l in ls[k:])
                for opts in ([], [b"-R"], [b"--reject-format=context"]):
                    jobs.append(dict(cut=R.cut_san, tree=box.Tree({b"f": ("f", b"a\nb\n", 0o644), drv.PATCHNAME: ("f", pr, 0o644)}), argv=opts + [b"-f", b"f", drv.PATCHNAME], sanitize=True, timeout=20))
                    meta.append((pr, opts + [b"-f", b"f", drv.PATCHNAME]))
    res = drv.run_many(jobs)
    dist = {}
    for (bad, argv), r in zip(meta, res):
        R.evaluations += 1; R.nontrivial.add(hash((bad, tuple(argv))))
        k = "timeout" if r.timeout else f"exit{r.exit}"
        dist[k] = dist.get(k, 0) + 1
        data = {"patch_hex": bad.hex(), "argv": [a.decode("latin1") for a in argv], "exit": r.exit, "stderr": r.stderr.decode("latin1")[-700:]}
        if r.timeout:
            continue   # C08's subject
        if SAN_RE.search(r.stderr) or r.exit not in (0, 1, 2):
            R.oracle_fail(f"crash / undefined behaviour (exit {r.exit}): " + (SAN_RE.search(r.stderr).group(0).decode() if SAN_RE.search(r.stderr) else "signal"), data); continue
        if r.exit == 2 and not r.stderr.strip():
            R.oracle_fail("exit status 2 without a diagnostic", data)
    R.dist["sanitised sb_patch outcomes"] = dist
    # an I/O error must end in a diagnostic, never in std::terminate / a signal: every system call of C10's scenarios failed once
    from props import c10
    import faults
    fj, fm = [], []
    for c in c10.scenarios(rng, None, quick):
        r0, calls, nall = faults.baseline(R.cut, c)
        for idx, (call, k, args) in enumerate(calls):
            e = ["EIO", "ENOSPC", "EFBIG"][idx % 3]
            fj.append(dict(cut=R.cut, tree=c["tree"], argv=c["argv"], stdin=c.get("stdin", b""), strace={"inject": f"{call}:error={e}:when={k}"}))
            fm.append((c["name"], f"{e} at {call}#{k} {args[:60]}", c))
    crashed = 0
    for (name, what, c), r in zip(fm, drv.run_many(fj)):
        R.evaluations += 1; R.nontrivial.add(("fault", name, what))
        if r.timeout:
            continue
        if SAN_RE.search(r.stderr) or r.exit not in (0, 1, 2):
            crashed += 1
            R.oracle_fail(f"crash on an I/O error ({name}: {what}): exit {r.exit}",
                          {"scenario": name, "fault": what, "argv": [a.decode() for a in c["argv"]], "exit": r.exit, "stderr": r.stderr.decode("latin1")[-500:],
                           "tree": {p.decode("latin1"): (v[1].hex() if v[0] == "f" else v[0]) for p, v in c["tree"].items()}})
    R.dist["single-fault runs checked for crashes"] = {"runs": len(fj), "crashed": crashed}


RULE = ("in-process ties T2-T7 on the ASan+UBSan build with extreme numbers (0, 2^31, 2^61-1, 2^61, 2^63-1, 2^63, 2^64, 23 digits) in ranges, offsets and "
        "options; the sanitised sb_patch on grammar-aware mutations (numbers replaced, lines deleted/duplicated/swapped, truncation), blind byte mutations "
        "(flips, NUL, very long lines) and random bytes, with mutated targets and option mixes; any sanitizer report, signal or exit status outside {0,1,2} "
        "is a violation; status 2 needs a diagnostic. A no-newline marker at every position of small hunks of every format (empty sides included); "
        "every system call of the C10 scenarios failed once (EIO/ENOSPC/EFBIG): the run must not end in std::terminate or a signal.")
ASSUME = ["heap misuse inside std:: containers, use after move and stack exhaustion are only searched for by the sanitised runs, not proved absent"]
