"""C02 — a hunk is applied only where its old lines really are."""
import gen, cases


def run(R):
    if not R.build():
        return
    R.lean(["C02", "C02Apply", "C03Run"])
    import hunted
    hunted.run(R, "C02")
    quick = R.tier == "quick"
    rng = R.rng
    # T1: whitespace matcher, exhaustive small scope + random pairs; oracle = independent Python normal form
    strs = cases.ws_exhaustive(4 if quick else 5)
    reqs, meta = [], []
    for a in strs:
        for b in strs:
            reqs.append(f"ws {gen.hexb(a)} {gen.hexb(b)}"); meta.append((a, b))
    alpha = [b" ", b"\t", b"a", b"b", b"  ", b"c"]
    for _ in range(20000 if quick else 300000):
        a = b"".join(rng.choice(alpha) for _ in range(rng.randint(0, 12)))
        b = a if rng.random() < 0.2 else b"".join(rng.choice(alpha) for _ in range(rng.randint(0, 12)))
        if rng.random() < 0.3:
            b = cases.norm_ws(a) + rng.choice([b"", b" ", b"\t "])
        reqs.append(f"ws {gen.hexb(a)} {gen.hexb(b)}"); meta.append((a, b))
    m = dict(zip(reqs, meta))
    qs, ri, rm = R.tie("T1-ws", reqs, nontrivial=lambda q, x: True)
    npos = 0
    for q, x in zip(qs, ri):
        a, b = m[q]
        want = "1" if cases.norm_ws(a) == cases.norm_ws(b) else "0"
        npos += x == "1"
        if x != want and x in "01":
            R.oracle_fail("-l comparison disagrees with 'collapse blank runs, drop trailing blanks'",
                          {"request": q, "observed": x, "expected": want, "a": a.hex(), "b": b.hex()})
    R.dist["T1 pairs matching"] = npos
    R.exhaustive = True
    # line-level `matches`
    reqs = []
    for _ in range(5000 if quick else 50000):
        a = (gen.rand_content(rng), rng.choice("LCN")); b = (a[0] if rng.random() < 0.5 else gen.rand_content(rng), rng.choice("LCN"))
        reqs.append(f"match {gen.enc_line(a)} {gen.enc_line(b)} {rng.randint(0, 1)}")
    R.tie("T1-matches", reqs)

    # T2: locate_hunk vs model, and the soundness oracle on the implementation's answers
    lc = cases.locate_cases(rng, 20000 if quick else 300000, 12 if quick else 30)
    reqs = [cases.enc_locate(c) for c in lc]
    m = dict(zip(reqs, lc))
    qs, ri, rm = R.tie("T2-locate", reqs, nontrivial=lambda q, x: True)
    oreqs, ometa = [], []
    found = 0
    for q, x in zip(qs, ri):
        tgt, h, iw, off, mf, ml = m[q]
        if x.startswith("loc "):
            found += 1
            _, p, f, o = x.split()
            if h["oc"] != 0 and int(p) >= 0:
                oreqs.append(f"oracle_place {gen.enc_lines(tgt)} 1 {gen.enc_hunk(h)} {iw} {mf} keep 0 x")
                # admissibility only: reuse oracle_complete with the claimed location
                oreqs[-1] = f"oracle_complete {gen.enc_lines(tgt)} {gen.enc_hunk(h)} {iw} {mf} {off} {ml} {p} {f}"
                ometa.append((q, x))
    R.dist["T2 found"] = found
    R.dist["T2 not found"] = len(qs) - found
    if oreqs:
        ro = R.model(oreqs)
        for (q, x), v in zip(ometa, ro):
            if v == "bad:not-admissible":
                R.oracle_fail("locate_hunk reported a position where the hunk's old lines are not (inadmissible placement)",
                              {"request": q, "observed": x, "oracle": v})

    # T3: apply_patch vs model; oracle: the output is explained by increasing admissible placements
    ac = cases.apply_cases(rng, 8000 if quick else 120000, 12 if quick else 30)
    reqs = [cases.enc_apply(c) for c in ac]
    m = dict(zip(reqs, ac))
    kinds = {}
    qs, ri, rm = R.tie("T3-apply", reqs, nontrivial=lambda q, x: x.startswith("ok") and "succeeded" in x)
    oreqs, ometa = [], []
    for q, x in zip(qs, ri):
        tgt, hs, o, fmt, meta = m[q]
        kinds[meta["kind"]] = kinds.get(meta["kind"], 0) + 1
        d = cases.parse_apply_resp(x)
        if d is None:
            kinds["exn:" + x] = kinds.get("exn:" + x, 0) + 1
            continue
        if o["D"]:
            continue
        rec = cases.placements_from_msgs(hs, o, d)
        if rec is None:
            R.oracle_fail("verbose output does not report every hunk", {"request": q, "observed": x})
            continue
        eff, pls, status = rec
        for s in set(status):
            kinds["hunk-" + s] = kinds.get("hunk-" + s, 0) + status.count(s)
        if any(p < 0 for _, p, _ in pls):
            R.oracle_fail("a hunk was applied at a negative position", {"request": q, "observed": x})
            continue
        pl = " ".join(f"{i} {p} {f}" for i, p, f in pls)
        oreqs.append(f"oracle_place {gen.enc_lines(tgt)} {len(eff)} {' '.join(gen.enc_hunk(h) for h in eff)} {o['l']} {o['F']} {o['nl']} {len(pls)} {pl} {d['out']}".replace("  ", " "))
        ometa.append((q, x))
    R.dist["T3 case kinds / hunk verdicts"] = kinds
    if oreqs:
        ro = R.model(oreqs)
        for (q, x), v in zip(ometa, ro):
            if v != "ok":
                R.oracle_fail(f"apply_patch output is not explained by increasing admissible placements ({v})",
                              {"request": q, "observed": x, "oracle": v})


RULE = ("T1: all pairs over {SP,TAB,a,b} up to the stated length (exhaustive) + random pairs; T2: generated (file, hunk, -l, offset, "
        "fuzz, min_line) from random edit scripts, drifted targets, absurd hunks; T3: generated (file, hunk sequence, options). "
        "Requests are de-duplicated before counting; non-trivial = T3 cases where at least one hunk was applied, all T1/T2 cases.")
ASSUME = ["the in-process harness calls the same functions sb_patch calls", "min_line >= 0 (apply_patch's cursor)"]
