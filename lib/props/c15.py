"""C15 — --dry-run changes nothing and predicts the real outcome."""
import re
import box, drv, rich, scen


def norm_out(out: bytes) -> bytes:
    out = out.replace(b"checking file ", b"patching file ").replace(b"checking symbolic link ", b"patching symbolic link ")
    return re.sub(rb" -- saving rejects to file [^\n]*", b"", out)


def run(R):
    if not R.build():
        return
    R.lean(["C15", "C01Driver", "C01Run", "C15Run", "C01RunContext", "C01RunCreate", "C01RunDelete"])
    import hunted
    hunted.run(R, "C15")
    quick = R.tier == "quick"
    rng = R.rng
    P = scen.Producers()
    cs = []
    try:
        for _ in range(220 if quick else 4000):
            c = rich.make(rng, P, quick)
            c["uid"] = rng.choice([0, 0, 65534])
            if rng.random() < 0.1 and len(c["T"]) == 1 and not any(k in ("rename", "create", "delete") for k in c["ch"].values()):
                c["argv"] = [b"-o", b"out.txt"] + c["argv"]
            cs.append(c)
    finally:
        P.close()
    real = drv.run_many([dict(cut=R.cut, tree=c["tree"], argv=c["argv"], uid=c["uid"]) for c in cs])
    dry = drv.run_many([dict(cut=R.cut, tree=c["tree"], argv=[b"--dry-run"] + c["argv"], uid=c["uid"]) for c in cs])
    dist = {}
    for c, rr, rd in zip(cs, real, dry):
        R.evaluations += 2; R.nontrivial.add(hash((c["text"], tuple(c["argv"]), c["how"], c["uid"])))
        data = rich.describe(c, rd); data["uid"] = c["uid"]; data["real_exit"] = rr.exit; data["real_stdout"] = rr.stdout.decode("latin1")[-600:]
        k = f"{c['how']}/uid{c['uid']}/exit{rr.exit}"
        dist[k] = dist.get(k, 0) + 1
        ch = box.diff_trees(rd.before, rd.after)
        if ch:
            p, what = sorted(ch.items())[0]
            R.oracle_fail(f"--dry-run changed the file system: {p!r} {what[0]}", data); continue
        if rd.tmp_left:
            R.oracle_fail("--dry-run left a temporary file behind", data); continue
        if rd.exit != rr.exit:
            R.oracle_fail(f"--dry-run exits {rd.exit}, the same invocation without it exits {rr.exit}", data); continue
        if norm_out(rd.stdout) != norm_out(rr.stdout) and rr.exit != 2:
            R.oracle_fail("--dry-run reports different per-hunk verdicts from the real run", data)
    R.dist["dry-run scenarios"] = dist
    # the model is tied to the program on the same scenarios: outcome (T8) and trace of mutating operations (T9)
    import ties
    sub = cs[:120 if quick else 1500]
    ties.t8(R, "T8-driver", [dict(c, argv=[b"--dry-run"] + c["argv"]) for c in sub] + sub[:60 if quick else 600])
    outs = ties.t9(R, "T9-trace", [dict(c, argv=[b"--dry-run"] + c["argv"], uid=0) for c in sub[:80 if quick else 800]])
    for c, r, m, ops in outs:
        bad = [o for o in ops if not o.startswith("tmp-")]
        if bad:
            R.oracle_fail(f"--dry-run performed a mutating system call: {bad[0][:80]}", rich.describe(c, r))


RULE = ("rich scenarios (exact / offset / fuzz / rejects; modify, create in new directories, delete, git rename/copy/mode change; read-only targets; -b, -o, "
        "-N/-t/-f, reject formats) run twice from the same initial tree, with and without --dry-run, as root and as an unprivileged user; the dry run must "
        "leave bytes, modes, link targets and mtimes of the whole tree untouched and create nothing; exit status and verdict lines must agree.")
ASSUME = ["each target is touched by one section of the patch"]
