"""C16 — only the intended paths are touched."""
import re
import box, drv, rich, scen


def allowed_paths(c, r):
    """targets (or -o), their reject and backup names, missing parents of created files, emptied parents of removed files"""
    targets = set(c["targets"]) if "targets" in c else set(c["T"]) | set(c["B"])
    al = set(targets)
    opts = c["opts"]
    rej = b"all.rej" if b"-r" in opts else None
    for t in targets:
        al.add(rej or (t + b".rej"))
        if b"-B" in opts: al.add(b"pre_" + t)
        elif b"-z" in opts: al.add(t + b".bak")
        else: al.add(t + b".orig")
    if rej: al.add(rej)
    dirs = set()
    for t in targets:
        parts = t.split(b"/")
        for i in range(1, len(parts)):
            dirs.add(b"/".join(parts[:i]))
    return al, dirs


def special_cases(rng):
    """hand-built families the random scenarios do not reach: -o (the file read is a bystander, whatever the patch does to it), and
    the name decision by an Index: line under -pN with look-alike files at every other strip depth"""
    import emit, gen
    out = []
    a = [(b"one", "L"), (b"two", "L"), (b"three", "L")]
    b = [(b"one", "L"), (b"2", "L"), (b"three", "L")]
    def case(tree, argv, text, targets, bystanders, how):
        t = box.Tree(tree); t[drv.PATCHNAME] = ("f", text, 0o644)
        return dict(tree=t, argv=argv + [b"-i", drv.PATCHNAME], text=text, A={}, B={}, T={}, ch={}, how=how, opts=argv, prod="emit-u",
                    bystanders={q: t[q] for q in bystanders}, modes={}, ctx=3, targets=targets)
    for newc, kind in ((b, "modify"), ([], "delete everything"), (a + [(b"four", "L")], "append")):
        hs = gen.make_hunks(a, newc, 3)
        for m in (0o644, 0o444, 0o600):
            for o in (b"out.txt", b"newdir/sub/out.txt", b"src/x.txt.new"):
                for extra in ([], [b"-b"], [b"-E"], [b"--dry-run"]):
                    text = emit.unified_text(hs, b"src/x.txt", b"src/x.txt" if newc else b"/dev/null")
                    tree = {b"src/x.txt": ("f", gen.render(a, "keep"), m), b"x.txt": ("f", b"look-alike\n", 0o644), b"src/x.txt.orig": ("f", b"old backup\n", 0o644)}
                    out.append(case(tree, [b"-p0", b"-o", o] + extra, text, {o}, [b"src/x.txt", b"x.txt", b"src/x.txt.orig"], f"-o {kind}"))
    hs = gen.make_hunks(a, b, 3)
    for strip in (0, 1, 2, 3):
        idx = b"top/src/lib/x.txt"
        comps = idx.split(b"/")
        if strip >= len(comps):
            continue
        target = b"/".join(comps[strip:])
        body = emit.unified_text(hs, b"nowhere/old/was/gone.txt", b"nowhere/new/was/gone.txt")
        text = b"Index: " + idx + b"\n" + b"=" * 67 + b"\n" + body
        tree = {}
        others = []
        for k in range(len(comps)):
            q = b"/".join(comps[k:])
            tree[q] = ("f", gen.render(a, "keep"), 0o644)
            if q != target:
                others.append(q)
        for extra in ([], [b"-b"]):
            out.append(case(tree, [b"-p%d" % strip] + extra, text, {target}, others, f"Index -p{strip}"))
    # names of git's extended header lines without any -p (the base name is what counts), with a file of the same base name in the
    # directory the header names: a pure rename / copy, and with hunks (seeded change C16-m4)
    for op in ("rename", "copy"):
        for with_hunk in (False, True):
            for extra in ([], [b"-b"], [b"--dry-run"]):
                text = emit.git_text(hs if with_hunk else [], b"lib/util.c", b"lib/helper.c", op)
                tree = {b"util.c": ("f", gen.render(a, "keep"), 0o644), b"lib/util.c": ("f", gen.render(a, "keep"), 0o644), b"lib/other.c": ("f", b"x\n", 0o644)}
                tg = {b"helper.c", b"util.c"} if op == "rename" else {b"helper.c"}
                out.append(case(tree, extra, text, tg, [b"lib/util.c", b"lib/other.c"] + ([b"util.c"] if op == "copy" else []), f"git {op} without -p"))
                out[-1]["written"] = b"helper.c"
    # a patch creating a file whose old and new names do not exist while its Index: name does: the Index file is the target (seeded change C16-m5)
    hs_new = gen.make_hunks([], a, 3)
    for extra in ([], [b"-b"], [b"--dry-run"]):
        body = emit.unified_text(hs_new, b"/dev/null", b"conf.h.new")
        text = b"Index: conf.h\n" + b"=" * 67 + b"\n" + body
        tree = {b"conf.h": ("f", b"", 0o644), b"conf.c": ("f", b"x\n", 0o644)}
        out.append(case(tree, extra, text, {b"conf.h"}, [b"conf.c"], "creating patch, Index: names an existing file"))
    return out


def run(R):
    if not R.build():
        return
    R.lean(["C16", "C16Frame"])
    import hunted
    hunted.run(R, "C16")
    quick = R.tier == "quick"
    rng = R.rng
    P = scen.Producers()
    cs = []
    try:
        for _ in range(300 if quick else 5000):
            cs.append(rich.make(rng, P, quick))
    finally:
        P.close()
    cs = special_cases(rng) + cs
    res = drv.run_many([dict(cut=R.cut, tree=c["tree"], argv=c["argv"]) for c in cs])
    dist = {"bystanders checked": 0, "paths changed": 0}
    for c, r in zip(cs, res):
        R.evaluations += 1; R.nontrivial.add(hash((c["text"], tuple(c["argv"]), c["how"])))
        data = rich.describe(c, r)
        al, dirs = allowed_paths(c, r)
        ch = box.diff_trees(r.before, r.after)
        for p, what in ch.items():
            dist["paths changed"] += 1
            if p in al:
                continue
            if p in dirs or (what[0] in ("created", "removed", "touched") and (r.after.get(p) or r.before.get(p))[0] == "d" and (p in dirs or any(t.startswith(p + b"/") for t in al))):
                continue   # parent directory of a target: created / removed / its mtime changed by an entry being added or removed
            R.oracle_fail(f"a path outside the intended set was {what[0]}: {p!r}", data); break
        else:
            for p in c["bystanders"]:
                dist["bystanders checked"] += 1
                if r.after.get(p) != r.before.get(p):
                    R.oracle_fail(f"bystander file {p!r} was touched (bytes, mode or mtime)", data); break
            if r.tmp_left:
                R.oracle_fail(f"temporary file left in the temp directory: {r.tmp_left[:2]}", data)
            if "targets" in c and b"--dry-run" not in c["opts"] and not c["how"].endswith("delete everything") and r.exit == 0:
                t = c.get("written") or next(iter(c["targets"]))
                if t not in r.after or (t in r.before and r.after[t][1] == r.before[t][1]):
                    R.oracle_fail(f"{c['how']}: the intended target {t!r} was not written", data)
    R.dist["C16"] = dist
    import ties
    sub = cs[:260 if quick else 2000]
    ties.t8(R, "T8-driver", sub)
    outs = ties.t9(R, "T9-trace", sub[:80 if quick else 800])
    for c, r, m, ops in outs:
        al, dirs = allowed_paths(c, r)
        for o in ops:
            if o.startswith("tmp-"):
                continue
            paths = [bytes.fromhex(t[1:]) for t in o.split(":")[1:] if t.startswith("x")]
            if o.startswith("write:"):
                paths = paths[:1]
            if o.startswith("symlink:"):
                paths = paths[1:]
            for q in paths:
                if q not in al and q not in dirs:
                    R.oracle_fail(f"system call on a path outside the intended set: {o[:60]}", rich.describe(c, r)); break
        # temporaries: created exclusively and unlinked before anything else happens
        for i, o in enumerate(ops):
            if o == "tmp-create" and (i + 1 >= len(ops) or ops[i + 1] != "tmp-unlink"):
                R.oracle_fail("a temporary file is not unlinked right after its creation", rich.describe(c, r)); break


RULE = ("rich scenarios with bystander files whose names are near the targets' (same basename in other directories, same prefix, pre-existing .orig/.rej, "
        "a .keep sibling); after the run every path outside {targets, reject names, backup names, parents of created/removed files} must be identical in "
        "bytes, mode and mtime (nanoseconds), and the temp directory must be empty.")
ASSUME = ["the patch file itself lives in the tree and is never a target"]
