"""C17 — file modes are preserved and refusals leave files untouched."""
import re, os
import box, drv, rich, scen, gen, emit


def run(R):
    if not R.build():
        return
    R.lean(["C17", "C17Run"])
    import hunted
    hunted.run(R, "C17")
    quick = R.tier == "quick"
    rng = R.rng
    jobs, meta = [], []
    a = [(b"one", "L"), (b"two", "L"), (b"three", "L")]
    b = [(b"one", "L"), (b"2", "L"), (b"three", "L")]
    hs = gen.make_hunks(a, b, 1)
    text_u = emit.unified_text(hs, b"f", b"f")
    text_off = emit.unified_text([dict(hs[0], os=hs[0]["os"] + 2)], b"f", b"f")   # applies with an offset -> mismatch backup
    # all permission bit patterns of the low 9 bits sampled + special cases; as root and as nobody
    modes = sorted(set([0o644, 0o444, 0o400, 0o600, 0o755, 0o555, 0o640, 0o664, 0o700, 0o711, 0o604] + [rng.randrange(0o400, 0o1000) for _ in range(20 if quick else 200)]))
    for m in modes:
        for opts in ([], [b"-b"], [b"--read-only=ignore"], [b"--read-only=warn"], [b"--read-only=fail"], [b"-o", b"out"], [b"--no-backup-if-mismatch"]):
            for text, kind in ((text_u, "exact"), (text_off, "offset")):
                for uid in (0, 65534):
                    if uid != 0 and (not (m & 0o400) or (not (m & 0o200) and (m & 0o022))):
                        continue   # unreadable by its owner / writable only by others: the owner can not patch it (honest exit 2)
                    tree = box.Tree({b"f": ("f", gen.render(a, "keep"), m), b"p.diff": ("f", text, 0o644)})
                    jobs.append(dict(cut=R.cut, tree=tree, argv=opts + [b"-i", b"p.diff"], uid=uid))
                    meta.append(("mode", m, opts, kind, uid, None))
    # git mode headers
    for old, new in ((0o644, 0o755), (0o755, 0o644), (0o600, 0o755), (0o444, 0o755)):
        for with_hunk in (False, True):
            text = emit.git_text(hs if with_hunk else [], b"f", b"f", "change", b"100%o" % (0o644 if not old & 0o100 else 0o755), b"100%o" % new)
            for opts in ([], [b"-b"]):
                tree = box.Tree({b"f": ("f", gen.render(a, "keep"), old), b"p.diff": ("f", text, 0o644)})
                jobs.append(dict(cut=R.cut, tree=tree, argv=opts + [b"-p1", b"-i", b"p.diff"]))
                meta.append(("git-mode", old, opts, "hunk" if with_hunk else "mode-only", 0, new))
    # the same headers applied with -R to the patched state: old and new mode are exchanged
    for old, new in ((0o644, 0o755), (0o755, 0o644)):
        for with_hunk in (False, True):
            text = emit.git_text(hs if with_hunk else [], b"f", b"f", "change", b"100%o" % old, b"100%o" % new)
            for opts in ([], [b"-b"]):
                tree = box.Tree({b"f": ("f", gen.render(b if with_hunk else a, "keep"), new), b"p.diff": ("f", text, 0o644)})
                jobs.append(dict(cut=R.cut, tree=tree, argv=opts + [b"-R", b"-p1", b"-i", b"p.diff"]))
                meta.append(("git-mode", new, opts + [b"-R"], "hunk" if with_hunk else "mode-only", 0, old))
    text = emit.git_text(gen.make_hunks([], b, 3), b"n", b"n", "add", None, b"100755")
    jobs.append(dict(cut=R.cut, tree=box.Tree({b"p.diff": ("f", text, 0o644)}), argv=[b"-p1", b"-i", b"p.diff"])); meta.append(("git-new", 0, [], "new file mode", 0, 0o755))
    # a renamed or copied file keeps the mode of the file it comes from
    for op in ("rename", "copy"):
        for m in (0o755, 0o600, 0o444):
            for with_hunk in (False, True):
                text = emit.git_text(hs if with_hunk else [], b"f", b"g", op)
                tree = box.Tree({b"f": ("f", gen.render(a, "keep"), m), b"p.diff": ("f", text, 0o644)})
                jobs.append(dict(cut=R.cut, tree=tree, argv=[b"-p1", b"-i", b"p.diff"])); meta.append(("git-move", m, [op.encode()], "hunk" if with_hunk else "pure", 0, m))
    # refusals: directory / FIFO / symlink-to-dir targets, Prereq under --batch
    for kind, node in (("directory", ("d", 0o755)), ("fifo", ("p", 0o644)), ("directory", ("d", 0o555)), ("fifo", ("p", 0o444)), ("fifo", ("p", 0o400))):
        for opts in ([], [b"--dry-run"], [b"--read-only=warn"], [b"--read-only=ignore"], [b"--read-only=fail"], [b"-b"]):
            tree = box.Tree({b"f": node, b"p.diff": ("f", text_u, 0o644)})
            jobs.append(dict(cut=R.cut, tree=tree, argv=opts + [b"-i", b"p.diff"])); meta.append(("refuse", node[1], opts, kind, 0, None))
    # a symbolic link to a read-only directory: the link and the directory it points to stay as they are
    for opts in ([], [b"--read-only=warn"], [b"--read-only=ignore"]):
        tree = box.Tree({b"dir": ("d", 0o500), b"f": ("l", b"dir"), b"p.diff": ("f", text_u, 0o644)})
        jobs.append(dict(cut=R.cut, tree=tree, argv=opts + [b"-i", b"p.diff"])); meta.append(("refuse-link", 0o500, opts, "symlink to directory", 0, None))
    # symbolic link targets of every kind (to a file, dangling, to a directory) x patches that change, create or remove f (also the git
    # patches which are about a link): the link stays a link, what it points to keeps bytes, mode and time stamps, nothing appears where a
    # dangling link points to
    creating = b"--- /dev/null\n+++ f\n@@ -0,0 +1,2 @@\n+x\n+y\n"
    git_new = b"diff --git a/f b/f\nnew file mode 100644\n--- /dev/null\n+++ b/f\n@@ -0,0 +1,2 @@\n+x\n+y\n"
    git_dellink = b"diff --git a/f b/f\ndeleted file mode 120000\n--- a/f\n+++ /dev/null\n@@ -1 +0,0 @@\n-dest\n\\ No newline at end of file\n"
    git_newlink = b"diff --git a/f b/f\nnew file mode 120000\n--- /dev/null\n+++ b/f\n@@ -0,0 +1 @@\n+dest\n\\ No newline at end of file\n"
    for lk, extra in (("to a file", {b"dest": ("f", gen.render(a, "keep"), 0o640)}), ("dangling", {}), ("to a directory", {b"dest": ("d", 0o750)})):
        for pk, text, pre_ in (("change", text_u, []), ("create", creating, []), ("git create", git_new, [b"-p1"]), ("git delete link", git_dellink, [b"-p1"]),
                               ("git create link -R", git_newlink, [b"-p1", b"-R"])):
            for opts in ([b"-f"], [b"-f", b"-b"], [b"-f", b"--dry-run"], [b"-f", b"--no-backup-if-mismatch"]):
                tree = box.Tree({b"f": ("l", b"dest"), b"p.diff": ("f", text, 0o644), **extra})
                jobs.append(dict(cut=R.cut, tree=tree, argv=opts + pre_ + [b"-i", b"p.diff"])); meta.append(("refuse-symlink", 0, opts + pre_, f"link {lk}, {pk} patch", 0, None))
    # aborts after the read-only check: Prereq text missing under --batch, a hunk that can not be parsed, a second section that is corrupt
    pre = b"Prereq: version-9\n" + text_u
    broken = text_u.rsplit(b"\n", 2)[0] + b"\n"            # the last line of the hunk is missing: 'unexpected end' style abort
    for m in (0o640, 0o444, 0o400, 0o555):
        for opts in ([b"--batch"], [b"-f"], [b"--batch", b"-b"], [b"--batch", b"--read-only=ignore"]):
            tree = box.Tree({b"f": ("f", gen.render(a, "keep"), m), b"p.diff": ("f", pre, 0o644)})
            jobs.append(dict(cut=R.cut, tree=tree, argv=opts + [b"-i", b"p.diff"])); meta.append(("prereq", m, opts, "missing", 0, None))
        for opts in ([], [b"-b"], [b"--read-only=ignore"]):
            tree = box.Tree({b"f": ("f", gen.render(a, "keep"), m), b"p.diff": ("f", broken, 0o644)})
            jobs.append(dict(cut=R.cut, tree=tree, argv=opts + [b"-i", b"p.diff"])); meta.append(("abort", m, opts, "truncated hunk", 0, None))
            gitp = emit.git_text(hs, b"f", b"f", "change") + b"diff --git a/g b/g\n--- a/g\n+++ b/g\n@@ -1,1 +1,1 @@\n-x\n"
            tree = box.Tree({b"f": ("f", gen.render(a, "keep"), m), b"g": ("f", b"x\n", 0o644), b"p.diff": ("f", gitp, 0o644)})
            jobs.append(dict(cut=R.cut, tree=tree, argv=opts + [b"-p1", b"-i", b"p.diff"])); meta.append(("abort", m, opts, "git: later section corrupt", 0, None))
    res = drv.run_many(jobs)
    dist = {}
    for (what, m, opts, kind, uid, newmode), r in zip(meta, res):
        R.evaluations += 1; R.nontrivial.add(hash((what, m, tuple(opts), kind, uid)))
        data = {"what": what, "mode": oct(m), "argv": [o.decode() for o in opts], "kind": kind, "uid": uid, "exit": r.exit,
                "stdout": r.stdout.decode("latin1")[-400:], "stderr": r.stderr.decode("latin1")[-300:]}
        k = f"{what}/{kind}"
        dist[k] = dist.get(k, 0) + 1
        f0, f1 = r.before.get(b"f"), r.after.get(b"f")
        if what == "mode":
            readonly = not (m & 0o200)     # read-only: the owner may not write (D94; any of the three write bits before)
            fail = readonly and b"--read-only=fail" in opts
            if fail:
                if f1[:3] != f0[:3] or r.exit == 0:
                    R.oracle_fail("--read-only=fail: the read-only target was changed or the exit status is 0", data)
                continue
            if r.exit != 0:
                R.oracle_fail(f"patching a file with mode {oct(m)} as uid {uid} exits {r.exit}", data); continue
            tgt = b"out" if b"-o" in opts else b"f"
            if b"-o" in opts:
                if f1[:3] != f0[:3]:
                    R.oracle_fail("-o: the input file was modified", data)
                continue
            if r.after[tgt][1] == f0[1]:
                R.oracle_fail("the target was not patched", data); continue
            if r.after[tgt][2] != m:
                R.oracle_fail(f"mode {oct(m)} became {oct(r.after[tgt][2])} after patching" + (" (a backup was taken)" if b"f.orig" in r.after else ""), data)
        elif what in ("git-mode", "git-new"):
            tgt = b"n" if what == "git-new" else b"f"
            if r.exit != 0 or tgt not in r.after or r.after[tgt][2] != newmode:
                R.oracle_fail(f"git header sets mode {oct(newmode)}, the file has {oct(r.after[tgt][2]) if tgt in r.after else 'vanished'} (exit {r.exit})", data)
        elif what == "git-move":
            if r.exit != 0 or b"g" not in r.after or r.after[b"g"][2] != newmode:
                R.oracle_fail(f"git {opts[0].decode()} of a file with mode {oct(m)}: the new file has mode {oct(r.after[b'g'][2]) if b'g' in r.after else 'none (missing)'} (exit {r.exit})", data)
        elif what == "refuse-symlink":
            d0, d1 = r.before.get(b"dest"), r.after.get(b"dest")
            if r.exit == 0 or f1 != f0 or d1 != d0 or set(r.after) - set(r.before) - {b"f.rej"}:
                R.oracle_fail(f"a symbolic link ({kind}) was not refused cleanly: exit {r.exit}, link {'kept' if f1 == f0 else 'changed'}, what it points to "
                              f"{'untouched' if d1 == d0 else 'touched or created'}, new paths {sorted(set(r.after) - set(r.before))}", data)
        elif what == "refuse-link":
            d0, d1 = r.before.get(b"dir"), r.after.get(b"dir")
            if r.exit == 0 or f1[:2] != f0[:2] or d1[:3] != d0[:3]:
                R.oracle_fail(f"a symbolic link to a directory was not refused cleanly (exit {r.exit}, directory mode {oct(d0[2])} -> {oct(d1[2])})", data)
        elif what == "abort":
            if r.exit != 2 and kind == "truncated hunk":
                continue   # (the parser made sense of it after all: not an abort)
            if r.exit == 2 and (f1 is None or f1[:3] != f0[:3]):
                R.oracle_fail(f"patch aborted (exit 2, {kind}) and left the target changed: mode {oct(f0[2])} -> {oct(f1[2]) if f1 else 'gone'}", data)
        elif what == "refuse":
            if r.exit == 0 or f1 is None or (f1[0], f1[2]) != (f0[0], f0[2]):
                R.oracle_fail(f"a {kind} target was not refused cleanly (exit {r.exit}, mode {oct(f0[2])} -> {oct(f1[2]) if f1 else 'gone'})", data)
            elif r.exit == 1 and b"ignored" not in r.stdout:
                R.oracle_fail("refused target: hunks not reported as ignored", data)
        elif what == "prereq":
            if b"--batch" in opts:
                if r.exit == 0 or f1[:3] != f0[:3]:
                    R.oracle_fail("Prereq text missing under --batch: target changed or exit 0", data)
            elif r.exit != 0:
                R.oracle_fail("Prereq text missing under -f: expected a warning and the patch applied", data)
    R.dist["C17 cases"] = dist
    import ties
    sel = [j for j in jobs if j.get("uid", 0) in (0, 65534)][:400 if quick else 5000]
    ties.t8(R, "T8-driver", [dict(tree=j["tree"], argv=j["argv"], uid=j.get("uid", 0)) for j in sel])


RULE = ("a fixed three-line file under a sample of 9-bit permission patterns x {-b, --read-only=warn/ignore/fail, -o, --no-backup-if-mismatch} x {exact, offset "
        "(mismatch backup)} x {root, unprivileged}; git old/new mode and new-file-mode headers with and without hunks and backups; directory and FIFO "
        "targets (also read-only ones, and a link to a read-only directory); the git mode headers again with -R; Prereq under --batch and -f and aborts by a corrupt hunk / corrupt later git section on read-only targets. Mode after = mode before unless a git header sets it; refusals leave bytes and mode unchanged, exit non-zero.")
ASSUME = ["umask 022 in the sandbox"]
