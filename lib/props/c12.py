"""C12 — the file that gets patched is the one the headers name (names, quoting, -p; candidate order at driver level)."""
import gen, ties, emit


def py_strip(p: bytes, n: int) -> bytes:
    """independent statement of -pN: remove n leading components, runs of slashes counting once"""
    if n < 0:
        return p.rsplit(b"/", 1)[-1]
    for _ in range(n):
        i = p.find(b"/")
        if i < 0:
            return b""
        p = p[i:].lstrip(b"/")
    return p


def run(R):
    if not R.build() or not R.build(sanitize=True):
        return
    R.lean(["C12"])
    import hunted
    hunted.run(R, "C12")
    quick = R.tier == "quick"
    rng = R.rng
    reqs = ties.t6_requests(rng, quick)
    # the sanitised build: an out-of-bounds walk shows up as a crash of the harness
    qs, ri, rm = R.tie("T6-paths", reqs, sanitize=True)
    R.exhaustive = True
    kinds = {}
    for q, x in zip(qs, ri):
        t = q.split()
        kinds[t[0]] = kinds.get(t[0], 0) + 1
        if x.startswith("crash"):
            R.oracle_fail("path handling crashed (sanitizer abort / signal)", {"request": q, "observed": x}); continue
        if t[0] == "strip" and x.startswith("ok "):
            p = bytes.fromhex(t[1][1:]); n = int(t[2])
            want = py_strip(p, n)
            if bytes.fromhex(x[4:]) != want:
                R.oracle_fail("strip_path differs from 'remove N leading components, slash runs count once'", {"request": q, "observed": x, "expected": want.hex()})
    R.dist["T6 request kinds"] = kinds
    # quoting round trip on the implementation: every name the producers can emit
    reqs, meta = [], {}
    for _ in range(4000 if quick else 60000):
        name = bytes(rng.choice([rng.randrange(1, 256), rng.choice(b"ab/ .\"\\\t\n")]) for _ in range(rng.randint(0, 8))).replace(b"\x00", b"")
        q = f"quoted {gen.hexb(emit.cquote(name))}"
        reqs.append(q); meta[q] = name
        st = rng.choice([-1, 0, 1, 2])
        TS = b"\t2020-01-01 00:00:00"
        q2 = f"fileline {gen.hexb(emit.cquote(name) + TS)} {st}"
        reqs.append(q2); meta[q2] = (name, st)
        if name and b"\t" not in name and b"\n" not in name and not name.startswith(b'"'):
            q3 = f"fileline {gen.hexb(name + TS)} {st}"
            reqs.append(q3); meta[q3] = (name, st)
    qs, ri, rm = R.tie("T6-quoting", reqs, sanitize=True)
    for q, x in zip(qs, ri):
        m = meta[q]
        if q.startswith("quoted"):
            if x != "ok " + gen.hexb(m):
                R.oracle_fail("C-quoted name does not decode to the name", {"request": q, "observed": x, "name": m.hex()})
        else:
            name, st = m
            want = name if name == b"/dev/null" else py_strip(name, st)
            got = x.split()
            if len(got) < 2 or got[0] != "ok" or bytes.fromhex(got[1][1:]) != want:
                R.oracle_fail("header line does not yield the decoded name with N components stripped", {"request": q, "observed": x, "expected": want.hex()})
    try:
        import driver_c12
        driver_c12.run(R)
    except ImportError:
        R.notes.append("driver-level part (candidate order old/new/Index, /dev/null never opened) not built yet")


RULE = ("T6: all byte strings over {a / . SP \" \\\\ TAB 7} up to the stated length x strip -1..3 (exhaustive, sanitised build) + random "
        "composite names, git header names, extended headers, range lines; quoting: random names over all byte values but NUL, C-quoted by an "
        "independent quoter. Oracles: independent Python -pN; decode(quote(name)) = name; header line -> stripped decoded name. All distinct requests count.")
ASSUME = ["the in-process harness calls the same functions sb_patch calls"]
