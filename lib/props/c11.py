"""C11 — a patch stream is the sum of its sections; surrounding text is ignored (parser level + driver level)."""
import gen, emit, scen, ties

INERT = [b"", b"From: someone@example.org", b"Subject: [PATCH] fix things", b"This fixes the bug.", b"-- ", b"2.39.0",
         b"Signed-off-by: A <a@b>", b"On Monday someone wrote:", b"diff -ur old/x new/x", b"Only in new: y", b"# comment",
         b"=== modified file", b"commit 0123abc", b"Date:   Mon Jan 1 00:00:00 2020", b"    indented commit message", b"> quoted mail text is fine", b"1. numbered list"]


def section(rng, P, name):
    """one section for target `name`: (format, text, kind)"""
    a = gen.rand_file(rng, 8, crlf_p=0); b = gen.edit(rng, a)
    a = [(c, t) for c, t in a if c != b"\xff\x00z"]; b = [(c, t) for c, t in b if c != b"\xff\x00z"]
    if a == b or not a or not b:
        a = [(b"one", "L"), (b"two", "L"), (b"three", "L")]; b = [(b"one", "L"), (b"2", "L"), (b"three", "L")]
    ctx = rng.choice([0, 1, 3])
    hs = gen.make_hunks(a, b, ctx)
    if any(h["os"] == 0 and h["oc"] == 0 for h in hs):
        ctx = 3; hs = gen.make_hunks(a, b, 3)
    k = rng.choice(["unified", "context", "normal", "git", "gnu-u", "gnu-c", "index-unified", "prereq-context"])
    ts = b"2020-01-01 00:00:00.000000000 +0000"
    if k == "unified": return "unified", emit.unified_text(hs, name, name, ts, ts), k
    if k == "context": return "context", emit.context_text(hs, name, name, ts, ts), k
    if k == "normal": return "normal", emit.normal_text(gen.make_hunks(a, b, 0)), k
    if k == "git": return "git", emit.git_text(hs, name, name), k
    if k == "gnu-u": return "unified", P.gnu_single(a, b, "u", ctx, (name, name)), k
    if k == "gnu-c": return "context", P.gnu_single(a, b, "c", ctx, (name, name)), k
    if k == "index-unified": return "unified", b"Index: " + name + b"\n" + emit.unified_text(hs, name + b".orig", name, ts, ts), k
    return "context", b"Prereq: 1.0\n" + emit.context_text(hs, name, name, ts, ts), k


def patches_of(x):
    """split 'ok n | patch | patch rem=k' into patch dumps"""
    if not x.startswith("ok "):
        return None
    body = x[3:].rsplit(" rem=", 1)[0]
    parts = body.split(" | ")
    return parts[1:]


def run(R):
    if not R.build():
        return
    R.lean(["C11", "C11Header", "C11Concat"])
    import hunted
    hunted.run(R, "C11")
    import inventory
    inventory.check(R)      # structural tie: the keywords the C++ parser knows = the keywords the model knows
    quick = R.tier == "quick"
    rng = R.rng
    reqs, dist = ties.t4_requests(rng, 9000 if quick else 150000)
    R.dist["T4 streams"] = dist
    R.tie("T4-parse", reqs, nontrivial=lambda q, x: x.startswith("ok"))
    # sum of sections / filler / autodetect, on the implementation
    P = scen.Producers()
    try:
        reqs, groups = [], []
        for _ in range(1500 if quick else 20000):
            n = rng.choice([2, 2, 3])
            secs = [section(rng, P, b"file%d.txt" % i) for i in range(n)]
            # a normal diff names no file: two of them in a row are one patch for one file, not two sections
            if any(secs[i][2] == "normal" and secs[i + 1][2] == "normal" for i in range(n - 1)):
                continue
            def fill(after=None):
                ls = [rng.choice(INERT) for _ in range(rng.randint(0, 3))]
                # directly after a context diff a line starting with "  " / "+ " / "! " reads as a line of its last hunk
                if after == "context" and ls and ls[0][:2] in (b"  ", b"+ ", b"! "):
                    ls = ls[1:] if len(ls) > 1 and ls[1][:2] not in (b"  ", b"+ ", b"! ") else []
                return b"".join(l + b"\n" for l in ls)
            plain = b"".join(t for _, t, _ in secs)
            filled = fill() + b"".join(t + fill(f) for f, t, _ in secs)
            fams = {{"unified": "unified", "gnu-u": "unified", "index-unified": "unified", "context": "context", "gnu-c": "context", "prereq-context": "context"}.get(k) for _, _, k in secs}
            g = {"secs": secs, "forced": (f"parseall {gen.hexb(filled)} {next(iter(fams))} -1" if len(fams) == 1 and None not in fams else None), "singles": [], "plain": f"parseall {gen.hexb(plain)} unknown -1", "filled": f"parseall {gen.hexb(filled)} unknown -1",
                 "explicit": [], "auto": []}
            for f, t, k in secs:
                g["singles"].append(f"parseall {gen.hexb(t)} unknown -1")
                if k in ("gnu-u", "gnu-c", "unified", "context", "normal"):
                    g["auto"].append(f"parse {gen.hexb(t)} unknown -1"); g["explicit"].append(f"parse {gen.hexb(t)} {f} -1")
            groups.append(g)
            reqs += g["singles"] + [g["plain"], g["filled"]] + g["auto"] + g["explicit"] + ([g["forced"]] if g["forced"] else [])
    finally:
        P.close()
    qs, ri, rm = R.tie("T4-sections", reqs, nontrivial=lambda q, x: x.startswith("ok"))
    resp = dict(zip(qs, ri))
    kinds = {}
    for g in groups:
        key = "+".join(k for _, _, k in g["secs"])
        kinds[key] = kinds.get(key, 0) + 1
        singles = [patches_of(resp[q]) for q in g["singles"]]
        if any(s is None or len(s) != 1 for s in singles):
            bad = next(q for q, s in zip(g["singles"], singles) if s is None or len(s) != 1)
            R.oracle_fail("a single section written by a diff producer is not parsed as one patch", {"request": bad, "observed": resp[bad]}); continue
        want = [s[0] for s in singles]
        tagged = None
        ks = [k for _, _, k in g["secs"]]
        for name, q in (("concatenation", g["plain"]), ("concatenation with filler text", g["filled"])):
            got = patches_of(resp[q])
            if got != want:
                R.oracle_fail(f"{name} of sections is not parsed as the sum of the sections ({key})", {"request": q, "observed": resp[q], "expected": " | ".join(want)}, tag=tagged)
                break
        if g["forced"] and patches_of(resp[g["forced"]]) != patches_of(resp[g["filled"]]):
            R.oracle_fail("a stream of sections of one format with filler text parses differently when that format is given (-u/-c)",
                          {"request": g["forced"], "observed": resp[g["forced"]], "expected": resp[g["filled"]]})
        for qa, qe in zip(g["auto"], g["explicit"]):
            if resp[qa] != resp[qe]:
                R.oracle_fail("auto-detected format gives a different result from the matching -u/-c/-n option", {"request": qa, "observed": resp[qa], "expected": resp[qe]})
    R.dist["section kind sequences (top 12)"] = dict(sorted(kinds.items(), key=lambda kv: -kv[1])[:12])
    try:
        import driver_c11
        driver_c11.run(R)
    except ImportError:
        R.notes.append("driver-level part (effects and exit status of combined vs separate runs, stdin vs -i) not built yet")


RULE = ("T4: patch streams from GNU diff, the independent emitter (unified/context/normal/git, Index:/Prereq:), malformed mutations and concatenations, "
        "parsed by parse_patch and by the section loop; oracles on the implementation: parse(S1..Sn) = parse(S1)++..++parse(Sn), the same with inert filler "
        "lines before/between/after, auto-detection = explicit format. Non-trivial = streams that parse.")
ASSUME = ["filler lines do not themselves look like diff syntax (list INERT in lib/props/c11.py)"]
