"""C13 — reject files are valid patches that carry exactly the failed changes."""
import gen, cases, strict
from props import c04


def writable(h):
    ls = h["lines"]
    if not ls:
        return False
    for i, (op, (c, t)) in enumerate(ls):
        if b"\n" in c or c.endswith(b"\r"):
            return False
    return (h["os"] >= 1 or h["oc"] == 0) and (h["ns"] >= 1 or h["nc"] == 0) and max(h["os"], h["ns"]) + len(ls) < 2**61


def norm(ls):
    """a line as a diff carries it: its bytes including the CR of a CRLF line end, and whether it is marked as unterminated"""
    return [(c + (b"\r" if t == "C" else b""), t == "N") for c, t in ls]


def parse_hunks_from_resp(x):
    """'ok fmt op idx pre old new oldt newt om nm nh hunk... rem=n' -> list of hunk dicts"""
    t = x.split()
    if t[0] != "ok":
        return None
    i = 11
    nh = int(t[i]); i += 1
    hs = []
    for _ in range(nh):
        os_, oc, ns, nc, nl = (int(v) for v in t[i:i + 5]); i += 5
        lines = []
        for _ in range(nl):
            lines.append((int(t[i]), (bytes.fromhex(t[i + 1][1:]), t[i + 2]))); i += 3
        hs.append({"os": os_, "oc": oc, "ns": ns, "nc": nc, "lines": lines})
    return hs


def run(R):
    if not R.build():
        return
    R.lean(["C13U", "C13C", "C03Loop", "C13Run"])
    import hunted
    hunted.run(R, "C13")
    quick = R.tier == "quick"
    rng = R.rng
    # T5: formatter on every interleaving up to length 5 (exhaustive) with marker placements, plus random hunks
    import itertools
    hunks = []
    for n in range(1, 6 if quick else 7):
        for ops in itertools.product([gen.SP, gen.PLUS, gen.MINUS], repeat=n):
            for variant in range(3):
                lines = [(op, (rng.choice([b"a", b"", b"x y", b"--- q", b"\\z", b"*** 1 ****"]), "L")) for op in ops]
                h = {"os": 0, "oc": 0, "ns": 0, "nc": 0, "lines": lines}
                oc = len(gen.old_side(h)); nc = len(gen.new_side(h))
                lo = max([i for i, (op, _) in enumerate(lines) if op != gen.PLUS], default=-1)
                ln = max([i for i, (op, _) in enumerate(lines) if op != gen.MINUS], default=-1)
                if variant == 1 and lo >= 0 and (lines[lo][0] == gen.MINUS or lo == ln) and lines[lo][1][0]:
                    lines[lo] = (lines[lo][0], (lines[lo][1][0], "N"))
                if variant == 2 and ln >= 0 and (lines[ln][0] == gen.PLUS or lo == ln) and lines[ln][1][0]:
                    lines[ln] = (lines[ln][0], (lines[ln][1][0], "N"))
                s = rng.choice([1, 2, 7, 100])
                hunks.append({"os": s if oc else s - 1, "oc": oc, "ns": s + 1 if nc else s, "nc": nc, "lines": lines})
    R.exhaustive = True
    for _ in range(3000 if quick else 60000):
        hunks.append(gen.rand_hunk(rng))
    reqs = []
    for h in hunks:
        reqs.append("fmtu " + gen.enc_hunk(h)); reqs.append("fmtc " + gen.enc_hunk(h))
    byreq = {}
    for h in hunks:
        byreq["fmtu " + gen.enc_hunk(h)] = h; byreq["fmtc " + gen.enc_hunk(h)] = h
    qs, ri, rm = R.tie("T5-format", reqs)
    # round trip on the implementation: write, then read back with the implementation's own parser
    preqs, pmeta = [], {}
    for q, x in zip(qs, ri):
        h = byreq[q]
        if not x.startswith("ok ") or not writable(h):
            continue
        body = bytes.fromhex(x[4:])
        if q.startswith("fmtu"):
            text = b"--- a\n+++ b\n" + body; fmt = "unified"
            try:
                _, _, sh = strict.parse_unified(text)
                if len(sh) != 1 or norm(gen.old_side(sh[0])) != norm(gen.old_side(h)) or norm(gen.new_side(sh[0])) != norm(gen.new_side(h)):
                    R.oracle_fail("unified output read by the strict reader denotes a different change", {"request": q, "observed": x})
            except strict.Bad as e:
                R.oracle_fail(f"write_hunk_as_unified output is not a valid unified diff: {e}", {"request": q, "observed": x})
        else:
            text = b"*** a\n--- b\n***************\n" + body; fmt = "context"
            try:
                _, _, sh = strict.parse_context(text)
                so, sn = strict.ctx_sides(sh[0])
                if len(sh) != 1 or norm(so) != norm(gen.old_side(h)) or norm(sn) != norm(gen.new_side(h)):
                    R.oracle_fail("context output read by the strict reader denotes a different change", {"request": q, "observed": x})
            except strict.Bad as e:
                R.oracle_fail(f"write_hunk_as_context output is not a valid context diff: {e}", {"request": q, "observed": x})
        pq = f"parse {gen.hexb(text)} {rng.choice([fmt, 'unknown'])} -1"
        preqs.append(pq); pmeta[pq] = (h, q)
    qs2, ri2, rm2 = R.tie("T4-readback", preqs)
    nrt = 0
    for pq, x in zip(qs2, ri2):
        h, q = pmeta[pq]
        hs = parse_hunks_from_resp(x)
        if hs is None or len(hs) != 1:
            R.oracle_fail("a hunk written by the formatter is not read back as one hunk by the parser", {"request": pq, "observed": x, "written_by": q}); continue
        g = hs[0]
        nrt += 1
        if norm(gen.old_side(g)) != norm(gen.old_side(h)) or norm(gen.new_side(g)) != norm(gen.new_side(h)) or \
           (g["os"], g["oc"], g["ns"], g["nc"]) != (h["os"], h["oc"], h["ns"], h["nc"]):
            R.oracle_fail("writing a hunk and reading it back changes the change it denotes", {"request": pq, "observed": x, "written_by": q})
    R.dist["hunks round-tripped on the implementation"] = nrt
    # apply level: the reject data of real runs
    ac = cases.apply_cases(rng, 8000 if quick else 100000, 12 if quick else 30)
    reqs = [cases.enc_apply(c) for c in ac]
    m = dict(zip(reqs, ac))
    qs, ri, rm = R.tie("T3-apply-rejects", reqs, nontrivial=lambda q, x: "FAILED" in x or "skipped" in x)
    rb = []
    for q, x in zip(qs, ri):
        tgt, hs, o, fmt, meta = m[q]
        d = cases.parse_apply_resp(x)
        if d is None or o["D"]:
            continue
        rec = cases.placements_from_msgs(hs, o, d)
        if rec is None:
            continue
        eff, pls, status = rec
        c04.check_rejects(R, q, x, d, eff, status, o, fmt)
        rej = bytes.fromhex(d["rej"][1:])
        if not rej:
            continue
        as_unified = o["rf"] == "unified" or (o["rf"] == "default" and fmt in ("unified", "git"))
        if rej.startswith(b"--- ") != as_unified:
            R.oracle_fail("reject format is not the selected one (unified for unified/git input by default, context otherwise)", {"request": q, "observed": x})
        # start lines: stated start + net growth of the hunks applied before
        offnew, want = 0, []
        for i, h in enumerate(eff):
            if status[i] == "succeeded":
                offnew += h["nc"] - h["oc"]
            else:
                want.append((h["os"] + offnew, h["ns"] + offnew))
        try:
            got = [(h["os"], h["ns"]) for h in (strict.parse_unified(rej)[2] if as_unified else strict.parse_context(rej)[2])]
            if got != want and all(a >= 1 and b >= 1 for a, b in want):
                R.oracle_fail("rejected hunks are not shifted by the net growth of the hunks applied before them", {"request": q, "observed": x, "want": str(want), "got": str(got)})
        except strict.Bad:
            pass  # reported (or attributed to a known finding) by check_rejects


RULE = ("T5: every interleaving of context/deletion/addition lines up to length 5 (6 thorough) x no-newline marker placements (exhaustive) + random "
        "hunks, written in both formats; each output read by an independent strict reader and by the implementation's own parser (round trip); "
        "T3: reject data of generated runs checked for validity, sides, order, shift and format choice. Non-trivial: runs with rejects; all T5 hunks.")
ASSUME = ["a reject file carries content and the missing-newline marker, not the LF/CRLF class"]
