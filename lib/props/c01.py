"""C01 — applying a diff reproduces the new file exactly (apply_patch level, text level, driver level)."""
import gen, cases, emit, scen, strict
from props import c13


def valid_case(rng, maxlen, allow_nonl=True):
    while True:
        small = rng.random() < 0.4
        a = gen.rand_file(rng, maxlen, small=small)
        b = gen.edit(rng, a, small=small)
        if a == b:
            continue
        ctx = rng.choice([0, 1, 2, 3, 5])
        hs = gen.make_hunks(a, b, ctx)
        if any(h["os"] == 0 and h["oc"] == 0 and a for h in hs):
            continue   # known finding D2: zero-context insertion at the top of a non-empty file
        return a, b, ctx, hs


def run(R):
    if not R.build():
        return
    R.lean(["C01", "C01Driver", "C01Run", "C19Main", "C01RunContext", "C01RunGit", "C01RunNormal", "C01RunCreate", "C01RunDelete"])
    import hunted
    hunted.run(R, "C01")
    quick = R.tier == "quick"
    rng = R.rng
    # (1) apply_patch on valid scripts: the model's theorem C01_core says what must come out; oracle = the new file itself
    reqs, meta = [], {}
    dist = {"empty-old": 0, "empty-new": 0, "nonl": 0, "repeated-lines": 0, "first-line": 0, "last-line": 0, "multi-hunk": 0}
    for _ in range(10000 if quick else 150000):
        a, b, ctx, hs = valid_case(rng, 12 if quick else 30)
        o = dict(reverse=0, N=int(rng.random() < 0.3), t=int(rng.random() < 0.3), f=int(rng.random() < 0.3), l=int(rng.random() < 0.3),
                 F=rng.choice([0, 1, 2, 3]), D=b"", nl=rng.choice(["native", "lf", "crlf", "keep"]), rf="default", verbose=int(rng.random() < 0.3))
        c = (a, hs, o, rng.choice(["unified", "context", "normal", "git"]), None)
        q = cases.enc_apply(c); reqs.append(q); meta[q] = (a, b, hs, o)
        dist["empty-old"] += not a; dist["empty-new"] += not b
        dist["nonl"] += bool((a and a[-1][1] == "N") or (b and b[-1][1] == "N"))
        dist["repeated-lines"] += len(set(a)) < len(a)
        dist["first-line"] += bool(hs and hs[0]["os"] <= 1); dist["multi-hunk"] += len(hs) > 1
        dist["last-line"] += bool(hs and hs[-1]["os"] + hs[-1]["oc"] - 1 >= len(a))
    R.dist["valid scripts"] = dist
    qs, ri, rm = R.tie("T3-apply-valid", reqs)
    for q, x in zip(qs, ri):
        a, b, hs, o = meta[q]
        d = cases.parse_apply_resp(x)
        if d is None:
            R.oracle_fail(f"apply_patch threw ({x}) on a valid diff", {"request": q, "observed": x}); continue
        want = gen.render(b, o["nl"])
        if bytes.fromhex(d["out"][1:]) != want:
            R.oracle_fail("applying a diff of A to B to A does not yield B", {"request": q, "observed": x, "expected": want.hex()}); continue
        if d["failed"] != "0" or d["perfect"] != "1" or d["skipped"] != "0" or d["rej"] != "x":
            R.oracle_fail("a valid diff was not applied perfectly (reject / fuzz / offset / skip)", {"request": q, "observed": x}); continue
        if not o["verbose"] and d["msgs"]:
            R.oracle_fail("a valid diff produced hunk messages or a question", {"request": q, "observed": x}); continue
        if o["verbose"]:
            offnew = 0
            for i, h in enumerate(hs):
                stated = (h["os"] + (1 if h["oc"] == 0 else 0)) + offnew
                if d["msgs"][i] != f"hunk:{i+1}:succeeded:{stated}:0:0":
                    R.oracle_fail("a hunk of a valid diff did not land at its stated line", {"request": q, "observed": x, "hunk": i}); break
                offnew += h["nc"] - h["oc"]
    # (2) text level: what the producers emit is parsed into a valid script of A whose splice is B (emitter conformance + parser)
    P = scen.Producers()
    try:
        preqs, pmeta = [], {}
        for _ in range(2500 if quick else 40000):
            a, b, ctx, hs = valid_case(rng, 10, allow_nonl=True)
            a = [(c, t) for c, t in a if c != b"\xff\x00z"]; b = [(c, t) for c, t in b if c != b"\xff\x00z"]
            if a == b or any(t == "C" or c.endswith(b"\r") for c, t in a + b):   # text diffs can not tell "a\r"+LF from "a"+CRLF
                continue
            hs = gen.make_hunks(a, b, ctx)
            if any(h["os"] == 0 and h["oc"] == 0 and a for h in hs):
                continue
            for fmt, text in (("unified", emit.unified_text(hs)), ("context", emit.context_text(hs)), ("normal", emit.normal_text(gen.make_hunks(a, b, 0))),
                              ("git", emit.git_text(hs)), ("unified", P.gnu_single(a, b, "u", ctx)), ("context", P.gnu_single(a, b, "c", ctx)),
                              ("normal", P.gnu_single(a, b, "n"))):
                if fmt == "normal" and any(h["os"] == 0 and h["oc"] == 0 and a for h in gen.make_hunks(a, b, 0)):
                    continue
                q = f"parse {gen.hexb(text)} {rng.choice([fmt, 'unknown']) if fmt != 'git' else 'unknown'} -1"
                preqs.append(q); pmeta[q] = (a, b)
                if fmt in ("unified", "git") and b"\n \n" in text:
                    # as 'diff --suppress-blank-empty' writes it: an unchanged line which is empty is given as an empty line (D86: also first in a hunk)
                    t2 = text.replace(b"\n \n", b"\n\n").replace(b"\n \n", b"\n\n")
                    q = f"parse {gen.hexb(t2)} {rng.choice([fmt, 'unknown']) if fmt != 'git' else 'unknown'} -1"
                    preqs.append(q); pmeta[q] = (a, b)
    finally:
        P.close()
    qs, ri, rm = R.tie("T4-parse-producers", preqs)
    oreqs, ometa = [], []
    for q, x in zip(qs, ri):
        a, b = pmeta[q]
        hs = c13.parse_hunks_from_resp(x)
        if hs is None:
            R.oracle_fail(f"a diff written by a producer is not parsed ({x})", {"request": q, "observed": x}); continue
        oreqs.append(f"oracle_valid {gen.enc_lines(a)} {len(hs)} {' '.join(gen.enc_hunk(h) for h in hs)} {gen.enc_lines(b)}".replace("  ", " "))
        ometa.append((q, x, oreqs[-1], bool(a) and any(h["os"] == 0 and h["oc"] == 0 for h in hs)))
    for (q, x, oq, d2), v in zip(ometa, R.model(oreqs)):
        if v != "ok":
            R.oracle_fail(f"the hunks parsed from a producer's diff are not a valid script from A to B ({v})", {"request": q, "observed": x, "oracle": v, "oracle_request": oq},
                          tag="locator.insert-at-zero-nonempty" if d2 else None)
    try:
        import driver_c01
        driver_c01.run(R)
    except ImportError:
        R.notes.append("driver-level part (trees, exit status, no reject/backup files, no prompt) not built yet")


RULE = ("(1) random file pairs (empty, missing final newline on either side, repeated lines, blank-only lines, changes at first/last line), diffs by the "
        "independent emitter with context 0..5, applied through apply_patch under random -N/-t/-f/-l/-F/newline modes; oracle: output bytes = B, nothing "
        "rejected, every hunk at its stated line; (2) the same pairs written by GNU diff and the emitter in all formats, parsed by the implementation, and "
        "the parsed hunks checked by the Lean spec (Valid, splice = B). All cases are non-trivial (A != B).")
ASSUME = ["known finding D2 excluded: zero-context insertion stated at line 0 of a non-empty file", "CRLF files need --newline-output=preserve for byte identity (default mode native writes LF)"]
