"""C20 — -D output is a correct conditional merge of old and new."""
import gen, cases, strict


def cpp_eval(data: bytes, sym: bytes, defined: bool):
    """independent four-directive preprocessor over raw bytes; returns None when unbalanced"""
    out, state = [], None   # state: None outside, else [active, else_seen]
    for c, t in strict.split_lines(data):
        line = c
        if line == b"#ifdef " + sym:
            if state is not None: return None
            state = [defined, False]
        elif line == b"#ifndef " + sym:
            if state is not None: return None
            state = [not defined, False]
        elif line == b"#else":
            if state is None or state[1]: return None
            state = [not state[0], True]
        elif line == b"#endif":
            if state is None: return None
            state = None
        elif state is None or state[0]:
            out.append((c, t))
    if state is not None:
        return None
    return out


def run(R):
    if not R.build():
        return
    R.lean(["C20", "C20Run"])
    import hunted
    hunted.run(R, "C20")
    quick = R.tier == "quick"
    rng = R.rng
    reqs, meta = [], {}
    n = 8000 if quick else 100000
    dist = {"create-from-empty": 0, "delete-everything": 0, "first-line": 0, "last-line": 0, "nonl": 0, "other": 0}
    while len(reqs) < n:
        small = rng.random() < 0.5
        a = gen.rand_file(rng, 12 if quick else 30, small=small)
        a = [(c, t) for c, t in a if not c.startswith(b"#")]
        r = rng.random()
        if r < 0.08: a = []
        b = [] if (r > 0.92 and a) else [(c, t) for c, t in gen.edit(rng, a, small=small) if not c.startswith(b"#")]
        if a == b:
            continue
        hs = gen.make_hunks(a, b, rng.choice([0, 1, 2, 3]))
        if any(h["os"] == 0 and h["oc"] == 0 and a for h in hs):
            continue  # known finding D2 (insertion at line 0 of a non-empty file)
        o = dict(reverse=0, N=0, t=0, f=int(rng.random() < 0.5), l=int(rng.random() < 0.2), F=rng.choice([0, 2, 3]), D=b"SYM",
                 nl=rng.choice(["native", "keep"]), rf="default", verbose=int(rng.random() < 0.5))
        c = (a, hs, o, rng.choice(["unified", "context", "normal"]), {"a": a, "b": b})
        v = rng.random()
        if v < 0.15 and a and b and all(t != "N" for _, t in a + b) and not any(h["ns"] == 0 and h["nc"] == 0 for h in hs):   # (mirror image of D2 excluded)
            # applied with -R to the new file: the roles of the two files are exchanged ('+' lines now come before '-' lines)
            c = (b, hs, dict(o, reverse=1), c[3], {"a": b, "b": a, "variant": "reverse"})
        elif v < 0.3 and a:
            # -l: the file differs from the patch's copy of it in white space only - the ORIGINAL to get back is the file's own text
            pert = lambda c_: c_.replace(b" ", b"  ").replace(b"\t", b" ") + rng.choice([b"", b" ", b"\t"])
            a2 = [(pert(c_) if rng.random() < 0.6 and not c_.endswith(b"\r") else c_, t) for c_, t in a]
            if a2 != a:
                b2, pos = [], 0
                for h in hs:
                    st = (h["os"] - 1) if h["oc"] else h["os"]
                    b2 += a2[pos:st]; pos = st
                    for op, l in h["lines"]:
                        if op == gen.SP: b2.append(a2[pos]); pos += 1
                        elif op == gen.MINUS: pos += 1
                        else: b2.append(l)
                b2 += a2[pos:]
                c = (a2, hs, dict(o, l=1, F=0), c[3], {"a": a2, "b": b2, "variant": "whitespace", "may_reject": True})
        elif v < 0.45 and c[3] == "unified":
            # the same script with the '-' and '+' lines of every change interleaved at random (a valid unified hunk no diff tool writes)
            hs2 = []
            for h in hs:
                out, run = [], []
                def flush():
                    m = [l for l in run if l[0] == gen.MINUS]; p_ = [l for l in run if l[0] == gen.PLUS]
                    while m or p_:
                        if m and (not p_ or rng.random() < 0.5): out.append(m.pop(0))
                        else: out.append(p_.pop(0))
                    run.clear()
                for l in h["lines"]:
                    if l[0] == gen.SP: flush(); out.append(l)
                    else: run.append(l)
                flush()
                hs2.append(dict(h, lines=out))
            if hs2 != hs:
                c = (a, hs2, o, "unified", {"a": a, "b": b, "variant": "interleaved"})
        q = cases.enc_apply(c)
        reqs.append(q); meta[q] = c
        dist["variant " + c[4].get("variant", "plain")] = dist.get("variant " + c[4].get("variant", "plain"), 0) + 1
        k = ("create-from-empty" if not a else "delete-everything" if not b else
             "nonl" if (a[-1][1] == "N" or b[-1][1] == "N") else
             "first-line" if hs[0]["os"] <= 1 else "last-line" if hs[-1]["os"] + hs[-1]["oc"] - 1 >= len(a) else "other")
        dist[k] += 1
    R.dist["cases"] = dist
    qs, ri, rm = R.tie("T3-apply-define", reqs)
    term = lambda ls: [c + (b"\r" if t == "C" else b"") for c, t in ls]   # up to the final newline
    for q, x in zip(qs, ri):
        _, hs, o, fmt, mt = meta[q]
        a, b = mt["a"], mt["b"]
        d = cases.parse_apply_resp(x)
        if d is None:
            R.oracle_fail(f"-D run threw ({x})", {"request": q, "observed": x}); continue
        if d["failed"] != "0":
            if mt.get("may_reject"):
                dist["whitespace variant: hunk not matched under -l (skipped)"] = dist.get("whitespace variant: hunk not matched under -l (skipped)", 0) + 1
                continue
            R.oracle_fail("-D run rejected a hunk of a valid diff", {"request": q, "observed": x}); continue
        out = bytes.fromhex(d["out"][1:])
        mode = o["nl"]
        for defined, want in ((True, b), (False, a)):
            got = cpp_eval(out, b"SYM", defined)
            if got is None:
                R.oracle_fail("-D output has an unclosed or misplaced conditional", {"request": q, "observed": x}); break
            wl = strict.split_lines(gen.render(want, mode))
            allterm = all(t != "N" for _, t in a) and all(t != "N" for _, t in b)
            if (got != wl) if allterm else (term(got) != term(wl)):
                R.oracle_fail(f"-D output preprocessed with SYM {'defined' if defined else 'undefined'} is not the {'new' if defined else 'original'} file",
                              {"request": q, "observed": x, "got": repr(got)[:300], "want": repr(wl)[:300]}); break


RULE = ("generated file pairs free of '#' lines (incl. empty original, empty result, changes at first/last line, missing final newline), diffs by the "
        "independent emitter with context 0..3, applied with -D SYM; oracle: an independent Python preprocessor over the output bytes yields the new "
        "file with SYM defined and the original without (exact bytes when every line is terminated, else up to the added final newline). Variants: the diff applied "
        "with -R to the new file; -l with a target that differs from the patch's copy in white space (the original to get back is the target's own text); "
        "unified hunks whose '-' and '+' lines are interleaved at random. All cases non-trivial.")
ASSUME = ["files contain no lines starting with '#'", "Unix: native = lf"]
