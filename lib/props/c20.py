"""C20 — -D output is a correct conditional merge of old and new."""
import gen, cases, strict


def cpp_eval(data: bytes, sym: bytes, defined: bool):
    """independent four-directive preprocessor over raw bytes; returns None when unbalanced"""
    out, state = [], None   # state: None outside, else [active, else_seen]
    for c, t in strict.split_lines(data):
        line = c
        if line == b"#ifdef " + sym:
            if state is not None: return None
            state = [defined, False]
        elif line == b"#ifndef " + sym:
            if state is not None: return None
            state = [not defined, False]
        elif line == b"#else":
            if state is None or state[1]: return None
            state = [not state[0], True]
        elif line == b"#endif":
            if state is None: return None
            state = None
        elif state is None or state[0]:
            out.append((c, t))
    if state is not None:
        return None
    return out


def run(R):
    if not R.build():
        return
    R.lean(["C20"])
    quick = R.tier == "quick"
    rng = R.rng
    reqs, meta = [], {}
    n = 8000 if quick else 100000
    dist = {"create-from-empty": 0, "delete-everything": 0, "first-line": 0, "last-line": 0, "nonl": 0, "other": 0}
    while len(reqs) < n:
        small = rng.random() < 0.5
        a = gen.rand_file(rng, 12 if quick else 30, small=small)
        a = [(c, t) for c, t in a if not c.startswith(b"#")]
        r = rng.random()
        if r < 0.08: a = []
        b = [] if (r > 0.92 and a) else [(c, t) for c, t in gen.edit(rng, a, small=small) if not c.startswith(b"#")]
        if a == b:
            continue
        hs = gen.make_hunks(a, b, rng.choice([0, 1, 2, 3]))
        if any(h["os"] == 0 and h["oc"] == 0 and a for h in hs):
            continue  # known finding D2 (insertion at line 0 of a non-empty file)
        o = dict(reverse=0, N=0, t=0, f=int(rng.random() < 0.5), l=int(rng.random() < 0.2), F=rng.choice([0, 2, 3]), D=b"SYM",
                 nl=rng.choice(["native", "keep"]), rf="default", verbose=int(rng.random() < 0.5))
        c = (a, hs, o, rng.choice(["unified", "context", "normal"]), {"a": a, "b": b})
        q = cases.enc_apply(c)
        reqs.append(q); meta[q] = c
        k = ("create-from-empty" if not a else "delete-everything" if not b else
             "nonl" if (a[-1][1] == "N" or b[-1][1] == "N") else
             "first-line" if hs[0]["os"] <= 1 else "last-line" if hs[-1]["os"] + hs[-1]["oc"] - 1 >= len(a) else "other")
        dist[k] += 1
    R.dist["cases"] = dist
    qs, ri, rm = R.tie("T3-apply-define", reqs)
    term = lambda ls: [c + (b"\r" if t == "C" else b"") for c, t in ls]   # up to the final newline
    for q, x in zip(qs, ri):
        a, hs, o, fmt, mt = meta[q]
        b = mt["b"]
        d = cases.parse_apply_resp(x)
        if d is None:
            R.oracle_fail(f"-D run threw ({x})", {"request": q, "observed": x}); continue
        if d["failed"] != "0":
            R.oracle_fail("-D run rejected a hunk of a valid diff", {"request": q, "observed": x}); continue
        out = bytes.fromhex(d["out"][1:])
        mode = o["nl"]
        for defined, want in ((True, b), (False, a)):
            got = cpp_eval(out, b"SYM", defined)
            if got is None:
                R.oracle_fail("-D output has an unclosed or misplaced conditional", {"request": q, "observed": x}); break
            wl = strict.split_lines(gen.render(want, mode))
            allterm = all(t != "N" for _, t in a) and all(t != "N" for _, t in b)
            if (got != wl) if allterm else (term(got) != term(wl)):
                R.oracle_fail(f"-D output preprocessed with SYM {'defined' if defined else 'undefined'} is not the {'new' if defined else 'original'} file",
                              {"request": q, "observed": x, "got": repr(got)[:300], "want": repr(wl)[:300]}); break


RULE = ("generated file pairs free of '#' lines (incl. empty original, empty result, changes at first/last line, missing final newline), diffs by the "
        "independent emitter with context 0..3, applied with -D SYM; oracle: an independent Python preprocessor over the output bytes yields the new "
        "file with SYM defined and the original without (exact bytes when every line is terminated, else up to the added final newline). All cases non-trivial.")
ASSUME = ["files contain no lines starting with '#'", "Unix: native = lf"]
