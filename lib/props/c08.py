"""C08 — patch always terminates, in time bounded by the size of its input."""
import os, re, time
import box, drv, scen, gen, emit, ties, cases
from props import c07


def run(R):
    if not R.build():
        return
    R.lean(["C08"])
    quick = R.tier == "quick"
    rng = R.rng
    # the section loop of the parser must leave every stream: `parseall` reports "loop" when 64 passes were not enough
    reqs, dist = ties.t4_requests(rng, 5000 if quick else 80000, with_tools=False)
    special = [b"diff --git a/x b/x\ndiff --git a/y b/y\n", b"diff --git a/x b/x\n" * 5, b"diff --git a/x b/x\nold mode 100644\nnew mode 100755\n" * 3,
               b"--- a\n+++ b\n", b"***************\n", b"@@ -1 +1 @@\n", b"1c1\n", b"Index: x\n" * 4, b"diff --git a/x b/x\nindex 1..2\n", b"\n" * 50,
               b"--- a\n+++ b\n@@ -9223372036854775000,1 +1 @@\n-a\n+b\n", b"--- a\n+++ b\n@@ -2305843009213693951,1 +1 @@\n-a\n+b\n"]
    for sp in special:
        for f in ("unknown", "unified", "context", "normal"):
            reqs.append(f"parseall {gen.hexb(sp)} {f} -1")
    qs, ri, rm = R.tie("T4-parse-sections", reqs)
    for q, x in zip(qs, ri):
        if x == "loop":
            R.oracle_fail("the section loop does not leave the patch stream (a pass consumed no line)", {"request": q, "observed": x})
    # the locator's work is bounded by file size x hunk size, whatever the numbers say
    lc = []
    for tgt, h, iw, off, mf, ml in cases.locate_cases(rng, 3000 if quick else 50000, 12):
        h = dict(h); h["os"] = rng.choice([h["os"], 2**40, 2**61 - 1, 2**61 - 808]); 
        lc.append((tgt, h, iw, rng.choice([0, 2**40, -(2**40)]), rng.choice([2, 2**31 - 1]), ml))
    t0 = time.time()
    R.tie("T2-locate-big-numbers", [cases.enc_locate(c) for c in lc])
    R.dist["T2 big-number batch wall_s"] = round(time.time() - t0, 2)
    # the program under a CPU limit: numbers up to 2^63-1, headers with no body, repeated git headers
    P = scen.Producers()
    jobs, meta = [], []
    try:
        n = 500 if quick else 10000
        while len(jobs) < n:
            A, B, ch, prod, ctx, text = drv.make_case(rng, P, ops=("modify",))
            r = rng.random()
            if r < 0.4:
                nums = list(re.finditer(rb"(?m)^(@@ -|\*\*\* |--- )?(\d+)", text))
                if nums:
                    m = rng.choice(nums)
                    text = text[:m.start(2)] + rng.choice([b"9223372036854775807", b"9223372036854775000", b"2305843009213693951", b"4611686018427387904", b"999999999999"]) + text[m.end(2):]
            elif r < 0.6:
                text = c07.grammar(rng, text)
            elif r < 0.75:
                text = b"diff --git a/q b/q\n" * rng.randint(1, 6) + text
            elif r < 0.85:
                text = text + b"diff --git a/x b/x\nold mode 100644\nnew mode 100755\n" * rng.randint(1, 3)
            else:
                text = c07.blind(rng, text)
            opts = rng.choice([[], [b"-R"], [b"-N"], [b"-f"], [b"-F", b"2147483647"], [b"-l"]])
            jobs.append(dict(cut=R.cut, tree=drv.tree_with_patch(A, text), argv=opts + [b"-p1", b"-i", drv.PATCHNAME], timeout=10))
            meta.append((text, opts, jobs[-1]["tree"]))
    finally:
        P.close()
    t0 = time.time()
    res = drv.run_many(jobs)
    slow = 0
    for (text, opts, tree_), r in zip(meta, res):
        R.evaluations += 1; R.nontrivial.add(hash((text, tuple(opts))))
        data = {"patch_hex": text.hex(), "argv": [a.decode() for a in opts] + ["-p1", "-i", "__patch.diff"], "wall_s": round(r.wall, 2), "exit": r.exit}
        if r.timeout:
            R.oracle_fail(f"patch did not terminate within 10 s on a {len(text)} byte patch", data)
        elif r.wall > 2.0 and box.run(R.cut, tree_, opts + [b"-p1", b"-i", drv.PATCHNAME], timeout=30).wall > 2.0:
            # (measured again alone: the first measurement was taken with 15 other runs in flight)
            slow += 1
            R.oracle_fail(f"patch needed {r.wall:.1f} s for a {len(text)} byte patch and a small target (running time depends on a number written in the patch?)", data)
    R.dist["driver runs"] = {"n": len(jobs), "slow": slow, "max_wall_s": round(max(r.wall for r in res), 3), "batch_wall_s": round(time.time() - t0, 1)}


RULE = ("parser section loop on generated, malformed and special streams (headers with no body, repeated git headers, ranges up to 2^63-1): must leave the "
        "stream (64-pass guard in the harness); locate_hunk with stated lines up to 2^61 (whole batch timed); sb_patch under a 10 s limit on patches of a few "
        "KiB with huge numbers, repeated/hunk-less git headers and mutations: no timeout, no run above 2 s.")
ASSUME = ["wall-clock limits stand in for the polynomial bound; the bound itself is the theorem on the model's step counts"]
