"""C08 — patch always terminates, in time bounded by the size of its input."""
import os, re, time
import box, drv, scen, gen, emit, ties, cases
from props import c07


def run(R):
    if not R.build():
        return
    R.lean(["C08", "C08Driver"])
    quick = R.tier == "quick"
    rng = R.rng
    # the section loop of the parser must leave every stream: `parseall` reports "loop" when 64 passes were not enough
    reqs, dist = ties.t4_requests(rng, 5000 if quick else 80000, with_tools=False)
    special = [b"diff --git a/x b/x\ndiff --git a/y b/y\n", b"diff --git a/x b/x\n" * 5, b"diff --git a/x b/x\nold mode 100644\nnew mode 100755\n" * 3,
               b"--- a\n+++ b\n", b"***************\n", b"@@ -1 +1 @@\n", b"1c1\n", b"Index: x\n" * 4, b"diff --git a/x b/x\nindex 1..2\n", b"\n" * 50,
               b"--- a\n+++ b\n@@ -9223372036854775000,1 +1 @@\n-a\n+b\n", b"--- a\n+++ b\n@@ -2305843009213693951,1 +1 @@\n-a\n+b\n"]
    for sp in special:
        for f in ("unknown", "unified", "context", "normal"):
            reqs.append(f"parseall {gen.hexb(sp)} {f} -1")
    qs, ri, rm = R.tie("T4-parse-sections", reqs)
    for q, x in zip(qs, ri):
        if x == "loop":
            R.oracle_fail("the section loop does not leave the patch stream (a pass consumed no line)", {"request": q, "observed": x})
    # the locator's work is bounded by file size x hunk size, whatever the numbers say
    lc = []
    for tgt, h, iw, off, mf, ml in cases.locate_cases(rng, 3000 if quick else 50000, 12):
        h = dict(h); h["os"] = rng.choice([h["os"], 2**40, 2**61 - 1, 2**61 - 808]); 
        lc.append((tgt, h, iw, rng.choice([0, 2**40, -(2**40)]), rng.choice([2, 2**31 - 1]), ml))
    # two hunks: the first drags the accumulated offset to about -2^61, the second starts its search from there
    for tgt, h, iw, off, mf, ml in cases.locate_cases(rng, 600 if quick else 6000, 12):
        for off2 in (-(2**61) + 5, -(2**62), 2**61):
            lc.append((tgt, h, iw, off2, mf, ml))
    R.stall_s = 15
    t0 = time.time()
    qs2, ri2, _ = R.tie("T2-locate-big-numbers", [cases.enc_locate(c) for c in lc])
    R.dist["T2 big-number batch wall_s"] = round(time.time() - t0, 2)
    for v in R.violations:
        # a request the in-process harness never answers is a failing input of this property, not only a broken tie
        if v.get("kind") == "tie-broken" and str(v.get("implementation", "")).startswith("hang"):
            v["kind"] = "impl-violates"; v.pop("no_input", None)
            v["summary"] = "no answer within 15 s (the work depends on a number written in the request): " + v["tie"]
    # the program under a CPU limit: numbers up to 2^63-1, headers with no body, repeated git headers
    P = scen.Producers()
    jobs, meta = [], []
    try:
        n = 500 if quick else 10000
        while len(jobs) < n:
            A, B, ch, prod, ctx, text = drv.make_case(rng, P, ops=("modify",))
            r = rng.random()
            if r < 0.4:
                nums = list(re.finditer(rb"(?m)^(@@ -|\*\*\* |--- )?(\d+)", text))
                if nums:
                    m = rng.choice(nums)
                    text = text[:m.start(2)] + rng.choice([b"9223372036854775807", b"9223372036854775000", b"2305843009213693951", b"4611686018427387904", b"999999999999"]) + text[m.end(2):]
            elif r < 0.6:
                text = c07.grammar(rng, text)
            elif r < 0.75:
                text = b"diff --git a/q b/q\n" * rng.randint(1, 6) + text
            elif r < 0.85:
                text = text + b"diff --git a/x b/x\nold mode 100644\nnew mode 100755\n" * rng.randint(1, 3)
            else:
                text = c07.blind(rng, text)
            opts = rng.choice([[], [b"-R"], [b"-N"], [b"-f"], [b"-F", b"2147483647"], [b"-l"]])
            jobs.append(dict(cut=R.cut, tree=drv.tree_with_patch(A, text), argv=opts + [b"-p1", b"-i", drv.PATCHNAME], timeout=10, uid=65534))
            meta.append((text, opts, jobs[-1]["tree"]))
        # git headers with no body at all, binary markers, and everything that makes patch create directories for an
        # absolute path (@ROOT@ = the scratch directory): new file, rejects of a failing hunk, -o, -r, git rename/copy
        A0 = {b"a/f": ("f", b"one\ntwo\nthree\n", 0o644), b"a/g": ("f", b"x\n", 0o644)}
        hunk = b"@@ -1,3 +1,3 @@\n one\n-two\n+TWO\n three\n"
        bad = b"@@ -1,3 +1,3 @@\n one\n-zwei\n+TWO\n drei\n"
        fixed = [
            (b"diff --git a/f b/f\nGIT binary patch\n", []), (b"diff --git a/f b/f\nGIT binary patch\nliteral 3\nabc\n\n", []),
            (b"diff --git a/f b/f\nindex 1..2\nGIT binary patch\n", []), (b"diff --git a/f b/f\nGIT binary patch\n" * 3, []),
            (b"diff --git a/f b/f\nBinary files a/f and b/f differ\n", []), (b"diff --git a/f b/f\n", []), (b"diff --git a/f b/f\n\n", []),
            (b"--- /dev/null\n+++ @ROOT@/new/dir/file.txt\n@@ -0,0 +1 @@\n+hello\n", [b"-p0"]),
            (b"--- @ROOT@/a/f\n+++ @ROOT@/a/f\n" + bad, [b"-p0"]), (b"--- @ROOT@/a/f\n+++ @ROOT@/a/f\n" + hunk, [b"-p0"]),
            (b"--- a/f\n+++ a/f\n" + hunk, [b"-p0", b"-o", b"@ROOT@/out/dir/o.txt"]), (b"--- a/f\n+++ a/f\n" + bad, [b"-p0", b"-r", b"@ROOT@/rej/dir/r.rej"]),
            (b"diff --git a/a/f b/@ROOT@/mv/f\nrename from a/f\nrename to @ROOT@/mv/f\n", [b"-p0"]),
            (b"diff --git a/a/f b/a/h\ncopy from a/f\ncopy to @ROOT@/cp/h\n", [b"-p0"]),
            (b"--- a/f\n+++ a/f\n" + hunk, [b"-p0", b"-B", b"@ROOT@/bk/", b"-b"]),
        ]
        for text, opts in fixed:
            for extra in ([], [b"-R"], [b"--dry-run"]):
                jobs.append(dict(cut=R.cut, tree=drv.tree_with_patch({}, text, extra=A0), argv=opts + extra + [b"-i", drv.PATCHNAME], timeout=10))
                meta.append((text, opts + extra + [b"@fixed"], jobs[-1]["tree"]))
    finally:
        P.close()
    t0 = time.time()
    res = drv.run_many(jobs)
    slow = 0
    for (text, opts, tree_), r in zip(meta, res):
        R.evaluations += 1; R.nontrivial.add(hash((text, tuple(opts))))
        fx = opts and opts[-1] == b"@fixed"
        if fx:
            opts = opts[:-1]
        data = {"patch_hex": text.hex(), "argv": [a.decode() for a in opts] + ([] if fx else ["-p1"]) + ["-i", "__patch.diff"], "wall_s": round(r.wall, 2), "exit": r.exit}
        if r.timeout:
            R.oracle_fail(f"patch did not terminate within 10 s on a {len(text)} byte patch", data)
        elif r.wall > 2.0 and box.run(R.cut, tree_, opts + ([] if fx else [b"-p1"]) + [b"-i", drv.PATCHNAME], timeout=30).wall > 2.0:
            # (measured again alone: the first measurement was taken with 15 other runs in flight)
            slow += 1
            R.oracle_fail(f"patch needed {r.wall:.1f} s for a {len(text)} byte patch and a small target (running time depends on a number written in the patch?)", data)
    R.dist["driver runs"] = {"n": len(jobs), "slow": slow, "max_wall_s": round(max(r.wall for r in res), 3), "batch_wall_s": round(time.time() - t0, 1)}


RULE = ("parser section loop on generated, malformed and special streams (headers with no body, repeated git headers, ranges up to 2^63-1): must leave the "
        "stream (64-pass guard in the harness); locate_hunk with stated lines up to 2^61 (whole batch timed); sb_patch under a 10 s limit on patches of a few "
        "KiB with huge numbers, repeated/hunk-less git headers, binary markers, absolute target/-o/-r/-B paths and mutations: no timeout, no run above 2 s; "
        "a locate request the harness does not answer within 15 s is a failing input.")
ASSUME = ["wall-clock limits stand in for the polynomial bound; the bound itself is the theorem on the model's step counts"]
