"""strace log -> ordered list of the mutating operations on paths of the scratch tree and of $TMPDIR, in the vocabulary of the
model's trace (creat / write (adjacent writes merged) / rename / unlink / rmdir / mkdir / chmod / symlink / tmp-create / tmp-unlink).
Reads, stats, closes and everything outside the tree (loader, libraries, /dev/tty) are dropped. Only successful calls count."""
import os, re


def unescape(s: bytes) -> bytes:
    out = bytearray()
    i = 0
    while i < len(s):
        c = s[i]
        if c != 0x5c:
            out.append(c); i += 1; continue
        i += 1
        e = s[i:i + 1]
        if e in (b"n", b"t", b"r", b"v", b"f", b"a", b"b"):
            out.append({b"n": 10, b"t": 9, b"r": 13, b"v": 11, b"f": 12, b"a": 7, b"b": 8}[e]); i += 1
        elif e == b"x":
            out.append(int(s[i + 1:i + 3], 16)); i += 3
        elif e.isdigit():
            j = i
            while j < len(s) and j < i + 3 and s[j:j + 1].isdigit() and s[j] < 0x38:
                j += 1
            out.append(int(s[i:j], 8) & 255); i = j
        else:
            out.append(s[i]); i += 1
    return bytes(out)


STR = rb'"((?:[^"\\]|\\.)*)"'


def parse(log: bytes, root: str, tmpdir: str):
    rootb, tmpb = root.encode(), tmpdir.encode()
    ops = []

    def rel(path: bytes, cwd: bytes):
        p = path if path.startswith(b"/") else os.path.normpath(os.path.join(cwd, path))
        p = os.path.normpath(p)
        if p.startswith(tmpb + b"/") or p == tmpb:
            return ("tmp", p)
        if p.startswith(rootb + b"/"):
            return ("tree", p[len(rootb) + 1:])
        return (None, p)

    cwd = rootb
    for line in log.split(b"\n"):
        m = re.match(rb"^\d+\s+(\w+)\((.*)\)\s+= (-?\d+)", line)
        if not m:
            continue
        call, args, ret = m.group(1), m.group(2), int(m.group(3))
        if ret < 0:
            continue
        if call == b"chdir":
            mm = re.match(STR, args)
            if mm:
                cwd = os.path.normpath(os.path.join(cwd, unescape(mm.group(1))))
            continue
        if call == b"openat":
            mm = re.match(rb"AT_FDCWD(?:<[^>]*>)?, " + STR + rb", ([A-Z_|]+)", args)
            if not mm:
                continue
            kind, p = rel(unescape(mm.group(1)), cwd)
            flags = mm.group(2)
            if kind == "tmp" and b"O_CREAT" in flags:
                ops.append("tmp-create")
            elif kind == "tree" and b"O_CREAT" in flags and b"O_TRUNC" in flags:
                ops.append("creat:x" + p.hex())
        elif call == b"write":
            mm = re.match(rb"(\d+)<([^>]*)>, " + STR, args)
            if not mm:
                continue
            fdpath = mm.group(2)
            if fdpath.endswith(b" (deleted)") or not fdpath.startswith(b"/"):
                continue    # unlinked temporaries, pipes, sockets, ttys
            kind, p = rel(fdpath, cwd)
            if kind == "tree":
                data = unescape(mm.group(3))[:ret]
                if ops and ops[-1].startswith("write:x" + p.hex() + ":x"):
                    ops[-1] += data.hex()
                else:
                    ops.append("write:x" + p.hex() + ":x" + data.hex())
        elif call in (b"rename", b"renameat", b"renameat2"):
            ss = re.findall(STR, args)
            if len(ss) >= 2:
                ka, a = rel(unescape(ss[0]), cwd); kb, b = rel(unescape(ss[1]), cwd)
                if ka == "tree" or kb == "tree":
                    ops.append("rename:x" + a.hex() + ":x" + b.hex())
        elif call in (b"unlink", b"unlinkat"):
            ss = re.findall(STR, args)
            if ss:
                k, p = rel(unescape(ss[0]), cwd)
                if k == "tmp": ops.append("tmp-unlink")
                elif k == "tree": ops.append(("rmdir" if b"AT_REMOVEDIR" in args else "unlink") + ":x" + p.hex())
        elif call == b"rmdir":
            ss = re.findall(STR, args)
            if ss:
                k, p = rel(unescape(ss[0]), cwd)
                if k == "tree": ops.append("rmdir:x" + p.hex())
        elif call in (b"mkdir", b"mkdirat"):
            ss = re.findall(STR, args)
            if ss:
                k, p = rel(unescape(ss[0]), cwd)
                if k == "tree": ops.append("mkdir:x" + p.hex())
        elif call in (b"chmod", b"fchmodat"):
            ss = re.findall(STR, args)
            mm = re.search(rb", (0[0-7]+)", args)
            if ss and mm:
                k, p = rel(unescape(ss[0]), cwd)
                if k == "tree": ops.append("chmod:x" + p.hex() + ":" + str(int(mm.group(1), 8)))
        elif call in (b"symlink", b"symlinkat"):
            ss = re.findall(STR, args)
            if len(ss) >= 2:
                k, p = rel(unescape(ss[1]), cwd)
                if k == "tree": ops.append("symlink:x" + unescape(ss[0]).hex() + ":x" + p.hex())
    return ops
