"""Structural tie (complements the sampled ties): the inventory of literal keywords the C++ parser tests lines against
(`consume_specific("...")`, `starts_with(x, "...")`, `ends_with(x, "...")`) must equal the inventory of keyword literals in the Lean model of
the parser. A keyword added to (or dropped from) the C++ without the model following shows up here even if no sampled input uses it."""
import re, os
import common

LIT = r'"((?:[^"\\]|\\.)*)"'


def strip_lean_comments(t):
    out, i, n = [], 0, len(t)
    while i < n:
        c = t[i]
        if c == '"':
            j = i + 1
            while j < n and t[j] != '"':
                j += 2 if t[j] == "\\" else 1
            out.append(t[i:j + 1]); i = j + 1
        elif t.startswith("/-", i):
            depth, j = 1, i + 2
            while j < n and depth:
                if t.startswith("/-", j): depth += 1; j += 2
                elif t.startswith("-/", j): depth -= 1; j += 2
                else: j += 1
            i = j
        elif t.startswith("--", i):
            j = t.find("\n", i)
            i = n if j < 0 else j
        else:
            out.append(c); i += 1
    return "".join(out)


def dec(s):
    return s.encode("latin1", "replace").decode("unicode_escape")


def cpp_keywords(path=None):
    cpp = open(path or os.path.join(common.REPO, "src", "parser.cpp")).read()
    cpp = re.sub(r"//[^\n]*", "", cpp)
    ks = set()
    for m in re.finditer(r"consume_specific\(" + LIT + r"\)", cpp): ks.add(dec(m.group(1)))
    for m in re.finditer(r"consume_specific\('((?:[^'\\]|\\.)*)'\)", cpp): ks.add(dec(m.group(1)))
    for m in re.finditer(r"(?:starts_with|ends_with)\([\w.]+, " + LIT + r"\)", cpp): ks.add(dec(m.group(1)))
    return ks


def lean_keywords():
    ks = set()
    for f in ("Parse.lean", "Paths.lean"):
        t = strip_lean_comments(open(os.path.join(common.LEAN, "PatchModel", "Model", f)).read())
        for m in re.finditer(r"\bstr " + LIT, t): ks.add(dec(m.group(1)))
        for m in re.finditer(r"(?:startsWith|endsWith) \S+ " + LIT, t): ks.add(dec(m.group(1)))
    return ks


# literals that are spelled differently on the two sides, with the reason
ONLY_CPP = {'"': "the model tests the first byte against DQUOTE", ",": "the model consumes the byte [44]"}
ONLY_LEAN = {"a/": "git header: the C++ compares rest.compare(0, 2, \"a/\")", "---": "normal format separator: the C++ compares the whole line with =="}


def check(R):
    cs, ln = cpp_keywords(), lean_keywords()
    a = sorted(k for k in cs - ln if k not in ONLY_CPP)
    b = sorted(k for k in ln - cs if k not in ONLY_LEAN)
    R.dist["parser keyword inventory"] = {"common": len(cs & ln), "only in the C++ (explained)": sorted(k for k in cs - ln if k in ONLY_CPP),
                                          "only in the model (explained)": sorted(k for k in ln - cs if k in ONLY_LEAN)}
    R.evaluations += 1
    if a or b:
        R.violations.append({"kind": "tie-broken", "tie": "inventory-parser-keywords", "no_input": True,
                             "summary": f"keyword inventory of src/parser.cpp and of the Lean parser model differ: only in the C++ {a}, only in the model {b}",
                             "request": "inventory", "implementation": repr(sorted(cs)), "model": repr(sorted(ln))})


RENAMED = {"defineMacro": "define", "interpretAsContext": "asContext", "interpretAsEd": "asEd", "interpretAsNormal": "asNormal", "interpretAsUnified": "asUnified",
           "outFilePath": "outFile", "patchDirectoryPath": "directory", "patchFilePath": "patchFile", "readOnlyHandling": "readOnly",
           "rejectFilePath": "rejectFile", "reversePatch": "reverse", "stripSize": "strip"}
NOT_MODELLED = {"quotingStyle": "the quoting of names in messages is not modelled (DESIGN 12.4b)"}


def check_options(R):
    """every field of the option record that process_patch / apply_patch consult is consulted by the model's driver / applier"""
    camel = lambda s: s.split("_")[0] + "".join(x.capitalize() for x in s.split("_")[1:])
    cs = set()
    for f in ("patch.cpp", "applier.cpp"):
        t = re.sub(r"//[^\n]*", "", open(os.path.join(common.REPO, "src", f)).read())
        cs |= {camel(m.group(1)) for m in re.finditer(r"\b(?:m_)?options\.(\w+)\b(?!\.h)", t) if m.group(1) != "h"}
    cs = {RENAMED.get(k, k) for k in cs}
    ln = set()
    for f in ("Driver.lean", "Applier.lean"):
        t = strip_lean_comments(open(os.path.join(common.LEAN, "PatchModel", "Model", f)).read())
        ln |= {m.group(1) for m in re.finditer(r"\bo\.(\w+)", t)}
    missing = sorted(k for k in cs - ln if k not in NOT_MODELLED)
    R.dist["option fields consulted by the driver"] = {"C++": len(cs), "model": len(ln), "not modelled (explained)": sorted(k for k in cs - ln if k in NOT_MODELLED)}
    R.evaluations += 1
    if missing:
        R.violations.append({"kind": "tie-broken", "tie": "inventory-option-fields", "no_input": True,
                             "summary": f"process_patch / apply_patch consult option fields the model's driver does not: {missing}",
                             "request": "inventory", "implementation": repr(sorted(cs)), "model": repr(sorted(ln))})
