"""Check engine: builds the code under test, runs correspondence ties (model vs implementation), spec oracles,
the Lean audit, and writes evidence / replays / verdict lines."""
import hashlib, json, os, re, subprocess, sys, time, random
from collections import Counter
import common

TRUSTED_AXIOMS = {"propext", "Classical.choice", "Quot.sound"}
FORBIDDEN = re.compile(r"\b(sorry|admit|native_decide|bv_decide|implemented_by|unsafe )\b|^axiom |maxHeartbeats 0", re.M)


def load_known():
    """KNOWN_FINDINGS.txt: `finding: property=<id> tag=<tag> replay=<file> <what fails>` / `fixed: ...`"""
    out = []
    p = os.path.join(common.VERIF, "KNOWN_FINDINGS.txt")
    if not os.path.exists(p):
        return out
    for line in open(p):
        line = line.strip()
        m = re.match(r"finding: property=(\S+) tag=(\S+) replay=(\S+) (.*)", line)
        if m:
            out.append({"property": m.group(1), "tag": m.group(2), "replay": m.group(3), "what": m.group(4)})
    return out


class Run:
    def __init__(self, pid, tier, seed):
        self.pid, self.tier, self.seed = pid, tier, seed
        self.rng = random.Random(f"{pid}-{seed}")
        self.t0 = time.time()
        self.violations = []          # dicts: kind, summary, replay-data
        self.known_hits = Counter()   # tag -> count
        self.known = [k for k in load_known() if k["property"] == pid]
        self.ties = {}                # name -> stats
        self.samples = []
        self.evaluations = 0
        self.nontrivial = set()
        self.dist = {}
        self.obligations = []
        self.discharged = 0
        self.axioms = {}
        self.notes = []
        self.cut = None
        self.cut_san = None
        self.exhaustive = False
        self.stall_s = 30             # an in-process request that is not answered within this long counts as a hang

    # ---- builds --------------------------------------------------------------------------------
    def build(self, sanitize=False):
        try:
            if sanitize:
                self.cut_san = common.build_cut(sanitize=True)
                return self.cut_san
            self.cut = common.build_cut()
            return self.cut
        except RuntimeError as e:
            self.violations.append({"kind": "build-broken", "summary": str(e)[:2000], "no_input": True})
            return None

    # ---- running ---------------------------------------------------------------------------------
    def impl(self, reqs, sanitize=False):
        cut = self.cut_san if sanitize else self.cut
        env = {"ASAN_OPTIONS": "detect_leaks=0:abort_on_error=0", "UBSAN_OPTIONS": "print_stacktrace=1"} if sanitize else None
        out, rc, err = common.run_lines(os.path.join(cut, "inproc"), reqs, env=env, stall=self.stall_s)
        if len(out) != len(reqs):
            # the harness died (crash / sanitizer abort) or stopped answering: the request it was working on
            k = len(out)
            what = (f"hang no answer within {self.stall_s}s" if rc == "hang"
                    else f"crash rc={rc} {err.strip().splitlines()[0] if err.strip() else ''}")
            if rc == "hang":
                # the requests after it are still owed an answer: run them without the one that hangs (three hangs are enough
                # to make the point; the rest of the batch is then left unanswered)
                self.hangs = getattr(self, "hangs", 0) + 1
                if self.hangs >= 3 or k + 1 >= len(reqs):
                    return out + [what] + ["skipped-after-crash"] * (len(reqs) - k - 1), k
                rest, k2 = self.impl(reqs[k + 1:], sanitize=sanitize)
                return out + [what] + rest, k
            return out + [what] + ["skipped-after-crash"] * (len(reqs) - k - 1), k
        return out, None

    def model(self, reqs):
        out, rc, err = common.run_lines(common.model_driver(), reqs)
        if len(out) != len(reqs):
            raise RuntimeError(f"model driver died rc={rc}: {err[:500]}")
        for q, y in zip(reqs, out):
            if y.startswith("bad-request"):
                raise RuntimeError(f"harness bug (model driver): {q[:200]} -> {y[:200]}")
        return out

    def tie(self, name, reqs, nontrivial=None, sanitize=False, key=None):
        """Run the same requests through the implementation and the model; record disagreements."""
        t = time.time()
        reqs = list(dict.fromkeys(reqs))  # distinct by construction
        ri, crashed_at = self.impl(reqs, sanitize=sanitize)
        rm = self.model(reqs)
        st = self.ties.setdefault(name, {"requests": 0, "disagreements": 0, "nontrivial": 0, "kinds": Counter()})
        dis = []
        for q, x, y in zip(reqs, ri, rm):
            st["requests"] += 1
            self.evaluations += 1
            st["kinds"][q.split(" ", 1)[0] + ":" + x.split(" ", 1)[0]] += 1
            if y.startswith("bad-request") or x.startswith("bad-request"):
                raise RuntimeError(f"harness bug: {q[:200]} -> {x[:200]} / {y[:200]}")
            if x == "skipped-after-crash":
                continue
            if nontrivial is None or nontrivial(q, x):
                st["nontrivial"] += 1
                self.nontrivial.add(hashlib.sha1(q.encode()).hexdigest())
            if x != y:
                st["disagreements"] += 1
                dis.append((q, x, y))
        st["wall_s"] = round(st.get("wall_s", 0) + time.time() - t, 2)
        if reqs and len(self.samples) < 6:
            i = self.rng.randrange(len(reqs))
            self.samples.append({"tie": name, "request": reqs[i][:600], "implementation": ri[i][:300], "model": rm[i][:300]})
        for q, x, y in dis[:50]:
            self.violations.append({"kind": "tie-broken", "tie": name, "request": q, "implementation": x, "model": y,
                                    "no_input": True,
                                    "summary": f"tie {name}: model and implementation disagree"})
        return reqs, ri, rm

    def oracle_fail(self, summary, data, tag=None):
        """An oracle verdict is false on the implementation's behaviour: a concrete failing input."""
        if tag and any(k["tag"] == tag for k in self.known):
            self.known_hits[tag] += 1
            return
        self.violations.append({"kind": "impl-violates", "summary": summary, **data})

    # ---- Lean side -----------------------------------------------------------------------------
    def lean(self, prop_modules):
        """Build the property's theorem files, audit them: no sorry/axiom anywhere in the library,
        `#print axioms` for every theorem of the property files."""
        t = time.time()
        if isinstance(prop_modules, str):
            prop_modules = [prop_modules]
        self.prop_modules = prop_modules
        if os.environ.get("VERIF_NOLEAN"):   # development only: never set by the registered commands
            self.notes.append("VERIF_NOLEAN set: Lean obligations NOT checked")
            if os.environ.get("VERIF_NOLEAN") == "skip":   # seeding experiments while proofs are being repaired: ties and oracles only
                return
            self.violations.append({"kind": "obligation-broken", "theorem": str(prop_modules), "no_input": True, "summary": "VERIF_NOLEAN set"})
            return
        mods = [f"PatchModel.Props.{m}" for m in prop_modules]
        ok, log = common.lake_build((*mods, "modeldriver"))
        names = []   # fully qualified
        for m in prop_modules:
            src = open(os.path.join(common.LEAN, "PatchModel", "Props", m + ".lean")).read()
            # fully qualified names: follow `namespace X` / `end X` (nested namespaces hold the non-vacuity examples)
            stack = []
            src = re.sub(r"/-.*?-/", lambda m_: "\n" * m_.group(0).count("\n"), src, flags=re.S)   # (comments may have lines starting with 'theorem')
            for line in src.splitlines():
                m = re.match(r"^namespace\s+(\S+)", line)
                if m:
                    stack.append(m.group(1)); continue
                m = re.match(r"^end\s+(\S+)", line)
                if m and stack and stack[-1] == m.group(1):
                    stack.pop(); continue
                m = re.match(r"^(?:private\s+|protected\s+)?theorem\s+([^\s(:{\[]+)", line)
                if m:
                    names.append(".".join(stack + [m.group(1)]))
        self.obligations = names
        if not ok:
            self.violations.append({"kind": "obligation-broken", "theorem": ",".join(mods), "no_input": True,
                                    "summary": "lake build failed: " + log[-1500:]})
            return
        # source audit over the whole library (comments stripped)
        bad = []
        for d, _, fs in os.walk(os.path.join(common.LEAN, "PatchModel")):
            for f in fs:
                if f.endswith(".lean"):
                    txt = open(os.path.join(d, f)).read()
                    txt = re.sub(r"/-.*?-/", "", txt, flags=re.S)
                    txt = re.sub(r"--.*", "", txt)
                    for mm in FORBIDDEN.finditer(txt):
                        bad.append(f"{f}: {mm.group(0)}")
        if bad:
            self.violations.append({"kind": "obligation-broken", "theorem": "source-audit", "no_input": True,
                                    "summary": "forbidden construct: " + ", ".join(bad[:10])})
        audit = os.path.join(common.WORK, f"Audit_{self.pid}.lean")
        with open(audit, "w") as fh:
            fh.write("".join(f"import {m}\n" for m in mods) + "".join(f"#print axioms {n}\n" for n in names))
        r = common.sh(["lake", "env", "lean", audit], cwd=common.LEAN)
        txt = (r.stdout + r.stderr).replace("\n", " ")
        disc = 0
        for n in names:
            m = re.search(r"'" + re.escape(n) + r"' (depends on axioms: \[([^\]]*)\]|does not depend on any axioms)", txt)
            if not m:
                self.violations.append({"kind": "obligation-broken", "theorem": n, "no_input": True,
                                        "summary": f"axiom audit found no result for {n}: {txt[-400:]}"})
                continue
            ax = set(a.strip() for a in (m.group(2) or "").split(",") if a.strip())
            self.axioms[n] = sorted(ax)
            if ax - TRUSTED_AXIOMS:
                self.violations.append({"kind": "obligation-broken", "theorem": n, "no_input": True,
                                        "summary": f"theorem {n} depends on untrusted axioms {sorted(ax - TRUSTED_AXIOMS)}"})
            else:
                disc += 1
        self.discharged = disc
        if self.tier == "thorough":
            for mod in mods:
                r = common.sh(["lake", "env", "leanchecker", mod], cwd=common.LEAN)
                self.notes.append(f"leanchecker {mod}: rc={r.returncode}")
                if r.returncode != 0:
                    self.violations.append({"kind": "obligation-broken", "theorem": mod, "no_input": True,
                                            "summary": "leanchecker rejected the module: " + (r.stdout + r.stderr)[-500:]})
        self.notes.append(f"lean build+audit {round(time.time() - t, 1)}s")

    # ---- verdict ---------------------------------------------------------------------------------
    def finish(self, rule, assumptions, trusted_extra=()):
        os.makedirs(os.path.join(common.VERIF, "evidence"), exist_ok=True)
        os.makedirs(os.path.join(common.VERIF, "replays"), exist_ok=True)
        concrete = [v for v in self.violations if not v.get("no_input")]
        noinput = [v for v in self.violations if v.get("no_input")]
        lines = []
        for tag, n in self.known_hits.items():
            k = next(k for k in self.known if k["tag"] == tag)
            lines.append(f"KNOWN-FINDING: property={self.pid} {k['what']} (tag {tag}, {n} inputs this run)")
        # stale-check: listed findings not seen this run are only noted
        for k in self.known:
            if k["tag"] not in self.known_hits:
                self.notes.append(f"known finding {k['tag']} not exercised this run")
                lines.append(f"KNOWN-FINDING: property={self.pid} {k['what']} (tag {k['tag']}, not exercised this run)")
        def write_replay(v):
            h = hashlib.sha1(json.dumps(v, sort_keys=True, default=str).encode()).hexdigest()[:12]
            rel = f"replays/{self.pid}-{h}.json"
            v = dict(v); v["property"] = self.pid; v["seed"] = self.seed; v["tier"] = self.tier
            v["how_to_replay"] = f"./check {self.pid} --replay {rel}"
            json.dump(v, open(os.path.join(common.VERIF, rel), "w"), indent=1, default=str)
            return rel
        if concrete:
            seen = set()
            for v in concrete[:5]:
                rel = write_replay(v)
                if v["summary"] in seen:
                    continue
                seen.add(v["summary"])
                lines.append(f"VIOLATION property={self.pid} replay={rel} {v['summary'][:160]}")
        elif noinput:
            v = noinput[0]
            v = dict(v); v["all_broken"] = [x.get("summary", "")[:200] for x in noinput[:20]]
            rel = write_replay(v)
            what = v.get("tie") or v.get("theorem") or v["kind"]
            lines.append(f"VIOLATION property={self.pid} replay={rel} {v['kind']} {what}: no-failing-input-found")
        ev = {
            "property_id": self.pid, "tier": self.tier, "seed": self.seed, "level": "proof",
            "coverage": {
                "obligations": len(self.obligations), "discharged": self.discharged,
                "checker_cmd": "cd lean && lake build " + " ".join("PatchModel.Props." + m for m in getattr(self, "prop_modules", [self.pid]))
                               + " && lake env lean .work/Audit_" + self.pid + ".lean  # generated: #print axioms for every theorem"
                               + (" && lake env leanchecker <each module>" if self.tier == "thorough" else ""),
                "trusted_base": ["Lean 4.33.0 kernel", "axioms: propext, Classical.choice, Quot.sound (no native_decide, no bv_decide, no sorry)",
                                 "hand-written Lean model tied to /repo by differential correspondence (sampled): " + ", ".join(sorted(self.ties)),
                                 *trusted_extra],
                "theorems": self.obligations, "axioms_per_theorem": self.axioms,
                "evaluations": self.evaluations, "distinct_nontrivial": len(self.nontrivial), "rule": rule,
                "samples": self.samples[:8],
                "ties": {k: {**v, "kinds": dict(v["kinds"])} for k, v in self.ties.items()},
                "input_distribution": self.dist, "exhaustive": self.exhaustive,
                "known_findings_hit": dict(self.known_hits), "notes": self.notes,
            },
            "assumptions": list(assumptions),
            "wall_s": round(time.time() - self.t0, 2),
            "violations": len(concrete) + (1 if (noinput and not concrete) else 0),
        }
        evdir = os.path.join(common.VERIF, "evidence")
        if os.environ.get("VERIF_NOLEAN") or os.environ.get("VERIF_COVERAGE"):
            evdir = os.path.join(common.WORK, "dev-evidence")     # development runs never overwrite the evidence of the registered commands
            os.makedirs(evdir, exist_ok=True)
        json.dump(ev, open(os.path.join(evdir, f"{self.pid}.json"), "w"), indent=1, default=str)
        for l in lines:
            print(l)
        bad = any(l.startswith("VIOLATION") for l in lines)
        print(f"{self.pid} {self.tier} seed={self.seed}: {'FAIL' if bad else 'ok'}; obligations {self.discharged}/{len(self.obligations)}, "
              f"{self.evaluations} evaluations, {len(self.nontrivial)} distinct non-trivial, {ev['wall_s']}s")
        return 1 if bad else 0
