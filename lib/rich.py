"""Rich driver scenarios for C04 / C15 / C16 / C17 / C18: drifted targets (offset, fuzz, rejects), option mixes, bystander files,
permission patterns, run both for real and with --dry-run, as root and as an unprivileged user."""
import re
import box, drv, scen, gen, strict


def drift_tree(rng, A, how):
    """returns drifted copy of A: 'offset' = lines inserted at the top, 'fuzz' = an outer context line changed, 'reject' = a changed line altered"""
    T = {}
    for p, (lines, mode) in A.items():
        l = list(lines)
        if how == "offset" and l:
            l = [(b"inserted%d" % i, "L") for i in range(rng.randint(1, 4))] + l
        elif how == "reject" and l:
            l = [(c + b"!", t) for c, t in l]
        elif how == "fuzz" and len(l) >= 1:
            i = rng.choice([0, len(l) - 1])
            l[i] = (l[i][0] + b"~", l[i][1])
        T[p] = (l, mode)
    return T


OPT_SETS = [[], [], [b"-b"], [b"-b", b"-z", b".bak"], [b"-b", b"-B", b"pre_"], [b"--posix"], [b"--no-backup-if-mismatch"], [b"--backup-if-mismatch", b"--posix"],
            [b"-F", b"0"], [b"-F", b"3"], [b"-N"], [b"-t"], [b"-f"], [b"--reject-format=unified"], [b"--reject-format=context"], [b"-l"], [b"--verbose"],
            [b"--read-only=ignore"], [b"--read-only=fail"], [b"-r", b"all.rej"], [b"-E"]]


def make(rng, P, quick, want=None):
    """one rich scenario: dict(tree, argv, text, A, B, T, ch, how, opts, prod, bystanders, modes)"""
    while True:
        ops = rng.choice([("modify",), ("modify",), ("modify", "create", "delete"), ("modify", "rename", "chmod", "create", "delete")])
        A, B, ch, prod, ctx, text = drv.make_case(rng, P, ops=ops, ctx=rng.choice([1, 2, 3, 3]))
        if drv.has_d2(text):
            continue
        how = want or rng.choice(["exact", "exact", "offset", "fuzz", "reject"])
        T = drift_tree(rng, A, how) if how != "exact" else dict(A)
        opts = list(rng.choice(OPT_SETS))
        # permission patterns
        modes = {}
        for p in T:
            m = rng.choice([T[p][1], T[p][1], 0o444, 0o400, 0o755, 0o640, 0o4755 & 0o777, 0o600])
            T[p] = (T[p][0], m); modes[p] = m
        tree = drv.tree_with_patch(T, text)
        bystanders = {}
        for p in list(T)[:2]:
            d = p.rsplit(b"/", 1)
            base = d[-1]
            for q in (b"other/" + base, p + b"x", p + b".keep", b"zz/" + base + b".orig"):
                if q not in tree and not any(q.startswith(t + b"/") or t.startswith(q + b"/") for t in tree):
                    tree[q] = ("f", b"bystander " + q + b"\n", 0o644); bystanders[q] = tree[q]
        if rng.random() < 0.25 and T:
            p = sorted(T)[0]
            for suf in (b".orig", b".rej"):
                if p + suf not in tree:
                    tree[p + suf] = ("f", b"pre-existing " + suf + b"\n", 0o644)
        if b"-B" in opts:
            # the prefix is put in front of the whole path: make sure the directories that yields exist
            for p in list(T) + list(B):
                if b"/" in p:
                    tree[b"pre_" + p.rsplit(b"/", 1)[0]] = ("d", 0o755)
        return dict(tree=tree, argv=opts + [b"-p1", b"-i", drv.PATCHNAME], text=text, A=A, B=B, T=T, ch=ch, how=how, opts=opts, prod=prod,
                    bystanders=bystanders, modes=modes, ctx=ctx)


def describe(c, r):
    return {"tree": {p.decode("latin1"): (v[1].hex() if v[0] == "f" else v[0]) for p, v in c["tree"].items() if p != drv.PATCHNAME},
            "modes": {p.decode("latin1"): oct(m) for p, m in c["modes"].items()},
            "patch_hex": c["text"].hex(), "argv": [a.decode("latin1") for a in c["argv"]], "how": c["how"], "producer": c["prod"],
            "exit": r.exit, "stdout": r.stdout.decode("latin1")[-800:], "stderr": r.stderr.decode("latin1")[-300:]}


def sections(out: bytes):
    """split sb_patch output per target: [(name, [events])]"""
    secs = []
    for e in drv.verdicts(out):
        if e[0] == "file":
            name = re.sub(rb" \((renamed|copied|read|already renamed) from .*\)$", b"", e[1])
            secs.append((name, []))
        elif secs:
            secs[-1][1].append(e)
        else:
            secs.append((None, [e]))
    return secs
