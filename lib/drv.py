"""Driver-level machinery shared by the property checks: scenario construction, parallel runs of sb_patch in scratch trees,
parsing of what it prints."""
import re, os
from concurrent.futures import ThreadPoolExecutor
import box, scen, gen, emit, common

PATCHNAME = b"__patch.diff"


def text_only(lines):
    # no NUL / 0xff (git calls such files binary), no content ending in CR (a text diff can not tell "a\r"+LF from "a"+CRLF)
    return [(c, t) for c, t in lines if b"\x00" not in c and b"\xff" not in c and not c.endswith(b"\r")]


def make_case(rng, P, ops=("modify",), producer=None, ctx=None, lf_only=True, nfiles=None, plain_names=True):
    """(A, B, ch, producer, ctx, patch text, argv-prefix) for a tree pair"""
    while True:
        A, B, ch = scen.rand_tree_pair(rng, nfiles=nfiles, ops=ops, plain_names=plain_names)
        clean = lambda T: {p: ([(c, ("L" if (lf_only and t == "C") else t)) for c, t in text_only(l)], m) for p, (l, m) in T.items()}
        A, B = clean(A), clean(B)
        A = {p: v for p, v in A.items()}
        # files must stay non-degenerate after cleaning
        if any(not l and ch.get(p) != "delete-empty" for p, (l, m) in A.items()) or any(not l and ch.get(p) != "create-empty" for p, (l, m) in B.items()):
            continue
        if any(p in B and A[p][0] == B[p][0] and A[p][1] == B[p][1] for p in A):
            continue
        break
    producer = producer or rng.choice(["gnu-u", "gnu-c", "git", "emit-u", "emit-c"])
    if any(k in ("rename", "chmod", "create-empty", "delete-empty", "copy-to") for k in ch.values()):
        producer = "git"
    ctx = ctx if ctx is not None else rng.choice([0, 1, 2, 3, 3])
    if producer == "gnu-u": text = P.gnu_tree(A, B, "u", ctx)
    elif producer == "gnu-c": text = P.gnu_tree(A, B, "c", ctx)
    elif producer == "git": text = P.git_tree(A, B, ch, ctx)
    else:
        text = b""
        for p in sorted(set(A) | set(B)):
            a = A.get(p, ([], 0))[0]; b = B.get(p, ([], 0))[0]
            hs = gen.make_hunks(a, b, ctx)
            old = b"a/" + p; new = b"b/" + p
            ts0 = b"1970-01-01 00:00:00.000000000 +0000"; ts = b"2020-01-01 00:00:00.000000000 +0000"
            if producer == "emit-u":
                text += b"diff -u " + old + b" " + new + b"\n" + emit.unified_text(hs, old, new, ts0 if p not in A else ts, ts0 if p not in B else ts)
            else:
                text += b"diff -c " + old + b" " + new + b"\n" + emit.context_text(hs, old, new, ts0 if p not in A else ts, ts0 if p not in B else ts)
    return A, B, ch, producer, ctx, text


def has_d2(text):
    """known finding D2: a zero-context insertion stated at line 0 into a file that is not created by the patch"""
    secs = re.split(rb"(?m)^(?=diff |--- |\*\*\* [^\n]*\n--- )", text)
    for s in secs:
        creates = b"/dev/null" in s.split(b"@@")[0] or b"1970-01-01" in s.split(b"\n@@")[0] or b"Jan  1 00:00:00 1970" in s[:300] or b"new file mode" in s
        if not creates and (re.search(rb"(?m)^@@ -0,0 \+", s) or re.search(rb"(?m)^\*\*\* 0 \*\*\*\*", s) or re.search(rb"(?m)^0a\d", s)):
            return True
    return False


def run_many(jobs, workers=16):
    """jobs: list of dict(cut, tree, argv, **kw) -> list of box.Result"""
    def one(j):
        j = dict(j)
        return box.run(j.pop("cut"), j.pop("tree"), j.pop("argv"), **j)
    if os.environ.get("VERIF_COVERAGE"):
        workers = 1      # (gcov counters are merged into one file per object: one writer at a time)
    with ThreadPoolExecutor(workers) as ex:
        res = list(ex.map(one, jobs))
    # a run that hit its time limit while 16 others were running is repeated alone with three times the limit before it counts
    # (a loaded machine must not look like a hang); at most 12 repeats per batch
    redo = [i for i, r in enumerate(res) if getattr(r, "timeout", False)][:12]
    for i in redo:
        j = dict(jobs[i]); j["timeout"] = 3 * j.get("timeout", 8)
        res[i] = one(j)
    return res


HUNK_RE = re.compile(rb"^Hunk #(\d+) (succeeded|FAILED|skipped) at (-?\d+)(?: with fuzz (\d+))?(?: \(offset (-?\d+) lines?\))?\.$")
FAIL_RE = re.compile(rb"^(\d+) out of (\d+) hunks? (FAILED|ignored)(?: -- saving rejects to file (.*))?$")


def verdicts(out: bytes):
    """structured events from sb_patch's output: per-file sections with hunk verdicts and summaries"""
    ev = []
    # questions are printed without a newline after them: what follows an answer starts on the question's line
    out = re.sub(rb"\? \[[yn]\] ", b"? [.]\n", out).replace(b"File to patch: ", b"File to patch:\n")
    for line in out.split(b"\n"):
        m = HUNK_RE.match(line)
        if m:
            ev.append(("hunk", int(m.group(1)), m.group(2).decode(), int(m.group(3)), int(m.group(4) or 0), int(m.group(5) or 0))); continue
        m = FAIL_RE.match(line)
        if m:
            ev.append(("failed", int(m.group(1)), int(m.group(2)), m.group(3).decode(), m.group(4))); continue
        m = re.match(rb"^(patching|checking) (file|symbolic link) (.*)$", line)
        if m:
            ev.append(("file", m.group(3))); continue
        for key, tag in ((b"Reversed (or previously applied) patch detected!", "reversed"), (b"Unreversed patch detected!", "unreversed"),
                         (b"Skipping patch.", "skipping"), (b"Assuming -R.", "assuming-R"), (b"can't find file to patch", "cant-find"),
                         (b"Not deleting file", "not-deleting"), (b"is read-only", "read-only"), (b"refusing to patch", "refusing"),
                         (b"Ignoring the trailing garbage", "garbage"), (b"git binary diffs are not supported", "binary")):
            if key in line:
                ev.append((tag,))
    return ev


def asked(r):
    return bool(re.search(rb"\? \[[yn]\] |File to patch: ", r.stdout + r.stderr))


def files(snap, drop=(PATCHNAME,)):
    return {p: (v[1], v[2]) for p, v in snap.items() if v[0] == "f" and p not in drop}


def contents(snap, drop=(PATCHNAME,)):
    return {p: v[1] for p, v in snap.items() if v[0] == "f" and p not in drop}


def tree_with_patch(T, text, extra=None):
    t = scen.to_box_tree(T)
    t[PATCHNAME] = ("f", text, 0o644)
    if extra:
        t.update(extra)
    return t
