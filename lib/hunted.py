"""Fixed scenarios that came out of the second round (seeding agents' remarks, hunter agents, proof attempts): one per defect, each with the
oracle of the property it belongs to. A scenario for a defect that was FIXED fails on the code before the fix (regression); a scenario for a
defect that is RECORDED carries the tag of its entry in KNOWN_FINDINGS.txt, so the check prints KNOWN-FINDING for it and still alarms on
anything else. Used by the property checks: `hunted.run(R, "C04")`.
Scenario: dict(prop, name, tree {path: bytes | (bytes, mode) | ("d", mode) | ("l", target)}, argv, stdin=b"", expect(r) -> None | str, tag=None,
also=[second run argv ...])."""
import box, drv

L5 = b"l1\nl2\nl3\nl4\nl5\n"
L10 = b"".join(b"l%d\n" % i for i in range(1, 11))


def files(r):
    return {p: v[1] for p, v in r.after.items() if v[0] == "f" and p != b"p.diff"}


def mode(r, p):
    return r.after[p][2] if p in r.after else None


def u(name, old, new, start=1, name2=None):
    """a one-hunk unified section replacing the lines `old` by `new` at `start`"""
    o = b"".join(b"-" + l + b"\n" for l in old); n = b"".join(b"+" + l + b"\n" for l in new)
    rng = lambda s, c: (b"%d" % s if c == 1 else b"%d,%d" % (s if c else s - 1, c))
    return b"--- " + name + b"\n+++ " + (name2 or name) + b"\n@@ -" + rng(start, len(old)) + b" +" + rng(start, len(new)) + b" @@\n" + o + n


def git_rename(a, b):
    return b"diff --git a/" + a + b" b/" + b + b"\nsimilarity index 100%\nrename from " + a + b"\nrename to " + b + b"\n"


def _exp(cond, msg):
    return None if cond else msg


SCENARIOS = [
    # ---- fixed in round two -----------------------------------------------------------------------------------------------------------
    dict(prop="C05", name="D46 -R of two files swapped by git renames", tree={b"a": b"B\n", b"b": b"A\n"}, argv=[b"-R", b"-p1", b"-i", b"p.diff"],
         patch=git_rename(b"a", b"b") + git_rename(b"b", b"a"),
         expect=lambda r: _exp(r.exit == 0 and files(r) == {b"a": b"A\n", b"b": b"B\n"}, f"-R of a swap does not swap back (exit {r.exit}, files {files(r)})")),
    dict(prop="C05", name="D46 -R of files moved along a chain", tree={b"b": b"A\n", b"c": b"B\n"}, argv=[b"-R", b"-p1", b"-i", b"p.diff"],
         patch=git_rename(b"a", b"b") + git_rename(b"b", b"c"),
         expect=lambda r: _exp(r.exit == 0 and files(r) == {b"a": b"A\n", b"b": b"B\n"}, f"-R of a rename chain does not move the files back (exit {r.exit}, files {files(r)})")),
    dict(prop="C09", name="D47 -b with a git rename that edits", tree={b"old.txt": L5}, argv=[b"-b", b"-p1", b"-i", b"p.diff"],
         patch=b"diff --git a/old.txt b/new.txt\nsimilarity index 80%\nrename from old.txt\nrename to new.txt\n--- a/old.txt\n+++ b/new.txt\n@@ -1,5 +1,5 @@\n l1\n l2\n-l3\n+L3\n l4\n l5\n",
         expect=lambda r: _exp(r.exit == 0 and L5 in (files(r).get(b"old.txt"), files(r).get(b"old.txt.orig")),
                               f"with --backup the original content of the renamed file is neither at its path nor at its backup path (files {sorted(files(r))})")),
    dict(prop="C01", name="D48 first body line reads '--- x'", tree={b"f": b"-- x\n1\n2\n3\n4\n5\n6\n7\n8\n9\n"}, argv=[b"-i", b"p.diff"],
         patch=b"--- f\t2020\n+++ f\t2021\n@@ -1,2 +1 @@\n--- x\n 1\n@@ -9,2 +8,2 @@\n 8\n-9\n+nine\n",
         expect=lambda r: _exp(r.exit == 0 and files(r).get(b"f") == b"1\n2\n3\n4\n5\n6\n7\n8\nnine\n", f"a hunk whose first line removes '-- x' was not applied (exit {r.exit}, f = {files(r).get(b'f')!r})")),
    dict(prop="C01", name="D48 first body line reads '+++ y'", tree={b"f": b"1\n2\n"}, argv=[b"-i", b"p.diff"],
         patch=b"--- f\t2020\n+++ f\t2021\n@@ -1,2 +1,3 @@\n+++ y\n 1\n 2\n",
         expect=lambda r: _exp(r.exit == 0 and files(r).get(b"f") == b"++ y\n1\n2\n", f"a hunk whose first line adds '++ y' was not applied (exit {r.exit}, f = {files(r).get(b'f')!r})")),
    dict(prop="C13", name="D49 CRLF lines in a reject", tree={b"f": b"a\r\nX\r\nc\r\n"}, argv=[b"-f", b"--newline-output=preserve", b"-i", b"p.diff"],
         patch=b"--- f\n+++ f\n@@ -1,3 +1,3 @@\n a\r\n-b\r\n+B\r\n c\r\n",
         expect=lambda r: _exp(r.exit == 1 and b" a\r\n-b\r\n+B\r\n c\r\n" in files(r).get(b"f.rej", b""), "the reject file does not carry the CRLF line ends of the failed hunk's lines")),
    dict(prop="C12", name="D50 -p0 git rename", tree={b"a/dir/old": b"right\n", b"a/old": b"wrong\n"}, argv=[b"-p0", b"-i", b"p.diff"],
         patch=b"diff --git a/dir/old b/dir/new\nsimilarity index 100%\nrename from dir/old\nrename to dir/new\n",
         expect=lambda r: _exp(r.exit == 0 and files(r) == {b"a/old": b"wrong\n", b"b/dir/new": b"right\n"}, f"-p0: a git rename from dir/old operated on {sorted(files(r))} (exit {r.exit})")),
    dict(prop="C12", name="D51 git header name containing ' b/'", tree={b"x b/y": (b"hello\n", 0o644), b"x": (b"other\n", 0o644)}, argv=[b"-p1", b"-i", b"p.diff"],
         patch=b"diff --git a/x b/y b/x b/y\nold mode 100644\nnew mode 100755\n",
         expect=lambda r: _exp(r.exit == 0 and mode(r, b"x b/y") == 0o755 and mode(r, b"x") == 0o644, f"mode change for 'x b/y' went to the wrong file (exit {r.exit}, x {oct(mode(r, b'x') or 0)}, 'x b/y' {oct(mode(r, b'x b/y') or 0)})")),
    dict(prop="C04", name="D52 two failing sections for one file", tree={b"f": L10}, argv=[b"-f", b"-F0", b"-i", b"p.diff"],
         patch=u(b"f", [b"TWO"], [b"two"], 2) + u(b"f", [b"EIGHT"], [b"eight"], 8),
         expect=lambda r: _exp(r.exit == 1 and files(r).get(b"f.rej", b"").count(b"@@ -") == 2, "two sections for one file each fail a hunk: the reject file does not hold both hunks")),
    dict(prop="C04", name="D52 -r with two failing targets", tree={b"a": L5, b"b": L5}, argv=[b"-f", b"-F0", b"-r", b"all.rej", b"-i", b"p.diff"],
         patch=u(b"a", [b"TWO"], [b"two"], 2) + u(b"b", [b"FOUR"], [b"four"], 4),
         expect=lambda r: _exp(r.exit == 1 and files(r).get(b"all.rej", b"").count(b"@@ -") == 2, "-r FILE with two failing targets: the reject file does not hold both hunks")),
    dict(prop="C14", name="D53 patch without its final newline (unified)", tree={b"f": b"a\nb\n"}, argv=[b"-f", b"-i", b"p.diff"],
         patch=b"--- f\n+++ f\n@@ -1,2 +1,3 @@\n a\n b\n+c",
         expect=lambda r: _exp(r.exit == 0 and files(r).get(b"f") == b"a\nb\nc\n", f"an added line not marked '\\ No newline' was written without a terminator: {files(r).get(b'f')!r}")),
    dict(prop="C14", name="D53 patch without its final newline (normal, glued)", tree={b"f": b"a\nb\nz\n"}, argv=[b"-f", b"f", b"p.diff"],
         patch=b"2a3\n> c",
         expect=lambda r: _exp(r.exit == 0 and files(r).get(b"f") == b"a\nb\nc\nz\n", f"an added line was joined with the next line: {files(r).get(b'f')!r}")),
    dict(prop="C14", name="D53 patch without its final newline (context)", tree={b"f": b"a\nb\nc\n"}, argv=[b"-f", b"-i", b"p.diff"],
         patch=b"*** f\n--- f\n***************\n*** 2 ****\n! b\n--- 2 ----\n! B",
         expect=lambda r: _exp(r.exit == 0 and files(r).get(b"f") == b"a\nB\nc\n", f"the last line of a context hunk was dropped: {files(r).get(b'f')!r}")),
    dict(prop="C19", name="D55 numeric argument with leading white space", tree={b"f": b"a\n"}, argv=[b"-f", b"-p", b" 1", b"-i", b"p.diff"],
         patch=b"--- a/f\n+++ b/f\n@@ -1 +1 @@\n-a\n+b\n",
         expect=lambda r: _exp(r.exit == 2 and files(r).get(b"f") == b"a\n", f"-p ' 1' was accepted (exit {r.exit})")),
    dict(prop="C04", name="D61 deleting './f' then another section", no_tie="the model does not normalise './'", tree={b"f": b"x\n", b"keep": b"k\n"}, argv=[b"-p0", b"-i", b"p.diff"],
         patch=b"--- ./f\n+++ /dev/null\n@@ -1 +0,0 @@\n-x\n" + u(b"keep", [b"k"], [b"K"]),
         expect=lambda r: _exp(r.exit == 0 and files(r) == {b"keep": b"K\n"}, f"removing './f' was fatal or the next section was not applied (exit {r.exit}, {r.stderr[-80:]!r})")),
    dict(prop="C18", name="D62 -B with a directory that does not exist", tree={b"d/f": L5}, argv=[b"-b", b"-B", b"bak/", b"-p0", b"-i", b"p.diff"],
         patch=u(b"d/f", [b"l3"], [b"L3"], 3),
         expect=lambda r: _exp(r.exit == 0 and files(r).get(b"bak/d/f") == L5, f"backup prefix 'bak/': no backup bak/d/f with the old bytes (exit {r.exit}, {r.stderr[-80:]!r})")),
    dict(prop="C04", name="D63 -f with a section whose file can not be found", tree={b"g": L5}, argv=[b"-f", b"-i", b"p.diff"],
         patch=u(b"nosuch", [b"l3"], [b"L3"], 3) + u(b"g", [b"l3"], [b"L3"], 3),
         expect=lambda r: _exp(r.exit == 1 and files(r).get(b"g") == L5.replace(b"l3", b"L3"), f"-f: a section without a file must be skipped (exit 1) and the next one applied (exit {r.exit})")),
    dict(prop="C16", name="D64 -o with a git rename", tree={b"f": L5}, argv=[b"-o", b"out", b"-p1", b"-i", b"p.diff"],
         patch=git_rename(b"f", b"g"),
         expect=lambda r: _exp(files(r).get(b"f") == L5, "-o out: the file that was read was removed")),
    dict(prop="C04", name="D65 refused section without hunks", tree={b"f": (L5, 0o444)}, argv=[b"--read-only=fail", b"-p1", b"-i", b"p.diff"],
         patch=b"diff --git a/f b/f\nold mode 100444\nnew mode 100755\n",
         expect=lambda r: _exp(r.exit == 1 and b"f.rej" not in files(r), f"a reject file exists although no hunk failed (exit {r.exit})")),
    dict(prop="C01", name="D66 last line ends in a bare CR", tree={b"f": b"a\nb\n"}, argv=[b"--newline-output=preserve", b"-i", b"p.diff"],
         patch=b"--- f\n+++ f\n@@ -1,2 +1,2 @@\n a\n-b\n+b\r\n\\ No newline at end of file\n",
         expect=lambda r: _exp(r.exit == 0 and files(r).get(b"f") == b"a\nb\r", f"new last line 'b\\r' without newline: got {files(r).get(b'f')!r}")),
    dict(prop="C07", name="D74 normal command whose new range ends before it starts", tree={b"f": b"a\nb\nc\nd\ne\nf\ng\n"}, argv=[b"--verbose", b"-f", b"-i", b"p.diff", b"f"],
         patch=b"".join(b"%dd2305843009213693951,0\n< %c\n" % (k, 96 + k) for k in range(1, 7)),
         expect=lambda r: _exp(b"succeeded at -9223372036854775" not in r.stdout and not __import__("re").search(rb"succeeded at [0-9]{15,}", r.stdout), "line arithmetic overflowed (absurd 'succeeded at' line numbers)")),
    dict(prop="C17", name="D75 Prereq under -p1", tree={b"f": b"version 1.0\none\ntwo\nthree\n"}, argv=[b"--batch", b"-p1", b"-i", b"p.diff"],
         patch=b"Prereq: 9.9\n--- a/f\n+++ b/f\n@@ -2,3 +2,3 @@\n one\n-two\n+TWO\n three\n",
         expect=lambda r: _exp(r.exit == 2 and files(r).get(b"f") == b"version 1.0\none\ntwo\nthree\n", f"Prereq text missing under --batch -p1: the run must abort and leave the file alone (exit {r.exit})")),
    dict(prop="C17", name="D76 git rename onto a FIFO", tree={b"f": L5, b"node": ("p", 0o644)}, argv=[b"-b", b"-p1", b"-i", b"p.diff"],
         patch=git_rename(b"f", b"node"),
         expect=lambda r: _exp(r.exit == 1 and r.after.get(b"node", ("?",))[0] == "p" and files(r).get(b"f") == L5, f"rename onto a FIFO was not refused (exit {r.exit}, node is now {r.after.get(b'node', ('gone',))[0]})")),
    dict(prop="C17", name="D77 target is a symbolic link to a file", tree={b"real": L5, b"f": ("l", b"real")}, argv=[b"-b", b"-i", b"p.diff"],
         patch=u(b"f", [b"l3"], [b"L3"], 3),
         expect=lambda r: _exp(r.exit == 1 and files(r).get(b"real") == L5 and r.after.get(b"f", ("?",))[0] == "l", f"a symbolic link target was not refused (exit {r.exit})")),
    dict(prop="C11", name="D78 patch file that can be read but not written", tree={b"f": L5}, argv=[b"-i", b"p.diff"], uid=65534, patch_mode=0o444, patch_owner_root=True,
         patch=u(b"f", [b"l3"], [b"L3"], 3),
         expect=lambda r: _exp(r.exit == 0, f"-i with a patch file the user may only read: exit {r.exit} {r.stderr[-80:]!r} (the same bytes on standard input work)")),
    dict(prop="C01", name="D79 git patch that empties a file without deleting it", tree={b"f": b"x\n"}, argv=[b"-p1", b"-i", b"p.diff"],
         patch=b"diff --git a/f b/f\nindex 587be6b..e69de29 100644\n--- a/f\n+++ b/f\n@@ -1 +0,0 @@\n-x\n",
         expect=lambda r: _exp(r.exit == 0 and files(r).get(b"f") == b"", f"the emptied file must stay (0 bytes): {'gone' if b'f' not in files(r) else files(r)[b'f']!r}")),
    dict(prop="C03", name="D82 context-free removal whose lines have moved (-t)", tree={b"f": b"a\nb\nc\nx\nd\ne\nf\n"}, argv=[b"-t", b"-i", b"p.diff"],
         patch=b"--- f\n+++ f\n@@ -4,2 +3,0 @@\n-d\n-e\n",
         expect=lambda r: _exp(r.exit == 0 and files(r).get(b"f") == b"a\nb\nc\nx\nf\n", f"a hunk found one line further down was not applied there (exit {r.exit}, f = {files(r).get(b'f')!r})")),
    dict(prop="C03", name="D82 context-free removal whose lines have moved (no terminal)", tree={b"f": b"a\nb\nc\nx\nd\ne\nf\n"}, argv=[b"-i", b"p.diff"],
         patch=b"--- f\n+++ f\n@@ -4,2 +3,0 @@\n-d\n-e\n",
         expect=lambda r: _exp(r.exit == 0 and files(r).get(b"f") == b"a\nb\nc\nx\nf\n", f"a question was asked about a hunk that can be placed (exit {r.exit})")),
    dict(prop="C09", name="D81 damaged new half of a context hunk with changed lines", tree={b"f": b"c\na\nb\nb\nb\na\n"}, argv=[b"-f", b"-i", b"p.diff"],
         patch=b"*** f\n--- f\n***************\n*** 2,5 ****\n  a\n! b\n! b\n  b\n--- 2,4 ----\nX a\n! }\n  b\n",
         expect=lambda r: _exp(r.exit == 2 and files(r).get(b"f") == b"c\na\nb\nb\nb\na\n", f"the damaged hunk was applied as a removal of its changed lines (exit {r.exit}, f = {files(r).get(b'f')!r})")),
    # ---- fixed in round three (hunters d and e on the tree after round two) ---------------------------------------------------------------
    dict(prop="C14", name="D85 CRLF patch without its final newline", tree={b"f": b"a\r\nb\r\n"}, argv=[b"--newline-output=crlf", b"-i", b"p.diff"],
         patch=b"--- f\n+++ f\n@@ -1,2 +1,3 @@\r\n a\r\n b\r\n+c\r",
         expect=lambda r: _exp(r.exit == 0 and files(r) == {b"f": b"a\r\nb\r\nc\r\n"}, f"the CR left of the cut-off CRLF became part of the line (exit {r.exit}, files {files(r)})")),
    dict(prop="C14", name="D85 CRLF context diff without its final newline", tree={b"f": b"a\r\nb\r\nc\r\n"}, argv=[b"--newline-output=preserve", b"-i", b"p.diff"],
         patch=b"*** f\n--- f\n***************\n*** 1,3 ****\r\n  a\r\n! b\r\n  c\r\n--- 1,3 ----\r\n  a\r\n! B\r\n  c\r",
         expect=lambda r: _exp(r.exit == 0 and files(r) == {b"f": b"a\r\nB\r\nc\r\n"}, f"a CRLF context diff cut off before its last newline is not applied cleanly (exit {r.exit}, files {files(r)})")),
    dict(prop="C12", name="D89 \\r and \\a in a quoted name", tree={b"x\ry\x07": b"one\n"}, argv=[b"-i", b"p.diff"],
         patch=b'--- "x\\ry\\a"\n+++ "x\\ry\\a"\n@@ -1 +1 @@\n-one\n+ONE\n',
         expect=lambda r: _exp(r.exit == 0 and files(r) == {b"x\ry\x07": b"ONE\n"}, f"a name quoted with \\r and \\a is not patched (exit {r.exit}, {r.stderr[-80:]!r})")),
    dict(prop="C11", name="D90 Prereq word starting with a double quote", tree={b"f": b'version "1.2\none\n'}, argv=[b"-i", b"p.diff"],
         patch=b'Prereq: "1.2\n--- f\n+++ f\n@@ -1,2 +1,2 @@\n version "1.2\n-one\n+ONE\n',
         expect=lambda r: _exp(r.exit == 0 and files(r) == {b"f": b'version "1.2\nONE\n'}, f"a Prereq word starting with a quote ends the run (exit {r.exit}, {r.stderr[-80:]!r})")),
    dict(prop="C04", name="D91 empty parent directory that may not be removed", no_tie="the model does not check the permissions of directories", tree={b"top": ("d", 0o555), b"top/d": ("d", 0o777), b"top/d/f": b"hello\n", b"g": b"one\ntwo\nthree\n"},
         argv=[b"-p0", b"-i", b"p.diff"], uid=65534,
         patch=b"--- top/d/f\n+++ /dev/null\n@@ -1 +0,0 @@\n-hello\n" + u(b"g", [b"two"], [b"TWO"], 2),
         expect=lambda r: _exp(r.exit == 0 and files(r) == {b"g": b"one\nTWO\nthree\n"}, f"rmdir failing with EACCES ends the run: the later section is neither applied nor rejected (exit {r.exit}, files {files(r)})")),
    dict(prop="C15", name="D91 dry run and an empty parent directory that may not be removed", no_tie="the model does not check the permissions of directories", tree={b"top": ("d", 0o555), b"top/d": ("d", 0o777), b"top/d/f": b"hello\n"},
         argv=[b"-p0", b"-i", b"p.diff"], uid=65534, dry=True,
         patch=b"--- top/d/f\n+++ /dev/null\n@@ -1 +0,0 @@\n-hello\n", expect=lambda r: None),
    dict(prop="C09", name="D31 --backup and a git stream whose last section is cut off", tree={b"a.txt": b"one\ntwo\nthree\n", b"c.txt": b"x\ny\nz\n"}, argv=[b"--backup", b"-p1", b"-i", b"p.diff"],
         patch=b"diff --git a/a.txt b/a.txt\n--- a/a.txt\n+++ b/a.txt\n@@ -1,3 +1,3 @@\n one\n-two\n+TWO\n three\ndiff --git a/c.txt b/c.txt\n--- a/c.txt\n+++ b/c.txt\n@@ -1,3 +1,3 @@\n x\n-y\n+Y\n",
         expect=lambda r: _exp(r.exit != 2 or (files(r).get(b"a.txt") in (b"one\ntwo\nthree\n", b"one\nTWO\nthree\n") and files(r).get(b"c.txt") == b"x\ny\nz\n"),
                               f"after the abort a.txt is {'missing' if b'a.txt' not in files(r) else 'neither old nor new'} (tree {sorted(files(r))})")),
    dict(prop="C17", name="D92 git patch deleting a symbolic link", tree={b"by": b"content\n", b"l": ("l", b"by")}, argv=[b"-p1", b"--no-backup-if-mismatch", b"-i", b"p.diff"],
         patch=b"diff --git a/l b/l\ndeleted file mode 120000\nindex 1234567..0000000\n--- a/l\n+++ /dev/null\n@@ -1 +0,0 @@\n-by\n\\ No newline at end of file\n",
         expect=lambda r: _exp(r.exit != 0 and r.after.get(b"by") == r.before.get(b"by") and r.after.get(b"l", ("?",))[0] == "l",
                               f"a patch about a symbolic link was applied to the file the link points to (exit {r.exit}, by touched: {r.after.get(b'by') != r.before.get(b'by')}, l is now {r.after.get(b'l', ('gone',))[0]})")),
    dict(prop="C16", name="D92 -R of the creation of a symbolic link", tree={b"real": b"data\n", b"l": ("l", b"real")}, argv=[b"-R", b"-p1", b"-i", b"p.diff"],
         patch=b"diff --git a/l b/l\nnew file mode 120000\nindex 0000000..1234567\n--- /dev/null\n+++ b/l\n@@ -0,0 +1 @@\n+real\n\\ No newline at end of file\n",
         expect=lambda r: _exp(r.exit != 0 and r.after.get(b"real") == r.before.get(b"real") and r.after.get(b"l", ("?",))[0] == "l" and b"l.orig" not in r.after,
                               f"-R of a link creation read and replaced the link by a copy of what it points to (exit {r.exit}, tree {sorted(r.after)})")),
    dict(prop="C17", name="D93 backup of a read-only file", tree={b"f": (L5, 0o444)}, argv=[b"-b", b"-i", b"p.diff"],
         patch=u(b"f", [b"l3"], [b"L3"], 3),
         expect=lambda r: _exp(r.exit == 0 and mode(r, b"f") == 0o444 and mode(r, b"f.orig") == 0o444 and files(r).get(b"f.orig") == L5,
                               f"the backup of a file with mode 0444 has mode {oct(mode(r, b'f.orig') or 0)} (file {oct(mode(r, b'f') or 0)}, exit {r.exit})")),
    dict(prop="C17", name="D93 backup fails for a read-only file", tree={b"f": (L5, 0o440), b"f.orig": ("d", 0o755), b"f.orig/x": b"x\n"}, argv=[b"-b", b"-i", b"p.diff"],
         patch=u(b"f", [b"l3"], [b"L3"], 3),
         expect=lambda r: _exp(r.exit == 2 and mode(r, b"f") == 0o440 and files(r).get(b"f") == L5, f"the run gave up (exit {r.exit}) and left the untouched file with mode {oct(mode(r, b'f') or 0)}")),
    dict(prop="C17", name="D94 file its owner may not write (mode 0464)", tree={b"f": (L5, 0o464)}, argv=[b"-i", b"p.diff"], uid=65534,
         patch=u(b"f", [b"l3"], [b"L3"], 3),
         expect=lambda r: _exp(r.exit == 0 and mode(r, b"f") == 0o464 and files(r).get(b"f") == L5.replace(b"l3", b"L3"), f"a file with mode 0464 is not patched by its owner (exit {r.exit}, {r.stderr[-80:]!r})")),
    dict(prop="C17", name="D94 --read-only=fail and mode 0464", tree={b"f": (L5, 0o464)}, argv=[b"--read-only=fail", b"-i", b"p.diff"], uid=65534,
         patch=u(b"f", [b"l3"], [b"L3"], 3),
         expect=lambda r: _exp(r.exit == 1 and mode(r, b"f") == 0o464 and files(r).get(b"f") == L5, f"--read-only=fail does not refuse a file its owner may not write (exit {r.exit})")),
    dict(prop="C06", name="D88 removal applied a second time with -N", tree={b"keep": b"k\n"}, argv=[b"-N", b"-i", b"p.diff"],
         patch=b"--- f\n+++ /dev/null\n@@ -1,2 +0,0 @@\n-a\n-b\n",
         expect=lambda r: _exp(r.exit == 1 and b"f" not in r.after and b"f.rej" in r.after and b"ignored" in r.stdout,
                               f"re-running the removal of a file with -N: exit {r.exit}, tree {sorted(r.after)}, {r.stderr[-60:]!r}")),
    dict(prop="C06", name="D88 removal applied a second time with -t", tree={b"keep": b"k\n"}, argv=[b"-t", b"-i", b"p.diff"],
         patch=b"--- f\n+++ /dev/null\n@@ -1,2 +0,0 @@\n-a\n-b\n",
         expect=lambda r: _exp(r.exit == 0 and files(r).get(b"f") == b"a\nb\n", f"re-running the removal of a file with -t does not restore it (exit {r.exit}, tree {sorted(r.after)})")),
    dict(prop="C14", name="D97 line added after a last line without newline (normal diff)", tree={b"f": b"a\nb\nc"}, argv=[b"-i", b"p.diff", b"f"],
         patch=b"3a4\n> d\n",
         expect=lambda r: _exp(r.exit == 0 and files(r).get(b"f") == b"a\nb\nc\nd\n", f"the added line was joined to the last line of the file: {files(r).get(b'f')!r}")),
    dict(prop="C02", name="D97 line added after a last line without newline (fuzz)", tree={b"f": b"a\nb\nc"}, argv=[b"--no-backup-if-mismatch", b"-i", b"p.diff"],
         patch=b"--- f\n+++ f\n@@ -3 +3,2 @@\n c\n+d\n",
         expect=lambda r: _exp(r.exit == 0 and files(r).get(b"f") == b"a\nb\nc\nd\n", f"the added line was joined to the last line of the file: {files(r).get(b'f')!r}")),
    dict(prop="C20", name="D97 -D and a line added after a last line without newline", tree={b"f": b"a\nb\nc"}, argv=[b"-D", b"SYM", b"-i", b"p.diff"],
         patch=b"--- f\n+++ f\n@@ -3,0 +4 @@\n+d\n",
         expect=lambda r: _exp(r.exit == 0 and files(r).get(b"f") == b"a\nb\nc\n#ifdef SYM\nd\n#endif\n", f"the #ifdef was written onto the last line of the file: {files(r).get(b'f')!r}")),
    dict(prop="C16", name="D101 -r FILE that is a symbolic link", tree={b"f": L5, b"logs": ("d", 0o755), b"logs/rejects.log": b"", b"rej": ("l", b"logs/rejects.log")},
         argv=[b"-f", b"--no-backup-if-mismatch", b"-r", b"rej", b"-i", b"p.diff"], patch=u(b"f", [b"zwei"], [b"TWO"], 2),
         expect=lambda r: _exp(r.exit == 1 and r.after.get(b"rej", ("?",))[0] == "l" and b"zwei" in files(r).get(b"logs/rejects.log", b""), f"a reject file named with -r is whatever it is: the link was replaced or the rejects are missing (exit {r.exit})")),
    dict(prop="C16", name="D101 reject file name that is a hard link", tree={b"f": L5, b"by": b"precious\n"}, hardlinks={b"f.rej": b"by"},
         argv=[b"-f", b"--no-backup-if-mismatch", b"-i", b"p.diff"], patch=u(b"f", [b"zwei"], [b"TWO"], 2), no_tie="the model has no hard links",
         expect=lambda r: _exp(files(r).get(b"by") == b"precious\n" and b"zwei" in files(r).get(b"f.rej", b""), "the rejects were written into a file which has another name as well")),
    dict(prop="C17", name="D102 git mode 160000 (a submodule) is no symbolic link", tree={b"keep": b"k\n"}, argv=[b"-p1", b"-i", b"p.diff"],
         patch=b"diff --git a/sub b/sub\nnew file mode 160000\nindex 0000000..1234567\n--- /dev/null\n+++ b/sub\n@@ -0,0 +1 @@\n+Subproject commit 1234567890123456789012345678901234567890\n",
         expect=lambda r: _exp(r.after.get(b"sub", ("f",))[0] != "l", "a dangling symbolic link to 'Subproject commit ...' was created")),
    dict(prop="C05", name="D104 -R of a removal named by an Index: line only", tree={b"keep": b"k\n"}, argv=[b"-R", b"-i", b"p.diff"],
         patch=b"Index: f\n1,3d0\n< a\n< b\n< c\n",
         expect=lambda r: _exp(r.exit == 0 and files(r).get(b"f") == b"a\nb\nc\n", f"-R of a removal whose only name is the Index: line does not create the file again (exit {r.exit}, tree {sorted(files(r))})")),
    dict(prop="C12", name="D104 removal-shaped hunk with '--- /dev/null'", tree={b"g": b"one\ntwo\n"}, argv=[b"-f", b"-i", b"p.diff"], uid=65534,
         patch=b"--- /dev/null\n+++ gone\n@@ -1,2 +0,0 @@\n-a\n-b\n" + u(b"g", [b"two"], [b"TWO"], 2),
         expect=lambda r: _exp(r.exit == 1 and files(r).get(b"g") == b"one\nTWO\n" and b"/dev/null" not in r.stdout + r.stderr, f"/dev/null was taken for the file to patch (exit {r.exit}, {r.stderr[-80:]!r})")),
    dict(prop="C17", name="D105 file of someone else which may be written to", tree={b"f": (L5, 0o666), b"g": b"one\ntwo\n"}, argv=[b"-i", b"p.diff"], uid=65534, root_owned=[b"f"],
         no_tie="the model has no file ownership", patch=u(b"f", [b"l3"], [b"L3"], 3) + u(b"g", [b"two"], [b"TWO"], 2),
         expect=lambda r: _exp(r.exit == 0 and files(r).get(b"g") == b"one\nTWO\n" and mode(r, b"f") == 0o666, f"setting the permissions a file already has ended the run (exit {r.exit}, {r.stderr[-80:]!r})")),
    dict(prop="C16", name="D106 -o names a directory and a backup is due", tree={b"f": L5, b"out": ("d", 0o755), b"out/x": b"x\n"}, argv=[b"-b", b"-o", b"out", b"-i", b"p.diff"],
         patch=u(b"f", [b"l3"], [b"L3"], 3),
         expect=lambda r: _exp(r.exit == 2 and r.after.get(b"out", ("?",))[0] == "d" and b"out.orig" not in r.after and files(r).get(b"out/x") == b"x\n", f"the directory named with -o was moved to a backup (exit {r.exit}, tree {sorted(r.after)})")),
    dict(prop="C03", name="D109 all old lines of the hunk are ignored context beyond the end (empty file)", tree={b"a": b""}, argv=[b"-f", b"-F2", b"--no-backup-if-mismatch", b"-i", b"p.diff"],
         patch=b"--- a\n+++ a\n@@ -1,2 +1,3 @@\n+x\n a\n b\n",
         expect=lambda r: _exp(r.exit == 0 and files(r).get(b"a") == b"x\n", f"with -F2 what is left of the hunk fits at the end of the (empty) file, it was rejected (exit {r.exit})")),
    dict(prop="C06", name="D110 removal applied a second time with -N to the empty file --posix left", tree={b"a": b""}, argv=[b"-N", b"-i", b"p.diff"],
         patch=b"--- a\n+++ a\n@@ -1,2 +0,0 @@\n-x\n-y\n",
         expect=lambda r: _exp(r.exit == 1 and files(r).get(b"a") == b"", f"a patch which was skipped removed the (empty) file (exit {r.exit}, tree {sorted(files(r))})")),
    dict(prop="C04", name="D111 a hunk empties the file, a later one fails (diff -U0)", tree={b"f": b"b\n"}, argv=[b"-f", b"--no-backup-if-mismatch", b"-i", b"p.diff"],
         patch=b"--- f\n+++ f\n@@ -1 +0,0 @@\n-b\n@@ -3 +2 @@\n-a\n+Z\n",
         expect=lambda r: _exp(r.exit == 1 and files(r).get(b"f", b"") == b"" and b"-a" in files(r).get(b"f.rej", b"") and b"-b" not in files(r).get(b"f.rej", b""),
                               f"hunk 1 was reported as applied but its line is still in the file (f = {files(r).get(b'f')!r})")),
    dict(prop="C18", name="D111 failing removal of an empty file with -b", tree={b"f": b""}, argv=[b"-f", b"-b", b"-i", b"p.diff"],
         patch=b"--- f\n+++ /dev/null\n@@ -1 +0,0 @@\n-a\n",
         expect=lambda r: _exp(r.exit == 1 and files(r).get(b"f") == b"" and files(r).get(b"f.orig") == b"", f"no backup although -b was given and the file was written (tree {sorted(files(r))})")),
    dict(prop="C06", name="D112 removal applied a second time with -N -o out", tree={b"out": b"old\nout\n"}, argv=[b"-N", b"-o", b"out", b"-i", b"p.diff"],
         patch=b"--- f\n+++ /dev/null\n@@ -1,3 +0,0 @@\n-a\n-b\n-c\n",
         expect=lambda r: _exp(r.exit == 1 and files(r).get(b"out") == b"old\nout\n", f"a patch which was skipped (nothing to read) emptied the file named with -o (out = {files(r).get(b'out')!r})")),
    dict(prop="C04", name="D112 removal applied in part with -o out which does not exist", tree={b"f": b"a\nb\n"}, argv=[b"-f", b"--no-backup-if-mismatch", b"-o", b"out", b"-i", b"p.diff"],
         patch=b"--- f\n+++ /dev/null\n@@ -1,2 +0,0 @@\n-a\n-b\n@@ -3,2 +0,0 @@\n-c\n-d\n",
         expect=lambda r: _exp(r.exit == 1 and files(r).get(b"out") == b"" and files(r).get(b"f") == b"a\nb\n", f"hunk 1 was reported as applied but its result was written nowhere (tree {sorted(files(r))})")),
    # ---- recorded in round three ----------------------------------------------------------------------------------------------------------
    dict(prop="C01", name="D86 first line of the first hunk is an empty line", tree={b"f": b"\nb\nc\n"}, argv=[b"-i", b"p.diff"],
         patch=b"--- f\n+++ f\n@@ -1,3 +1,3 @@\n\n-b\n+B\n c\n",
         expect=lambda r: _exp(r.exit == 0 and files(r) == {b"f": b"\nB\nc\n"}, f"a unified diff whose first hunk starts with an empty line (diff --suppress-blank-empty) is taken for garbage (exit {r.exit})")),
    dict(prop="C12", name="D87 git mode change written without a/ b/ prefixes", tag="git.header-names-without-prefix", tree={b"f": (L5, 0o644)}, argv=[b"-p0", b"-i", b"p.diff"],
         patch=b"diff --git f f\nold mode 100644\nnew mode 100755\n",
         expect=lambda r: _exp(r.exit == 0 and mode(r, b"f") == 0o755, f"'diff --git f f' (git diff --no-prefix) with -p0: the file is not found (exit {r.exit})")),
    dict(prop="C16", name="D95 reject file name that is a symbolic link", tree={b"f": L5, b"by": b"precious\n", b"f.rej": ("l", b"by")},
         argv=[b"-f", b"--no-backup-if-mismatch", b"-i", b"p.diff"], patch=u(b"f", [b"zwei"], [b"TWO"], 2),
         expect=lambda r: _exp(r.after.get(b"by") == r.before.get(b"by") and r.after.get(b"f.rej", ("?",))[0] == "f", "the rejects were written through the link f.rej into the file it points to")),
    dict(prop="C16", name="D95 reject file name that is a dangling symbolic link", tree={b"f": L5, b"f.rej": ("l", b"sub/nowhere"), b"sub": ("d", 0o755)},
         argv=[b"-f", b"--no-backup-if-mismatch", b"-i", b"p.diff"], patch=u(b"f", [b"zwei"], [b"TWO"], 2),
         expect=lambda r: _exp(b"sub/nowhere" not in r.after and r.after.get(b"f.rej", ("?",))[0] == "f", "the rejects were written to where the dangling link f.rej points to")),
    dict(prop="C16", name="D95 empty backup name that is a symbolic link", tree={b"by": b"precious\n", b"n.orig": ("l", b"by")}, argv=[b"-b", b"-i", b"p.diff"],
         patch=b"--- /dev/null\n+++ n\n@@ -0,0 +1 @@\n+hello\n",
         expect=lambda r: _exp(r.exit == 0 and r.after.get(b"by") == r.before.get(b"by") and files(r).get(b"n.orig") == b"" and files(r).get(b"n") == b"hello\n",
                               "the empty backup of a created file was made through the link n.orig: the file it points to is emptied")),
    dict(prop="C11", name="D96 git binary section followed by a plain section", tag="git.binary-then-plain", tree={b"f": b"a\nb\nc\n", b"bin": b"x"}, argv=[b"-f", b"-i", b"p.diff"],
         patch=b"diff --git a/bin b/bin\nindex 1234567..89abcde 100644\nGIT binary patch\nliteral 4\nLc${NkU|;|M00aO5\n\nliteral 3\nKc${NkU}69V0ssI2\n\n--- f\n+++ f\n@@ -1,3 +1,3 @@\n a\n-b\n+B\n c\n",
         expect=lambda r: _exp(r.exit == 1 and files(r).get(b"f") == b"a\nB\nc\n", f"the plain section after a binary one is not applied (exit {r.exit})")),
    dict(prop="C03", name="D99 last context line beyond the end of the file", tree={b"f": b"a\nb\nc\nd\n"}, argv=[b"--no-backup-if-mismatch", b"-i", b"p.diff"],
         patch=b"--- f\n+++ f\n@@ -2,4 +2,4 @@\n b\n-c\n+C\n d\n e\n",
         expect=lambda r: _exp(r.exit == 0 and files(r).get(b"f") == b"a\nb\nC\nd\n", f"a hunk which fits once its last context line is ignored (fuzz 1) is rejected because that line would lie beyond the end of the file (exit {r.exit})")),
    dict(prop="C06", name="D100 git rename with an edit applied a second time with -t", tag="reapply.rename-keeps-new-name", tree={b"n": b"l1\nl2\nL3\nl4\nl5\n"}, argv=[b"-t", b"-p1", b"-i", b"p.diff"],
         patch=b"diff --git a/o b/n\nsimilarity index 80%\nrename from o\nrename to n\n--- a/o\n+++ b/n\n@@ -1,5 +1,5 @@\n l1\n l2\n-l3\n+L3\n l4\n l5\n",
         expect=lambda r: _exp(files(r) == {b"o": L5}, f"-t reverts the lines but not the rename: files {sorted(files(r))}")),
    dict(prop="C01", name="D103 context diff with an empty unchanged line given as an empty line", tag="context.suppress-blank-empty", tree={b"f": b"a\n\nb\n"}, argv=[b"-i", b"p.diff"],
         patch=b"*** f\n--- f\n***************\n*** 1,3 ****\n  a\n\n! b\n--- 1,3 ----\n  a\n\n! B\n",
         expect=lambda r: _exp(r.exit == 0 and files(r) == {b"f": b"a\n\nB\n"}, f"a context diff as 'diff -c --suppress-blank-empty' writes it is not applied (exit {r.exit}, {r.stderr[-60:]!r})")),
    dict(prop="C05", name="D108 -R of the creation of a symbolic link", tag="reverse.symlink-creation", tree={b"real": b"data\n", b"l": ("l", b"real")}, argv=[b"-R", b"-p1", b"-i", b"p.diff"],
         patch=b"diff --git a/l b/l\nnew file mode 120000\nindex 0000000..1234567\n--- /dev/null\n+++ b/l\n@@ -0,0 +1 @@\n+real\n\\ No newline at end of file\n",
         expect=lambda r: _exp(r.exit == 0 and b"l" not in r.after and files(r).get(b"real") == b"data\n", f"-R of a link creation does not remove the link (exit {r.exit})")),
    dict(prop="C15", name="D107 more git sections than files may be open", tag="git.open-files-per-section", nofile=64, dry=True, no_tie="the model has no limit on open files",
         tree={b"f%d" % k: b"a\n" for k in range(90)}, argv=[b"-p1", b"-i", b"p.diff"],
         patch=b"".join(b"diff --git a/f%d b/f%d\n--- a/f%d\n+++ b/f%d\n@@ -1 +1 @@\n-a\n+A\n" % (k, k, k, k) for k in range(90)), expect=lambda r: None),
    # ---- recorded as known findings in round two ---------------------------------------------------------------------------------------------------
    dict(prop="C04", name="D83 later section that ends right after its range line", tag="truncated.section-after-range-line", tree={b"f": L5, b"g": L5}, argv=[b"-i", b"p.diff"],
         patch=u(b"f", [b"l3"], [b"L3"], 3) + b"--- g\n+++ g\n@@ -1,2 +1,2 @@\n",
         expect=lambda r: _exp(r.exit != 0, "exit 0 and no message although the second section is cut off after its range line")),
    dict(prop="C01", name="D69 plain diff that empties a file", tag="operation.emptied-file-removed", tree={b"f": b"a\nb\n"}, argv=[b"-i", b"p.diff"],
         patch=b"--- f\t2024-05-01 10:00:00.000000000 +0000\n+++ f\t2024-05-01 10:00:05.000000000 +0000\n@@ -1,2 +0,0 @@\n-a\n-b\n",
         expect=lambda r: _exp(r.exit == 0 and files(r).get(b"f") == b"", "tree B has the file with 0 bytes, the run removed it")),
    dict(prop="C05", name="D70 -R of a git copy", tag="reverse.copy-left-in-place", tree={b"orig": L5, b"copy": L5}, argv=[b"-R", b"-p1", b"-i", b"p.diff"],
         patch=b"diff --git a/orig b/copy\nsimilarity index 100%\ncopy from orig\ncopy to copy\n",
         expect=lambda r: _exp(r.exit == 0 and sorted(files(r)) == [b"orig"], f"-R of a copy must remove the copy (files {sorted(files(r))})")),
    dict(prop="C11", name="D67 context hunk with omitted new half, then indented text", tag="context.omitted-half-then-indented-text", tree={b"f": b"one\ntwo\nthree\nfour\n"}, argv=[b"-f", b"-i", b"p.diff"],
         patch=b"*** f\n--- f\n***************\n*** 1,4 ****\n  one\n- two\n  three\n  four\n--- 1,3 ----\n    indented commit message\n\nSigned-off-by: x\n",
         expect=lambda r: _exp(r.exit == 0 and files(r).get(b"f") == b"one\nthree\nfour\n", f"text after the section is taken for its omitted new half (exit {r.exit})")),
    dict(prop="C17", name="D68 --read-only=fail and a git rename of a read-only file", tag="read-only.rename-source", tree={b"f": (L5, 0o444)}, argv=[b"--read-only=fail", b"-p1", b"-i", b"p.diff"],
         patch=git_rename(b"f", b"g"),
         expect=lambda r: _exp(r.exit != 0 and files(r).get(b"f") == L5 and b"g" not in files(r), f"the read-only file was renamed although --read-only=fail (exit {r.exit})")),
    dict(prop="C04", name="D56 git stream with two sections for one file", tag="git.same-file-twice", tree={b"f": L10}, argv=[b"-p1", b"-i", b"p.diff"],
         patch=b"diff --git a/f b/f\n" + u(b"a/f", [b"l3"], [b"L3"], 3, b"b/f") + b"diff --git a/f b/f\n" + u(b"a/f", [b"l8"], [b"L8"], 8, b"b/f"),
         expect=lambda r: _exp(r.exit != 0 or files(r).get(b"f") == L10.replace(b"l3", b"L3").replace(b"l8", b"L8"), "exit 0 but the hunk of the first section is neither applied nor rejected")),
    dict(prop="C04", name="D57 -o with two sections for one file", tag="output-file.several-sections", tree={b"f": L10}, argv=[b"-o", b"out", b"-i", b"p.diff"],
         patch=u(b"f", [b"l3"], [b"L3"], 3) + u(b"f", [b"l8"], [b"L8"], 8),
         expect=lambda r: _exp(r.exit != 0 or files(r).get(b"out") == L10.replace(b"l3", b"L3").replace(b"l8", b"L8"), "exit 0 but the output file lacks the first section's hunk")),
    dict(prop="C04", name="D58 later hunk stated beyond 2^61", tag="range.beyond-limit-dropped", tree={b"f": L5}, argv=[b"-i", b"p.diff"],
         patch=u(b"f", [b"l1"], [b"L1"], 1) + b"@@ -2305843009213693952,1 +2305843009213693952,1 @@\n-l4\n+L4\n",
         expect=lambda r: _exp(r.exit != 0, "exit 0 and no message: the second hunk was neither applied nor rejected")),
    dict(prop="C15", name="D59 dry run after an earlier deletion", tag="dry-run.earlier-section-effects", tree={b"a": b"x\n", b"b": L5}, argv=[b"-i", b"p.diff"], dry=True,
         patch=b"--- a\n+++ /dev/null\n@@ -1 +0,0 @@\n-x\n" + u(b"a", [b"l3"], [b"L3"], 3, b"b"),
         expect=lambda r: None),
    dict(prop="C15", name="D60 git symlink onto a path that is taken", tag="dry-run.symlink-path-taken", tree={b"m": b""}, argv=[b"-p1", b"-i", b"p.diff"], dry=True,
         patch=b"diff --git a/m b/m\nnew file mode 120000\n--- /dev/null\n+++ b/m\n@@ -0,0 +1 @@\n+target\n\\ No newline at end of file\n",
         expect=lambda r: None),
]


def _tree(sc):
    t = box.Tree()
    for p, v in sc["tree"].items():
        if isinstance(v, bytes):
            t[p] = ("f", v, 0o644)
        elif v[0] in ("d", "l", "p"):
            t[p] = v
        else:
            t[p] = ("f", v[0], v[1])
    t[b"p.diff"] = ("f", sc["patch"], sc.get("patch_mode", 0o644))
    for name, to in sc.get("hardlinks", {}).items():
        t[name] = ("h", to)
    return t


def run(R, prop):
    """run the fixed scenarios of one property; `dry` scenarios compare --dry-run with the real run (C15's oracle)"""
    scs = [s for s in SCENARIOS if s["prop"] == prop]
    if not scs:
        return
    jobs = []
    for s in scs:
        jobs.append(dict(cut=R.cut, tree=_tree(s), argv=s["argv"], uid=s.get("uid", 0), nofile=s.get("nofile"), **({"root_owned": [b"p.diff"] + s.get("root_owned", [])} if s.get("patch_owner_root") or s.get("root_owned") else {})))
        if s.get("dry"):
            jobs.append(dict(cut=R.cut, tree=_tree(s), argv=[b"--dry-run"] + s["argv"], uid=s.get("uid", 0), nofile=s.get("nofile")))
    res = iter(drv.run_many(jobs))
    dist = {}
    for s in scs:
        r = next(res)
        R.evaluations += 1; R.nontrivial.add(("hunted", s["name"]))
        data = {"scenario": s["name"], "argv": [a.decode("latin1") for a in s["argv"]], "patch_hex": s["patch"].hex(),
                "tree": {p.decode("latin1"): (v.hex() if isinstance(v, bytes) else v[0].hex() + f" mode {oct(v[1])}" if isinstance(v[0], bytes) else str(v)) for p, v in s["tree"].items()},
                "exit": r.exit, "stdout": r.stdout.decode("latin1")[-400:], "stderr": r.stderr.decode("latin1")[-300:]}
        msg = s["expect"](r)
        if s.get("dry"):
            rd = next(res)
            R.evaluations += 1
            if rd.after != rd.before:
                msg = "--dry-run changed the tree"
            elif rd.exit != r.exit:
                msg = f"--dry-run exits {rd.exit}, the real run exits {r.exit}"
                data["dry_stdout"] = rd.stdout.decode("latin1")[-300:]
        dist[s["name"]] = "ok" if msg is None else ("known finding" if s.get("tag") else "VIOLATION")
        if msg is not None:
            R.oracle_fail(f"{s['name']}: {msg}", data, tag=s.get("tag"))
    R.dist["fixed scenarios from rounds two and three"] = dist
    # the same inputs through the model: where a defect was repaired the model was repaired with it, where one is recorded the model has it too
    import ties
    ties.t8(R, "T8-hunted", [dict(tree=_tree(s), argv=s["argv"], uid=s.get("uid", 0)) for s in scs if not s.get("patch_owner_root") and not s.get("no_tie")])
