"""Independent Python emitters of patch text (unified / context / normal / git) from hunk lists, wrappers around
GNU diff and git as real producers, and a mutation stream for malformed input."""
import os, subprocess, tempfile, random, shutil
import gen
from gen import SP, PLUS, MINUS

NONL = b"\\ No newline at end of file\n"


def _body_line(prefix, l):
    c, nl = l
    out = prefix + c + (b"\r\n" if nl == "C" else b"\n")
    if nl == "N":
        out += NONL
    return out


def _rng(s, c):
    return (b"%d" % s) if c == 1 else (b"%d,%d" % (s, c))


def unified_hunks(hunks):
    out = b""
    for h in hunks:
        out += b"@@ -" + _rng(h["os"], h["oc"]) + b" +" + _rng(h["ns"], h["nc"]) + b" @@\n"
        for op, l in h["lines"]:
            out += _body_line(bytes([op]), l)
    return out


def unified_text(hunks, old=b"a", new=b"b", oldt=b"2020-01-01 00:00:00.000000000 +0000", newt=b"2020-01-02 00:00:00.000000000 +0000"):
    return b"--- " + old + (b"\t" + oldt if oldt else b"") + b"\n+++ " + new + (b"\t" + newt if newt else b"") + b"\n" + unified_hunks(hunks)


def _ctx_range(s, c):
    if c == 0:
        return b"%d" % s
    if c == 1:
        return b"%d" % s
    return b"%d,%d" % (s, s + c - 1)


def context_hunks(hunks):
    """GNU-style context hunks: '!' for runs holding both deletions and additions; a half without changes is omitted"""
    out = b""
    for h in hunks:
        # group into runs
        old, new = [], []
        i = 0
        ls = h["lines"]
        while i < len(ls):
            if ls[i][0] == SP:
                old.append((b"  ", ls[i][1])); new.append((b"  ", ls[i][1])); i += 1
                continue
            j = i
            while j < len(ls) and ls[j][0] != SP:
                j += 1
            dels = [l for op, l in ls[i:j] if op == MINUS]
            adds = [l for op, l in ls[i:j] if op == PLUS]
            if dels and adds:
                old += [(b"! ", l) for l in dels]; new += [(b"! ", l) for l in adds]
            else:
                old += [(b"- ", l) for l in dels]; new += [(b"+ ", l) for l in adds]
            i = j
        has_old = any(p != b"  " for p, _ in old)
        has_new = any(p != b"  " for p, _ in new)
        out += b"***************\n"
        out += b"*** " + _ctx_range(h["os"], h["oc"]) + b" ****\n"
        if has_old or not has_new:
            for p, l in old:
                out += _body_line(p, l)
        out += b"--- " + _ctx_range(h["ns"], h["nc"]) + b" ----\n"
        if has_new:
            for p, l in new:
                out += _body_line(p, l)
    return out


def context_text(hunks, old=b"a", new=b"b", oldt=b"2020-01-01 00:00:00.000000000 +0000", newt=b"2020-01-02 00:00:00.000000000 +0000"):
    return b"*** " + old + (b"\t" + oldt if oldt else b"") + b"\n--- " + new + (b"\t" + newt if newt else b"") + b"\n" + context_hunks(hunks)


def normal_text(hunks0):
    """normal diff from zero-context hunks (each hunk = one change command)"""
    out = b""
    for h in hunks0:
        dels = [l for op, l in h["lines"] if op == MINUS]
        adds = [l for op, l in h["lines"] if op == PLUS]
        def r(s, c):
            return (b"%d" % s) if c <= 1 else (b"%d,%d" % (s, s + c - 1))
        if dels and adds:
            out += r(h["os"], h["oc"]) + b"c" + r(h["ns"], h["nc"]) + b"\n"
        elif dels:
            out += r(h["os"], h["oc"]) + b"d" + (b"%d" % h["ns"]) + b"\n"
        else:
            out += (b"%d" % h["os"]) + b"a" + r(h["ns"], h["nc"]) + b"\n"
        for l in dels:
            out += _body_line(b"< ", l)
        if dels and adds:
            out += b"---\n"
        for l in adds:
            out += _body_line(b"> ", l)
    return out


def cquote(name: bytes) -> bytes:
    out = b'"'
    for ch in name:
        c = bytes([ch])
        if c == b"\\": out += b"\\\\"
        elif c == b'"': out += b'\\"'
        elif c == b"\n": out += b"\\n"
        elif c == b"\t": out += b"\\t"
        elif ch < 32 or ch >= 127: out += b"\\%03o" % ch
        else: out += c
    return out + b'"'


def needs_quote(name: bytes) -> bool:
    return any(ch < 32 or ch >= 127 or ch in b'"\\' for ch in name)


def git_text(hunks, old=b"f", new=b"f", op="change", oldmode=None, newmode=None, similarity=None):
    qa = cquote(b"a/" + old) if needs_quote(old) else b"a/" + old
    qb = cquote(b"b/" + new) if needs_quote(new) else b"b/" + new
    out = b"diff --git " + qa + b" " + qb + b"\n"
    if op == "add":
        out += b"new file mode %s\n" % (newmode or b"100644")
    elif op == "delete":
        out += b"deleted file mode %s\n" % (oldmode or b"100644")
    elif oldmode and newmode and oldmode != newmode:
        out += b"old mode %s\nnew mode %s\n" % (oldmode, newmode)
    if op in ("rename", "copy"):
        out += b"similarity index %d%%\n" % (similarity or 80)
        qo = cquote(old) if needs_quote(old) else old
        qn = cquote(new) if needs_quote(new) else new
        out += op.encode() + b" from " + qo + b"\n" + op.encode() + b" to " + qn + b"\n"
    if hunks:
        out += b"index 1111111..2222222" + (b" 100644" if op in ("change", "rename", "copy") and not (oldmode and newmode and oldmode != newmode) else b"") + b"\n"
        out += b"--- " + (b"/dev/null" if op == "add" else qa) + b"\n"
        out += b"+++ " + (b"/dev/null" if op == "delete" else qb) + b"\n"
        out += unified_hunks(hunks)
    return out


# ---- real producers ---------------------------------------------------------------------------------
class Tools:
    """GNU diff and git run in a scratch directory"""
    def __init__(self, workdir):
        self.dir = tempfile.mkdtemp(prefix="tools-", dir=workdir)

    def close(self):
        shutil.rmtree(self.dir, ignore_errors=True)

    def gnu_diff(self, a: bytes, b: bytes, fmt="u", ctx=3, names=(b"a", b"b")):
        pa, pb = os.path.join(self.dir, "A"), os.path.join(self.dir, "B")
        open(pa, "wb").write(a); open(pb, "wb").write(b)
        if fmt == "u":
            args = ["-U", str(ctx)]
        elif fmt == "c":
            args = ["-C", str(ctx)]
        else:
            args = []
        r = subprocess.run(["diff", "-a", *args, "--label", names[0].decode("latin1"), "--label", names[1].decode("latin1"), pa, pb] if fmt != "n"
                           else ["diff", "-a", pa, pb], capture_output=True)
        return r.stdout


FILLER = [b"", b"From: someone@example.org", b"Subject: [PATCH] fix things", b"This fixes the bug.", b"-- ", b"2.39.0",
          b"Signed-off-by: A <a@b>", b"  indented text", b"On Monday someone wrote:", b"diff -ur old/x new/x", b"Only in new: y",
          b"# comment", b"=== modified file", b"commit 0123abc"]


def mutate(rng, text: bytes) -> bytes:
    """malformed stream: line deletion/duplication/swap, number substitution, truncation, byte flips, NUL"""
    lines = text.split(b"\n")
    r = rng.random()
    if r < 0.2 and len(lines) > 1:
        del lines[rng.randrange(len(lines))]
    elif r < 0.35 and lines:
        i = rng.randrange(len(lines)); lines.insert(i, lines[i])
    elif r < 0.45 and len(lines) > 2:
        i = rng.randrange(len(lines) - 1); lines[i], lines[i + 1] = lines[i + 1], lines[i]
    elif r < 0.65:
        import re
        t = b"\n".join(lines)
        nums = list(re.finditer(rb"\d+", t))
        if nums:
            m = rng.choice(nums)
            v = rng.choice([b"0", b"1", b"2", b"7", b"2147483648", b"4611686018427387904", b"99999999999999999999"])
            t = t[:m.start()] + v + t[m.end():]
        return t
    elif r < 0.8:
        t = b"\n".join(lines)
        return t[:rng.randint(0, len(t))]
    elif r < 0.9:
        t = bytearray(b"\n".join(lines))
        if t:
            i = rng.randrange(len(t)); t[i] = rng.choice([0, 10, 32, 42, 43, 45, 64, 92, 255, t[i] ^ 1])
        return bytes(t)
    else:
        i = rng.randint(0, len(lines)); lines.insert(i, rng.choice(FILLER + [b"--- x", b"+++ y", b"*** z", b"***************", b"@@ -1 +1 @@", b"1c1", b"diff --git a/q b/q", b"Index: q", b"Prereq: 1.2"]))
    return b"\n".join(lines)
