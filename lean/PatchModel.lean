import PatchModel.Model.Basic
import PatchModel.Model.Locator
import PatchModel.Model.Stream
import PatchModel.Model.Format
import PatchModel.Model.Applier
import PatchModel.Proto
import PatchModel.Spec.Place
import PatchModel.Spec.Script
