/-
  Line protocol shared by the model driver (Main.lean) and harness/inproc.cpp.
  Tokens are separated by single spaces.  bytes = "x" ++ hex;  int = decimal;  nl = L | C | N;
  line = bytes nl;  list = count item*;  hunk = os oc ns nc nlines (op bytes nl)*.
-/
import PatchModel.Model.Applier
namespace PatchModel.Proto
open PatchModel

abbrev P := StateT (List String) (Except String)

def tok : P String := do
  match (← get) with
  | [] => throw "unexpected end of request"
  | t :: ts => set ts; pure t

def hexVal (c : Char) : Option Nat :=
  if '0' ≤ c ∧ c ≤ '9' then some (c.toNat - 48)
  else if 'a' ≤ c ∧ c ≤ 'f' then some (c.toNat - 87)
  else none

def unhex : List Char → Option Bytes
  | [] => some []
  | a :: b :: rest => do
    let x ← hexVal a; let y ← hexVal b; let r ← unhex rest
    pure (UInt8.ofNat (16 * x + y) :: r)
  | _ => none

def pBytes : P Bytes := do
  let t ← tok
  match t.toList with
  | 'x' :: cs => match unhex cs with
    | some b => pure b
    | none => throw s!"bad hex {t}"
  | _ => throw s!"expected bytes, got {t}"

def pInt : P Int := do
  let t ← tok
  match t.toInt? with
  | some i => pure i
  | none => throw s!"expected int, got {t}"

def pNat : P Nat := do
  let i ← pInt
  if i < 0 then throw "expected nat" else pure i.toNat

def pBool : P Bool := do pure ((← pInt) != 0)

def pNl : P NewLine := do
  match (← tok) with
  | "L" => pure .lf | "C" => pure .crlf | "N" => pure .none
  | t => throw s!"expected newline kind, got {t}"

def pLine : P Line := do
  let c ← pBytes; let n ← pNl; pure ⟨c, n⟩

def pList {α} (item : P α) : P (List α) := do
  let n ← pNat
  let mut acc : Array α := #[]
  for _ in [0:n] do acc := acc.push (← item)
  pure acc.toList

def pPatchLine : P PatchLine := do
  let op ← pNat; let l ← pLine; pure ⟨UInt8.ofNat op, l⟩

def pHunk : P Hunk := do
  let os ← pInt; let oc ← pInt; let ns ← pInt; let nc ← pInt
  let ls ← pList pPatchLine
  pure ⟨⟨os, oc⟩, ⟨ns, nc⟩, ls⟩

def pFormat : P Format := do
  match (← tok) with
  | "context" => pure .context | "unified" => pure .unified | "git" => pure .git
  | "ed" => pure .ed | "normal" => pure .normal | "unknown" => pure .unknown
  | t => throw s!"bad format {t}"

def pOperation : P Operation := do
  match (← tok) with
  | "change" => pure .change | "rename" => pure .rename | "copy" => pure .copy
  | "delete" => pure .delete | "add" => pure .add | "binary" => pure .binary
  | t => throw s!"bad operation {t}"

/-- patch = format operation index prereq oldPath newPath oldTime newTime oldMode newMode nhunks hunk* -/
def pPatch : P Patch := do
  let f ← pFormat; let op ← pOperation
  let idx ← pBytes; let pre ← pBytes
  let op_ ← pBytes; let np ← pBytes; let ot ← pBytes; let nt ← pBytes
  let om ← pNat; let nm ← pNat
  let hs ← pList pHunk
  pure { format := f, operation := op, indexPath := idx, prerequisite := pre, oldPath := op_, newPath := np,
         oldTime := ot, newTime := nt, oldMode := om, newMode := nm, hunks := hs }

def pNewlineOutput : P NewlineOutput := do
  match (← tok) with
  | "native" => pure .native | "lf" => pure .lf | "crlf" => pure .crlf | "keep" => pure .keep
  | t => throw s!"bad newline-output {t}"

def pRejectFormat : P RejectFormat := do
  match (← tok) with
  | "context" => pure .context | "unified" => pure .unified | "default" => pure .default
  | t => throw s!"bad reject format {t}"

/-- opts = reverse ignoreReversed batch force iw maxFuzz define newlineOutput rejectFormat verbose -/
def pApplyOpts : P ApplyOpts := do
  let r ← pBool; let n ← pBool; let t ← pBool; let f ← pBool; let l ← pBool
  let mf ← pInt; let d ← pBytes; let nl ← pNewlineOutput; let rf ← pRejectFormat; let v ← pBool
  pure { reverse := r, ignoreReversed := n, batch := t, force := f, ignoreWhitespace := l, maxFuzz := mf,
         define := d, newlineOutput := nl, rejectFormat := rf, verbose := v }

/-! output side -/
def hexDigit (n : Nat) : Char := if n < 10 then Char.ofNat (48 + n) else Char.ofNat (87 + n)

def hex (b : Bytes) : String :=
  String.ofList ('x' :: b.flatMap fun c => [hexDigit (c.toNat / 16), hexDigit (c.toNat % 16)])

def showNl : NewLine → String | .lf => "L" | .crlf => "C" | .none => "N"
def showLine (l : Line) : String := s!"{hex l.content} {showNl l.newline}"
def showHunk (h : Hunk) : String :=
  let ls := h.lines.map fun pl => s!"{pl.op.toNat} {showLine pl.line}"
  s!"{h.old.start} {h.old.count} {h.new.start} {h.new.count} {h.lines.length}" ++ String.join (ls.map (" " ++ ·))

def showExn : Exn → String
  | .parserError => "parser_error" | .invalidArgument => "invalid_argument" | .runtimeError => "runtime_error"
  | .outOfRange => "out_of_range" | .systemError => "system_error" | .cmdlineError => "cmdline_error"
  | .badAlloc => "bad_alloc" | .logicError => "logic_error"

def showFormat : Format → String
  | .context => "context" | .unified => "unified" | .git => "git" | .ed => "ed" | .normal => "normal" | .unknown => "unknown"
def showOperation : Operation → String
  | .change => "change" | .rename => "rename" | .copy => "copy" | .delete => "delete" | .add => "add" | .binary => "binary"

def showMsg : Msg → String
  | .hunk n k a f o => s!"hunk:{n}:{k}:{a}:{f}:{o}"
  | .reversedDetected u => if u then "unreversed-detected" else "reversed-detected"
  | .assumingR => "assuming-R"
  | .skippingPatch => "skipping-patch"
  | .asked q => "asked:" ++ (q.replace " " "_")

end PatchModel.Proto
