/-
  C07 (what the model can carry) — numbers read from a patch are bounded so that the arithmetic done with them stays inside
  int64, indices stay inside their vectors, and every exception ends in exit status 2.
-/
import PatchModel.Model.Driver
import PatchModel.Spec.Script
import PatchModel.Lemmas.Bounds
import PatchModel.Props.C02Apply
namespace PatchModel.C07
open PatchModel

/-- representable as `int64_t` (`LineNumber`) -/
def inI64 (x : Int) : Prop := -9223372036854775808 ≤ x ∧ x ≤ 9223372036854775807

/-- the cap on line numbers read from a patch: 2^61 - 1 -/
def cap : Int := i64Max / 4

theorem cap_value : cap = 2305843009213693951 := Bounds.i64Max_div4

/-- every number `consume_line_number` accepts is within [0, cap] -/
theorem consumeLineNumber_bounded (r : Bytes) (cur : Int) (h : (consumeLineNumber r cur).1 = true) :
    0 ≤ (consumeLineNumber r cur).2.1 ∧ (consumeLineNumber r cur).2.1 ≤ cap :=
  Bounds.consumeLineNumber_small r cur h

/-- a unified range line that parses has all four numbers within [0, cap] -/
theorem unified_range_bounded (h0 : Hunk) (l : Bytes) (h : (parseUnifiedRange h0 l).1 = true) :
    let r := (parseUnifiedRange h0 l).2
    0 ≤ r.old.start ∧ r.old.start ≤ cap ∧ 0 ≤ r.old.count ∧ r.old.count ≤ cap ∧
    0 ≤ r.new.start ∧ r.new.start ≤ cap ∧ 0 ≤ r.new.count ∧ r.new.count ≤ cap := by
  obtain ⟨a, b, c, d⟩ := Bounds.parseUnifiedRange_small h0 l h
  exact ⟨a.1, a.2, b.1, b.2, c.1, c.2, d.1, d.2⟩

/-- a normal range line that parses: starts within [0, cap], counts (computed as end - start + 1) within [-cap, cap + 1] -/
theorem normal_range_bounded (h0 : Hunk) (l : Bytes) (h : (parseNormalRange h0 l).1 = true) :
    let r := (parseNormalRange h0 l).2
    0 ≤ r.old.start ∧ r.old.start ≤ cap ∧ 0 ≤ r.old.count ∧ r.old.count ≤ cap + 1 ∧
    0 ≤ r.new.start ∧ r.new.start ≤ cap ∧ -cap - 1 ≤ r.new.count ∧ r.new.count ≤ cap + 1 := by
  obtain ⟨a, b, c, d, e, f⟩ := Bounds.parseNormalRange_bounds h0 l h
  exact ⟨a.1, a.2, b, c, d.1, d.2, e, f⟩

/-- a context range that parses: both numbers within [0, cap] -/
theorem context_range_bounded (s e : Int) (t : Bytes) (h : (parseContextRange s e t).1 = true) :
    0 ≤ (parseContextRange s e t).2.1 ∧ (parseContextRange s e t).2.1 ≤ cap ∧
    0 ≤ (parseContextRange s e t).2.2 ∧ (parseContextRange s e t).2.2 ≤ cap := by
  obtain ⟨a, b⟩ := Bounds.parseContextRange_small s e t h
  exact ⟨a.1, a.2, b.1, b.2⟩

/-- `expected_line_number` and the first guess `expected - 1 + offset` do not overflow for bounded inputs -/
theorem guess_in_range (h : Hunk) (offset : Int) (hs : 0 ≤ h.old.start ∧ h.old.start ≤ cap)
    (ho : -(2 * cap + 2) ≤ offset ∧ offset ≤ 2 * cap + 2) :
    inI64 (expectedLine h) ∧ inI64 (expectedLine h - 1) ∧ inI64 (expectedLine h - 1 + offset) := by
  rw [cap_value] at hs ho
  unfold inI64 expectedLine
  split <;> omega

/-- whatever `locate_hunk` returns lies inside the file, and its offset is `line - guess` (no other arithmetic) -/
theorem locate_in_file (file : List Line) (h : Hunk) (iw : Bool) (offset maxFuzz : Int) (minLine : Nat) (loc : Location)
    (hloc : locateHunk file h iw offset maxFuzz minLine = some loc) :
    0 ≤ loc.line ∧ loc.line ≤ (file.length : Int) ∧ 0 ≤ loc.fuzz ∧
    loc.offset = loc.line - (expectedLine h - 1 + offset) := by
  by_cases hc : h.old.count = 0
  · obtain ⟨h1, h2, h3, h4, h5⟩ := C02.locate_insertion file h iw offset maxFuzz minLine loc hloc hc
    refine ⟨by omega, h5, by omega, by omega⟩
  · obtain ⟨p, f, e, _, h2, _⟩ := locateHunk_some file h iw offset maxFuzz minLine loc hc hloc
    subst e
    refine ⟨by simp only; omega, by simp only; omega, by simp only; omega, rfl⟩

/-- invariant of the hunk loop: the accumulated offset error after applying a hunk is `line - expected + 1`, hence bounded by the
    stated line and the file length whatever happened before — no accumulation over hunks -/
theorem offErr_after_apply (file : List Line) (o : ApplyOpts) (p : Patch) (s s' : AState) (num : Nat) (h : Hunk) (loc : Location)
    (hloc : locateHunk file h o.ignoreWhitespace s.offErr o.maxFuzz s.cursor = some loc) (hskip : s.skip = false)
    (hf : finishHunk file o p s num h (some loc) = .ok s') :
    s'.offErr = loc.line - expectedLine h + 1 := by
  have hoff := (locate_in_file file h o.ignoreWhitespace s.offErr o.maxFuzz s.cursor loc hloc).2.2.2
  rcases Apply.finishHunk_ok hf with ⟨l, _, _, _, hl, _, _, _, _, he, _⟩ | ⟨hn, _⟩
  · cases hl
    rw [he, hoff]; omega
  · rcases hn with hn | hn
    · rw [hskip] at hn; cases hn
    · cases hn

/-- the shift of reject line numbers is the net growth of the hunks applied so far: for well-formed hunks it is bounded by the number of
    hunk lines seen, not by any number written in the patch -/
theorem offNew_step (file : List Line) (o : ApplyOpts) (p : Patch) (s s' : AState) (num : Nat) (h : Hunk) (loc : Option Location)
    (hw : h.WF) (hf : finishHunk file o p s num h loc = .ok s') :
    (s'.offNew - s.offNew).natAbs ≤ h.lines.length := by
  have h1 := Bounds.oldOf_length_le h.lines
  have h2 := Bounds.newOf_length_le h.lines
  obtain ⟨_, ho, hn⟩ := hw
  rcases Bounds.finishHunk_offNew hf with e | e <;> rw [e] <;> omega

/-- `lines.at(i)` never throws for well-formed hunks: `apply_patch` has no `out_of_range` outcome -/
theorem no_out_of_range (file : List Line) (p0 : Patch) (o : ApplyOpts) (tty : Option (List Bool))
    (hwf : ∀ h ∈ p0.hunks, h.WF) (hD : o.define = []) :
    applyPatch file p0 o tty ≠ .error .outOfRange := by
  intro he
  have := (Bounds.applyPatch_error (C02.locatorSound file _ _) hwf hD he).1
  cases this

/-- every exception reaches `main`'s handler: whatever is thrown anywhere, the exit status is 2 (and never anything but 0, 1, 2) -/
theorem exit_status (o : Options) (s0 : DState) :
    (runPatch o s0).1 = 0 ∨ (runPatch o s0).1 = 1 ∨ (runPatch o s0).1 = 2 := by
  unfold runPatch
  split
  · exact Or.inl rfl
  · split
    · split
      · exact Or.inr (Or.inl rfl)
      · exact Or.inl rfl
    · exact Or.inr (Or.inr rfl)

end PatchModel.C07

#print axioms PatchModel.C07.cap_value
#print axioms PatchModel.C07.consumeLineNumber_bounded
#print axioms PatchModel.C07.unified_range_bounded
#print axioms PatchModel.C07.normal_range_bounded
#print axioms PatchModel.C07.context_range_bounded
#print axioms PatchModel.C07.guess_in_range
#print axioms PatchModel.C07.locate_in_file
#print axioms PatchModel.C07.offErr_after_apply
#print axioms PatchModel.C07.offNew_step
#print axioms PatchModel.C07.no_out_of_range
#print axioms PatchModel.C07.exit_status
