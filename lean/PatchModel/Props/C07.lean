import PatchModel.Spec.Script
namespace PatchModel.C07
/-- placeholder until the checked-arithmetic / cost theorems are in (see DESIGN.md section 5/C07) -/
theorem placeholder : True := trivial
end PatchModel.C07
