/-
  C07 (what the model can carry) — numbers read from a patch are bounded so that the arithmetic done with them stays inside
  int64, indices stay inside their vectors, and every exception ends in exit status 2.
-/
import PatchModel.Model.Driver
import PatchModel.Spec.Script
import PatchModel.Lemmas.Bounds
import PatchModel.Props.C02Apply
namespace PatchModel.C07
open PatchModel

/-- representable as `int64_t` (`LineNumber`) -/
def inI64 (x : Int) : Prop := -9223372036854775808 ≤ x ∧ x ≤ 9223372036854775807

/-- the cap on line numbers read from a patch: 2^61 - 1 -/
def cap : Int := i64Max / 4

theorem cap_value : cap = 2305843009213693951 := Bounds.i64Max_div4

/-- every number `consume_line_number` accepts is within [0, cap] -/
theorem consumeLineNumber_bounded (r : Bytes) (cur : Int) (h : (consumeLineNumber r cur).1 = true) :
    0 ≤ (consumeLineNumber r cur).2.1 ∧ (consumeLineNumber r cur).2.1 ≤ cap :=
  Bounds.consumeLineNumber_small r cur h

/-- a unified range line that parses has all four numbers within [0, cap] -/
theorem unified_range_bounded (h0 : Hunk) (l : Bytes) (h : (parseUnifiedRange h0 l).1 = true) :
    let r := (parseUnifiedRange h0 l).2
    0 ≤ r.old.start ∧ r.old.start ≤ cap ∧ 0 ≤ r.old.count ∧ r.old.count ≤ cap ∧
    0 ≤ r.new.start ∧ r.new.start ≤ cap ∧ 0 ≤ r.new.count ∧ r.new.count ≤ cap := by
  obtain ⟨a, b, c, d⟩ := Bounds.parseUnifiedRange_small h0 l h
  exact ⟨a.1, a.2, b.1, b.2, c.1, c.2, d.1, d.2⟩

/-- a normal range line that parses: starts within [0, cap], counts within [0, cap + 1].
    (Strengthened with the model — `parse_normal_range` as fixed: the new count, computed as `max (end - start + 1) 0`, was only
    known to be within [-cap - 1, cap + 1]: `-cap - 1 ≤ r.new.count` is now `0 ≤ r.new.count`.) -/
theorem normal_range_bounded (h0 : Hunk) (l : Bytes) (h : (parseNormalRange h0 l).1 = true) :
    let r := (parseNormalRange h0 l).2
    0 ≤ r.old.start ∧ r.old.start ≤ cap ∧ 0 ≤ r.old.count ∧ r.old.count ≤ cap + 1 ∧
    0 ≤ r.new.start ∧ r.new.start ≤ cap ∧ 0 ≤ r.new.count ∧ r.new.count ≤ cap + 1 := by
  obtain ⟨a, b, c, d, e, f⟩ := Bounds.parseNormalRange_bounds h0 l h
  exact ⟨a.1, a.2, b, c, d.1, d.2, e, f⟩

/-- **no count of a normal hunk is negative**: a range that ends before it starts is empty (old side: refused) -/
theorem normal_counts_bounded_below (h : Hunk) (line : Bytes) (h' : Hunk) (hp : parseNormalRange h line = (true, h')) :
    0 ≤ h'.old.count ∧ 0 ≤ h'.new.count := by
  have := normal_range_bounded h line (by rw [hp])
  rw [hp] at this
  exact ⟨this.2.2.1, this.2.2.2.2.2.2.1⟩

/-- the form in which the bound is needed for a `d` command (whose count is the number of lines of its range less one):
    never below -1 … -/
theorem normal_new_count_nonneg (h : Hunk) (line : Bytes) (h' : Hunk) (hp : parseNormalRange h line = (true, h')) :
    -1 ≤ h'.new.count := by
  have := (normal_counts_bounded_below h line h' hp).2
  omega

/-- … and in fact **a `d` command adds nothing**: the command letter of an accepted line (the first byte that is neither a
    digit nor a comma) is `c`, `a` or `d`, and for `d` the new range has no lines at all — a comma after the new start is
    refused, so the range is `n` alone and its count `1 - 1` -/
theorem normal_delete_adds_nothing (h : Hunk) (line : Bytes) (h' : Hunk) (hp : parseNormalRange h line = (true, h')) :
    (Bounds.normalCmdOf line = 99 ∨ Bounds.normalCmdOf line = 97 ∨ Bounds.normalCmdOf line = 100) ∧
    (Bounds.normalCmdOf line = 100 → h'.new.count = 0) := by
  have := Bounds.parseNormalRange_cmd h line (by rw [hp])
  rw [hp] at this
  exact this

/-- the new counts of any number of accepted range lines add up to something between 0 and `n * (cap + 1)`.  What a fuzzer
    found — six commands `Kd2305843009213693951,0`, each with a new count of -2^61, adding up to less than -2^63 — can not
    happen: no sum of new counts goes below zero, and one above 2^63 - 1 takes more than three range lines whose hunks
    each carry `cap + 1` lines of text -/
theorem normal_new_counts_sum (h0 : Hunk) (lines : List Bytes) (hok : ∀ l ∈ lines, (parseNormalRange h0 l).1 = true) :
    0 ≤ (lines.map fun l => (parseNormalRange h0 l).2.new.count).sum ∧
    (lines.map fun l => (parseNormalRange h0 l).2.new.count).sum ≤ lines.length * (cap + 1) := by
  induction lines with
  | nil => simp
  | cons l ls ih =>
    have h1 := normal_range_bounded h0 l (hok l List.mem_cons_self)
    have h2 := ih (fun x hx => hok x (List.mem_cons_of_mem _ hx))
    simp only [List.map_cons, List.sum_cons, List.length_cons] at h2 ⊢
    simp only at h1
    refine ⟨by omega, ?_⟩
    have e : ((ls.length + 1 : Nat) : Int) * (cap + 1) = (ls.length : Int) * (cap + 1) + (cap + 1) := by
      rw [Int.natCast_add, Int.add_mul]; simp
    rw [e]; omega

/-- the fuzzer's line is refused (`1d2305843009213693951,0`), and the same range after `c` is empty
    (`1c2305843009213693951,0`; before the fix: a count of -2305843009213693950) -/
example : (parseNormalRange defaultHunk
    [49, 100, 50, 51, 48, 53, 56, 52, 51, 48, 48, 57, 50, 49, 51, 54, 57, 51, 57, 53, 49, 44, 48]).1 = false := by decide
example : (parseNormalRange defaultHunk
    [49, 99, 50, 51, 48, 53, 56, 52, 51, 48, 48, 57, 50, 49, 51, 54, 57, 51, 57, 53, 49, 44, 48]) =
      (true, ⟨⟨1, 1⟩, ⟨2305843009213693951, 0⟩, []⟩) := by decide
/-- a plain `d` command: the new range is a position, not a line -/
example : (parseNormalRange defaultHunk [53, 44, 55, 100, 51]) = (true, ⟨⟨5, 3⟩, ⟨3, 0⟩, []⟩) := by decide
#guard (parseNormalRange defaultHunk (str "1d2305843009213693951,0")).1 == false
#guard (parseNormalRange defaultHunk (str "1c2305843009213693951,0")).2.new.count == 0
#guard Bounds.normalCmdOf (str "5,7d3") == 100

/-- a context range that parses: both numbers within [0, cap] -/
theorem context_range_bounded (s e : Int) (t : Bytes) (h : (parseContextRange s e t).1 = true) :
    0 ≤ (parseContextRange s e t).2.1 ∧ (parseContextRange s e t).2.1 ≤ cap ∧
    0 ≤ (parseContextRange s e t).2.2 ∧ (parseContextRange s e t).2.2 ≤ cap := by
  obtain ⟨a, b⟩ := Bounds.parseContextRange_small s e t h
  exact ⟨a.1, a.2, b.1, b.2⟩

/-- `expected_line_number` and the first guess `expected - 1 + offset` do not overflow for bounded inputs -/
theorem guess_in_range (h : Hunk) (offset : Int) (hs : 0 ≤ h.old.start ∧ h.old.start ≤ cap)
    (ho : -(2 * cap + 2) ≤ offset ∧ offset ≤ 2 * cap + 2) :
    inI64 (expectedLine h) ∧ inI64 (expectedLine h - 1) ∧ inI64 (expectedLine h - 1 + offset) := by
  rw [cap_value] at hs ho
  unfold inI64 expectedLine
  split <;> omega

/-- whatever `locate_hunk` returns lies inside the file, and its offset is `line - guess` (no other arithmetic) -/
theorem locate_in_file (file : List Line) (h : Hunk) (iw : Bool) (offset maxFuzz : Int) (minLine : Nat) (loc : Location)
    (hloc : locateHunk file h iw offset maxFuzz minLine = some loc) :
    0 ≤ loc.line ∧ loc.line ≤ (file.length : Int) ∧ 0 ≤ loc.fuzz ∧
    loc.offset = loc.line - (expectedLine h - 1 + offset) := by
  by_cases hc : h.old.count = 0
  · obtain ⟨h1, h2, h3, h4, h5⟩ := C02.locate_insertion file h iw offset maxFuzz minLine loc hloc hc
    refine ⟨by omega, h5, by omega, by omega⟩
  · obtain ⟨p, f, e, _, h2, _⟩ := locateHunk_some file h iw offset maxFuzz minLine loc hc hloc
    subst e
    refine ⟨by simp only; omega, by simp only; omega, by simp only; omega, rfl⟩

/-- invariant of the hunk loop: the accumulated offset error after applying a hunk is `line - expected + 1`, hence bounded by the
    stated line and the file length whatever happened before — no accumulation over hunks -/
theorem offErr_after_apply (file : List Line) (o : ApplyOpts) (p : Patch) (s s' : AState) (num : Nat) (h : Hunk) (loc : Location)
    (hloc : locateHunk file h o.ignoreWhitespace s.offErr o.maxFuzz s.cursor = some loc) (hskip : s.skip = false)
    (hf : finishHunk file o p s num h (some loc) = .ok s') :
    s'.offErr = loc.line - expectedLine h + 1 := by
  have hoff := (locate_in_file file h o.ignoreWhitespace s.offErr o.maxFuzz s.cursor loc hloc).2.2.2
  rcases Apply.finishHunk_ok hf with ⟨l, _, _, _, hl, _, _, _, _, he, _⟩ | ⟨hn, _⟩
  · cases hl
    rw [he, hoff]; omega
  · rcases hn with hn | hn
    · rw [hskip] at hn; cases hn
    · cases hn

/-- the shift of reject line numbers is the net growth of the hunks applied so far: for well-formed hunks it is bounded by the number of
    hunk lines seen, not by any number written in the patch -/
theorem offNew_step (file : List Line) (o : ApplyOpts) (p : Patch) (s s' : AState) (num : Nat) (h : Hunk) (loc : Option Location)
    (hw : h.WF) (hf : finishHunk file o p s num h loc = .ok s') :
    (s'.offNew - s.offNew).natAbs ≤ h.lines.length := by
  have h1 := Bounds.oldOf_length_le h.lines
  have h2 := Bounds.newOf_length_le h.lines
  obtain ⟨_, ho, hn⟩ := hw
  rcases Bounds.finishHunk_offNew hf with e | e <;> rw [e] <;> omega

/-- `lines.at(i)` never throws for well-formed hunks: `apply_patch` has no `out_of_range` outcome -/
theorem no_out_of_range (file : List Line) (p0 : Patch) (o : ApplyOpts) (tty : Option (List Bool))
    (hwf : ∀ h ∈ p0.hunks, h.WF) (hD : o.define = []) :
    applyPatch file p0 o tty ≠ .error .outOfRange := by
  intro he
  have := (Bounds.applyPatch_error (C02.locatorSound file _ _) hwf hD he).1
  cases this

/-- every exception reaches `main`'s handler: whatever is thrown anywhere, the exit status is 2 (and never anything but 0, 1, 2) -/
theorem exit_status (o : Options) (s0 : DState) :
    (runPatch o s0).1 = 0 ∨ (runPatch o s0).1 = 1 ∨ (runPatch o s0).1 = 2 := by
  unfold runPatch
  split
  · exact Or.inl rfl
  · split
    · split
      · exact Or.inr (Or.inl rfl)
      · exact Or.inl rfl
    · exact Or.inr (Or.inr rfl)

end PatchModel.C07

#print axioms PatchModel.C07.cap_value
#print axioms PatchModel.C07.consumeLineNumber_bounded
#print axioms PatchModel.C07.unified_range_bounded
#print axioms PatchModel.C07.normal_range_bounded
#print axioms PatchModel.C07.normal_counts_bounded_below
#print axioms PatchModel.C07.normal_new_count_nonneg
#print axioms PatchModel.C07.normal_delete_adds_nothing
#print axioms PatchModel.C07.normal_new_counts_sum
#print axioms PatchModel.C07.context_range_bounded
#print axioms PatchModel.C07.guess_in_range
#print axioms PatchModel.C07.locate_in_file
#print axioms PatchModel.C07.offErr_after_apply
#print axioms PatchModel.C07.offNew_step
#print axioms PatchModel.C07.no_out_of_range
#print axioms PatchModel.C07.exit_status
