/-
  C12 — the file that gets patched is the one the headers name (names, quoting, -p).
-/
import PatchModel.Spec.Names
import PatchModel.Lemmas.Names
namespace PatchModel.C12
open PatchModel

/-- `-pN` removes exactly N leading components, runs of slashes counting once, for every byte string and every N -/
theorem strip_spec (p : Bytes) (n : Nat) : stripPath p (n : Int) = stripSpec p n := by
  rw [Names.stripPath_nonneg, Names.stripLoop_spec]

/-- without `-p` (negative count) the base name is used -/
theorem strip_negative (p : Bytes) (n : Int) (h : n < 0) : stripPath p n = basenameSpec p := by
  unfold stripPath; simp only [h, if_true]; rfl

/-- the base name contains no slash and is a suffix of the path, preceded by a slash unless it is the whole path -/
theorem basename_spec (p : Bytes) :
    SLASH ∉ basenameSpec p ∧
    (basenameSpec p = p ∨ ∃ pre, p = pre ++ [SLASH] ++ basenameSpec p) := by
  rw [Names.basenameSpec_eq]; exact ⟨Names.basename_no_slash p, Names.basename_suffix p⟩

/-- stripping is compositional: stripping n then m components is stripping n + m -/
theorem stripSpec_add (p : Bytes) (n m : Nat) : stripSpec (stripSpec p n) m = stripSpec p (n + m) := by
  exact Names.stripSpec_add p n m

/-- a name made of k+1 non-empty slash-free components joined by single slashes keeps its last k+1-n components -/
theorem stripSpec_components (comps : List Bytes) (n : Nat)
    (hne : ∀ c ∈ comps, c ≠ [] ∧ SLASH ∉ c) (hn : n < comps.length) :
    stripSpec (List.intercalate [SLASH] comps) n = List.intercalate [SLASH] (comps.drop n) := by
  exact Names.stripSpec_components comps n hne hn

/-- a name with fewer than N components is not used -/
theorem stripSpec_too_few (comps : List Bytes) (n : Nat)
    (hne : ∀ c ∈ comps, c ≠ [] ∧ SLASH ∉ c) (hn : comps.length ≤ n) (hpos : 0 < n) :
    stripSpec (List.intercalate [SLASH] comps) n = [] := by
  exact Names.stripSpec_too_few comps n hne hn hpos

/-- every name (any bytes at all) survives C-quoting and un-quoting; the parser stops at the closing quote -/
theorem quote_roundtrip (s tail : Bytes) :
    parseQuotedString (cQuote s ++ tail) = .ok (s, DQUOTE :: tail) := by
  exact Names.quote_roundtrip s tail

/-- plain names: a header line `name TAB timestamp` yields the name stripped by -p and the timestamp,
    for any name without a tab that does not start with a quote (spaces inside the name are fine) -/
theorem file_line_plain (name ts : Bytes) (strip : Int)
    (hne : name ≠ []) (hq : name.head? ≠ some DQUOTE) (ht : TAB ∉ name) :
    parseFileLine (name ++ TAB :: ts) strip =
      .ok (if name = devNull then name else stripPath name strip, if ts = [] then none else some ts) := by
  exact Names.file_line_plain name ts strip hne hq ht

/-- quoted names: a header line `"quoted" TAB timestamp` yields the decoded name stripped by -p
    (the time stamp keeps the separator: the code takes everything after the closing quote) -/
theorem file_line_quoted (name ts : Bytes) (strip : Int) :
    parseFileLine (cQuote name ++ TAB :: ts) strip =
      .ok (if name = devNull then name else stripPath name strip, some (TAB :: ts)) := by
  exact Names.file_line_quoted name ts strip

/-- /dev/null is never stripped, whatever -p says -/
theorem devnull_never_stripped (ts : Bytes) (strip : Int) :
    ∃ t, parseFileLine (devNull ++ TAB :: ts) strip = .ok (devNull, t) := by
  exact Names.devnull_never_stripped ts strip

/-- git, `-p0`: the names on the `rename from` / `rename to` / `copy from` / `copy to` lines are used as they are (with the
    `a/` or `b/` the other header lines carry) — not reduced to their base name, which a strip count of `0 - 1` meant
    before the fix.  `n` is any name that is not C-quoted. -/
theorem git_name_p0 (n : Bytes) (p : Patch) (hq : n.head? ≠ some DQUOTE) :
    parseGitExtendedInfo (str "rename from " ++ n) p 0
      = .ok (true, { p with operation := .rename, oldPath := str "a/" ++ n }) ∧
    parseGitExtendedInfo (str "rename to " ++ n) p 0
      = .ok (true, { p with operation := .rename, newPath := str "b/" ++ n }) ∧
    parseGitExtendedInfo (str "copy from " ++ n) p 0
      = .ok (true, { p with operation := .copy, oldPath := str "a/" ++ n }) ∧
    parseGitExtendedInfo (str "copy to " ++ n) p 0
      = .ok (true, { p with operation := .copy, newPath := str "b/" ++ n }) :=
  ⟨Names.git_rename_from_p0 n p hq, Names.git_rename_to_p0 n p hq, Names.git_copy_from_p0 n p hq,
    Names.git_copy_to_p0 n p hq⟩

/-- `-p0` leaves every name as it is -/
theorem strip_zero (p : Bytes) : stripPath p 0 = p := Names.stripPath_zero p

/-- a `diff --git a/X b/X` line names X, for every byte string X — also one that contains ` b/` itself (before the fix the
    name ended at the first ` b/`).  No side condition: see `git_header_split_unique`. -/
theorem git_header_same_name (x : Bytes) (strip : Int) :
    parseGitHeaderName (str "a/" ++ x ++ str " b/" ++ x) strip = .ok (stripPath (str "a/" ++ x) strip) :=
  Names.git_header_same_name x strip

/-- why no earlier position can be taken for the split: a position where the text starts with `a/`, continues with ` b/`
    and both halves name the same file is the middle of the text (so there is at most one) -/
theorem git_header_split_unique (r : Bytes) (pos : Nat) (ha : (str "a/").isPrefixOf r = true)
    (hb : (str " b/").isPrefixOf (r.drop pos) = true)
    (heq : (r.take pos).drop 2 = r.drop (pos + 3)) : 2 * pos + 1 = r.length :=
  Names.git_split_middle r pos ha hb heq

end PatchModel.C12
