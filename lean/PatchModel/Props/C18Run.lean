/-
  C18 end to end — the whole modelled program (`runPatch`) on the TEXT of a unified diff, with a backup asked for:

      patch -b [-B pfx] [-z sfx] [-u] [-pN] [-F n] [--newline-output=…] -i pname name

  The situation of `C01.C01_run` (tree with the target `name` — content `bytes`, mode `m`, writable — and the patch file `pname`
  whose content is the text of a unified diff with the hunks `hs`, a `Valid` script of `splitLines bytes`), but with
  `o.saveBackup = true`.  Then (`C18_run_filler`, `C18_run`, `C18_run_orig`):
    * exit status 0;
    * `name` holds the intended result, WITH ITS OLD MODE `m` (the file is re-created — `creat` of the now free path gives it
      `0666 & ~umask` — and the permission callback `chmod`s it back to the mode `fix_permissions_if_needed` remembered);
    * `backupName o name` (`name ++ ".orig"` without -B / -z) holds exactly the old bytes, with the old mode (it IS the old file:
      one `rename`);
    * no other path of the tree differs.
  With --dry-run (`C18_run_dry`, = `C15_run_dry` for any value of `-b`): exit status 0, tree untouched, no backup recorded.

  Side conditions in addition to those of `C01_run` (whose `RunOpts` becomes `RunOptsB`: the same without `noBackup`):
    * `s0.backedUp = []` — REQUIRED (it is what `main` starts with): a backup name that is already in the list is not backed up
      again — the run succeeds and the old bytes are gone (`NeedsFreshBackupList`, evaluated).
    * the directories of the backup name are in the tree (`RunB.DirsThere`) and its directory is a directory
      (`dirExists (parentOf …)`) — REQUIRED for the statement as it stands (`NeedsBackupDirs`, evaluated): with `-B bak/` and no
      `bak`, `make_backup_for` creates `bak` — a path other than the target and the backup differs afterwards —; with `bak` a
      regular file the `rename` fails and the run ends with exit status 2.  Both hold for a backup name without slash (`C18_run`).
    * the backup name is not that of a directory (`hbnd`) — REQUIRED since the model change "a file is not renamed onto a directory"
      (`Fs.apply (.rename a b)`: EISDIR): with `f.orig` a directory the `rename` fails and the run ends with exit status 2, the tree
      untouched (`BackupNameTaken`, evaluated).
    * NOT needed: `backupName o name ≠ name` (a theorem: the backup name is longer, `RunB.backupName_ne`); anything else about
      what is at the backup name before (`Fs.apply (.rename a b)` needs `a` present, the directory of `b` a directory and `b` not
      a directory; whatever else is at `b` — a file, a link — is replaced: `BackupNameTaken`); `backupName o name ≠ pname` (the
      patch file has been read by then; if the backup name IS the patch file's name the patch file is replaced by the backup — the
      statement says so: `lookup (backupName o name) = old file`).

  Second part — C04 / C13 end to end (`C04_run_rejected_filler`, `C04_run_rejected`, `C04_run_rejected_foreign`): the same
  situation without `-b`, the diff has ONE hunk and `locate_hunk` does not find it: exit status 1, the target re-written with its own
  lines (mode kept), `name.rej` = header + the hunk as `write_hunk_as_unified` writes it (for a flat name: the text of the diff
  itself), nothing else differs.  See the section comment there for the side conditions.
-/
import PatchModel.Props.C01Run
import PatchModel.Lemmas.RunB
import PatchModel.Props.C14
import PatchModel.Props.C02
namespace PatchModel.C18Run
open PatchModel PatchModel.Section PatchModel.Run PatchModel.DriverFacts PatchModel.RunB PatchModel.C01

/-- `C01.PlainOpts` without `noBackup` -/
structure BaseOpts (o : Options) (p : Bytes) : Prop where
  operand : o.fileToPatch = p
  noOut : o.outFile = []
  noReverse : o.reverse = false
  noDefine : o.define = []
  fuzz : 0 ≤ o.maxFuzz
  quiet : o.verbose = false

/-- `C01.RunOpts` without `noBackup`: `patch [-b] [-u] [-pN] [-F n] [--newline-output=…] -i pname name` -/
structure RunOptsB (o : Options) (name pname : Bytes) : Prop where
  base : BaseOpts o name
  file : FileOpts o pname

theorem RunOptsB.of_runOpts {o : Options} {name pname : Bytes} (h : RunOpts o name pname) : RunOptsB o name pname :=
  { base := { operand := h.plain.operand, noOut := h.plain.noOut, noReverse := h.plain.noReverse, noDefine := h.plain.noDefine,
              fuzz := h.plain.fuzz, quiet := h.plain.quiet },
    file := h.file }

section
variable {o : Options} {s0 : DState} {name pname bytes : Bytes} {m pm : Nat}
  {filler : List Line} {old new oldt newt : Bytes} {hs : List Hunk}

/-- header scan, body parse and the applier's verdict for the one section of the diff (`C01.plainSection_of_diff` without `noBackup`) -/
theorem baseSection_of_diff (ho : RunOptsB o name pname) (hs0 : CleanStart s0) (hname : name ≠ [])
    (htarget : s0.fs.lookup name = some (.file bytes m)) (hw : m &&& writeMask ≠ 0)
    (hd : UnifiedDiff filler old new oldt newt hs) (hvalid : Valid (splitLines bytes) 0 0 hs) :
    ∃ patch0 info par1 par2 r,
      BaseSection o (forced o) (loopStart s0 (diffLines filler old new oldt newt hs)) name bytes m patch0
        { patch0 with hunks := hs } info par1 par2 r ∧
      r.failed = 0 ∧ r.msgs = [] ∧
      render o.newlineOutput r.out = Render.renderText o.newlineOutput (splice (splitLines bytes) 0 hs) ∧
      par2.s.eof = true := by
  have hfl : ∀ l ∈ filler, l.newline ≠ .none := by
    intro l hl
    have := hd.fillerPlain l hl
    unfold lfPlain at this
    simp only [Bool.and_eq_true, beq_iff_eq] at this
    rw [this.1]; simp
  have hfmt : forced o = .unknown ∨ forced o = .unified := by
    unfold forced; split
    · exact Or.inr rfl
    · exact Or.inl rfl
  obtain ⟨patch0, info, par1, par2, hhdr, hf, hop, hpre, _, hnm, _, hbody, heof⟩ :=
    parse_diffLines o.strip (forced o) hfmt filler old new oldt newt hs 1 hd.fillerInert hfl hd.oldName.1 hd.newName.1
      hd.oldStamp.1 hd.newStamp.1 hd.nonEmpty hd.writable hd.change
  have hrev : (applyOptsOf o).reverse = false := ho.base.noReverse
  obtain ⟨r, hap, hrout, _, hrfail, _, _, _, _, hrmsgs, hrtty, hrpatch⟩ :=
    applyPatch_valid (splitLines bytes) hs { patch0 with hunks := hs } (applyOptsOf o)
      (Option.map (fun l => List.map (fun a => !List.isEmpty a && List.head? a != some 110) l) s0.tty)
      hvalid (by rw [hrev]; rfl) ho.base.noDefine ho.base.fuzz
  refine ⟨patch0, info, par1, par2, r, ?_, hrfail, hrmsgs ho.base.quiet, C01.render_of_lines _ ho.base.noDefine hap hrout, heof⟩
  exact {
    operand := ho.base.operand, noOut := ho.base.noOut, pathNe := hname, cwd := hs0.cwd, hdr := hhdr,
    fmt := Or.inl hf, op := hop, pre := hpre, body := hbody, fmt2 := rfl, op2 := hop, newMode2 := hnm, file := htarget,
    writable := hw, root := hs0.root, noFault := hs0.noFault, apply := hap, ttyLeft := hrtty,
    patch := by rw [hrpatch, hrev]; rfl }

/-- from the closed form of the one section to the closed form of the run (`C01.runPatch_of_section` for `RunB.SectionEnd`;
    the exit status is left to the failure flag) -/
theorem runPatch_of_end (ho : FileOpts o pname) (hs0 : CleanStart s0) (hpn : pname ≠ []) (hpd : pname ≠ [45])
    (hpatch : s0.fs.lookup pname = some (.file (patchText filler old new oldt newt hs) pm))
    (hd : UnifiedDiff filler old new oldt newt hs) (s' : DState) (par2 : Parser)
    (hrun : (processSection o (forced o)).run (loopStart s0 (diffLines filler old new oldt newt hs)) = (.ok true, s'))
    (hdone : SectionEnd (loopStart s0 (diffLines filler old new oldt newt hs)) s' name par2)
    (heof : par2.s.eof = true) :
    runPatch o s0 = (if s'.hadFailure then 1 else 0, s') := by
  have hloop := sectionLoop_one o (forced o) (diffLines filler old new oldt newt hs).length _ s' rfl hrun
    (by rw [hdone.par]; exact heof)
  have hrunP := run_processPatchM o s0 s' pname (patchText filler old new oldt newt hs) pm (forced o) ho.noDir ho.patchFile hpn hpd
    hs0.cwd hpatch hs0.root (diffFormat_plain o ho.noContext ho.noNormal ho.noEd)
    (by rw [splitLines_patchText hd]; exact hloop)
    (by rw [hdone.dWrites]; exact hs0.noWrites) (by rw [hdone.dRemovals]; exact hs0.noRemovals)
  exact runPatch_of_run o s0 s' ho.noHelp ho.noVersion hrunP

/-- **C18, the whole program on the text of a unified diff, `-b`** (inert filler allowed in front of the header; the target may
    sit in a directory of the tree; any `-B` / `-z` whose directories are there).
    CHANGED with the model change "a file is not renamed onto a directory": `hbnd` is new — without it the statement is false
    (`BackupNameTaken`: `f.orig` a directory, exit status 2). -/
theorem C18_run_filler (ho : RunOptsB o name pname) (hb : o.saveBackup = true) (hreal : o.dryRun = false) (hs0 : CleanStart s0)
    (hbu : s0.backedUp = [])
    (hname : name ≠ []) (hdir : s0.fs.dirExists (parentOf name) = true)
    (hbdirs : DirsThere s0.fs (backupName o name)) (hbdir : s0.fs.dirExists (parentOf (backupName o name)) = true)
    (hbnd : ∀ m', s0.fs.lookup (backupName o name) ≠ some (.dir m'))
    (hpn : pname ≠ []) (hpd : pname ≠ [45])
    (htarget : s0.fs.lookup name = some (.file bytes m)) (hw : m &&& writeMask ≠ 0)
    (hpatch : s0.fs.lookup pname = some (.file (patchText filler old new oldt newt hs) pm))
    (hd : UnifiedDiff filler old new oldt newt hs) (hvalid : Valid (splitLines bytes) 0 0 hs) :
    (runPatch o s0).1 = 0 ∧
    (runPatch o s0).2.fs.lookup name = some (.file (Render.renderText o.newlineOutput (splice (splitLines bytes) 0 hs)) m) ∧
    (runPatch o s0).2.fs.lookup (backupName o name) = some (.file bytes m) ∧
    (∀ q, q ≠ name → q ≠ backupName o name → (runPatch o s0).2.fs.lookup q = s0.fs.lookup q) ∧
    (runPatch o s0).2.backedUp = [backupName o name] ∧
    (runPatch o s0).2.trace = s0.trace ++ [.tmpCreate, .tmpUnlink, .tmpCreate, .tmpUnlink] ++
      backupOps o name (Render.renderText o.newlineOutput (splice (splitLines bytes) 0 hs)) m := by
  obtain ⟨patch0, info, par1, par2, r, H, hfail, hmsgs, hrender, heof⟩ := baseSection_of_diff ho hs0 hname htarget hw hd hvalid
  obtain ⟨s', hrun, hfs, htr, hbk, hhf, _, hdone⟩ := processSection_backup H hfail hmsgs hb hreal hdir
    (by show s0.backedUp.contains _ = false; rw [hbu]; rfl) hbdirs hbdir hbnd
  rw [runPatch_of_end ho.file hs0 hpn hpd hpatch hd s' par2 hrun hdone heof]
  have hnf : s'.hadFailure = false := by rw [hhf]; exact hs0.noFailure
  have hne : name ≠ backupName o name := fun e => backupName_ne o name e.symm
  refine ⟨by rw [hnf]; rfl, ?_, ?_, ?_, ?_, ?_⟩
  · show s'.fs.lookup name = _
    rw [hfs, Fs.lookup_set_self, hrender]
  · show s'.fs.lookup _ = _
    rw [hfs, Fs.lookup_set_ne _ _ _ _ hne.symm, Fs.lookup_set_self]
  · intro q hq hqb
    show s'.fs.lookup q = _
    rw [hfs, Fs.lookup_set_ne _ _ _ _ hq, Fs.lookup_set_ne _ _ _ _ hqb, Fs.lookup_erase_ne _ _ _ hq]
  · show s'.backedUp = _
    rw [hbk]; show s0.backedUp ++ _ = _; rw [hbu]; rfl
  · show s'.trace = _
    rw [htr, hrender]; show s0.trace ++ _ ++ _ ++ _ = _
    simp only [List.append_assoc, List.cons_append, List.nil_append]

/-- **the same run under --dry-run, whatever `-b` says** (generalises `C01.C15_run_dry_filler`, which asks for
    `o.saveBackup = false` without using it): exit status 0, the tree untouched, no backup recorded -/
theorem C18_run_dry_filler (ho : RunOptsB o name pname) (hdry : o.dryRun = true) (hs0 : CleanStart s0)
    (hname : name ≠ []) (hpn : pname ≠ []) (hpd : pname ≠ [45])
    (htarget : s0.fs.lookup name = some (.file bytes m)) (hw : m &&& writeMask ≠ 0)
    (hpatch : s0.fs.lookup pname = some (.file (patchText filler old new oldt newt hs) pm))
    (hd : UnifiedDiff filler old new oldt newt hs) (hvalid : Valid (splitLines bytes) 0 0 hs) :
    (runPatch o s0).1 = 0 ∧ (runPatch o s0).2.fs = s0.fs ∧ (runPatch o s0).2.backedUp = s0.backedUp := by
  obtain ⟨patch0, info, par1, par2, r, H, hfail, hmsgs, _, heof⟩ := baseSection_of_diff ho hs0 hname htarget hw hd hvalid
  obtain ⟨s', hrun, hfs, _, hbk, hhf, _, hdone⟩ := processSection_dry_any H hfail hmsgs hdry
  rw [runPatch_of_end ho.file hs0 hpn hpd hpatch hd s' par2 hrun hdone heof]
  have hnf : s'.hadFailure = false := by rw [hhf]; exact hs0.noFailure
  exact ⟨by rw [hnf]; rfl, hfs, hbk⟩

end

/-! ### the statements for a diff of `name` against itself in the working directory, no filler -/

/-- **C18, end to end.**  `patch -b [-B pfx] [-z sfx] -i pname name`, target and backup name in the working directory (no slash
    in either; the backup name not that of a directory: `hbnd`, new): exit status 0, the target holds the intended result with its
    old mode, the backup name holds the old bytes with the old mode, nothing else in the tree differs. -/
theorem C18_run (o : Options) (s0 : DState) (name pname bytes oldt newt : Bytes) (m pm : Nat) (hs : List Hunk)
    (ho : RunOptsB o name pname) (hb : o.saveBackup = true) (hreal : o.dryRun = false) (hs0 : CleanStart s0)
    (hbu : s0.backedUp = [])
    (hn : flatName name) (hbn : ∀ c ∈ backupName o name, c ≠ SLASHB)
    (hbnd : ∀ m', s0.fs.lookup (backupName o name) ≠ some (.dir m')) (hpn : pname ≠ []) (hpd : pname ≠ [45])
    (htarget : s0.fs.lookup name = some (.file bytes m)) (hw : m &&& writeMask ≠ 0)
    (hot : stampOk oldt) (hnt : stampOk newt)
    (hpatch : s0.fs.lookup pname = some (.file (diffText name name oldt newt hs) pm))
    (hh : DiffHunks hs) (hvalid : Valid (splitLines bytes) 0 0 hs) :
    (runPatch o s0).1 = 0 ∧
    (runPatch o s0).2.fs.lookup name = some (.file (Render.renderText o.newlineOutput (splice (splitLines bytes) 0 hs)) m) ∧
    (runPatch o s0).2.fs.lookup (backupName o name) = some (.file bytes m) ∧
    (∀ q, q ≠ name → q ≠ backupName o name → (runPatch o s0).2.fs.lookup q = s0.fs.lookup q) ∧
    (runPatch o s0).2.backedUp = [backupName o name] ∧
    (runPatch o s0).2.trace = s0.trace ++ [.tmpCreate, .tmpUnlink, .tmpCreate, .tmpUnlink] ++
      backupOps o name (Render.renderText o.newlineOutput (splice (splitLines bytes) 0 hs)) m :=
  C18_run_filler (filler := []) ho hb hreal hs0 hbu hn.1 (dirExists_parent_of_noSlash s0.fs hn.2.1)
    (dirsThere_flat s0.fs hbn) (dirExists_parent_of_noSlash s0.fs hbn) hbnd hpn hpd htarget hw hpatch
    (unifiedDiff_of_flat hn hot hnt hh) hvalid

/-- `name ++ ".orig"` has no slash when `name` has none -/
theorem orig_flat {name : Bytes} (h : ∀ c ∈ name, c ≠ SLASHB) : ∀ c ∈ name ++ str ".orig", c ≠ SLASHB := by
  intro c hc
  rcases List.mem_append.1 hc with h1 | h1
  · exact h c h1
  · rw [str_orig] at h1
    intro e; subst e
    revert h1; decide

/-- **C18, end to end, plain `-b`** (no -B, no -z): the backup is `name.orig` (which is not a directory: `hbnd`, new) -/
theorem C18_run_orig (o : Options) (s0 : DState) (name pname bytes oldt newt : Bytes) (m pm : Nat) (hs : List Hunk)
    (ho : RunOptsB o name pname) (hb : o.saveBackup = true) (hpre : o.backupPrefix = []) (hsuf : o.backupSuffix = [])
    (hreal : o.dryRun = false) (hs0 : CleanStart s0) (hbu : s0.backedUp = [])
    (hn : flatName name) (hbnd : ∀ m', s0.fs.lookup (name ++ str ".orig") ≠ some (.dir m')) (hpn : pname ≠ []) (hpd : pname ≠ [45])
    (htarget : s0.fs.lookup name = some (.file bytes m)) (hw : m &&& writeMask ≠ 0)
    (hot : stampOk oldt) (hnt : stampOk newt)
    (hpatch : s0.fs.lookup pname = some (.file (diffText name name oldt newt hs) pm))
    (hh : DiffHunks hs) (hvalid : Valid (splitLines bytes) 0 0 hs) :
    (runPatch o s0).1 = 0 ∧
    (runPatch o s0).2.fs.lookup name = some (.file (Render.renderText o.newlineOutput (splice (splitLines bytes) 0 hs)) m) ∧
    (runPatch o s0).2.fs.lookup (name ++ str ".orig") = some (.file bytes m) ∧
    (∀ q, q ≠ name → q ≠ name ++ str ".orig" → (runPatch o s0).2.fs.lookup q = s0.fs.lookup q) := by
  have e : backupName o name = name ++ str ".orig" := (C18.backupName_spec o name).1 hpre hsuf
  have h := C18_run o s0 name pname bytes oldt newt m pm hs ho hb hreal hs0 hbu hn (by rw [e]; exact orig_flat hn.2.1)
    (by rw [e]; exact hbnd) hpn hpd
    htarget hw hot hnt hpatch hh hvalid
  rw [e] at h
  exact ⟨h.1, h.2.1, h.2.2.1, h.2.2.2.1⟩

/-- **C15 / C18, end to end**: the run with --dry-run predicts success and leaves the tree alone — with or without `-b` -/
theorem C18_run_dry (o : Options) (s0 : DState) (name pname bytes oldt newt : Bytes) (m pm : Nat) (hs : List Hunk)
    (ho : RunOptsB o name pname) (hdry : o.dryRun = true) (hs0 : CleanStart s0)
    (hn : flatName name) (hpn : pname ≠ []) (hpd : pname ≠ [45])
    (htarget : s0.fs.lookup name = some (.file bytes m)) (hw : m &&& writeMask ≠ 0)
    (hot : stampOk oldt) (hnt : stampOk newt)
    (hpatch : s0.fs.lookup pname = some (.file (diffText name name oldt newt hs) pm))
    (hh : DiffHunks hs) (hvalid : Valid (splitLines bytes) 0 0 hs) :
    (runPatch o s0).1 = 0 ∧ (runPatch o s0).2.fs = s0.fs ∧ (runPatch o s0).2.backedUp = s0.backedUp :=
  C18_run_dry_filler (filler := []) ho hdry hs0 hn.1 hpn hpd htarget hw hpatch (unifiedDiff_of_flat hn hot hnt hh) hvalid

/-! ## C04 / C13 end to end: the run whose single hunk cannot be placed

`patch [-u] [-pN] [-F n] -i pname name` where `locate_hunk` does not find the one hunk `h` of the diff in the target (and does not
find the reversed hunk either — otherwise a question would be asked —, or `-f`): exit status 1; the target is re-written with its
own lines (`renderLines o.newlineOutput (splitLines bytes)` — its own BYTES under `--newline-output=keep`, or when no line of it
ends in CR LF: `rewritten_same`), mode kept; `name.rej` is a new file that holds the header (names as stripped, time stamps as
read) and the hunk `h` as `write_hunk_as_unified` writes it — unshifted, there being no earlier hunk —; nothing else differs.
"Cannot be placed" is the hypothesis `locateHunk … = none` itself (decidable; evaluated in the kernel for the instance below).
"No line of the target equals an old-side line of the hunk" does NOT imply it when the hunk has context on both sides and only
additions between (fuzz trims the context away and what is left matches anywhere): `Rejected.fuzzPlacesAnywhere`. -/

/-- `Run.parse_diffLines`, with the names and time stamps the header scan stores (they go to the reject file) -/
theorem parse_diffLines_names (strip : Int) (fmt : Format) (hfmt : fmt = .unknown ∨ fmt = .unified)
    (filler : List Line) (old new oldt newt : Bytes) (hs : List Hunk) (lineNo : Nat)
    (hin : ∀ l ∈ filler, inertLine l.content = true) (hft : ∀ l ∈ filler, l.newline ≠ .none)
    (hold : Header.plainName old) (hnew : Header.plainName new) (hot : oldt ≠ []) (hnt : newt ≠ [])
    (hne : hs ≠ []) (hw : ∀ h ∈ hs, h.writable = true) (hchg : changeStart hs = true) :
    ∃ patch0 info par1 par2,
      parseHeader { s := { rest := diffLines filler old new oldt newt hs }, lineNo := lineNo } { format := fmt } strip
        = .ok (true, patch0, info, par1) ∧
      patch0.format = .unified ∧ patch0.operation = .change ∧ patch0.prerequisite = [] ∧
      patch0.newMode = 0 ∧ patch0.oldPath = Header.stripped old strip ∧ patch0.newPath = Header.stripped new strip ∧
      patch0.oldTime = oldt ∧ patch0.newTime = newt ∧
      parseBody par1 patch0 = .ok ({ patch0 with hunks := hs }, par2) ∧ par2.s.eof = true := by
  cases hs with
  | nil => exact absurd rfl hne
  | cons h hs' =>
    have hwh := hw h List.mem_cons_self
    obtain ⟨pl, more, -, hop, hlines⟩ := flatMap_hunkLines_first h hs' hwh
    have hb : Header.bodyStart (pl.op :: pl.line.content) := by
      rcases hop with e | e | e
      · exact Or.inr (Or.inr ((Header.startsWith_one _ _ _ Header.str_sp).2 (by rw [e]; rfl)))
      · exact Or.inl ((Header.startsWith_one _ _ _ Header.str_plus).2 (by rw [e]; rfl))
      · exact Or.inr (Or.inl ((Header.startsWith_one _ _ _ Header.str_minus).2 (by rw [e]; rfl)))
    have hchg' : h.old.start ≠ 0 ∧ h.new.start ≠ 0 := by simpa [changeStart] using hchg
    have hp := Header.parseHeader_unified' strip
      { s := { rest := diffLines filler old new oldt newt (h :: hs') }, lineNo := lineNo } { format := fmt } filler
      old new oldt newt h ⟨pl.op :: pl.line.content, Unified.wireNl pl.line⟩ more hin hft hold hnew hot hnt
      (rangeOk_of_writable h hwh) hb (Unified.wireNl_ne_none _) hfmt rfl rfl rfl (by simp only [diffLines]; rw [hlines])
    obtain ⟨par2, hbody, _, heof, _⟩ := unified_roundtrip_eof (h :: hs') hne hw (lineNo + (filler.length + 2))
    rw [hlines] at hbody
    have hinf : Header.inferredOp h = .change := by
      unfold Header.inferredOp; rw [if_neg hchg'.2, if_neg hchg'.1]
    refine ⟨_, _, _, par2, hp, rfl, hinf, rfl, rfl, rfl, rfl, rfl, rfl, ?_, heof⟩
    simp only [parseBody]
    rw [hbody]
    rfl

/-- the options of the rejected run: no backup (neither `-b` nor `--backup-if-mismatch`), no `-r`, rejects not forced to context -/
structure RejOpts (o : Options) (name pname : Bytes) : Prop where
  base : BaseOpts o name
  noBackup : o.saveBackup = false
  noMismatchBackup : o.backupIfMismatch ≠ .yes
  noRejectFile : o.rejectFile = []
  rejectUnified : o.rejectFormat ≠ .context
  file : FileOpts o pname

/-- re-writing a file with its own lines gives its own bytes under `--newline-output=keep`, and in the LF modes when no line of it
    ends in CR LF -/
theorem rewritten_same (mode : NewlineOutput) (bytes : Bytes)
    (h : mode = .keep ∨ ((mode = .lf ∨ mode = .native) ∧ ∀ l ∈ splitLines bytes, l.newline ≠ .crlf)) :
    renderLines mode (splitLines bytes) = bytes := by
  rcases h with rfl | ⟨hm, hl⟩
  · exact C14.read_write_id bytes
  · have : ∀ ls : List Line, (∀ l ∈ ls, l.newline ≠ .crlf) → renderLines mode ls = renderLines .keep ls := by
      intro ls
      induction ls with
      | nil => intro _; rfl
      | cons l ls ih =>
        intro hls
        rw [Render.renderLines_cons, Render.renderLines_cons, ih (fun x hx => hls x (List.mem_cons_of_mem _ hx)),
          Render.renderLine_lf mode hm, Render.renderLine_keep]
        have := hls l List.mem_cons_self
        rcases l with ⟨c, nl⟩
        cases nl <;> simp_all
    rw [this _ hl]
    exact C14.read_write_id bytes

section
variable {o : Options} {s0 : DState} {name pname bytes : Bytes} {m pm : Nat}
  {filler : List Line} {old new oldt newt : Bytes} {h : Hunk}

/-- the reject file of the run: the two header lines with the names as stripped, then the hunk -/
def rejText (strip : Int) (old new oldt newt : Bytes) (h : Hunk) : Bytes :=
  headerLine "--- " (Header.stripped old strip) oldt ++ headerLine "+++ " (Header.stripped new strip) newt ++ writeHunkUnified h

/-- header scan, body parse and the applier's verdict for a diff whose one hunk cannot be placed -/
theorem rejSection_of_diff (ho : RejOpts o name pname) (hs0 : CleanStart s0) (hname : name ≠ [])
    (htarget : s0.fs.lookup name = some (.file bytes m)) (hw : m &&& writeMask ≠ 0)
    (hd : UnifiedDiff filler old new oldt newt [h])
    (hloc : locateHunk (splitLines bytes) h o.ignoreWhitespace 0 o.maxFuzz 0 = none)
    (hrloc : o.force = true ∨ locateHunk (splitLines bytes) (reverseHunk h) o.ignoreWhitespace 0 o.maxFuzz 0 = none) :
    ∃ patch0 info par1 par2 r,
      BaseSection o (forced o) (loopStart s0 (diffLines filler old new oldt newt [h])) name bytes m patch0
        { patch0 with hunks := [h] } info par1 par2 r ∧
      r.failed = 1 ∧ r.rejBytes = rejText o.strip old new oldt newt h ∧
      render o.newlineOutput r.out = renderLines o.newlineOutput (splitLines bytes) ∧
      par2.s.eof = true := by
  have hfl : ∀ l ∈ filler, l.newline ≠ .none := by
    intro l hl
    have := hd.fillerPlain l hl
    unfold lfPlain at this
    simp only [Bool.and_eq_true, beq_iff_eq] at this
    rw [this.1]; simp
  have hfmt : forced o = .unknown ∨ forced o = .unified := by
    unfold forced; split
    · exact Or.inr rfl
    · exact Or.inl rfl
  obtain ⟨patch0, info, par1, par2, hhdr, hf, hop, hpre, hnm, hop0, hnp0, hot0, hnt0, hbody, heof⟩ :=
    parse_diffLines_names o.strip (forced o) hfmt filler old new oldt newt [h] 1 hd.fillerInert hfl hd.oldName.1 hd.newName.1
      hd.oldStamp.1 hd.newStamp.1 hd.nonEmpty hd.writable hd.change
  have hrev : (applyOptsOf o).reverse = false := ho.base.noReverse
  have hru : rejectAsUnified (applyOptsOf o).rejectFormat ({ patch0 with hunks := [h] } : Patch).format = true := by
    show rejectAsUnified o.rejectFormat patch0.format = true
    rw [hf]
    have := ho.rejectUnified
    cases hx : o.rejectFormat <;> first | rfl | exact absurd hx this
  obtain ⟨r, hap, hrout, hrb, hrfail, _, _, _, _, _, hrtty, hrpatch⟩ :=
    applyPatch_reject_one (splitLines bytes) h { patch0 with hunks := [h] } (applyOptsOf o)
      (Option.map (fun l => List.map (fun a => !List.isEmpty a && List.head? a != some 110) l) s0.tty)
      hrev rfl hloc hrloc hru
  refine ⟨patch0, info, par1, par2, r, ?_, hrfail, ?_,
    Render.render_of_map_line _ hrout (Render.linesTerminated_splitLines bytes), heof⟩
  · exact {
      operand := ho.base.operand, noOut := ho.base.noOut, pathNe := hname, cwd := hs0.cwd, hdr := hhdr,
      fmt := Or.inl hf, op := hop, pre := hpre, body := hbody, fmt2 := rfl, op2 := hop, newMode2 := hnm, file := htarget,
      writable := hw, root := hs0.root, noFault := hs0.noFault, apply := hap, ttyLeft := hrtty, patch := hrpatch }
  · rw [hrb, rejText, writeHeaderUnified]
    show headerLine "--- " patch0.oldPath patch0.oldTime ++ headerLine "+++ " patch0.newPath patch0.newTime ++ _ = _
    rw [hop0, hnp0, hot0, hnt0]

/-- **C04 / C13, the whole program on the text of a unified diff whose hunk cannot be placed** -/
theorem C04_run_rejected_filler (ho : RejOpts o name pname) (hreal : o.dryRun = false) (hs0 : CleanStart s0)
    (hrw : s0.rejWritten = [])
    (hname : name ≠ []) (hdir : s0.fs.dirExists (parentOf name) = true)
    (hfree : s0.fs.lookup (name ++ str ".rej") = none)
    (hrdirs : DirsThere s0.fs (name ++ str ".rej")) (hrdir : s0.fs.dirExists (parentOf (name ++ str ".rej")) = true)
    (hpn : pname ≠ []) (hpd : pname ≠ [45])
    (htarget : s0.fs.lookup name = some (.file bytes m)) (hw : m &&& writeMask ≠ 0)
    (hpatch : s0.fs.lookup pname = some (.file (patchText filler old new oldt newt [h]) pm))
    (hd : UnifiedDiff filler old new oldt newt [h])
    (hloc : locateHunk (splitLines bytes) h o.ignoreWhitespace 0 o.maxFuzz 0 = none)
    (hrloc : o.force = true ∨ locateHunk (splitLines bytes) (reverseHunk h) o.ignoreWhitespace 0 o.maxFuzz 0 = none) :
    (runPatch o s0).1 = 1 ∧
    (runPatch o s0).2.fs.lookup name = some (.file (renderLines o.newlineOutput (splitLines bytes)) m) ∧
    (runPatch o s0).2.fs.lookup (name ++ str ".rej") =
      some (.file (rejText o.strip old new oldt newt h) (0o666 - (0o666 &&& s0.fs.umask))) ∧
    (∀ q, q ≠ name → q ≠ name ++ str ".rej" → (runPatch o s0).2.fs.lookup q = s0.fs.lookup q) ∧
    (runPatch o s0).2.trace = s0.trace ++ [.tmpCreate, .tmpUnlink, .tmpCreate, .tmpUnlink] ++
      writeOps (name ++ str ".rej") (rejText o.strip old new oldt newt h) ++
      resultOps name (renderLines o.newlineOutput (splitLines bytes)) m := by
  obtain ⟨patch0, info, par1, par2, r, H, hfail, hrb, hrender, heof⟩ :=
    rejSection_of_diff ho hs0 hname htarget hw hd hloc hrloc
  obtain ⟨s', hrun, hfs, htr, _, _, hhf, _, hdone⟩ := processSection_rejected H (by rw [hfail]; decide) ho.noBackup
    ho.noMismatchBackup ho.noRejectFile hreal hdir (by show s0.rejWritten.contains _ = false; rw [hrw]; rfl) hfree hrdirs hrdir
  rw [runPatch_of_end ho.file hs0 hpn hpd hpatch hd s' par2 hrun hdone heof]
  have hpr : name ≠ name ++ str ".rej" := by
    intro e
    have := congrArg List.length e
    rw [str_rej] at this; simp at this
  refine ⟨by rw [hhf]; rfl, ?_, ?_, ?_, ?_⟩
  · show s'.fs.lookup name = _
    rw [hfs, Fs.lookup_set_self, hrender]
  · show s'.fs.lookup _ = _
    rw [hfs, Fs.lookup_set_ne _ _ _ _ hpr.symm, Fs.lookup_set_self, hrb]
  · intro q hq hqr
    show s'.fs.lookup q = _
    rw [hfs, Fs.lookup_set_ne _ _ _ _ hq, Fs.lookup_set_ne _ _ _ _ hqr]
  · show s'.trace = _
    rw [htr, hrender, hrb]; show s0.trace ++ _ ++ _ ++ _ ++ _ = _
    simp only [List.append_assoc, List.cons_append, List.nil_append]

end

/-- the reject text for a name that is not stripped is the text of the diff itself -/
theorem rejText_flat {name oldt newt : Bytes} {strip : Int} (h : Hunk) (hn : flatName name) (hstrip : strip ≤ 0)
    (hot : oldt ≠ []) (hnt : newt ≠ []) :
    rejText strip name name oldt newt h = diffText name name oldt newt [h] := by
  have hnd := flat_ne_devNull hn.2.1
  have e : Header.stripped name strip = name := by
    unfold Header.stripped; rw [if_neg hnd, stripPath_flat hn.2.1 hstrip]
  unfold rejText headerLine diffText
  rw [e, if_pos ⟨hot, hnd⟩, if_pos ⟨hnt, hnd⟩]
  simp [List.append_assoc]

/-- **C04 / C13, end to end.**  `patch -i pname name` (no `-p`, or `-p0`), target in the working directory, the diff's one hunk
    cannot be placed: exit status 1, the target holds its own lines again (mode kept), `name.rej` — a new file — holds the text of
    the diff, nothing else in the tree differs -/
theorem C04_run_rejected (o : Options) (s0 : DState) (name pname bytes oldt newt : Bytes) (m pm : Nat) (h : Hunk)
    (ho : RejOpts o name pname) (hstrip : o.strip ≤ 0) (hreal : o.dryRun = false) (hs0 : CleanStart s0)
    (hrw : s0.rejWritten = [])
    (hn : flatName name) (hfree : s0.fs.lookup (name ++ str ".rej") = none) (hpn : pname ≠ []) (hpd : pname ≠ [45])
    (htarget : s0.fs.lookup name = some (.file bytes m)) (hw : m &&& writeMask ≠ 0)
    (hot : stampOk oldt) (hnt : stampOk newt)
    (hpatch : s0.fs.lookup pname = some (.file (diffText name name oldt newt [h]) pm))
    (hh : DiffHunks [h])
    (hloc : locateHunk (splitLines bytes) h o.ignoreWhitespace 0 o.maxFuzz 0 = none)
    (hrloc : o.force = true ∨ locateHunk (splitLines bytes) (reverseHunk h) o.ignoreWhitespace 0 o.maxFuzz 0 = none) :
    (runPatch o s0).1 = 1 ∧
    (runPatch o s0).2.fs.lookup name = some (.file (renderLines o.newlineOutput (splitLines bytes)) m) ∧
    (runPatch o s0).2.fs.lookup (name ++ str ".rej") =
      some (.file (diffText name name oldt newt [h]) (0o666 - (0o666 &&& s0.fs.umask))) ∧
    (∀ q, q ≠ name → q ≠ name ++ str ".rej" → (runPatch o s0).2.fs.lookup q = s0.fs.lookup q) := by
  have hrf : ∀ c ∈ name ++ str ".rej", c ≠ SLASHB := by
    intro c hc
    rcases List.mem_append.1 hc with h1 | h1
    · exact hn.2.1 c h1
    · rw [str_rej] at h1
      intro e; subst e
      revert h1; decide
  have := C04_run_rejected_filler (filler := []) ho hreal hs0 hrw hn.1 (dirExists_parent_of_noSlash s0.fs hn.2.1) hfree
    (dirsThere_flat s0.fs hrf) (dirExists_parent_of_noSlash s0.fs hrf) hpn hpd htarget hw hpatch
    (unifiedDiff_of_flat hn hot hnt hh) hloc hrloc
  rw [rejText_flat h hn hstrip hot.1 hnt.1] at this
  exact ⟨this.1, this.2.1, this.2.2.1, this.2.2.2.1⟩

/-! ### a sufficient condition for "cannot be placed"

No line of the target matches any old-side line of the hunk, AND the hunk's old side is more than its leading and trailing context
(it removes a line, or has context between two changes) — then whatever fuzz trims away, an old-side line is left to compare, and
it matches nowhere.  Without the second condition the first does not suffice (`Rejected.fuzzPlacesAnywhere` below). -/

theorem locateHunk_none_of_foreign (file : List Line) (h : Hunk) (iw : Bool) (offset maxFuzz : Int) (ml : Nat)
    (hc : h.old.count ≠ 0)
    (hmid : prefixCtx h.lines + suffixCtx h.lines < oldLineCount h.lines)
    (hforeign : ∀ a ∈ file, ∀ b ∈ oldOf h.lines, lineEqB iw a b = false) :
    locateHunk file h iw offset maxFuzz ml = none := by
  cases hl : locateHunk file h iw offset maxFuzz ml with
  | none => rfl
  | some loc =>
    obtain ⟨p, f, _, _, _, hadm, _⟩ := C02.locate_sound file h iw offset maxFuzz ml loc hl hc
    rw [admissibleB_iff] at hadm
    obtain ⟨_, hf, _, hfit, _, hall⟩ := hadm
    rw [oldLineCount_eq] at hmid
    have h1 := fuzzPair_fst h.lines f
    have h2 := fuzzPair_snd h.lines f
    have hj : (fuzzPair h.lines f).1 < (oldOf h.lines).length := by omega
    rcases hall _ hj with h3 | h3 | ⟨a, b, ea, eb, hab⟩
    · omega
    · omega
    · have := hforeign a (List.mem_of_getElem? ea) b (List.mem_of_getElem? eb)
      rw [this] at hab; cases hab

/-- a hunk is foreign to a file: its old side is not empty, is more than outer context, and none of its lines matches a line of
    the file -/
def Foreign (file : List Line) (h : Hunk) (iw : Bool) : Prop :=
  h.old.count ≠ 0 ∧ prefixCtx h.lines + suffixCtx h.lines < oldLineCount h.lines ∧
  ∀ a ∈ file, ∀ b ∈ oldOf h.lines, lineEqB iw a b = false

instance (file : List Line) (h : Hunk) (iw : Bool) : Decidable (Foreign file h iw) := by unfold Foreign; infer_instance

/-- **C04 / C13, end to end, with the condition on the lines**: the hunk and its reversal are both foreign to the target (or `-f`) -/
theorem C04_run_rejected_foreign (o : Options) (s0 : DState) (name pname bytes oldt newt : Bytes) (m pm : Nat) (h : Hunk)
    (ho : RejOpts o name pname) (hstrip : o.strip ≤ 0) (hreal : o.dryRun = false) (hs0 : CleanStart s0)
    (hrw : s0.rejWritten = [])
    (hn : flatName name) (hfree : s0.fs.lookup (name ++ str ".rej") = none) (hpn : pname ≠ []) (hpd : pname ≠ [45])
    (htarget : s0.fs.lookup name = some (.file bytes m)) (hw : m &&& writeMask ≠ 0)
    (hot : stampOk oldt) (hnt : stampOk newt)
    (hpatch : s0.fs.lookup pname = some (.file (diffText name name oldt newt [h]) pm))
    (hh : DiffHunks [h])
    (hf : Foreign (splitLines bytes) h o.ignoreWhitespace)
    (hfr : o.force = true ∨ Foreign (splitLines bytes) (reverseHunk h) o.ignoreWhitespace) :
    (runPatch o s0).1 = 1 ∧
    (runPatch o s0).2.fs.lookup name = some (.file (renderLines o.newlineOutput (splitLines bytes)) m) ∧
    (runPatch o s0).2.fs.lookup (name ++ str ".rej") =
      some (.file (diffText name name oldt newt [h]) (0o666 - (0o666 &&& s0.fs.umask))) ∧
    (∀ q, q ≠ name → q ≠ name ++ str ".rej" → (runPatch o s0).2.fs.lookup q = s0.fs.lookup q) :=
  C04_run_rejected o s0 name pname bytes oldt newt m pm h ho hstrip hreal hs0 hrw hn hfree hpn hpd htarget hw hot hnt hpatch hh
    (locateHunk_none_of_foreign _ _ _ _ _ _ hf.1 hf.2.1 hf.2.2)
    (hfr.imp id fun hr => locateHunk_none_of_foreign _ _ _ _ _ _ hr.1 hr.2.1 hr.2.2)

/-! ## non-vacuity: concrete runs

The instance of `C01Run`: `f` = "a\nb\nc\n" (mode 0644), `p.diff` = a one-hunk unified diff that changes `b` to `B`; options
`-b -i p.diff f`.  Every hypothesis of `C18_run_orig` is discharged by evaluation in the kernel, the theorem is applied, and —
independently — the executable model is run on the same state (`#guard`: executable tests, not proofs). -/
namespace Instance
open PatchModel.C01.Instance (name pname bytes oldt newt hk s0 diffHunks)

def ob : Options := { defaultOptions with fileToPatch := name, patchFile := pname, saveBackup := true }
def orig : Bytes := [102, 46, 111, 114, 105, 103]            -- "f.orig"
def result : Bytes := [97, 10, 66, 10, 99, 10]               -- "a\nB\nc\n"
#guard orig == str "f.orig" && result == str "a\nB\nc\n" && backupName ob name == orig

theorem runOptsB : RunOptsB ob name pname :=
  { base := { operand := rfl, noOut := rfl, noReverse := rfl, noDefine := rfl, fuzz := by decide, quiet := rfl },
    file := { patchFile := rfl, noDir := rfl, noHelp := rfl, noVersion := rfl, noContext := rfl, noNormal := rfl, noEd := rfl } }

/-- **`C18_run_orig` applies** (all hypotheses discharged in the kernel): exit status 0, `f` = "a\nB\nc\n" mode 0644,
    `f.orig` = "a\nb\nc\n" mode 0644, nothing else touched -/
theorem applies :
    (runPatch ob s0).1 = 0 ∧
    (runPatch ob s0).2.fs.lookup name = some (.file result 0o644) ∧
    (runPatch ob s0).2.fs.lookup orig = some (.file bytes 0o644) ∧
    ∀ q, q ≠ name → q ≠ orig → (runPatch ob s0).2.fs.lookup q = s0.fs.lookup q := by
  have h := C18_run_orig ob s0 name pname bytes oldt newt 0o644 0o644 [hk] runOptsB rfl rfl rfl rfl ⟨rfl, rfl, rfl, rfl, rfl, rfl⟩ rfl
    (by decide) (by rw [str_orig]; exact notDir_of_none (by decide)) (by decide) (by decide) rfl (by decide) (by decide) (by decide) rfl
    diffHunks (validB_sound _ _ _ _ (by decide))
  have e : name ++ str ".orig" = orig := by rw [str_orig]; rfl
  have hm : Render.renderText ob.newlineOutput (splice (splitLines bytes) 0 [hk]) = result := by decide
  rw [e, hm] at h
  exact h

/-- the general form (`C18_run`, which also gives the list of backups made and the trace) applies as well -/
theorem applies_trace :
    (runPatch ob s0).2.backedUp = [backupName ob name] ∧
    (runPatch ob s0).2.trace = [.tmpCreate, .tmpUnlink, .tmpCreate, .tmpUnlink] ++ backupOps ob name result 0o644 := by
  have h := C18_run ob s0 name pname bytes oldt newt 0o644 0o644 [hk] runOptsB rfl rfl ⟨rfl, rfl, rfl, rfl, rfl, rfl⟩ rfl
    (by decide) (orig_flat (by decide))
    (by rw [(C18.backupName_spec ob name).1 rfl rfl, str_orig]; exact notDir_of_none (by decide)) (by decide) (by decide) rfl (by decide) (by decide) (by decide) rfl
    diffHunks
    (validB_sound _ _ _ _ (by decide))
  have hm : Render.renderText ob.newlineOutput (splice (splitLines bytes) 0 [hk]) = result := by decide
  rw [hm] at h
  exact ⟨h.2.2.2.2.1, h.2.2.2.2.2⟩

/-- the --dry-run sibling applies, `-b` given -/
example : (runPatch { ob with dryRun := true } s0).1 = 0 ∧ (runPatch { ob with dryRun := true } s0).2.fs = s0.fs ∧
    (runPatch { ob with dryRun := true } s0).2.backedUp = [] :=
  C18_run_dry { ob with dryRun := true } s0 name pname bytes oldt newt 0o644 0o644 [hk]
    { base := { operand := rfl, noOut := rfl, noReverse := rfl, noDefine := rfl, fuzz := by decide, quiet := rfl },
      file := { patchFile := rfl, noDir := rfl, noHelp := rfl, noVersion := rfl, noContext := rfl, noNormal := rfl, noEd := rfl } }
    rfl ⟨rfl, rfl, rfl, rfl, rfl, rfl⟩ (by decide) (by decide) (by decide) rfl (by decide) (by decide) (by decide) rfl
    diffHunks (validB_sound _ _ _ _ (by decide))

-- independently: the executable model on the same state
#guard (runPatch ob s0).1 == 0
#guard (runPatch ob s0).2.fs.lookup name == some (.file (str "a\nB\nc\n") 0o644)
#guard (runPatch ob s0).2.fs.lookup (str "f.orig") == some (.file (str "a\nb\nc\n") 0o644)
#guard (runPatch ob s0).2.fs.lookup pname == s0.fs.lookup pname
#guard (runPatch ob s0).2.fs.nodes.length == 3
#guard (runPatch ob s0).2.backedUp == [str "f.orig"]
#guard (runPatch ob s0).2.trace == [.tmpCreate, .tmpUnlink, .tmpCreate, .tmpUnlink, .rename name (str "f.orig"), .creat name,
                                    .write name (str "a\nB\nc\n"), .chmod name 0o644]
#guard (runPatch { ob with dryRun := true } s0).1 == 0 && (runPatch { ob with dryRun := true } s0).2.fs.nodes == s0.fs.nodes &&
  (runPatch { ob with dryRun := true } s0).2.backedUp.isEmpty

/-! the mode: `creat` of the free path gives `0666 & ~umask` = 0644 here; the `chmod` of the permission callback restores the
    mode of the old file, be it wider (0755) or narrower (0600) -/
def sMode (md : Nat) : DState :=
  { fs := { nodes := [(name, .file bytes md), (pname, .file (diffText name name oldt newt [hk]) 0o644)] } }
#guard (0o666 - (0o666 &&& (sMode 0o755).fs.umask)) == 0o644
#guard (runPatch ob (sMode 0o755)).2.fs.lookup name == some (.file (str "a\nB\nc\n") 0o755) &&
  (runPatch ob (sMode 0o755)).2.fs.lookup (str "f.orig") == some (.file (str "a\nb\nc\n") 0o755) &&
  (runPatch ob (sMode 0o755)).2.trace.getLast? == some (.chmod name 0o755)
#guard (runPatch ob (sMode 0o600)).2.fs.lookup name == some (.file (str "a\nB\nc\n") 0o600) &&
  (runPatch ob (sMode 0o600)).2.fs.lookup (str "f.orig") == some (.file (str "a\nb\nc\n") 0o600)

/-! `-z .bak` (`C18_run`, backup name without slash) and `-B bak/` with the directory `bak` in the tree (`C18_run_filler`) -/
def oz : Options := { ob with backupSuffix := [46, 98, 97, 107] }                       -- -z .bak
def fbak : Bytes := [102, 46, 98, 97, 107]                                             -- "f.bak"
theorem applies_suffix :
    (runPatch oz s0).1 = 0 ∧ (runPatch oz s0).2.fs.lookup name = some (.file result 0o644) ∧
    (runPatch oz s0).2.fs.lookup fbak = some (.file bytes 0o644) := by
  have h := C18_run oz s0 name pname bytes oldt newt 0o644 0o644 [hk]
    { base := { operand := rfl, noOut := rfl, noReverse := rfl, noDefine := rfl, fuzz := by decide, quiet := rfl },
      file := { patchFile := rfl, noDir := rfl, noHelp := rfl, noVersion := rfl, noContext := rfl, noNormal := rfl, noEd := rfl } }
    rfl rfl ⟨rfl, rfl, rfl, rfl, rfl, rfl⟩ rfl
    (by decide) (by decide) (notDir_of_none (by decide)) (by decide) (by decide) rfl (by decide) (by decide) (by decide) rfl diffHunks
    (validB_sound _ _ _ _ (by decide))
  have hm : Render.renderText oz.newlineOutput (splice (splitLines bytes) 0 [hk]) = result := by decide
  rw [hm] at h
  exact ⟨h.1, h.2.1, h.2.2.1⟩
#guard fbak == str "f.bak" && (runPatch oz s0).2.fs.lookup (str "f.bak") == some (.file (str "a\nb\nc\n") 0o644)

def oB : Options := { ob with backupPrefix := [98, 97, 107, 47] }                      -- -B bak/
def bakf : Bytes := [98, 97, 107, 47, 102]                                             -- "bak/f"
def s0d : DState :=
  { fs := { nodes := [(name, .file bytes 0o644), (pname, .file (diffText name name oldt newt [hk]) 0o644), ([98, 97, 107], .dir 0o755)] } }
theorem applies_prefix :
    (runPatch oB s0d).1 = 0 ∧ (runPatch oB s0d).2.fs.lookup name = some (.file result 0o644) ∧
    (runPatch oB s0d).2.fs.lookup bakf = some (.file bytes 0o644) ∧
    (runPatch oB s0d).2.fs.lookup [98, 97, 107] = some (.dir 0o755) := by
  have h := C18_run_filler (o := oB) (s0 := s0d) (name := name) (pname := pname) (bytes := bytes) (m := 0o644) (pm := 0o644)
    (filler := []) (old := name) (new := name) (oldt := oldt) (newt := newt) (hs := [hk])
    { base := { operand := rfl, noOut := rfl, noReverse := rfl, noDefine := rfl, fuzz := by decide, quiet := rfl },
      file := { patchFile := rfl, noDir := rfl, noHelp := rfl, noVersion := rfl, noContext := rfl, noNormal := rfl, noEd := rfl } }
    rfl rfl ⟨rfl, rfl, rfl, rfl, rfl, rfl⟩ rfl (by decide) (by decide) (by unfold DirsThere; decide) (by decide)
    (notDir_of_none (by decide)) (by decide) (by decide)
    rfl (by decide) rfl (unifiedDiff_of_flat (by decide) (by decide) (by decide) diffHunks) (validB_sound _ _ _ _ (by decide))
  have hm : Render.renderText oB.newlineOutput (splice (splitLines bytes) 0 [hk]) = result := by decide
  rw [hm] at h
  exact ⟨h.1, h.2.1, h.2.2.1, (h.2.2.2.1 _ (by decide) (by decide)).trans (by decide)⟩
#guard bakf == str "bak/f" && (runPatch oB s0d).1 == 0 &&
  (runPatch oB s0d).2.trace.drop 4 == [.rename name (str "bak/f"), .creat name, .write name (str "a\nB\nc\n"), .chmod name 0o644]

end Instance

/-! ### the side conditions, evaluated (executable tests) -/

/-! `s0.backedUp = []` is needed: with the backup name in the list already (as after an earlier section for the same file), no
    backup is made — the run succeeds, the old bytes are gone -/
namespace NeedsFreshBackupList
open PatchModel.C01.Instance (name s0)
def s1 : DState := { s0 with backedUp := [str "f.orig"] }
#guard (runPatch Instance.ob s1).1 == 0
#guard (runPatch Instance.ob s1).2.fs.lookup name == some (.file (str "a\nB\nc\n") 0o644)
#guard ((runPatch Instance.ob s1).2.fs.lookup (str "f.orig")).isNone
#guard (runPatch Instance.ob s1).2.trace.drop 4 == [.creat name, .write name (str "a\nB\nc\n"), .chmod name 0o644]
end NeedsFreshBackupList

/-! the directories of the backup name must be there for the statement as it stands -/
namespace NeedsBackupDirs
open PatchModel.C01.Instance (name pname bytes oldt newt hk s0)
-- `-B bak/` in a tree without `bak`: the run is fine, but a third path differs afterwards — the directory `bak` has been made
#guard !(dirPrefixes (backupName Instance.oB name)).all fun d => (s0.fs.lookup d).isSome        -- `DirsThere` fails
#guard (runPatch Instance.oB s0).1 == 0 &&
  (runPatch Instance.oB s0).2.fs.lookup (str "bak/f") == some (.file (str "a\nb\nc\n") 0o644) &&
  (runPatch Instance.oB s0).2.fs.lookup (str "bak") == some (.dir 0o755) && (s0.fs.lookup (str "bak")).isNone
#guard (runPatch Instance.oB s0).2.trace.drop 4 ==
  [.mkdir (str "bak"), .rename name (str "bak/f"), .creat name, .write name (str "a\nB\nc\n"), .chmod name 0o644]
-- `bak` is a regular file: `DirsThere` holds, `dirExists (parentOf "bak/f")` does not — the `rename` fails, exit status 2,
-- the tree untouched
def blocked : DState := { s0 with fs := { s0.fs with nodes := s0.fs.nodes ++ [(str "bak", .file [] 0o644)] } }
#guard (dirPrefixes (backupName Instance.oB name)).all fun d => (blocked.fs.lookup d).isSome
#guard !blocked.fs.dirExists (parentOf (backupName Instance.oB name))
#guard (runPatch Instance.oB blocked).1 == 2 && (runPatch Instance.oB blocked).2.fs.nodes == blocked.fs.nodes
end NeedsBackupDirs

/-! what is at the backup name does not matter as long as it is not a directory: an old `f.orig` (a file; a link, which is not followed)
    is replaced; a directory `f.orig` makes the `rename` fail (EISDIR): exit status 2, the tree untouched -/
namespace BackupNameTaken
open PatchModel.C01.Instance (name s0)
def s1 : DState := { s0 with fs := { s0.fs with nodes := s0.fs.nodes ++ [(str "f.orig", .file (str "older\n") 0o600)] } }
#guard (runPatch Instance.ob s1).1 == 0 &&
  (runPatch Instance.ob s1).2.fs.lookup (str "f.orig") == some (.file (str "a\nb\nc\n") 0o644)
def s2 : DState := { s0 with fs := { s0.fs with nodes := s0.fs.nodes ++ [(str "f.orig", .symlink (str "victim")), (str "victim", .file (str "keep\n") 0o600)] } }
#guard (runPatch Instance.ob s2).1 == 0 &&
  (runPatch Instance.ob s2).2.fs.lookup (str "f.orig") == some (.file (str "a\nb\nc\n") 0o644) &&
  (runPatch Instance.ob s2).2.fs.lookup (str "victim") == some (.file (str "keep\n") 0o600)
def s3 : DState := { s0 with fs := { s0.fs with nodes := s0.fs.nodes ++ [(str "f.orig", .dir 0o755)] } }
#guard (runPatch Instance.ob s3).1 == 2 && (runPatch Instance.ob s3).2.fs.nodes == s3.fs.nodes
end BackupNameTaken

/-! ### the rejected run: `f` = "x\ny\nz\n", the same diff -/
namespace Rejected
open PatchModel.C01.Instance (name pname oldt newt hk diffHunks)

def o : Options := PatchModel.C01.Instance.o
def xyz : Bytes := [120, 10, 121, 10, 122, 10]              -- "x\ny\nz\n"
def rej : Bytes := [102, 46, 114, 101, 106]                 -- "f.rej"
def s0 : DState :=
  { fs := { nodes := [(name, .file xyz 0o644), (pname, .file (diffText name name oldt newt [hk]) 0o644)] } }
#guard xyz == str "x\ny\nz\n" && rej == str "f.rej"

theorem rejOpts : RejOpts o name pname :=
  { base := { operand := rfl, noOut := rfl, noReverse := rfl, noDefine := rfl, fuzz := by decide, quiet := rfl },
    noBackup := rfl, noMismatchBackup := by decide, noRejectFile := rfl, rejectUnified := by decide,
    file := { patchFile := rfl, noDir := rfl, noHelp := rfl, noVersion := rfl, noContext := rfl, noNormal := rfl, noEd := rfl } }

/-- **`C04_run_rejected` applies** (all hypotheses discharged in the kernel): exit status 1, `f` as it was, `f.rej` = the text of
    the diff -/
theorem applies :
    (runPatch o s0).1 = 1 ∧
    (runPatch o s0).2.fs.lookup name = some (.file xyz 0o644) ∧
    (runPatch o s0).2.fs.lookup rej = some (.file (diffText name name oldt newt [hk]) 0o644) ∧
    ∀ q, q ≠ name → q ≠ rej → (runPatch o s0).2.fs.lookup q = s0.fs.lookup q := by
  have e : name ++ str ".rej" = rej := by rw [str_rej]; rfl
  have h := C04_run_rejected o s0 name pname xyz oldt newt 0o644 0o644 hk rejOpts (by decide) rfl ⟨rfl, rfl, rfl, rfl, rfl, rfl⟩ rfl
    (by decide) (by rw [e]; decide) (by decide) (by decide) rfl (by decide) (by decide) (by decide) rfl diffHunks
    (by decide +kernel) (Or.inr (by decide +kernel))
  have hm : renderLines o.newlineOutput (splitLines xyz) = xyz := by decide
  rw [e, hm] at h
  exact h

/-- … and so does the version with the condition on the lines (`Foreign`, decided in the kernel) -/
example : (runPatch o s0).1 = 1 :=
  (C04_run_rejected_foreign o s0 name pname xyz oldt newt 0o644 0o644 hk rejOpts (by decide) rfl ⟨rfl, rfl, rfl, rfl, rfl, rfl⟩ rfl
    (by decide) (by rw [show name ++ str ".rej" = rej by rw [str_rej]; rfl]; decide) (by decide) (by decide) rfl (by decide)
    (by decide) (by decide) rfl diffHunks (by decide +kernel) (Or.inr (by decide +kernel))).1

#guard (runPatch o s0).1 == 1
#guard (runPatch o s0).2.fs.lookup name == some (.file (str "x\ny\nz\n") 0o644)
#guard (runPatch o s0).2.fs.lookup (str "f.rej") ==
  some (.file (str "--- f\t2020\n+++ f\t2021\n@@ -1,3 +1,3 @@\n a\n-b\n+B\n c\n") 0o644)
#guard (runPatch o s0).2.trace.drop 4 ==
  [.creat (str "f.rej"), .write (str "f.rej") (diffText name name oldt newt [hk]), .creat name, .write name (str "x\ny\nz\n"),
   .chmod name 0o644]
#guard (runPatch o s0).2.out == [.file name false, .msg (.hunk 1 "FAILED" 1 0 0), .failed 1 1 false (some (str "f.rej"))]

/-- why the hypothesis is `locateHunk … = none` and not "no line of the target equals an old-side line of the hunk": the hunk
    ` a`, `+x`, ` b` (context on both sides, only an addition between) is placed with fuzz 1 in a file that has neither `a` nor
    `b` — the context is trimmed away and the addition matches anywhere -/
def hAdd : Hunk := ⟨⟨1, 2⟩, ⟨1, 3⟩, [⟨SP, ⟨[97], .lf⟩⟩, ⟨PLUS, ⟨[120], .lf⟩⟩, ⟨SP, ⟨[98], .lf⟩⟩]⟩
def pq : List Line := [⟨[112], .lf⟩, ⟨[113], .lf⟩]
theorem fuzzPlacesAnywhere :
    (∀ l ∈ pq, ∀ pl ∈ hAdd.lines, pl.op ≠ PLUS → lineMatches l pl.line false = false) ∧
    locateHunk pq hAdd false 0 2 0 = some ⟨0, 1, 0⟩ := by decide +kernel
def sAdd : DState :=
  { fs := { nodes := [(name, .file (str "p\nq\n") 0o644), (pname, .file (diffText name name oldt newt [hAdd]) 0o644)] } }
#guard (runPatch o sAdd).1 == 0 && (runPatch o sAdd).2.fs.lookup name == some (.file (str "p\nx\nq\n") 0o644)

end Rejected

end PatchModel.C18Run

#print axioms PatchModel.C18Run.C18_run_filler
#print axioms PatchModel.C18Run.C18_run
#print axioms PatchModel.C18Run.C18_run_orig
#print axioms PatchModel.C18Run.C18_run_dry_filler
#print axioms PatchModel.C18Run.C18_run_dry
#print axioms PatchModel.C18Run.C04_run_rejected_filler
#print axioms PatchModel.C18Run.C04_run_rejected
#print axioms PatchModel.C18Run.C04_run_rejected_foreign
#print axioms PatchModel.C18Run.locateHunk_none_of_foreign
#print axioms PatchModel.C18Run.rewritten_same
#print axioms PatchModel.C18Run.Instance.applies
#print axioms PatchModel.C18Run.Instance.applies_trace
#print axioms PatchModel.C18Run.Instance.applies_suffix
#print axioms PatchModel.C18Run.Instance.applies_prefix
#print axioms PatchModel.C18Run.Rejected.applies
#print axioms PatchModel.C18Run.Rejected.fuzzPlacesAnywhere
