/-
  C18 end to end for the REMOVAL of a file with a backup asked for — the whole modelled program (`runPatch` = `main` after option
  parsing) on the TEXT of the plain (non-git) unified diff

      --- f
      +++ /dev/null
      @@ -1,n +0,0 @@
      -line 1
      …
      -line n                                   (`C01RunDelete.delTextT f ta tb old`, with or without time stamps after the names)

  run as   patch -b [-B pfx] [-z sfx] [-u] [-pN] [-F n] -i pname [f]     with `-E` in force (`o.removeEmptyFiles = .yes`).
  The situation of `C01RunDelete.C01_run_delete` (which asks for `o.saveBackup = false`), with `o.saveBackup = true`:

  * `C18_run_delete_backup_gen` / `C18_run_delete_backup_name` (any backup name without slash) / `C18_run_delete_backup` (plain `-b`:
    the backup is `f.orig`) — the tree holds `f` (content `bytes`, whose lines are `old`, not empty; mode `m`, writable) and the patch
    file: exit status 0; afterwards the BACKUP NAME is a regular file with exactly the pre-patch `bytes` and the pre-patch mode `m` (it
    IS the old file: one `rename`); there is NO node at `f`; every other path is as it was (no reject file); the tree is
    `(fs.erase f).set backup (.file bytes m)`; all that is done to the tree is `rename f backup` after the four operations on
    anonymous temporaries — no `unlink`: in the removal block `make_backup_for` has moved the file away and `fsExists` says no —; the
    log is exactly "patching file f"; the backup name is recorded, no reject is.
  * `C18_run_delete_backup_dry_gen` / `C18_run_delete_backup_dry` — the same run under --dry-run (with or without `-b`): exit status 0,
    the tree untouched (`f` still there with its bytes), no backup recorded.

  Side conditions, in addition to those of `C01_run_delete` (`DelOpts`, `delName` / `DelHeader`, no `-p` or `-p0`, `CleanStart`, …)
  and mirroring `C18Run.C18_run_orig`:
    * `s0.backedUp = []` (what `main` starts with: a backup name already in the list is not backed up again);
    * the backup name has no slash (so its directory is the working directory; a theorem for `f.orig`: `C18Run.orig_flat`);
    * the backup name is not that of a DIRECTORY (`hbnd`: a file is not renamed onto a directory — the run would end with exit
      status 2).  Anything else there (a file, a link, the patch file itself) is replaced by the backup: the statement says so.
    * NOT needed: `backupName o f ≠ f` (a theorem, `RunB.backupName_ne`).
-/
import PatchModel.Props.C01RunDelete
import PatchModel.Props.C18Run
import PatchModel.Lemmas.RunDlB
namespace PatchModel.C18RunDelete
open PatchModel PatchModel.Section PatchModel.Run PatchModel.DriverFacts PatchModel.RunB PatchModel.RunG PatchModel.RunDl
  PatchModel.RunDlB PatchModel.C01 PatchModel.C01RunDelete

section
variable {o : Options} {s0 : DState} {f pname bytes : Bytes} {ta tb : Option Bytes} {m pm : Nat} {old : List Line}

/-- header scan, body parse and the applier's verdict for the one section of the diff (`C01RunDelete.delSection_of_text` without
    `o.saveBackup = false`) -/
theorem delSectionB_of_text (ho : DelOpts o f pname) (hstrip : o.strip ≤ 0) (hs0 : CleanStart s0)
    (hd : DelHeader f ta tb) (hlines : splitLines bytes = old) (hne : old ≠ []) (hwr : (delHunk old).writable = true)
    (htarget : s0.fs.lookup f = some (.file bytes m)) (hw : m &&& writeMask ≠ 0) :
    ∃ info par1 par2 r,
      DelSectionB o (forced o) (loopStart s0 (bareLines f devNull ta tb [delHunk old])) f bytes m (delPatch f ta tb)
        { delPatch f ta tb with hunks := [delHunk old] } info par1 par2 r ∧ par2.s.eof = true := by
  obtain ⟨info, par1, par2, hhdr, hbody, heof⟩ := parse_delLines (o := o) hstrip hd hwr
  have hrev : (applyOptsOf o).reverse = false := ho.noReverse
  obtain ⟨r, hap, hrout, _, hrfail, _, hrperf, hrskip, _, hrmsgs, hrtty, hrpatch⟩ :=
    applyPatch_valid old [delHunk old] { delPatch f ta tb with hunks := [delHunk old] } (applyOptsOf o)
      (Option.map (fun l => List.map (fun a => !List.isEmpty a && List.head? a != some 110) l) s0.tty)
      (valid_delHunk old hne) (by rw [hrev]; rfl) ho.noDefine ho.fuzz
  have hout : r.out = [] := by
    rw [splice_delHunk old hne] at hrout
    exact List.map_eq_nil_iff.1 hrout
  refine ⟨info, par1, par2, r, ?_, heof⟩
  exact {
    target := by
      rcases ho.target with h | h
      · exact Or.inl h
      · exact Or.inr ⟨h, rfl, flat_ne_devNull hd.flat⟩
    noOut := ho.noOut, removeEmpty := ho.removeEmpty, pathNe := hd.ne, flat := dirPrefixes_flat hd.flat,
    cwd := hs0.cwd, hdr := hhdr, fmt := Or.inl rfl, op := rfl, pre := rfl, body := hbody, fmt2 := rfl, op2 := rfl,
    file := htarget, writable := hw, root := hs0.root, noFault := hs0.noFault,
    apply := by rw [hlines]; exact hap,
    failed := hrfail, perfect := hrperf, skipped := hrskip, msgs := hrmsgs ho.quiet, ttyLeft := hrtty,
    patch := by rw [hrpatch, hrev]; rfl,
    empty := by rw [hout]; rfl }

/-- **C18, the whole program on the text of a plain unified diff that removes the file, `-b`** — the header lines with or without
    time stamps (`DelHeader`); any `-B` / `-z` whose directories are in the tree (`hbdirs`, `hbdir`); the backup name not that of a
    directory (`hbnd`) -/
theorem C18_run_delete_backup_gen (ho : DelOpts o f pname) (hb : o.saveBackup = true) (hstrip : o.strip ≤ 0)
    (hreal : o.dryRun = false) (hs0 : CleanStart s0) (hbu : s0.backedUp = [])
    (hd : DelHeader f ta tb)
    (hbdirs : DirsThere s0.fs (backupName o f)) (hbdir : s0.fs.dirExists (parentOf (backupName o f)) = true)
    (hbnd : ∀ m', s0.fs.lookup (backupName o f) ≠ some (.dir m'))
    (hpn : pname ≠ []) (hpd : pname ≠ [45])
    (hlines : splitLines bytes = old) (hne : old ≠ []) (hwr : (delHunk old).writable = true)
    (htarget : s0.fs.lookup f = some (.file bytes m)) (hw : m &&& writeMask ≠ 0)
    (hpatch : s0.fs.lookup pname = some (.file (delTextT f ta tb old) pm)) :
    (runPatch o s0).1 = 0 ∧
    (runPatch o s0).2.fs.lookup (backupName o f) = some (.file bytes m) ∧
    (runPatch o s0).2.fs.lookup f = none ∧
    (∀ q, q ≠ f → q ≠ backupName o f → (runPatch o s0).2.fs.lookup q = s0.fs.lookup q) ∧
    (runPatch o s0).2.fs = (s0.fs.erase f).set (backupName o f) (.file bytes m) ∧
    (runPatch o s0).2.trace = s0.trace ++ tmpOps ++ [.rename f (backupName o f)] ∧
    (runPatch o s0).2.out = s0.out ++ [.file f false] ∧
    (runPatch o s0).2.rejWritten = s0.rejWritten ∧ (runPatch o s0).2.backedUp = [backupName o f] := by
  obtain ⟨info, par1, par2, r, H, heof⟩ := delSectionB_of_text ho hstrip hs0 hd hlines hne hwr htarget hw
  obtain ⟨s', hrun, hfs, htr, hbk, hrw, hhf, hout, hdone⟩ := processSection_delete_backup H hb hreal
    (by show s0.backedUp.contains _ = false; rw [hbu]; rfl) hbdirs hbdir hbnd
  have hsplit := splitLines_delText (old := old) hd hwr
  have hR := runPatch_of_one ho.file hs0 hpn hpd hpatch s' par2 (by rw [hsplit]; exact hrun) hdone.par heof
    (by rw [hsplit]; exact hdone.dWrites) (by rw [hsplit]; exact hdone.dRemovals)
  have hnf : s'.hadFailure = false := by rw [hhf]; exact hs0.noFailure
  have hfb : f ≠ backupName o f := fun e => backupName_ne o f e.symm
  rw [hR, hnf]
  refine ⟨rfl, ?_, ?_, ?_, hfs, ?_, hout, hrw, ?_⟩
  · show s'.fs.lookup _ = _
    rw [hfs]; exact Fs.lookup_set_self _ _ _
  · show s'.fs.lookup f = none
    rw [hfs, Fs.lookup_set_ne _ _ _ _ hfb]; exact Fs.lookup_erase_self _ _
  · intro q hq hqb
    show s'.fs.lookup q = _
    rw [hfs, Fs.lookup_set_ne _ _ _ _ hqb]; exact Fs.lookup_erase_ne _ _ _ hq
  · show s'.trace = _
    rw [htr]; show s0.trace ++ _ ++ _ ++ _ = _; simp
  · show s'.backedUp = _
    rw [hbk]; show s0.backedUp ++ _ = _; rw [hbu]; rfl

/-- **C15 / C18 sibling: the same run under --dry-run, whatever `-b` says** — exit status 0, the tree untouched (`f` still there),
    no backup recorded -/
theorem C18_run_delete_backup_dry_gen (ho : DelOpts o f pname) (hstrip : o.strip ≤ 0) (hdry : o.dryRun = true)
    (hs0 : CleanStart s0) (hd : DelHeader f ta tb) (hpn : pname ≠ []) (hpd : pname ≠ [45])
    (hlines : splitLines bytes = old) (hne : old ≠ []) (hwr : (delHunk old).writable = true)
    (htarget : s0.fs.lookup f = some (.file bytes m)) (hw : m &&& writeMask ≠ 0)
    (hpatch : s0.fs.lookup pname = some (.file (delTextT f ta tb old) pm)) :
    (runPatch o s0).1 = 0 ∧ (runPatch o s0).2.fs = s0.fs ∧ (runPatch o s0).2.trace = s0.trace ++ tmpOps ∧
    (runPatch o s0).2.out = s0.out ++ [.file f true] ∧ (runPatch o s0).2.backedUp = s0.backedUp := by
  obtain ⟨info, par1, par2, r, H, heof⟩ := delSectionB_of_text ho hstrip hs0 hd hlines hne hwr htarget hw
  obtain ⟨s', hrun, hfs, htr, hdone⟩ := processSection_delete_backup_dry H hdry
  have hsplit := splitLines_delText (old := old) hd hwr
  have hR := runPatch_of_one ho.file hs0 hpn hpd hpatch s' par2 (by rw [hsplit]; exact hrun) hdone.par heof
    (by rw [hsplit]; exact hdone.dWrites) (by rw [hsplit]; exact hdone.dRemovals)
  have hhf : s'.hadFailure = false := by rw [hdone.hadFailure]; exact hs0.noFailure
  rw [hR, hhf]
  refine ⟨rfl, hfs, ?_, hdone.out, hdone.backedUp⟩
  show s'.trace = _
  rw [htr]; show s0.trace ++ _ ++ _ = _; simp

end

/-- **C18, end to end, the removal with `-b [-B pfx] [-z sfx]`, target and backup name in the working directory** (no slash in
    either; the backup name not that of a directory) -/
theorem C18_run_delete_backup_name (o : Options) (s0 : DState) (f pname bytes : Bytes) (old : List Line) (m pm : Nat)
    (ho : DelOpts o f pname) (hb : o.saveBackup = true) (hstrip : o.strip ≤ 0) (hreal : o.dryRun = false)
    (hs0 : CleanStart s0) (hbu : s0.backedUp = [])
    (hf : delName f) (hbn : ∀ c ∈ backupName o f, c ≠ SLASHB)
    (hbnd : ∀ m', s0.fs.lookup (backupName o f) ≠ some (.dir m')) (hpn : pname ≠ []) (hpd : pname ≠ [45])
    (hlines : splitLines bytes = old) (hne : old ≠ []) (hwr : (delHunk old).writable = true)
    (htarget : s0.fs.lookup f = some (.file bytes m)) (hw : m &&& writeMask ≠ 0)
    (hpatch : s0.fs.lookup pname = some (.file (delText f old) pm)) :
    (runPatch o s0).1 = 0 ∧
    (runPatch o s0).2.fs.lookup (backupName o f) = some (.file bytes m) ∧
    (runPatch o s0).2.fs.lookup f = none ∧
    (∀ q, q ≠ f → q ≠ backupName o f → (runPatch o s0).2.fs.lookup q = s0.fs.lookup q) ∧
    (runPatch o s0).2.fs = (s0.fs.erase f).set (backupName o f) (.file bytes m) ∧
    (runPatch o s0).2.trace = s0.trace ++ tmpOps ++ [.rename f (backupName o f)] ∧
    (runPatch o s0).2.out = s0.out ++ [.file f false] ∧
    (runPatch o s0).2.rejWritten = s0.rejWritten ∧ (runPatch o s0).2.backedUp = [backupName o f] :=
  C18_run_delete_backup_gen ho hb hstrip hreal hs0 hbu (delHeader_bare hf) (dirsThere_flat s0.fs hbn)
    (dirExists_parent_of_noSlash s0.fs hbn) hbnd hpn hpd hlines hne hwr htarget hw hpatch

/-- **C18, end to end, the removal of a file with plain `-b`** (no -B, no -z).  `patch -b -i pname [f]` (`-E` in force; no `-p`, or
    `-p0`) in a tree with the file `f` (content `bytes`, its lines `old`, not empty; mode `m`) and the patch file `pname` = `--- f`,
    `+++ /dev/null`, `@@ -1,n +0,0 @@` and every line of `f` with `-` in front: exit status 0; `f.orig` is a regular file with exactly
    the pre-patch bytes and the pre-patch mode; there is NO node at `f`; every other path is as it was; the run did
    `rename f f.orig` and nothing else to the tree; the log is exactly "patching file f"; `f.orig` is the one backup recorded, no
    reject file is. -/
theorem C18_run_delete_backup (o : Options) (s0 : DState) (f pname bytes : Bytes) (old : List Line) (m pm : Nat)
    (ho : DelOpts o f pname) (hb : o.saveBackup = true) (hpre : o.backupPrefix = []) (hsuf : o.backupSuffix = [])
    (hstrip : o.strip ≤ 0) (hreal : o.dryRun = false)
    (hs0 : CleanStart s0) (hbu : s0.backedUp = [])
    (hf : delName f) (hbnd : ∀ m', s0.fs.lookup (f ++ str ".orig") ≠ some (.dir m')) (hpn : pname ≠ []) (hpd : pname ≠ [45])
    (hlines : splitLines bytes = old) (hne : old ≠ []) (hwr : (delHunk old).writable = true)
    (htarget : s0.fs.lookup f = some (.file bytes m)) (hw : m &&& writeMask ≠ 0)
    (hpatch : s0.fs.lookup pname = some (.file (delText f old) pm)) :
    (runPatch o s0).1 = 0 ∧
    (runPatch o s0).2.fs.lookup (f ++ str ".orig") = some (.file bytes m) ∧
    (runPatch o s0).2.fs.lookup f = none ∧
    (∀ q, q ≠ f → q ≠ f ++ str ".orig" → (runPatch o s0).2.fs.lookup q = s0.fs.lookup q) ∧
    (runPatch o s0).2.fs = (s0.fs.erase f).set (f ++ str ".orig") (.file bytes m) ∧
    (runPatch o s0).2.trace = s0.trace ++ tmpOps ++ [.rename f (f ++ str ".orig")] ∧
    (runPatch o s0).2.out = s0.out ++ [.file f false] ∧
    (runPatch o s0).2.rejWritten = s0.rejWritten ∧ (runPatch o s0).2.backedUp = [f ++ str ".orig"] := by
  have e : backupName o f = f ++ str ".orig" := (C18.backupName_spec o f).1 hpre hsuf
  have h := C18_run_delete_backup_name o s0 f pname bytes old m pm ho hb hstrip hreal hs0 hbu hf
    (by rw [e]; exact C18Run.orig_flat hf.2.1) (by rw [e]; exact hbnd) hpn hpd hlines hne hwr htarget hw hpatch
  rw [e] at h
  exact h

/-- **the same for the diff as `diff -u` writes it**: `--- f TAB oldt`, `+++ /dev/null TAB newt` (the name may have blanks then) -/
theorem C18_run_delete_backup_stamped (o : Options) (s0 : DState) (f pname bytes oldt newt : Bytes) (old : List Line) (m pm : Nat)
    (ho : DelOpts o f pname) (hb : o.saveBackup = true) (hpre : o.backupPrefix = []) (hsuf : o.backupSuffix = [])
    (hstrip : o.strip ≤ 0) (hreal : o.dryRun = false)
    (hs0 : CleanStart s0) (hbu : s0.backedUp = [])
    (hf : flatName f) (hot : stampOk oldt) (hnt : stampOk newt)
    (hbnd : ∀ m', s0.fs.lookup (f ++ str ".orig") ≠ some (.dir m')) (hpn : pname ≠ []) (hpd : pname ≠ [45])
    (hlines : splitLines bytes = old) (hne : old ≠ []) (hwr : (delHunk old).writable = true)
    (htarget : s0.fs.lookup f = some (.file bytes m)) (hw : m &&& writeMask ≠ 0)
    (hpatch : s0.fs.lookup pname = some (.file (delTextT f (some oldt) (some newt) old) pm)) :
    (runPatch o s0).1 = 0 ∧
    (runPatch o s0).2.fs.lookup (f ++ str ".orig") = some (.file bytes m) ∧
    (runPatch o s0).2.fs.lookup f = none ∧
    (∀ q, q ≠ f → q ≠ f ++ str ".orig" → (runPatch o s0).2.fs.lookup q = s0.fs.lookup q) := by
  have e : backupName o f = f ++ str ".orig" := (C18.backupName_spec o f).1 hpre hsuf
  have hbn : ∀ c ∈ backupName o f, c ≠ SLASHB := by rw [e]; exact C18Run.orig_flat hf.2.1
  have h := C18_run_delete_backup_gen ho hb hstrip hreal hs0 hbu (delHeader_stamped hf hot hnt) (dirsThere_flat s0.fs hbn)
    (dirExists_parent_of_noSlash s0.fs hbn) (by rw [e]; exact hbnd) hpn hpd hlines hne hwr htarget hw hpatch
  rw [e] at h
  exact ⟨h.1, h.2.1, h.2.2.1, h.2.2.2.1⟩

/-- **C15 / C18 sibling: the removal under --dry-run, `-b` or not** — exit status 0, the tree untouched (`f` still there with its
    bytes and mode, nothing at a backup name that was not there), no backup recorded -/
theorem C18_run_delete_backup_dry (o : Options) (s0 : DState) (f pname bytes : Bytes) (old : List Line) (m pm : Nat)
    (ho : DelOpts o f pname) (hstrip : o.strip ≤ 0) (hdry : o.dryRun = true)
    (hs0 : CleanStart s0) (hf : delName f) (hpn : pname ≠ []) (hpd : pname ≠ [45])
    (hlines : splitLines bytes = old) (hne : old ≠ []) (hwr : (delHunk old).writable = true)
    (htarget : s0.fs.lookup f = some (.file bytes m)) (hw : m &&& writeMask ≠ 0)
    (hpatch : s0.fs.lookup pname = some (.file (delText f old) pm)) :
    (runPatch o s0).1 = 0 ∧ (runPatch o s0).2.fs = s0.fs ∧ (runPatch o s0).2.trace = s0.trace ++ tmpOps ∧
    (runPatch o s0).2.out = s0.out ++ [.file f true] ∧ (runPatch o s0).2.backedUp = s0.backedUp :=
  C18_run_delete_backup_dry_gen ho hstrip hdry hs0 (delHeader_bare hf) hpn hpd hlines hne hwr htarget hw hpatch

/-! ### non-vacuity: concrete runs

The instance of `C01RunDelete.DelInstance`: `f` = "a\nb\n" (mode 0644), `p.diff` = "--- f\n+++ /dev/null\n@@ -1,2 +0,0 @@\n-a\n-b\n";
options `-b -i p.diff` as `apply_defaults` leaves them, with and without the operand `f`.  Every hypothesis of the theorems is
discharged by evaluation in the kernel (`decide` / `rfl`), the theorems are applied, and — independently — the executable model is
run on the same states (`#guard`, compiled evaluation: executable tests, not proofs). -/
namespace Instance
open PatchModel.C01RunDelete.DelInstance (f pname bytes old s0 o)

/-- `-b -i p.diff`, after `apply_defaults` -/
def ob : Options := { o with saveBackup := true }
/-- `-b -i p.diff f` -/
def obF : Options := { ob with fileToPatch := f }
def orig : Bytes := [102, 46, 111, 114, 105, 103]            -- "f.orig"
#guard orig == str "f.orig" && backupName ob f == orig
#guard applyDefaults { defaultOptions with patchFile := pname, saveBackup := true } {} == { ob with quotingStyle := .shell }

theorem delOptsB : DelOpts ob f pname :=
  { target := Or.inr rfl, noOut := rfl, noReverse := rfl, noDefine := rfl, fuzz := by decide, quiet := rfl, removeEmpty := rfl,
    file := { patchFile := rfl, noDir := rfl, noHelp := rfl, noVersion := rfl, noContext := rfl, noNormal := rfl, noEd := rfl } }
theorem delOptsBF : DelOpts obF f pname :=
  { target := Or.inl rfl, noOut := rfl, noReverse := rfl, noDefine := rfl, fuzz := by decide, quiet := rfl, removeEmpty := rfl,
    file := { patchFile := rfl, noDir := rfl, noHelp := rfl, noVersion := rfl, noContext := rfl, noNormal := rfl, noEd := rfl } }

theorem orig_eq : f ++ str ".orig" = orig := by rw [str_orig]; rfl

/-- **`C18_run_delete_backup` applies** (no operand; all hypotheses discharged in the kernel): exit status 0, `f.orig` = "a\nb\n" with
    mode 0644, no node at `f`, nothing else touched, `rename f f.orig` is all that was done, "patching file f" all that was said -/
theorem applies :
    (runPatch ob s0).1 = 0 ∧
    (runPatch ob s0).2.fs.lookup orig = some (.file bytes 0o644) ∧
    (runPatch ob s0).2.fs.lookup f = none ∧
    (∀ q, q ≠ f → q ≠ orig → (runPatch ob s0).2.fs.lookup q = s0.fs.lookup q) ∧
    (runPatch ob s0).2.fs = (s0.fs.erase f).set orig (.file bytes 0o644) ∧
    (runPatch ob s0).2.trace = [.tmpCreate, .tmpUnlink, .tmpCreate, .tmpUnlink, .rename f orig] ∧
    (runPatch ob s0).2.out = [.file f false] ∧
    (runPatch ob s0).2.rejWritten = [] ∧ (runPatch ob s0).2.backedUp = [orig] := by
  have h := C18_run_delete_backup ob s0 f pname bytes old 0o644 0o644 delOptsB rfl rfl rfl (by decide) rfl
    ⟨rfl, rfl, rfl, rfl, rfl, rfl⟩ rfl (by decide) (by rw [orig_eq]; exact notDir_of_none (by decide)) (by decide) (by decide)
    (by decide) (by decide) (by decide) rfl (by decide) rfl
  rw [orig_eq] at h
  exact h

/-- … and with the operand: `patch -b -i p.diff f` -/
theorem applies_operand :
    (runPatch obF s0).1 = 0 ∧ (runPatch obF s0).2.fs.lookup orig = some (.file bytes 0o644) ∧
    (runPatch obF s0).2.fs.lookup f = none ∧
    (∀ q, q ≠ f → q ≠ orig → (runPatch obF s0).2.fs.lookup q = s0.fs.lookup q) := by
  have h := C18_run_delete_backup obF s0 f pname bytes old 0o644 0o644 delOptsBF rfl rfl rfl (by decide) rfl
    ⟨rfl, rfl, rfl, rfl, rfl, rfl⟩ rfl (by decide) (by rw [orig_eq]; exact notDir_of_none (by decide)) (by decide) (by decide)
    (by decide) (by decide) (by decide) rfl (by decide) rfl
  rw [orig_eq] at h
  exact ⟨h.1, h.2.1, h.2.2.1, h.2.2.2.1⟩

/-- the --dry-run sibling applies, `-b` given: `f` is still there, nothing at `f.orig`, no backup recorded -/
theorem applies_dry :
    (runPatch { ob with dryRun := true } s0).1 = 0 ∧ (runPatch { ob with dryRun := true } s0).2.fs = s0.fs ∧
    (runPatch { ob with dryRun := true } s0).2.backedUp = [] :=
  let h := C18_run_delete_backup_dry { ob with dryRun := true } s0 f pname bytes old 0o644 0o644
    { target := Or.inr rfl, noOut := rfl, noReverse := rfl, noDefine := rfl, fuzz := by decide, quiet := rfl, removeEmpty := rfl,
      file := { patchFile := rfl, noDir := rfl, noHelp := rfl, noVersion := rfl, noContext := rfl, noNormal := rfl, noEd := rfl } }
    (by decide) rfl ⟨rfl, rfl, rfl, rfl, rfl, rfl⟩ (by decide) (by decide) (by decide) (by decide) (by decide) (by decide) rfl
    (by decide) rfl
  ⟨h.1, h.2.1, h.2.2.2.2⟩

/-- a FILE already at the backup name is replaced by the backup (`hbnd` asks only that it is not a directory) -/
def s0t : DState :=
  { fs := { nodes := [(f, .file bytes 0o644), (pname, .file (delText f old) 0o644), (orig, .file [120] 0o600)] } }
theorem applies_taken :
    (runPatch ob s0t).1 = 0 ∧ (runPatch ob s0t).2.fs.lookup orig = some (.file bytes 0o644) ∧
    (runPatch ob s0t).2.fs.lookup f = none := by
  have h := C18_run_delete_backup ob s0t f pname bytes old 0o644 0o644 delOptsB rfl rfl rfl (by decide) rfl
    ⟨rfl, rfl, rfl, rfl, rfl, rfl⟩ rfl (by decide)
    (by rw [orig_eq]; exact notDir_of_file (b := [120]) (m := 0o600) (by decide)) (by decide) (by decide)
    (by decide) (by decide) (by decide) rfl (by decide) rfl
  rw [orig_eq] at h
  exact ⟨h.1, h.2.1, h.2.2.1⟩

-- independently: the executable model on the same states (executable tests)
#guard (runPatch ob s0).1 == 0
#guard (runPatch ob s0).2.fs.lookup (str "f.orig") == some (.file (str "a\nb\n") 0o644)
#guard (runPatch ob s0).2.fs.lookup f == none
#guard (runPatch ob s0).2.fs.nodes == [(pname, .file (delText f old) 0o644), (str "f.orig", .file (str "a\nb\n") 0o644)]
#guard (runPatch ob s0).2.trace == [.tmpCreate, .tmpUnlink, .tmpCreate, .tmpUnlink, .rename f (str "f.orig")]   -- no `unlink`
#guard (runPatch ob s0).2.out == [.file f false]
#guard (runPatch ob s0).2.backedUp == [str "f.orig"] && (runPatch ob s0).2.rejWritten.isEmpty
#guard (runPatch obF s0).1 == 0 && (runPatch obF s0).2.fs.nodes == (runPatch ob s0).2.fs.nodes
#guard (runPatch { ob with dryRun := true } s0).1 == 0 && (runPatch { ob with dryRun := true } s0).2.fs.nodes == s0.fs.nodes &&
  (runPatch { ob with dryRun := true } s0).2.backedUp.isEmpty
#guard (runPatch ob s0t).1 == 0 && (runPatch ob s0t).2.fs.lookup orig == some (.file bytes 0o644) &&
  (runPatch ob s0t).2.fs.nodes.length == 2
-- the mode moves with the file: 0755, 0600
def sMode (md : Nat) : DState := { fs := { nodes := [(f, .file bytes md), (pname, .file (delText f old) 0o644)] } }
#guard (runPatch ob (sMode 0o755)).2.fs.lookup orig == some (.file bytes 0o755) &&
  (runPatch ob (sMode 0o600)).2.fs.lookup orig == some (.file bytes 0o600)

end Instance

/-! ### the side conditions, evaluated (executable tests) -/
namespace Scope
open PatchModel.C01RunDelete.DelInstance (f pname bytes old s0 o)
open PatchModel.C18RunDelete.Instance (ob orig)

-- `hbnd`: with `f.orig` a DIRECTORY the `rename` fails — exit status 2, `f` still there
def sDir : DState :=
  { fs := { nodes := [(f, .file bytes 0o644), (pname, .file (delText f old) 0o644), (orig, .dir 0o755)] } }
#guard (runPatch ob sDir).1 == 2 && (runPatch ob sDir).2.fs.lookup f == some (.file bytes 0o644)
-- `hbu`: a backup name that is already in the list is not backed up again — the file is unlinked and its bytes are gone
#guard (runPatch ob { s0 with backedUp := [orig] }).1 == 0 && (runPatch ob { s0 with backedUp := [orig] }).2.fs.lookup orig == none &&
  (runPatch ob { s0 with backedUp := [orig] }).2.fs.lookup f == none
-- `-z .bak`: `C18_run_delete_backup_name` covers it
#guard (runPatch { ob with backupSuffix := str ".bak" } s0).2.fs.lookup (str "f.bak") == some (.file bytes 0o644) &&
  (runPatch { ob with backupSuffix := str ".bak" } s0).2.fs.lookup f == none

end Scope

end PatchModel.C18RunDelete

