/-
  C06 (apply_patch level) — an already applied patch is detected, not applied a second time.
  History: `file` was patched with the valid script `hs`, giving `B = splice file 0 hs`; the same patch is run on `B`.
-/
import PatchModel.Spec.Script
import PatchModel.Lemmas.Valid
import PatchModel.Props.C02
import PatchModel.Props.C01
import PatchModel.Props.C05
namespace PatchModel.C06
open PatchModel PatchModel.Script

/-- the reversed-D2 exclusion (see C05) -/
def NoReversedD2 (file : List Line) (hs : List Hunk) : Prop :=
  ∀ h ∈ hs, ¬ (h.new.count = 0 ∧ h.new.start = 0 ∧ splice file 0 hs ≠ [])

/-- the inherently ambiguous cases are excluded: the first hunk does not apply exactly at its stated line of `B`
    (in particular it is not a context-free insertion, which "fits" anywhere). Either the hunk has an old side
    that is not admissible at the stated line — and, if it has NO new side (a removal without context: `h1.new.count = 0`), is not
    found anywhere else in reach either —, or it is the hunk of a file-creating patch (`@@ -0,0 +1,n @@`) and the file now exists
    and is not empty.

    The third conjunct is new with fix 3f5edfc (mirrored in `applyPatch`: `suspicious := (hr.old.count != 0 && isPerfect rloc) || …`).
    The reversal of a context-free removal is an insertion without old lines, which `locate_hunk` "finds" wherever it says without
    comparing a line: that is no evidence of an applied patch any more (counting it was defect D82).  What is left as evidence for
    such a hunk is "the hunk itself is not found at all"; when the removed text occurs again in reach, the hunk is found there and
    applied a second time — known finding D84, inherent (`C06_old_statement_false` below).  In the file-creating case the hunk is
    never found (`creation_not_found`), so nothing is added there.

    The OLD definition (kept as `FirstHunkNoLongerFitsOld`):
      (h1.old.count ≠ 0 ∧ admissibleB B h1 o.ignoreWhitespace o.maxFuzz h1.pos0.toNat 0 = false) ∨
      (h1.old.count = 0 ∧ h1.old.start = 0 ∧ B ≠ []) -/
def FirstHunkNoLongerFits (B : List Line) (h1 : Hunk) (o : ApplyOpts) : Prop :=
  (h1.old.count ≠ 0 ∧ admissibleB B h1 o.ignoreWhitespace o.maxFuzz h1.pos0.toNat 0 = false ∧
    (h1.new.count ≠ 0 ∨ locateHunk B h1 o.ignoreWhitespace 0 o.maxFuzz 0 = none)) ∨
  (h1.old.count = 0 ∧ h1.old.start = 0 ∧ B ≠ [])

/-- the definition before fix 3f5edfc; with it `C06_N` / `C06_t` are false of the present model (`C06_old_statement_false`) -/
def FirstHunkNoLongerFitsOld (B : List Line) (h1 : Hunk) (o : ApplyOpts) : Prop :=
  (h1.old.count ≠ 0 ∧ admissibleB B h1 o.ignoreWhitespace o.maxFuzz h1.pos0.toNat 0 = false) ∨
  (h1.old.count = 0 ∧ h1.old.start = 0 ∧ B ≠ [])

/-- the new definition is the old one and the third conjunct; for a first hunk with a new side they are the same -/
theorem firstHunkNoLongerFits_iff (B : List Line) (h1 : Hunk) (o : ApplyOpts) :
    FirstHunkNoLongerFits B h1 o ↔
      FirstHunkNoLongerFitsOld B h1 o ∧
        (h1.old.count ≠ 0 → h1.new.count ≠ 0 ∨ locateHunk B h1 o.ignoreWhitespace 0 o.maxFuzz 0 = none) := by
  unfold FirstHunkNoLongerFits FirstHunkNoLongerFitsOld
  constructor
  · rintro (⟨a, b, c⟩ | ⟨a, b, c⟩)
    · exact ⟨Or.inl ⟨a, b⟩, fun _ => c⟩
    · exact ⟨Or.inr ⟨a, b, c⟩, fun h => absurd a h⟩
  · rintro ⟨⟨a, b⟩ | ⟨a, b, c⟩, d⟩
    · exact Or.inl ⟨a, b, d a⟩
    · exact Or.inr ⟨a, b, c⟩

theorem firstHunkNoLongerFits_of_old (B : List Line) (h1 : Hunk) (o : ApplyOpts) (hn : h1.new.count ≠ 0)
    (h : FirstHunkNoLongerFitsOld B h1 o) : FirstHunkNoLongerFits B h1 o :=
  (firstHunkNoLongerFits_iff B h1 o).2 ⟨h, fun _ => Or.inl hn⟩

/-! ### helpers -/

/-- the hunk of a file-creating patch is not found in a file that is not empty -/
theorem creation_not_found (B : List Line) (h1 : Hunk) (iw : Bool) (maxFuzz : Int)
    (hc : h1.old.count = 0) (hs : h1.old.start = 0) (hB : B ≠ []) :
    locateHunk B h1 iw 0 maxFuzz 0 = none := by
  unfold locateHunk
  simp [hc, hs, hB]

theorem forward_not_perfect (B : List Line) (h1 : Hunk) (o : ApplyOpts)
    (hamb : FirstHunkNoLongerFits B h1 o) (hf : o.force = false) :
    shouldCheckReversed (locateHunk B h1 o.ignoreWhitespace 0 o.maxFuzz 0) o = true := by
  rcases hamb with ⟨hc0, hna, _⟩ | ⟨hc, hs, hB⟩
  · unfold shouldCheckReversed
    cases hl : locateHunk B h1 o.ignoreWhitespace 0 o.maxFuzz 0 with
    | none => simp [hf]
    | some l =>
      simp only []
      split
      · next hc =>
        exfalso
        obtain ⟨p, f, e1, e2, _, hadm, e3⟩ :=
          C02.locate_sound B h1 o.ignoreWhitespace 0 o.maxFuzz 0 l hl hc0
        have hf0 : f = 0 := by omega
        have hp : h1.pos0.toNat = p := by unfold Hunk.pos0; omega
        rw [hf0, ← hp, hna] at hadm
        cases hadm
      · simp [hf]
  · rw [creation_not_found B h1 _ _ hc hs hB]
    simp [shouldCheckReversed, hf]

/-- the reversed-patch probe of `apply_patch` says "reversed" (the `suspicious` of `applyPatch`): the reversed first hunk is found
    exactly where it says and has old lines — or the hunk itself is not found at all -/
theorem probe_suspicious (B : List Line) (h1 : Hunk) (o : ApplyOpts) (q : Int)
    (hamb : FirstHunkNoLongerFits B h1 o)
    (hq : locateHunk B (reverseHunk h1) o.ignoreWhitespace 0 o.maxFuzz 0 = some ⟨q, 0, 0⟩) :
    (((reverseHunk h1).old.count != 0 && isPerfect (locateHunk B (reverseHunk h1) o.ignoreWhitespace 0 o.maxFuzz 0)) ||
      ((locateHunk B h1 o.ignoreWhitespace 0 o.maxFuzz 0).isNone &&
        (locateHunk B (reverseHunk h1) o.ignoreWhitespace 0 o.maxFuzz 0).isSome)) = true := by
  have hperf : isPerfect (some (⟨q, 0, 0⟩ : Location)) = true := by simp [isPerfect]
  rw [hq, hperf]
  rcases hamb with ⟨_, _, hn | hl⟩ | ⟨hc, hs, hB⟩
  · have : ((reverseHunk h1).old.count != 0) = true := by
      have e : (reverseHunk h1).old.count = h1.new.count := rfl
      rw [e]; simpa using hn
    rw [this]; rfl
  · rw [hl]; simp
  · rw [creation_not_found B h1 _ _ hc hs hB]; simp

theorem reversed_perfect (file : List Line) (h1 : Hunk) (rest : List Hunk) (o : ApplyOpts)
    (hv : Valid file 0 0 (h1 :: rest)) (hx : NoReversedD2 file (h1 :: rest)) (hF : 0 ≤ o.maxFuzz) :
    Valid (splice file 0 (h1 :: rest)) 0 0 (reverseHunk h1 :: rest.map reverseHunk) ∧
    splice (splice file 0 (h1 :: rest)) 0 (reverseHunk h1 :: rest.map reverseHunk) = file ∧
    ∃ q : Nat, locateHunk (splice file 0 (h1 :: rest)) (reverseHunk h1) o.ignoreWhitespace 0 o.maxFuzz 0
      = some ⟨q, 0, 0⟩ := by
  obtain ⟨hv', hs'⟩ := C05.reverse_valid file (h1 :: rest) hv hx
  simp only [List.map_cons] at hv' hs'
  refine ⟨hv', hs', ?_⟩
  cases hv' with
  | cons _ _ _ _ q hw hq hcq hold hfit hnew hex hv'' =>
    exact ⟨q, C01.locate_inplace _ _ _ _ 0 q hw hq hcq hold hfit hex hF⟩

theorem shouldCheck_force (loc : Option Location) (o : ApplyOpts) (hf : o.force = true) :
    shouldCheckReversed loc o = false := by
  unfold shouldCheckReversed
  cases loc with
  | none => simp [hf]
  | some l => simp only []; split <;> simp [hf]

/-- with -f `apply_patch` is the plain hunk loop -/
theorem applyPatch_force (file : List Line) (p0 : Patch) (o : ApplyOpts) (tty : Option (List Bool))
    (hf : o.force = true) :
    applyPatch file p0 o tty =
      match applyRest file o (if o.reverse then reversePatch p0 else p0) ({ tty := tty } : AState) 0
          (if o.reverse then reversePatch p0 else p0).hunks with
      | .error e => .error e
      | .ok s3 => .ok (C01.finishRes file (if o.reverse then reversePatch p0 else p0) s3) := by
  unfold applyPatch
  simp only []
  generalize (if o.reverse = true then reversePatch p0 else p0) = p
  cases hh : p.hunks with
  | nil => rfl
  | cons h0 rest =>
    simp only [shouldCheck_force _ o hf, Bool.false_eq_true, if_false]
    exact C01.first_then_rest file o p ({ tty := tty } : AState) h0 rest (C01.finishRes file p)

/-- with -N: the file stays as it is, every hunk is saved as a reject (reported "ignored"), nothing is applied -/
theorem C06_N (file : List Line) (h1 : Hunk) (rest : List Hunk) (p0 : Patch) (o : ApplyOpts) (tty : Option (List Bool))
    (hv : Valid file 0 0 (h1 :: rest)) (hx : NoReversedD2 file (h1 :: rest)) (hp : p0.hunks = h1 :: rest)
    (hamb : FirstHunkNoLongerFits (splice file 0 (h1 :: rest)) h1 o)
    (hN : o.ignoreReversed = true) (hf : o.force = false) (hR : o.reverse = false)
    (hD : o.define = []) (hF : 0 ≤ o.maxFuzz) :
    ∃ r, applyPatch (splice file 0 (h1 :: rest)) p0 o tty = .ok r ∧
      r.out.map Out.line = splice file 0 (h1 :: rest) ∧
      r.skipped = true ∧ r.applied = [] ∧ r.failed = (h1 :: rest).length ∧
      r.rejected.map (·.1) = List.range (h1 :: rest).length ∧
      Msg.reversedDetected false ∈ r.msgs ∧ Msg.skippingPatch ∈ r.msgs ∧ r.tty = tty := by
  obtain ⟨_, _, q, hq⟩ := reversed_perfect file h1 rest o hv hx hF
  have hsc := forward_not_perfect _ h1 o hamb hf
  have hsus := probe_suspicious _ h1 o q hamb hq
  have hwf := valid_allWF hv
  generalize splice file 0 (h1 :: rest) = B at *
  unfold applyPatch
  simp only [hR, Bool.false_eq_true, if_false, hp, hsc, if_true, hsus]
  simp only [checkHowToHandleReversed, hN, Bool.not_true, Bool.false_eq_true, if_false]
  obtain ⟨s3, e, a1, a2, a3, a4, a5, a6, a7⟩ := applyRest_skip B o p0 (h1 :: rest)
    ({ skip := true, msgs := [Msg.reversedDetected false, Msg.skippingPatch], tty := tty } : AState) 0 rfl hwf
  have hfold := C01.first_then_rest B o p0
    ({ skip := true, msgs := [Msg.reversedDetected false, Msg.skippingPatch], tty := tty } : AState) h1 rest
    (C01.finishRes B p0)
  refine ⟨C01.finishRes B p0 s3, ?_, ?_, a3, a4, ?_, ?_, ?_, ?_, a7⟩
  · refine Eq.trans hfold ?_
    rw [e]
  · simp [C01.finishRes, a1, a2, copyRange_map_line]
  · have := congrArg List.length a5
    simpa [C01.finishRes] using this
  · simpa [C01.finishRes, List.range_eq_range'] using a5
  · exact a6.subset (by simp)
  · exact a6.subset (by simp)

/-- with -t (and no -N): the patch is applied in reverse and restores the original lines -/
theorem C06_t (file : List Line) (h1 : Hunk) (rest : List Hunk) (p0 : Patch) (o : ApplyOpts) (tty : Option (List Bool))
    (hv : Valid file 0 0 (h1 :: rest)) (hx : NoReversedD2 file (h1 :: rest)) (hp : p0.hunks = h1 :: rest)
    (hamb : FirstHunkNoLongerFits (splice file 0 (h1 :: rest)) h1 o)
    (hN : o.ignoreReversed = false) (ht : o.batch = true) (hf : o.force = false) (hR : o.reverse = false)
    (hD : o.define = []) (hF : 0 ≤ o.maxFuzz) :
    ∃ r, applyPatch (splice file 0 (h1 :: rest)) p0 o tty = .ok r ∧
      r.out.map Out.line = file ∧ r.rejected = [] ∧ r.skipped = false ∧
      Msg.reversedDetected false ∈ r.msgs ∧ Msg.assumingR ∈ r.msgs ∧ r.tty = tty ∧
      r.patch = reversePatch p0 := by
  obtain ⟨hv', hs', q, hq⟩ := reversed_perfect file h1 rest o hv hx hF
  have hsc := forward_not_perfect _ h1 o hamb hf
  have hsus := probe_suspicious _ h1 o q hamb hq
  generalize splice file 0 (h1 :: rest) = B at *
  unfold applyPatch
  simp only [hR, Bool.false_eq_true, if_false, hp, hsc, if_true, hsus]
  simp only [hq, checkHowToHandleReversed, hN, ht, Bool.not_false, if_true]
  obtain ⟨s3, e, b1, b2, _, _, b5, _, _, b8, b9⟩ :=
    C01.applyRest_valid B o (reversePatch p0) hD hF 0 0 _ hv'
      ({ msgs := [Msg.reversedDetected false, Msg.assumingR], tty := tty } : AState) 0 rfl rfl rfl
  have hfold := C01.first_then_rest B o (reversePatch p0)
    ({ msgs := [Msg.reversedDetected false, Msg.assumingR], tty := tty } : AState) (reverseHunk h1)
    (rest.map reverseHunk) (C01.finishRes B (reversePatch p0))
  simp only [hq] at hfold
  refine ⟨C01.finishRes B (reversePatch p0) s3, ?_, ?_, b2, b5, ?_, ?_, b9, rfl⟩
  · refine Eq.trans hfold ?_
    rw [e]
  · have : (C01.finishRes B (reversePatch p0) s3).out =
        s3.out ++ copyRange B s3.cursor (B.length - s3.cursor) := rfl
    rw [this, b1, hs']; rfl
  · exact b8.subset (by simp)
  · exact b8.subset (by simp)

/-- re-applying a file-creating patch with -t: the patch handed back to the driver is a deletion (so the driver
    removes the file, as it does with -R), and its output is the original (empty) content -/
theorem C06_t_creation (file : List Line) (h1 : Hunk) (rest : List Hunk) (p0 : Patch) (o : ApplyOpts)
    (tty : Option (List Bool))
    (hv : Valid file 0 0 (h1 :: rest)) (hx : NoReversedD2 file (h1 :: rest)) (hp : p0.hunks = h1 :: rest)
    (hamb : FirstHunkNoLongerFits (splice file 0 (h1 :: rest)) h1 o)
    (hN : o.ignoreReversed = false) (ht : o.batch = true) (hf : o.force = false) (hR : o.reverse = false)
    (hD : o.define = []) (hF : 0 ≤ o.maxFuzz) (hadd : p0.operation = .add) :
    ∃ r, applyPatch (splice file 0 (h1 :: rest)) p0 o tty = .ok r ∧
      r.patch.operation = .delete ∧ r.patch.oldPath = p0.newPath ∧ r.patch.newPath = p0.oldPath ∧
      r.out.map Out.line = file ∧ r.rejected = [] ∧ r.skipped = false := by
  obtain ⟨r, h0, h1', h2, h3, _, _, _, h7⟩ := C06_t file h1 rest p0 o tty hv hx hp hamb hN ht hf hR hD hF
  refine ⟨r, h0, ?_, ?_, ?_, h1', h2, h3⟩
  · rw [h7]; simp [reversePatch, hadd]
  · rw [h7]; rfl
  · rw [h7]; rfl

/-! ### the hypotheses are satisfiable: `@@ -0,0 +1,2 @@ +a +b` creates a file from nothing; run again on the
    created file `a b` with -t, it is taken back -/

def crA : Line := ⟨[97], .lf⟩
def crB : Line := ⟨[98], .lf⟩
def crHunk : Hunk := ⟨⟨0, 0⟩, ⟨1, 2⟩, [⟨PLUS, crA⟩, ⟨PLUS, crB⟩]⟩
def crPatch : Patch := { operation := .add, newPath := [102], hunks := [crHunk] }

theorem crValid : Valid [] 0 0 [crHunk] :=
  Valid.cons 0 0 crHunk [] 0 (by unfold Hunk.WF; decide) (by decide) (by decide) (by decide) (by decide) (by decide)
    (by decide) (Valid.nil _ _ (by decide))

example : splice [] 0 [crHunk] = [crA, crB] := by decide

example : ∃ r, applyPatch [crA, crB] crPatch { batch := true } none = .ok r ∧
    r.patch.operation = .delete ∧ r.patch.oldPath = [102] ∧ r.patch.newPath = [] ∧
    r.out.map Out.line = [] ∧ r.rejected = [] ∧ r.skipped = false :=
  C06_t_creation [] crHunk [] crPatch { batch := true } none crValid
    (by intro h hh; simp only [List.mem_singleton] at hh; subst hh; decide)
    rfl (Or.inr (by decide)) rfl rfl rfl rfl rfl (by decide) rfl

/-- the same hypotheses with an ordinary (changing) first hunk: `-a +b` on the file `a`, run again on `b` -/
def chA : Line := ⟨[97], .lf⟩
def chB : Line := ⟨[98], .lf⟩
def chHunk : Hunk := ⟨⟨1, 1⟩, ⟨1, 1⟩, [⟨MINUS, chA⟩, ⟨PLUS, chB⟩]⟩

theorem chValid : Valid [chA] 0 0 [chHunk] :=
  Valid.cons 0 0 chHunk [] 0 (by unfold Hunk.WF; decide) (by decide) (by decide) (by decide) (by decide) (by decide)
    (by decide) (Valid.nil _ _ (by decide))

example : ∃ r, applyPatch [chB] { hunks := [chHunk] } { batch := true } none = .ok r ∧
    r.out.map Out.line = [chA] ∧ r.rejected = [] ∧ r.skipped = false ∧
    Msg.reversedDetected false ∈ r.msgs ∧ Msg.assumingR ∈ r.msgs ∧ r.tty = none ∧
    r.patch = reversePatch { hunks := [chHunk] } :=
  C06_t [chA] chHunk [] { hunks := [chHunk] } { batch := true } none chValid
    (by intro h hh; simp only [List.mem_singleton] at hh; subst hh; decide)
    rfl (Or.inl ⟨by decide, by decide⟩) rfl rfl rfl rfl rfl (by decide)

/-- with -f no guess is made: the result does not depend on the tty, nothing is asked, no "reversed" message -/
theorem C06_f (file : List Line) (p0 : Patch) (o : ApplyOpts) (tty : Option (List Bool))
    (hf : o.force = true) :
    (∀ r, applyPatch file p0 o tty = .ok r →
      r.tty = tty ∧ r.skipped = false ∧
      (∀ m ∈ r.msgs, ∀ u q, m ≠ Msg.reversedDetected u ∧ m ≠ Msg.assumingR ∧ m ≠ Msg.skippingPatch ∧ m ≠ Msg.asked q)) ∧
    (∀ tty', (applyPatch file p0 o tty').toOption.map (·.out) = (applyPatch file p0 o tty).toOption.map (·.out)) := by
  constructor
  · intro r hr
    rw [applyPatch_force file p0 o tty hf] at hr
    split at hr
    · cases hr
    · next s3 hs3 =>
      injection hr with hr
      subst hr
      obtain ⟨a1, a2, a3⟩ := applyRest_frame _ _ _ _ _ _ _ hs3
      refine ⟨a1, a2, ?_⟩
      intro m hm u q
      rcases a3 m hm with h | h
      · cases h
      · cases m <;> simp [isHunkMsg] at h ⊢
  · intro tty'
    rw [applyPatch_force file p0 o tty hf, applyPatch_force file p0 o tty' hf]
    have e : ({ tty := tty' } : AState) = setTty ({ tty := tty } : AState) tty' := rfl
    rw [e, applyRest_setTty]
    cases applyRest file o _ ({ tty := tty } : AState) 0 _ with
    | error e => rfl
    | ok s => rfl

/-! ### the statements with the OLD hypothesis are false of the present model: known finding D84

`orig` = `a `, `}`, `a `, `}`, `{`, `foo`, `foo`, `c`; the patch `@@ -7 +6,0 @@` / `-foo` removes the second `foo` (line 7) and
gives `again` = `a `, `}`, `a `, `}`, `{`, `foo`, `c`.  Run on `again` once more: line 7 is `c`, the hunk does not fit where it
says (`FirstHunkNoLongerFitsOld` holds) — but one line up there is the other `foo`: `locate_hunk` finds the hunk at line 6
(offset -1).  The reversed hunk (`+foo`, no old lines) is "found" wherever it says; since fix 3f5edfc that is no evidence, so the
probe does not say "reversed" and the hunk is applied a second time, `-N` or `-t` or neither.  Nothing in a hunk without context
and without additions tells "already applied" from "the lines have moved" (D82, the defect fixed, was the other side of this);
GNU patch behaves the same.  The new `FirstHunkNoLongerFits` excludes exactly this (`D84.not_fits`). -/
namespace D84
def a_ : Line := ⟨[97, 32], .lf⟩
def rb : Line := ⟨[125], .lf⟩
def lb : Line := ⟨[123], .lf⟩
def foo : Line := ⟨[102, 111, 111], .lf⟩
def c : Line := ⟨[99], .lf⟩
def orig : List Line := [a_, rb, a_, rb, lb, foo, foo, c]
def again : List Line := [a_, rb, a_, rb, lb, foo, c]
def once : List Line := [a_, rb, a_, rb, lb, c]
/-- `@@ -7 +6,0 @@` / `-foo` -/
def hk : Hunk := ⟨⟨7, 1⟩, ⟨6, 0⟩, [⟨MINUS, foo⟩]⟩
def pt : Patch := { hunks := [hk] }
def oN : ApplyOpts := { ignoreReversed := true }      -- -N
def ot : ApplyOpts := { batch := true }               -- -t

theorem valid : Valid orig 0 0 [hk] :=
  Valid.cons 0 0 hk [] 6 (by unfold Hunk.WF; decide) (by decide) (by decide) (by decide) (by decide) (by decide)
    (by decide) (Valid.nil _ _ (by decide))
theorem spliced : splice orig 0 [hk] = again := by decide
theorem noD2 : NoReversedD2 orig [hk] := by
  intro h hh; simp only [List.mem_singleton] at hh; subst hh; decide

/-- the old hypothesis holds (whatever the options that do not touch `-l` / `-F`): line 7 of `again` is `c`, not `foo` -/
theorem fits_old (o : ApplyOpts) (hw : o.ignoreWhitespace = false) (hfz : o.maxFuzz = 2) :
    FirstHunkNoLongerFitsOld again hk o := by
  refine Or.inl ⟨by decide, ?_⟩
  rw [hw, hfz]
  decide +kernel

/-- … the new one does not: the hunk has no new side, and it is found (at line 6, offset -1) -/
theorem found : locateHunk again hk false 0 2 0 = some ⟨5, 0, -1⟩ := by decide +kernel
theorem not_fits (o : ApplyOpts) (hw : o.ignoreWhitespace = false) (hfz : o.maxFuzz = 2) :
    ¬ FirstHunkNoLongerFits again hk o := by
  rintro (⟨_, _, h | h⟩ | ⟨h, _⟩)
  · exact h rfl
  · rw [hw, hfz, found] at h; cases h
  · revert h; decide

/-- what `apply_patch` does with `-N`: nothing skipped, nothing rejected, the other `foo` is gone -/
theorem runs_N : (applyPatch again pt oN none).toOption.map (fun r => (r.skipped, r.failed, r.applied, r.out.map Out.line)) =
    some (false, 0, [(0, ⟨5, 0, -1⟩)], once) := by decide +kernel
/-- … and with `-t`: the same, the patch is not reversed -/
theorem runs_t : (applyPatch again pt ot none).toOption.map (fun r => (r.skipped, r.failed, r.applied, r.out.map Out.line)) =
    some (false, 0, [(0, ⟨5, 0, -1⟩)], once) := by decide +kernel

#guard (applyPatch again pt oN none).toOption.map (·.msgs) == some [.hunk 1 "succeeded" 6 0 (-1)]
#guard (applyPatch again pt ot none).toOption.map (·.msgs) == some [.hunk 1 "succeeded" 6 0 (-1)]
#guard (applyPatch again pt {} none).toOption.map (fun r => (r.msgs, r.out.map Out.line)) ==
  some ([.hunk 1 "succeeded" 6 0 (-1)], once)
-- a patch whose context-free removal is NOT found again is still recognised (the second disjunct of `suspicious`): `again` without
-- its `foo`
#guard (applyPatch once pt oN none).toOption.map (fun r => (r.skipped, r.failed, r.msgs)) ==
  some (true, 1, [.reversedDetected false, .skippingPatch])

end D84

/-- the statement of `C06_N` as it was before fix 3f5edfc: hypothesis `FirstHunkNoLongerFitsOld` -/
def C06_N_old_statement : Prop :=
  ∀ (file : List Line) (h1 : Hunk) (rest : List Hunk) (p0 : Patch) (o : ApplyOpts) (tty : Option (List Bool)),
    Valid file 0 0 (h1 :: rest) → NoReversedD2 file (h1 :: rest) → p0.hunks = h1 :: rest →
    FirstHunkNoLongerFitsOld (splice file 0 (h1 :: rest)) h1 o →
    o.ignoreReversed = true → o.force = false → o.reverse = false → o.define = [] → 0 ≤ o.maxFuzz →
    ∃ r, applyPatch (splice file 0 (h1 :: rest)) p0 o tty = .ok r ∧
      r.out.map Out.line = splice file 0 (h1 :: rest) ∧
      r.skipped = true ∧ r.applied = [] ∧ r.failed = (h1 :: rest).length ∧
      r.rejected.map (·.1) = List.range (h1 :: rest).length ∧
      Msg.reversedDetected false ∈ r.msgs ∧ Msg.skippingPatch ∈ r.msgs ∧ r.tty = tty

/-- the statement of `C06_t` as it was before fix 3f5edfc -/
def C06_t_old_statement : Prop :=
  ∀ (file : List Line) (h1 : Hunk) (rest : List Hunk) (p0 : Patch) (o : ApplyOpts) (tty : Option (List Bool)),
    Valid file 0 0 (h1 :: rest) → NoReversedD2 file (h1 :: rest) → p0.hunks = h1 :: rest →
    FirstHunkNoLongerFitsOld (splice file 0 (h1 :: rest)) h1 o →
    o.ignoreReversed = false → o.batch = true → o.force = false → o.reverse = false → o.define = [] → 0 ≤ o.maxFuzz →
    ∃ r, applyPatch (splice file 0 (h1 :: rest)) p0 o tty = .ok r ∧
      r.out.map Out.line = file ∧ r.rejected = [] ∧ r.skipped = false ∧
      Msg.reversedDetected false ∈ r.msgs ∧ Msg.assumingR ∈ r.msgs ∧ r.tty = tty ∧
      r.patch = reversePatch p0

/-- **the old statement of `C06_N` is false of the model with fix 3f5edfc** (D84): with `-N` the run on `D84.again` skips nothing -/
theorem C06_old_statement_false : ¬ C06_N_old_statement := by
  intro H
  obtain ⟨r, hr, _, hsk, _⟩ := H D84.orig D84.hk [] D84.pt D84.oN none D84.valid D84.noD2 rfl
    (by rw [D84.spliced]; exact D84.fits_old _ rfl rfl) rfl rfl rfl rfl (by decide)
  have h := D84.runs_N
  rw [D84.spliced] at hr
  rw [hr] at h
  simp only [Except.toOption, Option.map_some, Option.some.injEq, Prod.mk.injEq] at h
  rw [hsk] at h
  exact absurd h.1 (by decide)

/-- **… and so is the old statement of `C06_t`**: with `-t` the patch is not reversed, the old file does not come back -/
theorem C06_t_old_statement_false : ¬ C06_t_old_statement := by
  intro H
  obtain ⟨r, hr, hout, _⟩ := H D84.orig D84.hk [] D84.pt D84.ot none D84.valid D84.noD2 rfl
    (by rw [D84.spliced]; exact D84.fits_old _ rfl rfl) rfl rfl rfl rfl rfl (by decide)
  have h := D84.runs_t
  rw [D84.spliced] at hr
  rw [hr] at h
  simp only [Except.toOption, Option.map_some, Option.some.injEq, Prod.mk.injEq] at h
  rw [hout] at h
  exact absurd h.2.2.2 (by decide)

/-- the new hypothesis is what the old one lacked, on this instance: `C06_N` / `C06_t` do not apply to D84 -/
example : FirstHunkNoLongerFitsOld D84.again D84.hk D84.oN ∧ ¬ FirstHunkNoLongerFits D84.again D84.hk D84.oN :=
  ⟨D84.fits_old _ rfl rfl, D84.not_fits _ rfl rfl⟩

end PatchModel.C06

#print axioms PatchModel.C06.firstHunkNoLongerFits_iff
#print axioms PatchModel.C06.forward_not_perfect
#print axioms PatchModel.C06.reversed_perfect
#print axioms PatchModel.C06.probe_suspicious
#print axioms PatchModel.C06.C06_N
#print axioms PatchModel.C06.C06_t
#print axioms PatchModel.C06.C06_t_creation
#print axioms PatchModel.C06.C06_f
#print axioms PatchModel.C06.D84.not_fits
#print axioms PatchModel.C06.C06_old_statement_false
#print axioms PatchModel.C06.C06_t_old_statement_false
