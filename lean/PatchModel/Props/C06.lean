/-
  C06 (apply_patch level) — an already applied patch is detected, not applied a second time.
  History: `file` was patched with the valid script `hs`, giving `B = splice file 0 hs`; the same patch is run on `B`.
-/
import PatchModel.Spec.Script
import PatchModel.Lemmas.Valid
import PatchModel.Props.C02
import PatchModel.Props.C01
import PatchModel.Props.C05
namespace PatchModel.C06
open PatchModel PatchModel.Script

/-- the reversed-D2 exclusion (see C05) -/
def NoReversedD2 (file : List Line) (hs : List Hunk) : Prop :=
  ∀ h ∈ hs, ¬ (h.new.count = 0 ∧ h.new.start = 0 ∧ splice file 0 hs ≠ [])

/-- the inherently ambiguous case is excluded: the first hunk does not apply exactly at its stated line of `B`
    (in particular it is not a context-free insertion, which "fits" anywhere). Either the hunk has an old side
    that is not admissible at the stated line, or it is the hunk of a file-creating patch (`@@ -0,0 +1,n @@`)
    and the file now exists and is not empty -/
def FirstHunkNoLongerFits (B : List Line) (h1 : Hunk) (o : ApplyOpts) : Prop :=
  (h1.old.count ≠ 0 ∧ admissibleB B h1 o.ignoreWhitespace o.maxFuzz h1.pos0.toNat 0 = false) ∨
  (h1.old.count = 0 ∧ h1.old.start = 0 ∧ B ≠ [])

/-! ### helpers -/

theorem forward_not_perfect (B : List Line) (h1 : Hunk) (o : ApplyOpts)
    (hamb : FirstHunkNoLongerFits B h1 o) (hf : o.force = false) :
    shouldCheckReversed (locateHunk B h1 o.ignoreWhitespace 0 o.maxFuzz 0) o = true := by
  rcases hamb with hamb | ⟨hc, hs, hB⟩
  · unfold shouldCheckReversed
    cases hl : locateHunk B h1 o.ignoreWhitespace 0 o.maxFuzz 0 with
    | none => simp [hf]
    | some l =>
      simp only []
      split
      · next hc =>
        exfalso
        obtain ⟨p, f, e1, e2, _, hadm, e3⟩ :=
          C02.locate_sound B h1 o.ignoreWhitespace 0 o.maxFuzz 0 l hl hamb.1
        have hf0 : f = 0 := by omega
        have hp : h1.pos0.toNat = p := by unfold Hunk.pos0; omega
        rw [hf0, ← hp, hamb.2] at hadm
        cases hadm
      · simp [hf]
  · have hl : locateHunk B h1 o.ignoreWhitespace 0 o.maxFuzz 0 = none := by
      unfold locateHunk
      simp [hc, hs, hB]
    rw [hl]
    simp [shouldCheckReversed, hf]

theorem reversed_perfect (file : List Line) (h1 : Hunk) (rest : List Hunk) (o : ApplyOpts)
    (hv : Valid file 0 0 (h1 :: rest)) (hx : NoReversedD2 file (h1 :: rest)) (hF : 0 ≤ o.maxFuzz) :
    Valid (splice file 0 (h1 :: rest)) 0 0 (reverseHunk h1 :: rest.map reverseHunk) ∧
    splice (splice file 0 (h1 :: rest)) 0 (reverseHunk h1 :: rest.map reverseHunk) = file ∧
    ∃ q : Nat, locateHunk (splice file 0 (h1 :: rest)) (reverseHunk h1) o.ignoreWhitespace 0 o.maxFuzz 0
      = some ⟨q, 0, 0⟩ := by
  obtain ⟨hv', hs'⟩ := C05.reverse_valid file (h1 :: rest) hv hx
  simp only [List.map_cons] at hv' hs'
  refine ⟨hv', hs', ?_⟩
  cases hv' with
  | cons _ _ _ _ q hw hq hcq hold hfit hnew hex hv'' =>
    exact ⟨q, C01.locate_inplace _ _ _ _ 0 q hw hq hcq hold hfit hex hF⟩

theorem shouldCheck_force (loc : Option Location) (o : ApplyOpts) (hf : o.force = true) :
    shouldCheckReversed loc o = false := by
  unfold shouldCheckReversed
  cases loc with
  | none => simp [hf]
  | some l => simp only []; split <;> simp [hf]

/-- with -f `apply_patch` is the plain hunk loop -/
theorem applyPatch_force (file : List Line) (p0 : Patch) (o : ApplyOpts) (tty : Option (List Bool))
    (hf : o.force = true) :
    applyPatch file p0 o tty =
      match applyRest file o (if o.reverse then reversePatch p0 else p0) ({ tty := tty } : AState) 0
          (if o.reverse then reversePatch p0 else p0).hunks with
      | .error e => .error e
      | .ok s3 => .ok (C01.finishRes file (if o.reverse then reversePatch p0 else p0) s3) := by
  unfold applyPatch
  simp only []
  generalize (if o.reverse = true then reversePatch p0 else p0) = p
  cases hh : p.hunks with
  | nil => rfl
  | cons h0 rest =>
    simp only [shouldCheck_force _ o hf, Bool.false_eq_true, if_false]
    exact C01.first_then_rest file o p ({ tty := tty } : AState) h0 rest (C01.finishRes file p)

/-- with -N: the file stays as it is, every hunk is saved as a reject (reported "ignored"), nothing is applied -/
theorem C06_N (file : List Line) (h1 : Hunk) (rest : List Hunk) (p0 : Patch) (o : ApplyOpts) (tty : Option (List Bool))
    (hv : Valid file 0 0 (h1 :: rest)) (hx : NoReversedD2 file (h1 :: rest)) (hp : p0.hunks = h1 :: rest)
    (hamb : FirstHunkNoLongerFits (splice file 0 (h1 :: rest)) h1 o)
    (hN : o.ignoreReversed = true) (hf : o.force = false) (hR : o.reverse = false)
    (hD : o.define = []) (hF : 0 ≤ o.maxFuzz) :
    ∃ r, applyPatch (splice file 0 (h1 :: rest)) p0 o tty = .ok r ∧
      r.out.map Out.line = splice file 0 (h1 :: rest) ∧
      r.skipped = true ∧ r.applied = [] ∧ r.failed = (h1 :: rest).length ∧
      r.rejected.map (·.1) = List.range (h1 :: rest).length ∧
      Msg.reversedDetected false ∈ r.msgs ∧ Msg.skippingPatch ∈ r.msgs ∧ r.tty = tty := by
  obtain ⟨_, _, q, hq⟩ := reversed_perfect file h1 rest o hv hx hF
  have hsc := forward_not_perfect _ h1 o hamb hf
  have hwf := valid_allWF hv
  generalize splice file 0 (h1 :: rest) = B at *
  unfold applyPatch
  simp only [hR, Bool.false_eq_true, if_false, hp, hsc, if_true, hq, isPerfect, beq_self_eq_true, Bool.and_self,
    Bool.true_or, checkHowToHandleReversed, hN, Bool.not_true]
  obtain ⟨s3, e, a1, a2, a3, a4, a5, a6, a7⟩ := applyRest_skip B o p0 (h1 :: rest)
    ({ skip := true, msgs := [Msg.reversedDetected false, Msg.skippingPatch], tty := tty } : AState) 0 rfl hwf
  have hfold := C01.first_then_rest B o p0
    ({ skip := true, msgs := [Msg.reversedDetected false, Msg.skippingPatch], tty := tty } : AState) h1 rest
    (C01.finishRes B p0)
  refine ⟨C01.finishRes B p0 s3, ?_, ?_, a3, a4, ?_, ?_, ?_, ?_, a7⟩
  · refine Eq.trans hfold ?_
    rw [e]
  · simp [C01.finishRes, a1, a2, copyRange_map_line]
  · have := congrArg List.length a5
    simpa [C01.finishRes] using this
  · simpa [C01.finishRes, List.range_eq_range'] using a5
  · exact a6.subset (by simp)
  · exact a6.subset (by simp)

/-- with -t (and no -N): the patch is applied in reverse and restores the original lines -/
theorem C06_t (file : List Line) (h1 : Hunk) (rest : List Hunk) (p0 : Patch) (o : ApplyOpts) (tty : Option (List Bool))
    (hv : Valid file 0 0 (h1 :: rest)) (hx : NoReversedD2 file (h1 :: rest)) (hp : p0.hunks = h1 :: rest)
    (hamb : FirstHunkNoLongerFits (splice file 0 (h1 :: rest)) h1 o)
    (hN : o.ignoreReversed = false) (ht : o.batch = true) (hf : o.force = false) (hR : o.reverse = false)
    (hD : o.define = []) (hF : 0 ≤ o.maxFuzz) :
    ∃ r, applyPatch (splice file 0 (h1 :: rest)) p0 o tty = .ok r ∧
      r.out.map Out.line = file ∧ r.rejected = [] ∧ r.skipped = false ∧
      Msg.reversedDetected false ∈ r.msgs ∧ Msg.assumingR ∈ r.msgs ∧ r.tty = tty ∧
      r.patch = reversePatch p0 := by
  obtain ⟨hv', hs', q, hq⟩ := reversed_perfect file h1 rest o hv hx hF
  have hsc := forward_not_perfect _ h1 o hamb hf
  generalize splice file 0 (h1 :: rest) = B at *
  unfold applyPatch
  simp only [hR, Bool.false_eq_true, if_false, hp, hsc, if_true, hq, isPerfect, beq_self_eq_true, Bool.and_self,
    Bool.true_or, checkHowToHandleReversed, hN, ht, Bool.not_false]
  obtain ⟨s3, e, b1, b2, _, _, b5, _, _, b8, b9⟩ :=
    C01.applyRest_valid B o (reversePatch p0) hD hF 0 0 _ hv'
      ({ msgs := [Msg.reversedDetected false, Msg.assumingR], tty := tty } : AState) 0 rfl rfl rfl
  have hfold := C01.first_then_rest B o (reversePatch p0)
    ({ msgs := [Msg.reversedDetected false, Msg.assumingR], tty := tty } : AState) (reverseHunk h1)
    (rest.map reverseHunk) (C01.finishRes B (reversePatch p0))
  simp only [hq] at hfold
  refine ⟨C01.finishRes B (reversePatch p0) s3, ?_, ?_, b2, b5, ?_, ?_, b9, rfl⟩
  · refine Eq.trans hfold ?_
    rw [e]
  · have : (C01.finishRes B (reversePatch p0) s3).out =
        s3.out ++ copyRange B s3.cursor (B.length - s3.cursor) := rfl
    rw [this, b1, hs']; rfl
  · exact b8.subset (by simp)
  · exact b8.subset (by simp)

/-- re-applying a file-creating patch with -t: the patch handed back to the driver is a deletion (so the driver
    removes the file, as it does with -R), and its output is the original (empty) content -/
theorem C06_t_creation (file : List Line) (h1 : Hunk) (rest : List Hunk) (p0 : Patch) (o : ApplyOpts)
    (tty : Option (List Bool))
    (hv : Valid file 0 0 (h1 :: rest)) (hx : NoReversedD2 file (h1 :: rest)) (hp : p0.hunks = h1 :: rest)
    (hamb : FirstHunkNoLongerFits (splice file 0 (h1 :: rest)) h1 o)
    (hN : o.ignoreReversed = false) (ht : o.batch = true) (hf : o.force = false) (hR : o.reverse = false)
    (hD : o.define = []) (hF : 0 ≤ o.maxFuzz) (hadd : p0.operation = .add) :
    ∃ r, applyPatch (splice file 0 (h1 :: rest)) p0 o tty = .ok r ∧
      r.patch.operation = .delete ∧ r.patch.oldPath = p0.newPath ∧ r.patch.newPath = p0.oldPath ∧
      r.out.map Out.line = file ∧ r.rejected = [] ∧ r.skipped = false := by
  obtain ⟨r, h0, h1', h2, h3, _, _, _, h7⟩ := C06_t file h1 rest p0 o tty hv hx hp hamb hN ht hf hR hD hF
  refine ⟨r, h0, ?_, ?_, ?_, h1', h2, h3⟩
  · rw [h7]; simp [reversePatch, hadd]
  · rw [h7]; rfl
  · rw [h7]; rfl

/-! ### the hypotheses are satisfiable: `@@ -0,0 +1,2 @@ +a +b` creates a file from nothing; run again on the
    created file `a b` with -t, it is taken back -/

def crA : Line := ⟨[97], .lf⟩
def crB : Line := ⟨[98], .lf⟩
def crHunk : Hunk := ⟨⟨0, 0⟩, ⟨1, 2⟩, [⟨PLUS, crA⟩, ⟨PLUS, crB⟩]⟩
def crPatch : Patch := { operation := .add, newPath := [102], hunks := [crHunk] }

theorem crValid : Valid [] 0 0 [crHunk] :=
  Valid.cons 0 0 crHunk [] 0 (by unfold Hunk.WF; decide) (by decide) (by decide) (by decide) (by decide) (by decide)
    (by decide) (Valid.nil _ _ (by decide))

example : splice [] 0 [crHunk] = [crA, crB] := by decide

example : ∃ r, applyPatch [crA, crB] crPatch { batch := true } none = .ok r ∧
    r.patch.operation = .delete ∧ r.patch.oldPath = [102] ∧ r.patch.newPath = [] ∧
    r.out.map Out.line = [] ∧ r.rejected = [] ∧ r.skipped = false :=
  C06_t_creation [] crHunk [] crPatch { batch := true } none crValid
    (by intro h hh; simp only [List.mem_singleton] at hh; subst hh; decide)
    rfl (Or.inr (by decide)) rfl rfl rfl rfl rfl (by decide) rfl

/-- the same hypotheses with an ordinary (changing) first hunk: `-a +b` on the file `a`, run again on `b` -/
def chA : Line := ⟨[97], .lf⟩
def chB : Line := ⟨[98], .lf⟩
def chHunk : Hunk := ⟨⟨1, 1⟩, ⟨1, 1⟩, [⟨MINUS, chA⟩, ⟨PLUS, chB⟩]⟩

theorem chValid : Valid [chA] 0 0 [chHunk] :=
  Valid.cons 0 0 chHunk [] 0 (by unfold Hunk.WF; decide) (by decide) (by decide) (by decide) (by decide) (by decide)
    (by decide) (Valid.nil _ _ (by decide))

example : ∃ r, applyPatch [chB] { hunks := [chHunk] } { batch := true } none = .ok r ∧
    r.out.map Out.line = [chA] ∧ r.rejected = [] ∧ r.skipped = false ∧
    Msg.reversedDetected false ∈ r.msgs ∧ Msg.assumingR ∈ r.msgs ∧ r.tty = none ∧
    r.patch = reversePatch { hunks := [chHunk] } :=
  C06_t [chA] chHunk [] { hunks := [chHunk] } { batch := true } none chValid
    (by intro h hh; simp only [List.mem_singleton] at hh; subst hh; decide)
    rfl (Or.inl ⟨by decide, by decide⟩) rfl rfl rfl rfl rfl (by decide)

/-- with -f no guess is made: the result does not depend on the tty, nothing is asked, no "reversed" message -/
theorem C06_f (file : List Line) (p0 : Patch) (o : ApplyOpts) (tty : Option (List Bool))
    (hf : o.force = true) :
    (∀ r, applyPatch file p0 o tty = .ok r →
      r.tty = tty ∧ r.skipped = false ∧
      (∀ m ∈ r.msgs, ∀ u q, m ≠ Msg.reversedDetected u ∧ m ≠ Msg.assumingR ∧ m ≠ Msg.skippingPatch ∧ m ≠ Msg.asked q)) ∧
    (∀ tty', (applyPatch file p0 o tty').toOption.map (·.out) = (applyPatch file p0 o tty).toOption.map (·.out)) := by
  constructor
  · intro r hr
    rw [applyPatch_force file p0 o tty hf] at hr
    split at hr
    · cases hr
    · next s3 hs3 =>
      injection hr with hr
      subst hr
      obtain ⟨a1, a2, a3⟩ := applyRest_frame _ _ _ _ _ _ _ hs3
      refine ⟨a1, a2, ?_⟩
      intro m hm u q
      rcases a3 m hm with h | h
      · cases h
      · cases m <;> simp [isHunkMsg] at h ⊢
  · intro tty'
    rw [applyPatch_force file p0 o tty hf, applyPatch_force file p0 o tty' hf]
    have e : ({ tty := tty' } : AState) = setTty ({ tty := tty } : AState) tty' := rfl
    rw [e, applyRest_setTty]
    cases applyRest file o _ ({ tty := tty } : AState) 0 _ with
    | error e => rfl
    | ok s => rfl

end PatchModel.C06
