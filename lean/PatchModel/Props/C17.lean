/-
  C17 (driver model) — file modes are preserved and refusals leave files untouched.
-/
import PatchModel.Model.Driver
import PatchModel.Lemmas.Fault
import PatchModel.Lemmas.Modes
import PatchModel.Lemmas.DriverFacts
namespace PatchModel.C17
open PatchModel PatchModel.Fault PatchModel.Modes

/-- a read-only target with --read-only=fail is refused before anything is touched: no operation, tree unchanged -/
theorem readonly_fail_untouched (o : Options) (p : Bytes) (s : DState) (m : Nat) (b : Bytes)
    (hro : o.readOnly = .fail) (hfile : s.fs.stat (absPath s p) = some (.file b m)) (hnow : m &&& writeMask = 0) :
    ∃ s', (fixPermissionsIfNeeded o p).run s = (.ok { oldPerms := some m, needFix := true, hadFailure := true }, s') ∧
      s'.fs = s.fs ∧ s'.trace = s.trace := by
  refine ⟨{ s with out := s.out ++ [.readOnly] }, ?_, rfl, rfl⟩
  show run (fixPermissionsIfNeeded o p) s = _
  unfold fixPermissionsIfNeeded
  rw [run_bind_ok (run_fsGetPerms_file hfile)]
  simp only [needFix_true hnow, hro]
  rfl

/-- a writable target is left alone by the permission check -/
theorem writable_untouched (o : Options) (p : Bytes) (s : DState) (m : Nat) (b : Bytes)
    (hfile : s.fs.stat (absPath s p) = some (.file b m)) (hw : m &&& writeMask ≠ 0) :
    (fixPermissionsIfNeeded o p).run s = (.ok { oldPerms := some m, needFix := false, hadFailure := false }, s) := by
  show run (fixPermissionsIfNeeded o p) s = _
  unfold fixPermissionsIfNeeded
  rw [run_bind_ok (run_fsGetPerms_file hfile)]
  simp only [needFix_false hw]
  rfl

/-- **the read-only check only looks**: whatever the target, the options and the outcome, `fix_permissions_if_needed` performs no
    file system operation and leaves the tree as it is (it reads the mode, prints the warning, decides). So a refusal or an abort
    after the check — `--read-only=fail`, a missing prerequisite, a malformed body, an unreadable input — finds the mode of the
    target untouched: the `chmod` of a read-only target is `makeWritable`'s, right before the backup and the write. -/
theorem fixPermissions_reads_only (o : Options) (p : Bytes) (s s' : DState) (r : Except Exn PermResult)
    (h : (fixPermissionsIfNeeded o p).run s = (r, s')) : s'.fs = s.fs ∧ s'.trace = s.trace := by
  have h : run (fixPermissionsIfNeeded o p) s = (r, s') := h
  unfold fixPermissionsIfNeeded at h
  rw [run_bind_ok (run_fsGetPerms p s)] at h
  dsimp only at h
  repeat' split at h
  all_goals first
    | (cases h; exact ⟨rfl, rfl⟩)
    | (rw [run_bind_ok (run_emit _ _)] at h; repeat' split at h
       all_goals (cases h; exact ⟨rfl, rfl⟩))

/-- `DriverFacts.ChmodLate d ops`, spelled out: every `chmod p` among `ops` comes after a `creat p` (it is the permission callback
    that follows the write of `p`), or is directly followed by the operation it prepares — the backup (`rename p …`, or the creation
    of an empty backup file) or the re-creation of the target —, or, only if `d`, is the very last operation -/
theorem chmodLate_iff (d : Prop) (ops : List FsOp) : DriverFacts.ChmodLate d ops ↔
    ∀ i p m, ops[i]? = some (FsOp.chmod p m) →
      (∃ j, j < i ∧ ops[j]? = some (FsOp.creat p)) ∨
      (∃ op, ops[i + 1]? = some op ∧ ((∃ b, op = FsOp.rename p b) ∨ ∃ b, op = FsOp.creat b)) ∨
      (d ∧ i + 1 = ops.length) := Iff.rfl

/-- **a section never leaves a read-only target writable without going on to write it**: in the operations of one section, a
    `chmod p` is either the permission callback after `p` was re-created, or is directly followed by the backup / re-creation of the
    target; the only exception is a `chmod` that is the last operation of a section that aborted with an I/O error (the very next
    operation failed).  In particular a section that ends normally (patched, refused, skipped) or aborts for any other reason
    (prerequisite, malformed text, …) has not changed any mode except on its way to a write. -/
theorem section_chmod_late (o : Options) (format : Format) (s s' : DState) (r : Except Exn Bool)
    (h : (processSection o format).run s = (r, s')) :
    ∃ ops, s'.trace = s.trace ++ ops ∧
      ∀ i p m, ops[i]? = some (FsOp.chmod p m) →
        (∃ j, j < i ∧ ops[j]? = some (FsOp.creat p)) ∨
        (∃ op, ops[i + 1]? = some op ∧ ((∃ b, op = FsOp.rename p b) ∨ ∃ b, op = FsOp.creat b)) ∨
        (r = .error .systemError ∧ i + 1 = ops.length) := by
  cases r with
  | ok a =>
    obtain ⟨ops, e, hl⟩ := (DriverFacts.processSection_late o format).ok _ _ _ h
    exact ⟨ops, e, fun i p m hi => (hl i p m hi).imp id (Or.imp id (fun x => x.1.elim))⟩
  | error e =>
    obtain ⟨ops, e', hl⟩ := (DriverFacts.processSection_late o format).err _ _ _ h
    exact ⟨ops, e', fun i p m hi => (hl i p m hi).imp id (Or.imp id (fun x => ⟨by rw [x.1], x.2⟩))⟩

/-- the same for a whole run (sections and `DeferredWriter::finalize`): a `chmod` that is neither after the `creat` of its path nor
    directly before a backup / creation is the last operation of a run that ended with exit status 2 -/
theorem run_chmod_late (o : Options) (s0 : DState) :
    ∃ ops, (runPatch o s0).2.trace = s0.trace ++ ops ∧
      ∀ i p m, ops[i]? = some (FsOp.chmod p m) →
        (∃ j, j < i ∧ ops[j]? = some (FsOp.creat p)) ∨
        (∃ op, ops[i + 1]? = some op ∧ ((∃ b, op = FsOp.rename p b) ∨ ∃ b, op = FsOp.creat b)) ∨
        ((runPatch o s0).1 = 2 ∧ i + 1 = ops.length) := by
  unfold runPatch
  split
  · exact ⟨[], by simp, fun i p m hi => by simp at hi⟩
  · split
    · next s hr =>
      obtain ⟨ops, e, hl⟩ := (DriverFacts.processPatchM_late o).ok _ _ _ hr
      exact ⟨ops, e, fun i p m hi => (hl i p m hi).imp id (Or.imp id (fun x => x.1.elim))⟩
    · next e s hr =>
      obtain ⟨ops, e', hl⟩ := (DriverFacts.processPatchM_late o).err _ _ _ hr
      exact ⟨ops, e', fun i p m hi => (hl i p m hi).imp id (Or.imp id (fun x => ⟨rfl, x.2⟩))⟩

/-- after the patched result has been written, the permission callback gives the file exactly the mode a git header asks for, or else
    the mode the target had before (also when it had to be made writable, and also when a backup renamed the original away) -/
theorem callback_mode (newMode : Nat) (perm : PermResult) (p : Bytes) (s : DState) (b : Bytes) (m0 : Nat)
    (hfile : s.fs.lookup (absPath s p) = some (.file b m0)) (hf : s.faultAt = none) :
    ∃ s', (permissionCallback newMode perm p).run s = (.ok (), s') ∧
      s'.fs.lookup (absPath s p) = some (.file b
        (if newMode != 0 then newMode &&& 0o7777 else match perm.oldPerms with | some m => m | none => m0)) := by
  show ∃ s', run (permissionCallback newMode perm p) s = _ ∧ _
  unfold permissionCallback
  by_cases hn : (newMode != 0) = true
  · simp only [hn, if_true]
    exact ⟨_, run_opChmod_file _ hfile hf, lookup_set_self ..⟩
  · simp only [hn]
    cases perm.oldPerms with
    | some m => exact ⟨_, run_opChmod_file _ hfile hf, lookup_set_self ..⟩
    | none => exact ⟨s, rfl, hfile⟩

/-- refusing a patch touches nothing but the reject file and the directories leading to it — never the target -/
theorem refuse_touches_only_rejects (o : Options) (outputFile : Bytes) (p : Patch) (s s' : DState) (r : Except Exn Unit)
    (h : (refuseToPatch o outputFile p).run s = (r, s')) :
    ∃ ops, s'.trace = s.trace ++ ops ∧
      ∀ op ∈ ops, ∀ q ∈ op.paths, q = absPath s (rejectPath o outputFile) ∨ ∃ d ∈ dirPrefixes (rejectPath o outputFile), q = absPath s d := by
  have key : Touches (fun q => q = absPath s (rejectPath o outputFile) ∨
      ∃ d ∈ dirPrefixes (rejectPath o outputFile), q = absPath s d) s (run (refuseToPatch o outputFile p) s).2 := by
    unfold refuseToPatch
    refine touches_bind (Foot.emit _ s) fun _ s1 h1 => ?_
    split
    · refine touches_bind (Foot.emit _ s1) fun _ s2 h2 => ?_
      have c2 : s2.cwd = s.cwd := h2.1.trans h1.1
      refine touches_bind ?_ fun _ s3 h3 => ?_
      · refine (touches_ensureParentDirs _ s2).mono fun q hq => .inr ?_
        obtain ⟨d, hd, e⟩ := hq
        exact ⟨d, hd, by rw [e, absPath_cwd c2]⟩
      have c3 : s3.cwd = s.cwd := h3.1.trans c2
      refine touches_bind (touches_opCreat _ s3 (.inl (absPath_cwd c3 _))) fun _ s4 h4 => ?_
      have c4 : s4.cwd = s.cwd := h4.1.trans c3
      split
      · exact Touches.refl s4
      · exact touches_opWrite _ _ s4 (.inl (absPath_cwd c4 _))
    · exact Foot.emit _ s1
  have e : (run (refuseToPatch o outputFile p) s).2 = s' := by
    show ((refuseToPatch o outputFile p).run s).2 = s'
    rw [h]
  rw [e] at key
  exact key.2

/-- with --dry-run a refusal touches nothing at all -/
theorem refuse_dry (o : Options) (outputFile : Bytes) (p : Patch) (s : DState) (hd : o.dryRun = true) :
    ∃ s', (refuseToPatch o outputFile p).run s = (.ok (), s') ∧ s'.fs = s.fs ∧ s'.trace = s.trace := by
  refine ⟨{ s with out := s.out ++ [.refusing] ++ [.failed p.hunks.length p.hunks.length true none] }, ?_, rfl, rfl⟩
  show run (refuseToPatch o outputFile p) s = _
  unfold refuseToPatch
  rw [run_bind_ok (run_emit _ s)]
  simp only [hd]
  rfl

#print axioms readonly_fail_untouched
#print axioms fixPermissions_reads_only
#print axioms section_chmod_late
#print axioms run_chmod_late
#print axioms writable_untouched
#print axioms callback_mode
#print axioms refuse_touches_only_rejects
#print axioms refuse_dry

end PatchModel.C17
