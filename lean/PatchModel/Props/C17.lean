/-
  C17 (driver model) — file modes are preserved and refusals leave files untouched.
-/
import PatchModel.Model.Driver
import PatchModel.Lemmas.Fault
import PatchModel.Lemmas.Modes
namespace PatchModel.C17
open PatchModel PatchModel.Fault PatchModel.Modes

/-- a read-only target with --read-only=fail is refused before anything is touched: no operation, tree unchanged -/
theorem readonly_fail_untouched (o : Options) (p : Bytes) (s : DState) (m : Nat) (b : Bytes)
    (hro : o.readOnly = .fail) (hfile : s.fs.stat (absPath s p) = some (.file b m)) (hnow : m &&& writeMask = 0) :
    ∃ s', (fixPermissionsIfNeeded o p).run s = (.ok { oldPerms := some m, needFix := true, hadFailure := true }, s') ∧
      s'.fs = s.fs ∧ s'.trace = s.trace := by
  refine ⟨{ s with out := s.out ++ [.readOnly] }, ?_, rfl, rfl⟩
  show run (fixPermissionsIfNeeded o p) s = _
  unfold fixPermissionsIfNeeded
  rw [run_bind_ok (run_fsGetPerms_file hfile)]
  simp only [needFix_true hnow, hro]
  rfl

/-- a writable target is left alone by the permission check -/
theorem writable_untouched (o : Options) (p : Bytes) (s : DState) (m : Nat) (b : Bytes)
    (hfile : s.fs.stat (absPath s p) = some (.file b m)) (hw : m &&& writeMask ≠ 0) :
    (fixPermissionsIfNeeded o p).run s = (.ok { oldPerms := some m, needFix := false, hadFailure := false }, s) := by
  show run (fixPermissionsIfNeeded o p) s = _
  unfold fixPermissionsIfNeeded
  rw [run_bind_ok (run_fsGetPerms_file hfile)]
  simp only [needFix_false hw]
  rfl

/-- after the patched result has been written, the permission callback gives the file exactly the mode a git header asks for, or else
    the mode the target had before (also when it had to be made writable, and also when a backup renamed the original away) -/
theorem callback_mode (newMode : Nat) (perm : PermResult) (p : Bytes) (s : DState) (b : Bytes) (m0 : Nat)
    (hfile : s.fs.lookup (absPath s p) = some (.file b m0)) (hf : s.faultAt = none) :
    ∃ s', (permissionCallback newMode perm p).run s = (.ok (), s') ∧
      s'.fs.lookup (absPath s p) = some (.file b
        (if newMode != 0 then newMode &&& 0o7777 else match perm.oldPerms with | some m => m | none => m0)) := by
  show ∃ s', run (permissionCallback newMode perm p) s = _ ∧ _
  unfold permissionCallback
  by_cases hn : (newMode != 0) = true
  · simp only [hn, if_true]
    exact ⟨_, run_opChmod_file _ hfile hf, lookup_set_self ..⟩
  · simp only [hn]
    cases perm.oldPerms with
    | some m => exact ⟨_, run_opChmod_file _ hfile hf, lookup_set_self ..⟩
    | none => exact ⟨s, rfl, hfile⟩

/-- refusing a patch touches nothing but the reject file and the directories leading to it — never the target -/
theorem refuse_touches_only_rejects (o : Options) (outputFile : Bytes) (p : Patch) (s s' : DState) (r : Except Exn Unit)
    (h : (refuseToPatch o outputFile p).run s = (r, s')) :
    ∃ ops, s'.trace = s.trace ++ ops ∧
      ∀ op ∈ ops, ∀ q ∈ op.paths, q = absPath s (rejectPath o outputFile) ∨ ∃ d ∈ dirPrefixes (rejectPath o outputFile), q = absPath s d := by
  have key : Touches (fun q => q = absPath s (rejectPath o outputFile) ∨
      ∃ d ∈ dirPrefixes (rejectPath o outputFile), q = absPath s d) s (run (refuseToPatch o outputFile p) s).2 := by
    unfold refuseToPatch
    refine touches_bind (Foot.emit _ s) fun _ s1 h1 => ?_
    split
    · refine touches_bind (Foot.emit _ s1) fun _ s2 h2 => ?_
      have c2 : s2.cwd = s.cwd := h2.1.trans h1.1
      refine touches_bind ?_ fun _ s3 h3 => ?_
      · refine (touches_ensureParentDirs _ s2).mono fun q hq => .inr ?_
        obtain ⟨d, hd, e⟩ := hq
        exact ⟨d, hd, by rw [e, absPath_cwd c2]⟩
      have c3 : s3.cwd = s.cwd := h3.1.trans c2
      refine touches_bind (touches_opCreat _ s3 (.inl (absPath_cwd c3 _))) fun _ s4 h4 => ?_
      have c4 : s4.cwd = s.cwd := h4.1.trans c3
      split
      · exact Touches.refl s4
      · exact touches_opWrite _ _ s4 (.inl (absPath_cwd c4 _))
    · exact Foot.emit _ s1
  have e : (run (refuseToPatch o outputFile p) s).2 = s' := by
    show ((refuseToPatch o outputFile p).run s).2 = s'
    rw [h]
  rw [e] at key
  exact key.2

/-- with --dry-run a refusal touches nothing at all -/
theorem refuse_dry (o : Options) (outputFile : Bytes) (p : Patch) (s : DState) (hd : o.dryRun = true) :
    ∃ s', (refuseToPatch o outputFile p).run s = (.ok (), s') ∧ s'.fs = s.fs ∧ s'.trace = s.trace := by
  refine ⟨{ s with out := s.out ++ [.refusing] ++ [.failed p.hunks.length p.hunks.length true none] }, ?_, rfl, rfl⟩
  show run (refuseToPatch o outputFile p) s = _
  unfold refuseToPatch
  rw [run_bind_ok (run_emit _ s)]
  simp only [hd]
  rfl

#print axioms readonly_fail_untouched
#print axioms writable_untouched
#print axioms callback_mode
#print axioms refuse_touches_only_rejects
#print axioms refuse_dry

end PatchModel.C17
