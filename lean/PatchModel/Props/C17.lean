import PatchModel.Spec.Script
namespace PatchModel.C17
/-- placeholder until the driver model's theorems are in (see DESIGN.md section 5/C17) -/
theorem placeholder : True := trivial
end PatchModel.C17
