/-
  C17 (driver model) — file modes are preserved and refusals leave files untouched.
-/
import PatchModel.Model.Driver
import PatchModel.Lemmas.Fault
import PatchModel.Lemmas.Modes
import PatchModel.Lemmas.DriverFacts
namespace PatchModel.C17
open PatchModel PatchModel.Fault PatchModel.Modes

/-- a read-only target with --read-only=fail is refused before anything is touched: no operation, tree unchanged -/
theorem readonly_fail_untouched (o : Options) (p : Bytes) (s : DState) (m : Nat) (b : Bytes)
    (hro : o.readOnly = .fail) (hfile : s.fs.stat (absPath s p) = some (.file b m)) (hnow : m &&& writeMask = 0) :
    ∃ s', (fixPermissionsIfNeeded o p).run s = (.ok { oldPerms := some m, needFix := true, hadFailure := true }, s') ∧
      s'.fs = s.fs ∧ s'.trace = s.trace := by
  refine ⟨{ s with out := s.out ++ [.readOnly] }, ?_, rfl, rfl⟩
  show run (fixPermissionsIfNeeded o p) s = _
  unfold fixPermissionsIfNeeded
  rw [run_bind_ok (run_fsGetPerms_file hfile)]
  simp only [needFix_true hnow, hro]
  rfl

/-- a writable target is left alone by the permission check -/
theorem writable_untouched (o : Options) (p : Bytes) (s : DState) (m : Nat) (b : Bytes)
    (hfile : s.fs.stat (absPath s p) = some (.file b m)) (hw : m &&& writeMask ≠ 0) :
    (fixPermissionsIfNeeded o p).run s = (.ok { oldPerms := some m, needFix := false, hadFailure := false }, s) := by
  show run (fixPermissionsIfNeeded o p) s = _
  unfold fixPermissionsIfNeeded
  rw [run_bind_ok (run_fsGetPerms_file hfile)]
  simp only [needFix_false hw]
  rfl

/-- **the read-only check only looks**: whatever the target, the options and the outcome, `fix_permissions_if_needed` performs no
    file system operation and leaves the tree as it is (it reads the mode, prints the warning, decides). So a refusal or an abort
    after the check — `--read-only=fail`, a missing prerequisite, a malformed body, an unreadable input — finds the mode of the
    target untouched: the `chmod` of a read-only target is `makeWritable`'s, right before the backup and the write. -/
theorem fixPermissions_reads_only (o : Options) (p : Bytes) (s s' : DState) (r : Except Exn PermResult)
    (h : (fixPermissionsIfNeeded o p).run s = (r, s')) : s'.fs = s.fs ∧ s'.trace = s.trace := by
  have h : run (fixPermissionsIfNeeded o p) s = (r, s') := h
  unfold fixPermissionsIfNeeded at h
  rw [run_bind_ok (run_fsGetPerms p s)] at h
  dsimp only at h
  repeat' split at h
  all_goals first
    | (cases h; exact ⟨rfl, rfl⟩)
    | (rw [run_bind_ok (run_emit _ _)] at h; repeat' split at h
       all_goals (cases h; exact ⟨rfl, rfl⟩))

/-- `DriverFacts.ChmodLate d ops`, spelled out: every `chmod p` among `ops` comes after a `creat p` (it is the permission callback
    that follows the write of `p`), or is followed — with nothing but `mkdir`s in between — by the operation it prepares — the
    backup (`rename p …`, or the creation of an empty backup file) or the re-creation of the target —, or, only if `d`, is followed
    by `mkdir`s only up to the end -/
theorem chmodLate_iff (d : Prop) (ops : List FsOp) : DriverFacts.ChmodLate d ops ↔
    ∀ i p m, ops[i]? = some (FsOp.chmod p m) →
      (∃ j, j < i ∧ ops[j]? = some (FsOp.creat p)) ∨
      (∃ k op, ops[i + 1 + k]? = some op ∧ ((∃ b, op = FsOp.rename p b) ∨ ∃ b, op = FsOp.creat b) ∧
        ∀ j, j < k → ∃ q, ops[i + 1 + j]? = some (FsOp.mkdir q)) ∨
      (d ∧ ∀ j, i < j → j < ops.length → ∃ q, ops[j]? = some (FsOp.mkdir q)) := Iff.rfl

/-- **a section never leaves a read-only target writable without going on to write it**: in the operations of one section, a
    `chmod p` is either the permission callback after `p` was re-created, or is followed by the backup / re-creation of the
    target with nothing in between but the `mkdir`s of the directories of the backup name (`-B bak/`: `Backup::make_backup_for`
    creates `bak` when it is not there); the only exception is a `chmod` after which a section that aborted with an I/O error (the
    very next operation that is not such a `mkdir` failed, or a `mkdir` did) has made such directories only.  In particular a
    section that ends normally (patched, refused, skipped) or aborts for any other reason (prerequisite, malformed text, …) has not
    changed any mode except on its way to a write.

    CHANGED with the model change "`make_backup_for` creates the directories of the backup name".  The statement was

        … (∃ op, ops[i + 1]? = some op ∧ ((∃ b, op = FsOp.rename p b) ∨ ∃ b, op = FsOp.creat b)) ∨
          (r = .error .systemError ∧ i + 1 = ops.length)

    ("DIRECTLY followed"), which is false now: `chmod_directly_false` below (`chmod f`, `mkdir bak`, `rename f bak/f`).  It still
    holds for every run in which no `chmod` is directly followed by a `mkdir`: `chmod_late_direct`. -/
theorem section_chmod_late (o : Options) (format : Format) (s s' : DState) (r : Except Exn Bool)
    (h : (processSection o format).run s = (r, s')) :
    ∃ ops, s'.trace = s.trace ++ ops ∧
      ∀ i p m, ops[i]? = some (FsOp.chmod p m) →
        (∃ j, j < i ∧ ops[j]? = some (FsOp.creat p)) ∨
        (∃ k op, ops[i + 1 + k]? = some op ∧ ((∃ b, op = FsOp.rename p b) ∨ ∃ b, op = FsOp.creat b) ∧
          ∀ j, j < k → ∃ q, ops[i + 1 + j]? = some (FsOp.mkdir q)) ∨
        (r = .error .systemError ∧ ∀ j, i < j → j < ops.length → ∃ q, ops[j]? = some (FsOp.mkdir q)) := by
  cases r with
  | ok a =>
    obtain ⟨ops, e, hl⟩ := (DriverFacts.processSection_late o format).ok _ _ _ h
    exact ⟨ops, e, fun i p m hi => (hl i p m hi).imp id (Or.imp id (fun x => x.1.elim))⟩
  | error e =>
    obtain ⟨ops, e', hl⟩ := (DriverFacts.processSection_late o format).err _ _ _ h
    exact ⟨ops, e', fun i p m hi => (hl i p m hi).imp id (Or.imp id (fun x => ⟨by rw [x.1], x.2⟩))⟩

/-- the same for a whole run (sections and `DeferredWriter::finalize`): a `chmod` that is neither after the `creat` of its path nor
    before a backup / creation (with only `mkdir`s in between) is followed by `mkdir`s only, in a run that ended with exit status 2.
    (CHANGED as `section_chmod_late`; it was "directly before" / "is the last operation".) -/
theorem run_chmod_late (o : Options) (s0 : DState) :
    ∃ ops, (runPatch o s0).2.trace = s0.trace ++ ops ∧
      ∀ i p m, ops[i]? = some (FsOp.chmod p m) →
        (∃ j, j < i ∧ ops[j]? = some (FsOp.creat p)) ∨
        (∃ k op, ops[i + 1 + k]? = some op ∧ ((∃ b, op = FsOp.rename p b) ∨ ∃ b, op = FsOp.creat b) ∧
          ∀ j, j < k → ∃ q, ops[i + 1 + j]? = some (FsOp.mkdir q)) ∨
        ((runPatch o s0).1 = 2 ∧ ∀ j, i < j → j < ops.length → ∃ q, ops[j]? = some (FsOp.mkdir q)) := by
  unfold runPatch
  split
  · exact ⟨[], by simp, fun i p m hi => by simp at hi⟩
  · split
    · next s hr =>
      obtain ⟨ops, e, hl⟩ := (DriverFacts.processPatchM_late o).ok _ _ _ hr
      exact ⟨ops, e, fun i p m hi => (hl i p m hi).imp id (Or.imp id (fun x => x.1.elim))⟩
    · next e s hr =>
      obtain ⟨ops, e', hl⟩ := (DriverFacts.processPatchM_late o).err _ _ _ hr
      exact ⟨ops, e', fun i p m hi => (hl i p m hi).imp id (Or.imp id (fun x => ⟨rfl, x.2⟩))⟩

/-- the statements as they were ("directly followed" / "the very last operation") hold for every list of operations with the
    property above in which no `chmod` is directly followed by a `mkdir` (no backup directory had to be made) -/
theorem chmod_late_direct (d : Prop) (ops : List FsOp) (h : DriverFacts.ChmodLate d ops)
    (hno : ∀ i p m q, ops[i]? = some (FsOp.chmod p m) → ops[i + 1]? ≠ some (FsOp.mkdir q)) :
    ∀ i p m, ops[i]? = some (FsOp.chmod p m) →
      (∃ j, j < i ∧ ops[j]? = some (FsOp.creat p)) ∨
      (∃ op, ops[i + 1]? = some op ∧ ((∃ b, op = FsOp.rename p b) ∨ ∃ b, op = FsOp.creat b)) ∨
      (d ∧ i + 1 = ops.length) := by
  intro i p m hi
  rcases h i p m hi with x | ⟨k, op, e, hop, hmk⟩ | ⟨hd, hall⟩
  · exact .inl x
  · cases k with
    | zero => exact .inr (.inl ⟨op, e, hop⟩)
    | succ k =>
      obtain ⟨q, hq⟩ := hmk 0 (by omega)
      exact absurd hq (hno i p m q hi)
  · have hlt : i < ops.length := DriverFacts.getElem?_lt_of_some hi
    rcases Nat.lt_or_ge (i + 1) ops.length with h1 | h1
    · obtain ⟨q, hq⟩ := hall (i + 1) (by omega) h1
      exact absurd hq (hno i p m q hi)
    · exact .inr (.inr ⟨hd, by omega⟩)

/-! the old statement is false: `-B bak/`, the directory `bak` not there, a read-only file `f` whose (deferred) write with a backup is
    due — `chmod f`, `mkdir bak`, `rename f bak/f`, `creat f`, … (the state is the one a git patch for `f` leaves to
    `DeferredWriter::finalize`; for a plain unified diff of a read-only `f` under `-b -B bak/` the compiled model gives the same
    six operations after the temporaries: `#guard` below) -/
def cexO : Options := { defaultOptions with backupPrefix := [98, 97, 107, 47] }
def cexS : DState :=
  { fs := { nodes := [([102], .file [97, 10] 0o444)] }, firstPatch := false,
    dWrites := [{ dest := [102], content := [98, 10], newMode := 0, perm := { oldPerms := some 0o444, needFix := true },
                  backup := true }] }

theorem cex_run : (runPatch cexO cexS).2.trace =
    [.tmpCreate, .tmpUnlink, .chmod [102] 438, .mkdir [98, 97, 107], .rename [102] [98, 97, 107, 47, 102], .creat [102],
      .write [102] [98, 10], .chmod [102] 292] ∧ (runPatch cexO cexS).1 = 0 := by decide +kernel

theorem chmod_directly_false :
    ¬ ∀ (o : Options) (s0 : DState), ∃ ops, (runPatch o s0).2.trace = s0.trace ++ ops ∧
      ∀ i p m, ops[i]? = some (FsOp.chmod p m) →
        (∃ j, j < i ∧ ops[j]? = some (FsOp.creat p)) ∨
        (∃ op, ops[i + 1]? = some op ∧ ((∃ b, op = FsOp.rename p b) ∨ ∃ b, op = FsOp.creat b)) ∨
        ((runPatch o s0).1 = 2 ∧ i + 1 = ops.length) := by
  intro h
  obtain ⟨ops, t, hl⟩ := h cexO cexS
  rw [cex_run.1] at t
  have t' : ops = [.tmpCreate, .tmpUnlink, .chmod [102] 438, .mkdir [98, 97, 107], .rename [102] [98, 97, 107, 47, 102],
      .creat [102], .write [102] [98, 10], .chmod [102] 292] := by
    rw [t]; rfl
  subst t'
  rcases hl 2 [102] 438 rfl with ⟨j, hj, e⟩ | ⟨op, e, hop⟩ | ⟨e, _⟩
  · match j, hj, e with
    | 0, _, e => cases e
    | 1, _, e => cases e
  · cases e
    rcases hop with ⟨b, hb⟩ | ⟨b, hb⟩ <;> cases hb
  · rw [cex_run.2] at e; cases e

-- a whole run on a unified diff: `patch -b -B bak/ f` with a read-only `f` (compiled evaluation of the model: a test, not a proof)
#guard (runPatch { defaultOptions with backupPrefix := [98, 97, 107, 47], saveBackup := true, fileToPatch := [102] }
    { fs := { nodes := [([102], .file [97, 10] 0o444)] },
      stdin := str "--- f\n+++ f\n@@ -1 +1 @@\n-a\n+b\n" }).2.trace ==
  [.tmpCreate, .tmpUnlink, .tmpCreate, .tmpUnlink, .tmpCreate, .tmpUnlink, .chmod [102] 438, .mkdir [98, 97, 107],
    .rename [102] [98, 97, 107, 47, 102], .creat [102], .write [102] [98, 10], .chmod [102] 292]

/-- after the patched result has been written, the permission callback gives the file exactly the mode a git header asks for, or else
    the mode the target had before (also when it had to be made writable, and also when a backup renamed the original away) -/
theorem callback_mode (newMode : Nat) (perm : PermResult) (p : Bytes) (s : DState) (b : Bytes) (m0 : Nat)
    (hfile : s.fs.lookup (absPath s p) = some (.file b m0)) (hf : s.faultAt = none) :
    ∃ s', (permissionCallback newMode perm p).run s = (.ok (), s') ∧
      s'.fs.lookup (absPath s p) = some (.file b
        (if newMode != 0 then newMode &&& 0o7777 else match perm.oldPerms with | some m => m | none => m0)) := by
  show ∃ s', run (permissionCallback newMode perm p) s = _ ∧ _
  unfold permissionCallback
  by_cases hn : (newMode != 0) = true
  · simp only [hn, if_true]
    exact ⟨_, run_opChmod_file _ hfile hf, lookup_set_self ..⟩
  · simp only [hn]
    cases perm.oldPerms with
    | some m => exact ⟨_, run_opChmod_file _ hfile hf, lookup_set_self ..⟩
    | none => exact ⟨s, rfl, hfile⟩

/-- refusing a patch touches nothing but the reject file and the directories leading to it — never the target -/
theorem refuse_touches_only_rejects (o : Options) (outputFile : Bytes) (p : Patch) (s s' : DState) (r : Except Exn Unit)
    (h : (refuseToPatch o outputFile p).run s = (r, s')) :
    ∃ ops, s'.trace = s.trace ++ ops ∧
      ∀ op ∈ ops, ∀ q ∈ op.paths, q = absPath s (rejectPath o outputFile) ∨ ∃ d ∈ dirPrefixes (rejectPath o outputFile), q = absPath s d := by
  have key : Touches (fun q => q = absPath s (rejectPath o outputFile) ∨
      ∃ d ∈ dirPrefixes (rejectPath o outputFile), q = absPath s d) s (run (refuseToPatch o outputFile p) s).2 := by
    unfold refuseToPatch
    refine touches_bind (Foot.emit _ s) fun _ s1 h1 => ?_
    split
    · refine touches_bind (Foot.emit _ s1) fun _ s2 h2 => ?_
      have c2 : s2.cwd = s.cwd := h2.1.trans h1.1
      refine touches_bind ?_ fun _ s3 h3 => ?_
      · refine (touches_ensureParentDirs _ s2).mono fun q hq => .inr ?_
        obtain ⟨d, hd, e⟩ := hq
        exact ⟨d, hd, by rw [e, absPath_cwd c2]⟩
      have c3 : s3.cwd = s.cwd := h3.1.trans c2
      refine touches_bind (touches_openRejects _ s3 (.inl (absPath_cwd c3 _))) fun _ s4 h4 => ?_
      have c4 : s4.cwd = s.cwd := h4.1.trans c3
      split
      · exact Touches.refl s4
      · exact touches_opWrite _ _ s4 (.inl (absPath_cwd c4 _))
    · exact Foot.emit _ s1
  have e : (run (refuseToPatch o outputFile p) s).2 = s' := by
    show ((refuseToPatch o outputFile p).run s).2 = s'
    rw [h]
  rw [e] at key
  exact key.2

/-- with --dry-run a refusal touches nothing at all -/
theorem refuse_dry (o : Options) (outputFile : Bytes) (p : Patch) (s : DState) (hd : o.dryRun = true) :
    ∃ s', (refuseToPatch o outputFile p).run s = (.ok (), s') ∧ s'.fs = s.fs ∧ s'.trace = s.trace := by
  refine ⟨{ s with out := s.out ++ [.refusing] ++ [.failed p.hunks.length p.hunks.length true none] }, ?_, rfl, rfl⟩
  show run (refuseToPatch o outputFile p) s = _
  unfold refuseToPatch
  rw [run_bind_ok (run_emit _ s)]
  simp only [hd]
  rfl

/-- **a refused patch without hunks (a change of mode only) has nothing to save**: `refuse_to_patch` performs no file system
    operation at all — in particular no empty reject file is created —, whatever the options; it only reports (`refusing`,
    then `failed 0 0` without a reject file name) -/
theorem refuse_no_hunks (o : Options) (outputFile : Bytes) (p : Patch) (s : DState) (hh : p.hunks = []) :
    (refuseToPatch o outputFile p).run s =
      (.ok (), { s with out := s.out ++ [.refusing] ++ [.failed 0 0 true none] }) := by
  show run (refuseToPatch o outputFile p) s = _
  unfold refuseToPatch
  rw [run_bind_ok (run_emit _ s)]
  simp only [hh, List.isEmpty_nil, Bool.not_true, Bool.and_false, Bool.false_eq_true, if_false, List.length_nil]
  rfl

/-- the same, as `refuse_dry` states it: tree, trace (and everything but the messages) unchanged -/
theorem refuse_no_hunks_untouched (o : Options) (outputFile : Bytes) (p : Patch) (s : DState) (hh : p.hunks = []) :
    ∃ s', (refuseToPatch o outputFile p).run s = (.ok (), s') ∧ s'.fs = s.fs ∧ s'.trace = s.trace ∧ s'.opCount = s.opCount ∧
      s'.rejWritten = s.rejWritten :=
  ⟨_, refuse_no_hunks o outputFile p s hh, rfl, rfl, rfl, rfl⟩

#print axioms readonly_fail_untouched
#print axioms fixPermissions_reads_only
#print axioms section_chmod_late
#print axioms run_chmod_late
#print axioms writable_untouched
#print axioms callback_mode
#print axioms refuse_touches_only_rejects
#print axioms refuse_dry
#print axioms refuse_no_hunks
#print axioms refuse_no_hunks_untouched
#print axioms chmod_late_direct
#print axioms chmod_directly_false

end PatchModel.C17
