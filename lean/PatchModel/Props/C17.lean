/-
  C17 (driver model) — file modes are preserved and refusals leave files untouched.
-/
import PatchModel.Model.Driver
import PatchModel.Lemmas.Fault
import PatchModel.Lemmas.Modes
import PatchModel.Lemmas.DriverFacts
namespace PatchModel.C17
open PatchModel PatchModel.Fault PatchModel.Modes

/-- a read-only target with --read-only=fail is refused before anything is touched: no operation, tree unchanged -/
theorem readonly_fail_untouched (o : Options) (p : Bytes) (s : DState) (m : Nat) (b : Bytes)
    (hro : o.readOnly = .fail) (hfile : s.fs.stat (absPath s p) = some (.file b m)) (hnow : m &&& writeMask = 0) :
    ∃ s', (fixPermissionsIfNeeded o p).run s = (.ok { oldPerms := some m, needFix := true, hadFailure := true }, s') ∧
      s'.fs = s.fs ∧ s'.trace = s.trace := by
  refine ⟨{ s with out := s.out ++ [.readOnly] }, ?_, rfl, rfl⟩
  show run (fixPermissionsIfNeeded o p) s = _
  unfold fixPermissionsIfNeeded
  rw [run_bind_ok (run_fsGetPerms_file hfile)]
  simp only [needFix_true hnow, hro]
  rfl

/-- a writable target is left alone by the permission check -/
theorem writable_untouched (o : Options) (p : Bytes) (s : DState) (m : Nat) (b : Bytes)
    (hfile : s.fs.stat (absPath s p) = some (.file b m)) (hw : m &&& writeMask ≠ 0) :
    (fixPermissionsIfNeeded o p).run s = (.ok { oldPerms := some m, needFix := false, hadFailure := false }, s) := by
  show run (fixPermissionsIfNeeded o p) s = _
  unfold fixPermissionsIfNeeded
  rw [run_bind_ok (run_fsGetPerms_file hfile)]
  simp only [needFix_false hw]
  rfl

/-- **the read-only check only looks**: whatever the target, the options and the outcome, `fix_permissions_if_needed` performs no
    file system operation and leaves the tree as it is (it reads the mode, prints the warning, decides). So a refusal or an abort
    after the check — `--read-only=fail`, a missing prerequisite, a malformed body, an unreadable input — finds the mode of the
    target untouched: the `chmod` of a read-only target is `makeWritable`'s, after the backup and right before the write. -/
theorem fixPermissions_reads_only (o : Options) (p : Bytes) (s s' : DState) (r : Except Exn PermResult)
    (h : (fixPermissionsIfNeeded o p).run s = (r, s')) : s'.fs = s.fs ∧ s'.trace = s.trace := by
  have h : run (fixPermissionsIfNeeded o p) s = (r, s') := h
  unfold fixPermissionsIfNeeded at h
  rw [run_bind_ok (run_fsGetPerms p s)] at h
  dsimp only at h
  repeat' split at h
  all_goals first
    | (cases h; exact ⟨rfl, rfl⟩)
    | (rw [run_bind_ok (run_emit _ _)] at h; repeat' split at h
       all_goals (cases h; exact ⟨rfl, rfl⟩))

/-- `DriverFacts.ChmodLate d ops`, spelled out: every `chmod p` among `ops` comes after a `creat p` (it is the permission callback
    that follows the write of `p`), or is DIRECTLY followed by the re-creation `creat p` of the target it prepares, or, only if `d`,
    is the very last operation.

    CHANGED with the model change "the backup is taken before `make_writable`" (D93): the middle alternative was "is followed — with
    nothing but `mkdir`s in between — by the backup (`rename p …` / `creat` of an empty backup) or the re-creation", the last one
    "is followed by `mkdir`s only": the `chmod` of a read-only target now comes after the backup and its `mkdir`s. -/
theorem chmodLate_iff (d : Prop) (ops : List FsOp) : DriverFacts.ChmodLate d ops ↔
    ∀ i p m, ops[i]? = some (FsOp.chmod p m) →
      (∃ j, j < i ∧ ops[j]? = some (FsOp.creat p)) ∨
      ops[i + 1]? = some (FsOp.creat p) ∨
      (d ∧ i + 1 = ops.length) := Iff.rfl

/-- the property as it was stated before the backup moved in front of `make_writable` follows -/
theorem chmodLate_weak {d : Prop} {ops : List FsOp} (h : DriverFacts.ChmodLate d ops) :
    ∀ i p m, ops[i]? = some (FsOp.chmod p m) →
      (∃ j, j < i ∧ ops[j]? = some (FsOp.creat p)) ∨
      (∃ k op, ops[i + 1 + k]? = some op ∧ ((∃ b, op = FsOp.rename p b) ∨ ∃ b, op = FsOp.creat b) ∧
        ∀ j, j < k → ∃ q, ops[i + 1 + j]? = some (FsOp.mkdir q)) ∨
      (d ∧ ∀ j, i < j → j < ops.length → ∃ q, ops[j]? = some (FsOp.mkdir q)) := by
  intro i p m hi
  rcases h i p m hi with x | e | ⟨hd, hl⟩
  · exact .inl x
  · exact .inr (.inl ⟨0, _, e, Or.inr ⟨_, rfl⟩, fun j hj => absurd hj (Nat.not_lt_zero j)⟩)
  · exact .inr (.inr ⟨hd, fun j h1 h2 => by omega⟩)

/-- **a section never leaves a read-only target writable without going on to write it** (NEW with the model change "the backup is
    taken before `make_writable`", D93; the strong form of `section_chmod_late`): in the operations of one section, a `chmod p` is
    either the permission callback after `p` was re-created, or is DIRECTLY followed by the re-creation `creat p` of the target; the
    only exception is a `chmod` that is the very last operation of a section that aborted with an I/O error (that `creat` failed).
    In particular the backup of a read-only file — which is made before — keeps the mode of the file. -/
theorem section_chmod_direct (o : Options) (format : Format) (s s' : DState) (r : Except Exn Bool)
    (h : (processSection o format).run s = (r, s')) :
    ∃ ops, s'.trace = s.trace ++ ops ∧
      ∀ i p m, ops[i]? = some (FsOp.chmod p m) →
        (∃ j, j < i ∧ ops[j]? = some (FsOp.creat p)) ∨
        ops[i + 1]? = some (FsOp.creat p) ∨
        (r = .error .systemError ∧ i + 1 = ops.length) := by
  cases r with
  | ok a =>
    obtain ⟨ops, e, hl⟩ := (DriverFacts.processSection_late o format).ok _ _ _ h
    exact ⟨ops, e, fun i p m hi => (hl i p m hi).imp id (Or.imp id (fun x => x.1.elim))⟩
  | error e =>
    obtain ⟨ops, e', hl⟩ := (DriverFacts.processSection_late o format).err _ _ _ h
    exact ⟨ops, e', fun i p m hi => (hl i p m hi).imp id (Or.imp id (fun x => ⟨by rw [x.1], x.2⟩))⟩

/-- the same for a whole run (sections and `DeferredWriter::finalize`) (NEW, the strong form of `run_chmod_late`) -/
theorem run_chmod_direct (o : Options) (s0 : DState) :
    ∃ ops, (runPatch o s0).2.trace = s0.trace ++ ops ∧
      ∀ i p m, ops[i]? = some (FsOp.chmod p m) →
        (∃ j, j < i ∧ ops[j]? = some (FsOp.creat p)) ∨
        ops[i + 1]? = some (FsOp.creat p) ∨
        ((runPatch o s0).1 = 2 ∧ i + 1 = ops.length) := by
  unfold runPatch
  split
  · exact ⟨[], by simp, fun i p m hi => by simp at hi⟩
  · split
    · next s hr =>
      obtain ⟨ops, e, hl⟩ := (DriverFacts.processPatchM_late o).ok _ _ _ hr
      exact ⟨ops, e, fun i p m hi => (hl i p m hi).imp id (Or.imp id (fun x => x.1.elim))⟩
    · next e s hr =>
      obtain ⟨ops, e', hl⟩ := (DriverFacts.processPatchM_late o).err _ _ _ hr
      exact ⟨ops, e', fun i p m hi => (hl i p m hi).imp id (Or.imp id (fun x => ⟨rfl, x.2⟩))⟩

/-- **a section never leaves a read-only target writable without going on to write it**: in the operations of one section, a
    `chmod p` is either the permission callback after `p` was re-created, or is followed by the backup / re-creation of the
    target with nothing in between but the `mkdir`s of the directories of the backup name; the only exception is a `chmod` after
    which a section that aborted with an I/O error has made such directories only.  In particular a section that ends normally
    (patched, refused, skipped) or aborts for any other reason (prerequisite, malformed text, …) has not changed any mode except on
    its way to a write.

    (Statement unchanged by the model change "the backup is taken before `make_writable`"; it is a consequence of the stronger
    `section_chmod_direct` now: no `mkdir` and no backup comes between the `chmod` and the `creat` any more.) -/
theorem section_chmod_late (o : Options) (format : Format) (s s' : DState) (r : Except Exn Bool)
    (h : (processSection o format).run s = (r, s')) :
    ∃ ops, s'.trace = s.trace ++ ops ∧
      ∀ i p m, ops[i]? = some (FsOp.chmod p m) →
        (∃ j, j < i ∧ ops[j]? = some (FsOp.creat p)) ∨
        (∃ k op, ops[i + 1 + k]? = some op ∧ ((∃ b, op = FsOp.rename p b) ∨ ∃ b, op = FsOp.creat b) ∧
          ∀ j, j < k → ∃ q, ops[i + 1 + j]? = some (FsOp.mkdir q)) ∨
        (r = .error .systemError ∧ ∀ j, i < j → j < ops.length → ∃ q, ops[j]? = some (FsOp.mkdir q)) := by
  obtain ⟨ops, e, hl⟩ := section_chmod_direct o format s s' r h
  exact ⟨ops, e, chmodLate_weak (d := r = .error .systemError) hl⟩

/-- the same for a whole run (sections and `DeferredWriter::finalize`): a `chmod` that is neither after the `creat` of its path nor
    before a backup / creation (with only `mkdir`s in between) is followed by `mkdir`s only, in a run that ended with exit status 2.
    (Statement unchanged; a consequence of `run_chmod_direct` now.) -/
theorem run_chmod_late (o : Options) (s0 : DState) :
    ∃ ops, (runPatch o s0).2.trace = s0.trace ++ ops ∧
      ∀ i p m, ops[i]? = some (FsOp.chmod p m) →
        (∃ j, j < i ∧ ops[j]? = some (FsOp.creat p)) ∨
        (∃ k op, ops[i + 1 + k]? = some op ∧ ((∃ b, op = FsOp.rename p b) ∨ ∃ b, op = FsOp.creat b) ∧
          ∀ j, j < k → ∃ q, ops[i + 1 + j]? = some (FsOp.mkdir q)) ∨
        ((runPatch o s0).1 = 2 ∧ ∀ j, i < j → j < ops.length → ∃ q, ops[j]? = some (FsOp.mkdir q)) := by
  obtain ⟨ops, e, hl⟩ := run_chmod_direct o s0
  exact ⟨ops, e, chmodLate_weak (d := (runPatch o s0).1 = 2) hl⟩

/-- the "directly followed" / "the very last operation" form for every list of operations with the property `ChmodLate`
    (statement unchanged; the hypothesis `hno` — no `chmod` is directly followed by a `mkdir` — is not needed any more, since
    `ChmodLate` itself says "directly" again) -/
theorem chmod_late_direct (d : Prop) (ops : List FsOp) (h : DriverFacts.ChmodLate d ops)
    (_hno : ∀ i p m q, ops[i]? = some (FsOp.chmod p m) → ops[i + 1]? ≠ some (FsOp.mkdir q)) :
    ∀ i p m, ops[i]? = some (FsOp.chmod p m) →
      (∃ j, j < i ∧ ops[j]? = some (FsOp.creat p)) ∨
      (∃ op, ops[i + 1]? = some op ∧ ((∃ b, op = FsOp.rename p b) ∨ ∃ b, op = FsOp.creat b)) ∨
      (d ∧ i + 1 = ops.length) := by
  intro i p m hi
  rcases h i p m hi with x | e | x
  · exact .inl x
  · exact .inr (.inl ⟨_, e, Or.inr ⟨_, rfl⟩⟩)
  · exact .inr (.inr x)

/-! `-B bak/`, the directory `bak` not there, a read-only file `f` whose (deferred) write with a backup is due: the run that refuted
    the "directly" statement while `make_writable` ran before the backup (`chmod f`, `mkdir bak`, `rename f bak/f`, `creat f`, …) is
    now `mkdir bak`, `rename f bak/f`, `creat f`, … — no `chmod` before the backup at all, since `f` is gone when `make_writable`
    looks for it; the backup `bak/f` keeps mode 0444 (the state is the one a git patch for `f` leaves to `DeferredWriter::finalize`;
    for a plain unified diff of a read-only `f` under `-b -B bak/` the compiled model gives the same five operations after the
    temporaries: `#guard` below) -/
def cexO : Options := { defaultOptions with backupPrefix := [98, 97, 107, 47] }
def cexS : DState :=
  { fs := { nodes := [([102], .file [97, 10] 0o444)] }, firstPatch := false,
    dWrites := [{ dest := [102], content := [98, 10], newMode := 0, perm := { oldPerms := some 0o444, needFix := true },
                  backup := true }] }

theorem cex_run : (runPatch cexO cexS).2.trace =
    [.tmpCreate, .tmpUnlink, .mkdir [98, 97, 107], .rename [102] [98, 97, 107, 47, 102], .creat [102],
      .write [102] [98, 10], .chmod [102] 292] ∧ (runPatch cexO cexS).1 = 0 ∧
    (runPatch cexO cexS).2.fs.lookup [98, 97, 107, 47, 102] = some (.file [97, 10] 0o444) ∧
    (runPatch cexO cexS).2.fs.lookup [102] = some (.file [98, 10] 0o444) := by decide +kernel

/-- CHANGED with the model change "the backup is taken before `make_writable`" (D93): this was `chmod_directly_false`, the NEGATION
    of this statement (refuted by `chmod f`, `mkdir bak`, `rename f bak/f`); the statement itself holds again -/
theorem chmod_directly (o : Options) (s0 : DState) : ∃ ops, (runPatch o s0).2.trace = s0.trace ++ ops ∧
      ∀ i p m, ops[i]? = some (FsOp.chmod p m) →
        (∃ j, j < i ∧ ops[j]? = some (FsOp.creat p)) ∨
        (∃ op, ops[i + 1]? = some op ∧ ((∃ b, op = FsOp.rename p b) ∨ ∃ b, op = FsOp.creat b)) ∨
        ((runPatch o s0).1 = 2 ∧ i + 1 = ops.length) := by
  obtain ⟨ops, e, hl⟩ := run_chmod_direct o s0
  refine ⟨ops, e, fun i p m hi => ?_⟩
  rcases hl i p m hi with x | e | x
  · exact .inl x
  · exact .inr (.inl ⟨_, e, Or.inr ⟨_, rfl⟩⟩)
  · exact .inr (.inr x)

-- a whole run on a unified diff: `patch -b -B bak/ f` with a read-only `f` (compiled evaluation of the model: a test, not a proof)
#guard (runPatch { defaultOptions with backupPrefix := [98, 97, 107, 47], saveBackup := true, fileToPatch := [102] }
    { fs := { nodes := [([102], .file [97, 10] 0o444)] },
      stdin := str "--- f\n+++ f\n@@ -1 +1 @@\n-a\n+b\n" }).2.trace ==
  [.tmpCreate, .tmpUnlink, .tmpCreate, .tmpUnlink, .tmpCreate, .tmpUnlink, .mkdir [98, 97, 107],
    .rename [102] [98, 97, 107, 47, 102], .creat [102], .write [102] [98, 10], .chmod [102] 292]
-- without a backup: `chmod f 0644` (only the write bit of the owner is added), directly followed by the `creat`
#guard (runPatch { defaultOptions with fileToPatch := [102] }
    { fs := { nodes := [([102], .file [97, 10] 0o444)] },
      stdin := str "--- f\n+++ f\n@@ -1 +1 @@\n-a\n+b\n" }).2.trace ==
  [.tmpCreate, .tmpUnlink, .tmpCreate, .tmpUnlink, .tmpCreate, .tmpUnlink, .chmod [102] 420,
    .creat [102], .write [102] [98, 10], .chmod [102] 292]

/-- after the patched result has been written, the permission callback gives the file exactly the mode a git header asks for, or else
    the mode the target had before (also when it had to be made writable, and also when a backup renamed the original away) -/
theorem callback_mode (newMode : Nat) (perm : PermResult) (p : Bytes) (s : DState) (b : Bytes) (m0 : Nat)
    (hfile : s.fs.lookup (absPath s p) = some (.file b m0)) (hf : s.faultAt = none) :
    ∃ s', (permissionCallback newMode perm p).run s = (.ok (), s') ∧
      s'.fs.lookup (absPath s p) = some (.file b
        (if newMode != 0 then newMode &&& 0o7777 else match perm.oldPerms with | some m => m | none => m0)) := by
  show ∃ s', run (permissionCallback newMode perm p) s = _ ∧ _
  unfold permissionCallback
  by_cases hn : (newMode != 0) = true
  · simp only [hn, if_true]
    exact ⟨_, run_opChmod_file _ hfile hf, lookup_set_self ..⟩
  · simp only [hn]
    cases perm.oldPerms with
    | some m => exact ⟨_, run_opChmod_file _ hfile hf, lookup_set_self ..⟩
    | none => exact ⟨s, rfl, hfile⟩

/-- refusing a patch touches nothing but the reject file and the directories leading to it — never the target -/
theorem refuse_touches_only_rejects (o : Options) (outputFile : Bytes) (p : Patch) (s s' : DState) (r : Except Exn Unit)
    (h : (refuseToPatch o outputFile p).run s = (r, s')) :
    ∃ ops, s'.trace = s.trace ++ ops ∧
      ∀ op ∈ ops, ∀ q ∈ op.paths, q = absPath s (rejectPath o outputFile) ∨ ∃ d ∈ dirPrefixes (rejectPath o outputFile), q = absPath s d := by
  have key : Touches (fun q => q = absPath s (rejectPath o outputFile) ∨
      ∃ d ∈ dirPrefixes (rejectPath o outputFile), q = absPath s d) s (run (refuseToPatch o outputFile p) s).2 := by
    unfold refuseToPatch
    refine touches_bind (Foot.emit _ s) fun _ s1 h1 => ?_
    split
    · refine touches_bind (Foot.emit _ s1) fun _ s2 h2 => ?_
      have c2 : s2.cwd = s.cwd := h2.1.trans h1.1
      refine touches_bind ?_ fun _ s3 h3 => ?_
      · refine (touches_ensureParentDirs _ s2).mono fun q hq => .inr ?_
        obtain ⟨d, hd, e⟩ := hq
        exact ⟨d, hd, by rw [e, absPath_cwd c2]⟩
      have c3 : s3.cwd = s.cwd := h3.1.trans c2
      refine touches_bind (touches_openRejects _ _ s3 (.inl (absPath_cwd c3 _))) fun _ s4 h4 => ?_
      have c4 : s4.cwd = s.cwd := h4.1.trans c3
      split
      · exact Touches.refl s4
      · exact touches_opWrite _ _ s4 (.inl (absPath_cwd c4 _))
    · exact Foot.emit _ s1
  have e : (run (refuseToPatch o outputFile p) s).2 = s' := by
    show ((refuseToPatch o outputFile p).run s).2 = s'
    rw [h]
  rw [e] at key
  exact key.2

/-- with --dry-run a refusal touches nothing at all -/
theorem refuse_dry (o : Options) (outputFile : Bytes) (p : Patch) (s : DState) (hd : o.dryRun = true) :
    ∃ s', (refuseToPatch o outputFile p).run s = (.ok (), s') ∧ s'.fs = s.fs ∧ s'.trace = s.trace := by
  refine ⟨{ s with out := s.out ++ [.refusing] ++ [.failed p.hunks.length p.hunks.length true none] }, ?_, rfl, rfl⟩
  show run (refuseToPatch o outputFile p) s = _
  unfold refuseToPatch
  rw [run_bind_ok (run_emit _ s)]
  simp only [hd]
  rfl

/-- **a refused patch without hunks (a change of mode only) has nothing to save**: `refuse_to_patch` performs no file system
    operation at all — in particular no empty reject file is created —, whatever the options; it only reports (`refusing`,
    then `failed 0 0` without a reject file name) -/
theorem refuse_no_hunks (o : Options) (outputFile : Bytes) (p : Patch) (s : DState) (hh : p.hunks = []) :
    (refuseToPatch o outputFile p).run s =
      (.ok (), { s with out := s.out ++ [.refusing] ++ [.failed 0 0 true none] }) := by
  show run (refuseToPatch o outputFile p) s = _
  unfold refuseToPatch
  rw [run_bind_ok (run_emit _ s)]
  simp only [hh, List.isEmpty_nil, Bool.not_true, Bool.and_false, Bool.false_eq_true, if_false, List.length_nil]
  rfl

/-- the same, as `refuse_dry` states it: tree, trace (and everything but the messages) unchanged -/
theorem refuse_no_hunks_untouched (o : Options) (outputFile : Bytes) (p : Patch) (s : DState) (hh : p.hunks = []) :
    ∃ s', (refuseToPatch o outputFile p).run s = (.ok (), s') ∧ s'.fs = s.fs ∧ s'.trace = s.trace ∧ s'.opCount = s.opCount ∧
      s'.rejWritten = s.rejWritten :=
  ⟨_, refuse_no_hunks o outputFile p s hh, rfl, rfl, rfl, rfl⟩

/-! ## the refusal test: what is patched must be a regular file (and never a symbolic link)

CHANGED with the model change "a symbolic link is only what is patched if the patch says that it is one; the new name of a rename
or copy must be a regular file too".  New here.
CHANGED again with the model change "a symbolic link is never read or written through, not even for a patch which is about a link"
(D92): the exemption for patches with a symbolic-link mode is gone (`notRegularAt`, `refusedM`, `refusedAt` lose the argument that
said whether the patch is about a link / the patch). -/

/-- `is_not_a_regular_file(path)` of `process_patch`, as a function of the tree: a symbolic link (`lstat`), or something that
    exists (`stat`) and is not a regular file -/
def notRegularAt (s : DState) (p : Bytes) : Bool :=
  (match s.fs.lookup (absPath s p) with | some (.symlink _) => true | _ => false) ||
  ((s.fs.stat (absPath s p)).isSome && !(match s.fs.stat (absPath s p) with | some (.file _ _) => true | _ => false))

/-- the refusal test of `processSection` (a copy of the block that computes `refused` there; `section_refused` below runs
    `processSection` through it) -/
def refusedM (o : Options) (fileToPatch outputFile : Bytes) : DM Bool :=
  let notRegular (p : Bytes) : DM Bool := do
    if (← fsIsSymlink p) then return true
    return (← fsExists p) && !(← fsIsRegular p)
  (do
    if (← notRegular fileToPatch) then return true
    if o.outFile.isEmpty && outputFile != fileToPatch && (← notRegular outputFile) then return true
    return false : DM Bool)

/-- what the test says, as a function of the tree -/
def refusedAt (o : Options) (s : DState) (fileToPatch outputFile : Bytes) : Bool :=
  notRegularAt s fileToPatch ||
  (o.outFile.isEmpty && outputFile != fileToPatch && notRegularAt s outputFile)

theorem run_fsIsSymlink (p : Bytes) (s : DState) : run (fsIsSymlink p) s =
    (.ok (match s.fs.lookup (absPath s p) with | some (.symlink _) => true | _ => false), s) := rfl
theorem run_fsExists (p : Bytes) (s : DState) : run (fsExists p) s = (.ok (s.fs.stat (absPath s p)).isSome, s) := rfl
theorem run_fsIsRegular (p : Bytes) (s : DState) : run (fsIsRegular p) s =
    (.ok (match s.fs.stat (absPath s p) with | some (.file _ _) => true | _ => false), s) := rfl

theorem run_ite {α} (c : Prop) [Decidable c] (a b : DM α) (s : DState) :
    run (if c then a else b) s = if c then run a s else run b s := by split <;> rfl

/-- **the refusal test only looks, and says exactly `refusedAt`** -/
theorem run_refusedM (o : Options) (ftp out : Bytes) (s : DState) :
    run (refusedM o ftp out) s = (.ok (refusedAt o s ftp out), s) := by
  unfold refusedM refusedAt notRegularAt
  simp only [run_bind, run_fsIsSymlink, run_fsExists, run_fsIsRegular, run_ite, run_pure]
  cases h1 : (match s.fs.lookup (absPath s ftp) with | some (Node.symlink _) => true | _ => false) <;>
  cases h2 : ((s.fs.stat (absPath s ftp)).isSome &&
      !match s.fs.stat (absPath s ftp) with | some (Node.file _ _) => true | _ => false) <;>
  cases h3 : (match s.fs.lookup (absPath s out) with | some (Node.symlink _) => true | _ => false) <;>
  cases h4 : ((s.fs.stat (absPath s out)).isSome &&
      !match s.fs.stat (absPath s out) with | some (Node.file _ _) => true | _ => false) <;>
  cases h5 : (List.isEmpty o.outFile && out != ftp) <;>
  set_option linter.unusedSimpArgs false in
  simp only [h1, h2, h3, h4, h5, Bool.false_eq_true, if_false, if_true, Bool.or_false, Bool.false_or, Bool.or_true,
    Bool.true_or, Bool.and_false, Bool.false_and, Bool.and_true, Bool.true_and, Bool.or_self, Bool.and_self]


theorem run_get_bind {β} (f : DState → DM β) (s : DState) : run (get >>= f) s = run (f s) s := run_bind_ok (run_get s)
theorem run_modify_bind {β} (g : DState → DState) (f : PUnit → DM β) (s : DState) :
    run (modify g >>= f) s = run (f ⟨⟩) (g s) := run_bind_ok (run_modify g s)
theorem run_pure_bind {α β} (a : α) (f : α → DM β) (s : DState) : run (pure a >>= f) s = run (f a) s :=
  run_bind_ok (run_pure a s)
theorem run_emit_bind {β} (e : DEv) (f : Unit → DM β) (s : DState) :
    run (emit e >>= f) s = run (f ()) { s with out := s.out ++ [e] } := run_bind_ok (run_emit e s)
theorem run_liftE_ok_bind {α β} {x : Except Exn α} {a : α} (h : x = .ok a) (f : α → DM β) (s : DState) :
    run (liftE x >>= f) s = run (f a) s := run_bind_ok (by rw [run_liftE, h])

theorem doOp_tmp_keeps {op : FsOp} (hop : ∀ fs : Fs, fs.apply op = .ok fs) (s : DState) :
    (run (doOp op) s).2.fs = s.fs ∧ (run (doOp op) s).2.cwd = s.cwd := by
  rw [run_doOp, hop]
  split <;> exact ⟨rfl, rfl⟩

/-- `File::create_temporary` leaves the tree and the working directory alone -/
theorem createTemp_keeps (s : DState) : (run createTemp s).2.fs = s.fs ∧ (run createTemp s).2.cwd = s.cwd := by
  unfold createTemp
  have h1 := doOp_tmp_keeps (op := .tmpCreate) (fun _ => rfl) s
  rcases hr : run (doOp .tmpCreate) s with ⟨r, s1⟩
  rw [hr] at h1
  cases r with
  | error e => rw [run_bind_error hr]; exact h1
  | ok a =>
    rw [run_bind_ok hr]
    have h2 := doOp_tmp_keeps (op := .tmpUnlink) (fun _ => rfl) s1
    exact ⟨h2.1.trans h1.1, h2.2.trans h1.2⟩

theorem createTemp_touches {P} (s : DState) : Touches P s (run createTemp s).2 := by
  unfold createTemp
  exact touches_bind (touches_doOp _ s (by simp [FsOp.paths])) fun _ s' _ => touches_doOp _ s' (by simp [FsOp.paths])

theorem createTemp_spec {P} {s s2 : DState} {rc : Except Exn Unit} (h : run createTemp s = (rc, s2)) :
    s2.fs = s.fs ∧ s2.cwd = s.cwd ∧ Touches P s s2 := by
  have h1 := createTemp_keeps s
  have h2 := createTemp_touches (P := P) s
  rw [h] at h1 h2
  exact ⟨h1.1, h1.2, h2⟩

theorem parseBodyM_keeps {b : Bool} {pt : Patch} {s s1 : DState} {r : Except Exn Patch}
    (h : run (parseBodyM b pt) s = (r, s1)) : s1.cwd = s.cwd ∧ s1.trace = s.trace := by
  unfold parseBodyM at h
  split at h
  · rw [run_get_bind] at h
    cases hb : parseBody s.par pt with
    | error e =>
      rw [run_bind_error (e := e) (s' := s) (by rw [run_liftE, hb])] at h
      cases h; exact ⟨rfl, rfl⟩
    | ok x =>
      rw [run_bind_ok (a := x) (s' := s) (by rw [run_liftE, hb])] at h
      obtain ⟨p', par'⟩ := x
      dsimp only at h
      rw [run_modify_bind, run_pure] at h
      cases h; exact ⟨rfl, rfl⟩
  · cases h; exact ⟨rfl, rfl⟩

/-- the statements of `processSection` after a refusal: the rest of the patch is read, the refusal is reported, the hunks go to
    the reject file, the failure is recorded -/
theorem refusal_block (o : Options) (out : Bytes) (spb : Bool) (patch0 : Patch) (s s' : DState) (r : Except Exn Bool)
    (h : run (do
        let p ← parseBodyM spb patch0
        emit .notRegular
        refuseToPatch o out p
        failNow
        pure true) s = (r, s')) :
    (∃ ops, s'.trace = s.trace ++ ops ∧ ∀ op ∈ ops, ∀ q ∈ op.paths,
      q = absPath s (rejectPath o out) ∨ ∃ d ∈ dirPrefixes (rejectPath o out), q = absPath s d) ∧
    ∀ b, r = .ok b → b = true ∧ s'.hadFailure = true := by
  rw [run_bind] at h
  split at h
  · next pt s1 hpb =>
    obtain ⟨c1, t1⟩ := parseBodyM_keeps hpb
    rw [run_emit_bind, run_bind] at h
    split at h
    · next u s2 hrf =>
      obtain ⟨ops, e, hops⟩ := refuse_touches_only_rejects o out pt _ s2 _ hrf
      unfold failNow at h
      rw [run_modify_bind, run_pure] at h
      cases h
      refine ⟨⟨ops, ?_, ?_⟩, fun b hb => by cases hb; exact ⟨rfl, rfl⟩⟩
      · rw [e]; exact congrArg (· ++ ops) t1
      · intro op hop q hq
        have := hops op hop q hq
        simpa only [absPath, c1] using this
    · next e s2 hrf =>
      obtain ⟨ops, e, hops⟩ := refuse_touches_only_rejects o out pt _ s2 _ hrf
      cases h
      refine ⟨⟨ops, ?_, ?_⟩, fun b hb => by cases hb⟩
      · rw [e]; exact congrArg (· ++ ops) t1
      · intro op hop q hq
        have := hops op hop q hq
        simpa only [absPath, c1] using this
  · next e s1 hpb =>
    obtain ⟨c1, t1⟩ := parseBodyM_keeps hpb
    cases h
    exact ⟨⟨[], by simp [t1], by simp⟩, fun b hb => by cases hb⟩

/-- **a section whose refusal test says `refusedAt` is refused** (file operand given; whatever the format, the operation, the
    options, the fault schedule and the working directory): every operation of the section is on an anonymous temporary (no path)
    or on the reject file and the directories leading to it — neither the target, nor a backup, nor the output file is touched —,
    and a section that ends normally asks for the next one (`true`) with the failure flag set (exit status 1 at least).
    (A section that does not end normally here was aborted by a malformed body, or by an I/O error on the temporary or the
    reject file.) -/
theorem section_refused (o : Options) (fmt : Format) (s s' : DState) (r : Except Exn Bool) (p : Bytes)
    (spb : Bool) (patch0 : Patch) (info : HeaderInfo) (par1 : Parser)
    (hop : o.fileToPatch = p) (hp : p ≠ [])
    (hdr : parseHeader s.par { format := fmt } o.strip = .ok (spb, patch0, info, par1))
    (hfmt : patch0.format ≠ .unknown) (hbin : patch0.operation ≠ .binary)
    (href : refusedAt o s p (outputPath o patch0 p) = true)
    (h : (processSection o fmt).run s = (r, s')) :
    (∃ ops, s'.trace = s.trace ++ ops ∧ ∀ op ∈ ops, ∀ q ∈ op.paths,
        q = absPath s (rejectPath o (outputPath o patch0 p)) ∨
        ∃ d ∈ dirPrefixes (rejectPath o (outputPath o patch0 p)), q = absPath s d) ∧
    (∀ b, r = .ok b → b = true ∧ s'.hadFailure = true) := by
  have h : run (processSection o fmt) s = (r, s') := h
  have hfu : (patch0.format == Format.unknown) = false := by simpa using hfmt
  have hob : (patch0.operation == Operation.binary) = false := by simpa using hbin
  have hpe : List.isEmpty p = false := by
    cases p with
    | nil => exact absurd rfl hp
    | cons _ _ => rfl
  unfold processSection at h
  simp only [↓run_get_bind, ↓run_liftE_ok_bind hdr, ↓run_modify_bind, ↓run_pure_bind, hfu, hob, hop, hpe,
    Bool.false_eq_true, ↓reduceIte, Bool.false_and] at h
  rw [run_bind] at h
  split at h
  · next a s2 hct =>
    obtain ⟨hfs, hcwd, -, ops1, t1, hops1⟩ := createTemp_spec (P := fun q =>
      q = absPath s (rejectPath o (outputPath o patch0 p)) ∨
        ∃ d ∈ dirPrefixes (rejectPath o (outputPath o patch0 p)), q = absPath s d) hct
    have hfs : s2.fs = s.fs := hfs
    have hcwd : s2.cwd = s.cwd := hcwd
    have t1 : s2.trace = s.trace ++ ops1 := t1
    have hre := run_refusedM o p (outputPath o patch0 p) s2
    have e : refusedAt o s2 p (outputPath o patch0 p) = true := by
      rw [← href]; unfold refusedAt notRegularAt absPath; rw [hfs, hcwd]
    rw [e] at hre
    unfold refusedM at hre
    dsimp only at hre
    rw [run_bind_ok hre, if_pos rfl] at h
    obtain ⟨⟨ops2, t2, hops2⟩, hb⟩ := refusal_block o _ spb patch0 s2 s' r h
    refine ⟨⟨ops1 ++ ops2, by rw [t2, t1, List.append_assoc], ?_⟩, hb⟩
    intro op hop q hq
    rcases List.mem_append.mp hop with h1 | h2
    · exact hops1 op h1 q hq
    · have := hops2 op h2 q hq
      simpa only [absPath, hcwd] using this
  · next e s2 hct =>
    obtain ⟨-, -, -, ops1, t1, hops1⟩ := createTemp_spec (P := fun q =>
      q = absPath s (rejectPath o (outputPath o patch0 p)) ∨
        ∃ d ∈ dirPrefixes (rejectPath o (outputPath o patch0 p)), q = absPath s d) hct
    cases h
    exact ⟨⟨ops1, t1, hops1⟩, fun b hb => by cases hb⟩


theorem refusedAt_of_symlink {o : Options} {s : DState} {p out t : Bytes}
    (hsym : s.fs.lookup (absPath s p) = some (.symlink t)) :
    refusedAt o s p out = true := by
  unfold refusedAt notRegularAt
  simp only [hsym, Bool.true_or]

theorem notRegularAt_of_stat {s : DState} {p : Bytes} {n : Node}
    (hst : s.fs.stat (absPath s p) = some n) (hn : ∀ b m, n ≠ .file b m) : notRegularAt s p = true := by
  unfold notRegularAt
  rw [hst]
  cases n with
  | file b m => exact absurd rfl (hn b m)
  | dir m => simp
  | symlink t => simp
  | other m => simp

/-- the converse on the plain path: a regular file that is reached directly and is written in place passes the test -/
theorem refusedAt_regular {o : Options} {s : DState} {p b : Bytes} {m : Nat}
    (hfile : s.fs.lookup (absPath s p) = some (.file b m)) : refusedAt o s p p = false := by
  unfold refusedAt notRegularAt
  simp [hfile, Fs.stat]

/-- **a symbolic link is not patched** — not even by a patch that is about a symbolic link: when the file operand names a symbolic
    link (`lstat`; wherever it points to, a regular file included), the section is refused: no operation other than those of the
    refusal (`refuse_touches_only_rejects`: the reject file and the directories leading to it; the two operations on the anonymous
    temporary have no path) happens — so neither the link, nor what it points to, nor a backup is touched —, and the failure flag
    is set.

    CHANGED with the model change "a symbolic link is never read or written through" (D92): the hypotheses
    `isSymlinkMode patch0.oldMode = false` and `isSymlinkMode patch0.newMode = false` are dropped (no longer needed). -/
theorem symlink_target_refused (o : Options) (fmt : Format) (s s' : DState) (r : Except Exn Bool) (p t : Bytes)
    (spb : Bool) (patch0 : Patch) (info : HeaderInfo) (par1 : Parser)
    (hop : o.fileToPatch = p) (hp : p ≠ [])
    (hdr : parseHeader s.par { format := fmt } o.strip = .ok (spb, patch0, info, par1))
    (hfmt : patch0.format ≠ .unknown) (hbin : patch0.operation ≠ .binary)
    (hsym : s.fs.lookup (absPath s p) = some (.symlink t))
    (h : (processSection o fmt).run s = (r, s')) :
    (∃ ops, s'.trace = s.trace ++ ops ∧ ∀ op ∈ ops, ∀ q ∈ op.paths,
        q = absPath s (rejectPath o (outputPath o patch0 p)) ∨
        ∃ d ∈ dirPrefixes (rejectPath o (outputPath o patch0 p)), q = absPath s d) ∧
    (∀ b, r = .ok b → b = true ∧ s'.hadFailure = true) :=
  section_refused o fmt s s' r p spb patch0 info par1 hop hp hdr hfmt hbin (refusedAt_of_symlink hsym) h

/-- **the new name of a rename or copy must be a regular file if it exists**: without `-o`, when the output file is not the file
    to patch (a git rename / copy) and exists as something that is not a regular file — a FIFO, device or socket (`.other m`), a
    directory (`.dir m`), a link to a link —, the section is refused in the same way: only the reject file and its directories are
    touched, and the failure flag is set. -/
theorem nonregular_output_refused (o : Options) (fmt : Format) (s s' : DState) (r : Except Exn Bool) (p : Bytes)
    (spb : Bool) (patch0 : Patch) (info : HeaderInfo) (par1 : Parser) (n : Node)
    (hop : o.fileToPatch = p) (hp : p ≠ [])
    (hdr : parseHeader s.par { format := fmt } o.strip = .ok (spb, patch0, info, par1))
    (hfmt : patch0.format ≠ .unknown) (hbin : patch0.operation ≠ .binary)
    (hout : o.outFile = []) (hne : outputPath o patch0 p ≠ p)
    (hst : s.fs.stat (absPath s (outputPath o patch0 p)) = some n) (hn : ∀ b m, n ≠ .file b m)
    (h : (processSection o fmt).run s = (r, s')) :
    (∃ ops, s'.trace = s.trace ++ ops ∧ ∀ op ∈ ops, ∀ q ∈ op.paths,
        q = absPath s (rejectPath o (outputPath o patch0 p)) ∨
        ∃ d ∈ dirPrefixes (rejectPath o (outputPath o patch0 p)), q = absPath s d) ∧
    (∀ b, r = .ok b → b = true ∧ s'.hadFailure = true) := by
  refine section_refused o fmt s s' r p spb patch0 info par1 hop hp hdr hfmt hbin ?_ h
  unfold refusedAt
  rw [notRegularAt_of_stat hst hn, hout]
  have : (outputPath o patch0 p != p) = true := by simpa using hne
  simp [this]

/-- the two cases the C++ comment names: a FIFO / device / socket, or a directory, at the new name -/
theorem nonregular_output_refused' (o : Options) (fmt : Format) (s s' : DState) (r : Except Exn Bool) (p : Bytes)
    (spb : Bool) (patch0 : Patch) (info : HeaderInfo) (par1 : Parser) (m : Nat)
    (hop : o.fileToPatch = p) (hp : p ≠ [])
    (hdr : parseHeader s.par { format := fmt } o.strip = .ok (spb, patch0, info, par1))
    (hfmt : patch0.format ≠ .unknown) (hbin : patch0.operation ≠ .binary)
    (hout : o.outFile = []) (hne : outputPath o patch0 p ≠ p)
    (hst : s.fs.stat (absPath s (outputPath o patch0 p)) = some (.other m) ∨
      s.fs.stat (absPath s (outputPath o patch0 p)) = some (.dir m))
    (h : (processSection o fmt).run s = (r, s')) :
    (∃ ops, s'.trace = s.trace ++ ops ∧ ∀ op ∈ ops, ∀ q ∈ op.paths,
        q = absPath s (rejectPath o (outputPath o patch0 p)) ∨
        ∃ d ∈ dirPrefixes (rejectPath o (outputPath o patch0 p)), q = absPath s d) ∧
    (∀ b, r = .ok b → b = true ∧ s'.hadFailure = true) := by
  rcases hst with hst | hst
  · exact nonregular_output_refused o fmt s s' r p spb patch0 info par1 _ hop hp hdr hfmt hbin hout hne hst
      (fun _ _ e => by cases e) h
  · exact nonregular_output_refused o fmt s s' r p spb patch0 info par1 _ hop hp hdr hfmt hbin hout hne hst
      (fun _ _ e => by cases e) h

/-- the same for the file to patch itself (the test as it was before: something that exists and is not a regular file) -/
theorem nonregular_target_refused (o : Options) (fmt : Format) (s s' : DState) (r : Except Exn Bool) (p : Bytes)
    (spb : Bool) (patch0 : Patch) (info : HeaderInfo) (par1 : Parser) (n : Node)
    (hop : o.fileToPatch = p) (hp : p ≠ [])
    (hdr : parseHeader s.par { format := fmt } o.strip = .ok (spb, patch0, info, par1))
    (hfmt : patch0.format ≠ .unknown) (hbin : patch0.operation ≠ .binary)
    (hst : s.fs.stat (absPath s p) = some n) (hn : ∀ b m, n ≠ .file b m)
    (h : (processSection o fmt).run s = (r, s')) :
    (∃ ops, s'.trace = s.trace ++ ops ∧ ∀ op ∈ ops, ∀ q ∈ op.paths,
        q = absPath s (rejectPath o (outputPath o patch0 p)) ∨
        ∃ d ∈ dirPrefixes (rejectPath o (outputPath o patch0 p)), q = absPath s d) ∧
    (∀ b, r = .ok b → b = true ∧ s'.hadFailure = true) := by
  refine section_refused o fmt s s' r p spb patch0 info par1 hop hp hdr hfmt hbin ?_ h
  unfold refusedAt
  rw [notRegularAt_of_stat hst hn, Bool.true_or]

-- whole runs (compiled evaluation of the model: tests, not proofs).  `patch l` where `l -> f`: refused, `l.rej` written, `f` and `l` as
-- they were, exit status 1
#guard (runPatch { defaultOptions with fileToPatch := [108] }
    { fs := { nodes := [([102], .file [97, 10] 0o644), ([108], .symlink [102])] },
      stdin := str "--- l\n+++ l\n@@ -1 +1 @@\n-a\n+b\n" }).2.trace.filter (!·.isTmp) |>.map (·.paths) |>.all (· == [str "l.rej"])
def symS : DState :=
  { fs := { nodes := [([102], .file [97, 10] 0o644), ([108], .symlink [102])] },
    stdin := str "--- l\n+++ l\n@@ -1 +1 @@\n-a\n+b\n" }
#guard (runPatch { defaultOptions with fileToPatch := [108] } symS).1 == 1
#guard (runPatch { defaultOptions with fileToPatch := [108] } symS).2.fs.lookup [102] == some (.file [97, 10] 0o644)
#guard (runPatch { defaultOptions with fileToPatch := [108] } symS).2.fs.lookup [108] == some (.symlink [102])
-- a git rename onto a directory `d`: refused, `f` stays
def renS : DState :=
  { fs := { nodes := [([102], .file [97, 10] 0o644), ([100], .dir 0o755)] },
    stdin := str "diff --git a/f b/d\nsimilarity index 50%\nrename from f\nrename to d\n--- a/f\n+++ b/d\n@@ -1 +1 @@\n-a\n+b\n" }
#guard (runPatch defaultOptions renS).1 == 1
#guard (runPatch defaultOptions renS).2.fs.lookup [102] == some (.file [97, 10] 0o644)
#guard (runPatch defaultOptions renS).2.fs.lookup [100] == some (.dir 0o755)
#guard (runPatch defaultOptions renS).2.out.contains .notRegular

/-- `is_symlink(mode)` compares all of the file type bits (D102): mode 120000 is a symbolic link, mode 160000 — a git submodule, which has
    both bits of 120000 set — is not, nor is a regular file or a directory -/
theorem symlink_mode_is_link : isSymlinkMode 0o120000 = true := by decide
theorem submodule_mode_is_no_link : isSymlinkMode 0o160000 = false := by decide
theorem regular_mode_is_no_link : isSymlinkMode 0o100644 = false := by decide
theorem directory_mode_is_no_link : isSymlinkMode 0o040000 = false := by decide

/-! ### a `chmod` which fails (D105) -/

/-- **a `chmod` which fails is no trouble if there is nothing to change**: the operation is counted, nothing is thrown, the tree and
    the trace are as they were (`filesystem::permissions` on a file of someone else which may be written to; `-o /dev/null`) -/
theorem chmod_fault_tolerated (p : Bytes) (m : Nat) (s : DState) (hf : s.faultAt = some s.opCount)
    (hm : hasMode (s.fs.stat (absPath s p)) m = true) :
    run (opChmod p m) s = (.ok ⟨⟩, { s with opCount := s.opCount + 1 }) := by
  rw [run_opChmod, hf, hm]; simp

/-- … and an error as before if there is: the permissions differ, or the path is not there -/
theorem chmod_fault_fatal (p : Bytes) (m : Nat) (s : DState) (hf : s.faultAt = some s.opCount)
    (hm : hasMode (s.fs.stat (absPath s p)) m = false) :
    run (opChmod p m) s = (.error .systemError, { s with opCount := s.opCount + 1 }) := by
  rw [run_opChmod, hf, hm]; simp

/-- the permission callback after a write which kept the permissions (no new mode in the patch; the file is re-created with its old
    mode): a failing `chmod` does not fail the run -/
theorem callback_fault_tolerated (perm : PermResult) (p : Bytes) (m : Nat) (s : DState) (b : Bytes)
    (hold : perm.oldPerms = some m) (hfile : s.fs.stat (absPath s p) = some (.file b m)) (hf : s.faultAt = some s.opCount) :
    run (permissionCallback 0 perm p) s = (.ok ⟨⟩, { s with opCount := s.opCount + 1 }) := by
  unfold permissionCallback
  simp only [bne_self_eq_false, Bool.false_eq_true, if_false, hold]
  exact chmod_fault_tolerated p m s hf (by rw [hfile]; simp [hasMode])

#print axioms chmod_fault_tolerated
#print axioms chmod_fault_fatal
#print axioms callback_fault_tolerated
#print axioms submodule_mode_is_no_link
#print axioms readonly_fail_untouched
#print axioms fixPermissions_reads_only
#print axioms section_chmod_late
#print axioms run_chmod_late
#print axioms writable_untouched
#print axioms callback_mode
#print axioms refuse_touches_only_rejects
#print axioms refuse_dry
#print axioms refuse_no_hunks
#print axioms refuse_no_hunks_untouched
#print axioms chmod_late_direct
#print axioms chmod_directly
#print axioms section_chmod_direct
#print axioms run_chmod_direct
#print axioms run_refusedM
#print axioms section_refused
#print axioms symlink_target_refused
#print axioms nonregular_output_refused
#print axioms nonregular_output_refused'
#print axioms nonregular_target_refused
#print axioms refusedAt_regular

end PatchModel.C17
