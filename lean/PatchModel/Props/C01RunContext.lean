/-
  C01 end to end for the CONTEXT diff format — the whole modelled program (`runPatch` = `main` after option parsing) on the TEXT
  of a context diff:

      patch [-c] [-pN] [-F n] [--newline-output=…] -i pname name

  where the tree holds the target `name` (content `bytes`, mode `m`, writable) and the patch file `pname`, whose content is
  (inert filler lines,)

      *** old TAB oldt
      --- new TAB newt
      ***************                 (before every hunk)
      <write_hunk_as_context h>       (`*** s,e ****`, old half, `--- s,e ----`, new half; a half without change is omitted)

  for the hunks `hs`, a `Valid` script of `splitLines bytes`.  Then the exit status is 0, `name` holds
  `splice (splitLines bytes) 0 hs` rendered, with its mode, and no other path of the tree differs (`C01_run_context`,
  `C01_run_context_filler`); with --dry-run the exit status is 0 and the tree is untouched (`C15_run_context_dry(_filler)`).
  The unified sibling is Props/C01Run.lean (`C01_run`).

  Composition of: `RunC.parseHeader_context` (the header scan: `*** ` / `--- ` name lines, the line of stars, the old range line,
  and the look-ahead past the old half for the new range — `RunC.lookahead_halves`), `Context.parseBody_rt` (the context round
  trip, started at the line of stars), `RunC.parseContextBody_eof` (the stream flags at the end of the input),
  `RunC.valid_sameSides`, `C01.plainSection_of_valid` / `Section.processSection_clean(_dry)` and the closed forms of `sectionLoop`
  / `processPatchM` in Lemmas/Run.lean.

  What is different from the unified case:
  * the hunks do NOT come back as they were written: a context diff has the old half and the new half of a hunk, not the order in
    which '-' and '+' lines were interleaved; `hunk_from_context_parts` picks one.  What comes back has the same two sides and
    ranges (`Context.sameSides`), and only ' ', '+', '-' lines (`RunC.GoodOps`); `Valid` and `splice` do not see more of a hunk
    (`RunC.valid_sameSides`), so the run result is `splice … hs` for the hunks `hs` one started from.
  * how the loop stops: after the last hunk the body parser looks for another separator / range line, that read fails and sets the
    end-of-file flag (or, when the new half of the last hunk is omitted, the hunk reader has already hit the end and the flag is
    set); `RunC.parseContextBody_eof` derives the flag from "nothing is left" and the invariant "the fail bit is only ever set
    together with the end-of-file bit".

  Side conditions, and why:
  * `o.asUnified = false` (in `CtxFileOpts.fmt`: `-c`, or no `-u`) — REQUIRED and not a defect: under `-u` a context diff is not
    looked at ("Only garbage was found in the patch input", exit status 2): `Scope.forcedUnified` below.  `-n` / `-e` likewise.
  * `changeStart hs` — scope, not a defect (as for the unified format): a first old range `*** 0 ****` / new range `--- 0 ----`
    makes the header scan infer "add" / "delete", which take other branches of `process_patch`; the run still gives the intended
    result (`Scope` below, evaluated).
  * names `plainName` + no line feed, time stamps not empty / no line feed / not ending in CR: the text really has the two header
    lines.  The names in the header need not be the operand's.
  * `writable` hunks (what a diff file can say: lines without LF inside and not ending in CR, "no newline" only on the last line
    of a side, ranges within bounds); `write_hunk_as_context` does not fail on them (`C13.context_write_ok`).
  * `pname ≠ "-"`, root, the directory of the target present (holds for a name without slash) — as in `C01_run`.
  Nothing was found false: no hypothesis had to be added because the model misbehaves.
-/
import PatchModel.Props.C01Run
import PatchModel.Props.C13C
import PatchModel.Lemmas.RunC
namespace PatchModel.C01
open PatchModel PatchModel.Section PatchModel.Run PatchModel.DriverFacts PatchModel.RunC PatchModel.Context

/-- the options that let `patch` read a context diff from a file: `-i pname`, no `-d`, `-c` or no format option at all -/
structure CtxFileOpts (o : Options) (pname : Bytes) : Prop where
  patchFile : o.patchFile = pname
  noDir : o.directory = []
  noHelp : o.showHelp = false
  noVersion : o.showVersion = false
  noNormal : o.asNormal = false
  noEd : o.asEd = false
  fmt : o.asContext = true ∨ o.asUnified = false

structure CtxRunOpts (o : Options) (name pname : Bytes) : Prop where
  plain : PlainOpts o name
  file : CtxFileOpts o pname

/-- the options of `C01_run` without `-u` are options for a context diff -/
theorem ctxRunOpts_of_runOpts {o : Options} {name pname : Bytes} (ho : RunOpts o name pname) (hu : o.asUnified = false) :
    CtxRunOpts o name pname :=
  { plain := ho.plain,
    file := { patchFile := ho.file.patchFile, noDir := ho.file.noDir, noHelp := ho.file.noHelp, noVersion := ho.file.noVersion,
              noNormal := ho.file.noNormal, noEd := ho.file.noEd, fmt := Or.inr hu } }

/-- the format the options force -/
abbrev forcedC (o : Options) : Format := if o.asContext then .context else .unknown

theorem forcedC_cases (o : Options) : forcedC o = .unknown ∨ forcedC o = .context := by
  unfold forcedC; split
  · exact Or.inr rfl
  · exact Or.inl rfl

theorem diffFormat_ctx {o : Options} {pname : Bytes} (h : CtxFileOpts o pname) :
    diffFormatFromOptions o = .ok (forcedC o) := by
  unfold diffFormatFromOptions forcedC
  cases hc : o.asContext with
  | true => simp
  | false =>
    have hu : o.asUnified = false := by
      rcases h.fmt with h' | h'
      · rw [hc] at h'; cases h'
      · exact h'
    simp [h.noNormal, h.noEd, hu]

/-- `filler ++ header ++ hs` is the text of a context diff that states the change `hs` -/
structure ContextDiff (filler : List Line) (old new oldt newt : Bytes) (hs : List Hunk) : Prop where
  fillerInert : ∀ l ∈ filler, inertLine l.content = true
  fillerPlain : ∀ l ∈ filler, lfPlain l = true
  oldName : Header.plainName old ∧ fieldOk old
  newName : Header.plainName new ∧ fieldOk new
  oldStamp : stampOk oldt
  newStamp : stampOk newt
  nonEmpty : hs ≠ []
  writable : ∀ h ∈ hs, h.writable = true
  change : changeStart hs = true

/-- the bytes of the patch file -/
def ctxPatchText (filler : List Line) (old new oldt newt : Bytes) (hs : List Hunk) : Bytes :=
  linesText filler ++ ctxDiffText old new oldt newt hs

section
variable {o : Options} {s0 : DState} {name pname bytes : Bytes} {m pm : Nat}
  {filler : List Line} {old new oldt newt : Bytes} {hs : List Hunk}

/-- the text as lines; header scan, body parse and the applier's verdict for the one section of the diff -/
theorem ctxSection_of_diff (ho : PlainOpts o name) (hs0 : CleanStart s0) (hname : name ≠ [])
    (htarget : s0.fs.lookup name = some (.file bytes m)) (hw : m &&& writeMask ≠ 0)
    (hd : ContextDiff filler old new oldt newt hs) (hvalid : Valid (splitLines bytes) 0 0 hs) :
    ∃ tss patch0 patch2 info par1 par2 r,
      splitLines (ctxPatchText filler old new oldt newt hs) = ctxLines filler old new oldt newt tss ∧
      PlainSection o (forcedC o) (loopStart s0 (ctxLines filler old new oldt newt tss)) name bytes m patch0 patch2 info
        par1 par2 r ∧
      render o.newlineOutput r.out = Render.renderText o.newlineOutput (splice (splitLines bytes) 0 hs) ∧
      par2.s.eof = true := by
  have hfl : ∀ l ∈ filler, l.newline ≠ .none := by
    intro l hl
    have := hd.fillerPlain l hl
    unfold lfPlain at this
    simp only [Bool.and_eq_true, beq_iff_eq] at this
    rw [this.1]; simp
  cases hs with
  | nil => exact absurd rfl hd.nonEmpty
  | cons h hs' =>
    obtain ⟨body, hbody⟩ := C13.context_write_ok (h :: hs') hd.writable
    obtain ⟨O, N, tss, hO, hrt, hbt⟩ := ctxRejectBody_shape Unified.number_roundtrip h hs'
      (fun x hx => Unified.writableCR_of_writable (hd.writable x hx)) body hbody
    have hlines : splitLines (ctxPatchText filler old new oldt newt (h :: hs')) =
        ctxLines filler old new oldt newt (halvesTexts O h.old N h.new :: tss) := by
      unfold ctxPatchText
      rw [splitLines_linesText _ _ hd.fillerPlain,
        splitLines_ctxDiffText old new oldt newt (h :: hs') _ body hd.oldName.2 hd.newName.2 hd.oldStamp.2.1 hd.newStamp.2.1
          hd.oldStamp.1 hd.newStamp.1 hd.oldStamp.2.2 hd.newStamp.2.2 hd.nonEmpty hbody hrt hbt]
      rfl
    obtain ⟨patch0, info, par1, par2, hsp, hhdr, hf, hop, hpre, _, hnm, _, hbodyp, heof, hfs, hgood⟩ :=
      parse_ctxLines o.strip (forcedC o) (forcedC_cases o) filler old new oldt newt h hs' O N tss 1 hd.fillerInert hfl
        hd.oldName.1 hd.newName.1 hd.oldStamp.1 hd.newStamp.1 (hd.writable h List.mem_cons_self) hd.change hO hrt
    obtain ⟨hv', hsplice⟩ := valid_sameSides (splitLines bytes) hsp (h :: hs') 0 0 hfs hgood hvalid
    obtain ⟨r, H, hrender⟩ := plainSection_of_valid o (forcedC o)
      (loopStart s0 (ctxLines filler old new oldt newt (halvesTexts O h.old N h.new :: tss))) name bytes m
      patch0 info par1 par2 hsp ho hname hs0.cwd hhdr (Or.inr (Or.inl hf)) hop hpre hnm hbodyp htarget hw hs0.root hv'
      hs0.noFault
    exact ⟨_, patch0, _, info, par1, par2, r, hlines, H, by rw [hrender, hsplice], heof⟩

/-- from the closed form of the one section to the closed form of the run -/
theorem runPatch_of_ctxSection (ho : CtxFileOpts o pname) (hs0 : CleanStart s0) (hpn : pname ≠ []) (hpd : pname ≠ [45])
    (ptext : Bytes) (hpatch : s0.fs.lookup pname = some (.file ptext pm)) (lines : List Line)
    (hlines : splitLines ptext = lines) (s' : DState) (par2 : Parser) (dry : Bool)
    (hrun : (processSection o (forcedC o)).run (loopStart s0 lines) = (.ok true, s'))
    (hdone : SectionDone (loopStart s0 lines) s' name par2 dry)
    (heof : par2.s.eof = true) :
    runPatch o s0 = (0, s') := by
  have hloop := sectionLoop_one o (forcedC o) lines.length _ s' rfl hrun (by rw [hdone.par]; exact heof)
  have hrunP := run_processPatchM o s0 s' pname ptext pm (forcedC o) ho.noDir ho.patchFile hpn hpd
    hs0.cwd hpatch hs0.root (diffFormat_ctx ho)
    (by rw [hlines]; exact hloop)
    (by rw [hdone.dWrites]; exact hs0.noWrites) (by rw [hdone.dRemovals]; exact hs0.noRemovals)
  rw [runPatch_of_run o s0 s' ho.noHelp ho.noVersion hrunP]
  have : s'.hadFailure = false := by rw [hdone.hadFailure]; exact hs0.noFailure
  rw [this]; rfl

/-- **C01, the whole program on the text of a context diff** (inert filler allowed in front of the header; `-c` allowed; the
    names in the header need not be the operand's; the target may sit in a directory of the tree) -/
theorem C01_run_context_filler (ho : CtxRunOpts o name pname) (hreal : o.dryRun = false) (hs0 : CleanStart s0)
    (hname : name ≠ []) (hdir : s0.fs.dirExists (parentOf name) = true) (hpn : pname ≠ []) (hpd : pname ≠ [45])
    (htarget : s0.fs.lookup name = some (.file bytes m)) (hw : m &&& writeMask ≠ 0)
    (hpatch : s0.fs.lookup pname = some (.file (ctxPatchText filler old new oldt newt hs) pm))
    (hd : ContextDiff filler old new oldt newt hs) (hvalid : Valid (splitLines bytes) 0 0 hs) :
    (runPatch o s0).1 = 0 ∧
    (runPatch o s0).2.fs.lookup name = some (.file (Render.renderText o.newlineOutput (splice (splitLines bytes) 0 hs)) m) ∧
    ∀ q, q ≠ name → (runPatch o s0).2.fs.lookup q = s0.fs.lookup q := by
  obtain ⟨tss, patch0, patch2, info, par1, par2, r, hlines, H, hrender, heof⟩ :=
    ctxSection_of_diff ho.plain hs0 hname htarget hw hd hvalid
  obtain ⟨s', hrun, hfs, _, hdone⟩ := processSection_clean H hreal hdir
  rw [runPatch_of_ctxSection ho.file hs0 hpn hpd _ hpatch _ hlines s' par2 false hrun hdone heof]
  refine ⟨rfl, ?_, ?_⟩
  · show s'.fs.lookup name = _
    rw [hfs, Fs.lookup_set_self, hrender]
  · intro q hq
    show s'.fs.lookup q = _
    rw [hfs, Fs.lookup_set_ne _ _ _ _ hq]

/-- **C15 sibling: the same run under --dry-run** — exit status 0, the tree untouched -/
theorem C15_run_context_dry_filler (ho : CtxRunOpts o name pname) (hdry : o.dryRun = true) (hs0 : CleanStart s0)
    (hname : name ≠ []) (hpn : pname ≠ []) (hpd : pname ≠ [45])
    (htarget : s0.fs.lookup name = some (.file bytes m)) (hw : m &&& writeMask ≠ 0)
    (hpatch : s0.fs.lookup pname = some (.file (ctxPatchText filler old new oldt newt hs) pm))
    (hd : ContextDiff filler old new oldt newt hs) (hvalid : Valid (splitLines bytes) 0 0 hs) :
    (runPatch o s0).1 = 0 ∧ (runPatch o s0).2.fs = s0.fs := by
  obtain ⟨tss, patch0, patch2, info, par1, par2, r, hlines, H, _, heof⟩ :=
    ctxSection_of_diff ho.plain hs0 hname htarget hw hd hvalid
  obtain ⟨s', hrun, hfs, _, hdone⟩ := processSection_clean_dry H hdry
  rw [runPatch_of_ctxSection ho.file hs0 hpn hpd _ hpatch _ hlines s' par2 true hrun hdone heof]
  exact ⟨rfl, hfs⟩

end

theorem contextDiff_of_flat {name oldt newt : Bytes} {hs : List Hunk} (hn : flatName name) (hot : stampOk oldt)
    (hnt : stampOk newt) (hh : DiffHunks hs) : ContextDiff [] name name oldt newt hs :=
  { fillerInert := by simp, fillerPlain := by simp,
    oldName := ⟨⟨hn.1, hn.2.2.1, hn.2.2.2.2⟩, hn.2.2.2.1⟩, newName := ⟨⟨hn.1, hn.2.2.1, hn.2.2.2.2⟩, hn.2.2.2.1⟩,
    oldStamp := hot, newStamp := hnt, nonEmpty := hh.nonEmpty, writable := hh.writable, change := hh.change }

/-- **C01, end to end, context format.**  `patch -i pname name` (no `-u`) in a tree with the target `name` and the patch file
    `pname` = the text of a context diff (`*** name TAB oldt`, `--- name TAB newt`, and for every hunk of `hs` the line of stars
    and the hunk as `write_hunk_as_context` writes it) of `name`, `hs` a valid script of the target's lines: exit status 0, the
    target holds the intended result with its old mode, nothing else in the tree differs. -/
theorem C01_run_context (o : Options) (s0 : DState) (name pname bytes oldt newt : Bytes) (m pm : Nat) (hs : List Hunk)
    (ho : RunOpts o name pname) (hu : o.asUnified = false) (hreal : o.dryRun = false) (hs0 : CleanStart s0)
    (hn : flatName name) (hpn : pname ≠ []) (hpd : pname ≠ [45])
    (htarget : s0.fs.lookup name = some (.file bytes m)) (hw : m &&& writeMask ≠ 0)
    (hot : stampOk oldt) (hnt : stampOk newt)
    (hpatch : s0.fs.lookup pname = some (.file (ctxDiffText name name oldt newt hs) pm))
    (hh : DiffHunks hs) (hvalid : Valid (splitLines bytes) 0 0 hs) :
    (runPatch o s0).1 = 0 ∧
    (runPatch o s0).2.fs.lookup name = some (.file (Render.renderText o.newlineOutput (splice (splitLines bytes) 0 hs)) m) ∧
    ∀ q, q ≠ name → (runPatch o s0).2.fs.lookup q = s0.fs.lookup q :=
  C01_run_context_filler (filler := []) (ctxRunOpts_of_runOpts ho hu) hreal hs0 hn.1
    (dirExists_parent_of_noSlash s0.fs hn.2.1) hpn hpd htarget hw hpatch (contextDiff_of_flat hn hot hnt hh) hvalid

/-- **C15, end to end, context format**: the same run with --dry-run predicts success and leaves the tree alone -/
theorem C15_run_context_dry (o : Options) (s0 : DState) (name pname bytes oldt newt : Bytes) (m pm : Nat) (hs : List Hunk)
    (ho : RunOpts o name pname) (hu : o.asUnified = false) (hdry : o.dryRun = true) (hs0 : CleanStart s0)
    (hn : flatName name) (hpn : pname ≠ []) (hpd : pname ≠ [45])
    (htarget : s0.fs.lookup name = some (.file bytes m)) (hw : m &&& writeMask ≠ 0)
    (hot : stampOk oldt) (hnt : stampOk newt)
    (hpatch : s0.fs.lookup pname = some (.file (ctxDiffText name name oldt newt hs) pm))
    (hh : DiffHunks hs) (hvalid : Valid (splitLines bytes) 0 0 hs) :
    (runPatch o s0).1 = 0 ∧ (runPatch o s0).2.fs = s0.fs :=
  C15_run_context_dry_filler (filler := []) (ctxRunOpts_of_runOpts ho hu) hdry hs0 hn.1 hpn hpd htarget hw hpatch
    (contextDiff_of_flat hn hot hnt hh) hvalid

/-- the same with `-c` given (whatever `-u` says: `-c` wins in `diff_format_from_options`) -/
theorem C01_run_context_c (o : Options) (s0 : DState) (name pname bytes oldt newt : Bytes) (m pm : Nat) (hs : List Hunk)
    (ho : CtxRunOpts o name pname) (hreal : o.dryRun = false) (hs0 : CleanStart s0)
    (hn : flatName name) (hpn : pname ≠ []) (hpd : pname ≠ [45])
    (htarget : s0.fs.lookup name = some (.file bytes m)) (hw : m &&& writeMask ≠ 0)
    (hot : stampOk oldt) (hnt : stampOk newt)
    (hpatch : s0.fs.lookup pname = some (.file (ctxDiffText name name oldt newt hs) pm))
    (hh : DiffHunks hs) (hvalid : Valid (splitLines bytes) 0 0 hs) :
    (runPatch o s0).1 = 0 ∧
    (runPatch o s0).2.fs.lookup name = some (.file (Render.renderText o.newlineOutput (splice (splitLines bytes) 0 hs)) m) ∧
    ∀ q, q ≠ name → (runPatch o s0).2.fs.lookup q = s0.fs.lookup q :=
  C01_run_context_filler (filler := []) ho hreal hs0 hn.1
    (dirExists_parent_of_noSlash s0.fs hn.2.1) hpn hpd htarget hw hpatch (contextDiff_of_flat hn hot hnt hh) hvalid

/-! #### without the file operand: the name comes from the `*** ` line of the header (`guess_filepath`) -/

/-- `patch [-c] [-pN] [-F n] [--newline-output=…] -i pname` -/
structure CtxGuessOpts (o : Options) (pname : Bytes) : Prop where
  noOperand : o.fileToPatch = []
  noOut : o.outFile = []
  noBackup : o.saveBackup = false
  noReverse : o.reverse = false
  noDefine : o.define = []
  fuzz : 0 ≤ o.maxFuzz
  quiet : o.verbose = false
  file : CtxFileOpts o pname

section
variable {o : Options} {s0 : DState} {name pname bytes : Bytes} {m pm : Nat}
  {filler : List Line} {old new oldt newt : Bytes} {hs : List Hunk}

theorem ctxGuessSection_of_diff (ho : CtxGuessOpts o pname) (hs0 : CleanStart s0) (hname : name ≠ []) (hnn : name ≠ devNull)
    (htarget : s0.fs.lookup name = some (.file bytes m)) (hw : m &&& writeMask ≠ 0)
    (hd : ContextDiff filler old new oldt newt hs) (hold : old ≠ devNull) (hstrip : stripPath old o.strip = name)
    (hvalid : Valid (splitLines bytes) 0 0 hs) :
    ∃ tss patch0 patch2 info par1 par2 r,
      splitLines (ctxPatchText filler old new oldt newt hs) = ctxLines filler old new oldt newt tss ∧
      GuessSection o (forcedC o) (loopStart s0 (ctxLines filler old new oldt newt tss)) name bytes m patch0 patch2 info
        par1 par2 r ∧
      render o.newlineOutput r.out = Render.renderText o.newlineOutput (splice (splitLines bytes) 0 hs) ∧
      par2.s.eof = true := by
  have hfl : ∀ l ∈ filler, l.newline ≠ .none := by
    intro l hl
    have := hd.fillerPlain l hl
    unfold lfPlain at this
    simp only [Bool.and_eq_true, beq_iff_eq] at this
    rw [this.1]; simp
  cases hs with
  | nil => exact absurd rfl hd.nonEmpty
  | cons h hs' =>
    obtain ⟨body, hbody⟩ := C13.context_write_ok (h :: hs') hd.writable
    obtain ⟨O, N, tss, hO, hrt, hbt⟩ := ctxRejectBody_shape Unified.number_roundtrip h hs'
      (fun x hx => Unified.writableCR_of_writable (hd.writable x hx)) body hbody
    have hlines : splitLines (ctxPatchText filler old new oldt newt (h :: hs')) =
        ctxLines filler old new oldt newt (halvesTexts O h.old N h.new :: tss) := by
      unfold ctxPatchText
      rw [splitLines_linesText _ _ hd.fillerPlain,
        splitLines_ctxDiffText old new oldt newt (h :: hs') _ body hd.oldName.2 hd.newName.2 hd.oldStamp.2.1 hd.newStamp.2.1
          hd.oldStamp.1 hd.newStamp.1 hd.oldStamp.2.2 hd.newStamp.2.2 hd.nonEmpty hbody hrt hbt]
      rfl
    obtain ⟨patch0, info, par1, par2, hsp, hhdr, hf, hop, hpre, _, hnm, hop0, hbodyp, heof, hfs, hgood⟩ :=
      parse_ctxLines o.strip (forcedC o) (forcedC_cases o) filler old new oldt newt h hs' O N tss 1 hd.fillerInert hfl
        hd.oldName.1 hd.newName.1 hd.oldStamp.1 hd.newStamp.1 (hd.writable h List.mem_cons_self) hd.change hO hrt
    obtain ⟨hv', hsplice⟩ := valid_sameSides (splitLines bytes) hsp (h :: hs') 0 0 hfs hgood hvalid
    have hrev : (applyOptsOf o).reverse = false := ho.noReverse
    obtain ⟨r, hap, hrout, _, hrfail, _, hrperf, hrskip, _, hrmsgs, hrtty, hrpatch⟩ :=
      applyPatch_valid (splitLines bytes) hsp { patch0 with hunks := hsp } (applyOptsOf o)
        (Option.map (fun l => List.map (fun a => !List.isEmpty a && List.head? a != some 110) l) s0.tty)
        hv' (by rw [hrev]; rfl) ho.noDefine ho.fuzz
    refine ⟨_, patch0, { patch0 with hunks := hsp }, info, par1, par2, r, hlines, ?_, C01.render_of_lines _ ho.noDefine hap (hrout.trans hsplice), heof⟩
    exact {
      noOperand := ho.noOperand,
      oldPath := by rw [hop0, Header.stripped, if_neg hold, hstrip],
      notNull := hnn, noOut := ho.noOut, noBackup := ho.noBackup, pathNe := hname, cwd := hs0.cwd, hdr := hhdr,
      fmt := Or.inr (Or.inl hf), op := hop, pre := hpre, body := hbodyp, fmt2 := rfl, op2 := hop, newMode2 := hnm,
      file := htarget, writable := hw, root := hs0.root, noFault := hs0.noFault, apply := hap, failed := hrfail,
      perfect := hrperf, skipped := hrskip, msgs := hrmsgs ho.quiet, ttyLeft := hrtty,
      patch := by rw [hrpatch, hrev]; rfl }

/-- **C01, the whole program on a context diff, no file operand**: `patch [-c] -pN -i pname` — the target is the file the
    `*** ` line names after stripping (`stripPath old o.strip = name`) -/
theorem C01_run_context_guess_filler (ho : CtxGuessOpts o pname) (hreal : o.dryRun = false) (hs0 : CleanStart s0)
    (hname : name ≠ []) (hnn : name ≠ devNull) (hdir : s0.fs.dirExists (parentOf name) = true)
    (hpn : pname ≠ []) (hpd : pname ≠ [45])
    (htarget : s0.fs.lookup name = some (.file bytes m)) (hw : m &&& writeMask ≠ 0)
    (hpatch : s0.fs.lookup pname = some (.file (ctxPatchText filler old new oldt newt hs) pm))
    (hd : ContextDiff filler old new oldt newt hs) (hold : old ≠ devNull) (hstrip : stripPath old o.strip = name)
    (hvalid : Valid (splitLines bytes) 0 0 hs) :
    (runPatch o s0).1 = 0 ∧
    (runPatch o s0).2.fs.lookup name = some (.file (Render.renderText o.newlineOutput (splice (splitLines bytes) 0 hs)) m) ∧
    ∀ q, q ≠ name → (runPatch o s0).2.fs.lookup q = s0.fs.lookup q := by
  obtain ⟨tss, patch0, patch2, info, par1, par2, r, hlines, H, hrender, heof⟩ :=
    ctxGuessSection_of_diff ho hs0 hname hnn htarget hw hd hold hstrip hvalid
  obtain ⟨s', hrun, hfs, _, hdone⟩ := processSection_guess H hreal hdir
  rw [runPatch_of_ctxSection ho.file hs0 hpn hpd _ hpatch _ hlines s' par2 false hrun hdone heof]
  refine ⟨rfl, ?_, ?_⟩
  · show s'.fs.lookup name = _
    rw [hfs, Fs.lookup_set_self, hrender]
  · intro q hq
    show s'.fs.lookup q = _
    rw [hfs, Fs.lookup_set_ne _ _ _ _ hq]

theorem C15_run_context_guess_dry_filler (ho : CtxGuessOpts o pname) (hdry : o.dryRun = true) (hs0 : CleanStart s0)
    (hname : name ≠ []) (hnn : name ≠ devNull) (hpn : pname ≠ []) (hpd : pname ≠ [45])
    (htarget : s0.fs.lookup name = some (.file bytes m)) (hw : m &&& writeMask ≠ 0)
    (hpatch : s0.fs.lookup pname = some (.file (ctxPatchText filler old new oldt newt hs) pm))
    (hd : ContextDiff filler old new oldt newt hs) (hold : old ≠ devNull) (hstrip : stripPath old o.strip = name)
    (hvalid : Valid (splitLines bytes) 0 0 hs) :
    (runPatch o s0).1 = 0 ∧ (runPatch o s0).2.fs = s0.fs := by
  obtain ⟨tss, patch0, patch2, info, par1, par2, r, hlines, H, _, heof⟩ :=
    ctxGuessSection_of_diff ho hs0 hname hnn htarget hw hd hold hstrip hvalid
  obtain ⟨s', hrun, hfs, _, hdone⟩ := processSection_guess_dry H hdry
  rw [runPatch_of_ctxSection ho.file hs0 hpn hpd _ hpatch _ hlines s' par2 true hrun hdone heof]
  exact ⟨rfl, hfs⟩

end

/-- **C01, end to end, context format, no file operand.**  `patch -i pname` (no `-p`, or `-p0`; no `-u`): the target is found
    through the `*** ` line -/
theorem C01_run_context_guess (o : Options) (s0 : DState) (name pname bytes oldt newt : Bytes) (m pm : Nat) (hs : List Hunk)
    (ho : CtxGuessOpts o pname) (hstrip : o.strip ≤ 0) (hreal : o.dryRun = false) (hs0 : CleanStart s0)
    (hn : flatName name) (hpn : pname ≠ []) (hpd : pname ≠ [45])
    (htarget : s0.fs.lookup name = some (.file bytes m)) (hw : m &&& writeMask ≠ 0)
    (hot : stampOk oldt) (hnt : stampOk newt)
    (hpatch : s0.fs.lookup pname = some (.file (ctxDiffText name name oldt newt hs) pm))
    (hh : DiffHunks hs) (hvalid : Valid (splitLines bytes) 0 0 hs) :
    (runPatch o s0).1 = 0 ∧
    (runPatch o s0).2.fs.lookup name = some (.file (Render.renderText o.newlineOutput (splice (splitLines bytes) 0 hs)) m) ∧
    ∀ q, q ≠ name → (runPatch o s0).2.fs.lookup q = s0.fs.lookup q :=
  C01_run_context_guess_filler (filler := []) ho hreal hs0 hn.1 (flat_ne_devNull hn.2.1)
    (dirExists_parent_of_noSlash s0.fs hn.2.1) hpn hpd htarget hw hpatch (contextDiff_of_flat hn hot hnt hh)
    (flat_ne_devNull hn.2.1) (stripPath_flat hn.2.1 hstrip) hvalid

/-! ### non-vacuity: concrete runs

`f` = "a\nb\nc\n" (mode 0644), `p.diff` = a one-hunk context diff, options `-i p.diff f` (names, options and time stamps of
`C01.Instance` in Props/C01Run.lean).  Three hunks, one for every shape `write_hunk_as_context` writes:
`hk` changes `b` to `B` (both halves, `!` lines), `hdel` removes `b` (the new half is omitted by the writer), `hins` puts `b`
back into "a\nc\n" (the old half is omitted).  Every hypothesis of `C01_run_context` is discharged by evaluation in the kernel
(`decide` / `rfl`), the theorem is applied, and — independently — the executable model is run on the same state (`#guard`,
compiled evaluation: an executable test, not a proof). -/
namespace CtxInstance
open Instance (name pname bytes oldt newt o runOpts)

def hk : Hunk := ⟨⟨1, 3⟩, ⟨1, 3⟩, [⟨SP, ⟨[97], .lf⟩⟩, ⟨MINUS, ⟨[98], .lf⟩⟩, ⟨PLUS, ⟨[66], .lf⟩⟩, ⟨SP, ⟨[99], .lf⟩⟩]⟩
def hdel : Hunk := ⟨⟨1, 3⟩, ⟨1, 2⟩, [⟨SP, ⟨[97], .lf⟩⟩, ⟨MINUS, ⟨[98], .lf⟩⟩, ⟨SP, ⟨[99], .lf⟩⟩]⟩
def hins : Hunk := ⟨⟨1, 2⟩, ⟨1, 3⟩, [⟨SP, ⟨[97], .lf⟩⟩, ⟨PLUS, ⟨[98], .lf⟩⟩, ⟨SP, ⟨[99], .lf⟩⟩]⟩
/-- "a\nc\n" -/
def bytes2 : Bytes := [97, 10, 99, 10]

def mk (fb : Bytes) (hs : List Hunk) : DState :=
  { fs := { nodes := [(name, .file fb 0o644), (pname, .file (ctxDiffText name name oldt newt hs) 0o644)] } }

-- the texts
#guard ctxDiffText name name oldt newt [hk] ==
  str "*** f\t2020\n--- f\t2021\n***************\n*** 1,3 ****\n  a\n! b\n  c\n--- 1,3 ----\n  a\n! B\n  c\n"
#guard ctxDiffText name name oldt newt [hdel] ==       -- the new half is omitted
  str "*** f\t2020\n--- f\t2021\n***************\n*** 1,3 ****\n  a\n- b\n  c\n--- 1,2 ----\n"
#guard ctxDiffText name name oldt newt [hins] ==       -- the old half is omitted
  str "*** f\t2020\n--- f\t2021\n***************\n*** 1,2 ****\n--- 1,3 ----\n  a\n+ b\n  c\n"
#guard bytes2 == str "a\nc\n"

/-- the change b → B: the theorem applies, all its hypotheses hold of the instance -/
theorem applies :
    (runPatch o (mk bytes [hk])).1 = 0 ∧
    (runPatch o (mk bytes [hk])).2.fs.lookup name = some (.file [97, 10, 66, 10, 99, 10] 0o644) ∧
    ∀ q, q ≠ name → (runPatch o (mk bytes [hk])).2.fs.lookup q = (mk bytes [hk]).fs.lookup q := by
  have h := C01_run_context o (mk bytes [hk]) name pname bytes oldt newt 0o644 0o644 [hk] runOpts rfl rfl
    ⟨rfl, rfl, rfl, rfl, rfl, rfl⟩ (by decide) (by decide) (by decide) rfl (by decide) (by decide) (by decide) rfl
    { nonEmpty := by decide, writable := by decide, change := by decide } (validB_sound _ _ _ _ (by decide))
  have hm : Render.renderText o.newlineOutput (splice (splitLines bytes) 0 [hk]) = [97, 10, 66, 10, 99, 10] := by decide
  rw [hm] at h
  exact h

/-- the pure deletion (new half omitted in the text): "a\nb\nc\n" becomes "a\nc\n" -/
theorem applies_del :
    (runPatch o (mk bytes [hdel])).1 = 0 ∧
    (runPatch o (mk bytes [hdel])).2.fs.lookup name = some (.file [97, 10, 99, 10] 0o644) ∧
    ∀ q, q ≠ name → (runPatch o (mk bytes [hdel])).2.fs.lookup q = (mk bytes [hdel]).fs.lookup q := by
  have h := C01_run_context o (mk bytes [hdel]) name pname bytes oldt newt 0o644 0o644 [hdel] runOpts rfl rfl
    ⟨rfl, rfl, rfl, rfl, rfl, rfl⟩ (by decide) (by decide) (by decide) rfl (by decide) (by decide) (by decide) rfl
    { nonEmpty := by decide, writable := by decide, change := by decide } (validB_sound _ _ _ _ (by decide))
  have hm : Render.renderText o.newlineOutput (splice (splitLines bytes) 0 [hdel]) = [97, 10, 99, 10] := by decide
  rw [hm] at h
  exact h

/-- the pure insertion (old half omitted in the text): "a\nc\n" becomes "a\nb\nc\n" -/
theorem applies_ins :
    (runPatch o (mk bytes2 [hins])).1 = 0 ∧
    (runPatch o (mk bytes2 [hins])).2.fs.lookup name = some (.file [97, 10, 98, 10, 99, 10] 0o644) ∧
    ∀ q, q ≠ name → (runPatch o (mk bytes2 [hins])).2.fs.lookup q = (mk bytes2 [hins]).fs.lookup q := by
  have h := C01_run_context o (mk bytes2 [hins]) name pname bytes2 oldt newt 0o644 0o644 [hins] runOpts rfl rfl
    ⟨rfl, rfl, rfl, rfl, rfl, rfl⟩ (by decide) (by decide) (by decide) rfl (by decide) (by decide) (by decide) rfl
    { nonEmpty := by decide, writable := by decide, change := by decide } (validB_sound _ _ _ _ (by decide))
  have hm : Render.renderText o.newlineOutput (splice (splitLines bytes2) 0 [hins]) = [97, 10, 98, 10, 99, 10] := by decide
  rw [hm] at h
  exact h

/-- the --dry-run sibling applies as well -/
theorem applies_dry :
    (runPatch { o with dryRun := true } (mk bytes [hk])).1 = 0 ∧
    (runPatch { o with dryRun := true } (mk bytes [hk])).2.fs = (mk bytes [hk]).fs :=
  C15_run_context_dry { o with dryRun := true } (mk bytes [hk]) name pname bytes oldt newt 0o644 0o644 [hk]
    { plain := { operand := rfl, noOut := rfl, noBackup := rfl, noReverse := rfl, noDefine := rfl, fuzz := by decide, quiet := rfl },
      file := { patchFile := rfl, noDir := rfl, noHelp := rfl, noVersion := rfl, noContext := rfl, noNormal := rfl, noEd := rfl } }
    rfl rfl ⟨rfl, rfl, rfl, rfl, rfl, rfl⟩ (by decide) (by decide) (by decide) rfl (by decide) (by decide) (by decide) rfl
    { nonEmpty := by decide, writable := by decide, change := by decide } (validB_sound _ _ _ _ (by decide))

/-- with `-c` (and even `-c -u`: `-c` wins) -/
theorem applies_c :
    (runPatch { o with asContext := true, asUnified := true } (mk bytes [hk])).1 = 0 ∧
    (runPatch { o with asContext := true, asUnified := true } (mk bytes [hk])).2.fs.lookup name =
      some (.file [97, 10, 66, 10, 99, 10] 0o644) := by
  have h := C01_run_context_c { o with asContext := true, asUnified := true } (mk bytes [hk]) name pname bytes oldt newt
    0o644 0o644 [hk]
    { plain := { operand := rfl, noOut := rfl, noBackup := rfl, noReverse := rfl, noDefine := rfl, fuzz := by decide, quiet := rfl },
      file := { patchFile := rfl, noDir := rfl, noHelp := rfl, noVersion := rfl, noNormal := rfl, noEd := rfl, fmt := Or.inl rfl } }
    rfl ⟨rfl, rfl, rfl, rfl, rfl, rfl⟩ (by decide) (by decide) (by decide) rfl (by decide) (by decide) (by decide) rfl
    { nonEmpty := by decide, writable := by decide, change := by decide } (validB_sound _ _ _ _ (by decide))
  have hm : Render.renderText o.newlineOutput (splice (splitLines bytes) 0 [hk]) = [97, 10, 66, 10, 99, 10] := by decide
  rw [hm] at h
  exact ⟨h.1, h.2.1⟩

/-- the version without operand applies to the same tree with options `-i p.diff` -/
theorem applies_guess :
    (runPatch { o with fileToPatch := [] } (mk bytes [hk])).1 = 0 ∧
    (runPatch { o with fileToPatch := [] } (mk bytes [hk])).2.fs.lookup name = some (.file [97, 10, 66, 10, 99, 10] 0o644) := by
  have h := C01_run_context_guess { o with fileToPatch := [] } (mk bytes [hk]) name pname bytes oldt newt 0o644 0o644 [hk]
    { noOperand := rfl, noOut := rfl, noBackup := rfl, noReverse := rfl, noDefine := rfl, fuzz := by decide, quiet := rfl,
      file := { patchFile := rfl, noDir := rfl, noHelp := rfl, noVersion := rfl, noNormal := rfl, noEd := rfl, fmt := Or.inr rfl } }
    (by decide) rfl ⟨rfl, rfl, rfl, rfl, rfl, rfl⟩ (by decide) (by decide) (by decide) rfl (by decide) (by decide)
    (by decide) rfl { nonEmpty := by decide, writable := by decide, change := by decide } (validB_sound _ _ _ _ (by decide))
  have hm : Render.renderText o.newlineOutput (splice (splitLines bytes) 0 [hk]) = [97, 10, 66, 10, 99, 10] := by decide
  rw [hm] at h
  exact ⟨h.1, h.2.1⟩

-- independently: the executable model on the same states (executable tests)
#guard (runPatch o (mk bytes [hk])).1 == 0
#guard (runPatch { o with fileToPatch := [] } (mk bytes [hk])).1 == 0 &&
  (runPatch { o with fileToPatch := [] } (mk bytes [hk])).2.fs.lookup name == some (.file (str "a\nB\nc\n") 0o644)
#guard (runPatch o (mk bytes [hk])).2.fs.lookup name == some (.file (str "a\nB\nc\n") 0o644)          -- content and mode
#guard (runPatch o (mk bytes [hk])).2.fs.lookup pname == (mk bytes [hk]).fs.lookup pname
#guard (runPatch o (mk bytes [hk])).2.par.s.eof && (runPatch o (mk bytes [hk])).2.par.s.rest.isEmpty  -- the loop stopped on the end-of-file flag
#guard (runPatch o (mk bytes [hk])).2.out == [.file name false]                                       -- "patching file f", no other message
#guard (runPatch o (mk bytes [hk])).2.trace == [.tmpCreate, .tmpUnlink, .tmpCreate, .tmpUnlink, .creat name,
                                                .write name (str "a\nB\nc\n"), .chmod name 0o644]
#guard (runPatch o (mk bytes [hdel])).1 == 0 &&
  (runPatch o (mk bytes [hdel])).2.fs.lookup name == some (.file (str "a\nc\n") 0o644) &&
  (runPatch o (mk bytes [hdel])).2.par.s.eof
#guard (runPatch o (mk bytes [hdel])).2.trace == [.tmpCreate, .tmpUnlink, .tmpCreate, .tmpUnlink, .creat name,
                                                  .write name (str "a\nc\n"), .chmod name 0o644]
#guard (runPatch o (mk bytes2 [hins])).1 == 0 &&
  (runPatch o (mk bytes2 [hins])).2.fs.lookup name == some (.file (str "a\nb\nc\n") 0o644)
#guard (runPatch { o with dryRun := true } (mk bytes [hk])).1 == 0 &&
  (runPatch { o with dryRun := true } (mk bytes [hk])).2.fs.lookup name == some (.file bytes 0o644)
#guard (runPatch { o with asContext := true } (mk bytes [hk])).1 == 0

/-- what comes back from the text is NOT the hunk that was written when '-' and '+' lines are interleaved: `hmix` states
    a → A, b → B as `-a +A -b +B`; the text says `! a ! b` / `! A ! B` and is read back as `-a -b +A +B` — the same two sides
    (`Context.sameSides`), which is all `Valid` / `splice` look at (`RunC.valid_sameSides`): the theorem applies to `hmix` -/
def hmix : Hunk := ⟨⟨1, 2⟩, ⟨1, 2⟩, [⟨MINUS, ⟨[97], .lf⟩⟩, ⟨PLUS, ⟨[65], .lf⟩⟩, ⟨MINUS, ⟨[98], .lf⟩⟩, ⟨PLUS, ⟨[66], .lf⟩⟩]⟩
def bytes3 : Bytes := [97, 10, 98, 10]
#guard ctxDiffText name name oldt newt [hmix] ==
  str "*** f\t2020\n--- f\t2021\n***************\n*** 1,2 ****\n! a\n! b\n--- 1,2 ----\n! A\n! B\n"
#guard (match parsePatch (ctxDiffText name name oldt newt [hmix]) .unknown 0 with
  | .ok (p, _) => p.hunks.map (fun h => h.lines.map (·.op)) == [[MINUS, MINUS, PLUS, PLUS]] && p.hunks != [hmix]
  | _ => false)

theorem applies_mix :
    (runPatch o (mk bytes3 [hmix])).1 = 0 ∧
    (runPatch o (mk bytes3 [hmix])).2.fs.lookup name = some (.file [65, 10, 66, 10] 0o644) := by
  have h := C01_run_context o (mk bytes3 [hmix]) name pname bytes3 oldt newt 0o644 0o644 [hmix] runOpts rfl rfl
    ⟨rfl, rfl, rfl, rfl, rfl, rfl⟩ (by decide) (by decide) (by decide) rfl (by decide) (by decide) (by decide) rfl
    { nonEmpty := by decide, writable := by decide, change := by decide } (validB_sound _ _ _ _ (by decide))
  have hm : Render.renderText o.newlineOutput (splice (splitLines bytes3) 0 [hmix]) = [65, 10, 66, 10] := by decide
  rw [hm] at h
  exact ⟨h.1, h.2.1⟩
#guard (runPatch o (mk bytes3 [hmix])).1 == 0 &&
  (runPatch o (mk bytes3 [hmix])).2.fs.lookup name == some (.file (str "A\nB\n") 0o644)

/-- two hunks (a line of stars before each), the second one without a final newline on either side -/
def bytes4 : Bytes :=   -- "1\n2\n3\n4\n5\n6\n7\n8\n9"
  [49, 10, 50, 10, 51, 10, 52, 10, 53, 10, 54, 10, 55, 10, 56, 10, 57]
def h1 : Hunk := ⟨⟨1, 2⟩, ⟨1, 1⟩, [⟨MINUS, ⟨[49], .lf⟩⟩, ⟨SP, ⟨[50], .lf⟩⟩]⟩
def h2 : Hunk := ⟨⟨8, 2⟩, ⟨7, 2⟩, [⟨SP, ⟨[56], .lf⟩⟩, ⟨MINUS, ⟨[57], .none⟩⟩, ⟨PLUS, ⟨[110], .none⟩⟩]⟩
#guard bytes4 == str "1\n2\n3\n4\n5\n6\n7\n8\n9"
#guard ctxDiffText name name oldt newt [h1, h2] ==
  str ("*** f\t2020\n--- f\t2021\n***************\n*** 1,2 ****\n- 1\n  2\n--- 1 ----\n***************\n*** 8,9 ****\n  8\n! 9\n" ++
       "\\ No newline at end of file\n--- 7,8 ----\n  8\n! n\n\\ No newline at end of file\n")

theorem applies_two :
    (runPatch o (mk bytes4 [h1, h2])).1 = 0 ∧
    (runPatch o (mk bytes4 [h1, h2])).2.fs.lookup name =
      some (.file [50, 10, 51, 10, 52, 10, 53, 10, 54, 10, 55, 10, 56, 10, 110] 0o644) := by
  have h := C01_run_context o (mk bytes4 [h1, h2]) name pname bytes4 oldt newt 0o644 0o644 [h1, h2] runOpts rfl rfl
    ⟨rfl, rfl, rfl, rfl, rfl, rfl⟩ (by decide) (by decide) (by decide) rfl (by decide) (by decide) (by decide) rfl
    { nonEmpty := by decide, writable := by decide, change := by decide } (validB_sound _ _ _ _ (by decide))
  have hm : Render.renderText o.newlineOutput (splice (splitLines bytes4) 0 [h1, h2]) =
      [50, 10, 51, 10, 52, 10, 53, 10, 54, 10, 55, 10, 56, 10, 110] := by decide
  rw [hm] at h
  exact ⟨h.1, h.2.1⟩
#guard (runPatch o (mk bytes4 [h1, h2])).1 == 0 &&
  (runPatch o (mk bytes4 [h1, h2])).2.fs.lookup name == some (.file (str "2\n3\n4\n5\n6\n7\n8\nn") 0o644)

-- with a mail header and a commit message in front (C01_run_context_filler): filler, then the same diff
#guard (Instance.filler).all fun l => inertLine l.content && lfPlain l
def s0f : DState :=
  { fs := { nodes := [(name, .file bytes 0o644), (pname, .file (ctxPatchText Instance.filler name name oldt newt [hk]) 0o644)] } }
#guard ctxPatchText Instance.filler name name oldt newt [hk] ==
  str ("From: someone\n\nchange b to B\n\n*** f\t2020\n--- f\t2021\n***************\n*** 1,3 ****\n  a\n! b\n  c\n" ++
       "--- 1,3 ----\n  a\n! B\n  c\n")
#guard (runPatch o s0f).1 == 0 && (runPatch o s0f).2.fs.lookup name == some (.file (str "a\nB\nc\n") 0o644)

end CtxInstance

/-! ### the scope conditions, evaluated (executable tests)

* `o.asUnified = false` is needed, and rightly so: under `-u` a context diff is not a patch — exit status 2, nothing touched.
  (`-c` overrides `-u`: `CtxInstance.applies_c`.)
* `changeStart` is a restriction of the proof, not of the program (as for the unified format): a first new range `--- 0 ----`
  (the first line removed, no context) or a first old range `*** 0 ****` (text added to an empty file) makes the header scan infer
  "delete" / "add"; the run still gives the intended result.
* CRLF lines: `write_hunk_as_context` writes a CR LF line with CR LF; the theorem covers scripts for CRLF files (evaluated below
  under `--newline-output=keep`). -/
namespace CtxScope
open Instance (name pname bytes oldt newt o)

-- the same tree as `CtxInstance.applies`, options `-u -i p.diff f`
#guard (runPatch { o with asUnified := true } (CtxInstance.mk bytes [CtxInstance.hk])).1 == 2
#guard (runPatch { o with asUnified := true } (CtxInstance.mk bytes [CtxInstance.hk])).2.fs.lookup name ==
  some (.file bytes 0o644)
#guard (runPatch { o with asNormal := true } (CtxInstance.mk bytes [CtxInstance.hk])).1 == 2

def del1 : Hunk := ⟨⟨1, 1⟩, ⟨0, 0⟩, [⟨MINUS, ⟨str "a", .lf⟩⟩]⟩            -- *** 1 **** / - a / --- 0 ----
#guard validB (splitLines (str "a\nb\n")) 0 0 [del1] && del1.writable && !changeStart [del1]
#guard ctxDiffText name name oldt newt [del1] == str "*** f\t2020\n--- f\t2021\n***************\n*** 1 ****\n- a\n--- 0 ----\n"
#guard (runPatch o (CtxInstance.mk (str "a\nb\n") [del1])).1 == 0 &&
  (runPatch o (CtxInstance.mk (str "a\nb\n") [del1])).2.fs.lookup name == some (.file (str "b\n") 0o644)

def add1 : Hunk := ⟨⟨0, 0⟩, ⟨1, 1⟩, [⟨PLUS, ⟨str "a", .lf⟩⟩]⟩             -- *** 0 **** / --- 1 ---- / + a
#guard validB (splitLines []) 0 0 [add1] && add1.writable && !changeStart [add1]
#guard ctxDiffText name name oldt newt [add1] == str "*** f\t2020\n--- f\t2021\n***************\n*** 0 ****\n--- 1 ----\n+ a\n"
#guard (runPatch o (CtxInstance.mk [] [add1])).1 == 0 &&
  (runPatch o (CtxInstance.mk [] [add1])).2.fs.lookup name == some (.file (str "a\n") 0o644)

def crlf : Hunk := ⟨⟨1, 2⟩, ⟨1, 2⟩, [⟨SP, ⟨str "a", .crlf⟩⟩, ⟨MINUS, ⟨str "b", .crlf⟩⟩, ⟨PLUS, ⟨str "B", .crlf⟩⟩]⟩
#guard validB (splitLines (str "a\r\nb\r\n")) 0 0 [crlf] && crlf.writable && changeStart [crlf]
#guard ctxDiffText name name oldt newt [crlf] ==
  str "*** f\t2020\n--- f\t2021\n***************\n*** 1,2 ****\n  a\r\n! b\r\n--- 1,2 ----\n  a\r\n! B\r\n"
#guard (runPatch { o with newlineOutput := .keep } (CtxInstance.mk (str "a\r\nb\r\n") [crlf])).1 == 0 &&
  (runPatch { o with newlineOutput := .keep } (CtxInstance.mk (str "a\r\nb\r\n") [crlf])).2.fs.lookup name ==
    some (.file (str "a\r\nB\r\n") 0o644)

end CtxScope

end PatchModel.C01

#print axioms PatchModel.C01.C01_run_context_filler
#print axioms PatchModel.C01.C15_run_context_dry_filler
#print axioms PatchModel.C01.C01_run_context
#print axioms PatchModel.C01.C15_run_context_dry
#print axioms PatchModel.C01.C01_run_context_c
#print axioms PatchModel.C01.C01_run_context_guess_filler
#print axioms PatchModel.C01.C15_run_context_guess_dry_filler
#print axioms PatchModel.C01.C01_run_context_guess
#print axioms PatchModel.C01.CtxInstance.applies
#print axioms PatchModel.C01.CtxInstance.applies_guess
#print axioms PatchModel.C01.CtxInstance.applies_del
#print axioms PatchModel.C01.CtxInstance.applies_ins
#print axioms PatchModel.C01.CtxInstance.applies_dry
#print axioms PatchModel.C01.CtxInstance.applies_c
#print axioms PatchModel.C01.CtxInstance.applies_mix
#print axioms PatchModel.C01.CtxInstance.applies_two
#print axioms PatchModel.RunC.parse_ctxLines
#print axioms PatchModel.RunC.valid_sameSides
#print axioms PatchModel.RunC.parseContextBody_eof
