/-
  C19 — option spellings are interchangeable; bad command lines are rejected.
  All theorems are over an arbitrary well-formed option table; `table_wf` instantiates them for the table that
  tools/gen_tables.py regenerates from src/options.cpp on every run.
-/
import PatchModel.Model.Cmdline
import PatchModel.Lemmas.Cmdline
namespace PatchModel.C19
open PatchModel

/-- the byte of a short option name (short names of long-only options are > 127 and have none) -/
def shortByte (o : Opt) : Option UInt8 :=
  if 0 ≤ o.shortName ∧ o.shortName < 128 then some (UInt8.ofNat o.shortName.toNat) else none

/-- well-formedness of an option table: distinct short names, distinct long names, long names start with "--",
    are longer than that and contain no '='; no short name is '-' or the operand code '?' -/
def tableWF (t : List Opt) : Bool :=
  (t.map (·.shortName)).Nodup && (t.map (·.longName)).Nodup &&
  t.all fun o => [MINUS, MINUS].isPrefixOf o.longName && decide (o.longName.length > 2) && !o.longName.contains EQ
    && o.shortName != 45 && o.shortName != OPERAND && decide (-128 ≤ o.shortName)

/-- the regenerated table is well formed -/
theorem table_wf : tableWF optionTable = true := by
  decide +kernel

/-- `CmdLineParser::parse` with the fuel `commandLine` gives it -/
def parseArgv (t : List Opt) (argv : List Bytes) : List OptCall × Option Exn := parseArgs t (argv.length + 1) argv

/-- two command lines are interchangeable: same resulting options, or both rejected -/
def Same (t : List Opt) (a b : List Bytes) : Prop :=
  ∀ env, (commandLine t a env).toOption = (commandLine t b env).toOption

/-! ### helpers -/

open PatchModel.Cmdline

theorem parseArgv_eq (t : List Opt) (argv : List Bytes) : parseArgv t argv = parse t argv := rfl

/-- what `tableWF` says, as propositions -/
theorem wf_parts (t : List Opt) (hw : tableWF t = true) :
    (t.map (·.shortName)).Nodup ∧ (t.map (·.longName)).Nodup ∧
    ∀ o ∈ t, (∃ c more, o.longName = MINUS :: MINUS :: c :: more) ∧ EQ ∉ o.longName ∧ o.shortName ≠ 45 := by
  simp only [tableWF, Bool.and_eq_true, decide_eq_true_eq, List.all_eq_true] at hw
  obtain ⟨⟨h1, h2⟩, h3⟩ := hw
  refine ⟨h1, h2, fun o ho => ?_⟩
  obtain ⟨⟨⟨⟨⟨hp, hl⟩, he⟩, h45⟩, _⟩, _⟩ := h3 o ho
  refine ⟨?_, by simpa using he, by simpa using h45⟩
  match hn : o.longName, hp, hl with
  | a :: b :: c :: more, hp, _ =>
    simp only [List.isPrefixOf, Bool.and_true, Bool.and_eq_true, beq_iff_eq] at hp
    obtain ⟨rfl, rfl⟩ := hp
    exact ⟨c, more, rfl⟩

/-- the byte of a short name has that name as its `char` value, and is not '-' -/
theorem shortByte_spec (t : List Opt) (hw : tableWF t = true) (o : Opt) (ho : o ∈ t) (c : UInt8)
    (hc : shortByte o = some c) : o.shortName = charVal c ∧ c ≠ MINUS := by
  unfold shortByte at hc
  split at hc
  · rename_i h
    injection hc with hc
    have hv : o.shortName = charVal c := by rw [← hc, charVal_ofNat _ h.1 h.2]
    refine ⟨hv, fun hm => ?_⟩
    rw [hm, charVal_MINUS] at hv
    exact ((wf_parts t hw).2.2 o ho).2.2 hv
  · exact absurd hc (by simp)

/-- one loop iteration on an option, given what the short / long parser returned -/
def stepResult (t : List Opt) (rest : List Bytes) (r : Except Exn (List OptCall × Nat)) : List OptCall × Option Exn :=
  match r with
  | .error e => ([], some e)
  | .ok (calls, used) => (calls ++ (parse t (rest.drop used)).1, (parse t (rest.drop used)).2)

/-- `--name`, `--name=value` for a table entry -/
theorem parse_longopt (t : List Opt) (hw : tableWF t = true) (o : Opt) (ho : o ∈ t) (suffix : Bytes)
    (hs : suffix = [] ∨ suffix.head? = some EQ) (rest : List Bytes) :
    parse t ((o.longName ++ suffix) :: rest)
      = stepResult t rest (handleLong (!suffix.isEmpty) (suffix.drop 1) rest o) := by
  obtain ⟨hnd1, hnd2, hall⟩ := wf_parts t hw
  obtain ⟨⟨c, more, hn⟩, heq, _⟩ := hall o ho
  rw [parse_long t _ rest (by rw [hn]; simp [List.isPrefixOf]) (by rw [hn]; simp),
    parseLong_key t _ _ _ heq hs, parseLongKey_exact t hnd2 o ho]
  rfl

theorem parse_longname (t : List Opt) (hw : tableWF t = true) (o : Opt) (ho : o ∈ t) (rest : List Bytes) :
    parse t (o.longName :: rest) = stepResult t rest (handleLong false [] rest o) := by
  have := parse_longopt t hw o ho [] (.inl rfl) rest
  rwa [List.append_nil] at this

/-- `-c…` for a table entry -/
theorem parse_shortopt (t : List Opt) (hw : tableWF t = true) (o : Opt) (ho : o ∈ t) (c : UInt8)
    (hc : shortByte o = some c) (more : Bytes) (rest : List Bytes) :
    parse t ((MINUS :: c :: more) :: rest) = stepResult t rest (parseShort t (c :: more) rest) := by
  rw [parse_short t c more rest (shortByte_spec t hw o ho c hc).2]
  rfl

theorem parse_shortname (t : List Opt) (hw : tableWF t = true) (o : Opt) (ho : o ∈ t) (c : UInt8)
    (hc : shortByte o = some c) (rest : List Bytes) :
    parse t ([MINUS, c] :: rest) = stepResult t rest (handleLong false [] rest o) := by
  rw [parse_shortopt t hw o ho c hc]
  congr 1
  have hv := (shortByte_spec t hw o ho c hc).1
  cases harg : o.hasArg with
  | true =>
    rw [parseShort_arg t (wf_parts t hw).1 o ho c hv harg]
    cases rest with
    | nil => rw [handleLong_arg_nil _ _ harg]; rfl
    | cons a rest => rw [handleLong_arg_next _ _ _ _ harg]; rfl
  | false =>
    rw [parseShort_flag t (wf_parts t hw).1 o ho c hv harg, handleLong_flag _ _ _ harg]
    rfl

/-- either spelling of an option's name -/
theorem parse_optname (t : List Opt) (hw : tableWF t = true) (o : Opt) (ho : o ∈ t) (f : Bytes)
    (hf : f = o.longName ∨ ∃ c, shortByte o = some c ∧ f = [MINUS, c]) (rest : List Bytes) :
    parse t (f :: rest) = stepResult t rest (handleLong false [] rest o) := by
  rcases hf with rfl | ⟨c, hc, rfl⟩
  · exact parse_longname t hw o ho rest
  · exact parse_shortname t hw o ho c hc rest

/-! ### spellings -/

/-- short option: attached argument ≡ separate argument -/
theorem short_attached_separate (t : List Opt) (hw : tableWF t = true) (o : Opt) (ho : o ∈ t) (harg : o.hasArg = true)
    (c : UInt8) (hc : shortByte o = some c) (v : Bytes) (hv : v ≠ []) (rest : List Bytes) :
    parseArgv t (([MINUS, c] ++ v) :: rest) = parseArgv t ([MINUS, c] :: v :: rest) := by
  rw [parseArgv_eq, parseArgv_eq]
  have hs := (shortByte_spec t hw o ho c hc).1
  have hnd := (wf_parts t hw).1
  show parse t ((MINUS :: c :: v) :: rest) = parse t ((MINUS :: c :: []) :: v :: rest)
  rw [parse_shortopt t hw o ho c hc, parse_shortopt t hw o ho c hc,
    parseShort_arg t hnd o ho c hs harg, parseShort_arg t hnd o ho c hs harg]
  have : v.isEmpty = false := by cases v <;> simp at hv ⊢
  simp only [this]
  rfl

/-- long option: `--name=value` ≡ `--name value` -/
theorem long_eq_separate (t : List Opt) (hw : tableWF t = true) (o : Opt) (ho : o ∈ t) (harg : o.hasArg = true)
    (v : Bytes) (rest : List Bytes) :
    parseArgv t ((o.longName ++ [EQ] ++ v) :: rest) = parseArgv t (o.longName :: v :: rest) := by
  rw [parseArgv_eq, parseArgv_eq, List.append_assoc, parse_longopt t hw o ho _ (.inr rfl), parse_longname t hw o ho,
    handleLong_arg_next _ _ _ _ harg]
  show stepResult t rest (handleLong true v rest o) = _
  rw [handleLong_arg_sep _ _ _ harg]
  rfl

/-- short form ≡ long form -/
theorem short_long (t : List Opt) (hw : tableWF t = true) (o : Opt) (ho : o ∈ t)
    (c : UInt8) (hc : shortByte o = some c) (rest : List Bytes) :
    parseArgv t ([MINUS, c] :: rest) = parseArgv t (o.longName :: rest) := by
  rw [parseArgv_eq, parseArgv_eq, parse_shortname t hw o ho c hc, parse_longname t hw o ho]

/-- any unambiguous prefix of a long name ≡ the full name (with or without `=value`) -/
theorem prefix_unambiguous (t : List Opt) (hw : tableWF t = true) (o : Opt) (ho : o ∈ t)
    (pre : Bytes) (hlen : pre.length > 2) (hp : pre.isPrefixOf o.longName = true)
    (huniq : ∀ o' ∈ t, pre.isPrefixOf o'.longName = true → o' = o)
    (suffix : Bytes) (hs : suffix = [] ∨ suffix.head? = some EQ) (next : List Bytes) :
    parseLong t (pre ++ suffix) next = parseLong t (o.longName ++ suffix) next := by
  obtain ⟨_, hnd2, hall⟩ := wf_parts t hw
  have heq := (hall o ho).2.1
  rw [parseLong_key t _ _ _ (not_mem_of_isPrefixOf pre _ hp heq) hs, parseLong_key t _ _ _ heq hs,
    parseLongKey_exact t hnd2 o ho, parseLongKey_unique t hnd2 o ho pre hp huniq]

/-- a prefix matching two or more long names and equal to none is rejected -/
theorem prefix_ambiguous (t : List Opt) (hw : tableWF t = true) (o1 o2 : Opt) (h1 : o1 ∈ t) (h2 : o2 ∈ t) (hne : o1 ≠ o2)
    (pre : Bytes) (hp1 : pre.isPrefixOf o1.longName = true) (hp2 : pre.isPrefixOf o2.longName = true)
    (hno : ∀ o ∈ t, o.longName ≠ pre) (hnoeq : ¬ pre.contains EQ)
    (suffix : Bytes) (hs : suffix = [] ∨ suffix.head? = some EQ) (next : List Bytes) :
    parseLong t (pre ++ suffix) next = .error .cmdlineError := by
  rw [parseLong_key t _ _ _ (by simpa using hnoeq) hs, parseLongKey_ambiguous t o1 o2 h1 h2 hne pre hp1 hp2 hno]

theorem parse_flags (t : List Opt) (hw : tableWF t = true) (rest : List Bytes) :
    ∀ (cs : List UInt8), (∀ c ∈ cs, ∃ o ∈ t, shortByte o = some c ∧ o.hasArg = false) →
      parse t (cs.map (fun c => [MINUS, c]) ++ rest)
        = (cs.map (fun c => (charVal c, [])) ++ (parse t rest).1, (parse t rest).2)
  | [], _ => rfl
  | c :: cs, h => by
    obtain ⟨o, ho, hc, hflag⟩ := h c List.mem_cons_self
    have hv := (shortByte_spec t hw o ho c hc).1
    rw [List.map_cons, List.cons_append, parse_shortname t hw o ho c hc, handleLong_flag _ _ _ hflag]
    show ([(o.shortName, [])] ++ (parse t (cs.map (fun c => [MINUS, c]) ++ rest)).1,
      (parse t (cs.map (fun c => [MINUS, c]) ++ rest)).2) = _
    rw [parse_flags t hw rest cs (fun d hd => h d (List.mem_cons_of_mem _ hd)), hv]
    rfl

/-- bundled short flags ≡ the flags one by one -/
theorem bundle (t : List Opt) (hw : tableWF t = true) (cs : List UInt8) (hne : cs ≠ [])
    (hflags : ∀ c ∈ cs, ∃ o ∈ t, shortByte o = some c ∧ o.hasArg = false) (rest : List Bytes) :
    parseArgv t (([MINUS] ++ cs) :: rest) = parseArgv t (cs.map (fun c => [MINUS, c]) ++ rest) := by
  rw [parseArgv_eq, parseArgv_eq, parse_flags t hw rest cs hflags]
  match cs, hne, hflags with
  | c :: cs, _, hflags =>
    obtain ⟨o, ho, hc, _⟩ := hflags c List.mem_cons_self
    show parse t ((MINUS :: c :: cs) :: rest) = _
    rw [parse_shortopt t hw o ho c hc, parseShort_flags t (wf_parts t hw).1 rest (c :: cs)]
    · rfl
    · intro d hd
      obtain ⟨o', ho', hc', hf'⟩ := hflags d hd
      exact ⟨o', ho', (shortByte_spec t hw o' ho' d hc').1, hf'⟩

/-- `--` ends option parsing: everything after it is an operand -/
theorem dashdash (t : List Opt) (rest : List Bytes) :
    parseArgv t ([MINUS, MINUS] :: rest) = (rest.map fun a => (OPERAND, a), none) := by
  rw [parseArgv_eq, parse_dashdash]

/-! ### operands and options commute

`operand_flag_commute` / `operand_option_commute` as stated are FALSE for an arbitrary well-formed table: `tableWF`
does not say that a short name is one of the codes `processOption` handles, and an unhandled code is processed as
an operand (`default:` → `process_operand`).  Counterexample: `t = [⟨1000, "--foo", false⟩]`, `x = "a"`, `f = "--foo"`:
`a --foo` gives fileToPatch = "a", patchFile = "" while `--foo a` gives fileToPatch = "", patchFile = "a"
(`cex_flag`, `cex_option` below).  Repair: the extra hypothesis `handled o.shortName` (true of every row of the
generated table: `table_handled`). -/

def cexTable (hasArg : Bool) : List Opt := [⟨1000, [45, 45, 102, 111, 111], hasArg⟩]

theorem cex_flag : tableWF (cexTable false) = true ∧
    ¬ Same (cexTable false) ([97] :: [45, 45, 102, 111, 111] :: []) ([45, 45, 102, 111, 111] :: [97] :: []) := by
  refine ⟨by decide, fun h => ?_⟩
  exact absurd (h {}) (by decide)

theorem cex_option : tableWF (cexTable true) = true ∧
    ¬ Same (cexTable true) ([97] :: [45, 45, 102, 111, 111] :: [98] :: []) ([45, 45, 102, 111, 111] :: [98] :: [97] :: []) := by
  refine ⟨by decide, fun h => ?_⟩
  exact absurd (h {}) (by decide)

/-- every short name of the regenerated table is a code `processOption` handles as an option -/
theorem table_handled : optionTable.all (fun o => handled o.shortName) = true := by
  decide +kernel

theorem handled_of_mem_table (o : Opt) (ho : o ∈ optionTable) : handled o.shortName = true :=
  List.all_eq_true.1 table_handled o ho

/-- repaired `operand_flag_commute`: the flag's code must be one `processOption` handles (`-i` as a flag would be fine:
    the operand here is always the first one) -/
theorem operand_flag_commute_partial (t : List Opt) (hw : tableWF t = true) (x : Bytes) (hx : x.head? ≠ some MINUS ∨ x = [MINUS])
    (f : Bytes) (o : Opt) (ho : o ∈ t) (hflag : o.hasArg = false) (hh : handled o.shortName = true)
    (hf : f = o.longName ∨ ∃ c, shortByte o = some c ∧ f = [MINUS, c]) (rest : List Bytes) :
    Same t (x :: f :: rest) (f :: x :: rest) := by
  intro env
  have e1 : parse t (x :: f :: rest) = ((OPERAND, x) :: (o.shortName, []) :: (parse t rest).1, (parse t rest).2) := by
    rw [parse_operand t x _ hx, parse_optname t hw o ho f hf, handleLong_flag _ _ _ hflag]
    rfl
  have e2 : parse t (f :: x :: rest) = ((o.shortName, []) :: (OPERAND, x) :: (parse t rest).1, (parse t rest).2) := by
    rw [parse_optname t hw o ho f hf, handleLong_flag _ _ _ hflag]
    show ([(o.shortName, [])] ++ (parse t (x :: rest)).1, (parse t (x :: rest)).2) = _
    rw [parse_operand t x _ hx]
    rfl
  apply commandLine_congr
  · rw [e1, e2]
    exact foldCalls_swap0 (handled_isOptF _ _ hh) _ rfl x _
  · rw [e1, e2]

/- FULL STATEMENT (not provable: false for an arbitrary well-formed table, witness `cex_flag`;
   proved below as `operand_flag_commute_partial` with the extra hypothesis that the option's code is one `processOption` handles,
   and as `operand_flag_commute_table` for the regenerated table without extra hypothesis):

   an operand (anything not starting with '-', or "-" itself) may be placed before or after a flag.
       FALSE as stated for an arbitrary well-formed table (see `cex_flag`); see
       `operand_flag_commute_partial` / `operand_flag_commute_table`.

   theorem operand_flag_commute (t : List Opt) (hw : tableWF t = true) (x : Bytes) (hx : x.head? ≠ some MINUS ∨ x = [MINUS])
       (f : Bytes) (o : Opt) (ho : o ∈ t) (hflag : o.hasArg = false)
       (hf : f = o.longName ∨ ∃ c, shortByte o = some c ∧ f = [MINUS, c]) (rest : List Bytes) :
       Same t (x :: f :: rest) (f :: x :: rest) 
-/

/-- `operand_flag_commute` for the regenerated table -/
theorem operand_flag_commute_table (x : Bytes) (hx : x.head? ≠ some MINUS ∨ x = [MINUS])
    (f : Bytes) (o : Opt) (ho : o ∈ optionTable) (hflag : o.hasArg = false)
    (hf : f = o.longName ∨ ∃ c, shortByte o = some c ∧ f = [MINUS, c]) (rest : List Bytes) :
    Same optionTable (x :: f :: rest) (f :: x :: rest) :=
  operand_flag_commute_partial optionTable table_wf x hx f o ho hflag (handled_of_mem_table o ho) hf rest

/-- repaired `operand_option_commute`: the option's code must be one `processOption` handles -/
theorem operand_option_commute_partial (t : List Opt) (hw : tableWF t = true) (x : Bytes) (hx : x.head? ≠ some MINUS ∨ x = [MINUS])
    (f v : Bytes) (o : Opt) (ho : o ∈ t) (harg : o.hasArg = true) (hi : o.shortName ≠ 105) (hh : handled o.shortName = true)
    (hf : f = o.longName ∨ ∃ c, shortByte o = some c ∧ f = [MINUS, c]) (rest : List Bytes) :
    Same t (x :: f :: v :: rest) (f :: v :: x :: rest) := by
  intro env
  have e1 : parse t (x :: f :: v :: rest) = ((OPERAND, x) :: (o.shortName, v) :: (parse t rest).1, (parse t rest).2) := by
    rw [parse_operand t x _ hx, parse_optname t hw o ho f hf, handleLong_arg_next _ _ _ _ harg]
    rfl
  have e2 : parse t (f :: v :: x :: rest) = ((o.shortName, v) :: (OPERAND, x) :: (parse t rest).1, (parse t rest).2) := by
    rw [parse_optname t hw o ho f hf, handleLong_arg_next _ _ _ _ harg]
    show ([(o.shortName, v)] ++ (parse t (x :: rest)).1, (parse t (x :: rest)).2) = _
    rw [parse_operand t x _ hx]
    rfl
  apply commandLine_congr
  · rw [e1, e2]
    exact foldCalls_swap (handled_isOpt _ _ hh hi) _ x _
  · rw [e1, e2]

/- FULL STATEMENT (not provable: false for an arbitrary well-formed table, witness `cex_option`;
   proved below as `operand_option_commute_partial` with the extra hypothesis that the option's code is one `processOption` handles,
   and as `operand_option_commute_table` for the regenerated table without extra hypothesis):

   an operand may be placed before or after an option with its argument — except `-i`, which shares its slot with the
       second operand (known behaviour D21).
       FALSE as stated for an arbitrary well-formed table (see `cex_option`); see
       `operand_option_commute_partial` / `operand_option_commute_table`.

   theorem operand_option_commute (t : List Opt) (hw : tableWF t = true) (x : Bytes) (hx : x.head? ≠ some MINUS ∨ x = [MINUS])
       (f v : Bytes) (o : Opt) (ho : o ∈ t) (harg : o.hasArg = true) (hi : o.shortName ≠ 105)
       (hf : f = o.longName ∨ ∃ c, shortByte o = some c ∧ f = [MINUS, c]) (rest : List Bytes) :
       Same t (x :: f :: v :: rest) (f :: v :: x :: rest) 
-/

/-- `operand_option_commute` for the regenerated table -/
theorem operand_option_commute_table (x : Bytes) (hx : x.head? ≠ some MINUS ∨ x = [MINUS])
    (f v : Bytes) (o : Opt) (ho : o ∈ optionTable) (harg : o.hasArg = true) (hi : o.shortName ≠ 105)
    (hf : f = o.longName ∨ ∃ c, shortByte o = some c ∧ f = [MINUS, c]) (rest : List Bytes) :
    Same optionTable (x :: f :: v :: rest) (f :: v :: x :: rest) :=
  operand_option_commute_partial optionTable table_wf x hx f v o ho harg hi (handled_of_mem_table o ho) hf rest

/-! ### rejections: each of these makes `commandLine` fail (main maps every failure to exit status 2 before any file is touched) -/

/-- operands, then an argument on which the parser fails -/
theorem reject_of_step_error (t : List Opt) (pre : List Bytes) (arg : Bytes) (rest : List Bytes) (env : Env)
    (hpre : ∀ a ∈ pre, a.head? ≠ some MINUS) (e : Exn) (h : parse t (arg :: rest) = ([], some e)) :
    (commandLine t (pre ++ arg :: rest) env).toOption = none := by
  apply commandLine_parse_error t _ env e
  rw [parse_operands t pre _ hpre, h]

theorem reject_unknown_short (t : List Opt) (c : UInt8) (hc : ∀ o ∈ t, o.shortName ≠ charVal c) (hm : c ≠ MINUS)
    (more : Bytes) (pre rest : List Bytes) (env : Env)
    (hpre : ∀ a ∈ pre, a.head? ≠ some MINUS) :
    (commandLine t (pre ++ ([MINUS, c] ++ more) :: rest) env).toOption = none := by
  apply reject_of_step_error t pre _ rest env hpre .cmdlineError
  show parse t ((MINUS :: c :: more) :: rest) = _
  rw [parse_short t c more rest hm, parseShort_unknown t c hc]

theorem reject_unknown_long (t : List Opt) (arg : Bytes) (h2 : [MINUS, MINUS].isPrefixOf arg = true) (hlen : arg.length > 2)
    (hnone : ∀ o ∈ t, (arg.takeWhile (· != EQ)).isPrefixOf o.longName = false)
    (pre rest : List Bytes) (env : Env) (hpre : ∀ a ∈ pre, a.head? ≠ some MINUS) :
    (commandLine t (pre ++ arg :: rest) env).toOption = none := by
  apply reject_of_step_error t pre _ rest env hpre .cmdlineError
  rw [parse_long t arg rest h2 hlen, parseLong_eq, parseLongKey_none t _ hnone]

theorem reject_missing_argument (t : List Opt) (hw : tableWF t = true) (o : Opt) (ho : o ∈ t) (harg : o.hasArg = true)
    (f : Bytes) (hf : f = o.longName ∨ ∃ c, shortByte o = some c ∧ f = [MINUS, c])
    (pre : List Bytes) (env : Env) (hpre : ∀ a ∈ pre, a.head? ≠ some MINUS) :
    (commandLine t (pre ++ [f]) env).toOption = none := by
  apply reject_of_step_error t pre _ [] env hpre .cmdlineError
  rw [parse_optname t hw o ho f hf, handleLong_arg_nil _ _ harg]
  rfl

theorem reject_flag_with_value (t : List Opt) (hw : tableWF t = true) (o : Opt) (ho : o ∈ t) (hflag : o.hasArg = false)
    (v : Bytes) (pre rest : List Bytes) (env : Env) (hpre : ∀ a ∈ pre, a.head? ≠ some MINUS) :
    (commandLine t (pre ++ (o.longName ++ [EQ] ++ v) :: rest) env).toOption = none := by
  apply reject_of_step_error t pre _ rest env hpre .cmdlineError
  rw [List.append_assoc, parse_longopt t hw o ho _ (.inr rfl)]
  show stepResult t rest (handleLong true v rest o) = _
  rw [handleLong_flag_sep _ _ _ hflag]
  rfl

/-- a non-numeric (or out of range) argument to -F / -p -/
theorem reject_non_numeric (v : Bytes) (hv : (stoi v).toOption = none) (code : Int) (hc : code = 70 ∨ code = 112)
    (st : HandlerState) : (processOption st (code, v)).toOption = none := by
  rcases hc with rfl | rfl <;> simp only [processOption] <;> cases hs : stoi v with
  | error e => rfl
  | ok n => rw [hs] at hv; exact absurd hv (by simp [Except.toOption])

/-- **white space in front of a number is refused** (`std::stoi` would skip it: `-p " 1"` used to be taken as `-p 1`) -/
theorem stoi_leading_space (c : UInt8) (rest : Bytes) (h : isSpaceC c = true) : stoi (c :: rest) = .error .cmdlineError :=
  stoi_space_head c rest h

/-- **what counts as a number**: an optional sign, then digits — at least one —, nothing before (in particular no white space) and
    nothing after, the value within the 32-bit range; everything else is refused (`reject_non_numeric`).
    (Before the change "`stoi` refuses leading white space" the accepted strings were `blanks* sign? digits+`.) -/
theorem stoi_accepts_only_numbers (v : Bytes) (n : Int) (h : stoi v = .ok n) :
    ∃ sign ds, v = sign ++ ds ∧ (sign = [] ∨ sign = [43] ∨ sign = [45]) ∧ ds ≠ [] ∧ (∀ c ∈ ds, 48 ≤ c ∧ c ≤ 57) ∧
      -2147483648 ≤ n ∧ n ≤ 2147483647 :=
  stoi_ok_shape v n h

/-- an argument to -F / -p that is not `sign? digits+` is rejected — stated on the bytes of the argument, not on `stoi` -/
theorem reject_not_a_number (v : Bytes)
    (hv : ¬ ∃ sign ds, v = sign ++ ds ∧ (sign = [] ∨ sign = [43] ∨ sign = [45]) ∧ ds ≠ [] ∧ ∀ c ∈ ds, 48 ≤ c ∧ c ≤ 57)
    (code : Int) (hc : code = 70 ∨ code = 112) (st : HandlerState) : (processOption st (code, v)).toOption = none := by
  refine reject_non_numeric v ?_ code hc st
  cases hs : stoi v with
  | error e => rfl
  | ok n =>
    obtain ⟨sign, ds, h1, h2, h3, h4, -⟩ := stoi_ok_shape v n hs
    exact absurd ⟨sign, ds, h1, h2, h3, h4⟩ hv

/-- in particular: an argument with white space in front -/
theorem reject_leading_space (c : UInt8) (rest : Bytes) (h : isSpaceC c = true) (code : Int) (hc : code = 70 ∨ code = 112)
    (st : HandlerState) : (processOption st (code, c :: rest)).toOption = none :=
  reject_non_numeric (c :: rest) (by rw [stoi_leading_space c rest h]; rfl) code hc st

/-- digits alone are a number -/
theorem stoi_digits (ds : Bytes) (hne : ds ≠ []) (hd : ∀ c ∈ ds, 48 ≤ c ∧ c ≤ 57) (hsmall : ds.length ≤ 9) :
    ∃ n : Int, stoi ds = .ok n ∧ 0 ≤ n := by
  match ds, hne with
  | d :: ds, hne =>
    obtain ⟨f1, f2, f3, _⟩ := digit_facts d (hd d List.mem_cons_self)
    rw [stoi_digit_head d ds f1 f2 f3]
    exact stoiDigits_digits (d :: ds) hne hd hsmall

theorem stoi_rejects_trailing (s : Bytes) (c : UInt8) (hc : ¬ (48 ≤ c ∧ c ≤ 57))
    (hne : s ≠ []) (hd : ∀ d ∈ s, 48 ≤ d ∧ d ≤ 57) : (stoi (s ++ [c])).toOption = none := by
  match s, hne with
  | d :: s, _ =>
    obtain ⟨f1, f2, f3, _⟩ := digit_facts d (hd d List.mem_cons_self)
    rw [List.cons_append, stoi_digit_head d _ f1 f2 f3]
    exact stoiDigits_trailing (d :: s) c hc hd false

/-- a third operand -/
theorem reject_third_operand (st : HandlerState) (hp : st.positional = 2) (v : Bytes) :
    (processOption st (OPERAND, v)).toOption = none := by
  rw [processOption_operand, operand, if_pos hp]; rfl

theorem third_operand_rejected (t : List Opt) (a b c : Bytes)
    (ha : a.head? ≠ some MINUS) (hb : b.head? ≠ some MINUS) (hc : c.head? ≠ some MINUS) (env : Env) :
    (commandLine t [a, b, c] env).toOption = none := by
  apply commandLine_handler_error
  rw [parse_operand t a _ (.inl ha), parse_operand t b _ (.inl hb), parse_operand t c _ (.inl hc)]
  rfl

end PatchModel.C19

#print axioms PatchModel.C19.stoi_leading_space
#print axioms PatchModel.C19.stoi_accepts_only_numbers
#print axioms PatchModel.C19.reject_not_a_number
#print axioms PatchModel.C19.reject_leading_space

