/-
  C05 end to end for a file CREATION: the creating patch text (`--- /dev/null`, `+++ name`, `@@ -0,0 +1,n @@`, the lines with `+`:
  `C01Create.newFileBareText name new`) applied with `-R` to a tree in which `name` holds exactly the lines `new`.

  What the executable model does (found by evaluation first): with `-E` in force (`o.removeEmptyFiles = .yes`, what `apply_defaults`
  makes of the option left alone outside POSIX mode) the file is REMOVED: exit status 0, no node at `name`, every other path as it
  was, `unlink name` is all that is done to the tree, no reject.  WITHOUT `-E` in force (`removeEmptyFiles` as in `defaultOptions`,
  before `apply_defaults`; or `--posix`) the file is kept, EMPTY, with its mode (`#guard` below).

  `C05_run_uncreate`: the run; `C05_roundtrip_create`: `C01_run_newfile_bare`, then this: every path of the tree is as it was.

  Side conditions: the operand names the file or there is none (`guess_filepath` finds the new name of the header), `-R`, `-E` in force, no `-b`, `-o`, `-D`, `--verbose`; the name
  in the working directory, alone on its line (`bareFlatName`); no `-p` or `-p0`; root; the file is writable; `NewFile new`.
-/
import PatchModel.Props.C01RunCreate
import PatchModel.Props.C01RunDelete
import PatchModel.Props.C05Run
import PatchModel.Lemmas.RunRc
namespace PatchModel.C05RunCreate
open PatchModel PatchModel.Section PatchModel.Run PatchModel.DriverFacts PatchModel.RunB PatchModel.RunG PatchModel.RunDl
  PatchModel.RunCr PatchModel.RunRc PatchModel.C01 PatchModel.C01Create

/-- the options: `patch -R [-u] [-pN] [-F n] -i pname name`, `-E` in force -/
structure UncreateOpts (o : Options) (name pname : Bytes) : Prop where
  target : o.fileToPatch = name ∨ o.fileToPatch = []
  noOut : o.outFile = []
  noBackup : o.saveBackup = false
  reverse : o.reverse = true
  noDefine : o.define = []
  fuzz : 0 ≤ o.maxFuzz
  quiet : o.verbose = false
  removeEmpty : o.removeEmptyFiles = .yes
  file : FileOpts o pname

section
variable {o : Options} {s0 : DState} {name pname bytes : Bytes} {m pm : Nat} {new : List Line}

theorem bareDiff_newFile (hn : bareFlatName name) (hnew : NewFile new) : BareDiff [] devNull name (newFileHunk new) [] :=
  { fillerInert := by simp, fillerPlain := by simp, oldName := bareName_devNull, newName := bareName_of_flat hn,
    writable := (createHunks_newFile hnew).writable, creates := (createHunks_newFile hnew).creates }

/-- header scan, body parse and the applier's verdict (called with `reverse := true`) for the one section of the text -/
theorem rcSection_of_text (ho : UncreateOpts o name pname) (hstrip : o.strip ≤ 0) (hs0 : CleanStart s0) (hn : bareFlatName name) (hnew : NewFile new)
    (hlines : splitLines bytes = new) (htarget : s0.fs.lookup name = some (.file bytes m)) (hw : m &&& writeMask ≠ 0) :
    ∃ patch0 patch2 patch3 info par1 par2 r,
      RcSection o (forced o) (loopStart s0 (nameLines [] devNull name [newFileHunk new])) name bytes m patch0 patch2 patch3
        info par1 par2 r ∧ par2.s.eof = true := by
  have hd : CreateLines o [] devNull name _ _ (newFileHunk new) [] := createLines_of_bare (bareDiff_newFile hn hnew)
  have hfmt : forced o = .unknown ∨ forced o = .unified := by
    unfold forced; split
    · exact Or.inr rfl
    · exact Or.inl rfl
  obtain ⟨ot, hof⟩ := hd.oldLine
  obtain ⟨nt, hnf⟩ := hd.newLine
  obtain ⟨patch0, info, par1, par2, hhdr, hf, hop, hpre, _, hnm, hop0, hnp0, hidx, hbody, heof⟩ :=
    parse_nameLines_op o.strip (forced o) hfmt [] devNull name _ _ (newFileHunk new) [] 1 hd.fillerInert (by simp) hof hnf
      hd.writable
  have hadd : patch0.operation = .add := by
    rw [hop]; unfold Header.inferredOp; rw [if_neg hd.creates.2, if_pos hd.creates.1]
  have hrev : (applyOptsOf o).reverse = true := ho.reverse
  have hx : C05.NoReversedD2 [] [newFileHunk new] := by
    intro h hm
    rw [List.mem_singleton] at hm
    rw [hm]
    intro hc
    exact (createHunks_newFile hnew).creates.2 hc.2.1
  obtain ⟨r, hap, hrout, _, hrfail, hrperf, hrskip, hrmsgs, hrtty, hrpatch⟩ :=
    C05.C05_core [] [newFileHunk new] { patch0 with hunks := [newFileHunk new] } (applyOptsOf o)
      (Option.map (fun l => List.map (fun a => !List.isEmpty a && List.head? a != some 110) l) s0.tty)
      (newFileHunk_valid hnew) hx rfl ho.noDefine hrev ho.fuzz
  rw [splice_newFileHunk] at hap
  have hout : r.out = [] := List.map_eq_nil_iff.1 hrout
  refine ⟨patch0, { patch0 with hunks := [newFileHunk new] }, reversePatch { patch0 with hunks := [newFileHunk new] },
    info, par1, par2, r, ?_, heof⟩
  exact {
    target := by
      rcases ho.target with h | h
      · exact Or.inl h
      · refine Or.inr ⟨h, ?_, ?_, flat_ne_devNull hn.2.1⟩
        · rw [hop0]; exact C01RunDelete.stripped_devNull o.strip
        · rw [hnp0]; exact C01RunDelete.stripped_flat hn.2.1 hstrip,
    noOut := ho.noOut, noBackup := ho.noBackup, removeEmpty := ho.removeEmpty, pathNe := hn.1,
    flat := dirPrefixes_flat hn.2.1, cwd := hs0.cwd, hdr := hhdr, fmt := Or.inl hf, op := hadd, pre := hpre, body := hbody,
    fmt3 := rfl,
    op3 := by show (match patch0.operation with | .delete => Operation.add | .add => .delete | o => o) = .delete
              rw [hadd],
    file := htarget, writable := hw, root := hs0.root, noFault := hs0.noFault,
    apply := by rw [hlines]; exact hap,
    failed := hrfail, perfect := hrperf, skipped := hrskip, msgs := hrmsgs ho.quiet, ttyLeft := hrtty,
    patch := hrpatch,
    empty := by rw [hout]; rfl }

end

/-- **C05, end to end, a creation undone.**  `patch -R -i pname name` (`-E` in force; no `-p`, or `-p0`) in a tree in which `name`
    holds exactly the lines `new` and the patch file `pname` = `--- /dev/null`, `+++ name`, `@@ -0,0 +1,n @@`, the lines with `+`:
    exit status 0; there is NO node at `name` afterwards; the tree is the old tree without `name` — every other path is as it was, so
    there is no reject file and no backup —; the run did `unlink name` and nothing else to the tree; the log is exactly
    "patching file name"; no reject file and no backup is recorded. -/
theorem C05_run_uncreate (o : Options) (s0 : DState) (name pname bytes : Bytes) (m pm : Nat) (new : List Line)
    (ho : UncreateOpts o name pname) (hstrip : o.strip ≤ 0) (hreal : o.dryRun = false) (hs0 : CleanStart s0)
    (hn : bareFlatName name) (hpn : pname ≠ []) (hpd : pname ≠ [45]) (hnew : NewFile new)
    (hlines : splitLines bytes = new) (htarget : s0.fs.lookup name = some (.file bytes m)) (hw : m &&& writeMask ≠ 0)
    (hpatch : s0.fs.lookup pname = some (.file (newFileBareText name new) pm)) :
    (runPatch o s0).1 = 0 ∧
    (runPatch o s0).2.fs.lookup name = none ∧
    (∀ q, q ≠ name → (runPatch o s0).2.fs.lookup q = s0.fs.lookup q) ∧
    (runPatch o s0).2.fs = s0.fs.erase name ∧
    (runPatch o s0).2.trace = s0.trace ++ [.tmpCreate, .tmpUnlink, .tmpCreate, .tmpUnlink] ++ [.unlink name] ∧
    (runPatch o s0).2.out = s0.out ++ [.file name false] ∧
    (runPatch o s0).2.rejWritten = s0.rejWritten ∧ (runPatch o s0).2.backedUp = s0.backedUp := by
  obtain ⟨patch0, patch2, patch3, info, par1, par2, r, H, heof⟩ := rcSection_of_text ho hstrip hs0 hn hnew hlines htarget hw
  obtain ⟨s', hrun, hfs, htr, hrw, hdone⟩ := processSection_uncreate H hreal
  have hsplit : splitLines (newFileBareText name new) = nameLines [] devNull name [newFileHunk new] :=
    splitLines_barePatchText (filler := []) (bareDiff_newFile hn hnew)
  have hR := C01RunDelete.runPatch_of_one ho.file hs0 hpn hpd hpatch s' par2 (by rw [hsplit]; exact hrun) hdone.par heof
    (by rw [hsplit]; exact hdone.dWrites) (by rw [hsplit]; exact hdone.dRemovals)
  have hhf : s'.hadFailure = false := by rw [hdone.hadFailure]; exact hs0.noFailure
  rw [hR, hhf]
  refine ⟨rfl, ?_, ?_, hfs, ?_, hdone.out, hrw, hdone.backedUp⟩
  · show s'.fs.lookup name = none
    rw [hfs]; exact Fs.lookup_erase_self _ _
  · intro q hq
    show s'.fs.lookup q = _
    rw [hfs]; exact Fs.lookup_erase_ne _ _ _ hq
  · show s'.trace = _
    rw [htr]; show s0.trace ++ _ ++ _ ++ _ = _; simp

/-- **the round trip, two whole runs**: `patch -i pname` (options `o`: the file is created), then `patch -R -i pname name` (options
    `oR`, `-E` in force) in the state which the first run left: both exit with status 0 and EVERY path of the tree is as it was at the
    very start (nothing at `name`).  `hrt`: the file written by the first run is read back as the lines written; `hwm`: the mode
    a new file gets (`0666 & ~umask`) has a write bit. -/
theorem C05_roundtrip_create (o oR : Options) (s0 : DState) (name pname : Bytes) (pm : Nat) (new : List Line)
    (ho : GuessOpts o pname) (hoR : UncreateOpts oR name pname) (hstrip : o.strip ≤ 0) (hstripR : oR.strip ≤ 0)
    (hreal : o.dryRun = false) (hrealR : oR.dryRun = false) (hs0 : CleanStart s0)
    (hn : bareFlatName name) (hpn : pname ≠ []) (hpd : pname ≠ [45]) (hne : pname ≠ name)
    (habsent : s0.fs.lookup name = none) (hnoempty : s0.fs.lookup [] = none)
    (hpatch : s0.fs.lookup pname = some (.file (newFileBareText name new) pm)) (hnew : NewFile new)
    (hwm : (0o666 - (0o666 &&& s0.fs.umask)) &&& writeMask ≠ 0)
    (hrt : splitLines (Render.renderText o.newlineOutput new) = new) :
    (runPatch o s0).1 = 0 ∧ (runPatch oR (runPatch o s0).2).1 = 0 ∧
    ∀ q, (runPatch oR (runPatch o s0).2).2.fs.lookup q = s0.fs.lookup q := by
  have hbd := bareDiff_newFile (name := name) hn hnew
  have hsplit : splitLines (newFileBareText name new) = nameLines [] devNull name [newFileHunk new] :=
    splitLines_barePatchText (filler := []) hbd
  have ht : TargetRead o (Header.stripped devNull o.strip) (Header.stripped name o.strip) name :=
    targetRead_of (Or.inr ⟨ho.noOperand, rfl, flat_ne_devNull hn.2.1, stripPath_flat hn.2.1 hstrip, flat_ne_devNull hn.2.1⟩)
  obtain ⟨patch0, info, par1, par2, r, H, hrender, heof⟩ :=
    createSection_of_lines (createOpts_of_guess ho) ht (createStart_of_clean hs0) hn.1 habsent (fun _ => hnoempty)
      (createLines_of_bare hbd) (newFileHunk_valid hnew)
  obtain ⟨s1, hrun, hfs, _, hdone⟩ := processSection_create H hreal (dirsThere_flat s0.fs hn.2.1)
    (dirExists_parent_of_noSlash s0.fs hn.2.1)
  have hrun1 := runPatch_of_create_section (createOpts_of_guess ho).file (createStart_of_clean hs0) hpn hpd _ _ hsplit hpatch
    (Or.inl hs0.root) s1 par2 false hrun hdone heof
  rw [hrender, splice_newFileHunk] at hfs
  have hclean1 : CleanStart s1 := C05.cleanStart_of_done hs0 hdone (Or.inl hfs)
  have htarget1 : s1.fs.lookup name =
      some (.file (Render.renderText o.newlineOutput new) (0o666 - (0o666 &&& s0.fs.umask))) := by
    rw [hfs]; exact Fs.lookup_set_self _ _ _
  have hpatch1 : s1.fs.lookup pname = some (.file (newFileBareText name new) pm) := by
    rw [hfs, Fs.lookup_set_ne _ _ _ _ hne]; exact hpatch
  obtain ⟨h2, _, _, hfs2, _⟩ := C05_run_uncreate oR s1 name pname _ _ pm new hoR hstripR hrealR hclean1 hn hpn hpd hnew hrt htarget1 hwm
    hpatch1
  rw [hrun1]
  refine ⟨rfl, h2, ?_⟩
  intro q
  show (runPatch oR s1).2.fs.lookup q = _
  rw [hfs2]
  by_cases hq : q = name
  · rw [hq, Fs.lookup_erase_self, habsent]
  · rw [Fs.lookup_erase_ne _ _ _ hq, hfs, Fs.lookup_set_ne _ _ _ _ hq]

/-! ### a concrete instance: every hypothesis discharged by `decide` / `rfl`; the executable model run on the same state -/
namespace Instance
open NewInstance

def oR : Options := { NewInstance.o with fileToPatch := name, reverse := true, removeEmptyFiles := .yes }
/-- the tree after the creation: `n` holds "hello\n" -/
def sR : DState := { fs := { nodes := [(name, .file [104, 101, 108, 108, 111, 10] 0o644), (pname, .file (newFileBareText name new) 0o644)] } }
#guard sR.fs.lookup name == some (.file (str "hello\n") 0o644)
/-- the tree before the creation -/
def sB : DState := { fs := { nodes := [(pname, .file (newFileBareText name new) 0o644)] } }

theorem uncreateOpts : UncreateOpts oR name pname :=
  { target := Or.inl rfl, noOut := rfl, noBackup := rfl, reverse := rfl, noDefine := rfl, fuzz := by decide, quiet := rfl,
    removeEmpty := rfl,
    file := { patchFile := rfl, noDir := rfl, noHelp := rfl, noVersion := rfl, noContext := rfl, noNormal := rfl, noEd := rfl } }

def oG : Options := { oR with fileToPatch := [] }
theorem uncreateOptsG : UncreateOpts oG name pname :=
  { target := Or.inr rfl, noOut := rfl, noBackup := rfl, reverse := rfl, noDefine := rfl, fuzz := by decide, quiet := rfl,
    removeEmpty := rfl,
    file := { patchFile := rfl, noDir := rfl, noHelp := rfl, noVersion := rfl, noContext := rfl, noNormal := rfl, noEd := rfl } }

/-- without the operand -/
theorem applies_guess : (runPatch oG sR).1 = 0 ∧ (runPatch oG sR).2.fs.lookup name = none :=
  let h := C05_run_uncreate oG sR name pname [104, 101, 108, 108, 111, 10] 0o644 0o644 new uncreateOptsG (by decide) rfl
    ⟨rfl, rfl, rfl, rfl, rfl, rfl⟩ (by decide) (by decide) (by decide) newFile (by decide) rfl (by decide) rfl
  ⟨h.1, h.2.1⟩

/-- the theorem applies: what it promises is that `n` is gone and the patch file is still there -/
theorem applies :
    (runPatch oR sR).1 = 0 ∧ (runPatch oR sR).2.fs.lookup name = none ∧
    (runPatch oR sR).2.fs.lookup pname = some (.file (newFileBareText name new) 0o644) ∧
    (runPatch oR sR).2.trace = [.tmpCreate, .tmpUnlink, .tmpCreate, .tmpUnlink, .unlink name] ∧
    (runPatch oR sR).2.rejWritten = [] := by
  have h := C05_run_uncreate oR sR name pname [104, 101, 108, 108, 111, 10] 0o644 0o644 new uncreateOpts (by decide) rfl ⟨rfl, rfl, rfl, rfl, rfl, rfl⟩
    (by decide) (by decide) (by decide) newFile (by decide) rfl (by decide) rfl
  obtain ⟨h1, h2, h3, _, h5, _, h7, _⟩ := h
  exact ⟨h1, h2, (h3 pname (by decide)).trans rfl, h5, h7⟩

/-- the round trip applies: after creation and `-R` every path is as before -/
theorem roundtrip_applies :
    (runPatch NewInstance.o sB).1 = 0 ∧ (runPatch oR (runPatch NewInstance.o sB).2).1 = 0 ∧
    ∀ q, (runPatch oR (runPatch NewInstance.o sB).2).2.fs.lookup q = sB.fs.lookup q :=
  C05_roundtrip_create NewInstance.o oR sB name pname 0o644 new guessOpts uncreateOpts (by decide) (by decide) rfl rfl
    ⟨rfl, rfl, rfl, rfl, rfl, rfl⟩ (by decide) (by decide) (by decide) (by decide) rfl rfl rfl newFile (by decide) (by decide)

-- the executable model, independently
#guard (runPatch oR sR).1 == 0
#guard (runPatch oR sR).2.fs.lookup name == none
#guard (runPatch oR sR).2.fs.nodes.length == 1
#guard (runPatch oR sR).2.trace == [.tmpCreate, .tmpUnlink, .tmpCreate, .tmpUnlink, .unlink name]
#guard (runPatch oR sR).2.out == [.file name false]
#guard (runPatch oR sR).2.hadFailure == false
-- without the operand the file is found through the new name of the header: the same result
#guard (runPatch { oR with fileToPatch := [] } sR).1 == 0 && (runPatch { oR with fileToPatch := [] } sR).2.fs.lookup name == none
-- WITHOUT `-E` in force (`removeEmptyFiles` left as in `defaultOptions`): the file is kept, EMPTY, with its mode
#guard (runPatch { oR with removeEmptyFiles := NewInstance.o.removeEmptyFiles } sR).1 == 0 &&
  (runPatch { oR with removeEmptyFiles := NewInstance.o.removeEmptyFiles } sR).2.fs.lookup name == some (.file [] 0o644)
-- the round trip on the executable model
#guard (runPatch oR (runPatch NewInstance.o sB).2).2.fs.nodes == sB.fs.nodes

end Instance

end PatchModel.C05RunCreate
