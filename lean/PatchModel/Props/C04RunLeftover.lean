/-
  C04 ("the exit status tells the truth") end to end for a REMOVAL patch whose target holds MORE than the patch removes — the whole
  modelled program (`runPatch`) on the TEXT of the diff `--- f`, `+++ /dev/null`, `@@ -1,n +0,0 @@`, `-`-lines
  (`C01RunDelete.delTextT f ta tb old`), `-E` in force, no backup, on a tree where `f` holds the lines `old ++ extra`.

  `C04_run_delete_leftover(_gen)`: the hunk applies at line 1 (nothing is rejected, no reject file), but what is left (`extra`,
  rendered: `Render.renderText o.newlineOutput extra`, not empty) is not nothing: exit status 1; `f` is NOT removed — it is a
  regular file that holds exactly what is left, with its mode `m`; every other path is as it was; the log is "patching file f",
  "not deleting file f as content differs from patch"; the run did `creat f`, `write f …`, `chmod f m` after the four operations on
  anonymous temporaries and nothing else; no reject, no backup is recorded.

  Side conditions: those of `C01RunDelete.C01_run_delete` (flat name, `o.strip ≤ 0`, root, no `-b`, no `--dry-run`), and `hleft`:
  what is left renders to at least one byte (true whenever `extra` has a line that is not empty or is terminated).
-/
import PatchModel.Props.C01RunDelete
import PatchModel.Lemmas.RunDlL
namespace PatchModel.C04RunLeftover
open PatchModel PatchModel.Section PatchModel.Run PatchModel.DriverFacts PatchModel.RunB PatchModel.RunG PatchModel.RunDl
  PatchModel.RunDlL PatchModel.C01 PatchModel.C01RunDelete

section
variable {o : Options} {s0 : DState} {f pname bytes : Bytes} {ta tb : Option Bytes} {m pm : Nat} {old extra : List Line}

/-- header scan, body parse and the applier's verdict for the one section of the diff, the file holding `old ++ extra` -/
theorem leftSection_of_text (ho : DelOpts o f pname) (hnb : o.saveBackup = false) (hstrip : o.strip ≤ 0) (hs0 : CleanStart s0)
    (hd : DelHeader f ta tb) (hlines : splitLines bytes = old ++ extra) (hne : old ≠ [])
    (hleft : (Render.renderText o.newlineOutput extra).isEmpty = false) (hwr : (delHunk old).writable = true)
    (htarget : s0.fs.lookup f = some (.file bytes m)) (hw : m &&& writeMask ≠ 0) :
    ∃ info par1 par2 r,
      LeftSection o (forced o) (loopStart s0 (bareLines f devNull ta tb [delHunk old])) f bytes m (delPatch f ta tb)
        { delPatch f ta tb with hunks := [delHunk old] } info par1 par2 r ∧ par2.s.eof = true ∧
      render o.newlineOutput r.out = Render.renderText o.newlineOutput extra := by
  obtain ⟨info, par1, par2, hhdr, hbody, heof⟩ := parse_delLines (o := o) hstrip hd hwr
  have hrev : (applyOptsOf o).reverse = false := ho.noReverse
  obtain ⟨r, hap, hrout, _, hrfail, _, hrperf, hrskip, _, hrmsgs, hrtty, hrpatch⟩ :=
    applyPatch_valid (old ++ extra) [delHunk old] { delPatch f ta tb with hunks := [delHunk old] } (applyOptsOf o)
      (Option.map (fun l => List.map (fun a => !List.isEmpty a && List.head? a != some 110) l) s0.tty)
      (valid_delHunk_more old extra hne) (by rw [hrev]; rfl) ho.noDefine ho.fuzz
  rw [splice_delHunk_more old extra hne] at hrout
  have hren : render o.newlineOutput r.out = Render.renderText o.newlineOutput extra :=
    render_of_lines (ao := applyOptsOf o) o.newlineOutput ho.noDefine hap hrout
  refine ⟨info, par1, par2, r, ?_, heof, hren⟩
  exact {
    target := by
      rcases ho.target with h | h
      · exact Or.inl h
      · exact Or.inr ⟨h, rfl, flat_ne_devNull hd.flat⟩
    noOut := ho.noOut, noBackup := hnb, removeEmpty := ho.removeEmpty, pathNe := hd.ne,
    cwd := hs0.cwd, hdr := hhdr, fmt := Or.inl rfl, op := rfl, pre := rfl, body := hbody, fmt2 := rfl, op2 := rfl,
    newMode2 := rfl, newNull := rfl,
    file := htarget, writable := hw, root := hs0.root, noFault := hs0.noFault,
    apply := by rw [hlines]; exact hap,
    failed := hrfail, perfect := hrperf, skipped := hrskip, msgs := hrmsgs ho.quiet, ttyLeft := hrtty,
    patch := by rw [hrpatch, hrev]; rfl,
    nonEmpty := by rw [hren]; exact hleft }

/-- **C04, the whole program on the text of a plain unified diff that removes the file, the file holding more than the diff
    removes** — the header lines with or without time stamps (`DelHeader`) -/
theorem C04_run_delete_leftover_gen (ho : DelOpts o f pname) (hnb : o.saveBackup = false) (hstrip : o.strip ≤ 0)
    (hreal : o.dryRun = false) (hs0 : CleanStart s0) (hd : DelHeader f ta tb) (hpn : pname ≠ []) (hpd : pname ≠ [45])
    (hlines : splitLines bytes = old ++ extra) (hne : old ≠ [])
    (hleft : (Render.renderText o.newlineOutput extra).isEmpty = false) (hwr : (delHunk old).writable = true)
    (htarget : s0.fs.lookup f = some (.file bytes m)) (hw : m &&& writeMask ≠ 0)
    (hpatch : s0.fs.lookup pname = some (.file (delTextT f ta tb old) pm)) :
    (runPatch o s0).1 = 1 ∧
    (runPatch o s0).2.fs.lookup f = some (.file (Render.renderText o.newlineOutput extra) m) ∧
    (∀ q, q ≠ f → (runPatch o s0).2.fs.lookup q = s0.fs.lookup q) ∧
    (runPatch o s0).2.fs = s0.fs.set f (.file (Render.renderText o.newlineOutput extra) m) ∧
    (runPatch o s0).2.trace = s0.trace ++ tmpOps ++ resultOps f (Render.renderText o.newlineOutput extra) m ∧
    (runPatch o s0).2.out = s0.out ++ [.file f false, .notDeleting] ∧
    (runPatch o s0).2.rejWritten = s0.rejWritten ∧ (runPatch o s0).2.backedUp = s0.backedUp := by
  obtain ⟨info, par1, par2, r, H, heof, hren⟩ := leftSection_of_text ho hnb hstrip hs0 hd hlines hne hleft hwr htarget hw
  obtain ⟨s', hrun, hfs, htr, hrw, hbu, hhf, hout, hdone⟩ := processSection_leftover H hreal
    (dirExists_parent_of_noSlash s0.fs hd.flat)
  have hsplit := splitLines_delText (old := old) hd hwr
  have hR := runPatch_of_one ho.file hs0 hpn hpd hpatch s' par2 (by rw [hsplit]; exact hrun) hdone.par heof
    (by rw [hsplit]; exact hdone.dWrites) (by rw [hsplit]; exact hdone.dRemovals)
  rw [hR, hhf]
  rw [hren] at hfs htr
  refine ⟨rfl, ?_, ?_, hfs, ?_, hout, hrw, hbu⟩
  · show s'.fs.lookup f = _
    rw [hfs]; exact Fs.lookup_set_self _ _ _
  · intro q hq
    show s'.fs.lookup q = _
    rw [hfs]; exact Fs.lookup_set_ne _ _ _ _ hq
  · show s'.trace = _
    rw [htr]; show s0.trace ++ _ ++ _ ++ _ = _; simp

end

/-- **C04, end to end, a removal whose file holds more than the diff removes.**  `patch -i pname [f]` (`-E` in force; no `-p`, or
    `-p0`; no `-b`) in a tree with the file `f` (its lines: `old ++ extra`, `old` not empty, `extra` rendering to at least one
    byte) and the patch file `pname` = `--- f`, `+++ /dev/null`, `@@ -1,n +0,0 @@` and every line of `old` with `-` in front:
    **exit status 1**; `f` is still there: a regular file that holds exactly what is left (`extra`, rendered) with its mode `m`;
    every other path is as it was, so there is no reject file and no backup file; the log is "patching file f", "not deleting
    file f as content differs from patch". -/
theorem C04_run_delete_leftover (o : Options) (s0 : DState) (f pname bytes : Bytes) (old extra : List Line) (m pm : Nat)
    (ho : DelOpts o f pname) (hnb : o.saveBackup = false) (hstrip : o.strip ≤ 0) (hreal : o.dryRun = false)
    (hs0 : CleanStart s0) (hf : delName f) (hpn : pname ≠ []) (hpd : pname ≠ [45])
    (hlines : splitLines bytes = old ++ extra) (hne : old ≠ [])
    (hleft : (Render.renderText o.newlineOutput extra).isEmpty = false) (hwr : (delHunk old).writable = true)
    (htarget : s0.fs.lookup f = some (.file bytes m)) (hw : m &&& writeMask ≠ 0)
    (hpatch : s0.fs.lookup pname = some (.file (delText f old) pm)) :
    (runPatch o s0).1 = 1 ∧
    (runPatch o s0).2.fs.lookup f = some (.file (Render.renderText o.newlineOutput extra) m) ∧
    (∀ q, q ≠ f → (runPatch o s0).2.fs.lookup q = s0.fs.lookup q) ∧
    (runPatch o s0).2.fs = s0.fs.set f (.file (Render.renderText o.newlineOutput extra) m) ∧
    (runPatch o s0).2.trace = s0.trace ++ tmpOps ++ resultOps f (Render.renderText o.newlineOutput extra) m ∧
    (runPatch o s0).2.out = s0.out ++ [.file f false, .notDeleting] ∧
    (runPatch o s0).2.rejWritten = s0.rejWritten ∧ (runPatch o s0).2.backedUp = s0.backedUp :=
  C04_run_delete_leftover_gen ho hnb hstrip hreal hs0 (delHeader_bare hf) hpn hpd hlines hne hleft hwr htarget hw hpatch

/-! ### non-vacuity: a concrete run

`f` = "a\nb\nc\n" (mode 0644), `p.diff` = "--- f\n+++ /dev/null\n@@ -1,2 +0,0 @@\n-a\n-b\n", options `-i p.diff` as `apply_defaults` leaves
them.  Every hypothesis is discharged in the kernel; independently the executable model is run (`#guard`). -/
namespace Instance
open PatchModel.C01RunDelete.DelInstance (f pname old o delOpts)

def bytes : Bytes := [97, 10, 98, 10, 99, 10]              -- "a\nb\nc\n"
def extra : List Line := [⟨[99], .lf⟩]
def left : Bytes := [99, 10]                                -- "c\n"
def s2 : DState := { fs := { nodes := [(f, .file bytes 0o644), (pname, .file (delText f old) 0o644)] } }

#guard bytes == str "a\nb\nc\n" && splitLines bytes == old ++ extra && left == str "c\n"
#guard Render.renderText o.newlineOutput extra == left

/-- **`C04_run_delete_leftover` applies** (all hypotheses discharged in the kernel): exit status 1, `f` holds "c\n" with mode 0644,
    nothing else differs, and the log -/
theorem applies :
    (runPatch o s2).1 = 1 ∧
    (runPatch o s2).2.fs.lookup f = some (.file left 0o644) ∧
    (∀ q, q ≠ f → (runPatch o s2).2.fs.lookup q = s2.fs.lookup q) ∧
    (runPatch o s2).2.trace = [.tmpCreate, .tmpUnlink, .tmpCreate, .tmpUnlink, .creat f, .write f left, .chmod f 0o644] ∧
    (runPatch o s2).2.out = [.file f false, .notDeleting] ∧
    (runPatch o s2).2.rejWritten = [] ∧ (runPatch o s2).2.backedUp = [] := by
  have e : Render.renderText o.newlineOutput extra = left := by decide
  have h := C04_run_delete_leftover o s2 f pname bytes old extra 0o644 0o644 delOpts rfl (by decide) rfl
    ⟨rfl, rfl, rfl, rfl, rfl, rfl⟩ (by decide) (by decide) (by decide) (by decide) (by decide) (by decide) (by decide) rfl
    (by decide) rfl
  rw [e] at h
  exact ⟨h.1, h.2.1, h.2.2.1, h.2.2.2.2.1, h.2.2.2.2.2.1, h.2.2.2.2.2.2.1, h.2.2.2.2.2.2.2⟩

-- independently: the executable model on the same state (executable tests)
#guard (runPatch o s2).1 == 1
#guard (runPatch o s2).2.fs.lookup f == some (.file (str "c\n") 0o644) &&
  (runPatch o s2).2.fs.lookup pname == some (.file (delText f old) 0o644) && (runPatch o s2).2.fs.nodes.length == 2
#guard (runPatch o s2).2.trace == [.tmpCreate, .tmpUnlink, .tmpCreate, .tmpUnlink, .creat f, .write f left, .chmod f 0o644]
#guard (runPatch o s2).2.out == [.file f false, .notDeleting]
#guard (runPatch o s2).2.hadFailure && (runPatch o s2).2.rejWritten.isEmpty && (runPatch o s2).2.backedUp.isEmpty
-- with the operand `f`: the same
#guard (runPatch { o with fileToPatch := f } s2).1 == 1 &&
  (runPatch { o with fileToPatch := f } s2).2.fs.lookup f == some (.file (str "c\n") 0o644)
-- under --dry-run (not covered): exit status 1 as well, the tree untouched
#guard (runPatch { o with dryRun := true } s2).1 == 1 && (runPatch { o with dryRun := true } s2).2.fs.nodes == s2.fs.nodes

end Instance

end PatchModel.C04RunLeftover
