/-
  C09 end to end — an abort caused by the TEXT of the patch leaves every file either in its original state or in the complete
  patched state of a fully processed section.  The whole modelled program (`runPatch`) on a patch file with several sections,

      patch [-u] [-pN] [-F n] [--newline-output=…] -i pname            (no file operand: names come from the headers)

  whose first sections are plain unified diffs (as in `C11.C11_run_sections`: pairwise distinct flat names, each a valid script of
  its target) and whose LAST section has a sound header (`--- g`, `+++ g`, the range line of a first hunk, one good body line) but a
  BODY on which `parse_unified_patch` throws.  Then

    * the exit status is 2;
    * the target of every complete section holds its complete new content, with its mode;
    * the target `g` of the damaged section holds exactly its original bytes, with its mode;
    * no other path of the tree differs (in particular: no reject file, no backup, no temporary left).

  Statements:
    * `C09_run_sections` — n complete sections, then the damaged one; the damage is the hypothesis `BadSec.Ok.bad`:
      `∀ n, parseUnifiedBody { s := { rest := b.body }, lineNo := n } = .error e` (the body parser throws `e` on what follows the
      header, whatever its line counter says — the counter is not looked at by the parser, but after earlier sections its value is
      not tracked by the lemmas about them);
    * `C09_run_two` — the case of two sections `f`, `g`;
    * two closed classes of damage, on the BYTES of the patch file: the second section is a genuine unified diff for `g` with the
      hunks `hs2 ++ [hd]`, of which the last hunk has lost all but its first `k` body lines (`RunA.cutHunk`), and
        - `C09_run_two_truncated` — the file ends there (`std::invalid_argument`: the counts of the range line are not met);
        - `C09_run_two_garbled` — a line follows that begins with a byte other than ' ', '+', '-', '\' (and is not empty), then
          anything (`parser_error`).

  Side conditions beyond those of `C11_run_two`, and why:
    * `hs2 = [] → 0 < k` — REQUIRED: with NO good body line after the first range line the header scan does not recognise a
      unified diff at all (`parse_patch_header` wants a range line followed by a line that begins with ' ', '+' or '-'); the rest of
      the stream is then "trailing garbage" after the first patch: the run ends with exit status 0, silently, `g` untouched
      (`NoBodyLine` below, evaluated).  Still conforming to C09 (every file original or complete), but not an abort.
    * the garbage line must not begin with a backslash — REQUIRED for `parser_error` as the outcome: directly after the last line
      of a side of the hunk a `\` line IS the "\ No newline at end of file" marker, whatever follows the backslash (`Backslash`
      below, evaluated: the line is swallowed and the run may well succeed).  An EMPTY line is an empty context line.
    * `g` writable, regular, there: scope (the same plain path as `C11_run_two`); distinct names: scope.
    * the text is cut at a line boundary (every line that is there has its terminator).
-/
import PatchModel.Lemmas.RunA
import PatchModel.Props.C11Concat
namespace PatchModel.C09Run
open PatchModel PatchModel.Concat PatchModel.C01 PatchModel.Run PatchModel.Unified PatchModel.DriverFacts PatchModel.RunA
open PatchModel.C11 (job_ok)

section
variable {o : Options} {s0 : DState} {pname : Bytes} {pm : Nat}

/-- **C09, n complete sections and then a section whose body the parser refuses.**  Exit status 2; every target of a complete
    section holds its result (old mode kept); the target of the damaged section is exactly as it was; no other path differs. -/
theorem C09_run_sections (ho : GuessOpts o pname) (hreal : o.dryRun = false) (hs0 : CleanStart s0)
    (hpn : pname ≠ []) (hpd : pname ≠ [45]) (js : List Job) (b : BadSec) (bodyBytes : Bytes) (e : Exn)
    (name bytes : Bytes) (m : Nat)
    (hpatch : s0.fs.lookup pname = some (.file (badStreamText (js.map (·.sec)) b bodyBytes) pm))
    (hok : ∀ j ∈ js, j.Ok o) (htext : ∀ j ∈ js, j.sec.TextOk)
    (htg : ∀ j ∈ js, s0.fs.lookup j.name = some (.file j.bytes j.m)) (hpw : js.Pairwise (fun a b => a.name ≠ b.name))
    (hm : ∀ j ∈ js.drop 1, NoMarkerHead j.sec.filler)
    (hb : b.Ok e) (hbt : b.TextOk) (hbm : js ≠ [] → NoMarkerHead b.filler) (hbody : splitLines bodyBytes = b.body)
    (hnamed : Header.stripped b.old o.strip = name) (hn : flatName name)
    (hnotin : ∀ j ∈ js, name ≠ j.name) (htarget : s0.fs.lookup name = some (.file bytes m)) (hw : m &&& writeMask ≠ 0) :
    (runPatch o s0).1 = 2 ∧
    (∀ j ∈ js, (runPatch o s0).2.fs.lookup j.name =
      some (.file (Render.renderText o.newlineOutput (splice (splitLines j.bytes) 0 j.sec.hs)) j.m)) ∧
    (runPatch o s0).2.fs.lookup name = some (.file bytes m) ∧
    (∀ q, (∀ j ∈ js, q ≠ j.name) → (runPatch o s0).2.fs.lookup q = s0.fs.lookup q) := by
  obtain ⟨h1, h2⟩ := runPatch_jobs_abort ho hreal hs0 hpn hpd js b bodyBytes e pm name bytes m hpatch hok htext htg hpw hm hb hbt
    hbm hbody hnamed hn.1 hn.2.1 hnotin htarget hw
  refine ⟨h1, ?_, ?_, ?_⟩
  · intro j hj
    rw [h2, lookup_applyJobs_of_mem o js _ j hj hpw]; rfl
  · rw [h2, lookup_applyJobs_of_not_mem o js _ name hnotin]; exact htarget
  · intro q hq
    rw [h2, lookup_applyJobs_of_not_mem o js _ q hq]

variable {f0 : List Line} {old1 new1 oldt1 newt1 : Bytes} {hs1 : List Hunk}
  {name1 name2 bytes1 bytes2 : Bytes} {m1 m2 : Nat}

/-- **C09, two sections.**  `patch [-pN] -i pname` where `pname` holds a complete unified diff for `name1` followed by a section
    for `name2` (≠ `name1`) with a sound header and a body on which the body parser throws `e` (`hb.bad`): exit status 2, `name1`
    holds its complete new content with its mode, `name2` holds exactly its original bytes and mode, every other path is
    unchanged. -/
theorem C09_run_two (ho : GuessOpts o pname) (hreal : o.dryRun = false) (hs0 : CleanStart s0)
    (hpn : pname ≠ []) (hpd : pname ≠ [45])
    (hd1 : UnifiedDiff f0 old1 new1 oldt1 newt1 hs1)
    (b : BadSec) (bodyBytes : Bytes) (e : Exn) (hb : b.Ok e) (hbt : b.TextOk) (hmk : NoMarkerHead b.filler)
    (hbody : splitLines bodyBytes = b.body)
    (hn1 : flatName name1) (hn2 : flatName name2) (hdist : name1 ≠ name2)
    (hold1 : old1 ≠ devNull) (hstrip1 : stripPath old1 o.strip = name1)
    (hold2 : b.old ≠ devNull) (hstrip2 : stripPath b.old o.strip = name2)
    (ht1 : s0.fs.lookup name1 = some (.file bytes1 m1)) (hw1 : m1 &&& writeMask ≠ 0)
    (ht2 : s0.fs.lookup name2 = some (.file bytes2 m2)) (hw2 : m2 &&& writeMask ≠ 0)
    (hv1 : Valid (splitLines bytes1) 0 0 hs1)
    (hpatch : s0.fs.lookup pname = some (.file (patchText f0 old1 new1 oldt1 newt1 hs1 ++ b.text bodyBytes) pm)) :
    (runPatch o s0).1 = 2 ∧
    (runPatch o s0).2.fs.lookup name1 = some (.file (Render.renderText o.newlineOutput (splice (splitLines bytes1) 0 hs1)) m1) ∧
    (runPatch o s0).2.fs.lookup name2 = some (.file bytes2 m2) ∧
    ∀ q, q ≠ name1 → (runPatch o s0).2.fs.lookup q = s0.fs.lookup q := by
  obtain ⟨k1, t1⟩ := job_ok (o := o) hd1 hn1 hold1 hstrip1 hw1 hv1
  have h := C09_run_sections (pm := pm) ho hreal hs0 hpn hpd
    [⟨⟨f0, old1, new1, oldt1, newt1, hs1⟩, name1, bytes1, m1⟩] b bodyBytes e name2 bytes2 m2
    (by simpa [badStreamText, Sec.text] using hpatch)
    (by intro j hj; simp only [List.mem_singleton] at hj; subst hj; exact k1)
    (by intro j hj; simp only [List.mem_singleton] at hj; subst hj; exact t1)
    (by intro j hj; simp only [List.mem_singleton] at hj; subst hj; exact ht1)
    (by simp) (by simp) hb hbt (fun _ => hmk) hbody
    (by simp only [Header.stripped]; rw [if_neg hold2, hstrip2]) hn2
    (by intro j hj; simp only [List.mem_singleton] at hj; subst hj; exact Ne.symm hdist) ht2 hw2
  obtain ⟨e0, e1, e2, e3⟩ := h
  refine ⟨e0, e1 ⟨⟨f0, old1, new1, oldt1, newt1, hs1⟩, name1, bytes1, m1⟩ (by simp), e2, ?_⟩
  intro q hq
  apply e3
  intro j hj
  simp only [List.mem_singleton] at hj
  subst hj
  exact hq

end

/-! ## two closed classes of damage: the last hunk of the second section is cut short -/

/-- what follows the header of a section with the complete hunks `hs2` and then the hunk `hd` cut after its first `k` body
    lines, `X` following -/
def damagedBody (hs2 : List Hunk) (hd : Hunk) (k : Nat) (X : List Line) : List Line :=
  hs2.flatMap hunkLines ++ ⟨rangeText hd, .lf⟩ :: (bodyLines (hd.lines.take k) ++ X)

/-- such a body begins with the range line of a hunk and a good first body line: what the header scan needs to see -/
theorem damagedBody_shape (hs2 : List Hunk) (hd : Hunk) (k : Nat) (X : List Line) (hw2 : ∀ h ∈ hs2, h.writable = true)
    (hwd : hd.writable = true) (hk0 : hs2 = [] → 0 < k) :
    ∃ h first more, damagedBody hs2 hd k X = ⟨rangeText h, .lf⟩ :: first :: more ∧ Header.rangeOk h ∧
      Header.bodyStart first.content ∧ first.newline ≠ .none ∧
      (changeStart (hs2 ++ [hd]) = true → h.old.start ≠ 0 ∧ h.new.start ≠ 0) := by
  have hbs : ∀ pl : PatchLine, (pl.op = SP ∨ pl.op = PLUS ∨ pl.op = MINUS) → Header.bodyStart (pl.op :: pl.line.content) := by
    intro pl hop
    rcases hop with e | e | e
    · exact Or.inr (Or.inr ((Header.startsWith_one _ _ _ Header.str_sp).2 (by rw [e]; rfl)))
    · exact Or.inl ((Header.startsWith_one _ _ _ Header.str_plus).2 (by rw [e]; rfl))
    · exact Or.inr (Or.inl ((Header.startsWith_one _ _ _ Header.str_minus).2 (by rw [e]; rfl)))
  cases hs2 with
  | nil =>
    obtain ⟨hops, _, _, hne, _⟩ := writable_spec hd hwd
    obtain ⟨k', rfl⟩ : ∃ k', k = k' + 1 := ⟨k - 1, by have := hk0 rfl; omega⟩
    cases hl : hd.lines with
    | nil => exact absurd hl hne
    | cons pl rest =>
      refine ⟨hd, ⟨pl.op :: pl.line.content, wireNl pl.line⟩,
        (if pl.line.newline = .none then [markerLine] else []) ++ bodyLines (rest.take k') ++ X, ?_, rangeOk_of_writable hd hwd,
        hbs pl (hops pl (by rw [hl]; exact List.mem_cons_self)), wireNl_ne_none _, ?_⟩
      · simp only [damagedBody, List.flatMap_nil, List.nil_append, hl, List.take_succ_cons, bodyLines_cons_append]
      · intro hc
        simpa [changeStart] using hc
  | cons h0 hs' =>
    have hw0 := hw2 h0 List.mem_cons_self
    obtain ⟨pl, more, -, hop, hlines⟩ := flatMap_hunkLines_first h0 hs' hw0
    refine ⟨h0, ⟨pl.op :: pl.line.content, wireNl pl.line⟩, more ++ ⟨rangeText hd, .lf⟩ :: (bodyLines (hd.lines.take k) ++ X), ?_,
      rangeOk_of_writable h0 hw0, hbs pl hop, wireNl_ne_none _, ?_⟩
    · simp only [damagedBody, hlines, List.cons_append]
    · intro hc
      simpa [changeStart] using hc

section
variable {o : Options} {s0 : DState} {pname : Bytes} {pm : Nat}
  {f0 f1 : List Line} {old1 new1 oldt1 newt1 old2 new2 oldt2 newt2 : Bytes} {hs1 hs2 : List Hunk} {hd : Hunk} {k : Nat}
  {name1 name2 bytes1 bytes2 : Bytes} {m1 m2 : Nat}

/-- the common part of the two closed classes: `Xbytes` follows the cut hunk, the body parser throws `e` on the lines -/
theorem C09_run_two_damaged (ho : GuessOpts o pname) (hreal : o.dryRun = false) (hs0 : CleanStart s0)
    (hpn : pname ≠ []) (hpd : pname ≠ [45])
    (hd1 : UnifiedDiff f0 old1 new1 oldt1 newt1 hs1) (hd2 : UnifiedDiff f1 old2 new2 oldt2 newt2 (hs2 ++ [hd]))
    (hk0 : hs2 = [] → 0 < k) (hmk : NoMarkerHead f1)
    (Xbytes : Bytes) (e : Exn)
    (hbad : ∀ n, parseUnifiedBody { s := { rest := damagedBody hs2 hd k (splitLines Xbytes) }, lineNo := n } = .error e)
    (hn1 : flatName name1) (hn2 : flatName name2) (hdist : name1 ≠ name2)
    (hold1 : old1 ≠ devNull) (hstrip1 : stripPath old1 o.strip = name1)
    (hold2 : old2 ≠ devNull) (hstrip2 : stripPath old2 o.strip = name2)
    (ht1 : s0.fs.lookup name1 = some (.file bytes1 m1)) (hw1 : m1 &&& writeMask ≠ 0)
    (ht2 : s0.fs.lookup name2 = some (.file bytes2 m2)) (hw2 : m2 &&& writeMask ≠ 0)
    (hv1 : Valid (splitLines bytes1) 0 0 hs1)
    (hpatch : s0.fs.lookup pname = some (.file
      (patchText f0 old1 new1 oldt1 newt1 hs1 ++ (patchText f1 old2 new2 oldt2 newt2 (hs2 ++ [cutHunk hd k]) ++ Xbytes)) pm)) :
    (runPatch o s0).1 = 2 ∧
    (runPatch o s0).2.fs.lookup name1 = some (.file (Render.renderText o.newlineOutput (splice (splitLines bytes1) 0 hs1)) m1) ∧
    (runPatch o s0).2.fs.lookup name2 = some (.file bytes2 m2) ∧
    ∀ q, q ≠ name1 → (runPatch o s0).2.fs.lookup q = s0.fs.lookup q := by
  have hwa : ∀ h ∈ hs2, h.writable = true := fun h hh => hd2.writable h (List.mem_append_left _ hh)
  have hwd : hd.writable = true := hd2.writable hd (by simp)
  obtain ⟨h, first, more, hshape, hr, hbst, hterm, hchg⟩ := damagedBody_shape hs2 hd k (splitLines Xbytes) hwa hwd hk0
  have hfl : ∀ l ∈ f1, l.newline ≠ .none := fun l hl => lfPlain_term (hd2.fillerPlain l hl)
  refine C09_run_two (pm := pm) ho hreal hs0 hpn hpd hd1 ⟨f1, old2, new2, oldt2, newt2, h, first, more⟩
    ((hs2 ++ [cutHunk hd k]).flatMap writeHunkUnified ++ Xbytes) e
    { fillerInert := hd2.fillerInert, fillerTerm := hfl, oldName := hd2.oldName.1, newName := hd2.newName.1,
      oldStamp := hd2.oldStamp.1, newStamp := hd2.newStamp.1, range := hr, change := hchg hd2.change, first := hbst,
      firstTerm := hterm,
      bad := by
        intro n
        have := hbad n
        rw [hshape] at this
        exact this }
    { fillerPlain := hd2.fillerPlain, oldField := hd2.oldName.2, newField := hd2.newName.2, oldStamp := hd2.oldStamp,
      newStamp := hd2.newStamp }
    hmk
    (by rw [splitLines_cut hs2 hd k Xbytes hwa hwd]; exact hshape)
    hn1 hn2 hdist hold1 hstrip1 hold2 hstrip2 ht1 hw1 ht2 hw2 hv1
    (by
      rw [hpatch]
      simp [BadSec.text, patchText, diffText, List.append_assoc])

/-- **C09, the patch file ends inside the last hunk of its second section.**  `pname` holds a complete unified diff for `name1`,
    then a unified diff for `name2` (hunks `hs2 ++ [hd]`) of which the last hunk has only the first `k` of its body lines — and
    there the file ends.  Exit status 2 (`std::invalid_argument`: the counts of the range line are not met), `name1` complete,
    `name2` and everything else original. -/
theorem C09_run_two_truncated (ho : GuessOpts o pname) (hreal : o.dryRun = false) (hs0 : CleanStart s0)
    (hpn : pname ≠ []) (hpd : pname ≠ [45])
    (hd1 : UnifiedDiff f0 old1 new1 oldt1 newt1 hs1) (hd2 : UnifiedDiff f1 old2 new2 oldt2 newt2 (hs2 ++ [hd]))
    (hk : k < hd.lines.length) (hk0 : hs2 = [] → 0 < k) (hmk : NoMarkerHead f1)
    (hn1 : flatName name1) (hn2 : flatName name2) (hdist : name1 ≠ name2)
    (hold1 : old1 ≠ devNull) (hstrip1 : stripPath old1 o.strip = name1)
    (hold2 : old2 ≠ devNull) (hstrip2 : stripPath old2 o.strip = name2)
    (ht1 : s0.fs.lookup name1 = some (.file bytes1 m1)) (hw1 : m1 &&& writeMask ≠ 0)
    (ht2 : s0.fs.lookup name2 = some (.file bytes2 m2)) (hw2 : m2 &&& writeMask ≠ 0)
    (hv1 : Valid (splitLines bytes1) 0 0 hs1)
    (hpatch : s0.fs.lookup pname = some (.file
      (patchText f0 old1 new1 oldt1 newt1 hs1 ++ patchText f1 old2 new2 oldt2 newt2 (hs2 ++ [cutHunk hd k])) pm)) :
    (runPatch o s0).1 = 2 ∧
    (runPatch o s0).2.fs.lookup name1 = some (.file (Render.renderText o.newlineOutput (splice (splitLines bytes1) 0 hs1)) m1) ∧
    (runPatch o s0).2.fs.lookup name2 = some (.file bytes2 m2) ∧
    ∀ q, q ≠ name1 → (runPatch o s0).2.fs.lookup q = s0.fs.lookup q := by
  refine C09_run_two_damaged (pm := pm) (k := k) ho hreal hs0 hpn hpd hd1 hd2 hk0 hmk [] .invalidArgument ?_ hn1 hn2 hdist hold1 hstrip1 hold2
    hstrip2 ht1 hw1 ht2 hw2 hv1 (by rw [hpatch]; simp)
  intro n
  have hsplit : splitLines [] = [] := rfl
  rw [damagedBody, hsplit, List.append_nil]
  exact parseUnifiedBody_truncated hs2 hd (hd.lines.take k) (hd.lines.drop k) n
    (fun h hh => hd2.writable h (List.mem_append_left _ hh)) (hd2.writable hd (by simp)) (List.take_append_drop k hd.lines).symm
    (by
      intro h0
      have := congrArg List.length h0
      simp at this; omega)

/-- **C09, a garbage line inside the last hunk of the second section.**  As before, but after the first `k` body lines of the last
    hunk comes the line `junk` — not empty, beginning with a byte that is none of ' ', '+', '-', '\' — and then anything
    (`afterBytes`).  Exit status 2 (`parser_error`), `name1` complete, `name2` and everything else original. -/
theorem C09_run_two_garbled (ho : GuessOpts o pname) (hreal : o.dryRun = false) (hs0 : CleanStart s0)
    (hpn : pname ≠ []) (hpd : pname ≠ [45])
    (hd1 : UnifiedDiff f0 old1 new1 oldt1 newt1 hs1) (hd2 : UnifiedDiff f1 old2 new2 oldt2 newt2 (hs2 ++ [hd]))
    (hk : k < hd.lines.length) (hk0 : hs2 = [] → 0 < k) (hmk : NoMarkerHead f1)
    (junk afterBytes : Bytes) (hj1 : NL ∉ junk) (hj2 : junk.getLast? ≠ some CR) (hjunk : garbage ⟨junk, .lf⟩)
    (hn1 : flatName name1) (hn2 : flatName name2) (hdist : name1 ≠ name2)
    (hold1 : old1 ≠ devNull) (hstrip1 : stripPath old1 o.strip = name1)
    (hold2 : old2 ≠ devNull) (hstrip2 : stripPath old2 o.strip = name2)
    (ht1 : s0.fs.lookup name1 = some (.file bytes1 m1)) (hw1 : m1 &&& writeMask ≠ 0)
    (ht2 : s0.fs.lookup name2 = some (.file bytes2 m2)) (hw2 : m2 &&& writeMask ≠ 0)
    (hv1 : Valid (splitLines bytes1) 0 0 hs1)
    (hpatch : s0.fs.lookup pname = some (.file
      (patchText f0 old1 new1 oldt1 newt1 hs1 ++
        (patchText f1 old2 new2 oldt2 newt2 (hs2 ++ [cutHunk hd k]) ++ (junk ++ NL :: afterBytes))) pm)) :
    (runPatch o s0).1 = 2 ∧
    (runPatch o s0).2.fs.lookup name1 = some (.file (Render.renderText o.newlineOutput (splice (splitLines bytes1) 0 hs1)) m1) ∧
    (runPatch o s0).2.fs.lookup name2 = some (.file bytes2 m2) ∧
    ∀ q, q ≠ name1 → (runPatch o s0).2.fs.lookup q = s0.fs.lookup q := by
  refine C09_run_two_damaged (pm := pm) (k := k) ho hreal hs0 hpn hpd hd1 hd2 hk0 hmk (junk ++ NL :: afterBytes) .parserError ?_ hn1 hn2 hdist
    hold1 hstrip1 hold2 hstrip2 ht1 hw1 ht2 hw2 hv1 hpatch
  intro n
  rw [damagedBody, splitLines_line junk afterBytes hj1 hj2]
  exact parseUnifiedBody_garbled hs2 hd (hd.lines.take k) (hd.lines.drop k) ⟨junk, .lf⟩ (splitLines afterBytes) n
    (fun h hh => hd2.writable h (List.mem_append_left _ hh)) (hd2.writable hd (by simp)) (List.take_append_drop k hd.lines).symm
    (by
      intro h0
      have := congrArg List.length h0
      simp at this; omega)
    hjunk (fun h => by cases h.1)

end

/-! ## non-vacuity: concrete runs

The trees and diffs of `C11.TwoSections`: `f` = "a\nb\nc\n" (0644), `g` = "x\ny\n" (0600); the patch file is a mail-like stream with
a complete diff for `f` (`b` → `B`) and then the diff for `g` (`@@ -1,2 +1,2 @@`, ` x`, `-y`, `+Y`) DAMAGED.  Every hypothesis of
the theorems is discharged by evaluation in the kernel (`decide` / `rfl`); independently the executable model is run on the same
data (`#guard`).  (The compiled C++ program gives the same on these inputs: exit status 2 with "Expected 0 lines left in 'to',
got 1" for the truncated file, "malformed patch at line 17: ?oops" for the garbled one; `f` patched, `g` untouched.) -/
namespace Instance
open PatchModel.C11.TwoSections

/-- the patch file: the diff for `f` complete, the hunk of the diff for `g` cut after `k` lines, then `extra` -/
def text (k : Nat) (extra : Bytes) : Bytes :=
  patchText f0 nameF nameF t0 t1 [hkF] ++ (patchText f1 nameG nameG t0 t1 ([] ++ [cutHunk hkG k]) ++ extra)

/-- the file ends after ` x`, `-y`: the line `+Y` which the range line promises is missing -/
def textT : Bytes := patchText f0 nameF nameF t0 t1 [hkF] ++ patchText f1 nameG nameG t0 t1 ([] ++ [cutHunk hkG 2])
def sT : DState := { fs := tree textT }
#guard textT == text 2 [] && textT == str ("From: x\n\nSubject: y\n--- f\t2020\n+++ f\t2021\n@@ -1,3 +1,3 @@\n a\n-b\n+B\n c\n" ++
  "\n-- next file\n--- g\t2020\n+++ g\t2021\n@@ -1,2 +1,2 @@\n x\n-y\n")

/-- **`C09_run_two_truncated` applies** (all hypotheses discharged in the kernel): exit status 2, `f` = "a\nB\nc\n" (0644) —
    complete —, `g` = "x\ny\n" (0600) — original —, nothing else touched -/
theorem truncated_applies :
    (runPatch o sT).1 = 2 ∧
    (runPatch o sT).2.fs.lookup nameF = some (.file [97, 10, 66, 10, 99, 10] 0o644) ∧
    (runPatch o sT).2.fs.lookup nameG = some (.file bytesG 0o600) ∧
    ∀ q, q ≠ nameF → (runPatch o sT).2.fs.lookup q = sT.fs.lookup q := by
  have h := C09_run_two_truncated (pm := 0o644) (hs2 := []) (hd := hkG) (k := 2) guessOpts rfl (s0 := sT) ⟨rfl, rfl, rfl, rfl, rfl, rfl⟩
    (by decide) (by decide) diffF diffG (by decide) (by decide) mark1 (name1 := nameF) (name2 := nameG) (by decide) (by decide)
    (by decide) (flat_ne_devNull (by decide)) (stripPath_flat (by decide) (by decide))
    (flat_ne_devNull (by decide)) (stripPath_flat (by decide) (by decide))
    (bytes1 := bytesF) (m1 := 0o644) rfl (by decide) (bytes2 := bytesG) (m2 := 0o600) rfl (by decide)
    (validB_sound _ _ _ _ (by decide)) rfl
  have r1 : Render.renderText o.newlineOutput (splice (splitLines bytesF) 0 [hkF]) = [97, 10, 66, 10, 99, 10] := by decide
  rw [r1] at h
  exact h

#guard (runPatch o sT).1 == 2
#guard (runPatch o sT).2.fs.lookup nameF == some (.file (str "a\nB\nc\n") 0o644)
#guard (runPatch o sT).2.fs.lookup nameG == some (.file (str "x\ny\n") 0o600)
#guard (runPatch o sT).2.fs.lookup pname == sT.fs.lookup pname
#guard (runPatch o sT).2.fs.nodes.length == 3            -- no reject file, no backup
#guard (runPatch o sT).2.out == [.file nameF false, .file nameG false]
#guard (runPatch o sT).2.trace == [.tmpCreate, .tmpUnlink, .tmpCreate, .tmpUnlink, .creat nameF, .write nameF (str "a\nB\nc\n"),
                                   .chmod nameF 0o644, .tmpCreate, .tmpUnlink]
#guard (runPatch o sT).2.hadFailure == false && (runPatch o sT).2.rejWritten.isEmpty && (runPatch o sT).2.backedUp.isEmpty

/-- after ` x` comes the line `?oops`, then `+Y` and more -/
def junk : Bytes := [63, 111, 111, 112, 115]                          -- "?oops"
def after : Bytes := [43, 89, 10, 119, 104, 97, 116, 101, 118, 101, 114, 10]   -- "+Y\nwhatever\n"
def sG : DState := { fs := tree (text 1 (junk ++ NL :: after)) }
#guard junk == str "?oops" && after == str "+Y\nwhatever\n"
#guard text 1 (junk ++ NL :: after) == str ("From: x\n\nSubject: y\n--- f\t2020\n+++ f\t2021\n@@ -1,3 +1,3 @@\n a\n-b\n+B\n c\n" ++
  "\n-- next file\n--- g\t2020\n+++ g\t2021\n@@ -1,2 +1,2 @@\n x\n?oops\n+Y\nwhatever\n")

/-- **`C09_run_two_garbled` applies** (all hypotheses discharged in the kernel) -/
theorem garbled_applies :
    (runPatch o sG).1 = 2 ∧
    (runPatch o sG).2.fs.lookup nameF = some (.file [97, 10, 66, 10, 99, 10] 0o644) ∧
    (runPatch o sG).2.fs.lookup nameG = some (.file bytesG 0o600) ∧
    ∀ q, q ≠ nameF → (runPatch o sG).2.fs.lookup q = sG.fs.lookup q := by
  have h := C09_run_two_garbled (pm := 0o644) (hs2 := []) (hd := hkG) (k := 1) guessOpts rfl (s0 := sG) ⟨rfl, rfl, rfl, rfl, rfl, rfl⟩
    (by decide) (by decide) diffF diffG (by decide) (by decide) mark1 junk after (by decide) (by decide) (by decide)
    (name1 := nameF) (name2 := nameG) (by decide) (by decide)
    (by decide) (flat_ne_devNull (by decide)) (stripPath_flat (by decide) (by decide))
    (flat_ne_devNull (by decide)) (stripPath_flat (by decide) (by decide))
    (bytes1 := bytesF) (m1 := 0o644) rfl (by decide) (bytes2 := bytesG) (m2 := 0o600) rfl (by decide)
    (validB_sound _ _ _ _ (by decide)) rfl
  have r1 : Render.renderText o.newlineOutput (splice (splitLines bytesF) 0 [hkF]) = [97, 10, 66, 10, 99, 10] := by decide
  rw [r1] at h
  exact h

#guard (runPatch o sG).1 == 2
#guard (runPatch o sG).2.fs.lookup nameF == some (.file (str "a\nB\nc\n") 0o644)
#guard (runPatch o sG).2.fs.lookup nameG == some (.file (str "x\ny\n") 0o600)
#guard (runPatch o sG).2.fs.nodes.length == 3 && (runPatch o sG).2.fs.lookup pname == sG.fs.lookup pname

/-! a second section with a COMPLETE hunk in front of the damaged one (`hs2 ≠ []`): `h` = "1\n…9\n" (0640), its diff has the
    hunks `h1'` (`++ x` inserted before line 1) and `h2'` (`9` → `nine`) of `C01.FirstLineLooksLikeHeader`; `h2'` is cut after
    its first line ` 8`, and `?oops` follows.  Here the first body line of the section reads `+++ x`. -/
open PatchModel.C01.FirstLineLooksLikeHeader (h1' h2' bytes')
def nameH : Bytes := [104]                                            -- "h"
def text3 : Bytes :=
  patchText f0 nameF nameF t0 t1 [hkF] ++ (patchText f1 nameH nameH t0 t1 ([h1'] ++ [cutHunk h2' 1]) ++ (junk ++ NL :: after))
def s3 : DState :=
  { fs := { nodes := [(nameF, .file bytesF 0o644), (nameH, .file bytes' 0o640), (pname, .file text3 0o644)] } }
#guard text3 == str ("From: x\n\nSubject: y\n--- f\t2020\n+++ f\t2021\n@@ -1,3 +1,3 @@\n a\n-b\n+B\n c\n" ++
  "\n-- next file\n--- h\t2020\n+++ h\t2021\n@@ -1 +1,2 @@\n+++ x\n 1\n@@ -8,2 +9,2 @@\n 8\n?oops\n+Y\nwhatever\n")

theorem diffH : UnifiedDiff f1 nameH nameH t0 t1 ([h1'] ++ [h2']) :=
  { fillerInert := filler1.1, fillerPlain := filler1.2, oldName := ⟨by unfold Header.plainName; decide, by decide⟩,
    newName := ⟨by unfold Header.plainName; decide, by decide⟩, oldStamp := by decide,
    newStamp := by decide, nonEmpty := by decide, writable := by decide, change := by decide }

theorem garbled_second_hunk_applies :
    (runPatch o s3).1 = 2 ∧
    (runPatch o s3).2.fs.lookup nameF = some (.file [97, 10, 66, 10, 99, 10] 0o644) ∧
    (runPatch o s3).2.fs.lookup nameH = some (.file bytes' 0o640) ∧
    ∀ q, q ≠ nameF → (runPatch o s3).2.fs.lookup q = s3.fs.lookup q := by
  have h := C09_run_two_garbled (pm := 0o644) (hs2 := [h1']) (hd := h2') (k := 1) guessOpts rfl (s0 := s3) ⟨rfl, rfl, rfl, rfl, rfl, rfl⟩
    (by decide) (by decide) diffF diffH (by decide) (by decide) mark1 junk after (by decide) (by decide) (by decide)
    (name1 := nameF) (name2 := nameH) (by decide) (by decide)
    (by decide) (flat_ne_devNull (by decide)) (stripPath_flat (by decide) (by decide))
    (flat_ne_devNull (by decide)) (stripPath_flat (by decide) (by decide))
    (bytes1 := bytesF) (m1 := 0o644) rfl (by decide) (bytes2 := bytes') (m2 := 0o640) rfl (by decide)
    (validB_sound _ _ _ _ (by decide)) rfl
  have r1 : Render.renderText o.newlineOutput (splice (splitLines bytesF) 0 [hkF]) = [97, 10, 66, 10, 99, 10] := by decide
  rw [r1] at h
  exact h

#guard (runPatch o s3).1 == 2 && (runPatch o s3).2.fs.lookup nameF == some (.file (str "a\nB\nc\n") 0o644) &&
  (runPatch o s3).2.fs.lookup nameH == some (.file (str "1\n2\n3\n4\n5\n6\n7\n8\n9\n") 0o640) &&
  (runPatch o s3).2.fs.nodes.length == 3

/-- the hypothesis form (`C09_run_two`, `BadSec.Ok.bad`) with the damage decided by the closed class: the body parser's verdict
    on the cut body, for EVERY value of the line counter -/
example : ∀ n, parseUnifiedBody { s := { rest := damagedBody [] hkG 2 [] }, lineNo := n } = .error .invalidArgument := by
  intro n
  have := parseUnifiedBody_truncated [] hkG (hkG.lines.take 2) (hkG.lines.drop 2) n (by simp) (by decide) (by decide) (by decide)
  simpa [damagedBody] using this

end Instance

/-! ## the side conditions, evaluated (executable tests) -/

/-! `hs2 = [] → 0 < k` is REQUIRED: with no good body line after the range line (the file ends there, or the first body line is
    damaged) the header scan finds no hunk; after a first patch that is "trailing garbage": exit status 0, no message, `g`
    untouched, `f` patched.  Every file is still original or complete, but the run does not abort.  (The compiled program does
    the same; GNU patch 2.7.6 stops with "malformed patch", exit status 2.) -/
namespace NoBodyLine
open PatchModel.C11.TwoSections
open PatchModel.C09Run.Instance (text)
def s (extra : Bytes) : DState := { fs := tree (text 0 extra) }
#guard text 0 [] == str ("From: x\n\nSubject: y\n--- f\t2020\n+++ f\t2021\n@@ -1,3 +1,3 @@\n a\n-b\n+B\n c\n" ++
  "\n-- next file\n--- g\t2020\n+++ g\t2021\n@@ -1,2 +1,2 @@\n")
#guard (runPatch o (s [])).1 == 0 && (runPatch o (s [])).2.out == [.file nameF false] &&
  (runPatch o (s [])).2.fs.lookup nameG == some (.file (str "x\ny\n") 0o600) &&
  (runPatch o (s [])).2.fs.lookup nameF == some (.file (str "a\nB\nc\n") 0o644)
#guard (runPatch o (s (str "?oops\n-y\n+Y\n"))).1 == 0 && (runPatch o (s (str "?oops\n-y\n+Y\n"))).2.out == [.file nameF false] &&
  (runPatch o (s (str "?oops\n-y\n+Y\n"))).2.fs.lookup nameG == some (.file (str "x\ny\n") 0o600)
-- with --verbose the program at least says so
#guard (runPatch { o with verbose := true } (s [])).2.out.contains .garbage
end NoBodyLine

/-! the garbage line must not begin with a backslash: after ` x`, `-y` (the old side of the hunk is complete) the line `\ foo` IS
    the marker "\ No newline at end of file" of `-y`; the parser goes on, the hunk is well formed — and does not fit `g`, whose
    `y` has its newline: exit status 1 and a reject file instead of an abort.  An empty line is an empty context line. -/
namespace Backslash
open PatchModel.C11.TwoSections
open PatchModel.C09Run.Instance (text)
def s : DState := { fs := tree (text 2 (str "\\ foo\n+Y\n")) }
example : ¬ garbage ⟨[92, 32, 102, 111, 111], .lf⟩ := by decide
example : ¬ garbage ⟨[], .lf⟩ := by decide
#guard (runPatch o s).1 == 1 && (runPatch o s).2.fs.lookup nameG == some (.file (str "x\ny\n") 0o600) &&
  (runPatch o s).2.fs.lookup (str "g.rej") ==
    some (.file (str "--- g\t2020\n+++ g\t2021\n@@ -1,2 +1,2 @@\n x\n-y\n\\ No newline at end of file\n+Y\n") 0o644)
-- a backslash line where no side has just ended is refused like any other garbage
#guard (runPatch o { fs := tree (text 1 (str "\\ foo\n-y\n+Y\n")) }).1 == 2
end Backslash

end PatchModel.C09Run

#print axioms PatchModel.C09Run.C09_run_sections
#print axioms PatchModel.C09Run.C09_run_two
#print axioms PatchModel.C09Run.C09_run_two_truncated
#print axioms PatchModel.C09Run.C09_run_two_garbled
#print axioms PatchModel.C09Run.Instance.truncated_applies
#print axioms PatchModel.C09Run.Instance.garbled_applies
#print axioms PatchModel.C09Run.Instance.garbled_second_hunk_applies
