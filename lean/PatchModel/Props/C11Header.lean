/-
  C11 / C01 (text level) — the header of a unified diff as diff tools write it is read back exactly: names (stripped by -p), time
  stamps, format, and the stream is left at the first hunk; inert filler before the header changes nothing.

  The work is done by `Header.parseHeader_unified'` (PatchModel/Lemmas/Header.lean), which also gives `info` and `par'`
  explicitly (`linesTillFirstHunk = filler.length + 3`, `lineNo + filler.length + 2`, flags clean — also after filler).

  STRENGTHENED with the reordering of `headerStep` (the "first body line after a unified range line" test now comes before
  the keyword tests): as first stated the three round trip theorems assumed that the first line of the first hunk does not
  start with `--- ` or `+++ ` (such a line — the removal of `-- x`, the addition of `++ y` — was taken for a file header and
  the first hunk was silently dropped).  That hypothesis is gone: the first body line only has to start with space, `+`
  or `-`.  `first_hunk_line_like_header` states the fixed case on its own.
  `hterm` (the first body line is terminated) is only used to read that line with `getLine_cons`; the flags it would set
  are cleared by `parseHeader` anyway.
-/
import PatchModel.Spec.Inert
import PatchModel.Spec.Diff
import PatchModel.Spec.Names
import PatchModel.Lemmas.Header
namespace PatchModel.C11
open PatchModel

/-- the two header lines of a unified diff: `--- old TAB time` / `+++ new TAB time` -/
def unifiedHeader (old new oldt newt : Bytes) : List Line :=
  [⟨str "--- " ++ old ++ [TAB] ++ oldt, .lf⟩, ⟨str "+++ " ++ new ++ [TAB] ++ newt, .lf⟩]

/-- the text of a unified range line -/
def rangeLineText (h : Hunk) : Bytes :=
  str "@@ -" ++ intDigits h.old.start ++ (if h.old.count ≠ 1 then [44] ++ intDigits h.old.count else [])
    ++ str " +" ++ intDigits h.new.start ++ (if h.new.count ≠ 1 then [44] ++ intDigits h.new.count else []) ++ str " @@"

/-- a name a diff tool writes unquoted: not empty, no TAB, does not start with a quote -/
def plainName (n : Bytes) : Prop := n ≠ [] ∧ TAB ∉ n ∧ n.head? ≠ some DQUOTE

/-- the operation the header scan infers from the first range -/
def inferredOp (h : Hunk) : Operation :=
  if h.new.start = 0 then .delete else if h.old.start = 0 then .add else .change

theorem unified_header_roundtrip (old new oldt newt : Bytes) (h : Hunk) (first : Line) (more : List Line) (strip : Int) (lineNo : Nat)
    (hold : plainName old) (hnew : plainName new) (hot : oldt ≠ []) (hnt : newt ≠ [])
    (hr : 0 ≤ h.old.start ∧ h.old.start ≤ i64Max / 4 ∧ 0 ≤ h.old.count ∧ h.old.count ≤ i64Max / 4 ∧
          0 ≤ h.new.start ∧ h.new.start ≤ i64Max / 4 ∧ 0 ≤ h.new.count ∧ h.new.count ≤ i64Max / 4)
    (hfirst : startsWith first.content " " ∨ startsWith first.content "+" ∨ startsWith first.content "-")
    (hterm : first.newline ≠ .none) :
    ∃ info par',
      parseHeader { s := { rest := unifiedHeader old new oldt newt ++ ⟨rangeLineText h, .lf⟩ :: first :: more }, lineNo := lineNo } {} strip
        = .ok (true,
               { format := .unified, operation := inferredOp h,
                 oldPath := if old = devNull then old else stripPath old strip,
                 newPath := if new = devNull then new else stripPath new strip,
                 oldTime := oldt, newTime := newt },
               info, par') ∧
      par'.s.rest = ⟨rangeLineText h, .lf⟩ :: first :: more ∧ par'.s.eof = false ∧ par'.s.bad = false := by
  have hb : Header.bodyStart first.content := by
    rcases hfirst with h1 | h1 | h1
    · exact Or.inr (Or.inr h1)
    · exact Or.inl h1
    · exact Or.inr (Or.inl h1)
  have hp := Header.parseHeader_unified' strip
    { s := { rest := unifiedHeader old new oldt newt ++ ⟨rangeLineText h, .lf⟩ :: first :: more }, lineNo := lineNo } {} []
    old new oldt newt h first more (by simp) (by simp) hold hnew hot hnt hr hb hterm (Or.inl rfl) rfl rfl rfl rfl
  exact ⟨_, _, hp, rfl, rfl, rfl⟩

/-- … and inert filler lines in front of the header change nothing (mail headers, commit messages, blank lines) -/
theorem unified_header_after_filler (filler : List Line) (old new oldt newt : Bytes) (h : Hunk) (first : Line) (more : List Line)
    (strip : Int) (lineNo : Nat)
    (hin : ∀ l ∈ filler, inertLine l.content = true) (hft : ∀ l ∈ filler, l.newline ≠ .none)
    (hold : plainName old) (hnew : plainName new) (hot : oldt ≠ []) (hnt : newt ≠ [])
    (hr : 0 ≤ h.old.start ∧ h.old.start ≤ i64Max / 4 ∧ 0 ≤ h.old.count ∧ h.old.count ≤ i64Max / 4 ∧
          0 ≤ h.new.start ∧ h.new.start ≤ i64Max / 4 ∧ 0 ≤ h.new.count ∧ h.new.count ≤ i64Max / 4)
    (hfirst : startsWith first.content " " ∨ startsWith first.content "+" ∨ startsWith first.content "-")
    (hterm : first.newline ≠ .none) :
    ∃ info par',
      parseHeader { s := { rest := filler ++ unifiedHeader old new oldt newt ++ ⟨rangeLineText h, .lf⟩ :: first :: more }, lineNo := lineNo } {} strip
        = .ok (true,
               { format := .unified, operation := inferredOp h,
                 oldPath := if old = devNull then old else stripPath old strip,
                 newPath := if new = devNull then new else stripPath new strip,
                 oldTime := oldt, newTime := newt },
               info, par') ∧
      par'.s.rest = ⟨rangeLineText h, .lf⟩ :: first :: more := by
  have hb : Header.bodyStart first.content := by
    rcases hfirst with h1 | h1 | h1
    · exact Or.inr (Or.inr h1)
    · exact Or.inl h1
    · exact Or.inr (Or.inl h1)
  have hp := Header.parseHeader_unified' strip
    { s := { rest := filler ++ unifiedHeader old new oldt newt ++ ⟨rangeLineText h, .lf⟩ :: first :: more }, lineNo := lineNo } {}
    filler old new oldt newt h first more hin hft hold hnew hot hnt hr hb hterm (Or.inl rfl) rfl rfl rfl
    (by simp only [unifiedHeader, List.append_assoc, List.cons_append, List.nil_append]; rfl)
  exact ⟨_, _, hp, rfl⟩

/-- NEW (after the `foundFirstHunk` rule, which made "format given by option" and "format detected" differ only when no hunk is
    found): the same with the format forced by `-u` — the scan starts from `{ format := .unified }`, filler is still ignored,
    and because a first hunk IS found the forced format stays (compare `C11.forced_format_trailing_garbage`: filler only ⇒ `unknown`) -/
theorem unified_header_after_filler_forced (filler : List Line) (old new oldt newt : Bytes) (h : Hunk) (first : Line) (more : List Line)
    (strip : Int) (lineNo : Nat)
    (hin : ∀ l ∈ filler, inertLine l.content = true) (hft : ∀ l ∈ filler, l.newline ≠ .none)
    (hold : plainName old) (hnew : plainName new) (hot : oldt ≠ []) (hnt : newt ≠ [])
    (hr : 0 ≤ h.old.start ∧ h.old.start ≤ i64Max / 4 ∧ 0 ≤ h.old.count ∧ h.old.count ≤ i64Max / 4 ∧
          0 ≤ h.new.start ∧ h.new.start ≤ i64Max / 4 ∧ 0 ≤ h.new.count ∧ h.new.count ≤ i64Max / 4)
    (hfirst : startsWith first.content " " ∨ startsWith first.content "+" ∨ startsWith first.content "-")
    (hterm : first.newline ≠ .none) :
    ∃ info par',
      parseHeader { s := { rest := filler ++ unifiedHeader old new oldt newt ++ ⟨rangeLineText h, .lf⟩ :: first :: more }, lineNo := lineNo }
          { format := .unified } strip
        = .ok (true,
               { format := .unified, operation := inferredOp h,
                 oldPath := if old = devNull then old else stripPath old strip,
                 newPath := if new = devNull then new else stripPath new strip,
                 oldTime := oldt, newTime := newt },
               info, par') ∧
      info.format = .unified ∧ info.linesTillFirstHunk = filler.length + 3 ∧
      par'.s.rest = ⟨rangeLineText h, .lf⟩ :: first :: more := by
  have hb : Header.bodyStart first.content := by
    rcases hfirst with h1 | h1 | h1
    · exact Or.inr (Or.inr h1)
    · exact Or.inl h1
    · exact Or.inr (Or.inl h1)
  have hp := Header.parseHeader_unified' strip
    { s := { rest := filler ++ unifiedHeader old new oldt newt ++ ⟨rangeLineText h, .lf⟩ :: first :: more }, lineNo := lineNo }
    { format := .unified }
    filler old new oldt newt h first more hin hft hold hnew hot hnt hr hb hterm (Or.inr rfl) rfl rfl rfl
    (by simp only [unifiedHeader, List.append_assoc, List.cons_append, List.nil_append]; rfl)
  exact ⟨_, _, hp, rfl, rfl, rfl⟩

/-- NEW (`headerStep` looks for the first line of the first hunk BEFORE it looks for header keywords): the first line of the
    first hunk may itself look like a file header — `--- x` removes the line `-- x`, `+++ y` adds the line `++ y`.  The
    header is read back all the same: format unified, the names and time stamps of the two real header lines (NOT `x` / `y`),
    first hunk on line 3, and the stream is left at the range line with clean flags, so that the body parser gets the whole
    hunk.  Before the change the scan took such a line for a header line, went on, found no hunk after it and dropped the
    first hunk silently (or, with more hunks following, patched with the wrong names). -/
theorem first_hunk_line_like_header (old new oldt newt : Bytes) (h : Hunk) (first : Line) (more : List Line) (strip : Int) (lineNo : Nat)
    (hold : plainName old) (hnew : plainName new) (hot : oldt ≠ []) (hnt : newt ≠ [])
    (hr : 0 ≤ h.old.start ∧ h.old.start ≤ i64Max / 4 ∧ 0 ≤ h.old.count ∧ h.old.count ≤ i64Max / 4 ∧
          0 ≤ h.new.start ∧ h.new.start ≤ i64Max / 4 ∧ 0 ≤ h.new.count ∧ h.new.count ≤ i64Max / 4)
    (hfirst : startsWith first.content "--- " ∨ startsWith first.content "+++ ")
    (hterm : first.newline ≠ .none) :
    ∃ info par',
      parseHeader { s := { rest := unifiedHeader old new oldt newt ++ ⟨rangeLineText h, .lf⟩ :: first :: more }, lineNo := lineNo } {} strip
        = .ok (true,
               { format := .unified, operation := inferredOp h,
                 oldPath := if old = devNull then old else stripPath old strip,
                 newPath := if new = devNull then new else stripPath new strip,
                 oldTime := oldt, newTime := newt },
               info, par') ∧
      info.format = .unified ∧ info.linesTillFirstHunk = 3 ∧
      par'.s.rest = ⟨rangeLineText h, .lf⟩ :: first :: more ∧ par'.s.eof = false ∧ par'.s.bad = false := by
  have hb : Header.bodyStart first.content := by
    rcases hfirst with h1 | h1
    · exact Header.bodyStart_of_minus4 h1
    · exact Header.bodyStart_of_plus4 h1
  have hp := Header.parseHeader_unified' strip
    { s := { rest := unifiedHeader old new oldt newt ++ ⟨rangeLineText h, .lf⟩ :: first :: more }, lineNo := lineNo } {} []
    old new oldt newt h first more (by simp) (by simp) hold hnew hot hnt hr hb hterm (Or.inl rfl) rfl rfl rfl rfl
  exact ⟨_, _, hp, rfl, rfl, rfl, rfl, rfl⟩

-- the situation of the fix, evaluated: the first hunk removes the line `-- x` (and then adds a line `++ y`)
#guard match parseHeader { s := { rest := [⟨str "--- a\t1", .lf⟩, ⟨str "+++ b\t2", .lf⟩, ⟨str "@@ -1,2 +1,2 @@", .lf⟩,
                                           ⟨str "--- x", .lf⟩, ⟨str "+++ y", .lf⟩, ⟨str " z", .lf⟩] } } {} 0 with
  | .ok (body, p, info, par') =>
      body && p.format == .unified && p.oldPath == str "a" && p.newPath == str "b" && p.oldTime == str "1" &&
      p.newTime == str "2" && p.operation == .change && info.format == .unified && info.linesTillFirstHunk == 3 &&
      par'.s.rest.length == 4 && !par'.s.eof && !par'.s.bad &&
      -- … and the body parser then gets the whole hunk: three lines, the first one the removal of `-- x`
      (match parseBody par' p with
       | .ok (p', par'') =>
           par''.s.rest.length == 0 &&
           (p'.hunks.map fun hk => hk.lines.map fun pl => (pl.op, pl.line.content)) ==
             [[(45, str "-- x"), (43, str "++ y"), (32, str "z")]]
       | _ => false)
  | _ => false

-- a kernel-checked instance of the theorem (`--- a⇥1` / `+++ b⇥2` / `@@ -1,2 +1 @@` / `--- x` / ` z`, -p0)
example : ∃ info par',
    parseHeader { s := { rest := unifiedHeader [97] [98] [49] [50] ++
                    ⟨rangeLineText { defaultHunk with old := { start := 1, count := 2 }, new := { start := 1, count := 1 } }, .lf⟩ ::
                    ⟨str "--- " ++ [120], .lf⟩ :: [⟨[32, 122], .lf⟩] }, lineNo := 1 } {} 0
      = .ok (true, { format := .unified, operation := .change, oldPath := [97], newPath := [98], oldTime := [49], newTime := [50] },
             info, par') ∧
    info.format = .unified ∧ info.linesTillFirstHunk = 3 ∧ par'.s.rest.length = 3 := by
  obtain ⟨info, par', hp, h1, h2, h3, _, _⟩ :=
    first_hunk_line_like_header [97] [98] [49] [50]
      { defaultHunk with old := { start := 1, count := 2 }, new := { start := 1, count := 1 } }
      ⟨str "--- " ++ [120], .lf⟩ [⟨[32, 122], .lf⟩] 0 1
      (by unfold plainName; decide) (by unfold plainName; decide) (by decide) (by decide) (by decide)
      (Or.inl (Header.startsWith_append _ _)) (by decide)
  refine ⟨info, par', ?_, h1, h2, by rw [h3]; rfl⟩
  rw [hp, if_neg (by rw [Names.devNull_eq]; decide), if_neg (by rw [Names.devNull_eq]; decide),
    show stripPath [97] 0 = [97] by simp [stripPath, stripLoop, SLASH],
    show stripPath [98] 0 = [98] by simp [stripPath, stripLoop, SLASH],
    show inferredOp { defaultHunk with old := { start := 1, count := 2 }, new := { start := 1, count := 1 } } = .change by decide]

/-- NEW (the `diff --git` line always belongs to the header): a section whose first line is a `diff --git` line — if the header
    scan succeeds at all (the name on the line may be malformed: then it throws), the result is a git patch, the first-hunk line
    is at least the second line and the parser is left strictly after the `diff --git` line, whatever follows it (nothing,
    filler, a second `diff --git` line …).  Before the change `diff --git a/x b/x` followed by filler gave
    `linesTillFirstHunk = 0` and a parser left AT the `diff --git` line. -/
theorem git_first_line_consumed (par : Parser) (pt : Patch) (strip : Int) (l : Line) (rest : List Line) (r : Bytes)
    (hflags : par.s.eof = false ∧ par.s.bad = false) (hrest : par.s.rest = l :: rest)
    (hl : l.content = str "diff --git " ++ r)
    (body : Bool) (p : Patch) (info : HeaderInfo) (par' : Parser)
    (h : parseHeader par pt strip = .ok (body, p, info, par')) :
    p.format = .git ∧ info.format = .git ∧ 2 ≤ info.linesTillFirstHunk ∧ par'.s.rest.length < par.s.rest.length :=
  Header.parseHeader_git_first par pt strip l rest r hflags.1 hflags.2 hrest hl body p info par' h

-- the situation of the fix, evaluated: a lone `diff --git` line and a line of filler
#guard match parseHeader { s := { rest := [⟨str "diff --git a/x b/x", .lf⟩, ⟨str "some text", .lf⟩] } } {} 0 with
  | .ok (_, p, info, par') => p.format == .git && info.linesTillFirstHunk == 2 && par'.s.rest.length == 1
  | _ => false

end PatchModel.C11

#print axioms PatchModel.C11.unified_header_roundtrip
#print axioms PatchModel.C11.unified_header_after_filler
#print axioms PatchModel.C11.unified_header_after_filler_forced
#print axioms PatchModel.C11.first_hunk_line_like_header
#print axioms PatchModel.C11.git_first_line_consumed
