/-
  C11 / C01 (text level) — the header of a unified diff as diff tools write it is read back exactly: names (stripped by -p), time
  stamps, format, and the stream is left at the first hunk; inert filler before the header changes nothing.

  The work is done by `Header.parseHeader_unified'` (PatchModel/Lemmas/Header.lean), which also gives `info` and `par'`
  explicitly (`linesTillFirstHunk = filler.length + 3`, `lineNo + filler.length + 2`, flags clean — also after filler).

  STRENGTHENED with the reordering of `headerStep` (the "first body line after a unified range line" test now comes before
  the keyword tests): as first stated the three round trip theorems assumed that the first line of the first hunk does not
  start with `--- ` or `+++ ` (such a line — the removal of `-- x`, the addition of `++ y` — was taken for a file header and
  the first hunk was silently dropped).  That hypothesis is gone: the first body line only has to start with space, `+`
  or `-`.  `first_hunk_line_like_header` states the fixed case on its own.
  EXTENDED with D86 (an unchanged empty line written as an EMPTY line may be the first line of the first hunk, if the range
  has a count above 0 on both sides): `empty_line_after_range_starts_hunk`, `empty_line_after_range_without_room` (one step
  of the scan, positive / negative), `first_hunk_line_empty` (the whole header).  The older theorems are unchanged.
  `hterm` (the first body line is terminated) is only used to read that line with `getLine_cons`; the flags it would set
  are cleared by `parseHeader` anyway.
-/
import PatchModel.Spec.Inert
import PatchModel.Spec.Diff
import PatchModel.Spec.Names
import PatchModel.Lemmas.Header
namespace PatchModel.C11
open PatchModel

/-- the two header lines of a unified diff: `--- old TAB time` / `+++ new TAB time` -/
def unifiedHeader (old new oldt newt : Bytes) : List Line :=
  [⟨str "--- " ++ old ++ [TAB] ++ oldt, .lf⟩, ⟨str "+++ " ++ new ++ [TAB] ++ newt, .lf⟩]

/-- the text of a unified range line -/
def rangeLineText (h : Hunk) : Bytes :=
  str "@@ -" ++ intDigits h.old.start ++ (if h.old.count ≠ 1 then [44] ++ intDigits h.old.count else [])
    ++ str " +" ++ intDigits h.new.start ++ (if h.new.count ≠ 1 then [44] ++ intDigits h.new.count else []) ++ str " @@"

/-- a name a diff tool writes unquoted: not empty, no TAB, does not start with a quote -/
def plainName (n : Bytes) : Prop := n ≠ [] ∧ TAB ∉ n ∧ n.head? ≠ some DQUOTE

/-- the operation the header scan infers from the first range -/
def inferredOp (h : Hunk) : Operation :=
  if h.new.start = 0 then .delete else if h.old.start = 0 then .add else .change

theorem unified_header_roundtrip (old new oldt newt : Bytes) (h : Hunk) (first : Line) (more : List Line) (strip : Int) (lineNo : Nat)
    (hold : plainName old) (hnew : plainName new) (hot : oldt ≠ []) (hnt : newt ≠ [])
    (hr : 0 ≤ h.old.start ∧ h.old.start ≤ i64Max / 4 ∧ 0 ≤ h.old.count ∧ h.old.count ≤ i64Max / 4 ∧
          0 ≤ h.new.start ∧ h.new.start ≤ i64Max / 4 ∧ 0 ≤ h.new.count ∧ h.new.count ≤ i64Max / 4)
    (hfirst : startsWith first.content " " ∨ startsWith first.content "+" ∨ startsWith first.content "-")
    (hterm : first.newline ≠ .none) :
    ∃ info par',
      parseHeader { s := { rest := unifiedHeader old new oldt newt ++ ⟨rangeLineText h, .lf⟩ :: first :: more }, lineNo := lineNo } {} strip
        = .ok (true,
               { format := .unified, operation := inferredOp h,
                 oldPath := if old = devNull then old else stripPath old strip,
                 newPath := if new = devNull then new else stripPath new strip,
                 oldTime := oldt, newTime := newt },
               info, par') ∧
      par'.s.rest = ⟨rangeLineText h, .lf⟩ :: first :: more ∧ par'.s.eof = false ∧ par'.s.bad = false := by
  have hb : Header.bodyStart first.content := by
    rcases hfirst with h1 | h1 | h1
    · exact Or.inr (Or.inr h1)
    · exact Or.inl h1
    · exact Or.inr (Or.inl h1)
  have hp := Header.parseHeader_unified' strip
    { s := { rest := unifiedHeader old new oldt newt ++ ⟨rangeLineText h, .lf⟩ :: first :: more }, lineNo := lineNo } {} []
    old new oldt newt h first more (by simp) (by simp) hold hnew hot hnt hr hb hterm (Or.inl rfl) rfl rfl rfl rfl
  exact ⟨_, _, hp, rfl, rfl, rfl⟩

/-- … and inert filler lines in front of the header change nothing (mail headers, commit messages, blank lines) -/
theorem unified_header_after_filler (filler : List Line) (old new oldt newt : Bytes) (h : Hunk) (first : Line) (more : List Line)
    (strip : Int) (lineNo : Nat)
    (hin : ∀ l ∈ filler, inertLine l.content = true) (hft : ∀ l ∈ filler, l.newline ≠ .none)
    (hold : plainName old) (hnew : plainName new) (hot : oldt ≠ []) (hnt : newt ≠ [])
    (hr : 0 ≤ h.old.start ∧ h.old.start ≤ i64Max / 4 ∧ 0 ≤ h.old.count ∧ h.old.count ≤ i64Max / 4 ∧
          0 ≤ h.new.start ∧ h.new.start ≤ i64Max / 4 ∧ 0 ≤ h.new.count ∧ h.new.count ≤ i64Max / 4)
    (hfirst : startsWith first.content " " ∨ startsWith first.content "+" ∨ startsWith first.content "-")
    (hterm : first.newline ≠ .none) :
    ∃ info par',
      parseHeader { s := { rest := filler ++ unifiedHeader old new oldt newt ++ ⟨rangeLineText h, .lf⟩ :: first :: more }, lineNo := lineNo } {} strip
        = .ok (true,
               { format := .unified, operation := inferredOp h,
                 oldPath := if old = devNull then old else stripPath old strip,
                 newPath := if new = devNull then new else stripPath new strip,
                 oldTime := oldt, newTime := newt },
               info, par') ∧
      par'.s.rest = ⟨rangeLineText h, .lf⟩ :: first :: more := by
  have hb : Header.bodyStart first.content := by
    rcases hfirst with h1 | h1 | h1
    · exact Or.inr (Or.inr h1)
    · exact Or.inl h1
    · exact Or.inr (Or.inl h1)
  have hp := Header.parseHeader_unified' strip
    { s := { rest := filler ++ unifiedHeader old new oldt newt ++ ⟨rangeLineText h, .lf⟩ :: first :: more }, lineNo := lineNo } {}
    filler old new oldt newt h first more hin hft hold hnew hot hnt hr hb hterm (Or.inl rfl) rfl rfl rfl
    (by simp only [unifiedHeader, List.append_assoc, List.cons_append, List.nil_append]; rfl)
  exact ⟨_, _, hp, rfl⟩

/-- NEW (after the `foundFirstHunk` rule, which made "format given by option" and "format detected" differ only when no hunk is
    found): the same with the format forced by `-u` — the scan starts from `{ format := .unified }`, filler is still ignored,
    and because a first hunk IS found the forced format stays (compare `C11.forced_format_trailing_garbage`: filler only ⇒ `unknown`) -/
theorem unified_header_after_filler_forced (filler : List Line) (old new oldt newt : Bytes) (h : Hunk) (first : Line) (more : List Line)
    (strip : Int) (lineNo : Nat)
    (hin : ∀ l ∈ filler, inertLine l.content = true) (hft : ∀ l ∈ filler, l.newline ≠ .none)
    (hold : plainName old) (hnew : plainName new) (hot : oldt ≠ []) (hnt : newt ≠ [])
    (hr : 0 ≤ h.old.start ∧ h.old.start ≤ i64Max / 4 ∧ 0 ≤ h.old.count ∧ h.old.count ≤ i64Max / 4 ∧
          0 ≤ h.new.start ∧ h.new.start ≤ i64Max / 4 ∧ 0 ≤ h.new.count ∧ h.new.count ≤ i64Max / 4)
    (hfirst : startsWith first.content " " ∨ startsWith first.content "+" ∨ startsWith first.content "-")
    (hterm : first.newline ≠ .none) :
    ∃ info par',
      parseHeader { s := { rest := filler ++ unifiedHeader old new oldt newt ++ ⟨rangeLineText h, .lf⟩ :: first :: more }, lineNo := lineNo }
          { format := .unified } strip
        = .ok (true,
               { format := .unified, operation := inferredOp h,
                 oldPath := if old = devNull then old else stripPath old strip,
                 newPath := if new = devNull then new else stripPath new strip,
                 oldTime := oldt, newTime := newt },
               info, par') ∧
      info.format = .unified ∧ info.linesTillFirstHunk = filler.length + 3 ∧
      par'.s.rest = ⟨rangeLineText h, .lf⟩ :: first :: more := by
  have hb : Header.bodyStart first.content := by
    rcases hfirst with h1 | h1 | h1
    · exact Or.inr (Or.inr h1)
    · exact Or.inl h1
    · exact Or.inr (Or.inl h1)
  have hp := Header.parseHeader_unified' strip
    { s := { rest := filler ++ unifiedHeader old new oldt newt ++ ⟨rangeLineText h, .lf⟩ :: first :: more }, lineNo := lineNo }
    { format := .unified }
    filler old new oldt newt h first more hin hft hold hnew hot hnt hr hb hterm (Or.inr rfl) rfl rfl rfl
    (by simp only [unifiedHeader, List.append_assoc, List.cons_append, List.nil_append]; rfl)
  exact ⟨_, _, hp, rfl, rfl, rfl⟩

/-- NEW (`headerStep` looks for the first line of the first hunk BEFORE it looks for header keywords): the first line of the
    first hunk may itself look like a file header — `--- x` removes the line `-- x`, `+++ y` adds the line `++ y`.  The
    header is read back all the same: format unified, the names and time stamps of the two real header lines (NOT `x` / `y`),
    first hunk on line 3, and the stream is left at the range line with clean flags, so that the body parser gets the whole
    hunk.  Before the change the scan took such a line for a header line, went on, found no hunk after it and dropped the
    first hunk silently (or, with more hunks following, patched with the wrong names). -/
theorem first_hunk_line_like_header (old new oldt newt : Bytes) (h : Hunk) (first : Line) (more : List Line) (strip : Int) (lineNo : Nat)
    (hold : plainName old) (hnew : plainName new) (hot : oldt ≠ []) (hnt : newt ≠ [])
    (hr : 0 ≤ h.old.start ∧ h.old.start ≤ i64Max / 4 ∧ 0 ≤ h.old.count ∧ h.old.count ≤ i64Max / 4 ∧
          0 ≤ h.new.start ∧ h.new.start ≤ i64Max / 4 ∧ 0 ≤ h.new.count ∧ h.new.count ≤ i64Max / 4)
    (hfirst : startsWith first.content "--- " ∨ startsWith first.content "+++ ")
    (hterm : first.newline ≠ .none) :
    ∃ info par',
      parseHeader { s := { rest := unifiedHeader old new oldt newt ++ ⟨rangeLineText h, .lf⟩ :: first :: more }, lineNo := lineNo } {} strip
        = .ok (true,
               { format := .unified, operation := inferredOp h,
                 oldPath := if old = devNull then old else stripPath old strip,
                 newPath := if new = devNull then new else stripPath new strip,
                 oldTime := oldt, newTime := newt },
               info, par') ∧
      info.format = .unified ∧ info.linesTillFirstHunk = 3 ∧
      par'.s.rest = ⟨rangeLineText h, .lf⟩ :: first :: more ∧ par'.s.eof = false ∧ par'.s.bad = false := by
  have hb : Header.bodyStart first.content := by
    rcases hfirst with h1 | h1
    · exact Header.bodyStart_of_minus4 h1
    · exact Header.bodyStart_of_plus4 h1
  have hp := Header.parseHeader_unified' strip
    { s := { rest := unifiedHeader old new oldt newt ++ ⟨rangeLineText h, .lf⟩ :: first :: more }, lineNo := lineNo } {} []
    old new oldt newt h first more (by simp) (by simp) hold hnew hot hnt hr hb hterm (Or.inl rfl) rfl rfl rfl rfl
  exact ⟨_, _, hp, rfl, rfl, rfl, rfl, rfl⟩

-- the situation of the fix, evaluated: the first hunk removes the line `-- x` (and then adds a line `++ y`)
#guard match parseHeader { s := { rest := [⟨str "--- a\t1", .lf⟩, ⟨str "+++ b\t2", .lf⟩, ⟨str "@@ -1,2 +1,2 @@", .lf⟩,
                                           ⟨str "--- x", .lf⟩, ⟨str "+++ y", .lf⟩, ⟨str " z", .lf⟩] } } {} 0 with
  | .ok (body, p, info, par') =>
      body && p.format == .unified && p.oldPath == str "a" && p.newPath == str "b" && p.oldTime == str "1" &&
      p.newTime == str "2" && p.operation == .change && info.format == .unified && info.linesTillFirstHunk == 3 &&
      par'.s.rest.length == 4 && !par'.s.eof && !par'.s.bad &&
      -- … and the body parser then gets the whole hunk: three lines, the first one the removal of `-- x`
      (match parseBody par' p with
       | .ok (p', par'') =>
           par''.s.rest.length == 0 &&
           (p'.hunks.map fun hk => hk.lines.map fun pl => (pl.op, pl.line.content)) ==
             [[(45, str "-- x"), (43, str "++ y"), (32, str "z")]]
       | _ => false)
  | _ => false

-- a kernel-checked instance of the theorem (`--- a⇥1` / `+++ b⇥2` / `@@ -1,2 +1 @@` / `--- x` / ` z`, -p0)
example : ∃ info par',
    parseHeader { s := { rest := unifiedHeader [97] [98] [49] [50] ++
                    ⟨rangeLineText { defaultHunk with old := { start := 1, count := 2 }, new := { start := 1, count := 1 } }, .lf⟩ ::
                    ⟨str "--- " ++ [120], .lf⟩ :: [⟨[32, 122], .lf⟩] }, lineNo := 1 } {} 0
      = .ok (true, { format := .unified, operation := .change, oldPath := [97], newPath := [98], oldTime := [49], newTime := [50] },
             info, par') ∧
    info.format = .unified ∧ info.linesTillFirstHunk = 3 ∧ par'.s.rest.length = 3 := by
  obtain ⟨info, par', hp, h1, h2, h3, _, _⟩ :=
    first_hunk_line_like_header [97] [98] [49] [50]
      { defaultHunk with old := { start := 1, count := 2 }, new := { start := 1, count := 1 } }
      ⟨str "--- " ++ [120], .lf⟩ [⟨[32, 122], .lf⟩] 0 1
      (by unfold plainName; decide) (by unfold plainName; decide) (by decide) (by decide) (by decide)
      (Or.inl (Header.startsWith_append _ _)) (by decide)
  refine ⟨info, par', ?_, h1, h2, by rw [h3]; rfl⟩
  rw [hp, if_neg (by rw [Names.devNull_eq]; decide), if_neg (by rw [Names.devNull_eq]; decide),
    show stripPath [97] 0 = [97] by simp [stripPath, stripLoop, SLASH],
    show stripPath [98] 0 = [98] by simp [stripPath, stripLoop, SLASH],
    show inferredOp { defaultHunk with old := { start := 1, count := 2 }, new := { start := 1, count := 1 } } = .change by decide]

/-- NEW (D86: `diff -u --suppress-blank-empty` writes an unchanged empty line as an EMPTY line, not as a line of one blank; the
    hunk body parser accepted that, the header scan did not when it was the first line of the first hunk): one step of the
    scan — after a line that looked like a unified range line with a count above 0 on BOTH sides, an empty line is the first
    line of the first hunk: the scan stops there, the first hunk is found, the format is unified, and the two names / time
    stamps are swapped back as for any other first body line. -/
theorem empty_line_after_range_starts_hunk (st : HState) (strip : Int)
    (hf : st.patch.format = .unknown ∨ st.patch.format = .unified) (hl : st.thisLooks = .unified)
    (ho : 0 < st.hunk.old.count) (hn : 0 < st.hunk.new.count) :
    ∃ st', headerStep st [] strip = .ok (st', false) ∧ st'.foundFirstHunk = true ∧ st'.patch.format = .unified ∧
      st'.patch.oldPath = st.patch.newPath ∧ st'.patch.newPath = st.patch.oldPath ∧ st'.hunk = st.hunk ∧ st'.ltfh = st.ltfh :=
  ⟨_, Header.headerStep_firstBody st [] strip ⟨hf, hl, Or.inr ⟨rfl, ho, hn⟩⟩, rfl, rfl, rfl, rfl, rfl, rfl⟩

/-- … and its negative twin: if the range leaves no room for an unchanged line (`@@ -1,29 +0,0 @@`: a count of 0 on one
    side) an empty line after it is NOT the start of a hunk — it is skipped like any blank line, in or outside a git section:
    the scan goes on, nothing is found, the patch is as it was and the "looks like a range" marker is gone. -/
theorem empty_line_after_range_without_room (st : HState) (strip : Int)
    (hc : ¬ (0 < st.hunk.old.count ∧ 0 < st.hunk.new.count)) :
    ∃ st', headerStep st [] strip = .ok (st', true) ∧ st'.foundFirstHunk = st.foundFirstHunk ∧ st'.patch = st.patch ∧
      st'.thisLooks = .unknown ∧ st'.hunk = st.hunk ∧ st'.ltfh = st.ltfh :=
  ⟨_, Header.headerStep_empty_skip st strip (fun h => hc h.2), rfl, rfl, rfl, rfl, rfl⟩

/-- NEW (D86), the whole header: `--- old` / `+++ new` / a range line with room for an unchanged line / an EMPTY line.  The
    header is read back like that of any other unified diff — format unified, names, time stamps, first hunk on line 3 — and
    the stream is left at the range line with clean flags, so that the body parser gets the whole hunk (which starts with an
    unchanged empty line).  Before the change the scan skipped the empty line, took the line after it for filler or for a
    header and the first hunk was lost. -/
theorem first_hunk_line_empty (old new oldt newt : Bytes) (h : Hunk) (first : Line) (more : List Line) (strip : Int) (lineNo : Nat)
    (hold : plainName old) (hnew : plainName new) (hot : oldt ≠ []) (hnt : newt ≠ [])
    (hr : 0 ≤ h.old.start ∧ h.old.start ≤ i64Max / 4 ∧ 0 ≤ h.old.count ∧ h.old.count ≤ i64Max / 4 ∧
          0 ≤ h.new.start ∧ h.new.start ≤ i64Max / 4 ∧ 0 ≤ h.new.count ∧ h.new.count ≤ i64Max / 4)
    (hfirst : first.content = []) (hroom : 0 < h.old.count ∧ 0 < h.new.count)
    (hterm : first.newline ≠ .none) :
    ∃ info par',
      parseHeader { s := { rest := unifiedHeader old new oldt newt ++ ⟨rangeLineText h, .lf⟩ :: first :: more }, lineNo := lineNo } {} strip
        = .ok (true,
               { format := .unified, operation := inferredOp h,
                 oldPath := if old = devNull then old else stripPath old strip,
                 newPath := if new = devNull then new else stripPath new strip,
                 oldTime := oldt, newTime := newt },
               info, par') ∧
      info.format = .unified ∧ info.linesTillFirstHunk = 3 ∧
      par'.s.rest = ⟨rangeLineText h, .lf⟩ :: first :: more ∧ par'.s.eof = false ∧ par'.s.bad = false := by
  have hp := Header.parseHeader_unified_e strip
    { s := { rest := unifiedHeader old new oldt newt ++ ⟨rangeLineText h, .lf⟩ :: first :: more }, lineNo := lineNo } {} []
    old new oldt newt h first more (by simp) (by simp) hold hnew hot hnt hr (Or.inr ⟨hfirst, hroom⟩) hterm (Or.inl rfl)
    rfl rfl rfl rfl
  exact ⟨_, _, hp, rfl, rfl, rfl, rfl, rfl⟩

-- the situation of the fix, evaluated: "--- f\n+++ f\n@@ -1,3 +1,3 @@\n\n-b\n+B\n c\n" — one hunk of four lines, the first
-- one an unchanged empty line
#guard match parseHeader { s := { rest := [⟨str "--- f", .lf⟩, ⟨str "+++ f", .lf⟩, ⟨str "@@ -1,3 +1,3 @@", .lf⟩, ⟨[], .lf⟩,
                                           ⟨str "-b", .lf⟩, ⟨str "+B", .lf⟩, ⟨str " c", .lf⟩] } } {} 0 with
  | .ok (body, p, info, par') =>
      body && p.format == .unified && p.oldPath == str "f" && p.newPath == str "f" && p.operation == .change &&
      info.format == .unified && info.linesTillFirstHunk == 3 && par'.s.rest.length == 5 && !par'.s.eof && !par'.s.bad &&
      (match parseBody par' p with
       | .ok (p', par'') =>
           par''.s.rest.length == 0 &&
           (p'.hunks.map fun hk => (hk.old.start, hk.old.count, hk.new.start, hk.new.count)) == [(1, 3, 1, 3)] &&
           (p'.hunks.map fun hk => hk.lines.map fun pl => (pl.op, pl.line.content)) ==
             [[(32, []), (45, str "b"), (43, str "B"), (32, str "c")]]
       | _ => false)
  | _ => false

-- the negative twin, evaluated: after `@@ -1,29 +0,0 @@` an empty line starts no hunk (nothing found: format unknown) …
#guard match parseHeader { s := { rest := [⟨str "--- f", .lf⟩, ⟨str "+++ f", .lf⟩, ⟨str "@@ -1,29 +0,0 @@", .lf⟩, ⟨[], .lf⟩] } } {} 0 with
  | .ok (_, p, info, _) => p.format == .unknown && info.format == .unknown
  | _ => false
-- … while after `@@ -1,3 +1,3 @@` it does, also as the last line of the text
#guard match parseHeader { s := { rest := [⟨str "--- f", .lf⟩, ⟨str "+++ f", .lf⟩, ⟨str "@@ -1,3 +1,3 @@", .lf⟩, ⟨[], .lf⟩] } } {} 0 with
  | .ok (_, p, info, _) => p.format == .unified && info.format == .unified && info.linesTillFirstHunk == 3
  | _ => false

-- kernel-checked instances of the two step theorems (the state after `@@ -1,3 +1,3 @@` / after `@@ -1,29 +0,0 @@`)
example : ∃ st', headerStep { par := { s := { rest := [] } }, patch := {}, thisLooks := .unified,
                              hunk := { defaultHunk with old := { start := 1, count := 3 }, new := { start := 1, count := 3 } } } [] 0
                   = .ok (st', false) ∧ st'.foundFirstHunk = true ∧ st'.patch.format = .unified := by
  obtain ⟨st', h, h1, h2, _⟩ := empty_line_after_range_starts_hunk
    { par := { s := { rest := [] } }, patch := {}, thisLooks := .unified,
      hunk := { defaultHunk with old := { start := 1, count := 3 }, new := { start := 1, count := 3 } } } 0
    (Or.inl rfl) rfl (by decide) (by decide)
  exact ⟨st', h, h1, h2⟩

example : ∃ st', headerStep { par := { s := { rest := [] } }, patch := {}, thisLooks := .unified,
                              hunk := { defaultHunk with old := { start := 1, count := 29 }, new := { start := 0, count := 0 } } } [] 0
                   = .ok (st', true) ∧ st'.foundFirstHunk = false ∧ st'.patch.format = .unknown := by
  obtain ⟨st', h, h1, h2, _⟩ := empty_line_after_range_without_room
    { par := { s := { rest := [] } }, patch := {}, thisLooks := .unified,
      hunk := { defaultHunk with old := { start := 1, count := 29 }, new := { start := 0, count := 0 } } } 0
    (by decide)
  exact ⟨st', h, h1, by rw [h2]⟩

/-- NEW (the `diff --git` line always belongs to the header): a section whose first line is a `diff --git` line — if the header
    scan succeeds at all (the name on the line may be malformed: then it throws), the result is a git patch, the first-hunk line
    is at least the second line and the parser is left strictly after the `diff --git` line, whatever follows it (nothing,
    filler, a second `diff --git` line …).  Before the change `diff --git a/x b/x` followed by filler gave
    `linesTillFirstHunk = 0` and a parser left AT the `diff --git` line. -/
theorem git_first_line_consumed (par : Parser) (pt : Patch) (strip : Int) (l : Line) (rest : List Line) (r : Bytes)
    (hflags : par.s.eof = false ∧ par.s.bad = false) (hrest : par.s.rest = l :: rest)
    (hl : l.content = str "diff --git " ++ r)
    (body : Bool) (p : Patch) (info : HeaderInfo) (par' : Parser)
    (h : parseHeader par pt strip = .ok (body, p, info, par')) :
    p.format = .git ∧ info.format = .git ∧ 2 ≤ info.linesTillFirstHunk ∧ par'.s.rest.length < par.s.rest.length :=
  Header.parseHeader_git_first par pt strip l rest r hflags.1 hflags.2 hrest hl body p info par' h

-- the situation of the fix, evaluated: a lone `diff --git` line and a line of filler
#guard match parseHeader { s := { rest := [⟨str "diff --git a/x b/x", .lf⟩, ⟨str "some text", .lf⟩] } } {} 0 with
  | .ok (_, p, info, par') => p.format == .git && info.linesTillFirstHunk == 2 && par'.s.rest.length == 1
  | _ => false

/-! ### the `Prereq: ` line -/

/-- a word as it stands on a `Prereq: ` line: no TAB, no blank, not quoted (may be empty) -/
def plainWord (w : Bytes) : Prop := TAB ∉ w ∧ SP ∉ w ∧ w.head? ≠ some DQUOTE

/-- NEW (`parse_file_line(0, …)` for the `Prereq: ` line): **the prerequisite is not stripped like a path**.  In every state
    of the scan — no earlier rule of `headerStep` applies to a line that starts with `P` — and for every `-p`, a line
    `Prereq: w` stores the word `w` itself.  Before the change it stored `stripPath w strip`: with `-p1` the word `1.0/beta`
    became `beta`, and a word without a slash became empty (nothing was looked for). -/
theorem prereq_not_stripped (st : HState) (w : Bytes) (strip : Int) (hw : plainWord w) :
    headerStep st (str "Prereq: " ++ w) strip =
      .ok ({ st with lines := st.lines + 1, thisLooks := .unknown, patch := { st.patch with prerequisite := w } }, true) := by
  rw [Header.headerStep_prereq]
  have e : w.takeWhile (fun c => c != SP && c != TAB) = w := by
    have : ∀ (v : Bytes), TAB ∉ v → SP ∉ v → v.takeWhile (fun c => c != SP && c != TAB) = v := by
      intro v
      induction v with
      | nil => intros; rfl
      | cons c v ih =>
        intro ht hs
        have h1 : c ≠ SP := fun e => hs (by simp [e])
        have h2 : c ≠ TAB := fun e => ht (by simp [e])
        rw [List.takeWhile_cons, ih (fun h => ht (List.mem_cons_of_mem _ h)) (fun h => hs (List.mem_cons_of_mem _ h))]
        simp [h1, h2]
    exact this w hw.1 hw.2.1
  rw [e]

/-- NEW (D90): **the prerequisite is not unquoted either**: whatever stands after `Prereq: ` (`r`: any bytes, a `"` or a `\`
    included), the word stored is `r` up to its first blank or TAB, byte for byte.  Before the change a word that began with
    `"` was read as a C-quoted name (and a malformed one made the header scan throw). -/
theorem prereq_word (st : HState) (r : Bytes) (strip : Int) :
    headerStep st (str "Prereq: " ++ r) strip =
      .ok ({ st with lines := st.lines + 1, thisLooks := .unknown,
                     patch := { st.patch with prerequisite := r.takeWhile fun c => c != SP && c != TAB } }, true) :=
  Header.headerStep_prereq st r strip

/-- … while the name on an `Index: ` line is stripped, as before -/
theorem index_is_stripped (st : HState) (w : Bytes) (strip : Int) (hw : plainWord w) (hne : w ≠ []) :
    headerStep st (str "Index: " ++ w) strip =
      .ok ({ st with lines := st.lines + 1, thisLooks := .unknown,
                     patch := { st.patch with indexPath := if w = devNull then w else stripPath w strip } }, true) := by
  rw [Header.headerStep_index, Names.file_line_word w strip hne hw.2.2 hw.1 hw.2.1]
  rfl

-- what stripping did to the word (kernel-checked): with -p1 `1.0/beta` lost its first component, `1.0` everything
example : stripPath [49, 46, 48, 47, 98, 101, 116, 97] 1 = [98, 101, 116, 97] := by simp [stripPath, stripLoop, SLASH]
example : stripPath [49, 46, 48] 1 = [] := by simp [stripPath, stripLoop, SLASH]
#guard match parseHeader { s := { rest := [⟨str "Prereq: 1.0/beta", .lf⟩, ⟨str "Index: a/f", .lf⟩, ⟨str "--- a/f	1", .lf⟩,
                                           ⟨str "+++ b/f	2", .lf⟩, ⟨str "@@ -1 +1 @@", .lf⟩, ⟨str "-x", .lf⟩, ⟨str "+y", .lf⟩] } } {} 1 with
  | .ok (_, p, _, _) => p.prerequisite == str "1.0/beta" && p.indexPath == str "f" && p.oldPath == str "f"
  | _ => false

/-! ### git sections: what the ranges of the first hunk say -/

/-- NEW (the Delete / Add inference is restricted in git sections): a git patch says so if it removes or adds a file
    (`deleted file mode`, `new file mode`, or `/dev/null` as a name).  If the header scan returns a git patch and neither
    name is `/dev/null`, the operation is the one the extended header lines gave (`st.patch.operation` of the final scan
    state; `change` if there was no such line): a first hunk `@@ -1 +0,0 @@` empties the file, it does not remove it.
    Before the change `new.start = 0` alone made it a `delete`.  `Header.parseHeader_operation` gives the operation in
    every case. -/
theorem git_range_alone_infers_nothing (par : Parser) (pt : Patch) (strip : Int) (body : Bool) (p : Patch) (info : HeaderInfo)
    (par' : Parser) (h : parseHeader par pt strip = .ok (body, p, info, par')) (hg : p.format = .git)
    (hold : p.oldPath ≠ devNull) (hnew : p.newPath ≠ devNull) :
    ∃ st, headerLoop strip (par.s.rest.length + 2) { par := par, patch := pt } = .ok st ∧
      p.operation = st.patch.operation :=
  Header.parseHeader_git_operation par pt strip body p info par' h hg hold hnew

/-- a name as it stands on a `--- ` / `+++ ` line of a git diff (nothing after it): not empty, no TAB, no blank, not quoted -/
def wordName (n : Bytes) : Prop := n ≠ [] ∧ TAB ∉ n ∧ SP ∉ n ∧ n.head? ≠ some DQUOTE

/-- what a git section whose extended header lines say nothing does to the file: it is removed (added) only if the first
    range says "no lines, at line 0" AND the name on that side is `/dev/null` -/
def gitInferredOp (h : Hunk) (oldPath newPath : Bytes) : Operation :=
  if h.new.start = 0 ∧ newPath = devNull then .delete
  else if h.old.start = 0 ∧ oldPath = devNull then .add else .change

/-- NEW, the git counterpart of `unified_header_roundtrip`: **the header of a git section is read back** —
    `diff --git a/X b/X` (X any bytes), `--- old`, `+++ new`, the range line and a first body line give a git patch with the
    two names (stripped by `-p`, `/dev/null` kept), first hunk on line 4, the stream left at the range line with clean
    flags — and the operation is `gitInferredOp`, not `inferredOp`. -/
theorem git_header_roundtrip (x old new : Bytes) (h : Hunk) (first : Line) (more : List Line) (strip : Int) (lineNo : Nat)
    (hold : wordName old) (hnew : wordName new)
    (hr : 0 ≤ h.old.start ∧ h.old.start ≤ i64Max / 4 ∧ 0 ≤ h.old.count ∧ h.old.count ≤ i64Max / 4 ∧
          0 ≤ h.new.start ∧ h.new.start ≤ i64Max / 4 ∧ 0 ≤ h.new.count ∧ h.new.count ≤ i64Max / 4)
    (hfirst : startsWith first.content " " ∨ startsWith first.content "+" ∨ startsWith first.content "-")
    (hterm : first.newline ≠ .none) :
    parseHeader { s := { rest := ⟨str "diff --git " ++ (str "a/" ++ x ++ str " b/" ++ x), .lf⟩ :: ⟨str "--- " ++ old, .lf⟩ ::
                                 ⟨str "+++ " ++ new, .lf⟩ :: ⟨rangeLineText h, .lf⟩ :: first :: more }, lineNo := lineNo } {} strip
      = .ok (true,
             { format := .git,
               operation := gitInferredOp h (if old = devNull then old else stripPath old strip)
                                            (if new = devNull then new else stripPath new strip),
               oldPath := if old = devNull then old else stripPath old strip,
               newPath := if new = devNull then new else stripPath new strip },
             { linesTillFirstHunk := 4, format := .git },
             { s := { rest := ⟨rangeLineText h, .lf⟩ :: first :: more, eof := false, bad := false }, lineNo := lineNo + 3 }) := by
  have hb : Header.bodyStart first.content := by
    rcases hfirst with h1 | h1 | h1
    · exact Or.inr (Or.inr h1)
    · exact Or.inl h1
    · exact Or.inr (Or.inl h1)
  exact Header.parseHeader_git_section strip _ {} _ _ old new h first more (Names.git_header_same_name x strip)
    hold hnew hr hb hterm rfl rfl rfl rfl

/-- the two cases of the fix.  `@@ -1 +0,0 @@` under `+++ b/x` empties the file: the operation is `change` (before the
    change: `delete`, and the file was unlinked although the patch did not say so); under `+++ /dev/null` it removes it. -/
theorem git_empty_range_needs_dev_null (x : Bytes) (old new : Bytes) (first : Line) (more : List Line) (lineNo : Nat)
    (hold : wordName old) (hnew : wordName new)
    (hfirst : startsWith first.content " " ∨ startsWith first.content "+" ∨ startsWith first.content "-")
    (hterm : first.newline ≠ .none) :
    ∃ p info par',
      parseHeader { s := { rest := ⟨str "diff --git " ++ (str "a/" ++ x ++ str " b/" ++ x), .lf⟩ :: ⟨str "--- " ++ old, .lf⟩ ::
                                   ⟨str "+++ " ++ new, .lf⟩ :: ⟨rangeLineText ⟨⟨1, 1⟩, ⟨0, 0⟩, []⟩, .lf⟩ :: first :: more },
                    lineNo := lineNo } {} 0 = .ok (true, p, info, par') ∧
      p.format = .git ∧ p.oldPath = old ∧ p.newPath = new ∧
      (p.operation = if new = devNull then .delete else .change) := by
  refine ⟨_, _, _, git_header_roundtrip x old new ⟨⟨1, 1⟩, ⟨0, 0⟩, []⟩ first more 0 lineNo hold hnew (by decide) hfirst hterm,
    rfl, ?_, ?_, ?_⟩
  · simp only [Names.stripPath_zero, ite_self]
  · simp only [Names.stripPath_zero, ite_self]
  · simp only [Names.stripPath_zero, ite_self, gitInferredOp, true_and]
    split
    · rfl
    · rw [if_neg (by simp)]

/-- the operation of a header scan -/
def opOfHeader (lines : List String) (strip : Int) : Option (Format × Operation) :=
  match parseHeader { s := { rest := lines.map fun l => ⟨str l, .lf⟩ } } {} strip with
  | .ok (_, p, _, _) => some (p.format, p.operation)
  | _ => none

-- the situations of the fix, evaluated.  In a git section a range of no lines …
#guard opOfHeader ["diff --git a/x b/x", "--- a/x", "+++ b/x", "@@ -1 +0,0 @@", "-gone"] 1 == some (.git, .change)
#guard opOfHeader ["diff --git a/x b/x", "--- a/x", "+++ b/x", "@@ -0,0 +1 @@", "+new"] 1 == some (.git, .change)
-- … removes (adds) the file only together with `/dev/null` …
#guard opOfHeader ["diff --git a/x b/x", "--- a/x", "+++ /dev/null", "@@ -1 +0,0 @@", "-gone"] 1 == some (.git, .delete)
#guard opOfHeader ["diff --git a/x b/x", "--- /dev/null", "+++ b/x", "@@ -0,0 +1 @@", "+new"] 1 == some (.git, .add)
-- … or when the extended header says so …
#guard opOfHeader ["diff --git a/x b/x", "deleted file mode 100644", "--- a/x", "+++ b/x", "@@ -1 +0,0 @@", "-gone"] 1
  == some (.git, .delete)
#guard opOfHeader ["diff --git a/x b/x", "new file mode 100644", "--- a/x", "+++ b/x", "@@ -0,0 +1 @@", "+new"] 1
  == some (.git, .add)
-- … a `/dev/null` on the other side says nothing …
#guard opOfHeader ["diff --git a/x b/x", "--- /dev/null", "+++ b/x", "@@ -1 +0,0 @@", "-gone"] 1 == some (.git, .change)
-- … and outside a git section the ranges alone decide, as before (`unified_header_roundtrip`: `inferredOp`)
#guard opOfHeader ["--- a/x", "+++ b/x", "@@ -1 +0,0 @@", "-gone"] 1 == some (.unified, .delete)
#guard opOfHeader ["--- a/x", "+++ b/x", "@@ -0,0 +1 @@", "+new"] 1 == some (.unified, .add)

end PatchModel.C11

#print axioms PatchModel.C11.unified_header_roundtrip
#print axioms PatchModel.C11.unified_header_after_filler
#print axioms PatchModel.C11.unified_header_after_filler_forced
#print axioms PatchModel.C11.first_hunk_line_like_header
#print axioms PatchModel.C11.empty_line_after_range_starts_hunk
#print axioms PatchModel.C11.empty_line_after_range_without_room
#print axioms PatchModel.C11.first_hunk_line_empty
#print axioms PatchModel.C11.git_first_line_consumed
#print axioms PatchModel.C11.prereq_not_stripped
#print axioms PatchModel.C11.prereq_word
#print axioms PatchModel.C11.index_is_stripped
#print axioms PatchModel.C11.git_range_alone_infers_nothing
#print axioms PatchModel.C11.git_header_roundtrip
#print axioms PatchModel.C11.git_empty_range_needs_dev_null
