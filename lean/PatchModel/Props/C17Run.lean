/-
  C17 end to end — a READ-ONLY target, for the whole modelled program (`runPatch` = `main` after option parsing) on the TEXT of a
  unified diff:

      patch [--read-only=warn|ignore|fail] [-u] [-pN] [-F n] [--newline-output=…] -i pname name

  The situation of `C01.C01_run` (tree with the target `name` — content `bytes`, mode `m` — and the patch file `pname` whose
  content is the text of a unified diff with the hunks `hs`), but the mode of the target has NO write bit FOR THE OWNER:
  `m &&& writeMask = 0` with `writeMask = 0o200` (`C01_run` asks for `≠ 0`).

  * `--read-only=warn` (the default: `defaultOptions.readOnly = .warn`) or `=ignore`, `hs` a `Valid` script of the target's lines
    (`C17_run_filler`, `C17_run`): exit status 0; the target holds the intended result AND HAS MODE `m` AGAIN; no other path
    differs; exactly four operations on the tree: `chmod name (m ||| writeMask)`, `creat name`, `write name …`, `chmod name m`
    (`RunV.roResultOps`); the log is `roEvents o ++ [patching file name]`, i.e. the read-only warning is printed exactly when
    `o.readOnly ≠ .ignore` (`C17_run_warns`).
  * `--read-only=fail` (`C17_run_refused_filler`, `C17_run_refused`): exit status 1; the target is not touched — bytes AND mode
    as they were, no operation on it at all (the trace is: one anonymous temporary, `creat name.rej`, `write name.rej`) —;
    `name.rej` is a new file with the header and ALL hunks of the diff (for a flat name and `-p0`: the text of the diff itself);
    no other path differs.  The hunks need NOT be a valid script of the target (the applier is never called): no `Valid`
    hypothesis.  Nothing is asked of `-b`, `-R`, `-D`, `-F`, `--verbose` either.
  * with `-b` (`C17_run_backup_filler`, `C17_run_backup`, `C17_run_backup_keeps_mode`): exit status 0, the target holds the result
    with mode `m` — and THE BACKUP HOLDS THE OLD BYTES WITH THE OLD MODE `m`.  `make_backup_for` runs before `make_writable` (D93),
    so the file that is renamed to the backup name is the file as it was; `make_writable` then finds nothing at the path and does
    nothing: the operations are `rename`, `creat`, `write`, `chmod name m` — no `chmod` before the write.
    CHANGED with the model change "the backup is taken before `make_writable`": the statements said that the backup has mode
    `m ||| writeMask` and that the trace starts with `chmod name (m ||| writeMask)` — the FINDING recorded here (`patch -b` on a
    read-only file leaves a WRITABLE backup, 0444 → `f.orig` 0666) is fixed.  Kernel-checked instance: `InstanceRO.backup_applies`;
    executable: the `#guard`s next to it.

  Side conditions, compared with `C01_run`: `hw : m &&& writeMask ≠ 0` becomes `hro : m &&& writeMask = 0`; `o.readOnly ≠ .fail`
  for the successful run.  Root (`CleanStart.root`) — the model's `creat` of an existing file asks for root or the owner-write bit,
  which the target has after the first `chmod`; the closed forms used here are stated for root, as in `C01_run`.  For the refusal:
  `RefOpts` (operand, no `-o`, no `-r`, rejects not forced to context format), `s0.rejWritten = []` (what `main` starts with),
  `name.rej` free and its directories there (a flat name: `C17_run_refused`).
-/
import PatchModel.Props.C18Run
import PatchModel.Lemmas.RunV
namespace PatchModel.C17Run
open PatchModel PatchModel.Section PatchModel.Run PatchModel.DriverFacts PatchModel.RunB PatchModel.RunV PatchModel.C01
  PatchModel.C18Run

/-- the read-only warning is among what the permission check prints exactly when it is not switched off -/
theorem readOnly_mem_roEvents (o : Options) : DEv.readOnly ∈ roEvents o ↔ o.readOnly ≠ .ignore := by
  unfold roEvents
  by_cases h : o.readOnly = .ignore <;> simp [h]

section
variable {o : Options} {s0 : DState} {name pname bytes : Bytes} {m pm : Nat}
  {filler : List Line} {old new oldt newt : Bytes} {hs : List Hunk}

/-- header scan, body parse and the applier's verdict for the one section of the diff, whatever the mode of the target
    (`C18Run.baseSection_of_diff` without `hw`) -/
theorem vSection_of_diff (ho : RunOptsB o name pname) (hs0 : CleanStart s0) (hname : name ≠ [])
    (htarget : s0.fs.lookup name = some (.file bytes m))
    (hd : UnifiedDiff filler old new oldt newt hs) (hvalid : Valid (splitLines bytes) 0 0 hs) :
    ∃ patch0 info par1 par2 r,
      VSection o (forced o) (loopStart s0 (diffLines filler old new oldt newt hs)) name bytes m patch0
        { patch0 with hunks := hs } { patch0 with hunks := hs } info par1 par2 r ∧
      r.failed = 0 ∧ r.msgs = [] ∧ r.perfect = true ∧
      render o.newlineOutput r.out = Render.renderText o.newlineOutput (splice (splitLines bytes) 0 hs) ∧
      par2.s.eof = true := by
  have hfl : ∀ l ∈ filler, l.newline ≠ .none := by
    intro l hl
    have := hd.fillerPlain l hl
    unfold lfPlain at this
    simp only [Bool.and_eq_true, beq_iff_eq] at this
    rw [this.1]; simp
  have hfmt : forced o = .unknown ∨ forced o = .unified := by
    unfold forced; split
    · exact Or.inr rfl
    · exact Or.inl rfl
  obtain ⟨patch0, info, par1, par2, hhdr, hf, hop, hpre, _, hnm, _, hbody, heof⟩ :=
    parse_diffLines o.strip (forced o) hfmt filler old new oldt newt hs 1 hd.fillerInert hfl hd.oldName.1 hd.newName.1
      hd.oldStamp.1 hd.newStamp.1 hd.nonEmpty hd.writable hd.change
  have hrev : (applyOptsOf o).reverse = false := ho.base.noReverse
  obtain ⟨r, hap, hrout, _, hrfail, _, hrperf, _, _, hrmsgs, hrtty, hrpatch⟩ :=
    applyPatch_valid (splitLines bytes) hs { patch0 with hunks := hs } (applyOptsOf o)
      (Option.map (fun l => List.map (fun a => !List.isEmpty a && List.head? a != some 110) l) s0.tty)
      hvalid (by rw [hrev]; rfl) ho.base.noDefine ho.base.fuzz
  refine ⟨patch0, info, par1, par2, r, ?_, hrfail, hrmsgs ho.base.quiet, hrperf,
    C01.render_of_lines _ ho.base.noDefine hap hrout, heof⟩
  exact {
    operand := ho.base.operand, noOut := ho.base.noOut, pathNe := hname, cwd := hs0.cwd, hdr := hhdr,
    fmt := Or.inl hf, op := hop, pre := hpre, body := hbody, file := htarget,
    root := hs0.root, noFault := hs0.noFault, apply := hap, ttyLeft := hrtty,
    patch := by rw [hrpatch, hrev]; rfl, fmt3 := rfl, op3 := hop, newMode3 := hnm }

/-- **C17, the whole program on the text of a unified diff, read-only target, `--read-only=warn` (default) or `=ignore`** -/
theorem C17_run_filler (ho : RunOpts o name pname) (hnf : o.readOnly ≠ .fail) (hreal : o.dryRun = false) (hs0 : CleanStart s0)
    (hname : name ≠ []) (hdir : s0.fs.dirExists (parentOf name) = true) (hpn : pname ≠ []) (hpd : pname ≠ [45])
    (htarget : s0.fs.lookup name = some (.file bytes m)) (hro : m &&& writeMask = 0)
    (hpatch : s0.fs.lookup pname = some (.file (patchText filler old new oldt newt hs) pm))
    (hd : UnifiedDiff filler old new oldt newt hs) (hvalid : Valid (splitLines bytes) 0 0 hs) :
    (runPatch o s0).1 = 0 ∧
    (runPatch o s0).2.fs.lookup name = some (.file (Render.renderText o.newlineOutput (splice (splitLines bytes) 0 hs)) m) ∧
    (∀ q, q ≠ name → (runPatch o s0).2.fs.lookup q = s0.fs.lookup q) ∧
    (runPatch o s0).2.out = s0.out ++ roEvents o ++ [.file name false] ∧
    (runPatch o s0).2.trace = s0.trace ++ [.tmpCreate, .tmpUnlink, .tmpCreate, .tmpUnlink] ++
      roResultOps name (Render.renderText o.newlineOutput (splice (splitLines bytes) 0 hs)) m := by
  obtain ⟨patch0, info, par1, par2, r, H, hfail, hmsgs, hperf, hrender, heof⟩ :=
    vSection_of_diff (RunOptsB.of_runOpts ho) hs0 hname htarget hd hvalid
  obtain ⟨s', hrun, hfs, htr, _, _, hhf, hout, hdone⟩ :=
    processSection_readonly H hro hnf hfail hmsgs hperf ho.plain.noBackup hreal hdir
  rw [runPatch_of_end ho.file hs0 hpn hpd hpatch hd s' par2 hrun hdone heof]
  have hnfl : s'.hadFailure = false := by rw [hhf]; exact hs0.noFailure
  refine ⟨by rw [hnfl]; rfl, ?_, ?_, hout, ?_⟩
  · show s'.fs.lookup name = _
    rw [hfs, Fs.lookup_set_self, hrender]
  · intro q hq
    show s'.fs.lookup q = _
    rw [hfs, Fs.lookup_set_ne _ _ _ _ hq]
  · show s'.trace = _
    rw [htr, hrender]; show s0.trace ++ _ ++ _ ++ _ = _
    simp only [List.append_assoc, List.cons_append, List.nil_append]

end

/-- **C17, end to end.**  `patch -i pname name` (default `--read-only=warn`, or `=ignore`) in a tree with the READ-ONLY target
    `name` (mode `m`, no write bit) and the patch file `pname` = the text of a unified diff of `name`, `hs` a valid script of the
    target's lines: exit status 0, the target holds the intended result and has mode `m` again, nothing else in the tree differs;
    the log and the trace are exactly as stated. -/
theorem C17_run (o : Options) (s0 : DState) (name pname bytes oldt newt : Bytes) (m pm : Nat) (hs : List Hunk)
    (ho : RunOpts o name pname) (hnf : o.readOnly ≠ .fail) (hreal : o.dryRun = false) (hs0 : CleanStart s0)
    (hn : flatName name) (hpn : pname ≠ []) (hpd : pname ≠ [45])
    (htarget : s0.fs.lookup name = some (.file bytes m)) (hro : m &&& writeMask = 0)
    (hot : stampOk oldt) (hnt : stampOk newt)
    (hpatch : s0.fs.lookup pname = some (.file (diffText name name oldt newt hs) pm))
    (hh : DiffHunks hs) (hvalid : Valid (splitLines bytes) 0 0 hs) :
    (runPatch o s0).1 = 0 ∧
    (runPatch o s0).2.fs.lookup name = some (.file (Render.renderText o.newlineOutput (splice (splitLines bytes) 0 hs)) m) ∧
    (∀ q, q ≠ name → (runPatch o s0).2.fs.lookup q = s0.fs.lookup q) ∧
    (runPatch o s0).2.out = s0.out ++ roEvents o ++ [.file name false] ∧
    (runPatch o s0).2.trace = s0.trace ++ [.tmpCreate, .tmpUnlink, .tmpCreate, .tmpUnlink] ++
      roResultOps name (Render.renderText o.newlineOutput (splice (splitLines bytes) 0 hs)) m :=
  C17_run_filler (filler := []) ho hnf hreal hs0 hn.1 (dirExists_parent_of_noSlash s0.fs hn.2.1) hpn hpd htarget hro hpatch
    (unifiedDiff_of_flat hn hot hnt hh) hvalid

/-- **the warning is printed exactly when it is not switched off**: among the events of the run (the log was free of the
    warning before), `readOnly` occurs iff `o.readOnly ≠ .ignore` -/
theorem C17_run_warns (o : Options) (s0 : DState) (name pname bytes oldt newt : Bytes) (m pm : Nat) (hs : List Hunk)
    (ho : RunOpts o name pname) (hnf : o.readOnly ≠ .fail) (hreal : o.dryRun = false) (hs0 : CleanStart s0)
    (hn : flatName name) (hpn : pname ≠ []) (hpd : pname ≠ [45])
    (htarget : s0.fs.lookup name = some (.file bytes m)) (hro : m &&& writeMask = 0)
    (hot : stampOk oldt) (hnt : stampOk newt)
    (hpatch : s0.fs.lookup pname = some (.file (diffText name name oldt newt hs) pm))
    (hh : DiffHunks hs) (hvalid : Valid (splitLines bytes) 0 0 hs) (hquiet : DEv.readOnly ∉ s0.out) :
    (DEv.readOnly ∈ (runPatch o s0).2.out ↔ o.readOnly ≠ .ignore) := by
  obtain ⟨_, _, _, hout, _⟩ := C17_run o s0 name pname bytes oldt newt m pm hs ho hnf hreal hs0 hn hpn hpd htarget hro hot hnt
    hpatch hh hvalid
  rw [hout, ← readOnly_mem_roEvents]
  simp [hquiet]

/-! ## the refusal: `--read-only=fail` -/

/-- the options of the refused run: nothing is asked of `-b`, `-R`, `-D`, `-F`, `--verbose` (the applier is not reached) -/
structure RefOpts (o : Options) (name pname : Bytes) : Prop where
  operand : o.fileToPatch = name
  noOut : o.outFile = []
  noRejectFile : o.rejectFile = []
  rejectUnified : o.rejectFormat ≠ .context
  file : FileOpts o pname

/-- the reject file of a refused run: the two header lines with the names as stripped, then ALL hunks -/
def rejTextAll (strip : Int) (old new oldt newt : Bytes) (hs : List Hunk) : Bytes :=
  headerLine "--- " (Header.stripped old strip) oldt ++ headerLine "+++ " (Header.stripped new strip) newt ++
    hs.flatMap writeHunkUnified

/-- for a name that is not stripped it is the text of the diff itself -/
theorem rejTextAll_flat {name oldt newt : Bytes} {strip : Int} (hs : List Hunk) (hn : flatName name) (hstrip : strip ≤ 0)
    (hot : oldt ≠ []) (hnt : newt ≠ []) :
    rejTextAll strip name name oldt newt hs = diffText name name oldt newt hs := by
  have hnd := flat_ne_devNull hn.2.1
  have e : Header.stripped name strip = name := by
    unfold Header.stripped; rw [if_neg hnd, stripPath_flat hn.2.1 hstrip]
  unfold rejTextAll headerLine diffText
  rw [e, if_pos ⟨hot, hnd⟩, if_pos ⟨hnt, hnd⟩]
  simp [List.append_assoc]

section
variable {o : Options} {s0 : DState} {name pname bytes : Bytes} {m pm : Nat}
  {filler : List Line} {old new oldt newt : Bytes} {hs : List Hunk}

/-- header scan and body parse of the one section, and what `refuse_to_patch` will write -/
theorem headSection_of_diff (ho : RefOpts o name pname) (hs0 : CleanStart s0) (hname : name ≠ [])
    (htarget : s0.fs.lookup name = some (.file bytes m)) (hd : UnifiedDiff filler old new oldt newt hs) :
    ∃ patch0 info par1 par2,
      HeadSection o (forced o) (loopStart s0 (diffLines filler old new oldt newt hs)) name bytes m patch0
        { patch0 with hunks := hs } info par1 par2 ∧
      allRejectBytes { patch0 with hunks := hs } o.rejectFormat 0 hs = .ok (rejTextAll o.strip old new oldt newt hs) ∧
      par2.s.eof = true := by
  have hfl : ∀ l ∈ filler, l.newline ≠ .none := by
    intro l hl
    have := hd.fillerPlain l hl
    unfold lfPlain at this
    simp only [Bool.and_eq_true, beq_iff_eq] at this
    rw [this.1]; simp
  have hfmt : forced o = .unknown ∨ forced o = .unified := by
    unfold forced; split
    · exact Or.inr rfl
    · exact Or.inl rfl
  obtain ⟨patch0, info, par1, par2, hhdr, hf, hop, _, _, hop0, hnp0, hot0, hnt0, hbody, heof⟩ :=
    parse_diffLines_names o.strip (forced o) hfmt filler old new oldt newt hs 1 hd.fillerInert hfl hd.oldName.1 hd.newName.1
      hd.oldStamp.1 hd.newStamp.1 hd.nonEmpty hd.writable hd.change
  have hru : rejectAsUnified o.rejectFormat ({ patch0 with hunks := hs } : Patch).format = true := by
    show rejectAsUnified o.rejectFormat patch0.format = true
    rw [hf]
    have := ho.rejectUnified
    cases hx : o.rejectFormat <;> first | rfl | exact absurd hx this
  refine ⟨patch0, info, par1, par2, ?_, ?_, heof⟩
  · exact { operand := ho.operand, noOut := ho.noOut, pathNe := hname, cwd := hs0.cwd, hdr := hhdr, fmt := Or.inl hf,
            op := hop, body := hbody, file := htarget, noFault := hs0.noFault }
  · rw [allRejectBytes_unified _ _ hru hs 0, if_pos ⟨rfl, hd.nonEmpty⟩, rejTextAll, writeHeaderUnified]
    show Except.ok (headerLine "--- " patch0.oldPath patch0.oldTime ++ headerLine "+++ " patch0.newPath patch0.newTime ++ _) = _
    rw [hop0, hnp0, hot0, hnt0]

/-- **C17, the whole program on the text of a unified diff, read-only target, `--read-only=fail`**: refused — exit status 1,
    the target as it was (bytes and mode; no operation on it), all hunks in `name.rej`, nothing else differs.  No `Valid`. -/
theorem C17_run_refused_filler (ho : RefOpts o name pname) (hfl : o.readOnly = .fail) (hreal : o.dryRun = false)
    (hs0 : CleanStart s0) (hrw : s0.rejWritten = [])
    (hname : name ≠ [])
    (hfree : s0.fs.lookup (name ++ str ".rej") = none)
    (hrdirs : DirsThere s0.fs (name ++ str ".rej")) (hrdir : s0.fs.dirExists (parentOf (name ++ str ".rej")) = true)
    (hpn : pname ≠ []) (hpd : pname ≠ [45])
    (htarget : s0.fs.lookup name = some (.file bytes m)) (hro : m &&& writeMask = 0)
    (hpatch : s0.fs.lookup pname = some (.file (patchText filler old new oldt newt hs) pm))
    (hd : UnifiedDiff filler old new oldt newt hs) :
    (runPatch o s0).1 = 1 ∧
    (runPatch o s0).2.fs.lookup name = some (.file bytes m) ∧
    (runPatch o s0).2.fs.lookup (name ++ str ".rej") =
      some (.file (rejTextAll o.strip old new oldt newt hs) (0o666 - (0o666 &&& s0.fs.umask))) ∧
    (∀ q, q ≠ name ++ str ".rej" → (runPatch o s0).2.fs.lookup q = s0.fs.lookup q) ∧
    (runPatch o s0).2.out = s0.out ++
      [.readOnly, .refusing, .failed hs.length hs.length true (some (name ++ str ".rej"))] ∧
    (runPatch o s0).2.trace = s0.trace ++ [.tmpCreate, .tmpUnlink] ++
      writeOps (name ++ str ".rej") (rejTextAll o.strip old new oldt newt hs) := by
  obtain ⟨patch0, info, par1, par2, H, hb, heof⟩ := headSection_of_diff ho hs0 hname htarget hd
  obtain ⟨s', hrun, hfs, htr, _, _, hhf, hout, hdone⟩ :=
    processSection_refused H hro hfl (rejTextAll o.strip old new oldt newt hs) hd.nonEmpty hb ho.noRejectFile hreal
      (by show s0.rejWritten.contains _ = false; rw [hrw]; rfl) hfree hrdirs hrdir
  rw [runPatch_of_end ho.file hs0 hpn hpd hpatch hd s' par2 hrun hdone heof]
  have hpr : name ≠ name ++ str ".rej" := by
    intro e
    have := congrArg List.length e
    rw [str_rej] at this; simp at this
  have hrest : ∀ q, q ≠ name ++ str ".rej" → s'.fs.lookup q = s0.fs.lookup q := by
    intro q hq
    rw [hfs, Fs.lookup_set_ne _ _ _ _ hq]
  refine ⟨by rw [hhf]; rfl, ?_, ?_, hrest, hout, htr⟩
  · exact (hrest name hpr).trans htarget
  · show s'.fs.lookup _ = _
    rw [hfs, Fs.lookup_set_self]

end

/-- **C17, end to end, the refusal.**  `patch --read-only=fail -i pname name` (no `-p`, or `-p0`), the target `name` in the
    working directory is read-only: exit status 1; the target is as it was — bytes AND mode —; `name.rej` — a new file — holds
    the text of the diff (header and all hunks); nothing else in the tree differs; no operation names the target. -/
theorem C17_run_refused (o : Options) (s0 : DState) (name pname bytes oldt newt : Bytes) (m pm : Nat) (hs : List Hunk)
    (ho : RefOpts o name pname) (hfl : o.readOnly = .fail) (hstrip : o.strip ≤ 0) (hreal : o.dryRun = false)
    (hs0 : CleanStart s0) (hrw : s0.rejWritten = [])
    (hn : flatName name) (hfree : s0.fs.lookup (name ++ str ".rej") = none) (hpn : pname ≠ []) (hpd : pname ≠ [45])
    (htarget : s0.fs.lookup name = some (.file bytes m)) (hro : m &&& writeMask = 0)
    (hot : stampOk oldt) (hnt : stampOk newt)
    (hpatch : s0.fs.lookup pname = some (.file (diffText name name oldt newt hs) pm))
    (hh : DiffHunks hs) :
    (runPatch o s0).1 = 1 ∧
    (runPatch o s0).2.fs.lookup name = some (.file bytes m) ∧
    (runPatch o s0).2.fs.lookup (name ++ str ".rej") =
      some (.file (diffText name name oldt newt hs) (0o666 - (0o666 &&& s0.fs.umask))) ∧
    (∀ q, q ≠ name ++ str ".rej" → (runPatch o s0).2.fs.lookup q = s0.fs.lookup q) ∧
    (runPatch o s0).2.out = s0.out ++
      [.readOnly, .refusing, .failed hs.length hs.length true (some (name ++ str ".rej"))] ∧
    (runPatch o s0).2.trace = s0.trace ++ [.tmpCreate, .tmpUnlink] ++
      writeOps (name ++ str ".rej") (diffText name name oldt newt hs) := by
  have hrf : ∀ c ∈ name ++ str ".rej", c ≠ SLASHB := by
    intro c hc
    rcases List.mem_append.1 hc with h1 | h1
    · exact hn.2.1 c h1
    · rw [str_rej] at h1
      intro e; subst e
      revert h1; decide
  have := C17_run_refused_filler (filler := []) ho hfl hreal hs0 hrw hn.1 hfree
    (dirsThere_flat s0.fs hrf) (dirExists_parent_of_noSlash s0.fs hrf) hpn hpd htarget hro hpatch
    (unifiedDiff_of_flat hn hot hnt hh)
  rw [rejTextAll_flat hs hn hstrip hot.1 hnt.1] at this
  exact this

/-! ## with `-b`: the target has its mode again — and the backup keeps the mode of the file -/

section
variable {o : Options} {s0 : DState} {name pname bytes : Bytes} {m pm : Nat}
  {filler : List Line} {old new oldt newt : Bytes} {hs : List Hunk}

/-- **C17 / C18, the whole program, read-only target, `-b`**: exit status 0; the target holds the result with mode `m`; the
    backup holds the old bytes with the old mode `m` (CHANGED: it was `m ||| writeMask`, see the header of this file); nothing
    else differs; no `chmod` before the write (`roBackupOps`: `rename`, `creat`, `write`, `chmod name m`).
    (`hbnd`, new with the model change "a file is not renamed onto a directory": the backup name is not that of a directory, else the
    `rename` fails and the exit status is 2 — `C18Run.BackupNameTaken`.) -/
theorem C17_run_backup_filler (ho : RunOptsB o name pname) (hb : o.saveBackup = true) (hnf : o.readOnly ≠ .fail)
    (hreal : o.dryRun = false) (hs0 : CleanStart s0) (hbu : s0.backedUp = [])
    (hname : name ≠ []) (hdir : s0.fs.dirExists (parentOf name) = true)
    (hbdirs : DirsThere s0.fs (backupName o name)) (hbdir : s0.fs.dirExists (parentOf (backupName o name)) = true)
    (hbnd : ∀ m', s0.fs.lookup (backupName o name) ≠ some (.dir m'))
    (hpn : pname ≠ []) (hpd : pname ≠ [45])
    (htarget : s0.fs.lookup name = some (.file bytes m)) (hro : m &&& writeMask = 0)
    (hpatch : s0.fs.lookup pname = some (.file (patchText filler old new oldt newt hs) pm))
    (hd : UnifiedDiff filler old new oldt newt hs) (hvalid : Valid (splitLines bytes) 0 0 hs) :
    (runPatch o s0).1 = 0 ∧
    (runPatch o s0).2.fs.lookup name = some (.file (Render.renderText o.newlineOutput (splice (splitLines bytes) 0 hs)) m) ∧
    (runPatch o s0).2.fs.lookup (backupName o name) = some (.file bytes m) ∧
    (∀ q, q ≠ name → q ≠ backupName o name → (runPatch o s0).2.fs.lookup q = s0.fs.lookup q) ∧
    (runPatch o s0).2.trace = s0.trace ++ [.tmpCreate, .tmpUnlink, .tmpCreate, .tmpUnlink] ++
      roBackupOps o name (Render.renderText o.newlineOutput (splice (splitLines bytes) 0 hs)) m := by
  obtain ⟨patch0, info, par1, par2, r, H, hfail, hmsgs, _, hrender, heof⟩ := vSection_of_diff ho hs0 hname htarget hd hvalid
  obtain ⟨s', hrun, hfs, htr, _, hhf, _, hdone⟩ := processSection_readonly_backup H hro hnf hfail hmsgs hb hreal hdir
    (by show s0.backedUp.contains _ = false; rw [hbu]; rfl) hbdirs hbdir hbnd
  rw [runPatch_of_end ho.file hs0 hpn hpd hpatch hd s' par2 hrun hdone heof]
  have hnfl : s'.hadFailure = false := by rw [hhf]; exact hs0.noFailure
  have hne : name ≠ backupName o name := fun e => backupName_ne o name e.symm
  refine ⟨by rw [hnfl]; rfl, ?_, ?_, ?_, ?_⟩
  · show s'.fs.lookup name = _
    rw [hfs, Fs.lookup_set_self, hrender]
  · show s'.fs.lookup _ = _
    rw [hfs, Fs.lookup_set_ne _ _ _ _ hne.symm, Fs.lookup_set_self]
  · intro q hq hqb
    show s'.fs.lookup q = _
    rw [hfs, Fs.lookup_set_ne _ _ _ _ hq, Fs.lookup_set_ne _ _ _ _ hqb, Fs.lookup_erase_ne _ _ _ hq]
  · show s'.trace = _
    rw [htr, hrender]; show s0.trace ++ _ ++ _ ++ _ = _
    simp only [List.append_assoc, List.cons_append, List.nil_append]

end

/-- **C17 / C18, end to end, read-only target, `-b`**, target and backup name in the working directory -/
theorem C17_run_backup (o : Options) (s0 : DState) (name pname bytes oldt newt : Bytes) (m pm : Nat) (hs : List Hunk)
    (ho : RunOptsB o name pname) (hb : o.saveBackup = true) (hnf : o.readOnly ≠ .fail) (hreal : o.dryRun = false)
    (hs0 : CleanStart s0) (hbu : s0.backedUp = [])
    (hn : flatName name) (hbn : ∀ c ∈ backupName o name, c ≠ SLASHB)
    (hbnd : ∀ m', s0.fs.lookup (backupName o name) ≠ some (.dir m')) (hpn : pname ≠ []) (hpd : pname ≠ [45])
    (htarget : s0.fs.lookup name = some (.file bytes m)) (hro : m &&& writeMask = 0)
    (hot : stampOk oldt) (hnt : stampOk newt)
    (hpatch : s0.fs.lookup pname = some (.file (diffText name name oldt newt hs) pm))
    (hh : DiffHunks hs) (hvalid : Valid (splitLines bytes) 0 0 hs) :
    (runPatch o s0).1 = 0 ∧
    (runPatch o s0).2.fs.lookup name = some (.file (Render.renderText o.newlineOutput (splice (splitLines bytes) 0 hs)) m) ∧
    (runPatch o s0).2.fs.lookup (backupName o name) = some (.file bytes m) ∧
    (∀ q, q ≠ name → q ≠ backupName o name → (runPatch o s0).2.fs.lookup q = s0.fs.lookup q) ∧
    (runPatch o s0).2.trace = s0.trace ++ [.tmpCreate, .tmpUnlink, .tmpCreate, .tmpUnlink] ++
      roBackupOps o name (Render.renderText o.newlineOutput (splice (splitLines bytes) 0 hs)) m :=
  C17_run_backup_filler (filler := []) ho hb hnf hreal hs0 hbu hn.1 (dirExists_parent_of_noSlash s0.fs hn.2.1)
    (dirsThere_flat s0.fs hbn) (dirExists_parent_of_noSlash s0.fs hbn) hbnd hpn hpd htarget hro hpatch
    (unifiedDiff_of_flat hn hot hnt hh) hvalid

/-- **the backup of a read-only file is the file as it was** (NEW with the model change "the backup is taken before
    `make_writable`"): after `patch -b` on a read-only target, what is found under the backup name is exactly what was found under
    the name before the run — bytes and mode -/
theorem C17_run_backup_keeps_mode (o : Options) (s0 : DState) (name pname bytes oldt newt : Bytes) (m pm : Nat) (hs : List Hunk)
    (ho : RunOptsB o name pname) (hb : o.saveBackup = true) (hnf : o.readOnly ≠ .fail) (hreal : o.dryRun = false)
    (hs0 : CleanStart s0) (hbu : s0.backedUp = [])
    (hn : flatName name) (hbn : ∀ c ∈ backupName o name, c ≠ SLASHB)
    (hbnd : ∀ m', s0.fs.lookup (backupName o name) ≠ some (.dir m')) (hpn : pname ≠ []) (hpd : pname ≠ [45])
    (htarget : s0.fs.lookup name = some (.file bytes m)) (hro : m &&& writeMask = 0)
    (hot : stampOk oldt) (hnt : stampOk newt)
    (hpatch : s0.fs.lookup pname = some (.file (diffText name name oldt newt hs) pm))
    (hh : DiffHunks hs) (hvalid : Valid (splitLines bytes) 0 0 hs) :
    (runPatch o s0).2.fs.lookup (backupName o name) = s0.fs.lookup name := by
  obtain ⟨_, _, hbk, _, _⟩ := C17_run_backup o s0 name pname bytes oldt newt m pm hs ho hb hnf hreal hs0 hbu hn hbn hbnd hpn hpd
    htarget hro hot hnt hpatch hh hvalid
  rw [hbk, htarget]

/-! ## non-vacuity: concrete runs

The instance of `C01Run` with the mode of `f` changed to 0444: `f` = "a\nb\nc\n", `p.diff` = the one-hunk unified diff that
changes `b` to `B`.  Every hypothesis is discharged by evaluation in the kernel; independently the executable model is run on the
same state (`#guard`: executable tests, not proofs). -/
namespace InstanceRO
open PatchModel.C01.Instance (name pname bytes oldt newt hk diffHunks runOpts)

def s0 : DState :=
  { fs := { nodes := [(name, .file bytes 0o444), (pname, .file (diffText name name oldt newt [hk]) 0o644)] } }
def o : Options := PatchModel.C01.Instance.o                              -- `-i p.diff f`: --read-only=warn is the default
def oi : Options := { o with readOnly := .ignore }
def ofl : Options := { o with readOnly := .fail }
def ob : Options := { o with saveBackup := true }
def result : Bytes := [97, 10, 66, 10, 99, 10]               -- "a\nB\nc\n"
def rej : Bytes := [102, 46, 114, 101, 106]                 -- "f.rej"
def orig : Bytes := [102, 46, 111, 114, 105, 103]            -- "f.orig"

#guard defaultOptions.readOnly == .warn && o.readOnly == .warn
#guard result == str "a\nB\nc\n" && rej == str "f.rej" && orig == str "f.orig"
example : (0o444 : Nat) &&& writeMask = 0 := by decide
example : (0o444 : Nat) ||| writeMask = 0o644 := by decide

/-- **`C17_run` applies** (default options; all hypotheses discharged in the kernel): exit status 0, `f` = "a\nB\nc\n" WITH
    MODE 0444, nothing else touched, the warning printed, the trace `chmod f 0644`, `creat f`, `write f`, `chmod f 0444` -/
theorem applies :
    (runPatch o s0).1 = 0 ∧
    (runPatch o s0).2.fs.lookup name = some (.file result 0o444) ∧
    (∀ q, q ≠ name → (runPatch o s0).2.fs.lookup q = s0.fs.lookup q) ∧
    (runPatch o s0).2.out = [.readOnly, .file name false] ∧
    (runPatch o s0).2.trace = [.tmpCreate, .tmpUnlink, .tmpCreate, .tmpUnlink, .chmod name 0o644, .creat name,
      .write name result, .chmod name 0o444] := by
  have h := C17_run o s0 name pname bytes oldt newt 0o444 0o644 [hk] runOpts (by decide) rfl ⟨rfl, rfl, rfl, rfl, rfl, rfl⟩
    (by decide) (by decide) (by decide) rfl (by decide) (by decide) (by decide) rfl diffHunks (validB_sound _ _ _ _ (by decide))
  have hm : Render.renderText o.newlineOutput (splice (splitLines bytes) 0 [hk]) = result := by decide
  rw [hm] at h
  exact h

/-- with `--read-only=ignore`: the same, no warning -/
theorem applies_ignore :
    (runPatch oi s0).1 = 0 ∧ (runPatch oi s0).2.fs.lookup name = some (.file result 0o444) ∧
    (runPatch oi s0).2.out = [.file name false] := by
  have h := C17_run oi s0 name pname bytes oldt newt 0o444 0o644 [hk]
    { plain := { operand := rfl, noOut := rfl, noBackup := rfl, noReverse := rfl, noDefine := rfl, fuzz := by decide, quiet := rfl },
      file := { patchFile := rfl, noDir := rfl, noHelp := rfl, noVersion := rfl, noContext := rfl, noNormal := rfl, noEd := rfl } }
    (by decide) rfl ⟨rfl, rfl, rfl, rfl, rfl, rfl⟩
    (by decide) (by decide) (by decide) rfl (by decide) (by decide) (by decide) rfl diffHunks (validB_sound _ _ _ _ (by decide))
  have hm : Render.renderText oi.newlineOutput (splice (splitLines bytes) 0 [hk]) = result := by decide
  rw [hm] at h
  exact ⟨h.1, h.2.1, h.2.2.2.1⟩

/-- `C17_run_warns` applies to both -/
example : DEv.readOnly ∈ (runPatch o s0).2.out :=
  (C17_run_warns o s0 name pname bytes oldt newt 0o444 0o644 [hk] runOpts (by decide) rfl ⟨rfl, rfl, rfl, rfl, rfl, rfl⟩
    (by decide) (by decide) (by decide) rfl (by decide) (by decide) (by decide) rfl diffHunks (validB_sound _ _ _ _ (by decide))
    (by decide)).2 (by decide)

theorem refOpts : RefOpts ofl name pname :=
  { operand := rfl, noOut := rfl, noRejectFile := rfl, rejectUnified := by decide,
    file := { patchFile := rfl, noDir := rfl, noHelp := rfl, noVersion := rfl, noContext := rfl, noNormal := rfl, noEd := rfl } }

/-- **`C17_run_refused` applies** (`--read-only=fail`): exit status 1, `f` as it was — bytes and mode 0444 —, `f.rej` = the text
    of the diff, nothing else touched, no operation on `f` -/
theorem refused_applies :
    (runPatch ofl s0).1 = 1 ∧
    (runPatch ofl s0).2.fs.lookup name = some (.file bytes 0o444) ∧
    (runPatch ofl s0).2.fs.lookup rej = some (.file (diffText name name oldt newt [hk]) 0o644) ∧
    (∀ q, q ≠ rej → (runPatch ofl s0).2.fs.lookup q = s0.fs.lookup q) ∧
    (runPatch ofl s0).2.out = [.readOnly, .refusing, .failed 1 1 true (some rej)] ∧
    (runPatch ofl s0).2.trace = [.tmpCreate, .tmpUnlink, .creat rej, .write rej (diffText name name oldt newt [hk])] := by
  have e : name ++ str ".rej" = rej := by rw [str_rej]; rfl
  have h := C17_run_refused ofl s0 name pname bytes oldt newt 0o444 0o644 [hk] refOpts rfl (by decide) rfl
    ⟨rfl, rfl, rfl, rfl, rfl, rfl⟩ rfl (by decide) (by rw [e]; decide) (by decide) (by decide) rfl (by decide) (by decide)
    (by decide) rfl diffHunks
  rw [e] at h
  have hne : writeOps rej (diffText name name oldt newt [hk]) = [.creat rej, .write rej (diffText name name oldt newt [hk])] := by
    have : (diffText name name oldt newt [hk]).isEmpty = false := by unfold diffText; rw [Header.str_new4]; rfl
    unfold writeOps; rw [this]; rfl
  rw [hne] at h
  exact ⟨h.1, h.2.1, h.2.2.1, h.2.2.2.1, h.2.2.2.2.1, h.2.2.2.2.2⟩

/-- **`C17_run_backup` applies** (`-b`): `f` = "a\nB\nc\n" mode 0444 — and `f.orig` = "a\nb\nc\n" with MODE 0444 too; no `chmod`
    before the write -/
theorem backup_applies :
    (runPatch ob s0).1 = 0 ∧
    (runPatch ob s0).2.fs.lookup name = some (.file result 0o444) ∧
    (runPatch ob s0).2.fs.lookup orig = some (.file bytes 0o444) ∧
    (runPatch ob s0).2.trace = [.tmpCreate, .tmpUnlink, .tmpCreate, .tmpUnlink, .rename name orig,
      .creat name, .write name result, .chmod name 0o444] := by
  have e : backupName ob name = orig := by rw [(C18.backupName_spec ob name).1 rfl rfl, str_orig]; rfl
  have h := C17_run_backup ob s0 name pname bytes oldt newt 0o444 0o644 [hk] C18Run.Instance.runOptsB rfl (by decide) rfl
    ⟨rfl, rfl, rfl, rfl, rfl, rfl⟩ rfl (by decide) (by rw [e]; decide) (by rw [e]; exact notDir_of_none (by decide))
    (by decide) (by decide) rfl (by decide) (by decide)
    (by decide) rfl diffHunks (validB_sound _ _ _ _ (by decide))
  have hm : Render.renderText ob.newlineOutput (splice (splitLines bytes) 0 [hk]) = result := by decide
  unfold roBackupOps at h
  rw [hm, e] at h
  exact ⟨h.1, h.2.1, h.2.2.1, h.2.2.2.2⟩

-- independently: the executable model on the same state
#guard (runPatch o s0).1 == 0
#guard (runPatch o s0).2.fs.lookup name == some (.file (str "a\nB\nc\n") 0o444)
#guard (runPatch o s0).2.fs.lookup pname == s0.fs.lookup pname && (runPatch o s0).2.fs.nodes.length == 2
#guard (runPatch o s0).2.trace == [.tmpCreate, .tmpUnlink, .tmpCreate, .tmpUnlink, .chmod name 0o644, .creat name,
                                   .write name (str "a\nB\nc\n"), .chmod name 0o444]
#guard (runPatch o s0).2.out == [.readOnly, .file name false]
#guard (runPatch oi s0).1 == 0 && (runPatch oi s0).2.out == [.file name false] &&
  (runPatch oi s0).2.fs.lookup name == some (.file (str "a\nB\nc\n") 0o444)
#guard (runPatch ofl s0).1 == 1
#guard (runPatch ofl s0).2.fs.lookup name == some (.file (str "a\nb\nc\n") 0o444)
#guard (runPatch ofl s0).2.fs.lookup (str "f.rej") ==
  some (.file (str "--- f\t2020\n+++ f\t2021\n@@ -1,3 +1,3 @@\n a\n-b\n+B\n c\n") 0o644)
#guard (runPatch ofl s0).2.trace == [.tmpCreate, .tmpUnlink, .creat (str "f.rej"),
                                     .write (str "f.rej") (diffText name name oldt newt [hk])]
#guard (runPatch ofl s0).2.trace.all fun op => !op.paths.contains name          -- no operation names the target
-- the backup of a read-only file keeps its mode (0444; it was left writable, 0666, before D93), as the backup of a writable one does (C18Run)
#guard (runPatch ob s0).2.fs.lookup (str "f.orig") == some (.file (str "a\nb\nc\n") 0o444)
#guard (runPatch ob s0).2.trace.all fun op => match op with | .chmod _ md => md == 0o444 | _ => true
#guard (runPatch ob s0).2.fs.lookup name == some (.file (str "a\nB\nc\n") 0o444)
#guard (runPatch ob PatchModel.C01.Instance.s0).2.fs.lookup (str "f.orig") == some (.file (str "a\nb\nc\n") 0o644)
-- other read-only modes: 0400, 0555, and 0464 (group may write, the owner may not: read-only since D94)
def sMode (md : Nat) : DState :=
  { fs := { nodes := [(name, .file bytes md), (pname, .file (diffText name name oldt newt [hk]) 0o644)] } }
#guard (runPatch o (sMode 0o400)).2.fs.lookup name == some (.file (str "a\nB\nc\n") 0o400) &&
  (runPatch o (sMode 0o400)).2.trace.drop 4 == [.chmod name 0o600, .creat name, .write name (str "a\nB\nc\n"), .chmod name 0o400]
#guard (runPatch o (sMode 0o555)).2.fs.lookup name == some (.file (str "a\nB\nc\n") 0o555)
#guard (runPatch o (sMode 0o464)).2.fs.lookup name == some (.file (str "a\nB\nc\n") 0o464) &&
  (runPatch o (sMode 0o464)).2.trace.drop 4 == [.chmod name 0o664, .creat name, .write name (str "a\nB\nc\n"), .chmod name 0o464] &&
  (runPatch o (sMode 0o464)).2.out == [.readOnly, .file name false]

end InstanceRO

end PatchModel.C17Run

#print axioms PatchModel.C17Run.C17_run_filler
#print axioms PatchModel.C17Run.C17_run
#print axioms PatchModel.C17Run.C17_run_warns
#print axioms PatchModel.C17Run.C17_run_refused_filler
#print axioms PatchModel.C17Run.C17_run_refused
#print axioms PatchModel.C17Run.C17_run_backup_filler
#print axioms PatchModel.C17Run.C17_run_backup
#print axioms PatchModel.C17Run.C17_run_backup_keeps_mode
#print axioms PatchModel.C17Run.InstanceRO.applies
#print axioms PatchModel.C17Run.InstanceRO.applies_ignore
#print axioms PatchModel.C17Run.InstanceRO.refused_applies
#print axioms PatchModel.C17Run.InstanceRO.backup_applies
