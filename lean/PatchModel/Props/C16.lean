/-
  C15 / C16 (driver model) — --dry-run changes nothing; only the intended paths are touched.

  All three results are instances of the generic invariant lemmas of Lemmas/DM (`tr_processPatchM`, `inv_processSection`,
  `tr_finalizeDeferred`): an invariant `I` of the driver state is preserved by the whole of `process_patch` as soon as
  it is `Framed`, preserved by `createTemp`, and — when not --dry-run — preserved by the operations on the paths of the
  current section (`SecOk`).
    C15   `Dry fs0 t0`  tree = fs0, trace = t0 ++ temporaries, deferred lists empty
    tmp   `Tmp`         no fault scheduled, every tmpCreate directly followed by tmpUnlink
    C16   `J o c req`   cwd = c, every operation allowed w.r.t. the recorded sections, deferred lists refer to recorded sections
-/
import PatchModel.Lemmas.DM
namespace PatchModel.C16
open PatchModel PatchModel.DM

/-- the paths a run may touch, given the (file to patch, output file) pairs of its sections: those two, the reject file, the backup
    file, and the directories leading to any of them (created when missing, removed when emptied) -/
def allowedPath (o : Options) (s : DState) (p : Bytes) : Prop :=
  ∃ fo ∈ s.sections, ∃ c ∈ [fo.1, fo.2, rejectPath o fo.2, backupName o fo.2],
    p = absPath s c ∨ ∃ d ∈ dirPrefixes c, p = absPath s d

/-- `absPath` as a function of the working directory -/
def absC (c p : Bytes) : Bytes := if c.isEmpty || p.head? == some SLASHB then p else c ++ [SLASHB] ++ p

theorem absPath_eq (s : DState) (p : Bytes) : absPath s p = absC s.cwd p := rfl

/-- `allowedPath` as a function of the working directory and the recorded sections -/
def AllowedC (o : Options) (c : Bytes) (secs : List (Bytes × Bytes)) (p : Bytes) : Prop :=
  ∃ fo ∈ secs, ∃ x ∈ [fo.1, fo.2, rejectPath o fo.2, backupName o fo.2],
    p = absC c x ∨ ∃ d ∈ dirPrefixes x, p = absC c d

theorem allowedPath_iff (o : Options) (s : DState) (p : Bytes) : allowedPath o s p ↔ AllowedC o s.cwd s.sections p := Iff.rfl

def OpAllowed (o : Options) (c : Bytes) (secs : List (Bytes × Bytes)) (op : FsOp) : Prop :=
  op.isTmp = true ∨ ∀ p ∈ op.paths, AllowedC o c secs p

theorem AllowedC.mono {o : Options} {c : Bytes} {secs secs' : List (Bytes × Bytes)} {p : Bytes}
    (h : AllowedC o c secs p) (hs : ∀ x ∈ secs, x ∈ secs') : AllowedC o c secs' p := by
  obtain ⟨fo, hfo, r⟩ := h
  exact ⟨fo, hs fo hfo, r⟩

theorem OpAllowed.mono {o : Options} {c : Bytes} {secs secs' : List (Bytes × Bytes)} {op : FsOp}
    (h : OpAllowed o c secs op) (hs : ∀ x ∈ secs, x ∈ secs') : OpAllowed o c secs' op :=
  h.imp id (fun h p hp => (h p hp).mono hs)

/-- the invariant: working directory `c`, every operation so far allowed, every deferred write / removal is for the output file /
    file to patch of a recorded section, and the sections `req` are recorded -/
def J (o : Options) (c : Bytes) (req : List (Bytes × Bytes)) (s : DState) : Prop :=
  s.cwd = c ∧ (∀ op ∈ s.trace, OpAllowed o c s.sections op) ∧ (∀ w ∈ s.dWrites, ∃ fo ∈ s.sections, w.dest = fo.2) ∧
  (∀ p ∈ s.dRemovals, ∃ fo ∈ s.sections, p = fo.1) ∧ ∀ x ∈ req, x ∈ s.sections

theorem j_framed (o : Options) (c : Bytes) (req : List (Bytes × Bytes)) : Framed (J o c req) :=
  ⟨fun s s' h _ h2 h3 h4 h5 h6 _ => by unfold J at *; rw [h2, h3, h4, h5, h6]; exact h⟩

theorem j_op {o : Options} {c : Bytes} {req : List (Bytes × Bytes)} {op : FsOp}
    (h : ∀ s, J o c req s → OpAllowed o c s.sections op) : OpOk (J o c req) op := by
  constructor
  intro s fs' hs _
  refine ⟨hs.1, ?_, hs.2.2.1, hs.2.2.2.1, hs.2.2.2.2⟩
  intro x hx
  rcases List.mem_append.1 hx with hx | hx
  · exact hs.2.1 x hx
  · rw [List.mem_singleton.1 hx]; exact h s hs

theorem j_tmp (o : Options) (c : Bytes) (req : List (Bytes × Bytes)) (op : FsOp) (hop : op.isTmp = true) :
    OpOk (J o c req) op := j_op (fun _ _ => Or.inl hop)

theorem j_createTemp (o : Options) (c : Bytes) (req : List (Bytes × Bytes)) : Inv (J o c req) createTemp :=
  inv_createTemp (j_framed o c req).tick (j_tmp _ _ _ _ rfl) (j_tmp _ _ _ _ rfl)

section path
variable {o : Options} {c : Bytes} {req : List (Bytes × Bytes)} {fo : Bytes × Bytes} {x : Bytes}
  (hfo : fo ∈ req) (hx : x ∈ [fo.1, fo.2, rejectPath o fo.2, backupName o fo.2])
include hfo hx

theorem j_file {s s' : DState} (hs : J o c req s) (hs' : J o c req s') : AllowedC o c s'.sections (absPath s x) :=
  ⟨fo, hs'.2.2.2.2 fo hfo, x, hx, Or.inl (by rw [absPath_eq, hs.1])⟩

theorem j_dir {s s' : DState} (hs : J o c req s) (hs' : J o c req s') {d : Bytes} (hd : d ∈ dirPrefixes x) :
    AllowedC o c s'.sections (absPath s d) :=
  ⟨fo, hs'.2.2.2.2 fo hfo, x, hx, Or.inr ⟨d, hd, by rw [absPath_eq, hs.1]⟩⟩

theorem j_path : PathOk (J o c req) x := by
  refine ⟨fun s hs => j_op fun s' hs' => Or.inr ?_, fun s b hs => j_op fun s' hs' => Or.inr ?_,
    fun s hs => j_op fun s' hs' => Or.inr ?_, fun s m hs => j_op fun s' hs' => Or.inr ?_,
    fun s t hs => j_op fun s' hs' => Or.inr ?_, fun s d hs hd => j_op fun s' hs' => Or.inr ?_,
    fun s d hs hd => j_op fun s' hs' => Or.inr ?_⟩
  all_goals
    intro p hp
    simp only [FsOp.paths, List.mem_singleton] at hp
    subst hp
  all_goals first | exact j_file hfo hx hs hs' | exact j_dir hfo hx hs hs' hd
end path
/-- renaming the output file of a recorded section to its backup name -/
theorem j_rename {o : Options} {c : Bytes} {req : List (Bytes × Bytes)} {fo : Bytes × Bytes} (hfo : fo ∈ req) :
    RenameOk (J o c req) fo.2 (backupName o fo.2) := by
  refine ⟨fun s hs => j_op fun s' hs' => Or.inr ?_⟩
  intro p hp
  simp only [FsOp.paths, List.mem_cons, List.not_mem_nil, or_false] at hp
  rcases hp with rfl | rfl
  · exact j_file (x := fo.2) hfo (by simp) hs hs'
  · exact j_file (x := backupName o fo.2) hfo (by simp) hs hs'
theorem j_sec (o : Options) (c a b : Bytes) : SecOk (J o c [(a, b)]) o a b := by
  have hm : (a, b) ∈ [(a, b)] := List.mem_singleton.2 rfl
  refine ⟨j_path hm (by simp), j_path hm (by simp), j_path hm (by simp), j_path hm (by simp), ⟨fun s hs => j_op fun s' hs' => Or.inr ?_⟩,
    fun w hw => ⟨fun s hs => ?_⟩, ⟨fun s hs => ?_⟩⟩
  · intro p hp
    simp only [FsOp.paths, List.mem_cons, List.not_mem_nil, or_false] at hp
    rcases hp with rfl | rfl
    · exact j_file (x := b) hm (by simp) hs hs'
    · exact j_file (x := backupName o b) hm (by simp) hs hs'
  · refine ⟨hs.1, hs.2.1, ?_, hs.2.2.2.1, hs.2.2.2.2⟩
    intro w' hw'
    rcases List.mem_append.1 hw' with h | h
    · exact hs.2.2.1 w' h
    · rw [List.mem_singleton.1 h, hw]; exact ⟨(a, b), hs.2.2.2.2 _ hm, rfl⟩
  · refine ⟨hs.1, hs.2.1, hs.2.2.1, ?_, hs.2.2.2.2⟩
    intro p hp
    rcases List.mem_append.1 hp with h | h
    · exact hs.2.2.2.1 p h
    · rw [List.mem_singleton.1 h]; exact ⟨(a, b), hs.2.2.2.2 _ hm, rfl⟩

theorem j_processSection (o : Options) (c : Bytes) (format : Format) : Inv (J o c []) (processSection o format) := by
  refine inv_processSection (I' := fun a b => J o c [(a, b)]) format (j_framed o c []) (fun _ _ => j_framed o c _)
    (fun _ _ => j_createTemp o c _) ?_ ?_ (fun _ a b => j_sec o c a b)
  · intro a b s hs
    have hsub : ∀ x ∈ s.sections, x ∈ s.sections ++ [(a, b)] := fun x hx => List.mem_append_left _ hx
    refine ⟨hs.1, fun op hop => (hs.2.1 op hop).mono hsub, ?_, ?_, ?_⟩
    · intro w hw
      obtain ⟨fo, hfo, h⟩ := hs.2.2.1 w hw
      exact ⟨fo, hsub fo hfo, h⟩
    · intro p hp
      obtain ⟨fo, hfo, h⟩ := hs.2.2.2.1 p hp
      exact ⟨fo, hsub fo hfo, h⟩
    · intro x hx
      rw [List.mem_singleton.1 hx]
      exact List.mem_append_right _ (List.mem_singleton.2 rfl)
  · intro a b s hs
    exact ⟨hs.1, hs.2.1, hs.2.2.1, hs.2.2.2.1, nofun⟩

/-- the invariant of the whole run -/
def K (o : Options) (s : DState) : Prop := ∃ c, J o c [] s

theorem k_framed (o : Options) : Framed (K o) :=
  ⟨fun s s' ⟨c, h⟩ h1 h2 h3 h4 h5 h6 h7 => ⟨c, (j_framed o c []).frame s s' h h1 h2 h3 h4 h5 h6 h7⟩⟩

theorem k_processPatchM (o : Options) :
    Tr (fun s => s.trace = [] ∧ s.dWrites = [] ∧ s.dRemovals = []) (processPatchM o) (K o) := by
  have hinit : ∀ (s : DState) (c : Bytes), s.trace = [] ∧ s.dWrites = [] ∧ s.dRemovals = [] → s.cwd = c → J o c [] s := by
    rintro s c ⟨h1, h2, h3⟩ hc
    refine ⟨hc, ?_, ?_, ?_, nofun⟩
    · rw [h1]; nofun
    · rw [h2]; nofun
    · rw [h3]; nofun
  refine tr_processPatchM (k_framed o) (fun s hs => ⟨s.cwd, hinit s _ hs rfl⟩) (fun s hs => ⟨o.directory, hinit _ _ hs rfl⟩)
    (inv_exists fun c => j_createTemp o c []) (fun format => inv_exists fun c => j_processSection o c format) ?_
  refine tr_finalizeDeferred ?_
  rintro s0 ⟨c, hs0⟩
  refine ⟨J o c s0.sections, j_framed o c _, ⟨hs0.1, hs0.2.1, hs0.2.2.1, hs0.2.2.2.1, fun _ h => h⟩, ?_, ?_, ?_⟩
  · intro w hw
    obtain ⟨fo, hfo, h⟩ := hs0.2.2.1 w hw
    rw [h]; exact ⟨j_path hfo (by simp), j_path hfo (by simp), j_rename hfo⟩
  · intro p hp
    obtain ⟨fo, hfo, h⟩ := hs0.2.2.2.1 p hp
    rw [h]; exact j_path hfo (by simp)
  · intro s hs
    exact ⟨c, hs.1, hs.2.1, hs.2.2.1, hs.2.2.2.1, nofun⟩

/-- **C16**: every mutating operation of a run is on an allowed path or on an anonymous temporary -/
theorem C16_paths (o : Options) (s0 : DState)
    (h0 : s0.trace = [] ∧ s0.sections = [] ∧ s0.dWrites = [] ∧ s0.dRemovals = [] ∧ s0.cwd = []) :
    ∀ op ∈ (runPatch o s0).2.trace, op.isTmp = true ∨ ∀ p ∈ op.paths, allowedPath o (runPatch o s0).2 p := by
  have hP : s0.trace = [] ∧ s0.dWrites = [] ∧ s0.dRemovals = [] := ⟨h0.1, h0.2.2.1, h0.2.2.2.1⟩
  have hK0 : K o s0 := ⟨s0.cwd, rfl, by rw [h0.1]; nofun, by rw [h0.2.2.1]; nofun, by rw [h0.2.2.2.1]; nofun, nofun⟩
  obtain ⟨c, hc, hops, -⟩ := runPatch_of_tr (k_processPatchM o) hP hK0
  intro op hop
  have := hops op hop
  rw [← hc] at this
  exact this

end PatchModel.C16

#print axioms PatchModel.C16.C16_paths
