import PatchModel.Spec.Script
namespace PatchModel.C16
/-- placeholder until the driver model's theorems are in (see DESIGN.md section 5/C16) -/
theorem placeholder : True := trivial
end PatchModel.C16
