/-
  C15 / C16 (driver model) — --dry-run changes nothing; only the intended paths are touched.

  All three results are instances of the generic invariant lemmas of Lemmas/DM (`tr_processPatchM`, `inv_processSection`,
  `tr_finalizeDeferred`): an invariant `I` of the driver state is preserved by the whole of `process_patch` as soon as
  it is `Framed`, preserved by `createTemp`, and — when not --dry-run — preserved by the operations on the paths of the
  current section (`SecOk`).
    C15   `Dry fs0 t0`  tree = fs0, trace = t0 ++ temporaries, deferred lists empty
    tmp   `Tmp`         no fault scheduled, every tmpCreate directly followed by tmpUnlink
    C16   `J o c req`   cwd = c, every operation allowed w.r.t. the recorded sections, deferred lists refer to recorded sections
-/
import PatchModel.Lemmas.DM
namespace PatchModel.C16
open PatchModel PatchModel.DM

/-- the paths a run may touch, given the (file to patch, output file) pairs of its sections: those two, the reject file, the backup
    files of both, and the directories leading to any of them (created when missing, removed when emptied).

    CHANGED with the model change "the source of a git rename is moved to its backup name under -b" (C++ fix "keep a backup of the file a rename moves away", `finalizeDeferred`):
    the list was `[fo.1, fo.2, rejectPath o fo.2, backupName o fo.2]`; `backupName o fo.1` is new.  For every section but a rename
    or copy (and for every section under -o) `fo.1 = fo.2` or the file to patch is only read, and before the fix a rename never
    touched the backup name of its source.  With the old list the statement of `C16_paths` is false now: see
    `C16_old_allowed_false` below (git rename of "a" to "b" under -b: the last operation is `rename a a.orig`). -/
def allowedPath (o : Options) (s : DState) (p : Bytes) : Prop :=
  ∃ fo ∈ s.sections, ∃ c ∈ [fo.1, fo.2, rejectPath o fo.2, backupName o fo.2, backupName o fo.1],
    p = absPath s c ∨ ∃ d ∈ dirPrefixes c, p = absPath s d

/-- `absPath` as a function of the working directory -/
def absC (c p : Bytes) : Bytes := if c.isEmpty || p.head? == some SLASHB then p else c ++ [SLASHB] ++ p

theorem absPath_eq (s : DState) (p : Bytes) : absPath s p = absC s.cwd p := rfl

/-- `allowedPath` as a function of the working directory and the recorded sections -/
def AllowedC (o : Options) (c : Bytes) (secs : List (Bytes × Bytes)) (p : Bytes) : Prop :=
  ∃ fo ∈ secs, ∃ x ∈ [fo.1, fo.2, rejectPath o fo.2, backupName o fo.2, backupName o fo.1],
    p = absC c x ∨ ∃ d ∈ dirPrefixes x, p = absC c d

theorem allowedPath_iff (o : Options) (s : DState) (p : Bytes) : allowedPath o s p ↔ AllowedC o s.cwd s.sections p := Iff.rfl

def OpAllowed (o : Options) (c : Bytes) (secs : List (Bytes × Bytes)) (op : FsOp) : Prop :=
  op.isTmp = true ∨ ∀ p ∈ op.paths, AllowedC o c secs p

theorem AllowedC.mono {o : Options} {c : Bytes} {secs secs' : List (Bytes × Bytes)} {p : Bytes}
    (h : AllowedC o c secs p) (hs : ∀ x ∈ secs, x ∈ secs') : AllowedC o c secs' p := by
  obtain ⟨fo, hfo, r⟩ := h
  exact ⟨fo, hs fo hfo, r⟩

theorem OpAllowed.mono {o : Options} {c : Bytes} {secs secs' : List (Bytes × Bytes)} {op : FsOp}
    (h : OpAllowed o c secs op) (hs : ∀ x ∈ secs, x ∈ secs') : OpAllowed o c secs' op :=
  h.imp id (fun h p hp => (h p hp).mono hs)

/-- the invariant: working directory `c`, every operation so far allowed, every deferred write / removal is for the output file /
    file to patch of a recorded section, and the sections `req` are recorded -/
def J (o : Options) (c : Bytes) (req : List (Bytes × Bytes)) (s : DState) : Prop :=
  s.cwd = c ∧ (∀ op ∈ s.trace, OpAllowed o c s.sections op) ∧ (∀ w ∈ s.dWrites, ∃ fo ∈ s.sections, w.dest = fo.2) ∧
  (∀ p ∈ s.dRemovals, ∃ fo ∈ s.sections, p.1 = fo.1) ∧ ∀ x ∈ req, x ∈ s.sections

theorem j_framed (o : Options) (c : Bytes) (req : List (Bytes × Bytes)) : Framed (J o c req) :=
  ⟨fun s s' h _ h2 h3 h4 h5 h6 _ => by unfold J at *; rw [h2, h3, h4, h5, h6]; exact h⟩

theorem j_op {o : Options} {c : Bytes} {req : List (Bytes × Bytes)} {op : FsOp}
    (h : ∀ s, J o c req s → OpAllowed o c s.sections op) : OpOk (J o c req) op := by
  constructor
  intro s fs' hs _
  refine ⟨hs.1, ?_, hs.2.2.1, hs.2.2.2.1, hs.2.2.2.2⟩
  intro x hx
  rcases List.mem_append.1 hx with hx | hx
  · exact hs.2.1 x hx
  · rw [List.mem_singleton.1 hx]; exact h s hs

theorem j_tmp (o : Options) (c : Bytes) (req : List (Bytes × Bytes)) (op : FsOp) (hop : op.isTmp = true) :
    OpOk (J o c req) op := j_op (fun _ _ => Or.inl hop)

theorem j_createTemp (o : Options) (c : Bytes) (req : List (Bytes × Bytes)) : Inv (J o c req) createTemp :=
  inv_createTemp (j_framed o c req).tick (j_tmp _ _ _ _ rfl) (j_tmp _ _ _ _ rfl)

section path
variable {o : Options} {c : Bytes} {req : List (Bytes × Bytes)} {fo : Bytes × Bytes} {x : Bytes}
  (hfo : fo ∈ req) (hx : x ∈ [fo.1, fo.2, rejectPath o fo.2, backupName o fo.2, backupName o fo.1])
include hfo hx

theorem j_file {s s' : DState} (hs : J o c req s) (hs' : J o c req s') : AllowedC o c s'.sections (absPath s x) :=
  ⟨fo, hs'.2.2.2.2 fo hfo, x, hx, Or.inl (by rw [absPath_eq, hs.1])⟩

theorem j_dir {s s' : DState} (hs : J o c req s) (hs' : J o c req s') {d : Bytes} (hd : d ∈ dirPrefixes x) :
    AllowedC o c s'.sections (absPath s d) :=
  ⟨fo, hs'.2.2.2.2 fo hfo, x, hx, Or.inr ⟨d, hd, by rw [absPath_eq, hs.1]⟩⟩

theorem j_path : PathOk (J o c req) x := by
  refine ⟨fun s hs => j_op fun s' hs' => Or.inr ?_, fun s b hs => j_op fun s' hs' => Or.inr ?_,
    fun s hs => j_op fun s' hs' => Or.inr ?_, fun s m hs => j_op fun s' hs' => Or.inr ?_,
    fun s t hs => j_op fun s' hs' => Or.inr ?_, fun s d hs hd => j_op fun s' hs' => Or.inr ?_,
    fun s d hs hd => j_op fun s' hs' => Or.inr ?_⟩
  all_goals
    intro p hp
    simp only [FsOp.paths, List.mem_singleton] at hp
    subst hp
  all_goals first | exact j_file hfo hx hs hs' | exact j_dir hfo hx hs hs' hd
end path
/-- renaming the output file of a recorded section to its backup name -/
theorem j_rename {o : Options} {c : Bytes} {req : List (Bytes × Bytes)} {fo : Bytes × Bytes} (hfo : fo ∈ req) :
    RenameOk (J o c req) fo.2 (backupName o fo.2) := by
  refine ⟨fun s hs => j_op fun s' hs' => Or.inr ?_⟩
  intro p hp
  simp only [FsOp.paths, List.mem_cons, List.not_mem_nil, or_false] at hp
  rcases hp with rfl | rfl
  · exact j_file (x := fo.2) hfo (by simp) hs hs'
  · exact j_file (x := backupName o fo.2) hfo (by simp) hs hs'
/-- renaming the file to patch of a recorded section to its backup name (the source of a git rename under -b) -/
theorem j_rename1 {o : Options} {c : Bytes} {req : List (Bytes × Bytes)} {fo : Bytes × Bytes} (hfo : fo ∈ req) :
    RenameOk (J o c req) fo.1 (backupName o fo.1) := by
  refine ⟨fun s hs => j_op fun s' hs' => Or.inr ?_⟩
  intro p hp
  simp only [FsOp.paths, List.mem_cons, List.not_mem_nil, or_false] at hp
  rcases hp with rfl | rfl
  · exact j_file (x := fo.1) hfo (by simp) hs hs'
  · exact j_file (x := backupName o fo.1) hfo (by simp) hs hs'
theorem j_sec (o : Options) (c a b : Bytes) : SecOk (J o c [(a, b)]) o a b := by
  have hm : (a, b) ∈ [(a, b)] := List.mem_singleton.2 rfl
  refine ⟨j_path hm (by simp), j_path hm (by simp), j_path hm (by simp), j_path hm (by simp), ⟨fun s hs => j_op fun s' hs' => Or.inr ?_⟩,
    fun w hw => ⟨fun s hs => ?_⟩, fun bk => ⟨fun s hs => ?_⟩⟩
  · intro p hp
    simp only [FsOp.paths, List.mem_cons, List.not_mem_nil, or_false] at hp
    rcases hp with rfl | rfl
    · exact j_file (x := b) hm (by simp) hs hs'
    · exact j_file (x := backupName o b) hm (by simp) hs hs'
  · refine ⟨hs.1, hs.2.1, ?_, hs.2.2.2.1, hs.2.2.2.2⟩
    intro w' hw'
    rcases List.mem_append.1 hw' with h | h
    · exact hs.2.2.1 w' h
    · rw [List.mem_singleton.1 h, hw]; exact ⟨(a, b), hs.2.2.2.2 _ hm, rfl⟩
  · refine ⟨hs.1, hs.2.1, hs.2.2.1, ?_, hs.2.2.2.2⟩
    intro p hp
    rcases List.mem_append.1 hp with h | h
    · exact hs.2.2.2.1 p h
    · rw [List.mem_singleton.1 h]; exact ⟨(a, b), hs.2.2.2.2 _ hm, rfl⟩

theorem j_processSection (o : Options) (c : Bytes) (format : Format) : Inv (J o c []) (processSection o format) := by
  refine inv_processSection (I' := fun a b => J o c [(a, b)]) format (j_framed o c []) (fun _ _ => j_framed o c _)
    (fun _ _ => j_createTemp o c _) ?_ ?_ (fun _ a b => j_sec o c a b)
  · intro a b s hs
    have hsub : ∀ x ∈ s.sections, x ∈ s.sections ++ [(a, b)] := fun x hx => List.mem_append_left _ hx
    refine ⟨hs.1, fun op hop => (hs.2.1 op hop).mono hsub, ?_, ?_, ?_⟩
    · intro w hw
      obtain ⟨fo, hfo, h⟩ := hs.2.2.1 w hw
      exact ⟨fo, hsub fo hfo, h⟩
    · intro p hp
      obtain ⟨fo, hfo, h⟩ := hs.2.2.2.1 p hp
      exact ⟨fo, hsub fo hfo, h⟩
    · intro x hx
      rw [List.mem_singleton.1 hx]
      exact List.mem_append_right _ (List.mem_singleton.2 rfl)
  · intro a b s hs
    exact ⟨hs.1, hs.2.1, hs.2.2.1, hs.2.2.2.1, nofun⟩

/-- the invariant of the whole run -/
def K (o : Options) (s : DState) : Prop := ∃ c, J o c [] s

theorem k_framed (o : Options) : Framed (K o) :=
  ⟨fun s s' ⟨c, h⟩ h1 h2 h3 h4 h5 h6 h7 => ⟨c, (j_framed o c []).frame s s' h h1 h2 h3 h4 h5 h6 h7⟩⟩

theorem k_processPatchM (o : Options) :
    Tr (fun s => s.trace = [] ∧ s.dWrites = [] ∧ s.dRemovals = []) (processPatchM o) (K o) := by
  have hinit : ∀ (s : DState) (c : Bytes), s.trace = [] ∧ s.dWrites = [] ∧ s.dRemovals = [] → s.cwd = c → J o c [] s := by
    rintro s c ⟨h1, h2, h3⟩ hc
    refine ⟨hc, ?_, ?_, ?_, nofun⟩
    · rw [h1]; nofun
    · rw [h2]; nofun
    · rw [h3]; nofun
  refine tr_processPatchM (k_framed o) (fun s hs => ⟨s.cwd, hinit s _ hs rfl⟩) (fun s hs => ⟨o.directory, hinit _ _ hs rfl⟩)
    (inv_exists fun c => j_createTemp o c []) (fun format => inv_exists fun c => j_processSection o c format) ?_
  refine tr_finalizeDeferred ?_
  rintro s0 ⟨c, hs0⟩
  refine ⟨J o c s0.sections, j_framed o c _, ⟨hs0.1, hs0.2.1, hs0.2.2.1, hs0.2.2.2.1, fun _ h => h⟩, ?_, ?_, ?_⟩
  · intro w hw
    obtain ⟨fo, hfo, h⟩ := hs0.2.2.1 w hw
    rw [h]; exact ⟨j_path hfo (by simp), j_path hfo (by simp), j_rename hfo⟩
  · intro p hp
    obtain ⟨fo, hfo, h⟩ := hs0.2.2.2.1 p hp
    rw [h]; exact ⟨j_path hfo (by simp), fun _ => ⟨j_path hfo (by simp), j_rename1 hfo⟩⟩
  · intro s hs
    exact ⟨c, hs.1, hs.2.1, hs.2.2.1, hs.2.2.2.1, nofun⟩

/-- **C16**: every mutating operation of a run is on an allowed path or on an anonymous temporary -/
theorem C16_paths (o : Options) (s0 : DState)
    (h0 : s0.trace = [] ∧ s0.sections = [] ∧ s0.dWrites = [] ∧ s0.dRemovals = [] ∧ s0.cwd = []) :
    ∀ op ∈ (runPatch o s0).2.trace, op.isTmp = true ∨ ∀ p ∈ op.paths, allowedPath o (runPatch o s0).2 p := by
  have hP : s0.trace = [] ∧ s0.dWrites = [] ∧ s0.dRemovals = [] := ⟨h0.1, h0.2.2.1, h0.2.2.2.1⟩
  have hK0 : K o s0 := ⟨s0.cwd, rfl, by rw [h0.1]; nofun, by rw [h0.2.2.1]; nofun, by rw [h0.2.2.2.1]; nofun, nofun⟩
  obtain ⟨c, hc, hops, -⟩ := runPatch_of_tr (k_processPatchM o) hP hK0
  intro op hop
  have := hops op hop
  rw [← hc] at this
  exact this

/-! ### the statement with the allowed paths as they were before the backup of a rename's source is false now

    `allowedPathOld` is `allowedPath` as it was up to the C++ fix "keep a backup of the file a rename moves away" (no
    `backupName o fo.1`).  Counterexample: `patch -b -p1` on the git patch "rename a to b" in a tree that holds `a`: the one
    section is `(a, b)`, the deferred write makes `b` (and its empty backup `b.orig`), then the source is moved to ITS backup
    name: `rename a a.orig` — neither `a`, `b`, `b.rej` nor `b.orig`.  (Before the fix the last operation was `unlink a`, and the
    content of `a` as it was could be found nowhere if the patch also changed it.) -/

def allowedPathOld (o : Options) (s : DState) (p : Bytes) : Prop :=
  ∃ fo ∈ s.sections, ∃ c ∈ [fo.1, fo.2, rejectPath o fo.2, backupName o fo.2],
    p = absPath s c ∨ ∃ d ∈ dirPrefixes c, p = absPath s d

/-- the widening only adds paths -/
theorem allowedPath_of_old {o : Options} {s : DState} {p : Bytes} (h : allowedPathOld o s p) : allowedPath o s p := by
  obtain ⟨fo, hfo, c, hc, r⟩ := h
  refine ⟨fo, hfo, c, ?_, r⟩
  simp only [List.mem_cons, List.not_mem_nil, or_false] at hc ⊢
  rcases hc with h | h | h | h <;> simp [h]

namespace Cex
/-- "diff --git a/a b/b\nrename from a\nrename to b\n" -/
def patchText : Bytes := [100, 105, 102, 102, 32, 45, 45, 103, 105, 116, 32, 97, 47, 97, 32, 98, 47, 98, 10,
  114, 101, 110, 97, 109, 101, 32, 102, 114, 111, 109, 32, 97, 10, 114, 101, 110, 97, 109, 101, 32, 116, 111, 32, 98, 10]
#guard patchText == str "diff --git a/a b/b\nrename from a\nrename to b\n"
/-- the tree holds "a" = "x\n"; the patch comes on standard input -/
def s0 : DState := { fs := { nodes := [([97], .file [120, 10] 0o644)] }, stdin := patchText }
/-- `patch -b -p1` -/
def o : Options := { defaultOptions with saveBackup := true, strip := 1 }

/-- the run (kernel evaluation): exit status 0, one section `(a, b)`, last operation `rename a a.orig` -/
theorem run : (runPatch o s0).1 = 0 ∧ (runPatch o s0).2.cwd = [] ∧ (runPatch o s0).2.sections = [([97], [98])] ∧
    (runPatch o s0).2.trace = [.tmpCreate, .tmpUnlink, .tmpCreate, .tmpUnlink, .tmpCreate, .tmpUnlink,
      .creat [98, 46, 111, 114, 105, 103], .creat [98], .write [98] [120, 10], .chmod [98] 0o644,
      .rename [97] [97, 46, 111, 114, 105, 103]] ∧
    (runPatch o s0).2.fs.nodes = [([98, 46, 111, 114, 105, 103], .file [] 0o644), ([98], .file [120, 10] 0o644),
      ([97, 46, 111, 114, 105, 103], .file [120, 10] 0o644)] := by decide +kernel

theorem not_allowed_old : ¬ allowedPathOld o (runPatch o s0).2 [97, 46, 111, 114, 105, 103] := by
  rintro ⟨fo, hfo, c, hc, r⟩
  rw [run.2.2.1, List.mem_singleton] at hfo
  subst hfo
  have hcwd : ∀ x, absPath (runPatch o s0).2 x = x := by intro x; unfold absPath; rw [run.2.1]; rfl
  simp only [hcwd] at r
  have hl : [([97], [98]).1, ([97], [98]).2, rejectPath o ([97], [98]).2, backupName o ([97], [98]).2] =
      ([[97], [98], [98, 46, 114, 101, 106], [98, 46, 111, 114, 105, 103]] : List Bytes) := by decide +kernel
  rw [hl] at hc
  have hc' : c = [97] ∨ c = [98] ∨ c = [98, 46, 114, 101, 106] ∨ c = [98, 46, 111, 114, 105, 103] := by
    simpa using hc
  rcases hc' with rfl | rfl | rfl | rfl <;> revert r <;> decide
end Cex

/-- the statement of `C16_paths` with the old set of allowed paths does not hold any more -/
theorem C16_old_allowed_false :
    ¬ ∀ (o : Options) (s0 : DState), s0.trace = [] ∧ s0.sections = [] ∧ s0.dWrites = [] ∧ s0.dRemovals = [] ∧ s0.cwd = [] →
      ∀ op ∈ (runPatch o s0).2.trace, op.isTmp = true ∨ ∀ p ∈ op.paths, allowedPathOld o (runPatch o s0).2 p := by
  intro h
  have h1 := h Cex.o Cex.s0 ⟨rfl, rfl, rfl, rfl, rfl⟩ (.rename [97] [97, 46, 111, 114, 105, 103])
    (by rw [Cex.run.2.2.2.1]; simp)
  rcases h1 with h1 | h1
  · cases h1
  · exact Cex.not_allowed_old (h1 _ (by simp [FsOp.paths]))

end PatchModel.C16

#print axioms PatchModel.C16.C16_paths
#print axioms PatchModel.C16.C16_old_allowed_false
