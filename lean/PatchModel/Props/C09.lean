/-
  C18 / C04 (exit status) / C09 (driver model).
-/
import PatchModel.Model.Driver
import PatchModel.Lemmas.DriverFacts
namespace PatchModel.C09
open PatchModel PatchModel.DriverFacts

/-- an abort keeps the tree exactly as it was at the instant of the exception (no cleanup, no rollback, no further writes) -/
theorem abort_keeps_state (o : Options) (s0 s : DState) (e : Exn) (hh : o.showHelp = false ∧ o.showVersion = false)
    (h : (processPatchM o).run s0 = (.error e, s)) : runPatch o s0 = (2, s) := by
  unfold runPatch
  rw [hh.1, hh.2, h]
  rfl

/-- **a section is all or nothing with respect to the patch text**: when a section is abandoned because of its text (parser error,
    malformed counts: `parser_error` / `invalid_argument`), it has not touched any file content: the only operations it performed are
    on anonymous temporaries, or a `chmod` (the write permission given to a read-only target) -/
theorem section_atomic (o : Options) (format : Format) (s s' : DState) (e : Exn)
    (h : (processSection o format).run s = (.error e, s')) (he : e = .parserError ∨ e = .invalidArgument) :
    ∃ ops, s'.trace = s.trace ++ ops ∧ ∀ op ∈ ops, op.isTmp = true ∨ ∃ p m, op = FsOp.chmod p m := by
  obtain ⟨ops, h1, h2⟩ := (processSection_atomic o format).err s e s' h he
  exact ⟨ops, h1, fun op hop => Or.inl (h2 op hop)⟩

/-- **stronger, since the `chmod` of a read-only target is deferred to `makeWritable`**: a section abandoned because of its text
    has performed operations on anonymous temporaries only — not even the mode of the target has changed -/
theorem section_atomic_strict (o : Options) (format : Format) (s s' : DState) (e : Exn)
    (h : (processSection o format).run s = (.error e, s')) (he : e = .parserError ∨ e = .invalidArgument) :
    ∃ ops, s'.trace = s.trace ++ ops ∧ ∀ op ∈ ops, op.isTmp = true :=
  (processSection_atomic o format).err s e s' h he

/-- a file is written in one go: `creat` is always directly followed by the `write` of the whole content (or by nothing, for empty
    content); no other statement — in particular nothing that can throw because of the patch text — lies between them -/
theorem writeFile_trace (p content : Bytes) (s s' : DState) (h : (writeFile p content).run s = (.ok (), s')) :
    s'.trace = s.trace ++ (if content.isEmpty then [FsOp.creat (absPath s p)] else [FsOp.creat (absPath s p), FsOp.write (absPath s p) content]) := by
  unfold writeFile at h
  rw [run_bind, run_opCreat] at h
  split at h
  · next a s1 h1 =>
    rcases doOp_cases h1 with ⟨_, fs', _, rfl⟩ | ⟨h2, _⟩
    · rw [run_opWrite] at h
      split at h
      · next hc => cases h; rw [if_pos hc]
      · next hc =>
        rw [if_neg hc]
        rcases doOp_cases h with ⟨_, fs2, _, rfl⟩ | ⟨h2, _⟩
        · show (s.trace ++ [_]) ++ [_] = _
          rw [List.append_assoc]; rfl
        · cases h2
    · cases h2
  · cases h

/-- removing a file and its emptied directories changes nothing but the tree, the trace and the operation counter -/
theorem removeFileAndEmptyParents_keeps {β : Type} (f : DState → β)
    (hf : ∀ (s : DState) fs' t n, f { s with fs := fs', trace := t, opCount := n } = f s)
    (p : Bytes) {s s' : DState} {r : Except Exn Unit} (h : (removeFileAndEmptyParents p).run s = (r, s')) : f s' = f s := by
  have g : Good (fun s s' : DState => f s' = f s) (fun _ s s' => f s' = f s) :=
    ⟨fun _ => rfl, fun h1 h2 => h2.trans h1, fun h1 h2 => h2.trans h1⟩
  have h1 : ∀ op tol, Spec (fun s s' : DState => f s' = f s) (fun _ s s' => f s' = f s) (tryOp op tol) :=
    fun op tol => Spec.tryOp op tol (fun s _ _ => hf s _ _ _) (fun s => hf s s.fs s.trace _) (fun s => hf s s.fs s.trace _)
  have h2 : ∀ op, Spec (fun s s' : DState => f s' = f s) (fun _ s s' => f s' = f s) (doOp op) :=
    fun op => Spec.doOp op (fun s _ _ => hf s _ _ _) (fun s => hf s s.fs s.trace _)
  have key : Spec (fun s s' : DState => f s' = f s) (fun _ s s' => f s' = f s) (removeFileAndEmptyParents p) := by
    unfold removeFileAndEmptyParents; spec_walk g
  cases r with
  | ok a => exact key.ok _ _ _ h
  | error e => exact key.err _ _ _ h

/-- an operation of the removal phase of `DeferredWriter::finalize`: an `unlink` / `rmdir`, or the backup of a removal entry whose
    backup is due (the `rename` of the file to its backup name; the `creat` of an empty backup if the file is not there; before
    either, the `mkdir` of a directory of the backup name — `-B bak/` — that does not exist yet).

    CHANGED with the model change "`Backup::make_backup_for` creates the directories of the backup name": the `mkdir` clause is new
    (`RemovalOp_old_false` below). -/
def RemovalOp (o : Options) (s : DState) (l : List (Bytes × Bool)) (op : FsOp) : Prop :=
  (∃ p, op = FsOp.unlink p ∨ op = FsOp.rmdir p) ∨
  ∃ e ∈ l, e.2 = true ∧ (op = FsOp.rename (absPath s e.1) (absPath s (backupName o e.1)) ∨
    op = FsOp.creat (absPath s (backupName o e.1)) ∨
    ∃ d ∈ dirPrefixes (backupName o e.1), op = FsOp.mkdir (absPath s d))

theorem RemovalOp.cwd {o : Options} {s s1 : DState} {l : List (Bytes × Bool)} {op : FsOp} (hc : s1.cwd = s.cwd)
    (h : RemovalOp o s1 l op) : RemovalOp o s l op := by
  unfold RemovalOp at *
  simp only [absPath_cwd hc] at h
  exact h

/-- the operations of one removal -/
theorem removeNow_ops (o : Options) (p : Bytes) (b : Bool) {s s' : DState} {r : Except Exn Unit}
    (h : (removeNow o p b).run s = (r, s')) :
    s'.cwd = s.cwd ∧ ∃ ops, s'.trace = s.trace ++ ops ∧ ∀ op ∈ ops, RemovalOp o s [(p, b)] op := by
  unfold removeNow at h
  rw [run_bind] at h
  have hB : ∀ {M B : List FsOp},
      (∀ op ∈ M, ∃ d ∈ dirPrefixes (backupName o p), op = FsOp.mkdir (absPath s d)) →
      BackupOps (absPath s p) (absPath s (backupName o p)) B →
      (b = false ∨ s.backedUp.contains (backupName o p) = true → M = [] ∧ B = []) → ∀ op ∈ M ++ B, RemovalOp o s [(p, b)] op := by
    intro M B h0 h1 h2 op hop
    cases b with
    | false => rw [(h2 (Or.inl rfl)).1, (h2 (Or.inl rfl)).2] at hop; cases hop
    | true =>
      rcases List.mem_append.1 hop with hop | hop
      · exact Or.inr ⟨_, List.mem_singleton.2 rfl, rfl, Or.inr (Or.inr (h0 op hop))⟩
      · rcases h1 with rfl | rfl | rfl | rfl | rfl
        · cases hop
        · rw [List.mem_singleton.1 hop]; exact Or.inr ⟨_, List.mem_singleton.2 rfl, rfl, Or.inl rfl⟩
        · rw [List.mem_singleton.1 hop]; exact Or.inr ⟨_, List.mem_singleton.2 rfl, rfl, Or.inr (Or.inl rfl)⟩
        · rw [List.mem_singleton.1 hop]; exact Or.inl ⟨_, Or.inl rfl⟩
        · rcases List.mem_cons.1 hop with rfl | hop
          · exact Or.inl ⟨_, Or.inl rfl⟩
          · rw [List.mem_singleton.1 hop]; exact Or.inr ⟨_, List.mem_singleton.2 rfl, rfl, Or.inr (Or.inl rfl)⟩
  split at h
  · next _ s1 h1 =>
    obtain ⟨c1, M, B, t1, hM, hB1, -, hB0, -⟩ := backupStep_shape o b p h1
    rw [List.append_assoc] at t1
    rw [run_bind, run_fsExists] at h
    simp only [] at h
    split at h
    · obtain ⟨U, t2, hU⟩ := (removeFileAndEmptyParents_trExt (A := fun op => ∃ q, op = FsOp.unlink q ∨ op = FsOp.rmdir q)
        (fun q => ⟨q, Or.inl rfl⟩) (fun q => ⟨q, Or.inr rfl⟩) p).run h
      refine ⟨(removeFileAndEmptyParents_keeps (·.cwd) (fun _ _ _ _ => rfl) p h).trans c1, (M ++ B) ++ U,
        by rw [t2, t1, List.append_assoc], ?_⟩
      intro op hop
      rcases List.mem_append.1 hop with hop | hop
      · exact hB hM hB1 (fun h => hB0 (h.imp_right .inl)) op hop
      · exact Or.inl (hU op hop)
    · cases h
      exact ⟨c1, M ++ B, t1, hB hM hB1 (fun h => hB0 (h.imp_right .inl))⟩
  · next e s1 h1 =>
    cases h
    obtain ⟨c1, M, B, t1, hM, hB1, -, hB0, -⟩ := backupStep_shape o b p h1
    rw [List.append_assoc] at t1
    exact ⟨c1, M ++ B, t1, hB hM hB1 (fun h => hB0 (h.imp_right .inl))⟩

/-- the removal loop -/
theorem removals_ops (o : Options) (ws : List DeferredWrite) :
    ∀ (l : List (Bytes × Bool)) {s s' : DState} {r : Except Exn PUnit},
      (forIn l PUnit.unit fun e (_ : PUnit) =>
        if (!ws.any fun x => x.dest == e.fst) = true then do
          removeNow o e.fst e.snd
          pure (ForInStep.yield PUnit.unit)
        else (pure (ForInStep.yield PUnit.unit) : DM (ForInStep PUnit))).run s = (r, s') →
      s'.cwd = s.cwd ∧ ∃ ops, s'.trace = s.trace ++ ops ∧ ∀ op ∈ ops, RemovalOp o s l op
  | [], s, s', r, h => by
    rw [List.forIn_nil] at h; cases h
    exact ⟨rfl, [], by simp, by simp⟩
  | e :: l, s, s', r, h => by
    rw [List.forIn_cons, run_bind] at h
    have mono1 : ∀ op, RemovalOp o s [(e.1, e.2)] op → RemovalOp o s (e :: l) op := by
      rintro op (h | ⟨e', he', h⟩)
      · exact Or.inl h
      · rw [List.mem_singleton.1 he'] at h
        exact Or.inr ⟨e, List.mem_cons_self, h⟩
    have mono2 : ∀ op, RemovalOp o s l op → RemovalOp o s (e :: l) op := by
      rintro op (h | ⟨e', he', h⟩)
      · exact Or.inl h
      · exact Or.inr ⟨e', List.mem_cons_of_mem _ he', h⟩
    have step : ∀ {s1 : DState} {r1 : Except Exn (ForInStep PUnit)},
        (if (!ws.any fun x => x.dest == e.fst) = true then do
          removeNow o e.fst e.snd
          pure (ForInStep.yield PUnit.unit)
        else (pure (ForInStep.yield PUnit.unit) : DM (ForInStep PUnit))).run s = (r1, s1) →
        (s1.cwd = s.cwd ∧ ∃ ops, s1.trace = s.trace ++ ops ∧ ∀ op ∈ ops, RemovalOp o s (e :: l) op) ∧
        ∀ x, r1 = .ok x → x = ForInStep.yield PUnit.unit := by
      intro s1 r1 h1
      split at h1
      · rw [run_bind] at h1
        split at h1
        · next _ s2 h2 =>
          cases h1
          obtain ⟨c, ops, t, ho⟩ := removeNow_ops o e.1 e.2 h2
          exact ⟨⟨c, ops, t, fun op hop => mono1 op (ho op hop)⟩, fun x hx => by cases hx; rfl⟩
        · next _ s2 h2 =>
          cases h1
          obtain ⟨c, ops, t, ho⟩ := removeNow_ops o e.1 e.2 h2
          exact ⟨⟨c, ops, t, fun op hop => mono1 op (ho op hop)⟩, fun x hx => by cases hx⟩
      · cases h1
        exact ⟨⟨rfl, [], by simp, by simp⟩, fun x hx => by cases hx; rfl⟩
    split at h
    · next a s1 h1 =>
      obtain ⟨⟨c1, ops1, t1, ho1⟩, ha⟩ := step h1
      rw [ha a rfl] at h
      obtain ⟨c2, ops2, t2, ho2⟩ := removals_ops o ws l h
      refine ⟨c2.trans c1, ops1 ++ ops2, by rw [t2, t1, List.append_assoc], ?_⟩
      intro op hop
      rcases List.mem_append.1 hop with hop | hop
      · exact ho1 op hop
      · exact mono2 op ((ho2 op hop).cwd c1)
    · next e1 s1 h1 =>
      cases h
      exact (step h1).1

/-- an operation of the write phase of `DeferredWriter::finalize`: never an `rmdir`, and no `unlink` but that of (a symbolic link or a
    regular file which has) the backup name of a deferred write whose backup is due (`make_way_for`, D95 D101: the empty backup of a file
    which did not exist is neither written through a link nor into a file which may have other names) -/
def WriteOp (o : Options) (s : DState) (l : List DeferredWrite) (op : FsOp) : Prop :=
  ∀ p, (op = FsOp.unlink p → ∃ w ∈ l, w.backup = true ∧ p = absPath s (backupName o w.dest)) ∧ op ≠ FsOp.rmdir p

theorem WriteOp.cwd {o : Options} {s s1 : DState} {l : List DeferredWrite} {op : FsOp} (hc : s1.cwd = s.cwd)
    (h : WriteOp o s1 l op) : WriteOp o s l op := by
  unfold WriteOp at *
  simp only [absPath_cwd hc] at h
  exact h

/-- the operations of one deferred write -/
theorem finalizeWrite_ops (o : Options) (w : DeferredWrite) {s s' : DState} {r : Except Exn Unit}
    (h : (ensureParentDirs w.dest >>= fun _ => writeNow o w.dest w.perm w.backup w.content w.newMode).run s = (r, s')) :
    s'.cwd = s.cwd ∧ ∃ ops, s'.trace = s.trace ++ ops ∧ ∀ op ∈ ops, WriteOp o s [w] op := by
  rw [run_bind] at h
  split at h
  · next _ s1 h1 =>
    obtain ⟨⟨fs1, t1, n1, rfl⟩, ⟨D, tD, hD⟩, -⟩ := ensureParentDirs_shape _ h1
    obtain ⟨c2, M, B, W, C, t2, hM, hB, hW, hC, -, hnone, -, -⟩ := writeNow_shape _ _ _ _ _ _ h
    refine ⟨c2, D ++ (M ++ B ++ W ++ C), by rw [t2]; show t1 ++ _ ++ _ ++ _ ++ _ = _; rw [show t1 = s.trace ++ D from tD]; simp only [List.append_assoc], ?_⟩
    have hbn : ∀ q, absPath { s with fs := fs1, trace := t1, opCount := n1 } q = absPath s q := fun _ => rfl
    simp only [hbn] at hM hB hW hC
    have hunl : ∀ op ∈ B, ∀ p, (op = FsOp.unlink p → ∃ w' ∈ [w], w'.backup = true ∧ p = absPath s (backupName o w'.dest)) ∧
        op ≠ FsOp.rmdir p := by
      intro op hop p
      have hbk : w.backup = true := by
        cases hb : w.backup
        · rw [(hnone (Or.inl hb)).2] at hop; cases hop
        · rfl
      rcases hB with rfl | rfl | rfl | rfl | rfl
      · cases hop
      · rw [List.mem_singleton.1 hop]; exact ⟨nofun, nofun⟩
      · rw [List.mem_singleton.1 hop]; exact ⟨nofun, nofun⟩
      · rw [List.mem_singleton.1 hop]
        exact ⟨fun e => ⟨w, List.mem_singleton.2 rfl, hbk, by cases e; rfl⟩, nofun⟩
      · rcases List.mem_cons.1 hop with rfl | hop
        · exact ⟨fun e => ⟨w, List.mem_singleton.2 rfl, hbk, by cases e; rfl⟩, nofun⟩
        · rw [List.mem_singleton.1 hop]; exact ⟨nofun, nofun⟩
    intro op hop p
    rcases List.mem_append.1 hop with hop | hop
    · obtain ⟨d, _, rfl⟩ := hD op hop; exact ⟨nofun, nofun⟩
    · rcases List.mem_append.1 hop with hop | hop
      · rcases List.mem_append.1 hop with hop | hop
        · rcases List.mem_append.1 hop with hop | hop
          · obtain ⟨d, _, rfl⟩ := hM op hop; exact ⟨nofun, nofun⟩
          · exact hunl op hop p
        · rcases hW with rfl | ⟨m, rfl⟩
          · cases hop
          · rw [List.mem_singleton.1 hop]; exact ⟨nofun, nofun⟩
      · rcases hC with rfl | ⟨C', rfl, hC'⟩
        · cases hop
        · rcases List.mem_cons.1 hop with rfl | hop
          · exact ⟨nofun, nofun⟩
          · rcases hC' op hop with ⟨b, rfl⟩ | ⟨m, rfl⟩ <;> exact ⟨nofun, nofun⟩
  · next e s1 h1 =>
    cases h
    obtain ⟨⟨fs1, t1, n1, rfl⟩, ⟨D, tD, hD⟩, -⟩ := ensureParentDirs_shape _ h1
    refine ⟨rfl, D, tD, ?_⟩
    intro op hop p
    obtain ⟨d, _, rfl⟩ := hD op hop; exact ⟨nofun, nofun⟩

/-- the write loop -/
theorem writes_ops (o : Options) :
    ∀ (l : List DeferredWrite) {s s' : DState} {r : Except Exn PUnit},
      (forIn l PUnit.unit fun (w : DeferredWrite) (_ : PUnit) => do
        ensureParentDirs w.dest
        writeNow o w.dest w.perm w.backup w.content w.newMode
        (pure (ForInStep.yield PUnit.unit) : DM (ForInStep PUnit))).run s = (r, s') →
      s'.cwd = s.cwd ∧ ∃ ops, s'.trace = s.trace ++ ops ∧ ∀ op ∈ ops, WriteOp o s l op
  | [], s, s', r, h => by
    rw [List.forIn_nil] at h; cases h
    exact ⟨rfl, [], by simp, by simp⟩
  | w :: l, s, s', r, h => by
    rw [List.forIn_cons, run_bind] at h
    have mono1 : ∀ op, WriteOp o s [w] op → WriteOp o s (w :: l) op := by
      intro op h p
      refine ⟨fun e => ?_, (h p).2⟩
      obtain ⟨w', hw', h'⟩ := (h p).1 e
      rw [List.mem_singleton.1 hw'] at h'
      exact ⟨w, List.mem_cons_self, h'⟩
    have mono2 : ∀ op, WriteOp o s l op → WriteOp o s (w :: l) op := by
      intro op h p
      refine ⟨fun e => ?_, (h p).2⟩
      obtain ⟨w', hw', h'⟩ := (h p).1 e
      exact ⟨w', List.mem_cons_of_mem _ hw', h'⟩
    have step : ∀ {s1 : DState} {r1 : Except Exn (ForInStep PUnit)},
        (do
          ensureParentDirs w.dest
          writeNow o w.dest w.perm w.backup w.content w.newMode
          (pure (ForInStep.yield PUnit.unit) : DM (ForInStep PUnit))).run s = (r1, s1) →
        (s1.cwd = s.cwd ∧ ∃ ops, s1.trace = s.trace ++ ops ∧ ∀ op ∈ ops, WriteOp o s (w :: l) op) ∧
        ∀ x, r1 = .ok x → x = ForInStep.yield PUnit.unit := by
      intro s1 r1 h1
      have e : (do
          ensureParentDirs w.dest
          writeNow o w.dest w.perm w.backup w.content w.newMode
          (pure (ForInStep.yield PUnit.unit) : DM (ForInStep PUnit))) =
          ((ensureParentDirs w.dest >>= fun _ => writeNow o w.dest w.perm w.backup w.content w.newMode) >>= fun _ =>
            (pure (ForInStep.yield PUnit.unit) : DM (ForInStep PUnit))) := by
        simp only [bind_assoc]
      rw [e, run_bind] at h1
      split at h1
      · next _ s2 h2 =>
        cases h1
        obtain ⟨c, ops, t, ho⟩ := finalizeWrite_ops o w h2
        exact ⟨⟨c, ops, t, fun op hop => mono1 op (ho op hop)⟩, fun x hx => by cases hx; rfl⟩
      · next _ s2 h2 =>
        cases h1
        obtain ⟨c, ops, t, ho⟩ := finalizeWrite_ops o w h2
        exact ⟨⟨c, ops, t, fun op hop => mono1 op (ho op hop)⟩, fun x hx => by cases hx⟩
    split at h
    · next a s1 h1 =>
      obtain ⟨⟨c1, ops1, t1, ho1⟩, ha⟩ := step h1
      rw [ha a rfl] at h
      obtain ⟨c2, ops2, t2, ho2⟩ := writes_ops o l h
      refine ⟨c2.trans c1, ops1 ++ ops2, by rw [t2, t1, List.append_assoc], ?_⟩
      intro op hop
      rcases List.mem_append.1 hop with hop | hop
      · exact ho1 op hop
      · exact mono2 op ((ho2 op hop).cwd c1)
    · next e1 s1 h1 =>
      cases h
      exact (step h1).1

def CwdR (s s' : DState) : Prop := s'.cwd = s.cwd
theorem good_cwd : Good CwdR (fun _ => CwdR) := ⟨fun _ => rfl, fun h1 h2 => h2.trans h1, fun h1 h2 => h2.trans h1⟩

/-- **the sources of git renames are removed — or, with a backup due, moved to their backup names — only after every deferred file
    has been completely written**: the operations of `DeferredWriter::finalize` are `ws ++ rs`, no `unlink`/`rmdir` among `ws`, and
    every operation of `rs` is an `unlink`/`rmdir` or the backup of a removal entry whose backup is due (`RemovalOp`): no `write`,
    no `chmod`, no `creat` but that of an empty backup, and no `mkdir` but that of a directory of such a backup name.

    CHANGED with the model change "the source of a git rename is moved to its backup name under -b".  The statement was

        … ∧ (∀ op ∈ ws, ∀ p, op ≠ FsOp.unlink p ∧ op ≠ FsOp.rmdir p) ∧ (∀ op ∈ rs, ∃ p, op = FsOp.unlink p ∨ op = FsOp.rmdir p)

    which is false now (`finalize_removals_last_old_false` below: the backup `rename` of a second removal comes after the `unlink`
    of the first); it still holds when no removal entry has a backup due (`finalize_removals_last_plain`).

    CHANGED with the model change `remove_symbolic_link` (D95): "no `unlink`/`rmdir` among `ws`" is `WriteOp` now — no `rmdir`, and no
    `unlink` but that of the backup name of a deferred write whose backup is due (a symbolic link of that name is replaced by the empty
    backup of a file which did not exist, `C18.makeBackupFor_missing_replaces_link`). -/
theorem finalize_removals_last (o : Options) (s s' : DState) (r : Except Exn Unit) (h : (finalizeDeferred o).run s = (r, s')) :
    ∃ ws rs, s'.trace = s.trace ++ ws ++ rs ∧
      (∀ op ∈ ws, WriteOp o s s.dWrites op) ∧
      (∀ op ∈ rs, RemovalOp o s s.dRemovals op) := by
  rw [finalizeDeferred_eq, run_bind, run_get] at h
  simp only [] at h
  rw [run_bind] at h
  split at h
  · next a s1 h1 =>
    obtain ⟨c1, ws, t1, hw⟩ := writes_ops o s.dWrites h1
    rw [run_bind] at h
    have key : ∀ {r2 : Except Exn PUnit} {s2 : DState},
        (forIn s.dRemovals PUnit.unit fun e (_ : PUnit) =>
          if (!s.dWrites.any fun x => x.dest == e.fst) = true then do
            removeNow o e.fst e.snd
            pure (ForInStep.yield PUnit.unit)
          else (pure (ForInStep.yield PUnit.unit) : DM (ForInStep PUnit))).run s1 = (r2, s2) →
        ∃ rs, s2.trace = s.trace ++ ws ++ rs ∧ ∀ op ∈ rs, RemovalOp o s s.dRemovals op := by
      intro r2 s2 h2
      obtain ⟨-, rs, t2, hr⟩ := removals_ops o s.dWrites s.dRemovals h2
      exact ⟨rs, by rw [t2, t1], fun op hop => (hr op hop).cwd c1⟩
    split at h
    · next _ s2 h2 =>
      cases h
      obtain ⟨rs, t, hr⟩ := key h2
      exact ⟨ws, rs, t, hw, hr⟩
    · next _ s2 h2 =>
      cases h
      obtain ⟨rs, t, hr⟩ := key h2
      exact ⟨ws, rs, t, hw, hr⟩
  · next e s1 h1 =>
    cases h
    obtain ⟨-, ws, t1, hw⟩ := writes_ops o s.dWrites h1
    exact ⟨ws, [], by rw [t1]; simp, hw, by simp⟩


/-- the statement as it was, for runs in which no removal and no deferred write has a backup due (in particular: no -b, every hunk
    applied exactly).  (`hbw` is new with `remove_symbolic_link`: the backup of a deferred write may begin with the `unlink` of a link.) -/
theorem finalize_removals_last_plain (o : Options) (s s' : DState) (r : Except Exn Unit) (h : (finalizeDeferred o).run s = (r, s'))
    (hb : ∀ e ∈ s.dRemovals, e.2 = false) (hbw : ∀ w ∈ s.dWrites, w.backup = false) :
    ∃ ws rs, s'.trace = s.trace ++ ws ++ rs ∧
      (∀ op ∈ ws, ∀ p, op ≠ FsOp.unlink p ∧ op ≠ FsOp.rmdir p) ∧
      (∀ op ∈ rs, ∃ p, op = FsOp.unlink p ∨ op = FsOp.rmdir p) := by
  obtain ⟨ws, rs, t, hw, hr⟩ := finalize_removals_last o s s' r h
  refine ⟨ws, rs, t, fun op hop p => ⟨fun e => ?_, (hw op hop p).2⟩, fun op hop => ?_⟩
  · obtain ⟨w, hw', hbk, -⟩ := (hw op hop p).1 e
    rw [hbw w hw'] at hbk; cases hbk
  rcases hr op hop with h | ⟨e, he, h, -⟩
  · exact h
  · rw [hb e he] at h; cases h

/-! the old statement is false: two pending removals, "a" without and "b" with a backup due — `unlink a`, then `rename b b.orig`
    (in a run: `-b`, a git patch that changes `a`, renames `a` and renames `b`: the backup of `a` is made when `a` is written, so
    `a` is unlinked, and `b` is moved to `b.orig` after that) -/
def cexRemovals : DState :=
  { fs := { nodes := [([97], .file [] 0o644), ([98], .file [] 0o644)] }, dRemovals := [([97], false), ([98], true)] }

theorem cexRemovals_run : ((finalizeDeferred defaultOptions).run cexRemovals).2.trace =
    [.unlink [97], .rename [98] [98, 46, 111, 114, 105, 103]] := by decide +kernel

theorem finalize_removals_last_old_false :
    ¬ ∀ (o : Options) (s s' : DState) (r : Except Exn Unit), (finalizeDeferred o).run s = (r, s') →
      ∃ ws rs, s'.trace = s.trace ++ ws ++ rs ∧
        (∀ op ∈ ws, ∀ p, op ≠ FsOp.unlink p ∧ op ≠ FsOp.rmdir p) ∧
        (∀ op ∈ rs, ∃ p, op = FsOp.unlink p ∨ op = FsOp.rmdir p) := by
  intro h
  have h1 := h defaultOptions cexRemovals ((finalizeDeferred defaultOptions).run cexRemovals).2
    ((finalizeDeferred defaultOptions).run cexRemovals).1 rfl
  rw [cexRemovals_run] at h1
  obtain ⟨ws, rs, t, hw, hr⟩ := h1
  have t' : [FsOp.unlink [97], FsOp.rename [98] [98, 46, 111, 114, 105, 103]] = ws ++ rs := by
    rw [t]; rfl
  cases ws with
  | nil =>
    rw [List.nil_append] at t'
    obtain ⟨p, hp | hp⟩ := hr (FsOp.rename [98] [98, 46, 111, 114, 105, 103]) (by rw [← t']; simp)
    · cases hp
    · cases hp
  | cons w ws =>
    rw [List.cons_append] at t'
    injection t' with h1 _
    exact (hw w List.mem_cons_self [97]).1 h1.symm

/-! `RemovalOp` without its `mkdir` clause is false now: `-B bak/`, two pending removals, "a" without and "b" with a backup due —
    `unlink a`, then `mkdir bak`, then `rename b bak/b` -/
def cexRemovals2 : DState :=
  { fs := { nodes := [([97], .file [] 0o644), ([98], .file [] 0o644)] }, dRemovals := [([97], false), ([98], true)] }
def cexO2 : Options := { defaultOptions with backupPrefix := [98, 97, 107, 47] }

theorem cexRemovals2_run : ((finalizeDeferred cexO2).run cexRemovals2).2.trace =
    [.unlink [97], .mkdir [98, 97, 107], .rename [98] [98, 97, 107, 47, 98]] := by decide +kernel

theorem RemovalOp_old_false :
    ¬ ∀ (o : Options) (s s' : DState) (r : Except Exn Unit), (finalizeDeferred o).run s = (r, s') →
      ∃ ws rs, s'.trace = s.trace ++ ws ++ rs ∧
        (∀ op ∈ ws, ∀ p, op ≠ FsOp.unlink p ∧ op ≠ FsOp.rmdir p) ∧
        (∀ op ∈ rs, (∃ p, op = FsOp.unlink p ∨ op = FsOp.rmdir p) ∨
          ∃ e ∈ s.dRemovals, e.2 = true ∧ (op = FsOp.rename (absPath s e.1) (absPath s (backupName o e.1)) ∨
            op = FsOp.creat (absPath s (backupName o e.1)))) := by
  intro h
  rcases hrun : (finalizeDeferred cexO2).run cexRemovals2 with ⟨r, s'⟩
  have h1 := h cexO2 cexRemovals2 s' r hrun
  have ht := cexRemovals2_run
  rw [hrun] at ht
  rw [show s'.trace = _ from ht] at h1
  obtain ⟨ws, rs, t, hw, hr⟩ := h1
  have t' : [FsOp.unlink [97], FsOp.mkdir [98, 97, 107], FsOp.rename [98] [98, 97, 107, 47, 98]] = ws ++ rs := by
    rw [t]; rfl
  cases ws with
  | nil =>
    rw [List.nil_append] at t'
    rcases hr (FsOp.mkdir [98, 97, 107]) (by rw [← t']; simp) with ⟨p, hp | hp⟩ | ⟨e, _, _, hp | hp⟩ <;> cases hp
  | cons w ws =>
    rw [List.cons_append] at t'
    injection t' with h1 _
    exact (hw w List.mem_cons_self [97]).1 h1.symm

/-- the record `write_patched_result_to_file` hands to `DeferredWriter` -/
def deferredRecord (p : Patch) (out : Bytes) (perm : PermResult) (sb : Bool) (content : Bytes) : DeferredWrite :=
  { dest := out, content := content, newMode := p.newMode, perm := perm, backup := sb }

/-- `write_patched_result_to_file` on the deferred path -/
theorem writePatchedResult_deferred_eq (o : Options) (p : Patch) (out : Bytes) (perm : PermResult) (sb : Bool) (content : Bytes)
    (hg : p.format = .git) (hd : p.operation ≠ .delete) (hl : isSymlinkMode p.newMode = false) :
    writePatchedResult o p out perm sb content =
      ((if (p.operation == .add) = true then ensureParentDirs out else pure ()) >>= fun _ =>
        modify fun s => { s with dWrites := s.dWrites ++ [deferredRecord p out perm sb content] }) := by
  have h1 : (p.format == .git && p.operation != .delete) = true := by
    rw [hg]; simp [hd]
  unfold writePatchedResult
  simp only [h1, hl, ↓reduceIte, Bool.false_eq_true]
  split <;> simp [deferredRecord]

/-- **a deferred write is only recorded** (git patch, not a deletion, not a symbolic link; nothing to create): `writePatchedResult`
    performs no file system operation at all — in particular no backup `rename` of the output file, which `DeferredWriter::finalize`
    now makes right before it writes the file — and appends the record, with the backup request, to the deferred list -/
theorem deferred_write_touches_nothing (o : Options) (p : Patch) (out : Bytes) (perm : PermResult) (sb : Bool) (content : Bytes)
    (s : DState) (hg : p.format = .git) (hd : p.operation ≠ .delete) (ha : p.operation ≠ .add)
    (hl : isSymlinkMode p.newMode = false) :
    (writePatchedResult o p out perm sb content).run s =
      (.ok (), { s with dWrites := s.dWrites ++ [deferredRecord p out perm sb content] }) := by
  rw [writePatchedResult_deferred_eq o p out perm sb content hg hd hl]
  have : (p.operation == .add) = false := by simp [ha]
  simp only [this, Bool.false_eq_true, ↓reduceIte]
  rfl

/-- creating the parent directories does not touch the deferred list -/
theorem ensureParentDirs_dWrites (p : Bytes) {s s' : DState} {r : Except Exn Unit}
    (h : (ensureParentDirs p).run s = (r, s')) : s'.dWrites = s.dWrites :=
  ensureParentDirs_keeps (·.dWrites) (fun _ _ _ _ => rfl) p h

/-- the same for every deferred write, additions included: the only operations are the `mkdir`s of the parent directories — no
    `rename`, no `creat`: neither the backup nor the output file is touched before `finalize` —, and on success the record is the
    last entry of the deferred list -/
theorem deferred_write_no_backup_yet (o : Options) (p : Patch) (out : Bytes) (perm : PermResult) (sb : Bool) (content : Bytes)
    (s s' : DState) (r : Except Exn Unit) (hg : p.format = .git) (hd : p.operation ≠ .delete)
    (hl : isSymlinkMode p.newMode = false)
    (h : (writePatchedResult o p out perm sb content).run s = (r, s')) :
    (∃ ops, s'.trace = s.trace ++ ops ∧ ∀ op ∈ ops, ∃ d, op = FsOp.mkdir d) ∧
    (r = .ok () → s'.dWrites = s.dWrites ++ [deferredRecord p out perm sb content]) ∧
    (p.operation ≠ .add → s'.fs = s.fs ∧ s'.trace = s.trace) := by
  refine ⟨?_, ?_, ?_⟩
  · rw [writePatchedResult_deferred_eq o p out perm sb content hg hd hl] at h
    have : TrExt (fun op => ∃ d, op = FsOp.mkdir d)
        ((if (p.operation == .add) = true then ensureParentDirs out else pure ()) >>= fun _ =>
          (modify fun s => { s with dWrites := s.dWrites ++ [deferredRecord p out perm sb content] } : DM Unit)) := by
      have := ensureParentDirs_trExt (A := fun op => ∃ d, op = FsOp.mkdir d) (fun d => ⟨d, rfl⟩)
      spec_walk (good_ext _)
    exact this.run h
  · rintro rfl
    rw [writePatchedResult_deferred_eq o p out perm sb content hg hd hl, run_bind] at h
    split at h
    · next a s1 h1 =>
      cases h
      have : s1.dWrites = s.dWrites := by
        split at h1
        · exact ensureParentDirs_dWrites _ h1
        · cases h1; rfl
      show s1.dWrites ++ _ = _
      rw [this]
    · cases h
  · intro ha
    rw [deferred_write_touches_nothing o p out perm sb content s hg hd ha hl] at h
    cases h; exact ⟨rfl, rfl⟩
end PatchModel.C09

#print axioms PatchModel.C09.abort_keeps_state
#print axioms PatchModel.C09.section_atomic
#print axioms PatchModel.C09.section_atomic_strict
#print axioms PatchModel.C09.writeFile_trace
#print axioms PatchModel.C09.finalize_removals_last
#print axioms PatchModel.C09.finalize_removals_last_plain
#print axioms PatchModel.C09.finalize_removals_last_old_false
#print axioms PatchModel.C09.RemovalOp_old_false
#print axioms PatchModel.C09.deferred_write_touches_nothing
#print axioms PatchModel.C09.deferred_write_no_backup_yet
