/-
  C18 / C04 (exit status) / C09 (driver model).
-/
import PatchModel.Model.Driver
import PatchModel.Lemmas.DriverFacts
namespace PatchModel.C09
open PatchModel PatchModel.DriverFacts

/-- an abort keeps the tree exactly as it was at the instant of the exception (no cleanup, no rollback, no further writes) -/
theorem abort_keeps_state (o : Options) (s0 s : DState) (e : Exn) (hh : o.showHelp = false ∧ o.showVersion = false)
    (h : (processPatchM o).run s0 = (.error e, s)) : runPatch o s0 = (2, s) := by
  unfold runPatch
  rw [hh.1, hh.2, h]
  rfl

/-- **a section is all or nothing with respect to the patch text**: when a section is abandoned because of its text (parser error,
    malformed counts: `parser_error` / `invalid_argument`), it has not touched any file content: the only operations it performed are
    on anonymous temporaries, or a `chmod` (the write permission given to a read-only target) -/
theorem section_atomic (o : Options) (format : Format) (s s' : DState) (e : Exn)
    (h : (processSection o format).run s = (.error e, s')) (he : e = .parserError ∨ e = .invalidArgument) :
    ∃ ops, s'.trace = s.trace ++ ops ∧ ∀ op ∈ ops, op.isTmp = true ∨ ∃ p m, op = FsOp.chmod p m := by
  exact (processSection_atomic o format).err s e s' h he

/-- a file is written in one go: `creat` is always directly followed by the `write` of the whole content (or by nothing, for empty
    content); no other statement — in particular nothing that can throw because of the patch text — lies between them -/
theorem writeFile_trace (p content : Bytes) (s s' : DState) (h : (writeFile p content).run s = (.ok (), s')) :
    s'.trace = s.trace ++ (if content.isEmpty then [FsOp.creat (absPath s p)] else [FsOp.creat (absPath s p), FsOp.write (absPath s p) content]) := by
  unfold writeFile at h
  rw [run_bind, run_opCreat] at h
  split at h
  · next a s1 h1 =>
    rcases doOp_cases h1 with ⟨_, fs', _, rfl⟩ | ⟨h2, _⟩
    · rw [run_opWrite] at h
      split at h
      · next hc => cases h; rw [if_pos hc]
      · next hc =>
        rw [if_neg hc]
        rcases doOp_cases h with ⟨_, fs2, _, rfl⟩ | ⟨h2, _⟩
        · show (s.trace ++ [_]) ++ [_] = _
          rw [List.append_assoc]; rfl
        · cases h2
    · cases h2
  · cases h

/-- the sources of git renames are removed only after every deferred file has been completely written: in the operations of
    `DeferredWriter::finalize` no `unlink`/`rmdir` precedes a `creat`/`write`/`chmod`/`mkdir` -/
theorem finalize_removals_last (s s' : DState) (r : Except Exn Unit) (h : finalizeDeferred.run s = (r, s')) :
    ∃ ws rs, s'.trace = s.trace ++ ws ++ rs ∧
      (∀ op ∈ ws, ∀ p, op ≠ FsOp.unlink p ∧ op ≠ FsOp.rmdir p) ∧
      (∀ op ∈ rs, ∃ p, op = FsOp.unlink p ∨ op = FsOp.rmdir p) := by
  unfold finalizeDeferred at h
  rw [run_bind, run_get] at h
  refine TrExt.seq2 (A := fun op => ∀ p, op ≠ FsOp.unlink p ∧ op ≠ FsOp.rmdir p)
    (B := fun op => ∃ p, op = FsOp.unlink p ∨ op = FsOp.rmdir p) ?_ (fun _ => ?_) h
  · spec_walk (good_ext _)
    · exact ensureParentDirs_trExt (by intro p q; simp) _
    · exact writeFile_trExt (by intro p q; simp) (by intro p b q; simp) _ _
    · exact permissionCallback_trExt (by intro p m q; simp) _ _ _
  · spec_walk (good_ext _)
    exact removeFileAndEmptyParents_trExt (fun p => ⟨p, Or.inl rfl⟩) (fun p => ⟨p, Or.inr rfl⟩) _

end PatchModel.C09

#print axioms PatchModel.C09.abort_keeps_state
#print axioms PatchModel.C09.section_atomic
#print axioms PatchModel.C09.writeFile_trace
#print axioms PatchModel.C09.finalize_removals_last
