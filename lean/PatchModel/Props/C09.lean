import PatchModel.Spec.Script
namespace PatchModel.C09
/-- placeholder until the driver model's theorems are in (see DESIGN.md section 5/C09) -/
theorem placeholder : True := trivial
end PatchModel.C09
