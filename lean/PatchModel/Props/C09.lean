/-
  C18 / C04 (exit status) / C09 (driver model).
-/
import PatchModel.Model.Driver
import PatchModel.Lemmas.DriverFacts
namespace PatchModel.C09
open PatchModel PatchModel.DriverFacts

/-- an abort keeps the tree exactly as it was at the instant of the exception (no cleanup, no rollback, no further writes) -/
theorem abort_keeps_state (o : Options) (s0 s : DState) (e : Exn) (hh : o.showHelp = false ∧ o.showVersion = false)
    (h : (processPatchM o).run s0 = (.error e, s)) : runPatch o s0 = (2, s) := by
  unfold runPatch
  rw [hh.1, hh.2, h]
  rfl

/-- **a section is all or nothing with respect to the patch text**: when a section is abandoned because of its text (parser error,
    malformed counts: `parser_error` / `invalid_argument`), it has not touched any file content: the only operations it performed are
    on anonymous temporaries, or a `chmod` (the write permission given to a read-only target) -/
theorem section_atomic (o : Options) (format : Format) (s s' : DState) (e : Exn)
    (h : (processSection o format).run s = (.error e, s')) (he : e = .parserError ∨ e = .invalidArgument) :
    ∃ ops, s'.trace = s.trace ++ ops ∧ ∀ op ∈ ops, op.isTmp = true ∨ ∃ p m, op = FsOp.chmod p m := by
  obtain ⟨ops, h1, h2⟩ := (processSection_atomic o format).err s e s' h he
  exact ⟨ops, h1, fun op hop => Or.inl (h2 op hop)⟩

/-- **stronger, since the `chmod` of a read-only target is deferred to `makeWritable`**: a section abandoned because of its text
    has performed operations on anonymous temporaries only — not even the mode of the target has changed -/
theorem section_atomic_strict (o : Options) (format : Format) (s s' : DState) (e : Exn)
    (h : (processSection o format).run s = (.error e, s')) (he : e = .parserError ∨ e = .invalidArgument) :
    ∃ ops, s'.trace = s.trace ++ ops ∧ ∀ op ∈ ops, op.isTmp = true :=
  (processSection_atomic o format).err s e s' h he

/-- a file is written in one go: `creat` is always directly followed by the `write` of the whole content (or by nothing, for empty
    content); no other statement — in particular nothing that can throw because of the patch text — lies between them -/
theorem writeFile_trace (p content : Bytes) (s s' : DState) (h : (writeFile p content).run s = (.ok (), s')) :
    s'.trace = s.trace ++ (if content.isEmpty then [FsOp.creat (absPath s p)] else [FsOp.creat (absPath s p), FsOp.write (absPath s p) content]) := by
  unfold writeFile at h
  rw [run_bind, run_opCreat] at h
  split at h
  · next a s1 h1 =>
    rcases doOp_cases h1 with ⟨_, fs', _, rfl⟩ | ⟨h2, _⟩
    · rw [run_opWrite] at h
      split at h
      · next hc => cases h; rw [if_pos hc]
      · next hc =>
        rw [if_neg hc]
        rcases doOp_cases h with ⟨_, fs2, _, rfl⟩ | ⟨h2, _⟩
        · show (s.trace ++ [_]) ++ [_] = _
          rw [List.append_assoc]; rfl
        · cases h2
    · cases h2
  · cases h

/-- the sources of git renames are removed only after every deferred file has been completely written: in the operations of
    `DeferredWriter::finalize` no `unlink`/`rmdir` precedes a `creat`/`write`/`chmod`/`mkdir` or the `rename` of a backup -/
theorem finalize_removals_last (o : Options) (s s' : DState) (r : Except Exn Unit) (h : (finalizeDeferred o).run s = (r, s')) :
    ∃ ws rs, s'.trace = s.trace ++ ws ++ rs ∧
      (∀ op ∈ ws, ∀ p, op ≠ FsOp.unlink p ∧ op ≠ FsOp.rmdir p) ∧
      (∀ op ∈ rs, ∃ p, op = FsOp.unlink p ∨ op = FsOp.rmdir p) := by
  unfold finalizeDeferred at h
  rw [run_bind, run_get] at h
  refine TrExt.seq2 (A := fun op => ∀ p, op ≠ FsOp.unlink p ∧ op ≠ FsOp.rmdir p)
    (B := fun op => ∃ p, op = FsOp.unlink p ∨ op = FsOp.rmdir p) ?_ (fun _ => ?_) h
  · spec_walk (good_ext _)
    all_goals first
      | exact ensureParentDirs_trExt (by intro p q; simp) _
      | exact makeWritable_trExt (by intro p m q; simp) _ _
      | exact makeBackupFor_trExt (by intro a b q; simp) (by intro a q; simp) _ _
      | exact writeFile_trExt (by intro p q; simp) (by intro p b q; simp) _ _
      | exact permissionCallback_trExt (by intro p m q; simp) _ _ _
  · spec_walk (good_ext _)
    exact removeFileAndEmptyParents_trExt (fun p => ⟨p, Or.inl rfl⟩) (fun p => ⟨p, Or.inr rfl⟩) _

/-- the record `write_patched_result_to_file` hands to `DeferredWriter` -/
def deferredRecord (p : Patch) (out : Bytes) (perm : PermResult) (sb : Bool) (content : Bytes) : DeferredWrite :=
  { dest := out, content := content, newMode := p.newMode, perm := perm, backup := sb }

/-- `write_patched_result_to_file` on the deferred path -/
theorem writePatchedResult_deferred_eq (o : Options) (p : Patch) (out : Bytes) (perm : PermResult) (sb : Bool) (content : Bytes)
    (hg : p.format = .git) (hd : p.operation ≠ .delete) (hl : isSymlinkMode p.newMode = false) :
    writePatchedResult o p out perm sb content =
      ((if (p.operation == .add) = true then ensureParentDirs out else pure ()) >>= fun _ =>
        modify fun s => { s with dWrites := s.dWrites ++ [deferredRecord p out perm sb content] }) := by
  have h1 : (p.format == .git && p.operation != .delete) = true := by
    rw [hg]; simp [hd]
  unfold writePatchedResult
  simp only [h1, hl, ↓reduceIte, Bool.false_eq_true]
  split <;> simp [deferredRecord]

/-- **a deferred write is only recorded** (git patch, not a deletion, not a symbolic link; nothing to create): `writePatchedResult`
    performs no file system operation at all — in particular no backup `rename` of the output file, which `DeferredWriter::finalize`
    now makes right before it writes the file — and appends the record, with the backup request, to the deferred list -/
theorem deferred_write_touches_nothing (o : Options) (p : Patch) (out : Bytes) (perm : PermResult) (sb : Bool) (content : Bytes)
    (s : DState) (hg : p.format = .git) (hd : p.operation ≠ .delete) (ha : p.operation ≠ .add)
    (hl : isSymlinkMode p.newMode = false) :
    (writePatchedResult o p out perm sb content).run s =
      (.ok (), { s with dWrites := s.dWrites ++ [deferredRecord p out perm sb content] }) := by
  rw [writePatchedResult_deferred_eq o p out perm sb content hg hd hl]
  have : (p.operation == .add) = false := by simp [ha]
  simp only [this, Bool.false_eq_true, ↓reduceIte]
  rfl

/-- creating the parent directories does not touch the deferred list -/
theorem ensureParentDirs_dWrites (p : Bytes) {s s' : DState} {r : Except Exn Unit}
    (h : (ensureParentDirs p).run s = (r, s')) : s'.dWrites = s.dWrites :=
  ensureParentDirs_keeps (·.dWrites) (fun _ _ _ _ => rfl) p h

/-- the same for every deferred write, additions included: the only operations are the `mkdir`s of the parent directories — no
    `rename`, no `creat`: neither the backup nor the output file is touched before `finalize` —, and on success the record is the
    last entry of the deferred list -/
theorem deferred_write_no_backup_yet (o : Options) (p : Patch) (out : Bytes) (perm : PermResult) (sb : Bool) (content : Bytes)
    (s s' : DState) (r : Except Exn Unit) (hg : p.format = .git) (hd : p.operation ≠ .delete)
    (hl : isSymlinkMode p.newMode = false)
    (h : (writePatchedResult o p out perm sb content).run s = (r, s')) :
    (∃ ops, s'.trace = s.trace ++ ops ∧ ∀ op ∈ ops, ∃ d, op = FsOp.mkdir d) ∧
    (r = .ok () → s'.dWrites = s.dWrites ++ [deferredRecord p out perm sb content]) ∧
    (p.operation ≠ .add → s'.fs = s.fs ∧ s'.trace = s.trace) := by
  refine ⟨?_, ?_, ?_⟩
  · rw [writePatchedResult_deferred_eq o p out perm sb content hg hd hl] at h
    have : TrExt (fun op => ∃ d, op = FsOp.mkdir d)
        ((if (p.operation == .add) = true then ensureParentDirs out else pure ()) >>= fun _ =>
          (modify fun s => { s with dWrites := s.dWrites ++ [deferredRecord p out perm sb content] } : DM Unit)) := by
      have := ensureParentDirs_trExt (A := fun op => ∃ d, op = FsOp.mkdir d) (fun d => ⟨d, rfl⟩)
      spec_walk (good_ext _)
    exact this.run h
  · rintro rfl
    rw [writePatchedResult_deferred_eq o p out perm sb content hg hd hl, run_bind] at h
    split at h
    · next a s1 h1 =>
      cases h
      have : s1.dWrites = s.dWrites := by
        split at h1
        · exact ensureParentDirs_dWrites _ h1
        · cases h1; rfl
      show s1.dWrites ++ _ = _
      rw [this]
    · cases h
  · intro ha
    rw [deferred_write_touches_nothing o p out perm sb content s hg hd ha hl] at h
    cases h; exact ⟨rfl, rfl⟩
end PatchModel.C09

#print axioms PatchModel.C09.abort_keeps_state
#print axioms PatchModel.C09.section_atomic
#print axioms PatchModel.C09.section_atomic_strict
#print axioms PatchModel.C09.writeFile_trace
#print axioms PatchModel.C09.finalize_removals_last
#print axioms PatchModel.C09.deferred_write_touches_nothing
#print axioms PatchModel.C09.deferred_write_no_backup_yet
