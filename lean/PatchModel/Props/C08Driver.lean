/-
  C08 at the level of the whole program — the section loop of `process_patch` always terminates.

  In the model (Model/Driver) the C++ loop `while (!parser.is_eof()) { … }` is `sectionLoop o format fuel`, which
  `processPatchM` starts with `fuel = lines.length + 2`, `lines` being the lines of the patch text; when the fuel runs
  out the model throws `Exn.logicError` — its stand-in for "the real loop would not terminate".  The parser-level theorem
  `C08.parseAll_terminates` does not cover the `continue` paths of the driver (binary patch, skipped patch, refused
  target, …): a git header directly followed by "GIT binary patch" once made the real loop spin, because the driver's
  `continue` for binary patches left the stream where the header scan had left it — at the start of the section.
  This file closes the gap.

  Formulation.  `Exn.logicError` occurs at two places in the model: `sectionLoop`'s `| 0 => throw Exn.logicError`, and one
  branch of `unifiedLoop` (Model/Parse), which stands for an `assert` of the C++ code and is dead code
  (`body_logicError_dead`: the line examined there is `if l.content.isEmpty then [SP] else l.content`, never empty).
  No other function of the model mentions it, and no `DM` program catches exceptions.  So "`process_patch` does not end in
  `logicError`" says exactly "the loop never takes its out-of-fuel branch" — and that is what is proved, for every option
  record and every initial state (any tree, tty, stdin, fault schedule): `runPatch_never_out_of_fuel`.  In addition
  `sectionLoop_fuel_irrelevant` shows that the result of the loop does not depend on the fuel at all once it is at least
  `unread lines + 2`: the bounded loop of the model is the unbounded loop of the code.

  The measure.  `s.par.s.rest.length`, the number of lines of the patch not read yet, together with the eof flag of the
  stream (`PStream.getLine` sets it when it is asked for a line at the end of the input, or delivers a last line without a
  newline; `sectionLoop` leaves when it is set).  `processSection_progress`: a pass that returns `true` (the loop goes
  on) leaves the stream strictly shorter than it found it, or with the eof flag set.  The invariant of the loop is
  `(eof ∧ 1 ≤ fuel) ∨ unread + 2 ≤ fuel`.

  How one pass makes progress (proof of `Progress.processSection_from`):
    * the header scan consumes `linesTillFirstHunk - 1` lines (`Cost.parseHeader_progress`); if that is no line at all, the
      flags of the stream are clear, the section is not a git section, the body is to be parsed, and — unless nothing at
      all was found, which ends the loop (`return false`, or `invalid_argument` for the first section) — the body parser
      then consumes at least the hunk's first line, or sets eof, or throws (`Cost.parseBody_le`);
    * a binary patch (`continue` straight after the header) is a git section (`binary_patch_is_git`: only
      `parseGitExtendedInfo` sets `Operation.binary`, and the scan only calls it after a `diff --git` line), and the header of
      a git section consumes at least the `diff --git` line (`Cost.parseHeader_git`) — the fix of the defect;
    * every other way through the section — no file to patch / skipped, target not a regular file, read-only target
      refused, patch applied with or without rejects — calls `parseBodyM` exactly once before it returns `true`, and nothing
      else touches the parser: a Hoare-style walk through the whole `do` block (`Progress.prog_walk`) with the assertions
      `Pre` ("a line is consumed, or the body is still to be parsed from clear flags") and `Done`;
    * exceptions end the loop anyway; none of them is `logicError` (`Progress.processSection_mono`).
-/
import PatchModel.Lemmas.Progress
namespace PatchModel.C08Driver
open PatchModel PatchModel.Progress

/-- the measure: number of lines of the patch not read yet -/
abbrev unread (s : DState) : Nat := s.par.s.rest.length

/-- **main theorem — the run never ends by fuel exhaustion**: for every option record and every initial state (any tree,
    tty, stdin, fault schedule, …) `process_patch` does not end in `Exn.logicError`, the exception of the `| 0 =>` branch
    of `sectionLoop` -/
theorem runPatch_never_out_of_fuel (o : Options) (s0 : DState) :
    ∀ s', (processPatchM o).run s0 ≠ (.error .logicError, s') := by
  intro s' h
  exact (processPatchM_noLE o).err s0 _ s' h rfl

/-- … so an exit status 2 of `main` always has another reason than the fuel: it comes with one of the exceptions the C++
    code really throws -/
theorem exit_2_is_a_real_exception (o : Options) (s0 : DState) (h : (runPatch o s0).1 = 2) :
    ∃ e s', (processPatchM o).run s0 = (.error e, s') ∧ e ≠ .logicError := by
  unfold runPatch at h
  split at h
  · cases h
  · rcases hr : (processPatchM o).run s0 with ⟨r, s'⟩
    rw [hr] at h
    cases r with
    | ok u =>
      simp only [] at h
      split at h <;> cases h
    | error e =>
      exact ⟨e, s', rfl, fun hl => runPatch_never_out_of_fuel o s0 s' (by rw [hr, hl])⟩

/-- **the progress lemma**: every pass of the section loop that makes the loop go on leaves the stream strictly shorter
    than it found it, or sets the eof flag — whichever branch it took (binary patch, no file to patch / skipped, target
    not a regular file, read-only target refused, patch applied with or without rejects) -/
theorem processSection_progress (o : Options) (fmt : Format) (s s' : DState)
    (h : (processSection o fmt).run s = (.ok true, s')) :
    unread s' < unread s ∨ s'.par.s.eof = true :=
  Progress.processSection_progress o fmt s s' h

/-- a pass never un-reads more than it read, whatever its result (`true`, `false`) -/
theorem processSection_never_rewinds (o : Options) (fmt : Format) (s s' : DState) (b : Bool)
    (h : (processSection o fmt).run s = (.ok b, s')) : unread s' ≤ unread s :=
  (processSection_mono o fmt).ok s b s' h

/-- a pass never throws `logicError` -/
theorem processSection_no_logicError (o : Options) (fmt : Format) (s s' : DState) (e : Exn)
    (h : (processSection o fmt).run s = (.error e, s')) : e ≠ .logicError :=
  (processSection_mono o fmt).err s e s' h

/-- **the loop has fuel left**: started with at least `unread lines + 2` fuel — or with any positive fuel on a stream at
    eof — `sectionLoop` never takes its `| 0 => throw Exn.logicError` branch (nor ends in `logicError` otherwise) -/
theorem sectionLoop_never_out_of_fuel (o : Options) (fmt : Format) (fuel : Nat) (s : DState)
    (hf : (s.par.s.eof = true ∧ 1 ≤ fuel) ∨ unread s + 2 ≤ fuel) :
    ∀ s', (sectionLoop o fmt fuel).run s ≠ (.error .logicError, s') :=
  sectionLoop_safe o fmt fuel s hf

/-- **the fuel is immaterial**: the result and the final state of the loop are the same for all amounts of fuel of at least
    `unread lines + 2`; the fuel the driver provides (`lines.length + 2`) is just one of them -/
theorem sectionLoop_fuel_irrelevant (o : Options) (fmt : Format) (fuel1 fuel2 : Nat) (s : DState)
    (h1 : unread s + 2 ≤ fuel1) (h2 : unread s + 2 ≤ fuel2) :
    (sectionLoop o fmt fuel1).run s = (sectionLoop o fmt fuel2).run s :=
  Progress.sectionLoop_fuel_irrelevant o fmt fuel1 fuel2 s (Or.inr h1) (Or.inr h2)

/-- **the defect that was**: a binary patch is skipped by the driver without reading its body, so the header alone must
    make the progress: it does, a section with `Operation.binary` being a git section, whose header scan is left
    strictly after the `diff --git` line -/
theorem binary_patch_is_git (par : Parser) (fmt : Format) (strip : Int) (body : Bool) (p : Patch) (info : HeaderInfo)
    (par' : Parser) (h : parseHeader par { format := fmt } strip = .ok (body, p, info, par'))
    (hb : p.operation = .binary) : p.format = .git ∧ par'.s.rest.length < par.s.rest.length := by
  have hg := parseHeader_binary par _ strip body p info par' h rfl hb
  exact ⟨hg, (Cost.parseHeader_git par _ strip body p info par' h hg).2.2⟩

/-- the other place of the model that mentions `logicError` (an `assert` of `parse_unified_patch`) is dead code: no
    body parser, and no header scan, ends in it -/
theorem body_logicError_dead (par : Parser) (p : Patch) : parseBody par p ≠ .error .logicError :=
  parseBody_nle par p
theorem header_logicError_dead (par : Parser) (p : Patch) (strip : Int) : parseHeader par p strip ≠ .error .logicError :=
  parseHeader_nle par p strip

/-! ### sanity checks on the executable model: streams that are (or once were) dangerous -/

section checks

def st (patch : String) : DState :=
  { fs := { nodes := [(str "f", .file (str "a\n") 0o644), (str "x", .file (str "a\n") 0o644)] }, stdin := str patch }

/-- exit status of `main`, the exception `process_patch` ended with (if any), lines left unread, eof flag -/
def outcome (o : Options) (s : DState) : Nat × Option Exn × Nat × Bool :=
  match (processPatchM o).run s with
  | (.ok _, s') => ((runPatch o s).1, none, s'.par.s.rest.length, s'.par.s.eof)
  | (.error e, s') => ((runPatch o s).1, some e, s'.par.s.rest.length, s'.par.s.eof)

def ob : Options := { defaultOptions with batch := true }

/-- the run ends with exit status 0, 1 or 2, and not because the fuel ran out -/
def fine (o : Options) (patch : String) : Bool :=
  let r := outcome o (st patch)
  r.1 ≤ 2 && r.2.1 != some .logicError && (r.1 == 2) == r.2.1.isSome

-- the defect: a git header directly followed by "GIT binary patch" (status 1: a binary patch is not applied;
-- the loop then stops at the "GIT binary patch" line, which is trailing garbage)
#guard outcome defaultOptions (st "diff --git a/f b/f\nGIT binary patch\n") == (1, none, 1, false)
#guard outcome defaultOptions (st "diff --git a/f b/f\nGIT binary patch") == (1, none, 1, false)
#guard outcome defaultOptions (st "diff --git a/f b/f\nGIT binary patch\ndiff --git a/x b/x\nGIT binary patch\n")
  == (1, none, 1, false)
-- … seen from the header scan (the section is a git section with the first "hunk line" on line 2: one line is
-- consumed), and from one pass of the loop (it goes on, `true`, one line further)
#guard match parseHeader { s := { rest := splitLines (str "diff --git a/f b/f\nGIT binary patch\n") } } {} (-1) with
  | .ok (_, p, info, par') =>
    p.operation == .binary && p.format == .git && info.linesTillFirstHunk == 2 && par'.s.rest.length == 1
  | .error _ => false
#guard match (processSection defaultOptions .unknown).run
    { st "" with par := { s := { rest := splitLines (str "diff --git a/f b/f\nGIT binary patch\n") } } } with
  | (.ok true, s') => s'.par.s.rest.length == 1 && s'.out == [.binary] && s'.hadFailure
  | _ => false
-- a bare git header; two of them
#guard outcome defaultOptions (st "diff --git a/f b/f\n") == (0, none, 0, true)
#guard outcome defaultOptions (st "diff --git a/f b/f") == (0, none, 0, true)
#guard outcome defaultOptions (st "diff --git a/f b/f\ndiff --git a/f b/f\n") == (0, none, 0, true)
-- a lone range line, a lone line of stars, `Index:` lines only, nothing at all: "only garbage" (`invalid_argument`)
#guard outcome defaultOptions (st "@@ -1 +1 @@\n") == (2, some .invalidArgument, 1, false)
#guard outcome defaultOptions (st "@@ -1 +1 @@") == (2, some .invalidArgument, 1, false)
#guard outcome defaultOptions (st "***************\n") == (2, some .invalidArgument, 1, false)
#guard outcome defaultOptions (st "1c1\n") == (2, some .invalidArgument, 1, false)
#guard outcome defaultOptions (st "Index: x\nIndex: x\nIndex: x\n") == (2, some .invalidArgument, 3, false)
#guard outcome defaultOptions (st "") == (2, some .invalidArgument, 0, false)
-- a good patch; one followed by a range line alone; one followed by garbage
#guard outcome defaultOptions (st "--- f\n+++ f\n@@ -1 +1 @@\n-a\n+b\n") == (0, none, 0, true)
#guard outcome defaultOptions (st "--- f\n+++ f\n@@ -1 +1 @@\n-a\n+b\n@@ -1 +1 @@\n") == (2, some .invalidArgument, 4, false)
#guard outcome defaultOptions (st "--- f\n+++ f\n@@ -1 +1 @@\n-a\n+b\ngarbage\n") == (0, none, 1, false)
-- two sections for a file that is not there: no tty to ask (`system_error`); skipped under --batch (status 1)
#guard outcome defaultOptions (st "--- nofile\n+++ nofile\n@@ -1 +1 @@\n-a\n+b\n--- nofile\n+++ nofile\n@@ -1 +1 @@\n-a\n+b\n")
  == (2, some .systemError, 8, false)
#guard outcome ob (st "--- nofile\n+++ nofile\n@@ -1 +1 @@\n-a\n+b\n--- nofile\n+++ nofile\n@@ -1 +1 @@\n-a\n+b\n")
  == (1, none, 0, true)
-- a context header whose hunk breaks off
#guard outcome defaultOptions (st "*** f\n--- f\n***************\n*** 1 ****\n") == (2, some .runtimeError, 2, false)

#guard ["diff --git a/f b/f\nGIT binary patch\n", "diff --git a/f b/f\nGIT binary patch", "diff --git a/f b/f\n",
    "diff --git a/f b/f", "diff --git a/f b/f\ndiff --git a/f b/f\n", "@@ -1 +1 @@\n", "@@ -1 +1 @@", "***************\n",
    "***************", "Index: x\nIndex: x\nIndex: x\n", "Index: x\n", "", "1c1\n", "1c1\n< a\n", "@@ -1 +1 @@\n-a\n",
    "***************\n*** 1 ****\n", "diff --git a/f b/f\nindex 1..2\n", "diff --git a/f b/f\n@@ -1 +1 @@\n",
    "diff --git a/f b/f\nGIT binary patch\n--- f\n+++ f\n@@ -1 +1 @@\n-a\n+b\n"].all fun p =>
  fine defaultOptions p && fine ob p && fine { ob with fileToPatch := str "f" } p &&
  fine { defaultOptions with asUnified := true } p && fine { defaultOptions with asContext := true } p &&
  fine { defaultOptions with asNormal := true } p && fine { ob with force := true, dryRun := true } p

end checks

end PatchModel.C08Driver

#print axioms PatchModel.C08Driver.runPatch_never_out_of_fuel
#print axioms PatchModel.C08Driver.exit_2_is_a_real_exception
#print axioms PatchModel.C08Driver.processSection_progress
#print axioms PatchModel.C08Driver.processSection_never_rewinds
#print axioms PatchModel.C08Driver.processSection_no_logicError
#print axioms PatchModel.C08Driver.sectionLoop_never_out_of_fuel
#print axioms PatchModel.C08Driver.sectionLoop_fuel_irrelevant
#print axioms PatchModel.C08Driver.binary_patch_is_git
#print axioms PatchModel.C08Driver.body_logicError_dead
#print axioms PatchModel.C08Driver.header_logicError_dead
