/-
  C05 (apply_patch level) — reverse application is the inverse of application.
-/
import PatchModel.Spec.Script
import PatchModel.Lemmas.Valid
import PatchModel.Props.C01
namespace PatchModel.C05
open PatchModel PatchModel.Script

theorem reverse_involutive (h : Hunk) : reverseHunk (reverseHunk h) = h := by
  exact reverseHunk_reverseHunk h

theorem reversePatch_involutive (p : Patch) : reversePatch (reversePatch p) = p := by
  exact reversePatch_reversePatch p

/-- reversal exchanges the sides -/
theorem reverse_sides (h : Hunk) :
    oldOf (reverseHunk h).lines = newOf h.lines ∧ newOf (reverseHunk h).lines = oldOf h.lines ∧
    (reverseHunk h).old = h.new ∧ (reverseHunk h).new = h.old := by
  exact ⟨oldOf_reverseHunk h, newOf_reverseHunk h, rfl, rfl⟩

/-- reversal exchanges creation and deletion and the two names -/
theorem reversePatch_operation (p : Patch) :
    ((reversePatch p).operation = .add ↔ p.operation = .delete) ∧
    ((reversePatch p).operation = .delete ↔ p.operation = .add) ∧
    (p.operation = .rename → (reversePatch p).operation = .rename) ∧
    (reversePatch p).oldPath = p.newPath ∧ (reversePatch p).newPath = p.oldPath ∧
    (reversePatch p).oldMode = p.newMode ∧ (reversePatch p).newMode = p.oldMode := by
  refine ⟨?_, ?_, ?_, rfl, rfl, rfl, rfl⟩
  · cases h : p.operation <;> simp [reversePatch, h]
  · cases h : p.operation <;> simp [reversePatch, h]
  · intro h; simp [reversePatch, h]

/-- the reversed-D2 exclusion: no hunk whose *new* side is empty and stated at line 0 while the new file is not empty -/
def NoReversedD2 (file : List Line) (hs : List Hunk) : Prop :=
  ∀ h ∈ hs, ¬ (h.new.count = 0 ∧ h.new.start = 0 ∧ splice file 0 hs ≠ [])

/-- the reversed script is a valid script of the new file and leads back to the old one -/
theorem reverse_valid (file : List Line) (hs : List Hunk)
    (hv : Valid file 0 0 hs) (hx : NoReversedD2 file hs) :
    Valid (splice file 0 hs) 0 0 (hs.map reverseHunk) ∧
    splice (splice file 0 hs) 0 (hs.map reverseHunk) = file := by
  have := reverse_valid_gen file (splice file 0 hs) 0 0 hs hv [] rfl (by simp) hx
  simpa using this

/-- **C05 core**: for any diff `hs` of A to B = splice A hs, applying it with -R to B yields A, nothing rejected,
    every hunk perfect, no question asked -/
theorem C05_core (file : List Line) (hs : List Hunk) (p0 : Patch) (o : ApplyOpts) (tty : Option (List Bool))
    (hv : Valid file 0 0 hs) (hx : NoReversedD2 file hs) (hp : p0.hunks = hs)
    (hD : o.define = []) (hR : o.reverse = true) (hF : 0 ≤ o.maxFuzz) :
    ∃ r, applyPatch (splice file 0 hs) p0 o tty = .ok r ∧
      r.out.map Out.line = file ∧ r.rejected = [] ∧ r.failed = 0 ∧ r.perfect = true ∧ r.skipped = false ∧
      (o.verbose = false → r.msgs = []) ∧ r.tty = tty ∧ r.patch = reversePatch p0 := by
  obtain ⟨hv', hs'⟩ := reverse_valid file hs hv hx
  obtain ⟨r, h1, h2, h3, h4, _, h6, h7, _, h9, h10, h11⟩ :=
    C01.applyPatch_valid (splice file 0 hs) (hs.map reverseHunk) p0 o tty hv'
      (by simp [hR, reversePatch, hp]) hD hF
  refine ⟨r, h1, h2.trans hs', h3, h4, h6, h7, h9, h10, ?_⟩
  simpa [hR] using h11

/-- apply, then apply the same patch with -R: the original lines come back -/
theorem C05_roundtrip (file : List Line) (hs : List Hunk) (p0 : Patch) (o : ApplyOpts) (tty : Option (List Bool))
    (hv : Valid file 0 0 hs) (hx : NoReversedD2 file hs) (hp : p0.hunks = hs)
    (hD : o.define = []) (hR : o.reverse = false) (hF : 0 ≤ o.maxFuzz) :
    ∃ r1 r2, applyPatch file p0 o tty = .ok r1 ∧
      applyPatch (r1.out.map Out.line) p0 { o with reverse := true } tty = .ok r2 ∧
      r2.out.map Out.line = file ∧ r1.rejected = [] ∧ r2.rejected = [] := by
  obtain ⟨r1, a1, a2, a3, _⟩ := C01.C01_core file hs p0 o tty hv hp hD hR hF
  obtain ⟨r2, b1, b2, b3, _⟩ := C05_core file hs p0 { o with reverse := true } tty hv hx hp hD rfl hF
  exact ⟨r1, r2, a1, by rw [a2]; exact b1, b2, a3, b3⟩

end PatchModel.C05
