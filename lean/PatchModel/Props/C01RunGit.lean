/-
  C01 end to end for GIT-format patches — the whole modelled program (`runPatch` = `main` after option parsing) on the TEXT of a
  git diff, the case in which `write_patched_result_to_file` does not write but hands the result to the `DeferredWriter`:

      patch -p1 [-F n] [--newline-output=…] -i pname          (no file operand: the name comes from the header)

  where the patch file `pname` holds `gitDiffText name ix hs`:

      diff --git a/name b/name
      index <anything>                      (optional: `ix = some anything`)
      --- a/name
      +++ b/name
      the hunks `hs` as `write_hunk_as_unified` writes them

  and `hs` is a `Valid` script of the lines of the target `name` (content `bytes`, mode `m`, writable).  Then the exit status is
  0, `name` holds `splice (splitLines bytes) 0 hs` rendered, with its mode `m`, no other path of the tree differs, and the
  trace is: four operations on anonymous temporaries, then `creat name`, `write name …`, `chmod name m`
  (`C01_run_git`, `C01_run_git_gen`).  `C01_run_git_deferred` exposes the state at the END OF THE SECTION LOOP: the tree is
  the initial tree, the trace holds nothing but the temporaries, and the one write sits in `dWrites`; what `runPatch` returns
  is `finalizeDeferred` run from that state.  `C15_run_git_dry`: the same run under --dry-run leaves the tree alone.

  The operand variant (`patch -p1 -i pname name`) is NOT covered: the theorems are for the guessed name only.

  Differences to the unified theorems (`C01_run_guess`):
  * `changeStart hs` is NOT needed: in a git section nothing is inferred from a first range `-0,0` / `+0,0` unless the name on
    that side is `/dev/null` (`Header.gitInferredOp`), so a script that fills an empty file or empties a file is covered.
  * the names end their lines (no TAB + time stamp after them): `name` must not contain a blank (`parse_file_line` cuts the name
    at the first blank when no TAB follows: `Scope.blank`, evaluated) and must not end in CR.
  * `-p1`: what is asked is `stripPath (a/name) o.strip = name` and the same for `b/name` (`C01_run_git_gen`); for `o.strip = 1`
    this holds as soon as `name` does not start with a slash (`stripPath_prefixed`).  With `-p0` the run looks for `a/name`
    (`Scope.p0`, evaluated: exit 2 without a terminal).

  Second part: the pure rename (`C01_run_git_rename`, `C15_run_git_rename_dry`) — see there.
-/
import PatchModel.Props.C01Run
import PatchModel.Props.C18Run
import PatchModel.Lemmas.RunG
namespace PatchModel.C01
open PatchModel PatchModel.Section PatchModel.Run PatchModel.DriverFacts PatchModel.RunG

/-- `name`, `ix`, `hs` give the text of a git diff that states the change `hs` -/
structure GitDiff (name : Bytes) (ix : Option Bytes) (hs : List Hunk) : Prop where
  nameEnd : endField name
  noTab : TAB ∉ name
  noBlank : SP ∉ name
  indexEnd : ∀ x, ix = some x → endField x
  nonEmpty : hs ≠ []
  writable : ∀ h ∈ hs, h.writable = true

theorem wordName_prefixed (c : UInt8) (name : Bytes) (hc : c ≠ TAB ∧ c ≠ SP ∧ c ≠ DQUOTE) (ht : TAB ∉ name) (hs : SP ∉ name) :
    Header.wordName (c :: 47 :: name) := by
  refine ⟨by simp, ?_, ?_, ?_⟩
  · simp only [List.mem_cons, not_or]; exact ⟨fun h => hc.1 h.symm, by decide, ht⟩
  · simp only [List.mem_cons, not_or]; exact ⟨fun h => hc.2.1 h.symm, by decide, hs⟩
  · simp only [List.head?_cons, ne_eq, Option.some.injEq]; exact hc.2.2

theorem prefixed_ne_devNull (c : UInt8) (name : Bytes) (hc : c ≠ 47) : c :: 47 :: name ≠ devNull := by
  rw [Names.devNull_eq]
  intro h
  exact hc (List.cons.inj h).1

/-- `-p1` takes the `a/` (`b/`) off a name that does not start with a slash -/
theorem stripPath_prefixed (c : UInt8) (name : Bytes) (hc : c ≠ 47) (hne : name ≠ []) (hh : name.head? ≠ some 47) :
    stripPath (c :: 47 :: name) 1 = name := by
  have h1 : (1 : Int) = ((1 : Nat) : Int) := rfl
  rw [h1, C12.strip_spec]
  have hc' : (c != 47) = true := by simpa using hc
  cases name with
  | nil => exact absurd rfl hne
  | cons d r =>
    have hd : (d == 47) = false := by simpa using hh
    simp [stripSpec, List.dropWhile, SLASH, hc', hd]

section
variable {o : Options} {s0 : DState} {name pname bytes : Bytes} {m pm : Nat} {ix : Option Bytes} {hs : List Hunk}

/-- header scan, body parse and the applier's verdict for the one section of the git diff -/
theorem gitSection_of_diff (ho : GuessOpts o pname) (hs0 : CleanStart s0) (hname : name ≠ []) (hnn : name ≠ devNull)
    (htarget : s0.fs.lookup name = some (.file bytes m)) (hw : m &&& writeMask ≠ 0)
    (hd : GitDiff name ix hs)
    (hsa : stripPath (str "a/" ++ name) o.strip = name) (hsb : stripPath (str "b/" ++ name) o.strip = name)
    (hvalid : Valid (splitLines bytes) 0 0 hs) :
    ∃ patch0 info par1 par2 r,
      GitSection o (forced o) (loopStart s0 (gitDiffLines name ix hs)) name bytes m patch0
        { patch0 with hunks := hs } info par1 par2 r ∧
      render o.newlineOutput r.out = Render.renderText o.newlineOutput (splice (splitLines bytes) 0 hs) ∧
      par2.s.eof = true := by
  have hA : str "a/" ++ name = 97 :: 47 :: name := by rw [Names.str_a]; rfl
  have hB : str "b/" ++ name = 98 :: 47 :: name := by rw [Names.str_b]; rfl
  have hwa : Header.wordName (str "a/" ++ name) := by
    rw [hA]; exact wordName_prefixed _ _ (by decide) hd.noTab hd.noBlank
  have hwb : Header.wordName (str "b/" ++ name) := by
    rw [hB]; exact wordName_prefixed _ _ (by decide) hd.noTab hd.noBlank
  have hsta : Header.stripped (str "a/" ++ name) o.strip = name := by
    unfold Header.stripped
    rw [if_neg (by rw [hA]; exact prefixed_ne_devNull _ _ (by decide)), hsa]
  have hstb : Header.stripped (str "b/" ++ name) o.strip = name := by
    unfold Header.stripped
    rw [if_neg (by rw [hB]; exact prefixed_ne_devNull _ _ (by decide)), hsb]
  obtain ⟨patch0, info, par1, par2, hhdr, hf, hop, hpre, _, hnm, _, hop0, _, hbody, heof⟩ :=
    parse_gitDiffLines o.strip (forced o) name ix hs 1 hwa hwb hd.nonEmpty hd.writable
      (by rw [hsta]; exact hnn) (by rw [hstb]; exact hnn)
  have hrev : (applyOptsOf o).reverse = false := ho.noReverse
  obtain ⟨r, hap, hrout, _, hrfail, _, hrperf, hrskip, _, hrmsgs, hrtty, hrpatch⟩ :=
    applyPatch_valid (splitLines bytes) hs { patch0 with hunks := hs } (applyOptsOf o)
      (Option.map (fun l => List.map (fun a => !List.isEmpty a && List.head? a != some 110) l) s0.tty)
      hvalid (by rw [hrev]; rfl) ho.noDefine ho.fuzz
  refine ⟨patch0, info, par1, par2, r, ?_, C01.render_of_lines _ ho.noDefine hap hrout, heof⟩
  exact {
    noOperand := ho.noOperand,
    oldPath := by rw [hop0, hsta],
    notNull := hnn, noOut := ho.noOut, noBackup := ho.noBackup, pathNe := hname, cwd := hs0.cwd, hdr := hhdr,
    fmt := hf, op := hop, pre := hpre, body := hbody, fmt2 := hf, op2 := hop, newMode2 := hnm, file := htarget,
    writable := hw, root := hs0.root, noFault := hs0.noFault, apply := hap, failed := hrfail, perfect := hrperf,
    skipped := hrskip, msgs := hrmsgs ho.quiet, ttyLeft := hrtty,
    patch := by rw [hrpatch, hrev]; rfl }

/-- the four operations on the two anonymous temporaries of a section (reject file, output file) -/
abbrev tmpOps : List FsOp := [.tmpCreate, .tmpUnlink, .tmpCreate, .tmpUnlink]

/-- **the state at the end of the section loop, and what `runPatch` makes of it**: after the loop over the one git section
    the tree is untouched, the trace holds the temporaries only, and the result waits in `dWrites`; the run ends with
    `finalizeDeferred` from that state, which performs `creat`, `write`, `chmod` on the target. -/
theorem C01_run_git_deferred (ho : GuessOpts o pname) (hreal : o.dryRun = false) (hs0 : CleanStart s0)
    (hname : name ≠ []) (hnn : name ≠ devNull) (hdir : s0.fs.dirExists (parentOf name) = true)
    (hpre : ∀ d ∈ dirPrefixes name, (s0.fs.lookup d).isSome = true)
    (hpn : pname ≠ []) (hpd : pname ≠ [45])
    (htarget : s0.fs.lookup name = some (.file bytes m)) (hw : m &&& writeMask ≠ 0)
    (hpatch : s0.fs.lookup pname = some (.file (gitDiffText name ix hs) pm))
    (hd : GitDiff name ix hs)
    (hsa : stripPath (str "a/" ++ name) o.strip = name) (hsb : stripPath (str "b/" ++ name) o.strip = name)
    (hvalid : Valid (splitLines bytes) 0 0 hs) :
    ∃ s1 : DState,
      (sectionLoop o (forced o) ((gitDiffLines name ix hs).length + 2)).run (loopStart s0 (gitDiffLines name ix hs)) = (.ok (), s1) ∧
      s1.fs = s0.fs ∧ s1.trace = s0.trace ++ tmpOps ∧
      s1.dWrites = [deferredOf name (Render.renderText o.newlineOutput (splice (splitLines bytes) 0 hs)) 0
                      { oldPerms := some m, needFix := false, hadFailure := false } false] ∧
      s1.dRemovals = [] ∧
      (processPatchM o).run s0 = (finalizeDeferred o).run s1 ∧
      runPatch o s0 = (0, { s1 with
        fs := s0.fs.set name (.file (Render.renderText o.newlineOutput (splice (splitLines bytes) 0 hs)) m),
        trace := s0.trace ++ tmpOps ++ resultOps name (Render.renderText o.newlineOutput (splice (splitLines bytes) 0 hs)) m,
        opCount := s1.opCount + (dirPrefixes name).length +
          (resultOps name (Render.renderText o.newlineOutput (splice (splitLines bytes) 0 hs)) m).length }) := by
  obtain ⟨patch0, info, par1, par2, r, H, hrender, heof⟩ :=
    gitSection_of_diff ho hs0 hname hnn htarget hw hd hsa hsb hvalid
  obtain ⟨s1, hrun, hfs, htr, _, hdone⟩ := processSection_git H hreal
  have hloop := sectionLoop_one o (forced o) (gitDiffLines name ix hs).length _ s1 rfl hrun (by rw [hdone.par]; exact heof)
  have hdw : s1.dWrites = [deferredOf name (Render.renderText o.newlineOutput (splice (splitLines bytes) 0 hs)) 0
      { oldPerms := some m, needFix := false, hadFailure := false } false] := by
    rw [hdone.dWrites, ← hrender]
    show s0.dWrites ++ _ = _
    rw [hs0.noWrites]; rfl
  have hdr : s1.dRemovals = [] := by
    rw [hdone.dRemovals]
    show s0.dRemovals ++ [] = []
    rw [hs0.noRemovals]; rfl
  have htr' : s1.trace = s0.trace ++ tmpOps := by
    rw [htr]; show s0.trace ++ _ ++ _ = _; simp
  have hP := run_processPatchM_fin o s0 s1 pname (gitDiffText name ix hs) pm (forced o) ho.file.noDir ho.file.patchFile hpn hpd
    hs0.cwd hpatch hs0.root (diffFormat_plain o ho.file.noContext ho.file.noNormal ho.file.noEd)
    (by rw [splitLines_gitDiffText name ix hs hd.nameEnd hd.indexEnd hd.writable]; exact hloop)
  have hcwd1 : s1.cwd = [] := by rw [hdone.cwd]; exact hs0.cwd
  have hF := run_finalizeDeferred_one o s1 name _ bytes m m _ hdw hdr rfl rfl hname hcwd1
    (by rw [hfs]; exact htarget) (by rw [hfs]; exact hs0.root) (by rw [hfs]; exact hdir)
    (by rw [hfs]; exact hpre) (by rw [hdone.faultAt]; exact hs0.noFault)
  refine ⟨s1, hloop, hfs, htr', hdw, hdr, hP, ?_⟩
  rw [runPatch_of_run o s0 _ ho.file.noHelp ho.file.noVersion (hP.trans hF)]
  have hhf : s1.hadFailure = false := by rw [hdone.hadFailure]; exact hs0.noFailure
  simp only [hhf, Bool.false_eq_true, if_false, hfs, htr', List.append_assoc]

/-- **C01, the whole program on the text of a git diff, no file operand** (`patch -pN -i pname`; the target may sit in a
    directory of the tree): exit status 0, the target holds the intended result with its old mode, nothing else in the tree
    differs, and the trace is the four temporaries followed by `creat`, `write`, `chmod` of the target -/
theorem C01_run_git_gen (ho : GuessOpts o pname) (hreal : o.dryRun = false) (hs0 : CleanStart s0)
    (hname : name ≠ []) (hnn : name ≠ devNull) (hdir : s0.fs.dirExists (parentOf name) = true)
    (hpre : ∀ d ∈ dirPrefixes name, (s0.fs.lookup d).isSome = true)
    (hpn : pname ≠ []) (hpd : pname ≠ [45])
    (htarget : s0.fs.lookup name = some (.file bytes m)) (hw : m &&& writeMask ≠ 0)
    (hpatch : s0.fs.lookup pname = some (.file (gitDiffText name ix hs) pm))
    (hd : GitDiff name ix hs)
    (hsa : stripPath (str "a/" ++ name) o.strip = name) (hsb : stripPath (str "b/" ++ name) o.strip = name)
    (hvalid : Valid (splitLines bytes) 0 0 hs) :
    (runPatch o s0).1 = 0 ∧
    (runPatch o s0).2.fs.lookup name = some (.file (Render.renderText o.newlineOutput (splice (splitLines bytes) 0 hs)) m) ∧
    (∀ q, q ≠ name → (runPatch o s0).2.fs.lookup q = s0.fs.lookup q) ∧
    (runPatch o s0).2.trace =
      s0.trace ++ tmpOps ++ resultOps name (Render.renderText o.newlineOutput (splice (splitLines bytes) 0 hs)) m := by
  obtain ⟨s1, _, _, _, _, _, _, hrun⟩ :=
    C01_run_git_deferred ho hreal hs0 hname hnn hdir hpre hpn hpd htarget hw hpatch hd hsa hsb hvalid
  rw [hrun]
  refine ⟨rfl, ?_, ?_, rfl⟩
  · exact Fs.lookup_set_self _ _ _
  · intro q hq
    exact Fs.lookup_set_ne _ _ _ _ hq

/-- **C15 sibling: the same run under --dry-run** — exit status 0, the tree untouched, nothing but the temporaries in the
    trace, nothing left to the deferred writer -/
theorem C15_run_git_dry_gen (ho : GuessOpts o pname) (hdry : o.dryRun = true) (hs0 : CleanStart s0)
    (hname : name ≠ []) (hnn : name ≠ devNull) (hpn : pname ≠ []) (hpd : pname ≠ [45])
    (htarget : s0.fs.lookup name = some (.file bytes m)) (hw : m &&& writeMask ≠ 0)
    (hpatch : s0.fs.lookup pname = some (.file (gitDiffText name ix hs) pm))
    (hd : GitDiff name ix hs)
    (hsa : stripPath (str "a/" ++ name) o.strip = name) (hsb : stripPath (str "b/" ++ name) o.strip = name)
    (hvalid : Valid (splitLines bytes) 0 0 hs) :
    (runPatch o s0).1 = 0 ∧ (runPatch o s0).2.fs = s0.fs ∧ (runPatch o s0).2.trace = s0.trace ++ tmpOps ∧
    (runPatch o s0).2.dWrites = [] := by
  obtain ⟨patch0, info, par1, par2, r, H, _, heof⟩ :=
    gitSection_of_diff ho hs0 hname hnn htarget hw hd hsa hsb hvalid
  obtain ⟨s1, hrun, hfs, htr, hdone⟩ := processSection_git_dry H hdry
  have hloop := sectionLoop_one o (forced o) (gitDiffLines name ix hs).length _ s1 rfl hrun (by rw [hdone.par]; exact heof)
  have hdw : s1.dWrites = [] := by
    rw [hdone.dWrites]; show s0.dWrites ++ [] = []; rw [hs0.noWrites]; rfl
  have hdr : s1.dRemovals = [] := by
    rw [hdone.dRemovals]; show s0.dRemovals ++ [] = []; rw [hs0.noRemovals]; rfl
  have hP := run_processPatchM o s0 s1 pname (gitDiffText name ix hs) pm (forced o) ho.file.noDir ho.file.patchFile hpn hpd
    hs0.cwd hpatch hs0.root (diffFormat_plain o ho.file.noContext ho.file.noNormal ho.file.noEd)
    (by rw [splitLines_gitDiffText name ix hs hd.nameEnd hd.indexEnd hd.writable]; exact hloop) hdw hdr
  rw [runPatch_of_run o s0 s1 ho.file.noHelp ho.file.noVersion hP]
  have hhf : s1.hadFailure = false := by rw [hdone.hadFailure]; exact hs0.noFailure
  rw [hhf]
  refine ⟨rfl, hfs, ?_, hdw⟩
  show s1.trace = _
  rw [htr]; show s0.trace ++ _ ++ _ = _; simp

end

/-! ### the statement for a git diff of a file in the working directory, `-p1` -/

/-- a name in the working directory as `git diff` writes it unquoted and without a TAB after it -/
def gitName (n : Bytes) : Prop :=
  n ≠ [] ∧ (∀ c ∈ n, c ≠ SLASHB) ∧ TAB ∉ n ∧ SP ∉ n ∧ NL ∉ n ∧ n.getLast? ≠ some CR

/-- the hunks of the diff (no `changeStart`: see the head of the file) -/
structure GitHunks (hs : List Hunk) : Prop where
  nonEmpty : hs ≠ []
  writable : ∀ h ∈ hs, h.writable = true

instance (n : Bytes) : Decidable (gitName n) := by unfold gitName; infer_instance
instance (b : Bytes) : Decidable (endField b) := by unfold endField; infer_instance

theorem gitName_head {n : Bytes} (hn : gitName n) : n.head? ≠ some 47 := by
  obtain ⟨hne, hflat, _⟩ := hn
  cases n with
  | nil => exact absurd rfl hne
  | cons c r =>
    have := hflat c List.mem_cons_self
    simpa [SLASHB] using this

theorem gitDiff_of_flat {name : Bytes} {ix : Option Bytes} {hs : List Hunk} (hn : gitName name)
    (hix : ∀ x, ix = some x → endField x) (hh : GitHunks hs) : GitDiff name ix hs :=
  { nameEnd := ⟨hn.2.2.2.2.1, hn.2.2.2.2.2⟩, noTab := hn.2.2.1, noBlank := hn.2.2.2.1, indexEnd := hix,
    nonEmpty := hh.nonEmpty, writable := hh.writable }

theorem strip_a {name : Bytes} (hn : gitName name) : stripPath (str "a/" ++ name) 1 = name := by
  rw [Names.str_a]; exact stripPath_prefixed 97 name (by decide) hn.1 (gitName_head hn)
theorem strip_b {name : Bytes} (hn : gitName name) : stripPath (str "b/" ++ name) 1 = name := by
  rw [Names.str_b]; exact stripPath_prefixed 98 name (by decide) hn.1 (gitName_head hn)

/-- **C01, end to end, git format.**  `patch -p1 -i pname` in a tree with the target `name` and the patch file `pname` = the
    text of a git diff of `name` (`diff --git a/name b/name`, optional `index` line, `--- a/name`, `+++ b/name`, hunks `hs`),
    `hs` a valid script of the target's lines: exit status 0, the target holds the intended result with its old mode `m`,
    nothing else in the tree differs, and all the run does to the tree comes after the temporaries of the section:
    `creat name`, `write name result` (no `write` of an empty result), `chmod name m`. -/
theorem C01_run_git (o : Options) (s0 : DState) (name pname bytes : Bytes) (ix : Option Bytes) (m pm : Nat) (hs : List Hunk)
    (ho : GuessOpts o pname) (hstrip : o.strip = 1) (hreal : o.dryRun = false) (hs0 : CleanStart s0)
    (hn : gitName name) (hix : ∀ x, ix = some x → endField x) (hpn : pname ≠ []) (hpd : pname ≠ [45])
    (htarget : s0.fs.lookup name = some (.file bytes m)) (hw : m &&& writeMask ≠ 0)
    (hpatch : s0.fs.lookup pname = some (.file (gitDiffText name ix hs) pm))
    (hh : GitHunks hs) (hvalid : Valid (splitLines bytes) 0 0 hs) :
    (runPatch o s0).1 = 0 ∧
    (runPatch o s0).2.fs.lookup name = some (.file (Render.renderText o.newlineOutput (splice (splitLines bytes) 0 hs)) m) ∧
    (∀ q, q ≠ name → (runPatch o s0).2.fs.lookup q = s0.fs.lookup q) ∧
    (runPatch o s0).2.trace =
      s0.trace ++ tmpOps ++ resultOps name (Render.renderText o.newlineOutput (splice (splitLines bytes) 0 hs)) m :=
  C01_run_git_gen ho hreal hs0 hn.1 (flat_ne_devNull hn.2.1) (dirExists_parent_of_noSlash s0.fs hn.2.1)
    (RunB.dirsThere_flat s0.fs hn.2.1) hpn hpd htarget hw hpatch (gitDiff_of_flat hn hix hh)
    (by rw [hstrip]; exact strip_a hn) (by rw [hstrip]; exact strip_b hn) hvalid

/-- **C15, end to end, git format**: the same run with --dry-run predicts success and leaves the tree alone -/
theorem C15_run_git_dry (o : Options) (s0 : DState) (name pname bytes : Bytes) (ix : Option Bytes) (m pm : Nat) (hs : List Hunk)
    (ho : GuessOpts o pname) (hstrip : o.strip = 1) (hdry : o.dryRun = true) (hs0 : CleanStart s0)
    (hn : gitName name) (hix : ∀ x, ix = some x → endField x) (hpn : pname ≠ []) (hpd : pname ≠ [45])
    (htarget : s0.fs.lookup name = some (.file bytes m)) (hw : m &&& writeMask ≠ 0)
    (hpatch : s0.fs.lookup pname = some (.file (gitDiffText name ix hs) pm))
    (hh : GitHunks hs) (hvalid : Valid (splitLines bytes) 0 0 hs) :
    (runPatch o s0).1 = 0 ∧ (runPatch o s0).2.fs = s0.fs ∧ (runPatch o s0).2.trace = s0.trace ++ tmpOps ∧
    (runPatch o s0).2.dWrites = [] :=
  C15_run_git_dry_gen ho hdry hs0 hn.1 (flat_ne_devNull hn.2.1) hpn hpd htarget hw hpatch (gitDiff_of_flat hn hix hh)
    (by rw [hstrip]; exact strip_a hn) (by rw [hstrip]; exact strip_b hn) hvalid

/-! ### non-vacuity: a concrete run

`f` = "a\nb\nc\n" (mode 0755), `p.diff` = the git diff (with an `index` line) that changes `b` to `B`, options `-p1 -i p.diff`.
Every hypothesis of `C01_run_git` is discharged by evaluation in the kernel, the theorem is applied, and — independently — the
executable model is run on the same state (`#guard`: an executable test, not a proof). -/
namespace GitInstance

def name : Bytes := [102]                                  -- "f"
def pname : Bytes := [112, 46, 100, 105, 102, 102]         -- "p.diff"
def bytes : Bytes := [97, 10, 98, 10, 99, 10]              -- "a\nb\nc\n"
def ixv : Bytes :=                                         -- "1111111..2222222 100644"
  [49, 49, 49, 49, 49, 49, 49, 46, 46, 50, 50, 50, 50, 50, 50, 50, 32, 49, 48, 48, 54, 52, 52]
def hk : Hunk := ⟨⟨1, 3⟩, ⟨1, 3⟩, [⟨SP, ⟨[97], .lf⟩⟩, ⟨MINUS, ⟨[98], .lf⟩⟩, ⟨PLUS, ⟨[66], .lf⟩⟩, ⟨SP, ⟨[99], .lf⟩⟩]⟩
def result : Bytes := [97, 10, 66, 10, 99, 10]             -- "a\nB\nc\n"
def s0 : DState :=
  { fs := { nodes := [(name, .file bytes 0o755), (pname, .file (gitDiffText name (some ixv) [hk]) 0o644)] } }
def o : Options := { defaultOptions with patchFile := pname, strip := 1 }

-- the spelled-out bytes are the intended texts
#guard name == str "f" && pname == str "p.diff" && bytes == str "a\nb\nc\n" && ixv == str "1111111..2222222 100644"
#guard gitDiffText name (some ixv) [hk] ==
  str "diff --git a/f b/f\nindex 1111111..2222222 100644\n--- a/f\n+++ b/f\n@@ -1,3 +1,3 @@\n a\n-b\n+B\n c\n"
#guard gitDiffText name none [hk] == str "diff --git a/f b/f\n--- a/f\n+++ b/f\n@@ -1,3 +1,3 @@\n a\n-b\n+B\n c\n"

theorem guessOpts : GuessOpts o pname :=
  { noOperand := rfl, noOut := rfl, noBackup := rfl, noReverse := rfl, noDefine := rfl, fuzz := by decide, quiet := rfl,
    file := { patchFile := rfl, noDir := rfl, noHelp := rfl, noVersion := rfl, noContext := rfl, noNormal := rfl, noEd := rfl } }

theorem gitHunks : GitHunks [hk] := { nonEmpty := by decide, writable := by decide }

theorem ixOk : ∀ x, some ixv = some x → endField x := by
  intro x hx; cases hx; decide

-- what the script means
theorem meaning : Render.renderText o.newlineOutput (splice (splitLines bytes) 0 [hk]) = result := by decide

/-- the theorem applies: all its hypotheses hold of the instance (discharged in the kernel) -/
theorem applies :
    (runPatch o s0).1 = 0 ∧
    (runPatch o s0).2.fs.lookup name = some (.file result 0o755) ∧
    (∀ q, q ≠ name → (runPatch o s0).2.fs.lookup q = s0.fs.lookup q) ∧
    (runPatch o s0).2.trace = [.tmpCreate, .tmpUnlink, .tmpCreate, .tmpUnlink, .creat name, .write name result, .chmod name 0o755] := by
  have h := C01_run_git o s0 name pname bytes (some ixv) 0o755 0o644 [hk] guessOpts rfl rfl ⟨rfl, rfl, rfl, rfl, rfl, rfl⟩
    (by decide) ixOk (by decide) (by decide) (by decide) (by decide) rfl gitHunks (validB_sound _ _ _ _ (by decide))
  rw [meaning] at h
  exact h

/-- the state at the end of the loop (`C01_run_git_deferred`): the tree as it was, the write recorded -/
theorem applies_deferred : ∃ s1 : DState,
    (sectionLoop o (forced o) ((gitDiffLines name (some ixv) [hk]).length + 2)).run
        (loopStart s0 (gitDiffLines name (some ixv) [hk])) = (.ok (), s1) ∧
    s1.fs = s0.fs ∧ s1.trace = tmpOps ∧
    s1.dWrites = [deferredOf name result 0 { oldPerms := some 0o755, needFix := false, hadFailure := false } false] ∧
    (processPatchM o).run s0 = (finalizeDeferred o).run s1 := by
  obtain ⟨s1, h1, h2, h3, h4, _, h6, _⟩ := C01_run_git_deferred (o := o) (s0 := s0) (name := name) (pname := pname)
    (bytes := bytes) (m := 0o755) (pm := 0o644) (ix := some ixv) (hs := [hk]) guessOpts rfl ⟨rfl, rfl, rfl, rfl, rfl, rfl⟩
    (by decide) (flat_ne_devNull (by decide)) (dirExists_parent_of_noSlash _ (by decide)) (RunB.dirsThere_flat _ (by decide))
    (by decide) (by decide) (by decide) (by decide) rfl
    (gitDiff_of_flat (by decide) ixOk gitHunks) (strip_a (by decide)) (strip_b (by decide)) (validB_sound _ _ _ _ (by decide))
  rw [meaning] at h4
  exact ⟨s1, h1, h2, h3, h4, h6⟩

/-- the --dry-run sibling applies as well -/
theorem applies_dry : (runPatch { o with dryRun := true } s0).1 = 0 ∧ (runPatch { o with dryRun := true } s0).2.fs = s0.fs ∧
    (runPatch { o with dryRun := true } s0).2.trace = tmpOps ∧ (runPatch { o with dryRun := true } s0).2.dWrites = [] :=
  C15_run_git_dry { o with dryRun := true } s0 name pname bytes (some ixv) 0o755 0o644 [hk]
    { noOperand := rfl, noOut := rfl, noBackup := rfl, noReverse := rfl, noDefine := rfl, fuzz := by decide, quiet := rfl,
      file := { patchFile := rfl, noDir := rfl, noHelp := rfl, noVersion := rfl, noContext := rfl, noNormal := rfl, noEd := rfl } }
    rfl rfl ⟨rfl, rfl, rfl, rfl, rfl, rfl⟩ (by decide) ixOk (by decide) (by decide) (by decide) (by decide) rfl gitHunks
    (validB_sound _ _ _ _ (by decide))

-- independently: the executable model on the same state (executable tests)
#guard (runPatch o s0).1 == 0
#guard (runPatch o s0).2.fs.lookup name == some (.file (str "a\nB\nc\n") 0o755)
#guard (runPatch o s0).2.fs.lookup pname == s0.fs.lookup pname
#guard (runPatch o s0).2.par.s.eof && (runPatch o s0).2.par.s.rest.isEmpty
#guard (runPatch o s0).2.trace == [.tmpCreate, .tmpUnlink, .tmpCreate, .tmpUnlink, .creat name,
                                   .write name (str "a\nB\nc\n"), .chmod name 0o755]
#guard (runPatch o s0).2.out == [.file name false]
-- the deferred writer: the same section run alone (`processSection`) touches nothing and records the write
#guard match (processSection o .unknown).run (loopStart s0 (splitLines (gitDiffText name (some ixv) [hk]))) with
  | (.ok true, s1) => s1.fs.lookup name == some (.file bytes 0o755) && s1.trace == tmpOps &&
      (s1.dWrites.map fun w => (w.dest, w.content, w.newMode, w.backup)) == [(name, str "a\nB\nc\n", 0, false)]
  | _ => false
-- without the `index` line
#guard (runPatch o { fs := { nodes := [(name, .file bytes 0o755), (pname, .file (gitDiffText name none [hk]) 0o644)] } }).1 == 0
#guard (runPatch { o with dryRun := true } s0).1 == 0
#guard (runPatch { o with dryRun := true } s0).2.fs.lookup name == some (.file bytes 0o755)
#guard (runPatch { o with dryRun := true } s0).2.trace == tmpOps

/-- no `changeStart`: the git diff that fills the EMPTY file `f` (`@@ -0,0 +1 @@`, `+a`) is covered — in a git section the
    range `-0,0` alone does not make the patch an "add" (for the unified text of the same script the header scan infers "add",
    and `C01_run` does not apply: `Scope.add1` in C01Run.lean) -/
def add1 : Hunk := ⟨⟨0, 0⟩, ⟨1, 1⟩, [⟨PLUS, ⟨[97], .lf⟩⟩]⟩
def sE : DState := { fs := { nodes := [(name, .file [] 0o644), (pname, .file (gitDiffText name none [add1]) 0o644)] } }
#guard gitDiffText name none [add1] == str "diff --git a/f b/f\n--- a/f\n+++ b/f\n@@ -0,0 +1 @@\n+a\n"
#guard !changeStart [add1]
theorem applies_fill :
    (runPatch o sE).1 = 0 ∧ (runPatch o sE).2.fs.lookup name = some (.file [97, 10] 0o644) := by
  have h := C01_run_git o sE name pname [] none 0o644 0o644 [add1] guessOpts rfl rfl ⟨rfl, rfl, rfl, rfl, rfl, rfl⟩
    (by decide) (by intro x hx; cases hx) (by decide) (by decide) (by decide) (by decide) rfl
    { nonEmpty := by decide, writable := by decide } (validB_sound _ _ _ _ (by decide))
  have hm : Render.renderText o.newlineOutput (splice (splitLines []) 0 [add1]) = [97, 10] := by decide
  rw [hm] at h
  exact ⟨h.1, h.2.1⟩
#guard (runPatch o sE).1 == 0 && (runPatch o sE).2.fs.lookup name == some (.file (str "a\n") 0o644)

end GitInstance

/-! ### the scope conditions, evaluated (executable tests) -/
namespace GitScope
open GitInstance

-- `-p0` (or no `-p` option at all: then the BASE NAME is taken, which works for a flat name): with `-p0` the run looks for `a/f`
#guard (runPatch { o with strip := 0 } s0).1 == 2 &&
  (runPatch { o with strip := 0 } s0).2.out == [.cantFind, .asked "File to patch:"]
#guard (runPatch { o with strip := -1 } s0).1 == 0

-- a blank in the name: `--- a/my f` is cut at the blank (git itself writes a TAB after such a name), "my" is looked for
def blank : Bytes := str "my f"
def sB : DState := { fs := { nodes := [(blank, .file bytes 0o644), (pname, .file (gitDiffText blank none [hk]) 0o644)] } }
#guard (runPatch o sB).1 == 2 && (runPatch o sB).2.fs.lookup blank == some (.file bytes 0o644)

-- a name in a directory of the tree (`C01_run_git_gen`): `-p1` takes `a/` off `a/src/f`
def deep : Bytes := str "src/f"
def sD : DState :=
  { fs := { nodes := [(str "src", .dir 0o755), (deep, .file bytes 0o600), (pname, .file (gitDiffText deep none [hk]) 0o644)] } }
#guard (runPatch o sD).1 == 0 && (runPatch o sD).2.fs.lookup deep == some (.file (str "a\nB\nc\n") 0o600) &&
  (runPatch o sD).2.trace == tmpOps ++ [.creat deep, .write deep (str "a\nB\nc\n"), .chmod deep 0o600]

end GitScope

/-! ## the pure rename

      patch -p1 -i pname           with `pname` =   diff --git a/old b/new
                                                     similarity index <sim>
                                                     rename from old
                                                     rename to new

  in a tree that holds `old` (content `bytes`, mode `m` — it need not be writable) and nothing at `new`, both names in the
  working directory: exit status 0, `new` holds the lines of `old` as `--newline-output` renders them, with the mode `m`, `old`
  is gone, no other path differs; all of it is done by `finalizeDeferred` after the loop: `creat new`, `write new …`,
  `chmod new m`, `unlink old` (`C01_run_git_rename`, `C01_run_git_rename_deferred`); --dry-run: nothing (`C15_run_git_rename_dry`).

  Side conditions, and what happens without them (evaluated in `RenameScope`):
  * `new` absent — REQUIRED for "mode `m`": onto an existing regular file the rename is carried out all the same (the old
    content of `new` is lost without a backup or a message, exit status 0) and the result keeps the mode of the file that was
    overwritten, not the mode of `old` (`RenameScope.onto`).  Looks like a defect of the C++ code (a rename(2) keeps the mode
    of the source; `git apply` refuses: "already exists in working directory").
  * the bytes: `new` holds `renderLines o.newlineOutput (splitLines bytes)`, which is `bytes` under `--newline-output=keep`, and
    in the LF modes (the default `native` included) when no line of `old` ends in CR LF (`C01_run_git_rename_same`).  A file with
    CR LF lines is REWRITTEN with LF by a pure rename under the default options (`RenameScope.crlf`): the file passes through
    `apply_patch` and the line writer like any patched file.  Surprising for `similarity index 100%`; same cause as the known
    behaviour of `--newline-output=native` for changed files.
  * `old ≠ new` — scope: a "rename" of a file to itself is turned into a change and written in place (harmless).
  * names: in the working directory, not empty, no line feed, not ending in CR, not starting with a quote (blanks and TABs are
    fine here: the names stand alone on their lines); `-p1` (`o.strip = 1`: with `-p0` the names get `a/` / `b/` in front).
-/

/-- a name as it stands on a `rename from` / `rename to` line: in the working directory, unquoted -/
def renameName (n : Bytes) : Prop :=
  n ≠ [] ∧ (∀ c ∈ n, c ≠ SLASHB) ∧ NL ∉ n ∧ n.getLast? ≠ some CR ∧ n.head? ≠ some DQUOTE

instance (n : Bytes) : Decidable (renameName n) := by unfold renameName; infer_instance

section
variable {o : Options} {s0 : DState} {old new pname bytes sim : Bytes} {m pm : Nat}

/-- header scan, body parse and the applier's verdict for the one section of the rename -/
theorem renameSection_of_text (ho : GuessOpts o pname) (hstrip : o.strip = 1) (hs0 : CleanStart s0)
    (hold : renameName old) (hnew : renameName new) (hne : old ≠ new)
    (hfile : s0.fs.lookup old = some (.file bytes m)) (habsent : s0.fs.lookup new = none) :
    ∃ info par1 par2 r,
      RenameSection o (forced o) (loopStart s0 (renameLines old new sim)) old new bytes m
        { format := .git, operation := .rename, oldPath := old, newPath := new } info par1 par2 r ∧
      render o.newlineOutput r.out = renderLines o.newlineOutput (splitLines bytes) ∧
      par2.s.eof = true := by
  obtain ⟨info, par1, par2, hhdr, hbody, heof⟩ := parse_renameLines (forced o) old new sim 1 hold.2.2.2.2 hnew.2.2.2.2
  have hrev : (applyOptsOf o).reverse = false := ho.noReverse
  have hap := applyPatch_nohunks (splitLines bytes) { format := .git, operation := .rename, oldPath := old, newPath := new }
    (applyOptsOf o) (Option.map (fun l => List.map (fun a => !List.isEmpty a && List.head? a != some 110) l) s0.tty) hrev rfl
  refine ⟨info, par1, par2,
    { out := [] ++ copyRange (splitLines bytes) 0 ((splitLines bytes).length - 0), rejBytes := [], failed := 0, skipped := false,
      perfect := true, rejected := [], applied := [], msgs := [],
      patch := { format := .git, operation := .rename, oldPath := old, newPath := new },
      tty := Option.map (fun l => List.map (fun a => !List.isEmpty a && List.head? a != some 110) l) s0.tty },
    ?_, render_copy_all o.newlineOutput (splitLines bytes) (Render.linesTerminated_splitLines bytes), heof⟩
  exact {
    noOperand := ho.noOperand, noOut := ho.noOut, noBackup := ho.noBackup, noReverse := ho.noReverse,
    oldNe := hold.1, oldNotNull := flat_ne_devNull hold.2.1, newNe := hnew.1, newFlat := RunB.dirPrefixes_flat hnew.2.1,
    differ := hne, cwd := hs0.cwd, hdr := by rw [hstrip]; exact hhdr,
    fmt := rfl, op := rfl, pre := rfl, oldPath := rfl, newPath := rfl, newMode := rfl, body := hbody,
    file := hfile, absent := habsent, root := hs0.root, noFault := hs0.noFault, apply := hap,
    failed := rfl, perfect := rfl, skipped := rfl, msgs := rfl, ttyLeft := rfl, patch := rfl }

/-- **the state at the end of the section loop of a pure rename, and what `runPatch` makes of it**: the tree untouched, the
    write of `new` and the removal of `old` recorded; `finalizeDeferred` carries them out, the write first -/
theorem C01_run_git_rename_deferred (ho : GuessOpts o pname) (hstrip : o.strip = 1) (hreal : o.dryRun = false)
    (hs0 : CleanStart s0) (hold : renameName old) (hnew : renameName new) (hne : old ≠ new) (hsim : endField sim)
    (hpn : pname ≠ []) (hpd : pname ≠ [45])
    (hfile : s0.fs.lookup old = some (.file bytes m)) (habsent : s0.fs.lookup new = none)
    (hpatch : s0.fs.lookup pname = some (.file (renameText old new sim) pm)) :
    ∃ s1 : DState,
      (sectionLoop o (forced o) ((renameLines old new sim).length + 2)).run (loopStart s0 (renameLines old new sim)) = (.ok (), s1) ∧
      s1.fs = s0.fs ∧ s1.trace = s0.trace ++ tmpOps ∧
      s1.dWrites = [deferredOf new (renderLines o.newlineOutput (splitLines bytes)) 0
                      { oldPerms := some m, needFix := false, hadFailure := false } false] ∧
      s1.dRemovals = [(old, false)] ∧
      (processPatchM o).run s0 = (finalizeDeferred o).run s1 ∧
      runPatch o s0 = (0, { s1 with
        fs := (s0.fs.set new (.file (renderLines o.newlineOutput (splitLines bytes)) m)).erase old,
        trace := s0.trace ++ tmpOps ++ renameOps old new (renderLines o.newlineOutput (splitLines bytes)) m,
        opCount := s1.opCount + (renameOps old new (renderLines o.newlineOutput (splitLines bytes)) m).length }) := by
  obtain ⟨info, par1, par2, r, H, hrender, heof⟩ :=
    renameSection_of_text (sim := sim) ho hstrip hs0 hold hnew hne hfile habsent
  obtain ⟨s1, hrun, hfs, htr, hdone⟩ := processSection_rename H hreal
  have hloop := sectionLoop_one o (forced o) (renameLines old new sim).length _ s1 rfl hrun (by rw [hdone.par]; exact heof)
  have hdw : s1.dWrites = [deferredOf new (renderLines o.newlineOutput (splitLines bytes)) 0
      { oldPerms := some m, needFix := false, hadFailure := false } false] := by
    rw [hdone.dWrites, ← hrender]
    show s0.dWrites ++ _ = _
    rw [hs0.noWrites]; rfl
  have hdr : s1.dRemovals = [(old, false)] := by
    rw [hdone.dRemovals]
    show s0.dRemovals ++ _ = _
    rw [hs0.noRemovals]; rfl
  have htr' : s1.trace = s0.trace ++ tmpOps := by
    rw [htr]; show s0.trace ++ _ ++ _ = _; simp
  have hP := run_processPatchM_fin o s0 s1 pname (renameText old new sim) pm (forced o) ho.file.noDir ho.file.patchFile hpn hpd
    hs0.cwd hpatch hs0.root (diffFormat_plain o ho.file.noContext ho.file.noNormal ho.file.noEd)
    (by rw [splitLines_renameText old new sim ⟨hold.2.2.1, hold.2.2.2.1⟩ ⟨hnew.2.2.1, hnew.2.2.2.1⟩ hsim]; exact hloop)
  have hcwd1 : s1.cwd = [] := by rw [hdone.cwd]; exact hs0.cwd
  have hF := run_finalizeDeferred_rename o s1 old new _ bytes m _ hdw hdr rfl rfl hnew.1 (RunB.dirPrefixes_flat hnew.2.1)
    (RunB.dirPrefixes_flat hold.2.1) hne hcwd1 (by rw [hfs]; exact hfile) (by rw [hfs]; exact habsent)
    (by rw [hfs]; exact dirExists_parent_of_noSlash s0.fs hnew.2.1) (by rw [hdone.faultAt]; exact hs0.noFault)
  refine ⟨s1, hloop, hfs, htr', hdw, hdr, hP, ?_⟩
  rw [runPatch_of_run o s0 _ ho.file.noHelp ho.file.noVersion (hP.trans hF)]
  have hhf : s1.hadFailure = false := by rw [hdone.hadFailure]; exact hs0.noFailure
  simp only [hhf, Bool.false_eq_true, if_false, hfs, htr', List.append_assoc]

/-- **C01, end to end, a pure git rename.**  Exit status 0; `new` holds the lines of `old` (rendered) with the mode of `old`;
    `old` is gone; nothing else in the tree differs; the trace is the four temporaries, then `creat new`, `write new …`,
    `chmod new m`, `unlink old`. -/
theorem C01_run_git_rename (o : Options) (s0 : DState) (old new pname bytes sim : Bytes) (m pm : Nat)
    (ho : GuessOpts o pname) (hstrip : o.strip = 1) (hreal : o.dryRun = false)
    (hs0 : CleanStart s0) (hold : renameName old) (hnew : renameName new) (hne : old ≠ new) (hsim : endField sim)
    (hpn : pname ≠ []) (hpd : pname ≠ [45])
    (hfile : s0.fs.lookup old = some (.file bytes m)) (habsent : s0.fs.lookup new = none)
    (hpatch : s0.fs.lookup pname = some (.file (renameText old new sim) pm)) :
    (runPatch o s0).1 = 0 ∧
    (runPatch o s0).2.fs.lookup new = some (.file (renderLines o.newlineOutput (splitLines bytes)) m) ∧
    (runPatch o s0).2.fs.lookup old = none ∧
    (∀ q, q ≠ old → q ≠ new → (runPatch o s0).2.fs.lookup q = s0.fs.lookup q) ∧
    (runPatch o s0).2.trace =
      s0.trace ++ tmpOps ++ renameOps old new (renderLines o.newlineOutput (splitLines bytes)) m := by
  obtain ⟨s1, _, _, _, _, _, _, hrun⟩ :=
    C01_run_git_rename_deferred ho hstrip hreal hs0 hold hnew hne hsim hpn hpd hfile habsent hpatch
  rw [hrun]
  refine ⟨rfl, ?_, ?_, ?_, rfl⟩
  · show ((s0.fs.set new _).erase old).lookup new = _
    rw [Fs.lookup_erase_ne _ _ _ (Ne.symm hne)]
    exact Fs.lookup_set_self _ _ _
  · exact Fs.lookup_erase_self _ _
  · intro q hq1 hq2
    show ((s0.fs.set new _).erase old).lookup q = _
    rw [Fs.lookup_erase_ne _ _ _ hq1, Fs.lookup_set_ne _ _ _ _ hq2]

/-- … and `new` holds the very BYTES of `old` under `--newline-output=keep`, and in the LF modes (`native`, the default,
    included) when no line of `old` ends in CR LF -/
theorem C01_run_git_rename_same (o : Options) (s0 : DState) (old new pname bytes sim : Bytes) (m pm : Nat)
    (ho : GuessOpts o pname) (hstrip : o.strip = 1) (hreal : o.dryRun = false)
    (hs0 : CleanStart s0) (hold : renameName old) (hnew : renameName new) (hne : old ≠ new) (hsim : endField sim)
    (hpn : pname ≠ []) (hpd : pname ≠ [45])
    (hfile : s0.fs.lookup old = some (.file bytes m)) (habsent : s0.fs.lookup new = none)
    (hpatch : s0.fs.lookup pname = some (.file (renameText old new sim) pm))
    (hnl : o.newlineOutput = .keep ∨
      ((o.newlineOutput = .lf ∨ o.newlineOutput = .native) ∧ ∀ l ∈ splitLines bytes, l.newline ≠ .crlf)) :
    (runPatch o s0).1 = 0 ∧
    (runPatch o s0).2.fs.lookup new = some (.file bytes m) ∧
    (runPatch o s0).2.fs.lookup old = none ∧
    (∀ q, q ≠ old → q ≠ new → (runPatch o s0).2.fs.lookup q = s0.fs.lookup q) := by
  obtain ⟨h1, h2, h3, h4, _⟩ := C01_run_git_rename o s0 old new pname bytes sim m pm ho hstrip hreal hs0 hold hnew hne hsim hpn hpd
    hfile habsent hpatch
  rw [C18Run.rewritten_same o.newlineOutput bytes hnl] at h2
  exact ⟨h1, h2, h3, h4⟩

/-- **C15 sibling: the rename under --dry-run** — exit status 0, the tree untouched, nothing recorded -/
theorem C15_run_git_rename_dry (o : Options) (s0 : DState) (old new pname bytes sim : Bytes) (m pm : Nat)
    (ho : GuessOpts o pname) (hstrip : o.strip = 1) (hdry : o.dryRun = true)
    (hs0 : CleanStart s0) (hold : renameName old) (hnew : renameName new) (hne : old ≠ new) (hsim : endField sim)
    (hpn : pname ≠ []) (hpd : pname ≠ [45])
    (hfile : s0.fs.lookup old = some (.file bytes m)) (habsent : s0.fs.lookup new = none)
    (hpatch : s0.fs.lookup pname = some (.file (renameText old new sim) pm)) :
    (runPatch o s0).1 = 0 ∧ (runPatch o s0).2.fs = s0.fs ∧ (runPatch o s0).2.trace = s0.trace ++ tmpOps ∧
    (runPatch o s0).2.dWrites = [] ∧ (runPatch o s0).2.dRemovals = [] := by
  obtain ⟨info, par1, par2, r, H, _, heof⟩ :=
    renameSection_of_text (sim := sim) ho hstrip hs0 hold hnew hne hfile habsent
  obtain ⟨s1, hrun, hfs, htr, hdone⟩ := processSection_rename_dry H hdry
  have hloop := sectionLoop_one o (forced o) (renameLines old new sim).length _ s1 rfl hrun (by rw [hdone.par]; exact heof)
  have hdw : s1.dWrites = [] := by
    rw [hdone.dWrites]; show s0.dWrites ++ [] = []; rw [hs0.noWrites]; rfl
  have hdr : s1.dRemovals = [] := by
    rw [hdone.dRemovals]; show s0.dRemovals ++ [] = []; rw [hs0.noRemovals]; rfl
  have hP := run_processPatchM o s0 s1 pname (renameText old new sim) pm (forced o) ho.file.noDir ho.file.patchFile hpn hpd
    hs0.cwd hpatch hs0.root (diffFormat_plain o ho.file.noContext ho.file.noNormal ho.file.noEd)
    (by rw [splitLines_renameText old new sim ⟨hold.2.2.1, hold.2.2.2.1⟩ ⟨hnew.2.2.1, hnew.2.2.2.1⟩ hsim]; exact hloop) hdw hdr
  rw [runPatch_of_run o s0 s1 ho.file.noHelp ho.file.noVersion hP]
  have hhf : s1.hadFailure = false := by rw [hdone.hadFailure]; exact hs0.noFailure
  rw [hhf]
  refine ⟨rfl, hfs, ?_, hdw, hdr⟩
  show s1.trace = _
  rw [htr]; show s0.trace ++ _ ++ _ = _; simp

end

/-! ### non-vacuity: `old` = "x\n" (mode 0755) → `new` -/
namespace RenameInstance

def old : Bytes := [111, 108, 100]                         -- "old"
def new : Bytes := [110, 101, 119]                         -- "new"
def pname : Bytes := [112, 46, 100, 105, 102, 102]         -- "p.diff"
def bytes : Bytes := [120, 10]                             -- "x\n"
def sim : Bytes := [49, 48, 48, 37]                        -- "100%"
def s0 : DState :=
  { fs := { nodes := [(old, .file bytes 0o755), (pname, .file (renameText old new sim) 0o644)] } }
def o : Options := { defaultOptions with patchFile := pname, strip := 1 }

#guard old == str "old" && new == str "new" && bytes == str "x\n" && sim == str "100%"
#guard renameText old new sim == str "diff --git a/old b/new\nsimilarity index 100%\nrename from old\nrename to new\n"

theorem guessOpts : GuessOpts o pname :=
  { noOperand := rfl, noOut := rfl, noBackup := rfl, noReverse := rfl, noDefine := rfl, fuzz := by decide, quiet := rfl,
    file := { patchFile := rfl, noDir := rfl, noHelp := rfl, noVersion := rfl, noContext := rfl, noNormal := rfl, noEd := rfl } }

/-- the theorem applies: all its hypotheses hold of the instance (discharged in the kernel) -/
theorem applies :
    (runPatch o s0).1 = 0 ∧
    (runPatch o s0).2.fs.lookup new = some (.file bytes 0o755) ∧
    (runPatch o s0).2.fs.lookup old = none ∧
    (∀ q, q ≠ old → q ≠ new → (runPatch o s0).2.fs.lookup q = s0.fs.lookup q) :=
  C01_run_git_rename_same o s0 old new pname bytes sim 0o755 0o644 guessOpts rfl rfl ⟨rfl, rfl, rfl, rfl, rfl, rfl⟩
    (by decide) (by decide) (by decide) (by decide) (by decide) (by decide) (by decide) (by decide) rfl
    (Or.inr ⟨Or.inr rfl, by decide⟩)

theorem applies_trace :
    (runPatch o s0).2.trace =
      [.tmpCreate, .tmpUnlink, .tmpCreate, .tmpUnlink, .creat new, .write new bytes, .chmod new 0o755, .unlink old] := by
  have h := (C01_run_git_rename o s0 old new pname bytes sim 0o755 0o644 guessOpts rfl rfl ⟨rfl, rfl, rfl, rfl, rfl, rfl⟩
    (by decide) (by decide) (by decide) (by decide) (by decide) (by decide) (by decide) (by decide) rfl).2.2.2.2
  have hm : renderLines o.newlineOutput (splitLines bytes) = bytes := by decide
  rw [hm] at h
  exact h

theorem applies_dry : (runPatch { o with dryRun := true } s0).1 = 0 ∧ (runPatch { o with dryRun := true } s0).2.fs = s0.fs :=
  let h := C15_run_git_rename_dry { o with dryRun := true } s0 old new pname bytes sim 0o755 0o644
    { noOperand := rfl, noOut := rfl, noBackup := rfl, noReverse := rfl, noDefine := rfl, fuzz := by decide, quiet := rfl,
      file := { patchFile := rfl, noDir := rfl, noHelp := rfl, noVersion := rfl, noContext := rfl, noNormal := rfl, noEd := rfl } }
    rfl rfl ⟨rfl, rfl, rfl, rfl, rfl, rfl⟩ (by decide) (by decide) (by decide) (by decide) (by decide) (by decide) (by decide)
    (by decide) rfl
  ⟨h.1, h.2.1⟩

-- independently: the executable model on the same state (executable tests)
#guard (runPatch o s0).1 == 0
#guard (runPatch o s0).2.fs.lookup new == some (.file (str "x\n") 0o755)
#guard (runPatch o s0).2.fs.lookup old == none
#guard (runPatch o s0).2.fs.lookup pname == s0.fs.lookup pname
#guard (runPatch o s0).2.trace == [.tmpCreate, .tmpUnlink, .tmpCreate, .tmpUnlink, .creat new, .write new (str "x\n"),
                                   .chmod new 0o755, .unlink old]
#guard (runPatch o s0).2.out == [.file new false]
-- the section alone touches nothing: write and removal are recorded
#guard match (processSection o .unknown).run (loopStart s0 (splitLines (renameText old new sim))) with
  | (.ok true, s1) => s1.fs.lookup old == some (.file bytes 0o755) && s1.fs.lookup new == none && s1.trace == tmpOps &&
      (s1.dWrites.map fun w => (w.dest, w.content, w.newMode, w.backup)) == [(new, str "x\n", 0, false)] &&
      s1.dRemovals == [(old, false)]
  | _ => false
#guard (runPatch { o with dryRun := true } s0).1 == 0 &&
  (runPatch { o with dryRun := true } s0).2.fs.lookup old == some (.file bytes 0o755) &&
  (runPatch { o with dryRun := true } s0).2.fs.lookup new == none &&
  (runPatch { o with dryRun := true } s0).2.trace == tmpOps

end RenameInstance

/-! ### the side conditions of the rename, evaluated (executable tests) -/
namespace RenameScope
open RenameInstance

/-- `new` is there already (a regular file, mode 0600, other content): the rename goes through with exit status 0, the old
    content of `new` is gone, and `new` KEEPS ITS OWN MODE 0600 — not the mode 0755 of `old`.  Hence `habsent`. -/
def onto : DState :=
  { fs := { nodes := [(old, .file bytes 0o755), (new, .file (str "precious\n") 0o600), (pname, .file (renameText old new sim) 0o644)] } }
#guard (runPatch o onto).1 == 0
#guard (runPatch o onto).2.fs.lookup new == some (.file (str "x\n") 0o600)      -- mode of the overwritten file, content of `old`
#guard (runPatch o onto).2.fs.lookup old == none
#guard (runPatch o onto).2.out == [.file new false]                              -- no message
#guard (runPatch o onto).2.trace == tmpOps ++ [.creat new, .write new (str "x\n"), .chmod new 0o600, .unlink old]

/-- a file with CR LF lines: under the default `--newline-output=native` the "100% similar" copy has LF lines -/
def crlf : DState :=
  { fs := { nodes := [(old, .file (str "x\r\ny\r\n") 0o644), (pname, .file (renameText old new sim) 0o644)] } }
#guard (runPatch o crlf).1 == 0 && (runPatch o crlf).2.fs.lookup new == some (.file (str "x\ny\n") 0o644)
#guard (runPatch { o with newlineOutput := .keep } crlf).2.fs.lookup new == some (.file (str "x\r\ny\r\n") 0o644)

-- a read-only `old` (mode 0444) is renamed all the same (known finding D68): no `hw` among the hypotheses
def ro : DState := { fs := { nodes := [(old, .file bytes 0o444), (pname, .file (renameText old new sim) 0o644)] } }
#guard (runPatch o ro).1 == 0 && (runPatch o ro).2.fs.lookup new == some (.file bytes 0o444) && (runPatch o ro).2.fs.lookup old == none

-- `-p0`: the names of the `rename` lines get `a/` / `b/` in front
#guard (runPatch { o with strip := 0 } s0).1 == 2

-- a rename of a file to itself: written in place
def self : DState := { fs := { nodes := [(old, .file bytes 0o755), (pname, .file (renameText old old sim) 0o644)] } }
#guard (runPatch o self).1 == 0 && (runPatch o self).2.fs.lookup old == some (.file bytes 0o755)

-- names with a blank are fine on `rename` lines
def sp : DState :=
  { fs := { nodes := [(str "my old", .file bytes 0o755), (pname, .file (renameText (str "my old") (str "my new") sim) 0o644)] } }
#guard (runPatch o sp).1 == 0 && (runPatch o sp).2.fs.lookup (str "my new") == some (.file bytes 0o755) &&
  (runPatch o sp).2.fs.lookup (str "my old") == none

end RenameScope

end PatchModel.C01

#print axioms PatchModel.C01.C01_run_git_deferred
#print axioms PatchModel.C01.C01_run_git_gen
#print axioms PatchModel.C01.C15_run_git_dry_gen
#print axioms PatchModel.C01.C01_run_git
#print axioms PatchModel.C01.C15_run_git_dry
#print axioms PatchModel.C01.GitInstance.applies
#print axioms PatchModel.C01.GitInstance.applies_deferred
#print axioms PatchModel.C01.GitInstance.applies_dry
#print axioms PatchModel.C01.GitInstance.applies_fill
#print axioms PatchModel.C01.C01_run_git_rename_deferred
#print axioms PatchModel.C01.C01_run_git_rename
#print axioms PatchModel.C01.C01_run_git_rename_same
#print axioms PatchModel.C01.C15_run_git_rename_dry
#print axioms PatchModel.C01.RenameInstance.applies
#print axioms PatchModel.C01.RenameInstance.applies_trace
#print axioms PatchModel.C01.RenameInstance.applies_dry
