/-
  C18 / C04 (exit status) / C09 (driver model).
-/
import PatchModel.Model.Driver
import PatchModel.Lemmas.DriverFacts
namespace PatchModel.C04x
open PatchModel PatchModel.DriverFacts

/-- the events that make a run "not clean" -/
def badEvent : DEv → Bool
  | .failed _ _ _ _ => true
  | .skipping => true
  | .refusing => true
  | .notDeleting => true
  | .binary => true
  | _ => false

theorem badEvent_eq : badEvent = isBadEv := by
  funext ev; cases ev <;> rfl

theorem runPatch_eq (o : Options) (s0 : DState) (hh : o.showHelp = false ∧ o.showVersion = false) :
    runPatch o s0 = match (processPatchM o).run s0 with
      | (.ok (), s) => (if s.hadFailure then 1 else 0, s)
      | (.error _, s) => (2, s) := by
  unfold runPatch; rw [hh.1, hh.2]; rfl

/-- the exit status is 0, 1 or 2 -/
theorem exit_range (o : Options) (s0 : DState) : (runPatch o s0).1 = 0 ∨ (runPatch o s0).1 = 1 ∨ (runPatch o s0).1 = 2 := by
  unfold runPatch
  split
  · exact Or.inl rfl
  · split
    · split
      · exact Or.inr (Or.inl rfl)
      · exact Or.inl rfl
    · exact Or.inr (Or.inr rfl)

/-- **exit status tells the truth**: 2 exactly when an exception reached `main`; otherwise 1 exactly when some hunk was rejected or
    ignored, a patch was skipped, refused, is a binary diff, or a file could not be deleted; 0 otherwise -/
theorem exit_truth (o : Options) (s0 : DState) (h0 : s0.hadFailure = false ∧ s0.out = [])
    (hh : o.showHelp = false ∧ o.showVersion = false) :
    ((runPatch o s0).1 = 2 ↔ ∃ e s, (processPatchM o).run s0 = (.error e, s)) ∧
    ((runPatch o s0).1 = 1 ↔ (∃ s, (processPatchM o).run s0 = (.ok (), s)) ∧ ∃ ev ∈ (runPatch o s0).2.out, badEvent ev = true) ∧
    ((runPatch o s0).1 = 0 ↔ (∃ s, (processPatchM o).run s0 = (.ok (), s)) ∧ ∀ ev ∈ (runPatch o s0).2.out, badEvent ev = false) := by
  have hH0 : Honest s0 := by
    unfold Honest HF HB; rw [h0.1, h0.2]; simp
  rw [runPatch_eq o s0 hh, badEvent_eq]
  rcases hrun : (processPatchM o).run s0 with ⟨r, s⟩
  cases r with
  | error e =>
    refine ⟨⟨fun _ => ⟨e, s, rfl⟩, fun _ => rfl⟩, ⟨fun h => ?_, fun h => ?_⟩, ⟨fun h => ?_, fun h => ?_⟩⟩
    · cases h
    · obtain ⟨⟨s', hs'⟩, _⟩ := h; cases hs'
    · cases h
    · obtain ⟨⟨s', hs'⟩, _⟩ := h; cases hs'
  | ok u =>
    have hH : Honest s := runPatch_honest o s0 s hH0 hrun
    unfold Honest HF HB at hH
    show ((if s.hadFailure = true then 1 else 0) = 2 ↔ _) ∧ ((if s.hadFailure = true then 1 else 0) = 1 ↔ _ ∧ ∃ ev ∈ s.out, _) ∧
      ((if s.hadFailure = true then 1 else 0) = 0 ↔ _ ∧ ∀ ev ∈ s.out, _)
    cases hf : s.hadFailure
    · have hnb : ¬ ∃ ev ∈ s.out, isBadEv ev = true := fun h => by
        have := hH.2 h; rw [hf] at this; cases this
      refine ⟨⟨fun h => by simp at h, fun ⟨e, s', h⟩ => by cases h⟩, ⟨fun h => by simp at h, fun h => absurd h.2 hnb⟩,
        ⟨fun _ => ⟨⟨s, rfl⟩, ?_⟩, fun _ => by simp⟩⟩
      intro ev hev
      cases hb : isBadEv ev
      · rfl
      · exact absurd ⟨ev, hev, hb⟩ hnb
    · have hb := hH.1 hf
      refine ⟨⟨fun h => by simp at h, fun ⟨e, s', h⟩ => by cases h⟩, ⟨fun _ => ⟨⟨s, rfl⟩, hb⟩, fun _ => by simp⟩,
        ⟨fun h => by simp at h, fun h => ?_⟩⟩
      obtain ⟨ev, hev, hbe⟩ := hb
      rw [h.2 ev hev] at hbe; cases hbe

end PatchModel.C04x

#print axioms PatchModel.C04x.exit_range
#print axioms PatchModel.C04x.exit_truth
