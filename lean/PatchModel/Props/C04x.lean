/-
  C18 / C04 (exit status) / C09 (driver model).
-/
import PatchModel.Model.Driver
import PatchModel.Lemmas.DriverFacts
namespace PatchModel.C04x
open PatchModel PatchModel.DriverFacts

/-- the events that make a run "not clean" -/
def badEvent : DEv → Bool
  | .failed _ _ _ _ => true
  | .skipping => true
  | .refusing => true
  | .notDeleting => true
  | .binary => true
  | _ => false

theorem badEvent_eq : badEvent = isBadEv := by
  funext ev; cases ev <;> rfl

theorem runPatch_eq (o : Options) (s0 : DState) (hh : o.showHelp = false ∧ o.showVersion = false) :
    runPatch o s0 = match (processPatchM o).run s0 with
      | (.ok (), s) => (if s.hadFailure then 1 else 0, s)
      | (.error _, s) => (2, s) := by
  unfold runPatch; rw [hh.1, hh.2]; rfl

/-- the exit status is 0, 1 or 2 -/
theorem exit_range (o : Options) (s0 : DState) : (runPatch o s0).1 = 0 ∨ (runPatch o s0).1 = 1 ∨ (runPatch o s0).1 = 2 := by
  unfold runPatch
  split
  · exact Or.inl rfl
  · split
    · split
      · exact Or.inr (Or.inl rfl)
      · exact Or.inl rfl
    · exact Or.inr (Or.inr rfl)

/-- **exit status tells the truth**: 2 exactly when an exception reached `main`; otherwise 1 exactly when some hunk was rejected or
    ignored, a patch was skipped, refused, is a binary diff, or a file could not be deleted; 0 otherwise -/
theorem exit_truth (o : Options) (s0 : DState) (h0 : s0.hadFailure = false ∧ s0.out = [])
    (hh : o.showHelp = false ∧ o.showVersion = false) :
    ((runPatch o s0).1 = 2 ↔ ∃ e s, (processPatchM o).run s0 = (.error e, s)) ∧
    ((runPatch o s0).1 = 1 ↔ (∃ s, (processPatchM o).run s0 = (.ok (), s)) ∧ ∃ ev ∈ (runPatch o s0).2.out, badEvent ev = true) ∧
    ((runPatch o s0).1 = 0 ↔ (∃ s, (processPatchM o).run s0 = (.ok (), s)) ∧ ∀ ev ∈ (runPatch o s0).2.out, badEvent ev = false) := by
  have hH0 : Honest s0 := by
    unfold Honest HF HB; rw [h0.1, h0.2]; simp
  rw [runPatch_eq o s0 hh, badEvent_eq]
  rcases hrun : (processPatchM o).run s0 with ⟨r, s⟩
  cases r with
  | error e =>
    refine ⟨⟨fun _ => ⟨e, s, rfl⟩, fun _ => rfl⟩, ⟨fun h => ?_, fun h => ?_⟩, ⟨fun h => ?_, fun h => ?_⟩⟩
    · cases h
    · obtain ⟨⟨s', hs'⟩, _⟩ := h; cases hs'
    · cases h
    · obtain ⟨⟨s', hs'⟩, _⟩ := h; cases hs'
  | ok u =>
    have hH : Honest s := runPatch_honest o s0 s hH0 hrun
    unfold Honest HF HB at hH
    show ((if s.hadFailure = true then 1 else 0) = 2 ↔ _) ∧ ((if s.hadFailure = true then 1 else 0) = 1 ↔ _ ∧ ∃ ev ∈ s.out, _) ∧
      ((if s.hadFailure = true then 1 else 0) = 0 ↔ _ ∧ ∀ ev ∈ s.out, _)
    cases hf : s.hadFailure
    · have hnb : ¬ ∃ ev ∈ s.out, isBadEv ev = true := fun h => by
        have := hH.2 h; rw [hf] at this; cases this
      refine ⟨⟨fun h => by simp at h, fun ⟨e, s', h⟩ => by cases h⟩, ⟨fun h => by simp at h, fun h => absurd h.2 hnb⟩,
        ⟨fun _ => ⟨⟨s, rfl⟩, ?_⟩, fun _ => by simp⟩⟩
      intro ev hev
      cases hb : isBadEv ev
      · rfl
      · exact absurd ⟨ev, hev, hb⟩ hnb
    · have hb := hH.1 hf
      refine ⟨⟨fun h => by simp at h, fun ⟨e, s', h⟩ => by cases h⟩, ⟨fun _ => ⟨⟨s, rfl⟩, hb⟩, fun _ => by simp⟩,
        ⟨fun h => by simp at h, fun h => ?_⟩⟩
      obtain ⟨ev, hev, hbe⟩ := hb
      rw [h.2 ev hev] at hbe; cases hbe

/-! ### reject files: what is written earlier in a run is not lost (`RejectFiles`, `openRejects` / `writeRejects`)

    Two sections for one file, or `-r FILE` with several targets, write their rejects to the same file.  The first opening of a
    reject file in a run replaces what was there before the run (`creat`: O_TRUNC); every later one adds to it (`fopen(…, "a")`). -/

/-- `creat` of a path that is not in the tree (its directory is) makes an empty regular file -/
theorem creat_fresh (fs : Fs) (q : Bytes) (hnone : fs.lookup q = none) (hdir : fs.dirExists (parentOf q) = true) :
    fs.apply (.creat q) = .ok (fs.set q (.file [] (0o666 - (0o666 &&& fs.umask)))) := by
  have hst : fs.stat q = none := by unfold Fs.stat; rw [hnone]
  simp only [Fs.apply, hst, hdir]; rfl

/-- `creat` of a regular file one may write to truncates it and keeps its mode -/
theorem creat_existing (fs : Fs) (q old : Bytes) (m : Nat) (hfile : fs.lookup q = some (.file old m))
    (hdir : fs.dirExists (parentOf q) = true) (hw : fs.isRoot = true ∨ m / 128 % 2 = 1) :
    fs.apply (.creat q) = .ok (fs.set q (.file [] m)) := by
  have hc : (fs.isRoot || m / 128 % 2 == 1) = true := by
    rcases hw with h | h <;> simp [h]
  simp only [Fs.apply, Fs.stat_of_file hfile, hfile, hdir, hc]; rfl

/-- writing to a regular file that is there adds to it -/
theorem opWrite_file (p b : Bytes) (s : DState) (old : Bytes) (m : Nat) (hf : s.faultAt = none)
    (hl : s.fs.lookup (absPath s p) = some (.file old m)) :
    ∃ s', (opWrite p b).run s = (.ok (), s') ∧ s'.fs.lookup (absPath s p) = some (.file (old ++ b) m) ∧
      s'.cwd = s.cwd ∧ s'.faultAt = none ∧ s'.rejWritten = s.rejWritten := by
  rw [run_opWrite]
  cases hb : b.isEmpty
  · have happ : s.fs.apply (.write (absPath s p) b) = .ok (s.fs.set (absPath s p) (.file (old ++ b) m)) := by
      simp only [Fs.apply, hl]
    rw [if_neg (by simp), doOp_run_ok hf happ]
    exact ⟨_, rfl, Fs.lookup_set_self _ _ _, rfl, hf, rfl⟩
  · have : b = [] := by simpa using hb
    subst this
    rw [if_pos rfl]
    exact ⟨s, rfl, by rw [List.append_nil]; exact hl, rfl, hf, rfl⟩

theorem Fs.set_inj {fs : Fs} {a b : Bytes} {n n' : Node} (h : fs.set a n = fs.set b n') : a = b ∧ n = n' := by
  have h1 := congrArg (fun f => f.nodes.getLast?) h
  simpa [Fs.set] using h1

theorem isLinkAt_true {s : DState} {p : Bytes} (h : isLinkAt s p = true) :
    ∃ t, s.fs.lookup (absPath s p) = some (.symlink t) := by
  unfold isLinkAt at h
  split at h
  · next t ht => exact ⟨t, ht⟩
  · cases h

/-- a `creat` through a symbolic link that yields a regular file AT THE NAME OF THE LINK: the link was dangling (the model lets the file
    take the place of the link then), the file is new -/
theorem creat_link_cases {fs : Fs} {q t : Bytes} {m : Nat} (hl : fs.lookup q = some (.symlink t))
    (hc : fs.apply (.creat q) = .ok (fs.set q (.file [] m))) :
    fs.dirExists (parentOf q) = true ∧ m = 0o666 - (0o666 &&& fs.umask) := by
  simp only [Fs.apply, Fs.stat, hl] at hc
  split at hc
  · cases hc
  · next hd =>
    refine ⟨by simpa using hd, ?_⟩
    split at hc
    · next b m' hst =>
      split at hc
      · injection hc with hc
        have hq := (Fs.set_inj hc).1
        rw [hq, hl] at hst
        cases hst
      · cases hc
    · cases hc
    · injection hc with hc
      cases (Fs.set_inj hc).2
    · cases hc
    · injection hc with hc
      injection (Fs.set_inj hc).2 with _ hm
      exact hm.symm

/-- once a symbolic link or a regular file is removed, its name is free: the `creat` makes a new regular file -/
theorem creat_after_unlink' (fs : Fs) (q : Bytes) (n : Node) (hl : fs.lookup q = some n) (hnd : ∀ m, n ≠ .dir m)
    (hdir : fs.dirExists (parentOf q) = true) :
    (fs.erase q).apply (.creat q) = .ok ((fs.erase q).set q (.file [] (0o666 - (0o666 &&& fs.umask)))) := by
  refine creat_fresh (fs.erase q) q (Fs.lookup_erase_self fs q) ?_
  unfold Fs.dirExists at hdir ⊢
  by_cases hp : parentOf q = q
  · rw [hp] at hdir ⊢
    rw [hl] at hdir
    rw [Fs.lookup_erase_self]
    cases n with
    | dir m => exact absurd rfl (hnd m)
    | _ => simpa using hdir
  · rw [Fs.lookup_erase_ne _ _ _ hp]; exact hdir

/-- once a symbolic link is removed, its name is free: the `creat` makes a new regular file -/
theorem creat_after_unlink (fs : Fs) (q t : Bytes) (hl : fs.lookup q = some (.symlink t)) (hdir : fs.dirExists (parentOf q) = true) :
    (fs.erase q).apply (.creat q) = .ok ((fs.erase q).set q (.file [] (0o666 - (0o666 &&& fs.umask)))) :=
  creat_after_unlink' fs q _ hl (fun _ h => by cases h) hdir

/-- a `creat` that works: the directory is there -/
theorem creat_ok_dir {fs fs' : Fs} {q : Bytes} (hc : fs.apply (.creat q) = .ok fs') : fs.dirExists (parentOf q) = true := by
  simp only [Fs.apply] at hc
  split at hc
  · cases hc
  · next hd => simpa using hd

/-- the mode of the reject file after the first rejects of a run are written to it, `m` being the mode the `creat` of that name gives
    (`creat_fresh`: from the umask; `creat_existing`: that of the file): a name derived from the output file (no `-r`) which is that of a
    regular file or a symbolic link is made anew (`make_way_for`, D95 D101) — the mode comes from the umask —, a file named with `-r`
    is written as it is -/
def firstMode (o : Options) (s : DState) (rej : Bytes) (m : Nat) : Nat :=
  if (o.rejectFile.isEmpty && inWayAt s rej) = true then 0o666 - (0o666 &&& s.fs.umask) else m

theorem firstMode_named {o : Options} (h : o.rejectFile ≠ []) (s : DState) (rej : Bytes) (m : Nat) : firstMode o s rej m = m := by
  unfold firstMode
  have : o.rejectFile.isEmpty = false := by simpa using h
  rw [this]; rfl
theorem firstMode_free (o : Options) {s : DState} {rej : Bytes} (h : inWayAt s rej = false) (m : Nat) : firstMode o s rej m = m := by
  unfold firstMode; rw [h, Bool.and_false]; rfl
theorem firstMode_derived {o : Options} (ho : o.rejectFile = []) {s : DState} {rej : Bytes} (h : inWayAt s rej = true) (m : Nat) :
    firstMode o s rej m = 0o666 - (0o666 &&& s.fs.umask) := by
  unfold firstMode; rw [ho, h]; rfl

/-- **the first rejects written to a file in a run replace what was there before the run**: `rej` has not been written in this run;
    the `creat` works and yields an empty regular file with mode `m` at that path (`creat_fresh`: the file was not there;
    `creat_existing`: it was, with any content — which is gone).  Afterwards the file holds exactly `b`, and the run remembers it.
    (When the name is derived — no `-r` — a regular file or a dangling symbolic link of that name — the only kind of link for which
    `hcreat` can hold — is removed first: the file is a new one, with the mode the umask gives (`firstMode`); the content is the same.) -/
theorem writeRejects_first (o : Options) (rej b : Bytes) (s : DState) (m : Nat) (hf : s.faultAt = none)
    (hnot : s.rejWritten.contains rej = false)
    (hcreat : s.fs.apply (.creat (absPath s rej)) = .ok (s.fs.set (absPath s rej) (.file [] m))) :
    ∃ s', (writeRejects o rej b).run s = (.ok (), s') ∧ s'.fs.lookup (absPath s rej) = some (.file b (firstMode o s rej m)) ∧
      s'.rejWritten.contains rej = true ∧ s'.cwd = s.cwd ∧ s'.faultAt = none := by
  unfold writeRejects
  rw [run_bind, openRejects_run, if_neg (by rw [hnot]; simp)]
  cases hlk : (o.rejectFile.isEmpty && inWayAt s rej)
  · have hm : firstMode o s rej m = m := by unfold firstMode; rw [hlk]; rfl
    rw [hm, if_neg (by simp), doOp_run_ok (s := { s with rejWritten := s.rejWritten ++ [rej] }) hf hcreat]
    simp only []
    obtain ⟨s', h1, h2, h3, h4, h5⟩ := opWrite_file rej b
      { s with rejWritten := s.rejWritten ++ [rej], fs := s.fs.set (absPath s rej) (.file [] m),
               trace := s.trace ++ [.creat (absPath s rej)], opCount := s.opCount + 1 } [] m hf (Fs.lookup_set_self _ _ _)
    refine ⟨s', h1, ?_, ?_, h3, h4⟩
    · rw [List.nil_append] at h2; exact h2
    · rw [h5]; simp
  · have hm : firstMode o s rej m = 0o666 - (0o666 &&& s.fs.umask) := by unfold firstMode; rw [hlk]; rfl
    have hway : inWayAt s rej = true := by
      cases h : inWayAt s rej
      · rw [h, Bool.and_false] at hlk; cases hlk
      · rfl
    obtain ⟨n, hl, hnd, hdir⟩ : ∃ n, s.fs.lookup (absPath s rej) = some n ∧ (∀ m, n ≠ .dir m) ∧
        s.fs.dirExists (parentOf (absPath s rej)) = true := by
      rcases inWayAt_cases hway with ⟨t, hl⟩ | ⟨old, m0, hl⟩
      · exact ⟨_, hl, (fun _ h => by cases h), (creat_link_cases hl hcreat).1⟩
      · exact ⟨_, hl, (fun _ h => by cases h), creat_ok_dir hcreat⟩
    have hunl : s.fs.apply (.unlink (absPath s rej)) = .ok (s.fs.erase (absPath s rej)) := by
      rcases inWayAt_cases hway with ⟨t, hl'⟩ | ⟨old, m0, hl'⟩ <;> simp only [Fs.apply, hl']
    have hcr := creat_after_unlink' s.fs (absPath s rej) n hl hnd hdir
    rw [hm, if_pos rfl, doOp_run_ok (s := { s with rejWritten := s.rejWritten ++ [rej] }) hf hunl]
    simp only []
    rw [doOp_run_ok (s := { s with rejWritten := s.rejWritten ++ [rej], fs := s.fs.erase (absPath s rej), trace := s.trace ++ [.unlink (absPath s rej)], opCount := s.opCount + 1 }) hf hcr]
    simp only []
    obtain ⟨s', h1, h2, h3, h4, h5⟩ := opWrite_file rej b
      { s with rejWritten := s.rejWritten ++ [rej],
               fs := (s.fs.erase (absPath s rej)).set (absPath s rej) (.file [] (0o666 - (0o666 &&& s.fs.umask))),
               trace := s.trace ++ [.unlink (absPath s rej)] ++ [.creat (absPath s rej)], opCount := s.opCount + 1 + 1 } []
      (0o666 - (0o666 &&& s.fs.umask)) hf (Fs.lookup_set_self _ _ _)
    refine ⟨s', h1, ?_, ?_, h3, h4⟩
    · rw [List.nil_append] at h2; exact h2
    · rw [h5]; simp

/-- **later rejects for the same file are added**: `rej` has been written in this run and is still there (a regular file): no `creat`
    (no truncation), the bytes go to the end -/
theorem writeRejects_again (o : Options) (rej b : Bytes) (s : DState) (old : Bytes) (m : Nat) (hf : s.faultAt = none)
    (hin : s.rejWritten.contains rej = true) (hl : s.fs.lookup (absPath s rej) = some (.file old m)) :
    ∃ s', (writeRejects o rej b).run s = (.ok (), s') ∧ s'.fs.lookup (absPath s rej) = some (.file (old ++ b) m) ∧
      s'.rejWritten = s.rejWritten ∧ s'.cwd = s.cwd ∧ s'.faultAt = none ∧
      ∀ op ∈ s'.trace.drop s.trace.length, ∀ q, op ≠ FsOp.creat q := by
  unfold writeRejects
  rw [run_bind, openRejects_run, if_pos hin, Fs.stat_of_file hl, if_pos (by rfl)]
  simp only []
  obtain ⟨s', h1, h2, h3, h4, h5⟩ := opWrite_file rej b s old m hf hl
  refine ⟨s', h1, h2, h5, h3, h4, ?_⟩
  rw [run_opWrite] at h1
  split at h1
  · cases h1; simp
  · rcases doOp_cases h1 with ⟨_, fs', _, rfl⟩ | ⟨h, _⟩
    · intro op hop q
      have : op = FsOp.write (absPath s rej) b := by simpa using hop
      rw [this]; exact fun h => by cases h
    · cases h

/-- **nothing written earlier in the run is lost**: two writes of rejects to the same file in a row (no fault), the first one being the
    first of the run: the file holds `b1 ++ b2`, with the mode the first write gave it (`firstMode`: `m`, that of the `creat`, unless a
    derived name was made anew) -/
theorem writeRejects_twice (o : Options) (rej b1 b2 : Bytes) (s : DState) (m : Nat) (hf : s.faultAt = none)
    (hnot : s.rejWritten.contains rej = false)
    (hcreat : s.fs.apply (.creat (absPath s rej)) = .ok (s.fs.set (absPath s rej) (.file [] m))) :
    ∃ s', (do writeRejects o rej b1; writeRejects o rej b2 : DM Unit).run s = (.ok (), s') ∧
      s'.fs.lookup (absPath s rej) = some (.file (b1 ++ b2) (firstMode o s rej m)) := by
  obtain ⟨s1, h1, l1, r1, c1, f1⟩ := writeRejects_first o rej b1 s m hf hnot hcreat
  rw [← absPath_cwd c1] at l1
  obtain ⟨s2, h2, l2, -⟩ := writeRejects_again o rej b2 s1 b1 _ f1 r1 l1
  rw [absPath_cwd c1] at l2
  refine ⟨s2, ?_, l2⟩
  rw [run_bind, h1]
  exact h2

/-- the same, spelled out for a reject file that was there before the run with other content: that content is replaced by the first
    write and only by the first (a file named with `-r` is truncated and keeps its mode; a derived name is made anew) -/
theorem writeRejects_twice_existing (o : Options) (rej b1 b2 old : Bytes) (s : DState) (m : Nat) (hf : s.faultAt = none)
    (hnot : s.rejWritten.contains rej = false)
    (hfile : s.fs.lookup (absPath s rej) = some (.file old m))
    (hdir : s.fs.dirExists (parentOf (absPath s rej)) = true) (hw : s.fs.isRoot = true ∨ m / 128 % 2 = 1) :
    ∃ s', (do writeRejects o rej b1; writeRejects o rej b2 : DM Unit).run s = (.ok (), s') ∧
      s'.fs.lookup (absPath s rej) =
        some (.file (b1 ++ b2) (if o.rejectFile.isEmpty = true then 0o666 - (0o666 &&& s.fs.umask) else m)) := by
  have h := writeRejects_twice o rej b1 b2 s m hf hnot (creat_existing _ _ old m hfile hdir hw)
  unfold firstMode at h
  rw [inWayAt_of_file hfile, Bool.and_true] at h
  exact h

/-- and for a reject file that was not there -/
theorem writeRejects_twice_fresh (o : Options) (rej b1 b2 : Bytes) (s : DState) (hf : s.faultAt = none)
    (hnot : s.rejWritten.contains rej = false)
    (hnone : s.fs.lookup (absPath s rej) = none)
    (hdir : s.fs.dirExists (parentOf (absPath s rej)) = true) :
    ∃ s', (do writeRejects o rej b1; writeRejects o rej b2 : DM Unit).run s = (.ok (), s') ∧
      s'.fs.lookup (absPath s rej) = some (.file (b1 ++ b2) (0o666 - (0o666 &&& s.fs.umask))) := by
  have h := writeRejects_twice o rej b1 b2 s _ hf hnot (creat_fresh _ _ hnone hdir)
  rw [firstMode_free o (inWayAt_of_none hnone)] at h
  exact h

/-! ### a reject file with a derived name is neither written through a symbolic link nor into a file which may have other names
    (D95, D101: `make_way_for`); a file named with `-r` is written as it is -/

/-- **the first rejects of a run for a derived name (no `-r`) which is that of a symbolic link or of a regular file replace it**: the
    name is unlinked and a new (empty, regular) file is created in its place — the trace is exactly `[unlink rej, creat rej]` —; every
    other name, in particular whatever a link pointed to, keeps its node; the run remembers the name -/
theorem openRejects_replaces (o : Options) (rej : Bytes) (n : Node) (s : DState) (hf : s.faultAt = none)
    (ho : o.rejectFile = [])
    (hnot : s.rejWritten.contains rej = false)
    (hl : s.fs.lookup (absPath s rej) = some n) (hn : (∃ t, n = .symlink t) ∨ ∃ old m, n = .file old m)
    (hdir : s.fs.dirExists (parentOf (absPath s rej)) = true) :
    ∃ s', (openRejects o rej).run s = (.ok (), s') ∧
      s'.trace = s.trace ++ [.unlink (absPath s rej), .creat (absPath s rej)] ∧
      s'.fs.lookup (absPath s rej) = some (.file [] (0o666 - (0o666 &&& s.fs.umask))) ∧
      (∀ q, q ≠ absPath s rej → s'.fs.lookup q = s.fs.lookup q) ∧
      s'.rejWritten = s.rejWritten ++ [rej] ∧ s'.cwd = s.cwd ∧ s'.faultAt = none := by
  have hnd : ∀ m, n ≠ .dir m := by
    rcases hn with ⟨t, rfl⟩ | ⟨old, m, rfl⟩ <;> exact fun _ h => by cases h
  have hway : inWayAt s rej = true := by
    rcases hn with ⟨t, rfl⟩ | ⟨old, m, rfl⟩
    · exact inWayAt_of_link hl
    · exact inWayAt_of_file hl
  have hunl : s.fs.apply (.unlink (absPath s rej)) = .ok (s.fs.erase (absPath s rej)) := by
    rcases hn with ⟨t, rfl⟩ | ⟨old, m, rfl⟩ <;> simp only [Fs.apply, hl]
  have hcr := creat_after_unlink' s.fs (absPath s rej) n hl hnd hdir
  rw [openRejects_run, if_neg (by rw [hnot]; simp), if_pos (by rw [ho, hway]; rfl),
    doOp_run_ok (s := { s with rejWritten := s.rejWritten ++ [rej] }) hf hunl]
  simp only []
  rw [doOp_run_ok (s := { s with rejWritten := s.rejWritten ++ [rej], fs := s.fs.erase (absPath s rej), trace := s.trace ++ [.unlink (absPath s rej)], opCount := s.opCount + 1 }) hf hcr]
  refine ⟨_, rfl, by simp, Fs.lookup_set_self _ _ _, fun q hq => ?_, rfl, rfl, hf⟩
  show ((s.fs.erase (absPath s rej)).set (absPath s rej) _).lookup q = _
  rw [Fs.lookup_set_ne _ _ _ _ hq, Fs.lookup_erase_ne _ _ _ hq]

/-- the symbolic link (D95) -/
theorem openRejects_replaces_link (o : Options) (rej t : Bytes) (s : DState) (hf : s.faultAt = none)
    (ho : o.rejectFile = [])
    (hnot : s.rejWritten.contains rej = false)
    (hl : s.fs.lookup (absPath s rej) = some (.symlink t))
    (hdir : s.fs.dirExists (parentOf (absPath s rej)) = true) :
    ∃ s', (openRejects o rej).run s = (.ok (), s') ∧
      s'.trace = s.trace ++ [.unlink (absPath s rej), .creat (absPath s rej)] ∧
      s'.fs.lookup (absPath s rej) = some (.file [] (0o666 - (0o666 &&& s.fs.umask))) ∧
      (∀ q, q ≠ absPath s rej → s'.fs.lookup q = s.fs.lookup q) ∧
      s'.rejWritten = s.rejWritten ++ [rej] ∧ s'.cwd = s.cwd ∧ s'.faultAt = none :=
  openRejects_replaces o rej _ s hf ho hnot hl (.inl ⟨t, rfl⟩) hdir

/-- the regular file (D101): it is not truncated in place — under another name (a hard link) it keeps what it held — and nobody needs
    to be allowed to write to it -/
theorem openRejects_replaces_file (o : Options) (rej old : Bytes) (m : Nat) (s : DState) (hf : s.faultAt = none)
    (ho : o.rejectFile = [])
    (hnot : s.rejWritten.contains rej = false)
    (hl : s.fs.lookup (absPath s rej) = some (.file old m))
    (hdir : s.fs.dirExists (parentOf (absPath s rej)) = true) :
    ∃ s', (openRejects o rej).run s = (.ok (), s') ∧
      s'.trace = s.trace ++ [.unlink (absPath s rej), .creat (absPath s rej)] ∧
      s'.fs.lookup (absPath s rej) = some (.file [] (0o666 - (0o666 &&& s.fs.umask))) ∧
      (∀ q, q ≠ absPath s rej → s'.fs.lookup q = s.fs.lookup q) ∧
      s'.rejWritten = s.rejWritten ++ [rej] ∧ s'.cwd = s.cwd ∧ s'.faultAt = none :=
  openRejects_replaces o rej _ s hf ho hnot hl (.inr ⟨old, m, rfl⟩) hdir

/-- **a reject file named with `-r` is whatever it is**: nothing is unlinked, whatever has the name (a symbolic link such as
    `/dev/stderr`, a regular file, nothing); the trace is exactly `[creat rej]`, the tree is what that `creat` makes of it -/
theorem openRejects_named_keeps_link (o : Options) (rej : Bytes) (s : DState) (fs' : Fs) (hf : s.faultAt = none)
    (ho : o.rejectFile ≠ [])
    (hnot : s.rejWritten.contains rej = false)
    (hcreat : s.fs.apply (.creat (absPath s rej)) = .ok fs') :
    ∃ s', (openRejects o rej).run s = (.ok (), s') ∧
      s'.trace = s.trace ++ [.creat (absPath s rej)] ∧ s'.fs = fs' ∧
      s'.rejWritten = s.rejWritten ++ [rej] ∧ s'.cwd = s.cwd ∧ s'.faultAt = none := by
  have hne : o.rejectFile.isEmpty = false := by simpa using ho
  rw [openRejects_run, if_neg (by rw [hnot]; simp), if_neg (by rw [hne]; simp),
    doOp_run_ok (s := { s with rejWritten := s.rejWritten ++ [rej] }) hf hcreat]
  exact ⟨_, rfl, rfl, rfl, rfl, rfl, hf⟩

/-- the same for the write of the rejects: the new file holds exactly the rejects, every other name is as it was -/
theorem writeRejects_replaces (o : Options) (rej : Bytes) (n : Node) (b : Bytes) (s : DState) (hf : s.faultAt = none)
    (ho : o.rejectFile = [])
    (hnot : s.rejWritten.contains rej = false)
    (hl : s.fs.lookup (absPath s rej) = some n) (hn : (∃ t, n = .symlink t) ∨ ∃ old m, n = .file old m)
    (hdir : s.fs.dirExists (parentOf (absPath s rej)) = true) :
    ∃ s', (writeRejects o rej b).run s = (.ok (), s') ∧
      s'.fs.lookup (absPath s rej) = some (.file b (0o666 - (0o666 &&& s.fs.umask))) ∧
      (∀ q, q ≠ absPath s rej → s'.fs.lookup q = s.fs.lookup q) ∧
      (∀ op ∈ s'.trace.drop s.trace.length, op.paths = [absPath s rej]) := by
  obtain ⟨s1, h1, t1, l1, k1, -, c1, f1⟩ := openRejects_replaces o rej n s hf ho hnot hl hn hdir
  unfold writeRejects
  rw [run_bind, h1]
  simp only []
  rw [← absPath_cwd c1] at l1
  have hw := run_opWrite rej b s1
  cases hb : b.isEmpty
  · have happ : s1.fs.apply (.write (absPath s1 rej) b) = .ok (s1.fs.set (absPath s1 rej) (.file ([] ++ b) (0o666 - (0o666 &&& s.fs.umask)))) := by
      simp only [Fs.apply, l1]
    rw [hb, if_neg (by simp), doOp_run_ok f1 happ] at hw
    refine ⟨_, hw, ?_, fun q hq => ?_, ?_⟩
    · rw [← absPath_cwd c1]; exact Fs.lookup_set_self _ _ _
    · show (s1.fs.set (absPath s1 rej) _).lookup q = _
      rw [Fs.lookup_set_ne _ _ _ _ (by rw [absPath_cwd c1]; exact hq), k1 q hq]
    · show ∀ op ∈ (s1.trace ++ [FsOp.write (absPath s1 rej) b]).drop s.trace.length, _
      rw [t1, absPath_cwd c1]
      simp [FsOp.paths]
  · have : b = [] := by simpa using hb
    subst this
    rw [hb, if_pos rfl] at hw
    refine ⟨s1, hw, by rw [← absPath_cwd c1]; exact l1, k1, ?_⟩
    rw [t1]
    simp [FsOp.paths]

/-- the symbolic link: the file the link pointed to is as it was -/
theorem writeRejects_replaces_link (o : Options) (rej t b : Bytes) (s : DState) (hf : s.faultAt = none)
    (ho : o.rejectFile = [])
    (hnot : s.rejWritten.contains rej = false)
    (hl : s.fs.lookup (absPath s rej) = some (.symlink t))
    (hdir : s.fs.dirExists (parentOf (absPath s rej)) = true) :
    ∃ s', (writeRejects o rej b).run s = (.ok (), s') ∧
      s'.fs.lookup (absPath s rej) = some (.file b (0o666 - (0o666 &&& s.fs.umask))) ∧
      (∀ q, q ≠ absPath s rej → s'.fs.lookup q = s.fs.lookup q) ∧
      (∀ op ∈ s'.trace.drop s.trace.length, op.paths = [absPath s rej]) :=
  writeRejects_replaces o rej _ b s hf ho hnot hl (.inl ⟨t, rfl⟩) hdir

/-- the regular file -/
theorem writeRejects_replaces_file (o : Options) (rej old : Bytes) (m : Nat) (b : Bytes) (s : DState) (hf : s.faultAt = none)
    (ho : o.rejectFile = [])
    (hnot : s.rejWritten.contains rej = false)
    (hl : s.fs.lookup (absPath s rej) = some (.file old m))
    (hdir : s.fs.dirExists (parentOf (absPath s rej)) = true) :
    ∃ s', (writeRejects o rej b).run s = (.ok (), s') ∧
      s'.fs.lookup (absPath s rej) = some (.file b (0o666 - (0o666 &&& s.fs.umask))) ∧
      (∀ q, q ≠ absPath s rej → s'.fs.lookup q = s.fs.lookup q) ∧
      (∀ op ∈ s'.trace.drop s.trace.length, op.paths = [absPath s rej]) :=
  writeRejects_replaces o rej _ b s hf ho hnot hl (.inr ⟨old, m, rfl⟩) hdir

/-! a concrete instance (compiled evaluation of the executable model: a test, not a proof): `f.rej` is a link to `victim` -/
section example_link
def sLink : DState :=
  { fs := { nodes := [(str "f.rej", .symlink (str "victim")), (str "victim", .file (str "keep\n") 0o600)] } }
/-- no `-r` -/
def oDerived : Options := default
/-- `-r f.rej` -/
def oNamed : Options := { (default : Options) with rejectFile := str "f.rej" }
#guard ((writeRejects oDerived (str "f.rej") (str "R\n")).run sLink).2.trace ==
  [.unlink (str "f.rej"), .creat (str "f.rej"), .write (str "f.rej") (str "R\n")]
#guard ((writeRejects oDerived (str "f.rej") (str "R\n")).run sLink).2.fs.lookup (str "victim") == some (.file (str "keep\n") 0o600)
#guard ((writeRejects oDerived (str "f.rej") (str "R\n")).run sLink).2.fs.lookup (str "f.rej") == some (.file (str "R\n") 0o644)
-- later rejects of the same run are added to the new file: no second `unlink`, no second `creat`
#guard ((do writeRejects oDerived (str "f.rej") (str "R\n"); writeRejects oDerived (str "f.rej") (str "S\n") : DM Unit).run sLink).2.fs.lookup (str "f.rej")
  == some (.file (str "R\nS\n") 0o644)
-- a regular file of the derived name is replaced as well (D101): unlinked, not truncated in place; it need not be writable
def sFile : DState := { fs := { nodes := [(str "f.rej", .file (str "old\n") 0o400)] } }
#guard ((writeRejects oDerived (str "f.rej") (str "R\n")).run sFile).2.trace ==
  [.unlink (str "f.rej"), .creat (str "f.rej"), .write (str "f.rej") (str "R\n")]
#guard ((writeRejects oDerived (str "f.rej") (str "R\n")).run sFile).2.fs.lookup (str "f.rej") == some (.file (str "R\n") 0o644)
-- `-r f.rej`: written through the link
#guard ((writeRejects oNamed (str "f.rej") (str "R\n")).run sLink).2.trace ==
  [.creat (str "f.rej"), .write (str "f.rej") (str "R\n")]
#guard ((writeRejects oNamed (str "f.rej") (str "R\n")).run sLink).2.fs.lookup (str "victim") == some (.file (str "R\n") 0o600)
end example_link

end PatchModel.C04x

#print axioms PatchModel.C04x.exit_range
#print axioms PatchModel.C04x.exit_truth
#print axioms PatchModel.C04x.writeRejects_first
#print axioms PatchModel.C04x.writeRejects_again
#print axioms PatchModel.C04x.writeRejects_twice
#print axioms PatchModel.C04x.writeRejects_twice_existing
#print axioms PatchModel.C04x.writeRejects_twice_fresh
#print axioms PatchModel.C04x.openRejects_replaces
#print axioms PatchModel.C04x.openRejects_replaces_link
#print axioms PatchModel.C04x.openRejects_replaces_file
#print axioms PatchModel.C04x.openRejects_named_keeps_link
#print axioms PatchModel.C04x.writeRejects_replaces
#print axioms PatchModel.C04x.writeRejects_replaces_link
#print axioms PatchModel.C04x.writeRejects_replaces_file
