/-
  C18 / C04 (exit status) / C09 (driver model).
-/
import PatchModel.Model.Driver
import PatchModel.Lemmas.DriverFacts
namespace PatchModel.C04x
open PatchModel PatchModel.DriverFacts

/-- the events that make a run "not clean" -/
def badEvent : DEv → Bool
  | .failed _ _ _ _ => true
  | .skipping => true
  | .refusing => true
  | .notDeleting => true
  | .binary => true
  | _ => false

theorem badEvent_eq : badEvent = isBadEv := by
  funext ev; cases ev <;> rfl

theorem runPatch_eq (o : Options) (s0 : DState) (hh : o.showHelp = false ∧ o.showVersion = false) :
    runPatch o s0 = match (processPatchM o).run s0 with
      | (.ok (), s) => (if s.hadFailure then 1 else 0, s)
      | (.error _, s) => (2, s) := by
  unfold runPatch; rw [hh.1, hh.2]; rfl

/-- the exit status is 0, 1 or 2 -/
theorem exit_range (o : Options) (s0 : DState) : (runPatch o s0).1 = 0 ∨ (runPatch o s0).1 = 1 ∨ (runPatch o s0).1 = 2 := by
  unfold runPatch
  split
  · exact Or.inl rfl
  · split
    · split
      · exact Or.inr (Or.inl rfl)
      · exact Or.inl rfl
    · exact Or.inr (Or.inr rfl)

/-- **exit status tells the truth**: 2 exactly when an exception reached `main`; otherwise 1 exactly when some hunk was rejected or
    ignored, a patch was skipped, refused, is a binary diff, or a file could not be deleted; 0 otherwise -/
theorem exit_truth (o : Options) (s0 : DState) (h0 : s0.hadFailure = false ∧ s0.out = [])
    (hh : o.showHelp = false ∧ o.showVersion = false) :
    ((runPatch o s0).1 = 2 ↔ ∃ e s, (processPatchM o).run s0 = (.error e, s)) ∧
    ((runPatch o s0).1 = 1 ↔ (∃ s, (processPatchM o).run s0 = (.ok (), s)) ∧ ∃ ev ∈ (runPatch o s0).2.out, badEvent ev = true) ∧
    ((runPatch o s0).1 = 0 ↔ (∃ s, (processPatchM o).run s0 = (.ok (), s)) ∧ ∀ ev ∈ (runPatch o s0).2.out, badEvent ev = false) := by
  have hH0 : Honest s0 := by
    unfold Honest HF HB; rw [h0.1, h0.2]; simp
  rw [runPatch_eq o s0 hh, badEvent_eq]
  rcases hrun : (processPatchM o).run s0 with ⟨r, s⟩
  cases r with
  | error e =>
    refine ⟨⟨fun _ => ⟨e, s, rfl⟩, fun _ => rfl⟩, ⟨fun h => ?_, fun h => ?_⟩, ⟨fun h => ?_, fun h => ?_⟩⟩
    · cases h
    · obtain ⟨⟨s', hs'⟩, _⟩ := h; cases hs'
    · cases h
    · obtain ⟨⟨s', hs'⟩, _⟩ := h; cases hs'
  | ok u =>
    have hH : Honest s := runPatch_honest o s0 s hH0 hrun
    unfold Honest HF HB at hH
    show ((if s.hadFailure = true then 1 else 0) = 2 ↔ _) ∧ ((if s.hadFailure = true then 1 else 0) = 1 ↔ _ ∧ ∃ ev ∈ s.out, _) ∧
      ((if s.hadFailure = true then 1 else 0) = 0 ↔ _ ∧ ∀ ev ∈ s.out, _)
    cases hf : s.hadFailure
    · have hnb : ¬ ∃ ev ∈ s.out, isBadEv ev = true := fun h => by
        have := hH.2 h; rw [hf] at this; cases this
      refine ⟨⟨fun h => by simp at h, fun ⟨e, s', h⟩ => by cases h⟩, ⟨fun h => by simp at h, fun h => absurd h.2 hnb⟩,
        ⟨fun _ => ⟨⟨s, rfl⟩, ?_⟩, fun _ => by simp⟩⟩
      intro ev hev
      cases hb : isBadEv ev
      · rfl
      · exact absurd ⟨ev, hev, hb⟩ hnb
    · have hb := hH.1 hf
      refine ⟨⟨fun h => by simp at h, fun ⟨e, s', h⟩ => by cases h⟩, ⟨fun _ => ⟨⟨s, rfl⟩, hb⟩, fun _ => by simp⟩,
        ⟨fun h => by simp at h, fun h => ?_⟩⟩
      obtain ⟨ev, hev, hbe⟩ := hb
      rw [h.2 ev hev] at hbe; cases hbe

/-! ### reject files: what is written earlier in a run is not lost (`RejectFiles`, `openRejects` / `writeRejects`)

    Two sections for one file, or `-r FILE` with several targets, write their rejects to the same file.  The first opening of a
    reject file in a run replaces what was there before the run (`creat`: O_TRUNC); every later one adds to it (`fopen(…, "a")`). -/

/-- `creat` of a path that is not in the tree (its directory is) makes an empty regular file -/
theorem creat_fresh (fs : Fs) (q : Bytes) (hnone : fs.lookup q = none) (hdir : fs.dirExists (parentOf q) = true) :
    fs.apply (.creat q) = .ok (fs.set q (.file [] (0o666 - (0o666 &&& fs.umask)))) := by
  have hst : fs.stat q = none := by unfold Fs.stat; rw [hnone]
  simp only [Fs.apply, hst, hdir]; rfl

/-- `creat` of a regular file one may write to truncates it and keeps its mode -/
theorem creat_existing (fs : Fs) (q old : Bytes) (m : Nat) (hfile : fs.lookup q = some (.file old m))
    (hdir : fs.dirExists (parentOf q) = true) (hw : fs.isRoot = true ∨ m / 128 % 2 = 1) :
    fs.apply (.creat q) = .ok (fs.set q (.file [] m)) := by
  have hc : (fs.isRoot || m / 128 % 2 == 1) = true := by
    rcases hw with h | h <;> simp [h]
  simp only [Fs.apply, Fs.stat_of_file hfile, hfile, hdir, hc]; rfl

/-- writing to a regular file that is there adds to it -/
theorem opWrite_file (p b : Bytes) (s : DState) (old : Bytes) (m : Nat) (hf : s.faultAt = none)
    (hl : s.fs.lookup (absPath s p) = some (.file old m)) :
    ∃ s', (opWrite p b).run s = (.ok (), s') ∧ s'.fs.lookup (absPath s p) = some (.file (old ++ b) m) ∧
      s'.cwd = s.cwd ∧ s'.faultAt = none ∧ s'.rejWritten = s.rejWritten := by
  rw [run_opWrite]
  cases hb : b.isEmpty
  · have happ : s.fs.apply (.write (absPath s p) b) = .ok (s.fs.set (absPath s p) (.file (old ++ b) m)) := by
      simp only [Fs.apply, hl]
    rw [if_neg (by simp), doOp_run_ok hf happ]
    exact ⟨_, rfl, Fs.lookup_set_self _ _ _, rfl, hf, rfl⟩
  · have : b = [] := by simpa using hb
    subst this
    rw [if_pos rfl]
    exact ⟨s, rfl, by rw [List.append_nil]; exact hl, rfl, hf, rfl⟩

/-- **the first rejects written to a file in a run replace what was there before the run**: `rej` has not been written in this run;
    the `creat` works and yields an empty regular file with mode `m` at that path (`creat_fresh`: the file was not there;
    `creat_existing`: it was, with any content — which is gone).  Afterwards the file holds exactly `b`, and the run remembers it. -/
theorem writeRejects_first (rej b : Bytes) (s : DState) (m : Nat) (hf : s.faultAt = none)
    (hnot : s.rejWritten.contains rej = false)
    (hcreat : s.fs.apply (.creat (absPath s rej)) = .ok (s.fs.set (absPath s rej) (.file [] m))) :
    ∃ s', (writeRejects rej b).run s = (.ok (), s') ∧ s'.fs.lookup (absPath s rej) = some (.file b m) ∧
      s'.rejWritten.contains rej = true ∧ s'.cwd = s.cwd ∧ s'.faultAt = none := by
  unfold writeRejects
  rw [run_bind, openRejects_run, if_neg (by rw [hnot]; simp),
    doOp_run_ok (s := { s with rejWritten := s.rejWritten ++ [rej] }) hf hcreat]
  simp only []
  obtain ⟨s', h1, h2, h3, h4, h5⟩ := opWrite_file rej b
    { s with rejWritten := s.rejWritten ++ [rej], fs := s.fs.set (absPath s rej) (.file [] m),
             trace := s.trace ++ [.creat (absPath s rej)], opCount := s.opCount + 1 } [] m hf (Fs.lookup_set_self _ _ _)
  refine ⟨s', h1, ?_, ?_, h3, h4⟩
  · rw [List.nil_append] at h2; exact h2
  · rw [h5]; simp

/-- **later rejects for the same file are added**: `rej` has been written in this run and is still there (a regular file): no `creat`
    (no truncation), the bytes go to the end -/
theorem writeRejects_again (rej b : Bytes) (s : DState) (old : Bytes) (m : Nat) (hf : s.faultAt = none)
    (hin : s.rejWritten.contains rej = true) (hl : s.fs.lookup (absPath s rej) = some (.file old m)) :
    ∃ s', (writeRejects rej b).run s = (.ok (), s') ∧ s'.fs.lookup (absPath s rej) = some (.file (old ++ b) m) ∧
      s'.rejWritten = s.rejWritten ∧ s'.cwd = s.cwd ∧ s'.faultAt = none ∧
      ∀ op ∈ s'.trace.drop s.trace.length, ∀ q, op ≠ FsOp.creat q := by
  unfold writeRejects
  rw [run_bind, openRejects_run, if_pos hin, Fs.stat_of_file hl, if_pos (by rfl)]
  simp only []
  obtain ⟨s', h1, h2, h3, h4, h5⟩ := opWrite_file rej b s old m hf hl
  refine ⟨s', h1, h2, h5, h3, h4, ?_⟩
  rw [run_opWrite] at h1
  split at h1
  · cases h1; simp
  · rcases doOp_cases h1 with ⟨_, fs', _, rfl⟩ | ⟨h, _⟩
    · intro op hop q
      have : op = FsOp.write (absPath s rej) b := by simpa using hop
      rw [this]; exact fun h => by cases h
    · cases h

/-- **nothing written earlier in the run is lost**: two writes of rejects to the same file in a row (no fault), the first one being the
    first of the run: the file holds `b1 ++ b2`, with the mode `m` the first `creat` gave it -/
theorem writeRejects_twice (rej b1 b2 : Bytes) (s : DState) (m : Nat) (hf : s.faultAt = none)
    (hnot : s.rejWritten.contains rej = false)
    (hcreat : s.fs.apply (.creat (absPath s rej)) = .ok (s.fs.set (absPath s rej) (.file [] m))) :
    ∃ s', (do writeRejects rej b1; writeRejects rej b2 : DM Unit).run s = (.ok (), s') ∧
      s'.fs.lookup (absPath s rej) = some (.file (b1 ++ b2) m) := by
  obtain ⟨s1, h1, l1, r1, c1, f1⟩ := writeRejects_first rej b1 s m hf hnot hcreat
  rw [← absPath_cwd c1] at l1
  obtain ⟨s2, h2, l2, -⟩ := writeRejects_again rej b2 s1 b1 m f1 r1 l1
  rw [absPath_cwd c1] at l2
  refine ⟨s2, ?_, l2⟩
  rw [run_bind, h1]
  exact h2

/-- the same, spelled out for a reject file that was there before the run with other content: that content is replaced by the first
    write and only by the first -/
theorem writeRejects_twice_existing (rej b1 b2 old : Bytes) (s : DState) (m : Nat) (hf : s.faultAt = none)
    (hnot : s.rejWritten.contains rej = false)
    (hfile : s.fs.lookup (absPath s rej) = some (.file old m))
    (hdir : s.fs.dirExists (parentOf (absPath s rej)) = true) (hw : s.fs.isRoot = true ∨ m / 128 % 2 = 1) :
    ∃ s', (do writeRejects rej b1; writeRejects rej b2 : DM Unit).run s = (.ok (), s') ∧
      s'.fs.lookup (absPath s rej) = some (.file (b1 ++ b2) m) :=
  writeRejects_twice rej b1 b2 s m hf hnot (creat_existing _ _ old m hfile hdir hw)

/-- and for a reject file that was not there -/
theorem writeRejects_twice_fresh (rej b1 b2 : Bytes) (s : DState) (hf : s.faultAt = none)
    (hnot : s.rejWritten.contains rej = false)
    (hnone : s.fs.lookup (absPath s rej) = none)
    (hdir : s.fs.dirExists (parentOf (absPath s rej)) = true) :
    ∃ s', (do writeRejects rej b1; writeRejects rej b2 : DM Unit).run s = (.ok (), s') ∧
      s'.fs.lookup (absPath s rej) = some (.file (b1 ++ b2) (0o666 - (0o666 &&& s.fs.umask))) :=
  writeRejects_twice rej b1 b2 s _ hf hnot (creat_fresh _ _ hnone hdir)

end PatchModel.C04x

#print axioms PatchModel.C04x.exit_range
#print axioms PatchModel.C04x.exit_truth
#print axioms PatchModel.C04x.writeRejects_first
#print axioms PatchModel.C04x.writeRejects_again
#print axioms PatchModel.C04x.writeRejects_twice
#print axioms PatchModel.C04x.writeRejects_twice_existing
#print axioms PatchModel.C04x.writeRejects_twice_fresh
