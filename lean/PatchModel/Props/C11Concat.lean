/-
  C11 — "a patch stream is the sum of its sections", as a theorem about the parser and about the whole program.

  A *section* here is a unified diff as diff tools write it: `--- old TAB oldt`, `+++ new TAB newt` and hunks in the text form
  of `write_hunk_as_unified` (names plain, hunks `Hunk.writable`, at least one hunk).  *Filler* is a block of lines none of
  which looks like diff syntax (`inertLine`, Spec/Inert.lean), each with its terminator.

  PARSER (`parseAll`, the section loop of the parser alone; `patchesOf` = the list of patches it returns, with the fuel
  `process_patch` uses):
    * `parseAll_two_sections` — `f0 ++ S1 ++ f1 ++ S2 ++ f2` gives exactly `[p1, p2]` where `S1` alone gives `[p1]` and `S2`
      alone gives `[p2]` (`p1`, `p2` explicit: names stripped by `-p`, time stamps, format, operation, hunks);
    * `parseAll_sections` — the same for n sections, each with its own filler in front, and a trailer;
      `parseAll_sections_sum` (every section alone gives its one patch), `parseAll_filler_irrelevant` (the stream without any
      filler gives the same patches), `parseAll_text_sections` (the same on the BYTES of the stream).
  PROGRAM (`runPatch`, no file operand: every target is found through the `---` line of its section):
    * `C11_run_two` — two sections for two distinct flat names: exit status 0, both targets hold their new contents, every
      other path is unchanged;
    * `C11_run_two_sequential` — literally C11: the final tree equals (at every path but the patch file itself) the tree
      obtained by running on `S1` alone and then on `S2` alone;
    * `C11_run_sections` — n sections for pairwise distinct targets.

  How it goes (Lemmas/Concat.lean): after the last hunk of a section the body parser reads one more line, sees that it is no
  range line, and puts it back — the stream is left exactly at what follows, both flags clear (`Concat.unified_roundtrip_tail`:
  `Unified.unified_roundtrip` re-proved with the flags; `tailOkUnified` accepts a `--- ` line, the usual first line of the next
  section, and any inert line that does not begin with a backslash).  The next header scan then starts as if fresh
  (`Header.parseHeader_unified'` with the next filler).  In the driver the second section runs in the state the first one left
  (`firstPatch = false`, log and trace non-empty, first target changed): `Run.processSection_guess` is stated for any state, and
  the frame part of its conclusion (`fs = old.set name …`) keeps the later targets where they were (`Concat.sectionLoop_jobs`).
  After the last section: end of input (flag set by the body parser's look-ahead) or only filler ("trailing garbage", silently
  ignored after a first patch).

  Side conditions, and why:
    * `NoMarkerHead f` for every filler that FOLLOWS a section (not for the one before the first section) — REQUIRED: a line
      `\ …` directly after the last line of a side of a hunk is the "\ No newline at end of file" marker of that line;
      `inertLine` does not exclude it.  Counterexample below (`Marker`): the same two diffs with the line `\ foo` between them —
      the first patch comes back with its last line marked "no newline", and the run writes `f` without its final newline.
    * filler lines have a terminator — the stream flags of the model are set by an unterminated line; lines that come from
      `splitLines` have one except possibly the very last line of the text (an unterminated LAST trailer line is outside these
      theorems; `#guard` below: the model handles it).
    * `inertLine` is conservative: it also excludes lines that begin with a digit (`2.39.0`, the last line of a `git
      format-patch` mail) although the scan ignores those too — `#guard`s below run the model on such a stream.
    * program level: `changeStart` (scope of the clean path, as in `C01_run`), names without slash, pairwise distinct targets,
      root, no `--dry-run`, `GuessOpts` (no operand, no -o, no -b, no -R, no -D, quiet).
-/
import PatchModel.Lemmas.Concat
import PatchModel.Props.C11
import PatchModel.Props.C13U
namespace PatchModel.C11
open PatchModel PatchModel.Concat PatchModel.C01 PatchModel.Run PatchModel.Unified PatchModel.DriverFacts

/-! ## parser level -/

/-- the patches the parser's section loop reads from a stream of lines, with the fuel `process_patch` gives its loop
    (`none`: an exception, or the loop did not end) -/
def patchesOf (fmt : Format) (strip : Int) (lines : List Line) : Option (List Patch) :=
  match parseAll fmt strip (lines.length + 2) { s := { rest := lines } } [] with
  | .ok (ps, _, false) => some ps
  | _ => none

/-- **n sections, parser level.**  The section loop of the parser on `filler₁ ++ S₁ ++ … ++ fillerₙ ++ Sₙ ++ trailer` returns
    exactly the patches of `S₁ … Sₙ`, in order (no error, loop ended). -/
theorem parseAll_sections (fmt : Format) (hfmt : fmt = .unknown ∨ fmt = .unified) (strip : Int)
    (secs : List Sec) (trailer : List Line)
    (hok : ∀ s ∈ secs, s.Ok) (hm : ∀ s ∈ secs.drop 1, NoMarkerHead s.filler)
    (ht : FillerOk trailer) (hmt : secs ≠ [] → NoMarkerHead trailer) :
    patchesOf fmt strip (streamLines secs trailer) = some (secs.map (·.patch strip)) := by
  obtain ⟨par', h⟩ := Concat.parseAll_sections fmt hfmt strip secs trailer
    { s := { rest := streamLines secs trailer } } [] ((streamLines secs trailer).length + 2) hok hm ht hmt rfl
    (by have := length_le_streamLines secs trailer; omega)
  simp [patchesOf, h]

/-- one section alone -/
theorem parseAll_one_section (fmt : Format) (hfmt : fmt = .unknown ∨ fmt = .unified) (strip : Int) (s : Sec) (hok : s.Ok) :
    patchesOf fmt strip s.lines = some [s.patch strip] := by
  have h := parseAll_sections fmt hfmt strip [s] [] (by simpa using hok) (by simp) ⟨by simp, by simp⟩
    (fun _ l hl => by cases hl)
  simpa [streamLines] using h

/-- **the stream is the sum of its sections**: what the whole stream gives is the concatenation of what each section gives
    alone -/
theorem parseAll_sections_sum (fmt : Format) (hfmt : fmt = .unknown ∨ fmt = .unified) (strip : Int)
    (secs : List Sec) (trailer : List Line)
    (hok : ∀ s ∈ secs, s.Ok) (hm : ∀ s ∈ secs.drop 1, NoMarkerHead s.filler)
    (ht : FillerOk trailer) (hmt : secs ≠ [] → NoMarkerHead trailer) :
    ∃ ps : List Patch, patchesOf fmt strip (streamLines secs trailer) = some ps ∧ ps.length = secs.length ∧
      ∀ i (hi : i < secs.length) (hp : i < ps.length), patchesOf fmt strip secs[i].lines = some [ps[i]] := by
  refine ⟨_, parseAll_sections fmt hfmt strip secs trailer hok hm ht hmt, by simp, ?_⟩
  intro i hi hp
  rw [parseAll_one_section fmt hfmt strip secs[i] (hok _ (List.getElem_mem hi))]
  simp

/-- a section without its filler -/
def Sec.bare (s : Sec) : Sec := { s with filler := [] }

/-- **inert text before, between and after the sections changes nothing**: the stream without any filler gives the same
    patches -/
theorem parseAll_filler_irrelevant (fmt : Format) (hfmt : fmt = .unknown ∨ fmt = .unified) (strip : Int)
    (secs : List Sec) (trailer : List Line)
    (hok : ∀ s ∈ secs, s.Ok) (hm : ∀ s ∈ secs.drop 1, NoMarkerHead s.filler)
    (ht : FillerOk trailer) (hmt : secs ≠ [] → NoMarkerHead trailer) :
    patchesOf fmt strip (streamLines secs trailer) = patchesOf fmt strip (streamLines (secs.map Sec.bare) []) := by
  rw [parseAll_sections fmt hfmt strip secs trailer hok hm ht hmt,
    parseAll_sections fmt hfmt strip (secs.map Sec.bare) []
      (by
        intro s hs
        obtain ⟨t, ht', rfl⟩ := List.mem_map.1 hs
        have h := hok t ht'
        exact ⟨by simp [Sec.bare], by simp [Sec.bare], h.oldName, h.newName, h.oldStamp, h.newStamp, h.nonEmpty, h.writable⟩)
      (by
        intro s hs
        obtain ⟨t, _, rfl⟩ := List.mem_map.1 (List.mem_of_mem_drop hs)
        intro l hl; cases hl)
      ⟨by simp, by simp⟩ (fun _ l hl => by cases hl)]
  simp [Sec.bare, Sec.patch, Sec.header, Sec.op, Function.comp_def]

/-- the same on the BYTES of the stream (what `process_patch` splits into lines) -/
theorem parseAll_text_sections (fmt : Format) (hfmt : fmt = .unknown ∨ fmt = .unified) (strip : Int)
    (secs : List Sec) (trailer : List Line)
    (hok : ∀ s ∈ secs, s.Ok) (htext : ∀ s ∈ secs, s.TextOk) (hm : ∀ s ∈ secs.drop 1, NoMarkerHead s.filler)
    (ht : FillerOk trailer) (htp : ∀ l ∈ trailer, lfPlain l = true) (hmt : secs ≠ [] → NoMarkerHead trailer) :
    patchesOf fmt strip (splitLines (streamText secs trailer)) = some (secs.map (·.patch strip)) := by
  rw [splitLines_streamText secs trailer htext htp]
  exact parseAll_sections fmt hfmt strip secs trailer hok hm ht hmt

/-- the lines of a unified diff: the two header lines (`C11.unifiedHeader`) and the text of the hunks -/
def sectionLines (old new oldt newt : Bytes) (hs : List Hunk) : List Line :=
  unifiedHeader old new oldt newt ++ splitLines (hs.flatMap writeHunkUnified)

theorem sectionLines_eq (filler : List Line) (old new oldt newt : Bytes) (hs : List Hunk) (hw : ∀ h ∈ hs, h.writable = true) :
    filler ++ sectionLines old new oldt newt hs = (⟨filler, old, new, oldt, newt, hs⟩ : Sec).lines := by
  simp only [sectionLines, C13.unified_text_lines hs hw, unifiedHeader, Sec.lines, diffLines, List.cons_append, List.nil_append]

/-- the patch a unified diff denotes under `-p strip` -/
def sectionPatch (strip : Int) (old new oldt newt : Bytes) (hs : List Hunk) : Patch :=
  { format := .unified,
    operation := (match hs with | h :: _ => inferredOp h | [] => .change),
    oldPath := if old = devNull then old else stripPath old strip,
    newPath := if new = devNull then new else stripPath new strip,
    oldTime := oldt, newTime := newt, hunks := hs }

/-- **two sections, parser level.**  For two unified diffs `S1`, `S2` (names plain, time stamps present, hunks writable and
    non-empty) and inert fillers `f0 f1 f2` (the two that follow a section not starting with a backslash), the parser's section
    loop on `f0 ++ S1 ++ f1 ++ S2 ++ f2` returns exactly the patch it returns for `S1` alone followed by the patch it returns
    for `S2` alone — same names, time stamps, format, operation and hunks (spelled out: `sectionPatch`). -/
theorem parseAll_two_sections (fmt : Format) (hfmt : fmt = .unknown ∨ fmt = .unified) (strip : Int)
    (f0 f1 f2 : List Line) (old1 new1 oldt1 newt1 : Bytes) (hs1 : List Hunk) (old2 new2 oldt2 newt2 : Bytes) (hs2 : List Hunk)
    (hf0 : FillerOk f0) (hf1 : FillerOk f1) (hf2 : FillerOk f2) (hm1 : NoMarkerHead f1) (hm2 : NoMarkerHead f2)
    (ho1 : plainName old1) (hn1 : plainName new1) (hot1 : oldt1 ≠ []) (hnt1 : newt1 ≠ [])
    (hne1 : hs1 ≠ []) (hw1 : ∀ h ∈ hs1, h.writable = true)
    (ho2 : plainName old2) (hn2 : plainName new2) (hot2 : oldt2 ≠ []) (hnt2 : newt2 ≠ [])
    (hne2 : hs2 ≠ []) (hw2 : ∀ h ∈ hs2, h.writable = true) :
    patchesOf fmt strip (sectionLines old1 new1 oldt1 newt1 hs1) = some [sectionPatch strip old1 new1 oldt1 newt1 hs1] ∧
    patchesOf fmt strip (sectionLines old2 new2 oldt2 newt2 hs2) = some [sectionPatch strip old2 new2 oldt2 newt2 hs2] ∧
    patchesOf fmt strip
        (f0 ++ sectionLines old1 new1 oldt1 newt1 hs1 ++ f1 ++ sectionLines old2 new2 oldt2 newt2 hs2 ++ f2) =
      some [sectionPatch strip old1 new1 oldt1 newt1 hs1, sectionPatch strip old2 new2 oldt2 newt2 hs2] := by
  have ok1 : ∀ f, FillerOk f → (⟨f, old1, new1, oldt1, newt1, hs1⟩ : Sec).Ok := fun f hf =>
    ⟨hf.inert, hf.term, ho1, hn1, hot1, hnt1, hne1, hw1⟩
  have ok2 : ∀ f, FillerOk f → (⟨f, old2, new2, oldt2, newt2, hs2⟩ : Sec).Ok := fun f hf =>
    ⟨hf.inert, hf.term, ho2, hn2, hot2, hnt2, hne2, hw2⟩
  have hnil : FillerOk [] := ⟨by simp, by simp⟩
  refine ⟨?_, ?_, ?_⟩
  · have := parseAll_one_section fmt hfmt strip _ (ok1 [] hnil)
    rw [← sectionLines_eq [] old1 new1 oldt1 newt1 hs1 hw1] at this
    exact this
  · have := parseAll_one_section fmt hfmt strip _ (ok2 [] hnil)
    rw [← sectionLines_eq [] old2 new2 oldt2 newt2 hs2 hw2] at this
    exact this
  · have := parseAll_sections fmt hfmt strip [⟨f0, old1, new1, oldt1, newt1, hs1⟩, ⟨f1, old2, new2, oldt2, newt2, hs2⟩] f2
      (by
        intro s hs
        simp only [List.mem_cons, List.not_mem_nil, or_false] at hs
        rcases hs with rfl | rfl
        · exact ok1 f0 hf0
        · exact ok2 f1 hf1)
      (by
        intro s hs
        simp only [List.drop_succ_cons, List.drop_zero, List.mem_singleton] at hs
        subst hs
        exact hm1)
      hf2 (fun _ => hm2)
    have e : streamLines [⟨f0, old1, new1, oldt1, newt1, hs1⟩, ⟨f1, old2, new2, oldt2, newt2, hs2⟩] f2 =
        f0 ++ sectionLines old1 new1 oldt1 newt1 hs1 ++ f1 ++ sectionLines old2 new2 oldt2 newt2 hs2 ++ f2 := by
      simp only [streamLines, List.flatMap_cons, List.flatMap_nil, List.append_nil,
        ← sectionLines_eq f0 old1 new1 oldt1 newt1 hs1 hw1, ← sectionLines_eq f1 old2 new2 oldt2 newt2 hs2 hw2,
        List.append_assoc]
    rw [e] at this
    exact this

/-! ## the whole program -/

section
variable {o : Options} {s0 : DState} {pname : Bytes} {pm : Nat}

/-- **n sections, whole program.**  `patch [-pN] -i pname` on a patch file whose bytes are n unified diffs (each with filler in
    front) and a trailer, for pairwise distinct targets in the working directory, each found through the `---` line of its
    section and each diff a valid script of its target: exit status 0, every target holds its result (with its old mode), no
    other path of the tree differs. -/
theorem C11_run_sections (ho : GuessOpts o pname) (hreal : o.dryRun = false) (hs0 : CleanStart s0)
    (hpn : pname ≠ []) (hpd : pname ≠ [45]) (js : List Job) (trailer : List Line)
    (hpatch : s0.fs.lookup pname = some (.file (streamText (js.map (·.sec)) trailer) pm))
    (hne : js ≠ []) (hok : ∀ j ∈ js, j.Ok o) (htext : ∀ j ∈ js, j.sec.TextOk)
    (htg : ∀ j ∈ js, s0.fs.lookup j.name = some (.file j.bytes j.m)) (hpw : js.Pairwise (fun a b => a.name ≠ b.name))
    (hm : ∀ j ∈ js.drop 1, NoMarkerHead j.sec.filler)
    (hti : ∀ l ∈ trailer, inertLine l.content = true) (htp : ∀ l ∈ trailer, lfPlain l = true) (hmt : NoMarkerHead trailer) :
    (runPatch o s0).1 = 0 ∧
    (∀ j ∈ js, (runPatch o s0).2.fs.lookup j.name =
      some (.file (Render.renderText o.newlineOutput (splice (splitLines j.bytes) 0 j.sec.hs)) j.m)) ∧
    (∀ q, (∀ j ∈ js, q ≠ j.name) → (runPatch o s0).2.fs.lookup q = s0.fs.lookup q) := by
  obtain ⟨h1, h2⟩ := runPatch_jobs ho hreal hs0 hpn hpd js trailer pm hpatch hne hok htext htg hpw hm
    ⟨hti, fun l hl => lfPlain_term (htp l hl)⟩ htp hmt
  refine ⟨h1, ?_, ?_⟩
  · intro j hj
    rw [h2, lookup_applyJobs_of_mem o js _ j hj hpw]; rfl
  · intro q hq
    rw [h2, lookup_applyJobs_of_not_mem o js _ q hq]

/-- a unified diff (`C01.UnifiedDiff`) for the flat name its `---` line yields, a valid script of the target: a `Job` -/
theorem job_ok {filler : List Line} {old new oldt newt : Bytes} {hs : List Hunk} {name bytes : Bytes} {m : Nat}
    (hd : UnifiedDiff filler old new oldt newt hs) (hn : flatName name) (hold : old ≠ devNull)
    (hstrip : stripPath old o.strip = name) (hw : m &&& writeMask ≠ 0) (hvalid : Valid (splitLines bytes) 0 0 hs) :
    (⟨⟨filler, old, new, oldt, newt, hs⟩, name, bytes, m⟩ : Job).Ok o ∧
    (⟨filler, old, new, oldt, newt, hs⟩ : Sec).TextOk :=
  ⟨{ sec := ⟨hd.fillerInert, fun l hl => lfPlain_term (hd.fillerPlain l hl), hd.oldName.1, hd.newName.1, hd.oldStamp.1,
            hd.newStamp.1, hd.nonEmpty, hd.writable⟩,
     change := hd.change,
     named := by simp only [Header.stripped]; rw [if_neg hold, hstrip],
     nameNe := hn.1, flat := hn.2.1, writable := hw, valid := hvalid },
   ⟨hd.fillerPlain, hd.oldName.2, hd.newName.2, hd.oldStamp, hd.newStamp, hd.writable⟩⟩

variable {f0 f1 f2 : List Line} {old1 new1 oldt1 newt1 old2 new2 oldt2 newt2 : Bytes} {hs1 hs2 : List Hunk}
  {name1 name2 bytes1 bytes2 : Bytes} {m1 m2 : Nat}

/-- **two sections, whole program.**  `patch [-pN] -i pname` (no file operand) where `pname` holds
    `f0 ++ S1 ++ f1 ++ S2 ++ f2`: two unified diffs for two DISTINCT flat names `name1`, `name2` (the names their `---` lines
    yield under `-p`), each a valid script of its target, inert filler before, between and after.  Then the exit status is 0,
    both targets hold their new contents (old modes kept) and every other path of the tree is unchanged. -/
theorem C11_run_two (ho : GuessOpts o pname) (hreal : o.dryRun = false) (hs0 : CleanStart s0)
    (hpn : pname ≠ []) (hpd : pname ≠ [45])
    (hd1 : UnifiedDiff f0 old1 new1 oldt1 newt1 hs1) (hd2 : UnifiedDiff f1 old2 new2 oldt2 newt2 hs2)
    (hf2i : ∀ l ∈ f2, inertLine l.content = true) (hf2p : ∀ l ∈ f2, lfPlain l = true)
    (hmk1 : NoMarkerHead f1) (hmk2 : NoMarkerHead f2)
    (hn1 : flatName name1) (hn2 : flatName name2) (hdist : name1 ≠ name2)
    (hold1 : old1 ≠ devNull) (hstrip1 : stripPath old1 o.strip = name1)
    (hold2 : old2 ≠ devNull) (hstrip2 : stripPath old2 o.strip = name2)
    (ht1 : s0.fs.lookup name1 = some (.file bytes1 m1)) (hw1 : m1 &&& writeMask ≠ 0)
    (ht2 : s0.fs.lookup name2 = some (.file bytes2 m2)) (hw2 : m2 &&& writeMask ≠ 0)
    (hv1 : Valid (splitLines bytes1) 0 0 hs1) (hv2 : Valid (splitLines bytes2) 0 0 hs2)
    (hpatch : s0.fs.lookup pname = some (.file
      (patchText f0 old1 new1 oldt1 newt1 hs1 ++ patchText f1 old2 new2 oldt2 newt2 hs2 ++ linesText f2) pm)) :
    (runPatch o s0).1 = 0 ∧
    (runPatch o s0).2.fs.lookup name1 = some (.file (Render.renderText o.newlineOutput (splice (splitLines bytes1) 0 hs1)) m1) ∧
    (runPatch o s0).2.fs.lookup name2 = some (.file (Render.renderText o.newlineOutput (splice (splitLines bytes2) 0 hs2)) m2) ∧
    ∀ q, q ≠ name1 → q ≠ name2 → (runPatch o s0).2.fs.lookup q = s0.fs.lookup q := by
  obtain ⟨k1, t1⟩ := job_ok (o := o) hd1 hn1 hold1 hstrip1 hw1 hv1
  obtain ⟨k2, t2⟩ := job_ok (o := o) hd2 hn2 hold2 hstrip2 hw2 hv2
  have h := C11_run_sections (pm := pm) ho hreal hs0 hpn hpd
    [⟨⟨f0, old1, new1, oldt1, newt1, hs1⟩, name1, bytes1, m1⟩, ⟨⟨f1, old2, new2, oldt2, newt2, hs2⟩, name2, bytes2, m2⟩] f2
    (by simpa [streamText, Sec.text, List.append_assoc] using hpatch) (by simp)
    (by
      intro j hj
      simp only [List.mem_cons, List.not_mem_nil, or_false] at hj
      rcases hj with rfl | rfl
      · exact k1
      · exact k2)
    (by
      intro j hj
      simp only [List.mem_cons, List.not_mem_nil, or_false] at hj
      rcases hj with rfl | rfl
      · exact t1
      · exact t2)
    (by
      intro j hj
      simp only [List.mem_cons, List.not_mem_nil, or_false] at hj
      rcases hj with rfl | rfl
      · exact ht1
      · exact ht2)
    (by simp [hdist])
    (by
      intro j hj
      simp only [List.drop_succ_cons, List.drop_zero, List.mem_singleton] at hj
      subst hj
      exact hmk1)
    hf2i hf2p hmk2
  obtain ⟨e0, e1, e2⟩ := h
  refine ⟨e0, e1 ⟨⟨f0, old1, new1, oldt1, newt1, hs1⟩, name1, bytes1, m1⟩ (by simp),
    e1 ⟨⟨f1, old2, new2, oldt2, newt2, hs2⟩, name2, bytes2, m2⟩ (by simp), ?_⟩
  intro q hq1 hq2
  apply e2
  intro j hj
  simp only [List.mem_cons, List.not_mem_nil, or_false] at hj
  rcases hj with rfl | rfl
  · exact hq1
  · exact hq2

/-- the state `s` with the tree `fs` in which the patch file `pname` holds `text` (mode `pm`) -/
def withPatch (s : DState) (fs : Fs) (pname text : Bytes) (pm : Nat) : DState :=
  { s with fs := fs.set pname (.file text pm) }

theorem cleanStart_withPatch (hs0 : CleanStart s0) (fs : Fs) (hroot : fs.isRoot = true) (text : Bytes) :
    CleanStart (withPatch s0 fs pname text pm) :=
  ⟨hs0.cwd, hs0.noFault, hs0.noFailure, hs0.noWrites, hs0.noRemovals, hroot⟩

theorem unifiedDiff_bare {filler : List Line} {old new oldt newt : Bytes} {hs : List Hunk}
    (hd : UnifiedDiff filler old new oldt newt hs) : UnifiedDiff [] old new oldt newt hs :=
  { hd with fillerInert := by simp, fillerPlain := by simp }

/-- **C11, literally**: applying the file that concatenates the two patches (with inert text before, between and after) has
    the same effect as applying the sections one after another.  `both`: the run on `f0 ++ S1 ++ f1 ++ S2 ++ f2`; `first`: the
    run on `S1` alone; `second`: the run on `S2` alone in the tree `first` left (the patch file replaced).  All three end with
    exit status 0, and the trees after `both` and after `second` agree at every path except the patch file itself. -/
theorem C11_run_two_sequential (ho : GuessOpts o pname) (hreal : o.dryRun = false) (hs0 : CleanStart s0)
    (hpn : pname ≠ []) (hpd : pname ≠ [45])
    (hd1 : UnifiedDiff f0 old1 new1 oldt1 newt1 hs1) (hd2 : UnifiedDiff f1 old2 new2 oldt2 newt2 hs2)
    (hf2i : ∀ l ∈ f2, inertLine l.content = true) (hf2p : ∀ l ∈ f2, lfPlain l = true)
    (hmk1 : NoMarkerHead f1) (hmk2 : NoMarkerHead f2)
    (hn1 : flatName name1) (hn2 : flatName name2) (hdist : name1 ≠ name2) (hp1 : name1 ≠ pname) (hp2 : name2 ≠ pname)
    (hold1 : old1 ≠ devNull) (hstrip1 : stripPath old1 o.strip = name1)
    (hold2 : old2 ≠ devNull) (hstrip2 : stripPath old2 o.strip = name2)
    (ht1 : s0.fs.lookup name1 = some (.file bytes1 m1)) (hw1 : m1 &&& writeMask ≠ 0)
    (ht2 : s0.fs.lookup name2 = some (.file bytes2 m2)) (hw2 : m2 &&& writeMask ≠ 0)
    (hv1 : Valid (splitLines bytes1) 0 0 hs1) (hv2 : Valid (splitLines bytes2) 0 0 hs2) :
    let both := runPatch o (withPatch s0 s0.fs pname
      (patchText f0 old1 new1 oldt1 newt1 hs1 ++ patchText f1 old2 new2 oldt2 newt2 hs2 ++ linesText f2) pm)
    let first := runPatch o (withPatch s0 s0.fs pname (patchText [] old1 new1 oldt1 newt1 hs1) pm)
    let second := runPatch o (withPatch s0 first.2.fs pname (patchText [] old2 new2 oldt2 newt2 hs2) pm)
    both.1 = 0 ∧ first.1 = 0 ∧ second.1 = 0 ∧ ∀ q, q ≠ pname → both.2.fs.lookup q = second.2.fs.lookup q := by
  intro both first second
  obtain ⟨k1, t1⟩ := job_ok (o := o) hd1 hn1 hold1 hstrip1 hw1 hv1
  obtain ⟨k2, t2⟩ := job_ok (o := o) hd2 hn2 hold2 hstrip2 hw2 hv2
  obtain ⟨k1', t1'⟩ := job_ok (o := o) (unifiedDiff_bare hd1) hn1 hold1 hstrip1 hw1 hv1
  obtain ⟨k2', t2'⟩ := job_ok (o := o) (unifiedDiff_bare hd2) hn2 hold2 hstrip2 hw2 hv2
  have hnilF : FillerOk [] := ⟨by simp, by simp⟩
  have hnilM : NoMarkerHead [] := fun l hl => by cases hl
  -- the run on both
  obtain ⟨b1, b2⟩ := runPatch_jobs ho hreal
    (cleanStart_withPatch (pname := pname) (pm := pm) hs0 s0.fs hs0.root
      (patchText f0 old1 new1 oldt1 newt1 hs1 ++ patchText f1 old2 new2 oldt2 newt2 hs2 ++ linesText f2)) hpn hpd
    [⟨⟨f0, old1, new1, oldt1, newt1, hs1⟩, name1, bytes1, m1⟩, ⟨⟨f1, old2, new2, oldt2, newt2, hs2⟩, name2, bytes2, m2⟩] f2 pm
    (by simp [withPatch, Fs.lookup_set_self, streamText, Sec.text, List.append_assoc]) (by simp)
    (by
      intro j hj
      simp only [List.mem_cons, List.not_mem_nil, or_false] at hj
      rcases hj with rfl | rfl
      · exact k1
      · exact k2)
    (by
      intro j hj
      simp only [List.mem_cons, List.not_mem_nil, or_false] at hj
      rcases hj with rfl | rfl
      · exact t1
      · exact t2)
    (by
      intro j hj
      simp only [List.mem_cons, List.not_mem_nil, or_false] at hj
      rcases hj with rfl | rfl
      · show (s0.fs.set pname _).lookup name1 = _
        rw [Fs.lookup_set_ne _ _ _ _ hp1]; exact ht1
      · show (s0.fs.set pname _).lookup name2 = _
        rw [Fs.lookup_set_ne _ _ _ _ hp2]; exact ht2)
    (by simp [hdist])
    (by
      intro j hj
      simp only [List.drop_succ_cons, List.drop_zero, List.mem_singleton] at hj
      subst hj
      exact hmk1)
    ⟨hf2i, fun l hl => lfPlain_term (hf2p l hl)⟩ hf2p hmk2
  -- the run on the first section alone
  obtain ⟨a1, a2⟩ := runPatch_jobs ho hreal
    (cleanStart_withPatch (pname := pname) (pm := pm) hs0 s0.fs hs0.root (patchText [] old1 new1 oldt1 newt1 hs1)) hpn hpd
    [⟨⟨[], old1, new1, oldt1, newt1, hs1⟩, name1, bytes1, m1⟩] [] pm
    (by simp [withPatch, Fs.lookup_set_self, streamText, Sec.text, linesText]) (by simp)
    (by intro j hj; simp only [List.mem_singleton] at hj; subst hj; exact k1')
    (by intro j hj; simp only [List.mem_singleton] at hj; subst hj; exact t1')
    (by
      intro j hj; simp only [List.mem_singleton] at hj; subst hj
      show (s0.fs.set pname _).lookup name1 = _
      rw [Fs.lookup_set_ne _ _ _ _ hp1]; exact ht1)
    (by simp) (by simp) hnilF (by simp) hnilM
  have a2' : first.2.fs = (s0.fs.set pname (.file (patchText [] old1 new1 oldt1 newt1 hs1) pm)).set name1
      (.file (Render.renderText o.newlineOutput (splice (splitLines bytes1) 0 hs1)) m1) := a2
  -- the run on the second section alone, in the tree the first run left
  obtain ⟨c1, c2⟩ := runPatch_jobs ho hreal
    (cleanStart_withPatch (pname := pname) (pm := pm) hs0 first.2.fs (by rw [a2']; exact hs0.root)
      (patchText [] old2 new2 oldt2 newt2 hs2)) hpn hpd
    [⟨⟨[], old2, new2, oldt2, newt2, hs2⟩, name2, bytes2, m2⟩] [] pm
    (by simp [withPatch, Fs.lookup_set_self, streamText, Sec.text, linesText]) (by simp)
    (by intro j hj; simp only [List.mem_singleton] at hj; subst hj; exact k2')
    (by intro j hj; simp only [List.mem_singleton] at hj; subst hj; exact t2')
    (by
      intro j hj; simp only [List.mem_singleton] at hj; subst hj
      show (first.2.fs.set pname _).lookup name2 = _
      rw [Fs.lookup_set_ne _ _ _ _ hp2, a2', Fs.lookup_set_ne _ _ _ _ (Ne.symm hdist), Fs.lookup_set_ne _ _ _ _ hp2]
      exact ht2)
    (by simp) (by simp) hnilF (by simp) hnilM
  refine ⟨b1, a1, c1, ?_⟩
  intro q hq
  have b2' : both.2.fs = ((s0.fs.set pname (.file
      (patchText f0 old1 new1 oldt1 newt1 hs1 ++ patchText f1 old2 new2 oldt2 newt2 hs2 ++ linesText f2) pm)).set name1
      (.file (Render.renderText o.newlineOutput (splice (splitLines bytes1) 0 hs1)) m1)).set name2
      (.file (Render.renderText o.newlineOutput (splice (splitLines bytes2) 0 hs2)) m2) := b2
  have c2' : second.2.fs = (first.2.fs.set pname (.file (patchText [] old2 new2 oldt2 newt2 hs2) pm)).set name2
      (.file (Render.renderText o.newlineOutput (splice (splitLines bytes2) 0 hs2)) m2) := c2
  rw [b2', c2', a2']
  by_cases e2 : q = name2
  · subst e2
    rw [Fs.lookup_set_self, Fs.lookup_set_self]
  · rw [Fs.lookup_set_ne _ _ _ _ e2, Fs.lookup_set_ne _ _ _ _ e2, Fs.lookup_set_ne _ _ _ _ hq]
    by_cases e1 : q = name1
    · subst e1
      rw [Fs.lookup_set_self, Fs.lookup_set_self]
    · rw [Fs.lookup_set_ne _ _ _ _ e1, Fs.lookup_set_ne _ _ _ _ e1, Fs.lookup_set_ne _ _ _ _ hq,
        Fs.lookup_set_ne _ _ _ _ hq]

end

/-! ## non-vacuity: a concrete two-section stream

A mail-like stream: `From: x` / blank / `Subject: y`, a one-hunk diff for `f` ("a\nb\nc\n": `b` becomes `B`), a blank line and
`-- next file`, a one-hunk diff for `g` ("x\ny\n", mode 0600: `y` becomes `Y`), `-- ` / `sent by mail`.  Every hypothesis of
`parseAll_two_sections`, `C11_run_two` and `C11_run_two_sequential` is discharged by evaluation in the kernel (`decide` / `rfl`);
independently the executable model is run on the same data (`#guard`). -/
namespace TwoSections

def nameF : Bytes := [102]                                  -- "f"
def nameG : Bytes := [103]                                  -- "g"
def pname : Bytes := [112, 46, 100, 105, 102, 102]          -- "p.diff"
def bytesF : Bytes := [97, 10, 98, 10, 99, 10]              -- "a\nb\nc\n"
def bytesG : Bytes := [120, 10, 121, 10]                    -- "x\ny\n"
def t0 : Bytes := [50, 48, 50, 48]                          -- "2020"
def t1 : Bytes := [50, 48, 50, 49]                          -- "2021"
def hkF : Hunk := ⟨⟨1, 3⟩, ⟨1, 3⟩, [⟨SP, ⟨[97], .lf⟩⟩, ⟨MINUS, ⟨[98], .lf⟩⟩, ⟨PLUS, ⟨[66], .lf⟩⟩, ⟨SP, ⟨[99], .lf⟩⟩]⟩
def hkG : Hunk := ⟨⟨1, 2⟩, ⟨1, 2⟩, [⟨SP, ⟨[120], .lf⟩⟩, ⟨MINUS, ⟨[121], .lf⟩⟩, ⟨PLUS, ⟨[89], .lf⟩⟩]⟩
/-- "From: x" / "" / "Subject: y" -/
def f0 : List Line := [⟨[70, 114, 111, 109, 58, 32, 120], .lf⟩, ⟨[], .lf⟩, ⟨[83, 117, 98, 106, 101, 99, 116, 58, 32, 121], .lf⟩]
/-- "" / "-- next file" -/
def f1 : List Line := [⟨[], .lf⟩, ⟨[45, 45, 32, 110, 101, 120, 116, 32, 102, 105, 108, 101], .lf⟩]
/-- "-- " / "sent by mail" -/
def f2 : List Line := [⟨[45, 45, 32], .lf⟩, ⟨[115, 101, 110, 116, 32, 98, 121, 32, 109, 97, 105, 108], .lf⟩]

/-- the bytes of a stream with these two diffs and the given fillers -/
def stream (a b c : List Line) : Bytes :=
  patchText a nameF nameF t0 t1 [hkF] ++ patchText b nameG nameG t0 t1 [hkG] ++ linesText c
def text : Bytes := stream f0 f1 f2
def tree (ptext : Bytes) : Fs :=
  { nodes := [(nameF, .file bytesF 0o644), (nameG, .file bytesG 0o600), (pname, .file ptext 0o644)] }
def s0 : DState := { fs := tree text }
def o : Options := { defaultOptions with patchFile := pname }

#guard f0 == [⟨str "From: x", .lf⟩, ⟨[], .lf⟩, ⟨str "Subject: y", .lf⟩] && f1 == [⟨[], .lf⟩, ⟨str "-- next file", .lf⟩] &&
  f2 == [⟨str "-- ", .lf⟩, ⟨str "sent by mail", .lf⟩]
#guard text == str ("From: x\n\nSubject: y\n--- f\t2020\n+++ f\t2021\n@@ -1,3 +1,3 @@\n a\n-b\n+B\n c\n" ++
  "\n-- next file\n--- g\t2020\n+++ g\t2021\n@@ -1,2 +1,2 @@\n x\n-y\n+Y\n-- \nsent by mail\n")

theorem guessOpts : GuessOpts o pname :=
  { noOperand := rfl, noOut := rfl, noBackup := rfl, noReverse := rfl, noDefine := rfl, fuzz := by decide, quiet := rfl,
    file := { patchFile := rfl, noDir := rfl, noHelp := rfl, noVersion := rfl, noContext := rfl, noNormal := rfl, noEd := rfl } }

theorem filler0 : (∀ l ∈ f0, inertLine l.content = true) ∧ (∀ l ∈ f0, lfPlain l = true) :=
  fillerOk_of_all f0 (by decide)
theorem filler1 : (∀ l ∈ f1, inertLine l.content = true) ∧ (∀ l ∈ f1, lfPlain l = true) :=
  fillerOk_of_all f1 (by decide)
theorem filler2 : (∀ l ∈ f2, inertLine l.content = true) ∧ (∀ l ∈ f2, lfPlain l = true) :=
  fillerOk_of_all f2 (by decide)
theorem mark1 : NoMarkerHead f1 := noMarkerHead_of_head f1 (by decide)
theorem mark2 : NoMarkerHead f2 := noMarkerHead_of_head f2 (by decide)

theorem diffF : UnifiedDiff f0 nameF nameF t0 t1 [hkF] :=
  { fillerInert := filler0.1, fillerPlain := filler0.2, oldName := ⟨by unfold Header.plainName; decide, by decide⟩,
    newName := ⟨by unfold Header.plainName; decide, by decide⟩, oldStamp := by decide,
    newStamp := by decide, nonEmpty := by decide, writable := by decide, change := by decide }
theorem diffG : UnifiedDiff f1 nameG nameG t0 t1 [hkG] :=
  { fillerInert := filler1.1, fillerPlain := filler1.2, oldName := ⟨by unfold Header.plainName; decide, by decide⟩,
    newName := ⟨by unfold Header.plainName; decide, by decide⟩, oldStamp := by decide,
    newStamp := by decide, nonEmpty := by decide, writable := by decide, change := by decide }

/-- **the parser theorem applies** (kernel-checked): the stream gives the patch of the first diff, then the patch of the
    second — names `f` / `g`, time stamps, format unified, operation change, the hunks as they are -/
theorem parser_applies :
    patchesOf .unknown 0 (f0 ++ sectionLines nameF nameF t0 t1 [hkF] ++ f1 ++ sectionLines nameG nameG t0 t1 [hkG] ++ f2) =
      some [{ format := .unified, operation := .change, oldPath := nameF, newPath := nameF, oldTime := t0, newTime := t1,
              hunks := [hkF] },
            { format := .unified, operation := .change, oldPath := nameG, newPath := nameG, oldTime := t0, newTime := t1,
              hunks := [hkG] }] := by
  have h := (parseAll_two_sections .unknown (Or.inl rfl) 0 f0 f1 f2 nameF nameF t0 t1 [hkF] nameG nameG t0 t1 [hkG]
    ⟨filler0.1, fun l hl => lfPlain_term (filler0.2 l hl)⟩ ⟨filler1.1, fun l hl => lfPlain_term (filler1.2 l hl)⟩
    ⟨filler2.1, fun l hl => lfPlain_term (filler2.2 l hl)⟩ mark1 mark2
    (by unfold plainName; decide) (by unfold plainName; decide) (by decide) (by decide) (by decide) (by decide)
    (by unfold plainName; decide) (by unfold plainName; decide) (by decide) (by decide) (by decide) (by decide)).2.2
  rw [h]
  have e : ∀ n : Bytes, n = nameF ∨ n = nameG → (if n = devNull then n else stripPath n 0) = n := by
    intro n hn
    rw [if_neg (by rw [Names.devNull_eq]; rcases hn with rfl | rfl <;> decide), Names.stripPath_zero]
  simp only [sectionPatch, e nameF (Or.inl rfl), e nameG (Or.inr rfl)]
  rfl

/-- **the program theorem applies** (kernel-checked): exit status 0, `f` = "a\nB\nc\n" (0644), `g` = "x\nY\n" (0600), nothing
    else touched -/
theorem run_applies :
    (runPatch o s0).1 = 0 ∧
    (runPatch o s0).2.fs.lookup nameF = some (.file [97, 10, 66, 10, 99, 10] 0o644) ∧
    (runPatch o s0).2.fs.lookup nameG = some (.file [120, 10, 89, 10] 0o600) ∧
    ∀ q, q ≠ nameF → q ≠ nameG → (runPatch o s0).2.fs.lookup q = s0.fs.lookup q := by
  have h := C11_run_two (pm := 0o644) guessOpts rfl (s0 := s0) ⟨rfl, rfl, rfl, rfl, rfl, rfl⟩ (by decide) (by decide) diffF diffG
    filler2.1 filler2.2 mark1 mark2 (name1 := nameF) (name2 := nameG) (by decide) (by decide) (by decide)
    (flat_ne_devNull (by decide)) (stripPath_flat (by decide) (by decide))
    (flat_ne_devNull (by decide)) (stripPath_flat (by decide) (by decide))
    (bytes1 := bytesF) (m1 := 0o644) rfl (by decide) (bytes2 := bytesG) (m2 := 0o600) rfl (by decide)
    (validB_sound _ _ _ _ (by decide)) (validB_sound _ _ _ _ (by decide)) rfl
  have r1 : Render.renderText o.newlineOutput (splice (splitLines bytesF) 0 [hkF]) = [97, 10, 66, 10, 99, 10] := by decide
  have r2 : Render.renderText o.newlineOutput (splice (splitLines bytesG) 0 [hkG]) = [120, 10, 89, 10] := by decide
  rw [r1, r2] at h
  exact h

/-- the sequential form applies as well (kernel-checked): one run on the whole stream = the run on the first diff alone
    followed by the run on the second diff alone -/
theorem sequential_applies :
    let both := runPatch o (withPatch s0 s0.fs pname text 0o644)
    let first := runPatch o (withPatch s0 s0.fs pname (patchText [] nameF nameF t0 t1 [hkF]) 0o644)
    let second := runPatch o (withPatch s0 first.2.fs pname (patchText [] nameG nameG t0 t1 [hkG]) 0o644)
    both.1 = 0 ∧ first.1 = 0 ∧ second.1 = 0 ∧ ∀ q, q ≠ pname → both.2.fs.lookup q = second.2.fs.lookup q :=
  C11_run_two_sequential (pm := 0o644) guessOpts rfl (s0 := s0) ⟨rfl, rfl, rfl, rfl, rfl, rfl⟩ (by decide) (by decide) diffF diffG
    filler2.1 filler2.2 mark1 mark2 (name1 := nameF) (name2 := nameG) (by decide) (by decide) (by decide) (by decide) (by decide)
    (flat_ne_devNull (by decide)) (stripPath_flat (by decide) (by decide))
    (flat_ne_devNull (by decide)) (stripPath_flat (by decide) (by decide))
    (bytes1 := bytesF) (m1 := 0o644) rfl (by decide) (bytes2 := bytesG) (m2 := 0o600) rfl (by decide)
    (validB_sound _ _ _ _ (by decide)) (validB_sound _ _ _ _ (by decide))

-- independently, the executable model (executable tests): the parser returns two patches with the right names and hunks …
#guard (patchesOf .unknown 0 (splitLines text)).map (fun ps => ps.map fun p => (p.oldPath, p.newPath, p.format, p.operation, p.hunks))
  == some [(nameF, nameF, .unified, .change, [hkF]), (nameG, nameG, .unified, .change, [hkG])]
-- … the same as for the stream without any filler, and the concatenation of what the sections give alone
#guard patchesOf .unknown 0 (splitLines text) == patchesOf .unknown 0 (splitLines (stream [] [] []))
#guard patchesOf .unknown 0 (splitLines text) ==
  (do let a ← patchesOf .unknown 0 (splitLines (patchText [] nameF nameF t0 t1 [hkF]))
      let b ← patchesOf .unknown 0 (splitLines (patchText [] nameG nameG t0 t1 [hkG]))
      pure (a ++ b))
-- … and the program patches both files, exit status 0, the patch file untouched, the loop left on "trailing garbage"
#guard (runPatch o s0).1 == 0
#guard (runPatch o s0).2.fs.lookup nameF == some (.file (str "a\nB\nc\n") 0o644)
#guard (runPatch o s0).2.fs.lookup nameG == some (.file (str "x\nY\n") 0o600)
#guard (runPatch o s0).2.fs.lookup pname == s0.fs.lookup pname
#guard (runPatch o s0).2.out == [.file nameF false, .file nameG false]
#guard (runPatch o s0).2.par.s.rest == f2 && !(runPatch o s0).2.par.s.eof
-- no trailer: the loop is left on the end-of-file flag
#guard (runPatch o { fs := tree (stream f0 f1 []) }).1 == 0 && (runPatch o { fs := tree (stream f0 f1 []) }).2.par.s.eof &&
  (runPatch o { fs := tree (stream f0 f1 []) }).2.fs.lookup nameG == some (.file (str "x\nY\n") 0o600)

/-! ### outside the theorems, evaluated: the end of a `git format-patch` mail

`inertLine` is conservative: it excludes every line that begins with a digit, so the version line `2.39.0` that ends such a
mail is not filler in the sense of the theorems.  The model ignores it all the same — between sections and at the end, also
when the very last line has lost its newline. -/
def gitBetween : List Line := [⟨str "-- ", .lf⟩, ⟨str "2.39.0", .lf⟩, ⟨[], .lf⟩, ⟨str "From: z", .lf⟩]
def gitEnd : List Line := [⟨str "-- ", .lf⟩, ⟨str "2.39.0", .lf⟩]
#guard !inertLine (str "2.39.0")
#guard patchesOf .unknown 0 (splitLines (stream f0 gitBetween gitEnd)) == patchesOf .unknown 0 (splitLines (stream [] [] []))
#guard (runPatch o { fs := tree (stream f0 gitBetween gitEnd) }).1 == 0 &&
  (runPatch o { fs := tree (stream f0 gitBetween gitEnd) }).2.fs.lookup nameF == some (.file (str "a\nB\nc\n") 0o644) &&
  (runPatch o { fs := tree (stream f0 gitBetween gitEnd) }).2.fs.lookup nameG == some (.file (str "x\nY\n") 0o600)
#guard (runPatch o { fs := tree (stream f0 gitBetween gitEnd).dropLast }).1 == 0 &&
  (runPatch o { fs := tree (stream f0 gitBetween gitEnd).dropLast }).2.fs.lookup nameG == some (.file (str "x\nY\n") 0o600)

end TwoSections

/-! ## the side condition `NoMarkerHead` is REQUIRED

The line `\ foo` is inert (`inertLine`: it starts with none of the keywords), but directly after the last line of a side of a
hunk it is read as the marker "\ No newline at end of file" of that line (`parse_unified_patch` peeks for a backslash when a
side's count reaches zero; what follows the backslash is not looked at — nor does GNU patch look).  This is an ambiguity of the
format, not a defect of the program: the stream below IS a diff for `g` whose new last line has no newline.  So with `\ foo` as
the filler between the two diffs the stream is NOT the sum of its sections: the first patch comes back with its last line marked,
and the run (exit status 0, no message) writes `g` without its final newline. -/
namespace Marker
open TwoSections

def marker : List Line := [⟨str "\\ foo", .lf⟩]
/-- the diff for `g` first, then `\ foo`, then the diff for `f` -/
def text : Bytes := patchText f0 nameG nameG t0 t1 [hkG] ++ patchText marker nameF nameF t0 t1 [hkF] ++ linesText f2
/-- the same without the marker line -/
def textOk : Bytes := patchText f0 nameG nameG t0 t1 [hkG] ++ patchText [] nameF nameF t0 t1 [hkF] ++ linesText f2

-- the filler is filler in every other respect: inert, terminated, plain — only `NoMarkerHead` fails
#guard marker.all fun l => inertLine l.content && lfPlain l
#guard (marker.head?.all fun l => l.content.head? != some BACKSLASH) == false
example : ¬ NoMarkerHead [(⟨[92, 32, 102, 111, 111], .lf⟩ : Line)] := fun h => h _ rfl (by decide)
-- without the marker line: the sum of the sections, `g` = "x\nY\n"
#guard (patchesOf .unknown 0 (splitLines textOk)).map (fun ps => ps.map (·.hunks)) == some [[hkG], [hkF]]
#guard (runPatch o { fs := tree textOk }).1 == 0 &&
  (runPatch o { fs := tree textOk }).2.fs.lookup nameG == some (.file (str "x\nY\n") 0o600)
-- with it: the last line of the first patch is marked "no newline" …
#guard (patchesOf .unknown 0 (splitLines text)).map (fun ps => ps.map (·.hunks)) ==
  some [[{ hkG with lines := [⟨SP, ⟨[120], .lf⟩⟩, ⟨MINUS, ⟨[121], .lf⟩⟩, ⟨PLUS, ⟨[89], .none⟩⟩] }], [hkF]]
#guard patchesOf .unknown 0 (splitLines text) != patchesOf .unknown 0 (splitLines textOk)
-- … and the run, exit status 0 and silent, leaves `g` without its final newline (`f` is patched as before)
#guard (runPatch o { fs := tree text }).1 == 0 && (runPatch o { fs := tree text }).2.out == [.file nameG false, .file nameF false]
#guard (runPatch o { fs := tree text }).2.fs.lookup nameG == some (.file (str "x\nY") 0o600)
#guard (runPatch o { fs := tree text }).2.fs.lookup nameF == some (.file (str "a\nB\nc\n") 0o644)

end Marker

/-! ## the side condition "filler lines have their terminator" is needed on `List Line`, and costs nothing on bytes

In the model a line without terminator sets the end-of-file flag of the stream when it is read (it is the last line of a
`File`), so an unterminated line in the MIDDLE of a list of lines ends the section loop early.  No text has such a line:
`splitLines` yields `.none` for the last line only (C14); `parseAll_text_sections` and the program theorems are stated on
bytes, where the condition is part of "the filler is what was written" (`lfPlain`). -/
namespace Unterminated
open TwoSections

def note : List Line := [⟨str "note", .none⟩]
#guard note.all fun l => inertLine l.content
#guard (patchesOf .unknown 0 (f0 ++ sectionLines nameF nameF t0 t1 [hkF] ++ note ++ sectionLines nameG nameG t0 t1 [hkG] ++ f2)).map
  (·.map (·.oldPath)) == some [nameF]

end Unterminated

end PatchModel.C11

#print axioms PatchModel.C11.parseAll_sections
#print axioms PatchModel.C11.parseAll_one_section
#print axioms PatchModel.C11.parseAll_sections_sum
#print axioms PatchModel.C11.parseAll_filler_irrelevant
#print axioms PatchModel.C11.parseAll_text_sections
#print axioms PatchModel.C11.parseAll_two_sections
#print axioms PatchModel.C11.C11_run_sections
#print axioms PatchModel.C11.C11_run_two
#print axioms PatchModel.C11.C11_run_two_sequential
#print axioms PatchModel.C11.TwoSections.parser_applies
#print axioms PatchModel.C11.TwoSections.run_applies
#print axioms PatchModel.C11.TwoSections.sequential_applies
